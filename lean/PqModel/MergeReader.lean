import PqModel.MergeKProof

/-! # C09 — `mergeRowReaders` as a whole: sessions of `ReadRows` calls, and `dedupe` -/
namespace PqModel.Merge

def Reader.Ok : Reader → Prop
  | .empty => True
  | .one b => b.win = []
  | .two s => s.Ok
  | .many s => s.Ok

theorem emits_one (src : List Row) (n : Nat) : Emits [src] (src.take n) [src.drop n] := by
  have := emits_prefix (ins := [src]) (i := 0) (src.take n) (src.drop n) (by simp) (by
    intro x _ j l y hj hl _
    match j, hj, hl with
    | j + 1, _, hl => simp at hl)
  simpa using this

/-- one `ReadRows` call of any of the readers `mergeRowReaders` returns -/
theorem Reader.readRows_emits (r : Reader) (m : Nat) (hok : r.Ok) (hs : ∀ l ∈ r.rem, SortedK l) :
    Emits r.rem (r.readRows m).1 (r.readRows m).2.2.rem ∧ (r.readRows m).2.2.Ok ∧
    ((r.readRows m).2.1 = true → ∀ l ∈ (r.readRows m).2.2.rem, l = []) := by
  cases r with
  | empty => exact ⟨Emits.nil, trivial, fun _ l hl => by simp [Reader.rem, Reader.readRows] at hl⟩
  | one b =>
    have hw : b.win = [] := hok
    simp only [Reader.readRows]
    split
    · rename_i hsrc
      refine ⟨Emits.nil, hok, ?_⟩
      intro _ l hl
      simp [Reader.rem, Buf.rem, hw, hsrc] at hl; exact hl
    · refine ⟨?_, hw, by simp⟩
      simp only [Reader.rem, Buf.rem, hw, List.nil_append]
      exact emits_one _ _
  | two s =>
    obtain ⟨h1, h2, h3⟩ := M2.readRows_emits s m hok hs
    refine ⟨h1, ?_, h3⟩
    intro hi
    have : (s.readRows m).2.2.initialized = true := h2
    rw [this] at hi; cases hi
  | many s =>
    obtain ⟨h1, h2, _, h4⟩ := MK.readRows_emits s m hok hs
    exact ⟨h1, h2, h4⟩

/-- a whole session: all batches together are one `Emits` schedule; if io.EOF was reached nothing is left -/
theorem Reader.session_emits : ∀ (bs : List Nat) (r : Reader), r.Ok → (∀ l ∈ r.rem, SortedK l) →
    Emits r.rem (r.session bs).1.flatten (r.session bs).2.2.rem ∧
    ((r.session bs).2.1 = true → ∀ l ∈ (r.session bs).2.2.rem, l = [])
  | [], r, _, _ => by simp only [Reader.session, List.flatten_nil]; exact ⟨Emits.nil, by simp⟩
  | m :: ms, r, hok, hs => by
    obtain ⟨h1, h2, h3⟩ := Reader.readRows_emits r m hok hs
    simp only [Reader.session]
    split
    · rename_i heof
      simp only [List.flatten_cons, List.flatten_nil, List.append_nil]
      exact ⟨h1, fun _ => h3 heof⟩
    · have ih := Reader.session_emits ms _ h2 (emits_sorted h1 hs).2.2
      simp only [List.flatten_cons]
      exact ⟨Emits.trans h1 ih.1, ih.2⟩

theorem mkBufs_rem (inputs : List (List Row)) (refills : List (List Nat)) :
    (mkBufs inputs refills).map Buf.rem = inputs := by
  apply List.ext_getElem
  · simp [mkBufs]
  · intro i h1 h2
    simp [mkBufs, Buf.rem, Buf.fresh, List.getD_eq_getElem?_getD, List.getElem?_eq_getElem h2]

theorem Reader.new_rem (inputs : List (List Row)) (refills : List (List Nat)) :
    (Reader.new inputs refills).rem = inputs := by
  unfold Reader.new
  split
  · rfl
  · simp [Reader.rem, Buf.rem, Buf.fresh]
  · simp [Reader.rem, M2.new, Buf.rem, Buf.fresh]
  · simp only [Reader.rem, MK.new]; exact mkBufs_rem inputs refills

theorem Reader.new_ok (inputs : List (List Row)) (refills : List (List Nat)) :
    (Reader.new inputs refills).Ok := by
  unfold Reader.new
  split
  · trivial
  · rfl
  · intro _
    constructor <;> (intro b hb; simp [M2.new] at hb; subst hb; rfl)
  · refine ⟨fun _ b hb => ?_, fun h => by simp [MK.new] at h⟩
    simp only [MK.new, mkBufs, List.mem_map] at hb
    obtain ⟨i, _, rfl⟩ := hb
    rfl

theorem tagInputs_get {keys : List (List Int)} {i : Nat} {l : List Row} (h : (tagInputs keys)[i]? = some l) :
    ∃ ks, keys[i]? = some ks ∧ l = tagList i ks := by
  simp only [tagInputs, List.getElem?_map, Option.map_eq_some_iff] at h
  obtain ⟨j, hj, rfl⟩ := h
  have hlt := lt_of_getElem?_some hj
  simp only [List.length_range] at hlt
  have : j = i := by
    have : i = j := by simpa [List.getElem?_range hlt] using hj
    exact this.symm
  subst this
  exact ⟨keys[j], List.getElem?_eq_getElem hlt, by simp [List.getD_eq_getElem?_getD, List.getElem?_eq_getElem hlt]⟩

theorem tagInputs_wellTagged (keys : List (List Int)) : WellTagged (tagInputs keys) := by
  intro i l hl x hx
  obtain ⟨ks, _, rfl⟩ := tagInputs_get hl
  simp only [tagList, List.mem_map] at hx
  obtain ⟨j, _, rfl⟩ := hx
  rfl

theorem tagList_sorted (i : Nat) (ks : List Int) (h : ks.Pairwise (· ≤ ·)) : SortedK (tagList i ks) := by
  rw [SortedK, List.pairwise_iff_getElem]
  intro a b ha hb hab
  simp only [tagList, List.length_map, List.length_range] at ha hb
  simp only [tagList, List.getElem_map, List.getElem_range, List.getD_eq_getElem?_getD,
    List.getElem?_eq_getElem ha, List.getElem?_eq_getElem hb, Option.getD_some]
  exact List.pairwise_iff_getElem.mp h a b ha hb hab

theorem tagInputs_sorted (keys : List (List Int)) (h : ∀ ks ∈ keys, ks.Pairwise (· ≤ ·)) :
    ∀ l ∈ tagInputs keys, SortedK l := by
  intro l hl
  obtain ⟨i, hi⟩ := List.getElem?_of_mem hl
  obtain ⟨ks, hks, rfl⟩ := tagInputs_get hi
  exact tagList_sorted i ks (h ks (List.mem_of_getElem? hks))

/-! ## dedupe -/

theorem dedupeBatch_append : ∀ (a b : List Row) (last : Option Row),
    dedupeBatch last (a ++ b) =
      ((dedupeBatch last a).1 ++ (dedupeBatch (dedupeBatch last a).2.2 b).1,
       (dedupeBatch last a).2.1 ++ (dedupeBatch (dedupeBatch last a).2.2 b).2.1,
       (dedupeBatch (dedupeBatch last a).2.2 b).2.2)
  | [], b, last => by simp [dedupeBatch]
  | row :: rows, b, last => by
    cases last with
    | none =>
      simp only [List.cons_append, dedupeBatch]
      rw [dedupeBatch_append rows b (some row)]
    | some l =>
      simp only [List.cons_append, dedupeBatch]
      split
      · rw [dedupeBatch_append rows b (some l)]; simp
      · rw [dedupeBatch_append rows b (some row)]; simp

/-- what the caller of the dedupe reader receives does not depend on how the rows arrive in batches -/
theorem dedupeReader_flatten : ∀ (bs : List (List Row)) (last : Option Row),
    dedupeReader last bs = (dedupeBatch last bs.flatten).1
  | [], last => by simp [dedupeReader, dedupeBatch]
  | b :: bs, last => by
    simp only [dedupeReader, deduplicate, List.flatten_cons, dedupeBatch_append]
    rw [dedupeReader_flatten bs]
    simp

/-- on a sorted sequence the kept rows are a subsequence with strictly increasing keys that covers
    every key: exactly one row per distinct key -/
theorem dedupeBatch_sorted : ∀ (L : List Row) (last : Option Row), SortedK L →
    (∀ l, last = some l → ∀ x ∈ L, l.key ≤ x.key) →
    (dedupeBatch last L).1.Sublist L ∧
    (dedupeBatch last L).1.Pairwise (fun a b => a.key < b.key) ∧
    (∀ y ∈ (dedupeBatch last L).1, ∀ l, last = some l → l.key < y.key) ∧
    (∀ x ∈ L, (∃ y ∈ (dedupeBatch last L).1, y.key = x.key) ∨ (∃ l, last = some l ∧ l.key = x.key))
  | [], last, _, _ => by simp [dedupeBatch]
  | row :: rows, last, hs, hl => by
    have hs' := (List.pairwise_cons.mp hs).2
    have hrow := (List.pairwise_cons.mp hs).1
    have keep : (dedupeBatch (some row) rows).1.Sublist rows ∧
        (dedupeBatch (some row) rows).1.Pairwise (fun a b => a.key < b.key) ∧
        (∀ y ∈ (dedupeBatch (some row) rows).1, ∀ l, some row = some l → l.key < y.key) ∧
        (∀ x ∈ rows, (∃ y ∈ (dedupeBatch (some row) rows).1, y.key = x.key) ∨ (∃ l, some row = some l ∧ l.key = x.key)) :=
      dedupeBatch_sorted rows (some row) hs' (by intro l hl' x hx; cases hl'; exact hrow x hx)
    have kept : ∀ (hlt : ∀ l, last = some l → l.key < row.key),
        (row :: (dedupeBatch (some row) rows).1).Sublist (row :: rows) ∧
        (row :: (dedupeBatch (some row) rows).1).Pairwise (fun a b => a.key < b.key) ∧
        (∀ y ∈ row :: (dedupeBatch (some row) rows).1, ∀ l, last = some l → l.key < y.key) ∧
        (∀ x ∈ row :: rows, (∃ y ∈ row :: (dedupeBatch (some row) rows).1, y.key = x.key) ∨
          (∃ l, last = some l ∧ l.key = x.key)) := by
      intro hlt
      obtain ⟨k1, k2, k3, k4⟩ := keep
      refine ⟨List.Sublist.cons_cons _ k1, List.pairwise_cons.mpr ⟨fun y hy => k3 y hy row rfl, k2⟩, ?_, ?_⟩
      · intro y hy l hl'
        rcases List.mem_cons.mp hy with rfl | hy
        · exact hlt l hl'
        · have := k3 y hy row rfl
          have := hlt l hl'
          omega
      · intro x hx
        rcases List.mem_cons.mp hx with rfl | hx
        · exact Or.inl ⟨x, by simp, rfl⟩
        · rcases k4 x hx with ⟨y, hy, e⟩ | ⟨l, hl', e⟩
          · exact Or.inl ⟨y, by simp [hy], e⟩
          · cases hl'; exact Or.inl ⟨row, by simp, e⟩
    cases last with
    | none =>
      simp only [dedupeBatch]
      exact kept (by intro l hl'; cases hl')
    | some l =>
      simp only [dedupeBatch]
      split
      · rename_i heq
        have hkey := cmp_eq.mp heq
        obtain ⟨k1, k2, k3, k4⟩ := dedupeBatch_sorted rows (some l) hs'
          (by intro l' hl' x hx; exact hl l' hl' x (by simp [hx]))
        refine ⟨List.Sublist.cons _ k1, k2, k3, ?_⟩
        intro x hx
        rcases List.mem_cons.mp hx with rfl | hx
        · exact Or.inr ⟨l, rfl, hkey.symm⟩
        · exact k4 x hx
      · rename_i hne
        have hle := hl l rfl row (by simp)
        have hne' : row.key ≠ l.key := fun h => hne (cmp_eq.mpr h)
        exact kept (by intro l' hl'; cases hl'; omega)

end PqModel.Merge
