import PqModel.SliceRepeated

/-! # `optionalPage.Slice` and `repeatedPage.Slice` with their values (C08)

`SliceRepeated.lean` mirrors the two scan loops of `repeatedPage.Slice` on the repetition levels of
pages that begin on a row boundary and stops at the bounds handed to `base.Slice`. This file closes
the rest of `Slice(i, j)`:

* MIRROR `baseSlice` — `values[i:j]` of the primitive pages (`page_int32.go` … `Slice`),
  `sliceOptionalPg` — `optionalPage.Slice` (page_optional.go:54-64),
  `sliceRepeatedPg` — `repeatedPage.Slice` (page_repeated.go:60-112: `sliceRepeated` + the base slice),
  `weave` — what `optionalPageValues.ReadValues` / `repeatedPageValues.ReadValues` deliver in total
  (page_optional.go:72-117, page_repeated.go:120-178: a null for every level below the maximum, the
  next base value otherwise, stop when the base page is exhausted).
* SPEC a page is the `encode` of a stream of triples (repetition level, definition level, value or
  null); the stream is a leading fragment of a row begun on the previous page (no level 0) followed
  by rows (`RowWF` on the repetition levels); `Slice(i, j)` must be the `encode` of rows `i..j-1`.

The nested case (an optional leaf below a repeated group, nulls at any definition level below the
maximum, empty lists, null lists) is the same Go type `repeatedPage`; nothing in the theorems
restricts the definition levels. -/
namespace PqModel.PageSlice
open PqModel.Seek

/-- (repetition level, definition level, value or null) -/
abbrev Triple := Nat × Nat × Option Nat

/-- the three arrays a `repeatedPage` holds (`rep = []` for an `optionalPage`) -/
structure Pg where
  rep : List Nat
  dfn : List Nat
  base : List Nat
deriving DecidableEq, Repr

/-- SPEC: the page that holds a stream of triples (nulls are not stored in the base page) -/
def encode (s : List Triple) : Pg := ⟨s.map (·.1), s.map (·.2.1), s.filterMap (·.2.2)⟩

/-- SPEC: the optional page of a stream (`RepetitionLevels()` is nil) -/
def encodeOpt (s : List Triple) : Pg := ⟨[], s.map (·.2.1), s.filterMap (·.2.2)⟩

/-- SPEC: a value is present exactly at the maximum definition level -/
def TripleWF (md : Nat) (t : Triple) : Prop := t.2.2.isSome = true ↔ t.2.1 = md

/-- SPEC: the repetition levels of a row -/
def RowT (r : List Triple) : Prop := RowWF (r.map (·.1))

/-- MIRROR of `values[i:j]` (e.g. page_int32.go `int32Page.Slice`) -/
def baseSlice (base : List Nat) (i j : Nat) : List Nat := (base.drop i).take (j - i)

/-- MIRROR of `optionalPage.Slice` (page_optional.go:54-64) -/
def sliceOptionalPg (md : Nat) (p : Pg) (i j : Nat) : Pg :=
  let nulls1 := ((p.dfn.take i).filter (· ≠ md)).length
  let nulls2 := (((p.dfn.drop i).take (j - i)).filter (· ≠ md)).length
  ⟨[], (p.dfn.drop i).take (j - i), baseSlice p.base (i - nulls1) (j - (nulls1 + nulls2))⟩

/-- MIRROR of `repeatedPage.Slice` (page_repeated.go:60-112) -/
def sliceRepeatedPg (md : Nat) (p : Pg) (i j : Nat) : Pg :=
  let r := sliceRepeated md p.rep p.dfn i j
  ⟨r.1.1, r.1.2, baseSlice p.base r.2.1 r.2.2⟩

/-- MIRROR of the total output of `ReadValues` over a page: `lv` = (repetition, definition) per
    slot; the loop ends early when the base page runs out (`j == 0 && err == io.EOF`) -/
def weave (md : Nat) : List (Nat × Nat) → List Nat → List Triple
  | [], _ => []
  | (r, d) :: lv, base =>
    if d = md then
      match base with
      | [] => []
      | v :: bs => (r, d, some v) :: weave md lv bs
    else (r, d, none) :: weave md lv base

def levelsOf (p : Pg) : List (Nat × Nat) := p.rep.zip p.dfn
def levelsOfOpt (p : Pg) : List (Nat × Nat) := p.dfn.map (fun d => (0, d))

/-- number of slots at the maximum definition level (= values stored in the base page) -/
def cntDef (md : Nat) (dfn : List Nat) : Nat := (dfn.filter (· == md)).length

/-! ## index arithmetic shared by both page kinds -/

theorem take_split' {α} (l : List α) (a b : Nat) (hab : a ≤ b) :
    l.take b = l.take a ++ (l.drop a).take (b - a) := by
  have : b = a + (b - a) := by omega
  rw [this, List.take_add]
  simp

/-- `i - numNulls1`, `j - (numNulls1 + numNulls2)` are the numbers of stored values in front of
    slots `a` and `b` -/
theorem null_bounds (md : Nat) (dfn : List Nat) (a b : Nat) (hab : a ≤ b) (hb : b ≤ dfn.length) :
    (a - ((dfn.take a).filter (· ≠ md)).length,
      b - (((dfn.take a).filter (· ≠ md)).length + (((dfn.drop a).take (b - a)).filter (· ≠ md)).length))
      = (cntDef md (dfn.take a), cntDef md (dfn.take b)) := by
  unfold cntDef
  have e1 := filter_split_length (· == md) (dfn.take a)
  have e2 := filter_split_length (· == md) ((dfn.drop a).take (b - a))
  have hsplit := take_split' dfn a b hab
  have l1 : (dfn.take a).length = a := by simp; omega
  have l2 : ((dfn.drop a).take (b - a)).length = b - a := by simp; omega
  have n1 : ∀ l : List Nat, (l.filter (fun x => !(x == md))) = l.filter (· ≠ md) := by
    intro l; congr 1; funext x; cases h : x == md <;> simp_all
  rw [n1] at e1 e2
  rw [hsplit, List.filter_append, List.length_append]
  congr 1 <;> omega

theorem cnt_encode (md : Nat) : ∀ (s : List Triple), (∀ t ∈ s, TripleWF md t) →
    cntDef md (s.map (·.2.1)) = (s.filterMap (·.2.2)).length
  | [], _ => rfl
  | (r, d, v) :: s, h => by
    have ih := cnt_encode md s (fun t ht => h t (by simp [ht]))
    have hw : v.isSome = true ↔ d = md := h (r, d, v) (by simp)
    unfold cntDef at ih ⊢
    cases v with
    | none =>
      have hd : (d == md) = false := by
        cases hdm : d == md
        · rfl
        · exact absurd (hw.mpr (by simpa using hdm)) (by simp)
      simp only [List.map_cons, List.filter_cons, hd, List.filterMap_cons]
      simpa using ih
    | some x =>
      have hd : (d == md) = true := by simpa using hw.mp rfl
      simp only [List.map_cons, List.filter_cons, hd, List.filterMap_cons, if_true, List.length_cons]
      omega

/-- the base slice between the value counts of slots `a` and `b` holds the values of slots `a..b-1` -/
theorem base_slice_encode (md : Nat) (s : List Triple) (h : ∀ t ∈ s, TripleWF md t) (a b : Nat)
    (hab : a ≤ b) :
    baseSlice (s.filterMap (·.2.2)) (cntDef md ((s.map (·.2.1)).take a)) (cntDef md ((s.map (·.2.1)).take b))
      = ((s.drop a).take (b - a)).filterMap (·.2.2) := by
  have ha : ∀ t ∈ s.take a, TripleWF md t := fun t ht => h t (List.mem_of_mem_take ht)
  have hb : ∀ t ∈ s.take b, TripleWF md t := fun t ht => h t (List.mem_of_mem_take ht)
  rw [← List.map_take, ← List.map_take, cnt_encode md _ ha, cnt_encode md _ hb]
  unfold baseSlice
  have e1 : s.filterMap (·.2.2) = (s.take a).filterMap (·.2.2) ++ (s.drop a).filterMap (·.2.2) := by
    rw [← List.filterMap_append, List.take_append_drop]
  have e2 : (s.drop a).filterMap (·.2.2) =
      ((s.drop a).take (b - a)).filterMap (·.2.2) ++ ((s.drop a).drop (b - a)).filterMap (·.2.2) := by
    rw [← List.filterMap_append, List.take_append_drop]
  have e3 : ((s.take b).filterMap (·.2.2)).length =
      ((s.take a).filterMap (·.2.2)).length + (((s.drop a).take (b - a)).filterMap (·.2.2)).length := by
    rw [take_split' s a b hab, List.filterMap_append, List.length_append]
  rw [e3, Nat.add_sub_cancel_left]
  conv => lhs; rw [e1]
  rw [List.drop_append, Nat.sub_self, List.drop_zero, List.drop_eq_nil_of_le (Nat.le_refl _),
    List.nil_append]
  conv => lhs; rw [e2]
  rw [List.take_append, Nat.sub_self, List.take_zero, List.append_nil,
    List.take_of_length_le (Nat.le_refl _)]

/-! ## optional pages -/

/-- **`optionalPage.Slice(i, j)` is the page of slots `i..j-1`**, for every level stream -/
theorem slice_optional_encode (md : Nat) (s : List Triple) (h : ∀ t ∈ s, TripleWF md t) (i j : Nat)
    (hij : i ≤ j) (hj : j ≤ s.length) :
    sliceOptionalPg md (encodeOpt s) i j = encodeOpt ((s.drop i).take (j - i)) := by
  unfold sliceOptionalPg
  simp only [encodeOpt]
  have hb := null_bounds md (s.map (·.2.1)) i j hij (by simpa using hj)
  simp only [Prod.mk.injEq] at hb
  rw [hb.1, hb.2, base_slice_encode md s h i j hij]
  simp [List.map_take, List.map_drop]

/-! ## repeated pages, beginning anywhere -/

/-- the scan indexes on a page that begins with the tail of a row -/
theorem sliceIdx_frag (frag : List Nat) (hf : ∀ x ∈ frag, x ≠ 0) (rows : List (List Nat))
    (h : ∀ r ∈ rows, RowWF r) (i j : Nat) (hij : i ≤ j) (hj : j ≤ rows.length) :
    sliceIdx (frag ++ rows.flatten) i j =
      (frag.length + (rows.take i).flatten.length, frag.length + (rows.take j).flatten.length) := by
  unfold sliceIdx
  have h1 : scanZero i (frag ++ rows.flatten) 0 0 (frag ++ rows.flatten).length =
      if i < rows.length then (frag.length + (rows.take i).flatten.length, i)
      else ((frag ++ rows.flatten).length, rows.length) := by
    rw [scanZero_skip i frag rows.flatten 0 0 _ hf,
      scanZero_rows i rows _ 0 _ h (Nat.zero_le _)]
    simp
  rcases Nat.lt_or_ge i rows.length with hi | hi
  · rw [if_pos hi] at h1
    simp only [h1]
    have hd : (frag ++ rows.flatten).drop (frag.length + (rows.take i).flatten.length)
        = (rows.drop i).flatten := by
      rw [List.drop_append]
      have : frag.length + (rows.take i).flatten.length - frag.length = (rows.take i).flatten.length := by omega
      rw [this, List.drop_eq_nil_of_le (by omega), List.nil_append, drop_flatten_take]
    rw [hd]
    have hdw : ∀ r ∈ rows.drop i, RowWF r := fun r hr => h r (List.mem_of_mem_drop hr)
    rw [scanZero_rows j (rows.drop i) _ i _ hdw hij]
    simp only [List.length_drop]
    rcases Nat.lt_or_ge j rows.length with hjl | hjl
    · rw [if_pos (by omega)]
      simp only [Prod.mk.injEq, true_and]
      rw [take_split rows i j hij]
      simp only [List.flatten_append, List.length_append]
      omega
    · have : j = rows.length := by omega
      subst this
      rw [if_neg (by omega)]
      simp
  · have hi' : i = rows.length := by omega
    have hj' : j = rows.length := by omega
    subst hi'
    rw [if_neg (by omega)] at h1
    simp only [h1, hj']
    rw [List.drop_eq_nil_of_le (Nat.le_refl _)]
    simp [scanZero]

theorem flatten_take_len_le {α} (rows : List (List α)) (n : Nat) :
    (rows.take n).flatten.length ≤ rows.flatten.length := by
  induction rows generalizing n with
  | nil => simp
  | cons r rs ih =>
    cases n with
    | zero => simp
    | succ n => have := ih n; simp only [List.take_succ_cons, List.flatten_cons, List.length_append]; omega

theorem drop_flatten_take' {α} (rows : List (List α)) : ∀ n,
    rows.flatten.drop (rows.take n).flatten.length = (rows.drop n).flatten := by
  induction rows with
  | nil => intro n; simp
  | cons r rs ih =>
    intro n
    cases n with
    | zero => simp
    | succ n =>
      simp only [List.take_succ_cons, List.flatten_cons, List.length_append, List.drop_succ_cons]
      rw [List.drop_append]
      simp only [Nat.add_sub_cancel_left]
      rw [List.drop_eq_nil_of_le (by omega), List.nil_append]
      exact ih n

theorem take_flatten_take' {α} (rows : List (List α)) : ∀ n,
    rows.flatten.take (rows.take n).flatten.length = (rows.take n).flatten := by
  induction rows with
  | nil => intro n; simp
  | cons r rs ih =>
    intro n
    cases n with
    | zero => simp
    | succ n =>
      simp only [List.take_succ_cons, List.flatten_cons, List.length_append]
      rw [List.take_append]
      simp only [Nat.add_sub_cancel_left]
      rw [List.take_of_length_le (by omega), ih n]

theorem map_flatten_len {α β} (f : α → β) (rows : List (List α)) :
    (rows.map (List.map f)).flatten.length = rows.flatten.length := by
  rw [← List.map_flatten, List.length_map]

/-- slots `a..b-1` of the stream when `a`, `b` are the slot indexes of rows `i` and `j` -/
theorem stream_rows_slice {α} (frag : List α) (rows : List (List α)) (i j : Nat) (hij : i ≤ j) :
    ((frag ++ rows.flatten).drop (frag.length + (rows.take i).flatten.length)).take
        ((frag.length + (rows.take j).flatten.length) - (frag.length + (rows.take i).flatten.length))
      = ((rows.drop i).take (j - i)).flatten := by
  rw [List.drop_append]
  have e0 : frag.length + (rows.take i).flatten.length - frag.length = (rows.take i).flatten.length := by omega
  rw [e0, List.drop_eq_nil_of_le (by omega), List.nil_append, drop_flatten_take']
  have e : (frag.length + (rows.take j).flatten.length) - (frag.length + (rows.take i).flatten.length)
      = ((rows.drop i).take (j - i)).flatten.length := by
    rw [take_split' rows i j hij]
    simp only [List.flatten_append, List.length_append]
    omega
  rw [e, take_flatten_take']

/-- **`repeatedPage.Slice(i, j)` is the page of rows `i..j-1`**: levels and stored values, for every
    stream (a page may begin inside a row: `frag`), every definition level pattern and `i ≤ j ≤ NumRows` -/
theorem slice_repeated_encode (md : Nat) (frag : List Triple) (rows : List (List Triple))
    (hf : ∀ t ∈ frag, t.1 ≠ 0) (hr : ∀ r ∈ rows, RowT r)
    (hw : ∀ t ∈ frag ++ rows.flatten, TripleWF md t) (i j : Nat) (hij : i ≤ j) (hj : j ≤ rows.length) :
    sliceRepeatedPg md (encode (frag ++ rows.flatten)) i j = encode ((rows.drop i).take (j - i)).flatten := by
  -- the repetition levels of the page in the shape `sliceIdx_frag` wants
  have hrep : (frag ++ rows.flatten).map (·.1) = frag.map (·.1) ++ (rows.map (List.map (·.1))).flatten := by
    rw [List.map_append, List.map_flatten]
  have hf' : ∀ x ∈ frag.map (·.1), x ≠ 0 := by
    intro x hx
    obtain ⟨t, ht, rfl⟩ := List.mem_map.mp hx
    exact hf t ht
  have hr' : ∀ r ∈ rows.map (List.map (·.1)), RowWF r := by
    intro r hx
    obtain ⟨t, ht, rfl⟩ := List.mem_map.mp hx
    exact hr t ht
  have hidx := sliceIdx_frag (frag.map (·.1)) hf' (rows.map (List.map (·.1))) hr' i j hij (by simpa using hj)
  rw [← hrep] at hidx
  simp only [List.length_map, ← List.map_take, map_flatten_len] at hidx
  -- abbreviations for the two slot indexes
  generalize hA : frag.length + (rows.take i).flatten.length = a at hidx
  generalize hB : frag.length + (rows.take j).flatten.length = b at hidx
  have hab : a ≤ b := by
    subst hA hB
    rw [take_split' rows i j hij]
    simp only [List.flatten_append, List.length_append]
    omega
  have hbl : b ≤ (frag ++ rows.flatten).length := by
    subst hB
    have := flatten_take_len_le rows j
    simp only [List.length_append]
    omega
  have hsl : ((frag ++ rows.flatten).drop a).take (b - a) = ((rows.drop i).take (j - i)).flatten := by
    subst hA hB
    exact stream_rows_slice frag rows i j hij
  generalize frag ++ rows.flatten = s at *
  unfold sliceRepeatedPg sliceRepeated
  simp only [encode, hidx]
  have hb := null_bounds md (s.map (·.2.1)) a b hab (by simpa using hbl)
  simp only [Prod.mk.injEq] at hb
  rw [hb.1, hb.2, base_slice_encode md s hw a b hab, ← hsl]
  simp [List.map_take, List.map_drop]

/-! ## every stream is `frag ++ rows.flatten`, every consistent page is an `encode` -/

/-- SPEC: cut a stream of repetition-levelled items into the leading fragment and the rows -/
def splitRows {α} (rep : α → Nat) : List α → List α × List (List α)
  | [] => ([], [])
  | x :: xs =>
    let r := splitRows rep xs
    if rep x = 0 then ([], (x :: r.1) :: r.2) else (x :: r.1, r.2)

theorem splitRows_spec {α} (rep : α → Nat) : ∀ (s : List α),
    s = (splitRows rep s).1 ++ (splitRows rep s).2.flatten ∧
    (∀ x ∈ (splitRows rep s).1, rep x ≠ 0) ∧
    (∀ r ∈ (splitRows rep s).2, ∃ x t, r = x :: t ∧ rep x = 0 ∧ ∀ y ∈ t, rep y ≠ 0)
  | [] => by simp [splitRows]
  | x :: xs => by
    obtain ⟨h1, h2, h3⟩ := splitRows_spec rep xs
    by_cases hx : rep x = 0
    · simp only [splitRows, hx, if_true, List.nil_append, List.flatten_cons, List.cons_append]
      refine ⟨by rw [← h1], by simp, ?_⟩
      intro r hr
      rcases List.mem_cons.mp hr with rfl | hr
      · exact ⟨x, _, rfl, hx, h2⟩
      · exact h3 r hr
    · simp only [splitRows, hx, if_false, List.cons_append]
      refine ⟨by rw [← h1], ?_, h3⟩
      intro y hy
      rcases List.mem_cons.mp hy with rfl | hy
      · exact hx
      · exact h2 y hy

/-- every stream of triples has the shape the slice theorem speaks about -/
theorem stream_shape (s : List Triple) :
    ∃ (frag : List Triple) (rows : List (List Triple)), s = frag ++ rows.flatten ∧ (∀ t ∈ frag, t.1 ≠ 0) ∧ (∀ r ∈ rows, RowT r) := by
  obtain ⟨h1, h2, h3⟩ := splitRows_spec (fun t : Triple => t.1) s
  refine ⟨_, _, h1, h2, ?_⟩
  intro r hr
  obtain ⟨x, t, rfl, hx, ht⟩ := h3 r hr
  refine ⟨t.map (·.1), by simp [hx], ?_⟩
  intro y hy
  obtain ⟨u, hu, rfl⟩ := List.mem_map.mp hy
  exact ht u hu

/-- reading a page back gives the stream it was made of -/
theorem weave_encode (md : Nat) : ∀ (s : List Triple), (∀ t ∈ s, TripleWF md t) →
    weave md (levelsOf (encode s)) (encode s).base = s
  | [], _ => rfl
  | (r, d, v) :: s, h => by
    have ih := weave_encode md s (fun t ht => h t (by simp [ht]))
    have hw : v.isSome = true ↔ d = md := h (r, d, v) (by simp)
    simp only [levelsOf, encode] at ih ⊢
    cases v with
    | none =>
      have hd : d ≠ md := fun e => by simpa using hw.mpr e
      simp only [List.map_cons, List.zip_cons_cons, List.filterMap_cons, weave, if_neg hd, ih]
    | some x =>
      have hd : d = md := hw.mp rfl
      subst hd
      simp only [List.map_cons, List.zip_cons_cons, List.filterMap_cons, weave, if_true, ih]

theorem weave_encodeOpt (md : Nat) : ∀ (s : List Triple), (∀ t ∈ s, TripleWF md t) →
    weave md (levelsOfOpt (encodeOpt s)) (encodeOpt s).base = s.map (fun t => (0, t.2))
  | [], _ => rfl
  | (r, d, v) :: s, h => by
    have ih := weave_encodeOpt md s (fun t ht => h t (by simp [ht]))
    have hw : v.isSome = true ↔ d = md := h (r, d, v) (by simp)
    simp only [levelsOfOpt, encodeOpt] at ih ⊢
    cases v with
    | none =>
      have hd : d ≠ md := fun e => by simpa using hw.mpr e
      simp only [List.map_cons, List.filterMap_cons, weave, if_neg hd, ih]
    | some x =>
      have hd : d = md := hw.mp rfl
      subst hd
      simp only [List.map_cons, List.filterMap_cons, weave, if_true, ih]

/-- every page whose arrays have consistent lengths is the `encode` of what reading it delivers -/
theorem encode_weave (md : Nat) : ∀ (rep dfn base : List Nat), dfn.length = rep.length →
    base.length = cntDef md dfn →
    encode (weave md (rep.zip dfn) base) = ⟨rep, dfn, base⟩ ∧
      ∀ t ∈ weave md (rep.zip dfn) base, TripleWF md t
  | [], [], base, _, hb => by
    have : base = [] := by simpa [cntDef] using hb
    subst this
    simp [weave, encode]
  | [], _ :: _, _, hl, _ => by simp at hl
  | _ :: _, [], _, hl, _ => by simp at hl
  | r :: rep, d :: dfn, base, hl, hb => by
    have hl' : dfn.length = rep.length := by simpa using hl
    by_cases hd : d = md
    · subst hd
      cases base with
      | nil => simp [cntDef] at hb
      | cons v bs =>
        have hb' : bs.length = cntDef d dfn := by simpa [cntDef] using hb
        obtain ⟨ih1, ih2⟩ := encode_weave d rep dfn bs hl' hb'
        simp only [List.zip_cons_cons, weave, if_true]
        simp only [encode, Pg.mk.injEq] at ih1 ⊢
        refine ⟨⟨by simp [ih1.1], by simp [ih1.2.1], by simp [ih1.2.2]⟩, ?_⟩
        intro t ht
        rcases List.mem_cons.mp ht with rfl | ht
        · simp [TripleWF]
        · exact ih2 t ht
    · have hb' : base.length = cntDef md dfn := by
        have : (d == md) = false := by simpa using hd
        simpa [cntDef, this] using hb
      obtain ⟨ih1, ih2⟩ := encode_weave md rep dfn base hl' hb'
      simp only [List.zip_cons_cons, weave, if_neg hd]
      simp only [encode, Pg.mk.injEq] at ih1 ⊢
      refine ⟨⟨by simp [ih1.1], by simp [ih1.2.1], by simp [ih1.2.2]⟩, ?_⟩
      intro t ht
      rcases List.mem_cons.mp ht with rfl | ht
      · simp [TripleWF, hd]
      · exact ih2 t ht

end PqModel.PageSlice
