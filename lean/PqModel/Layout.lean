/-! # File-layout accounting of the writer (C02)

Mirror of the bookkeeping in `writer.go`: `recordPageStats` (writer.go:2714-2790: page location
offset = running `TotalCompressedSize`, `FirstRowIndex` = rows so far, sizes and value counts
accumulated), and `writeRowGroup` (dictionary page offset, data page offset, page locations
rebased from chunk-relative to absolute, chunks laid out back to back).

The mirror works with running accumulators exactly like the Go code; the *specification* side
(`pageStarts`, `Spec…`) is positional: "where the bytes really are". The theorems say the two
agree for every sequence of pages. -/
namespace PqModel.Layout

/-- one page as the layout sees it -/
structure PageOp where
  isDict : Bool
  hdrLen : Nat      -- bytes of the thrift page header
  bodyLen : Nat     -- bytes of the (compressed) page body
  uncompLen : Nat   -- uncompressed body size announced in the header
  numValues : Nat
  numRows : Nat
deriving Repr, DecidableEq

def PageOp.size (p : PageOp) : Nat := p.hdrLen + p.bodyLen

structure PageLoc where
  offset : Nat
  size : Nat
  firstRow : Nat
deriving Repr, DecidableEq

/-- accumulators of a column writer while a chunk is written -/
structure Acc where
  totalCompressed : Nat := 0
  totalUncompressed : Nat := 0
  numValues : Nat := 0
  numRows : Nat := 0
  locs : List PageLoc := []      -- chunk-relative, data pages only (reverse order)
  dictSize : Nat := 0            -- compressed size of the dictionary page (0 = none)
deriving Repr

/-- `recordPageStats` for one page. The dictionary page is recorded with `page == nil`:
    only the two size totals move. -/
def record (a : Acc) (p : PageOp) : Acc :=
  if p.isDict then
    { a with totalCompressed := a.totalCompressed + p.size,
             totalUncompressed := a.totalUncompressed + (p.hdrLen + p.uncompLen),
             dictSize := p.size }
  else
    { a with totalCompressed := a.totalCompressed + p.size,
             totalUncompressed := a.totalUncompressed + (p.hdrLen + p.uncompLen),
             numValues := a.numValues + p.numValues,
             numRows := a.numRows + p.numRows,
             locs := ⟨a.totalCompressed, p.size, a.numRows⟩ :: a.locs }

def recordAll (ps : List PageOp) : Acc := ps.foldl record {}

structure ChunkMeta where
  dictOffset : Option Nat
  dataOffset : Nat
  totalCompressed : Nat
  totalUncompressed : Nat
  numValues : Nat
  numRows : Nat
  locs : List PageLoc           -- absolute offsets
deriving Repr, DecidableEq

/-- `writeRowGroup`: the chunk starts at file offset `start`; the dictionary page (if any) is the
    first page; page locations are rebased by the chunk start. -/
def finishChunk (start : Nat) (a : Acc) : ChunkMeta :=
  { dictOffset := if a.dictSize > 0 then some start else none,
    dataOffset := start + a.dictSize,
    totalCompressed := a.totalCompressed,
    totalUncompressed := a.totalUncompressed,
    numValues := a.numValues,
    numRows := a.numRows,
    locs := a.locs.reverse.map fun l => { l with offset := start + l.offset } }

def chunkMeta (start : Nat) (ps : List PageOp) : ChunkMeta := finishChunk start (recordAll ps)

/-! ## positional specification -/

/-- start offset of every page when the pages are laid out back to back from `start` -/
def pageStarts (start : Nat) : List PageOp → List Nat
  | [] => []
  | p :: ps => start :: pageStarts (start + p.size) ps

def totalSize (ps : List PageOp) : Nat := (ps.map PageOp.size).sum

/-- (absolute start, size, first row) of every DATA page, computed positionally -/
def specLocs (start row : Nat) : List PageOp → List PageLoc
  | [] => []
  | p :: ps =>
    if p.isDict then specLocs (start + p.size) row ps
    else ⟨start, p.size, row⟩ :: specLocs (start + p.size) (row + p.numRows) ps

def dataPages (ps : List PageOp) : List PageOp := ps.filter (fun p => !p.isDict)

/-- a chunk as the writer emits it: at most one dictionary page, and it comes first -/
def WellOrdered : List PageOp → Prop
  | [] => True
  | _ :: ps => ∀ q ∈ ps, q.isDict = false

/-! ## the accounting invariant -/

theorem foldl_record_acc (ps : List PageOp) (a : Acc) :
    (ps.foldl record a).totalCompressed = a.totalCompressed + totalSize ps ∧
    (ps.foldl record a).totalUncompressed =
      a.totalUncompressed + ((ps.map fun p => p.hdrLen + p.uncompLen).sum) ∧
    (ps.foldl record a).numValues = a.numValues + ((dataPages ps).map (·.numValues)).sum ∧
    (ps.foldl record a).numRows = a.numRows + ((dataPages ps).map (·.numRows)).sum := by
  induction ps generalizing a with
  | nil => simp [totalSize, dataPages]
  | cons p ps ih =>
    have h := ih (record a p)
    simp only [List.foldl_cons]
    by_cases hd : p.isDict = true
    · simp only [record, hd, if_true] at h ⊢
      simp only [totalSize, dataPages, List.map_cons, List.sum_cons, List.filter_cons, hd,
        Bool.not_true] at h ⊢
      refine ⟨by omega, by omega, by simpa using h.2.2.1, by simpa using h.2.2.2⟩
    · have hd' : p.isDict = false := by simpa using hd
      simp only [record, hd', Bool.false_eq_true, if_false] at h ⊢
      simp only [totalSize, dataPages, List.map_cons, List.sum_cons, List.filter_cons, hd',
        Bool.not_false, if_true] at h ⊢
      refine ⟨by omega, by omega, by omega, by omega⟩

/-- page locations recorded with running accumulators are the positional ones -/
theorem foldl_record_locs (ps : List PageOp) (a : Acc) :
    (ps.foldl record a).locs.reverse =
      a.locs.reverse ++ specLocs a.totalCompressed a.numRows ps := by
  induction ps generalizing a with
  | nil => simp [specLocs]
  | cons p ps ih =>
    simp only [List.foldl_cons]
    rw [ih (record a p)]
    by_cases hd : p.isDict = true
    · simp [record, hd, specLocs]
    · have hd' : p.isDict = false := by simpa using hd
      simp [record, hd', specLocs]

theorem specLocs_shift (s start row : Nat) (ps : List PageOp) :
    (specLocs start row ps).map (fun l => { l with offset := s + l.offset }) =
      specLocs (s + start) row ps := by
  induction ps generalizing start row with
  | nil => simp [specLocs]
  | cons p ps ih =>
    by_cases hd : p.isDict = true
    · simp only [specLocs, hd, if_true]
      rw [ih]; congr 1; omega
    · have hd' : p.isDict = false := by simpa using hd
      simp only [specLocs, hd', Bool.false_eq_true, if_false, List.map_cons]
      rw [ih]
      congr 2
      omega

theorem foldl_record_dict (ps : List PageOp) (a : Acc) (h : ∀ q ∈ ps, q.isDict = false) :
    (ps.foldl record a).dictSize = a.dictSize := by
  induction ps generalizing a with
  | nil => rfl
  | cons p ps ih =>
    simp only [List.foldl_cons]
    rw [ih _ (fun q hq => h q (List.mem_cons_of_mem _ hq))]
    have := h p (List.mem_cons_self)
    simp [record, this]

/-- **layout_wf**: for every sequence of pages of a chunk written at `start`, the metadata the
    writer computes describes exactly the bytes present:
    * every recorded page location is the true start/size of that data page, with the
      cumulative first-row index;
    * `total_compressed_size` is the number of bytes of the chunk, `total_uncompressed_size`,
      `num_values`, `num_rows` are the sums over the pages. -/
theorem layout_wf (start : Nat) (ps : List PageOp) :
    (chunkMeta start ps).locs = specLocs start 0 ps ∧
    (chunkMeta start ps).totalCompressed = totalSize ps ∧
    (chunkMeta start ps).totalUncompressed = ((ps.map fun p => p.hdrLen + p.uncompLen).sum) ∧
    (chunkMeta start ps).numValues = ((dataPages ps).map (·.numValues)).sum ∧
    (chunkMeta start ps).numRows = ((dataPages ps).map (·.numRows)).sum := by
  have h1 := foldl_record_acc ps {}
  have h2 := foldl_record_locs ps {}
  simp only [chunkMeta, finishChunk, recordAll]
  refine ⟨?_, by simpa using h1.1, by simpa using h1.2.1, by simpa using h1.2.2.1, by simpa using h1.2.2.2⟩
  rw [h2]
  simp only [List.reverse_nil, List.nil_append]
  have := specLocs_shift start 0 0 ps
  simpa using this

/-- dictionary/data page offsets point at the first byte of the page they name -/
theorem offsets_wf (start : Nat) (ps : List PageOp) (hw : WellOrdered ps) :
    match ps with
    | [] => (chunkMeta start ps).dictOffset = none
    | p :: rest =>
      if p.isDict ∧ 0 < p.size then
        (chunkMeta start ps).dictOffset = some start ∧ (chunkMeta start ps).dataOffset = start + p.size
      else if p.isDict then True
      else (chunkMeta start ps).dictOffset = none ∧ (chunkMeta start ps).dataOffset = start := by
  cases ps with
  | nil => simp [chunkMeta, finishChunk, recordAll]
  | cons p rest =>
    have hrest : ∀ q ∈ rest, q.isDict = false := hw
    have hds := foldl_record_dict rest (record {} p) hrest
    simp only [chunkMeta, finishChunk, recordAll, List.foldl_cons]
    simp only [hds]
    by_cases hd : p.isDict = true
    · by_cases hs : 0 < p.size
      · simp [record, hd, hs]
      · simp [hd, hs]
    · have hd' : p.isDict = false := by simpa using hd
      simp [record, hd']

/-- first-row indexes of consecutive data pages are cumulative, and each page's location starts
    where the previous page ends (pages are back to back, no gaps, no overlap) -/
theorem specLocs_contiguous (start row : Nat) (ps : List PageOp) (h : ∀ q ∈ ps, q.isDict = false) :
    (specLocs start row ps).map (·.offset) = pageStarts start ps ∧
    (specLocs start row ps).map (·.size) = ps.map PageOp.size := by
  induction ps generalizing start row with
  | nil => simp [specLocs, pageStarts]
  | cons p ps ih =>
    have hp := h p List.mem_cons_self
    have := ih (start + p.size) (row + p.numRows) (fun q hq => h q (List.mem_cons_of_mem _ hq))
    simp [specLocs, pageStarts, hp, this.1, this.2]

/-! ## chunks of a row group, laid out back to back -/

/-- start offset of every chunk of a row group written at `start` -/
def chunkStarts (start : Nat) : List (List PageOp) → List Nat
  | [] => []
  | c :: cs => start :: chunkStarts (start + totalSize c) cs

/-- the writer's loop: running file offset advanced by each chunk's `total_compressed_size` -/
def rowGroupMetas (start : Nat) : List (List PageOp) → List ChunkMeta
  | [] => []
  | c :: cs =>
    let m := chunkMeta start c
    m :: rowGroupMetas (start + m.totalCompressed) cs

theorem rowGroup_wf (start : Nat) (cs : List (List PageOp)) :
    rowGroupMetas start cs = (List.zip (chunkStarts start cs) cs).map (fun sc => chunkMeta sc.1 sc.2) := by
  induction cs generalizing start with
  | nil => simp [rowGroupMetas, chunkStarts]
  | cons c cs ih =>
    simp only [rowGroupMetas, chunkStarts, List.zip_cons_cons, List.map_cons]
    rw [(layout_wf start c).2.1, ih]

-- non-vacuity: a chunk with a dictionary page and two data pages
example : chunkMeta 4 [⟨true, 10, 20, 25, 3, 0⟩, ⟨false, 12, 30, 40, 5, 5⟩, ⟨false, 11, 7, 9, 2, 2⟩] =
    { dictOffset := some 4, dataOffset := 34, totalCompressed := 90, totalUncompressed := 107,
      numValues := 7, numRows := 7, locs := [⟨34, 42, 0⟩, ⟨76, 18, 5⟩] } := by decide

end PqModel.Layout
