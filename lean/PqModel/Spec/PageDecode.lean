import PqModel.Rle
import PqModel.Plain
import PqModel.Delta

/-! Spec side of C02, value level: the values part of a data or dictionary page, decoded with the
    SPEC decoders of `PqModel.Rle`, `PqModel.Plain`, `PqModel.Delta` exactly as they are (nothing
    here knows the Go code). This file only dispatches on (physical type, encoding) by their
    parquet.thrift numbers and converts between the byte representations those decoders use
    (`List Nat` / `List UInt8`).

    Physical types: 0 BOOLEAN, 1 INT32, 2 INT64, 3 INT96, 4 FLOAT, 5 DOUBLE, 6 BYTE_ARRAY,
    7 FIXED_LEN_BYTE_ARRAY. Encodings: 0 PLAIN, 2 PLAIN_DICTIONARY, 3 RLE, 5 DELTA_BINARY_PACKED,
    6 DELTA_LENGTH_BYTE_ARRAY, 7 DELTA_BYTE_ARRAY, 8 RLE_DICTIONARY, 9 BYTE_STREAM_SPLIT.

    A decoded value is the list of its PLAIN bytes (BOOLEAN: one byte 0/1; byte arrays: the bytes
    without the length prefix). -/
namespace PqModel.Spec

abbrev Value := List UInt8

/-- `b[lo, lo+n)` as a list (bytes past the end read as 0; callers check bounds) -/
def sliceU8 (b : ByteArray) (lo : Nat) : Nat → List UInt8 → List UInt8
  | 0, acc => acc
  | n + 1, acc => sliceU8 b lo n (b.get! (lo + n) :: acc)

def sliceNat (b : ByteArray) (lo : Nat) : Nat → List Nat → List Nat
  | 0, acc => acc
  | n + 1, acc => sliceNat b lo n ((b.get! (lo + n)).toNat :: acc)

/-- byte width of the fixed-width physical types -/
def fixedWidth (ptype typeLen : Nat) : Option Nat :=
  match ptype with
  | 1 | 4 => some 4
  | 2 | 5 => some 8
  | 3 => some 12
  | 7 => some typeLen
  | _ => none

def deltaErr : PqModel.Delta.Err → String
  | .truncated => "truncated" | .badHeader => "bad-header" | .badWidth => "bad-width"
  | .negativeLength => "negative-length" | .badPrefix => "bad-prefix"
  | .countMismatch => "count-mismatch" | .fuel => "fuel"

/-- PLAIN values; `n` (the number of values the page holds) is needed for BOOLEAN only -/
def plainValues (ptype typeLen n : Nat) (bs : List UInt8) : Except String (List Value) :=
  if ptype == 0 then
    match PqModel.Plain.specDecBool n bs with
    | some v => .ok (v.map fun b => [if b then 1 else 0])
    | none => .error "fewer bits than values"
  else if ptype == 6 then
    match PqModel.Plain.specDecByteArray bs with
    | some v => .ok v
    | none => .error "byte array length prefix cut short or longer than the rest of the page"
  else
    match fixedWidth ptype typeLen with
    | none => .error s!"unknown physical type {ptype}"
    | some k =>
      match PqModel.Plain.specDecFixedBytes k bs with
      | some v => .ok v
      | none => .error s!"length is not a multiple of the value width {k}"

/-- dictionary lookup of every index; `none` index out of range -/
def lookupAll (dict : Array Value) : List Nat → List Value → Except Nat (List Value)
  | [], acc => .ok acc.reverse
  | i :: is, acc =>
    match dict[i]? with
    | some v => lookupAll dict is (v :: acc)
    | none => .error i

inductive ValErr where
  | undecodable (msg : String)         -- a spec decoder rejects the bytes
  | dictIndex (i size : Nat)           -- a dictionary index not below the dictionary size
  | noDict

/-- the values part of a data page holding `n` non-null values -/
def decodeValues (ptype typeLen enc n : Nat) (dict : Option (Array Value)) (b : ByteArray) :
    Except ValErr (List Value) :=
  let u8 := fun (_ : Unit) => sliceU8 b 0 b.size []
  let nat := fun (_ : Unit) => sliceNat b 0 b.size []
  let ofNats := fun (vs : List (List Nat)) => vs.map (·.map UInt8.ofNat)
  if enc == 0 then
    match plainValues ptype typeLen n (u8 ()) with
    | .ok v => .ok v
    | .error e => .error (.undecodable e)
  else if enc == 2 || enc == 8 then
    match dict with
    | none => .error .noDict
    | some dv =>
      match PqModel.Rle.specDecodeDict n (nat ()) with
      | .error e => .error (.undecodable e.name)
      | .ok idx =>
        match lookupAll dv idx [] with
        | .ok v => .ok v
        | .error i => .error (.dictIndex i dv.size)
  else if enc == 3 then
    if ptype != 0 then .error (.undecodable "RLE values in a column that is not BOOLEAN") else
    match PqModel.Rle.specDecodeBoolean n (nat ()) with
    | .ok v => .ok (v.map fun x => [UInt8.ofNat x])
    | .error e => .error (.undecodable e.name)
  else if enc == 5 then
    if ptype == 1 then
      match PqModel.Delta.specDecode32 (nat ()) with
      | .ok (v, _) => .ok (v.map fun x => PqModel.Plain.leBytes 4 x.toNat)
      | .error e => .error (.undecodable (deltaErr e))
    else if ptype == 2 then
      match PqModel.Delta.specDecode64 (nat ()) with
      | .ok (v, _) => .ok (v.map fun x => PqModel.Plain.leBytes 8 x.toNat)
      | .error e => .error (.undecodable (deltaErr e))
    else .error (.undecodable "DELTA_BINARY_PACKED in a column that is not INT32/INT64")
  else if enc == 6 then
    if ptype != 6 then .error (.undecodable "DELTA_LENGTH_BYTE_ARRAY in a column that is not BYTE_ARRAY") else
    match PqModel.Delta.specDecodeDLBA (nat ()) with
    | .ok (v, _) => .ok (ofNats v)
    | .error e => .error (.undecodable (deltaErr e))
  else if enc == 7 then
    if ptype != 6 && ptype != 7 then .error (.undecodable "DELTA_BYTE_ARRAY in a column that holds no byte arrays") else
    match PqModel.Delta.specDecodeDBA (nat ()) with
    | .ok (v, _) =>
      if ptype == 7 && !v.all (·.length == typeLen) then .error (.undecodable s!"a value is not {typeLen} bytes long")
      else .ok (ofNats v)
    | .error e => .error (.undecodable (deltaErr e))
  else if enc == 9 then
    match fixedWidth ptype typeLen with
    | none => .error (.undecodable "BYTE_STREAM_SPLIT in a column without fixed width")
    | some k =>
      match PqModel.Plain.bssSpecDec k (u8 ()) with
      | some v => .ok v
      | none => .error (.undecodable s!"length is not a multiple of the value width {k}")
  else .error (.undecodable "encoding not known to the spec reader")

end PqModel.Spec
