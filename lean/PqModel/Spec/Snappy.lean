/-! SPEC side: a decompressor for the Snappy *block* format, written from the format description
    (`format_description.txt` of the Snappy project) only; no knowledge of any Go package.

    A block is `<uvarint: uncompressed length> <element>*`. The two low bits of an element's tag
    byte select its kind:
    * `00` literal: the upper six bits hold `len - 1`; the values 60..63 mean that `len - 1` is in
      the following 1..4 bytes, little endian; then `len` bytes follow verbatim;
    * `01` copy, 1-byte offset: `len = 4 + ((tag >> 2) & 7)`, `offset = ((tag >> 5) << 8) | next byte`;
    * `10` copy, 2-byte offset: `len = (tag >> 2) + 1`, offset = the next two bytes, little endian;
    * `11` copy, 4-byte offset: `len = (tag >> 2) + 1`, offset = the next four bytes, little endian.
    A copy appends `len` bytes starting `offset` bytes before the end of the output produced so
    far; source and destination may overlap (`offset < len`), which the byte-by-byte reading below
    gives its run-length meaning. Malformed: offset 0, offset beyond what has been produced, output
    different from the announced length, input cut short.

    Everything is total: the element loop runs on fuel (every element consumes at least its tag
    byte, so `input length + 1` suffices), the copy loop on the copy length. The output is a
    `ByteArray` accumulator that is only ever pushed to, so the compiled code runs in place. -/
namespace PqModel.Spec.Snappy

/-- little-endian number in `d[off, off+n)` (bytes past the end read as 0; callers check bounds) -/
def leAt (d : ByteArray) (off : Nat) : Nat → Nat
  | 0 => 0
  | n + 1 => (d.get! off).toNat + 256 * leAt d (off + 1) n

/-- ULEB128 at `pos`, at most `fuel` bytes, not reading at or past `stop` -/
def uvarintAt (d : ByteArray) (stop : Nat) : Nat → Nat → Nat → Nat → Option (Nat × Nat)
  | 0, _, _, _ => none
  | fuel + 1, pos, shift, acc =>
    if pos ≥ stop then none else
    let b := (d.get! pos).toNat
    let acc := acc + ((b % 128) <<< shift)
    if b < 128 then some (acc, pos + 1) else uvarintAt d stop fuel (pos + 1) (shift + 7) acc

/-- append `n` bytes, each taken `off` bytes before the current end (overlap allowed) -/
def copyBack (off : Nat) : Nat → ByteArray → ByteArray
  | 0, out => out
  | n + 1, out => copyBack off n (out.push (out.get! (out.size - off)))

/-- append `d[from, from+n)` -/
def copyLit (d : ByteArray) : Nat → Nat → ByteArray → ByteArray
  | 0, _, out => out
  | n + 1, pos, out => copyLit d n (pos + 1) (out.push (d.get! pos))

/-- the element loop over `d[pos, stop)`; `want` is the announced length -/
def elements (d : ByteArray) (stop want : Nat) : Nat → Nat → ByteArray → Except String ByteArray
  | 0, _, _ => .error "fuel"
  | fuel + 1, pos, out =>
    if pos ≥ stop then
      if out.size == want then .ok out
      else .error s!"output of {out.size} bytes differs from the announced length {want}"
    else
      let tag := (d.get! pos).toNat
      let kind := tag % 4
      if kind == 0 then
        let l := tag / 4
        let nb := if l < 60 then 0 else l - 59
        if pos + 1 + nb > stop then .error "truncated literal length" else
        let len := if l < 60 then l + 1 else leAt d (pos + 1) nb + 1
        let src := pos + 1 + nb
        if src + len > stop then .error "truncated literal" else
        if out.size + len > want then .error "output exceeds the announced length" else
        elements d stop want fuel (src + len) (copyLit d len src out)
      else
        let nb := if kind == 1 then 1 else if kind == 2 then 2 else 4
        if pos + 1 + nb > stop then .error "truncated copy" else
        let len := if kind == 1 then 4 + (tag / 4) % 8 else tag / 4 + 1
        let off := if kind == 1 then (tag / 32) * 256 + (d.get! (pos + 1)).toNat else leAt d (pos + 1) nb
        if off == 0 then .error "copy with offset 0" else
        if off > out.size then .error "copy offset reaches before the start of the output" else
        if out.size + len > want then .error "output exceeds the announced length" else
        elements d stop want fuel (pos + 1 + nb) (copyBack off len out)

/-- SPEC: decompress the Snappy block stored in `d[start, stop)`. -/
def decodeRange (d : ByteArray) (start stop : Nat) : Except String ByteArray :=
  if stop > d.size || start > stop then .error "block outside the input" else
  match uvarintAt d stop 10 start 0 0 with
  | none => .error "truncated length preamble"
  | some (want, pos) =>
    if want ≥ 4294967296 then .error "announced length does not fit 32 bits" else
    elements d stop want (stop - pos + 1) pos (ByteArray.emptyWithCapacity (min want 16777216))

/-- SPEC: decompress a whole block. -/
def decode (d : ByteArray) : Except String ByteArray := decodeRange d 0 d.size

end PqModel.Spec.Snappy
