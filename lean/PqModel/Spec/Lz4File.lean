import PqModel.Spec.Lz4Seqs

/-! SPEC side (C02, round 6): the LZ4 block reader in the form the FILE reader runs it.

`BlockCodecs.lz4Seqs` (written from lz4_Block_format.md, proved against every writable sequence
list in `Spec/Lz4Seqs.lean`) measures the remaining input once per sequence (`rest.length < ll`),
which is quadratic on a page of many short sequences. `seqsFast` is the same loop with the literal
run moved by ONE pass (`takeInto`: pushes `ll` bytes to the output, `none` when the input is
shorter); `seqsFast_eq` proves it equal to `lz4Seqs` on every input, fuel and accumulator, so the
file reader's `lz4Block` IS `lz4Dec` (`lz4Block_eq`) and everything proved about `lz4Dec` holds
for what `Spec/FileCheck.lean` runs on LZ4_RAW chunks.

`blockAt`: the bytes `d[pos, pos+len)` of a file handed to the block reader; `blockAt_embedded`:
for a file `pre ++ block ++ post` they are the block, whatever surrounds it. -/
namespace PqModel.Spec.Lz4File
open PqModel.Spec.BlockCodecs

/-- push the first `n` bytes of the input to the output; `none` = fewer than `n` bytes left -/
def takeInto : Nat → List UInt8 → Array UInt8 → Option (Array UInt8 × List UInt8)
  | 0, l, out => some (out, l)
  | _ + 1, [], _ => none
  | n + 1, b :: l, out => takeInto n l (out.push b)

theorem takeInto_eq : ∀ (n : Nat) (l : List UInt8) (out : Array UInt8),
    takeInto n l out = if l.length < n then none else some (out ++ l.take n, l.drop n) := by
  intro n
  induction n with
  | zero => intro l out; simp [takeInto]
  | succ n ih =>
    intro l out
    cases l with
    | nil => simp [takeInto]
    | cons b l =>
      simp only [takeInto, ih, List.length_cons, Nat.add_lt_add_iff_right, List.take_succ_cons,
        List.drop_succ_cons]
      split
      · rfl
      · congr 2

/-- the sequence loop of `BlockCodecs.lz4Seqs`, literals moved in one pass -/
def seqsFast : Nat → List UInt8 → Array UInt8 → Except Err (Array UInt8)
  | 0, _, _ => .error .fuel
  | _ + 1, [], _ => .error .truncated
  | fuel + 1, token :: rest, out =>
    let t := token.toNat
    match lz4ReadLen (t / 16) rest with
    | none => .error .truncated
    | some (ll, rest) =>
      match takeInto ll rest out with
      | none => .error .truncated
      | some (out, rest) =>
        match rest with
        | [] => .ok out
        | [_] => .error .truncated
        | o0 :: o1 :: rest =>
          match lz4ReadLen (t % 16) rest with
          | none => .error .truncated
          | some (ml, rest) =>
            let off := o0.toNat + 256 * o1.toNat
            if off = 0 ∨ out.size < off then .error .badOffset else
            seqsFast fuel rest (copyBack off (ml + 4) out)

/-- **the loop the file reader runs is the loop of the block-format spec** -/
theorem seqsFast_eq : ∀ (fuel : Nat) (src : List UInt8) (out : Array UInt8),
    seqsFast fuel src out = lz4Seqs fuel src out := by
  intro fuel
  induction fuel with
  | zero => intro src out; rfl
  | succ fuel ih =>
    intro src out
    cases src with
    | nil => rfl
    | cons token rest =>
      simp only [seqsFast, lz4Seqs]
      cases h1 : lz4ReadLen (token.toNat / 16) rest with
      | none => rfl
      | some p =>
        obtain ⟨ll, rest1⟩ := p
        simp only [takeInto_eq]
        by_cases hl : rest1.length < ll
        · simp [hl]
        · simp only [hl, ↓reduceIte]
          cases h2 : rest1.drop ll with
          | nil => rfl
          | cons o0 r2 =>
            cases r2 with
            | nil => rfl
            | cons o1 r3 =>
              simp only []
              cases h3 : lz4ReadLen (token.toNat % 16) r3 with
              | none => rfl
              | some q =>
                obtain ⟨ml, rest4⟩ := q
                simp only [ih]

/-- SPEC: an LZ4 block as the file reader decodes it (the empty block stands for the empty
string, as in `lz4Dec`) -/
def lz4Block (src : List UInt8) : Except Err (Array UInt8) :=
  if src.isEmpty then .ok #[] else seqsFast (src.length + 1) src #[]

/-- **`lz4Block` is `lz4Dec`** -/
theorem lz4Block_eq (src : List UInt8) :
    lz4Dec src = (match lz4Block src with | .ok out => .ok out.toList | .error e => .error e) := by
  unfold lz4Dec lz4Block
  cases src with
  | nil => rfl
  | cons b r =>
    simp only [List.isEmpty_cons, Bool.false_eq_true, ↓reduceIte, seqsFast_eq]
    rw [if_neg (by simp)]
    cases lz4Seqs ((b :: r).length + 1) (b :: r) #[] <;> rfl

/-- the stored bytes `d[pos, pos+len)` as the block reader's input -/
def blockAt (d : ByteArray) (pos len : Nat) : List UInt8 := (d.extract pos (pos + len)).data.toList

/-- wherever a block lies in a file, `blockAt` at its position and length is the block -/
theorem blockAt_embedded (pre post : ByteArray) (blk : List UInt8) :
    blockAt (pre ++ ByteArray.mk blk.toArray ++ post) pre.size blk.length = blk := by
  unfold blockAt
  rw [ByteArray.append_assoc]
  have h := @ByteArray.extract_append_size_add pre (ByteArray.mk blk.toArray ++ post) 0 blk.length
  rw [Nat.add_zero] at h
  rw [h, ByteArray.data_extract, ByteArray.data_append]
  simp

def errName : Err → String
  | .fuel => "fuel" | .truncated => "input cut short" | .badOffset => "offset 0 or before the start of the output"
  | .badLength => "bad length" | .tooLarge => "too large"

end PqModel.Spec.Lz4File
