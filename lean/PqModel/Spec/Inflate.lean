import PqModel.Crc
import PqModel.Spec.BlockCodecs

/-! SPEC side (C20, offered to C02): a DEFLATE decoder (`inflateRaw`, RFC 1951: stored blocks,
fixed and dynamic Huffman codes, LZ77 back-references with overlap) and a gzip member reader
(`gunzip`, RFC 1952: header with FEXTRA / FNAME / FCOMMENT / FHCRC, CRC-32 and ISIZE trailer,
several members). Written from the two RFCs only; it shares no code and no table with
klauspost/compress or Go's standard library. CRC-32 is `PqModel.Crc.crc32` (the bitwise definition
proved equal to the polynomial division in `Crc.lean`).

Everything is total and computable: bits are read LSB-first from a `BitReader`, every loop runs on
explicit fuel, and `inflate_no_fuel` / `gunzip_no_fuel` show that the fuel handed out by the entry
points is never exhausted, so the answer is a function of the stream alone.

PROVED here (all inputs): never out of fuel; `inflateRaw (storedChunks cs last ++ tail) = (cs.flatten
++ last, tail)` for EVERY segmentation into stored blocks of at most 65535 bytes (so in particular
for `storedBlocks bs`), and `gunzip (gzipStored bs) = bs` through header, CRC-32 and ISIZE.
PROVED in `InflateFixed.lean`: `inflate (fixedLiterals bs) = bs` — the literal path of the Huffman
decoder on the fixed table (code bit order, canonical walk, symbol loop, end-of-block).
PROVED in `InflateMatch.lean`: `inflate (fixedBlock toks) = applyToks toks` for every writable token
list (length/distance symbols, extra bits, overlapping copies) and `inflate (deflateFixed w bs) = bs`
(greedy LZ77 matcher + fixed-Huffman coding).
TESTED only (not proved): dynamic-table headers and multi-block Huffman streams — `decide` vectors in
`InflateTests.lean` (fixed block with an overlapping back-reference, dynamic block, the
canonical-code walk against RFC 1951's explicit code assignment on the fixed tables), and the L1 check, which runs `gunzip` on every output of the real gzip codec
next to Go's stdlib reader.

Policy where RFC 1951 is silent: an over-subscribed set of code lengths is rejected (it is not a
prefix code); an incomplete one is accepted and a bit pattern without symbol is an error where it
is met; a dynamic block must give the end-of-block symbol a code; HLIT > 286 / HDIST > 30 and
length symbols 286/287, distance symbols 30/31 are errors. `gunzip` wants at least one member and
checks the optional header CRC16. -/
namespace PqModel.Spec.Inflate
open PqModel.Spec.BlockCodecs (copyBack)

inductive Err
  | fuel | truncated | badBlockType | badStoredLen | badCode | badSymbol | badDistance
  | badLengths | oversubscribed | noEndOfBlock
  | badMagic | badMethod | badFlags | badHeaderCrc | badCrc | badSize
  deriving DecidableEq

/-! ## Bit reader (RFC 1951 §3.1.1: bits of a byte are consumed from the least significant one) -/

structure BitReader where
  /-- unread bits of the byte that was opened last, least significant first -/
  cur : List Bool
  rest : List UInt8

def BitReader.size (r : BitReader) : Nat := r.cur.length + 8 * r.rest.length

def bitAt (b : UInt8) (i : Nat) : Bool := b.toNat.testBit i

def readBit : BitReader → Except Err (Bool × BitReader)
  | ⟨b :: cur, rest⟩ => .ok (b, ⟨cur, rest⟩)
  | ⟨[], x :: rest⟩ =>
    .ok (bitAt x 0, ⟨[bitAt x 1, bitAt x 2, bitAt x 3, bitAt x 4, bitAt x 5, bitAt x 6, bitAt x 7], rest⟩)
  | ⟨[], []⟩ => .error .truncated

/-- `n` bits as a number, first bit read = least significant (§3.1.1 "data elements other than
Huffman codes") -/
def readBits : Nat → BitReader → Except Err (Nat × BitReader)
  | 0, r => .ok (0, r)
  | n + 1, r =>
    match readBit r with
    | .error e => .error e
    | .ok (b, r1) =>
      match readBits n r1 with
      | .error e => .error e
      | .ok (v, r2) => .ok (b.toNat + 2 * v, r2)

/-! ## Canonical Huffman codes (§3.2.2) -/

/-- A code given by its lengths: `counts[i]` = number of symbols with code length `i+1`
(lengths 1..15), `symbols` = the symbols with a code, ordered by (length, symbol) — which by
§3.2.2 is the numerical order of the codes. -/
structure Huff where
  counts : List Nat
  symbols : Array Nat
  deriving DecidableEq

def countLen (lens : List Nat) (l : Nat) : Nat := (lens.filter (· == l)).length

def symsOfLenAux (l : Nat) : List Nat → Nat → List Nat
  | [], _ => []
  | x :: xs, i => if x == l then i :: symsOfLenAux l xs (i + 1) else symsOfLenAux l xs (i + 1)

def symsOfLen (lens : List Nat) (l : Nat) : List Nat := symsOfLenAux l lens 0

/-- Kraft budget walk: `left` codes are still free at the current length; `none` when a length
claims more codes than are left (over-subscribed). -/
def kraftLeft : List Nat → Nat → Option Nat
  | [], left => some left
  | c :: cs, left => if 2 * left < c then none else kraftLeft cs (2 * left - c)

def mkHuff (lens : List Nat) : Except Err Huff :=
  let counts := (List.range 15).map (fun i => countLen lens (i + 1))
  match kraftLeft counts 1 with
  | none => .error .oversubscribed
  | some _ => .ok ⟨counts, ((List.range 15).flatMap (fun i => symsOfLen lens (i + 1))).toArray⟩

/-- Walk the code one bit at a time, most significant bit of the code first (§3.1.1). At
length `len`, the codes of that length are the `c` consecutive values starting at `first`
(§3.2.2: same-length codes are consecutive in symbol order, and shorter codes precede longer
ones: `first` of the next length is `(first + c) * 2`); `index` = number of symbols with a
shorter code. -/
def decodeSymAux (symbols : Array Nat) : List Nat → Nat → Nat → Nat → BitReader → Except Err (Nat × BitReader)
  | [], _, _, _, _ => .error .badCode
  | c :: cs, code, first, index, r =>
    match readBit r with
    | .error e => .error e
    | .ok (b, r1) =>
      let code := code + b.toNat
      if first ≤ code ∧ code < first + c then
        match symbols[index + (code - first)]? with
        | some s => .ok (s, r1)
        | none => .error .badCode
      else decodeSymAux symbols cs (2 * code) (2 * (first + c)) (index + c) r1

def decodeSym (h : Huff) (r : BitReader) : Except Err (Nat × BitReader) :=
  decodeSymAux h.symbols h.counts 0 0 0 r

/-! ## Compressed blocks (§3.2.5) -/

def lenBase : List Nat := [3, 4, 5, 6, 7, 8, 9, 10, 11, 13, 15, 17, 19, 23, 27, 31, 35, 43, 51, 59,
  67, 83, 99, 115, 131, 163, 195, 227, 258]
def lenExtra : List Nat := [0, 0, 0, 0, 0, 0, 0, 0, 1, 1, 1, 1, 2, 2, 2, 2, 3, 3, 3, 3, 4, 4, 4, 4,
  5, 5, 5, 5, 0]
def distBase : List Nat := [1, 2, 3, 4, 5, 7, 9, 13, 17, 25, 33, 49, 65, 97, 129, 193, 257, 385, 513,
  769, 1025, 1537, 2049, 3073, 4097, 6145, 8193, 12289, 16385, 24577]
def distExtra : List Nat := [0, 0, 0, 0, 1, 1, 2, 2, 3, 3, 4, 4, 5, 5, 6, 6, 7, 7, 8, 8, 9, 9, 10, 10,
  11, 11, 12, 12, 13, 13]

/-- after a length symbol 257..285: extra length bits, distance symbol, extra distance bits, copy -/
def copyStep (dist : Huff) (sym : Nat) (r : BitReader) (out : Array UInt8) :
    Except Err (BitReader × Array UInt8) :=
  match lenBase[sym - 257]?, lenExtra[sym - 257]? with
  | some lb, some le =>
    match readBits le r with
    | .error e => .error e
    | .ok (lx, r1) =>
      match decodeSym dist r1 with
      | .error e => .error e
      | .ok (ds, r2) =>
        match distBase[ds]?, distExtra[ds]? with
        | some db, some de =>
          match readBits de r2 with
          | .error e => .error e
          | .ok (dx, r3) =>
            if db + dx ≤ out.size then .ok (r3, copyBack (db + dx) (lb + lx) out)
            else .error .badDistance
        | _, _ => .error .badSymbol
  | _, _ => .error .badSymbol

/-- the symbol loop of one compressed block; every round reads at least one bit -/
def codes (lit dist : Huff) : Nat → BitReader → Array UInt8 → Except Err (BitReader × Array UInt8)
  | 0, _, _ => .error .fuel
  | fuel + 1, r, out =>
    match decodeSym lit r with
    | .error e => .error e
    | .ok (sym, r1) =>
      if sym < 256 then codes lit dist fuel r1 (out.push (UInt8.ofNat sym))
      else if sym = 256 then .ok (r1, out)
      else
        match copyStep dist sym r1 out with
        | .error e => .error e
        | .ok (r2, out2) => codes lit dist fuel r2 out2

/-- §3.2.6 -/
def fixedLitLens : List Nat :=
  List.replicate 144 8 ++ List.replicate 112 9 ++ List.replicate 24 7 ++ List.replicate 8 8
def fixedDistLens : List Nat := List.replicate 32 5
/- literal/length symbols 286-287 and distance symbols 30-31 take part in the code construction
   but "will never actually occur in the compressed data": meeting one is `badSymbol` (they have
   no entry in `lenBase` / `distBase`) -/

/-! ## Dynamic block header (§3.2.7) -/

def clOrder : List Nat := [16, 17, 18, 0, 8, 7, 9, 6, 10, 5, 11, 4, 12, 3, 13, 2, 14, 1, 15]

def readMany (width : Nat) : Nat → BitReader → Except Err (List Nat × BitReader)
  | 0, r => .ok ([], r)
  | n + 1, r =>
    match readBits width r with
    | .error e => .error e
    | .ok (v, r1) =>
      match readMany width n r1 with
      | .error e => .error e
      | .ok (vs, r2) => .ok (v :: vs, r2)

/-- the HLIT + HDIST code lengths, run-length coded with the code-length code; `acc` is reversed -/
def readLens (h : Huff) (total : Nat) : Nat → List Nat → BitReader → Except Err (List Nat × BitReader)
  | 0, _, _ => .error .fuel
  | fuel + 1, acc, r =>
    if total < acc.length then .error .badLengths
    else if acc.length = total then .ok (acc.reverse, r)
    else
      match decodeSym h r with
      | .error e => .error e
      | .ok (sym, r1) =>
        if sym < 16 then readLens h total fuel (sym :: acc) r1
        else if sym = 16 then
          match acc with
          | [] => .error .badLengths
          | prev :: _ =>
            match readBits 2 r1 with
            | .error e => .error e
            | .ok (n, r2) => readLens h total fuel (List.replicate (3 + n) prev ++ acc) r2
        else if sym = 17 then
          match readBits 3 r1 with
          | .error e => .error e
          | .ok (n, r2) => readLens h total fuel (List.replicate (3 + n) 0 ++ acc) r2
        else
          match readBits 7 r1 with
          | .error e => .error e
          | .ok (n, r2) => readLens h total fuel (List.replicate (11 + n) 0 ++ acc) r2

def dynamicTables (r : BitReader) : Except Err ((Huff × Huff) × BitReader) :=
  match readBits 5 r with
  | .error e => .error e
  | .ok (hlit, r1) =>
    match readBits 5 r1 with
    | .error e => .error e
    | .ok (hdist, r2) =>
      match readBits 4 r2 with
      | .error e => .error e
      | .ok (hclen, r3) =>
        if 286 < hlit + 257 ∨ 30 < hdist + 1 then .error .badLengths
        else
          match readMany 3 (hclen + 4) r3 with
          | .error e => .error e
          | .ok (cl, r4) =>
            match mkHuff ((List.range 19).map (fun s => cl.getD (clOrder.idxOf s) 0)) with
            | .error e => .error e
            | .ok clh =>
              match readLens clh (hlit + 257 + (hdist + 1)) (hlit + 257 + (hdist + 1) + 1) [] r4 with
              | .error e => .error e
              | .ok (lens, r5) =>
                if lens.getD 256 0 = 0 then .error .noEndOfBlock
                else
                  match mkHuff (lens.take (hlit + 257)) with
                  | .error e => .error e
                  | .ok lit =>
                    match mkHuff (lens.drop (hlit + 257)) with
                    | .error e => .error e
                    | .ok dist => .ok ((lit, dist), r5)

/-! ## Stored blocks (§3.2.4) and the block loop (§3.2.3) -/

def stored (r : BitReader) (out : Array UInt8) : Except Err (BitReader × Array UInt8) :=
  match r.rest with
  | l0 :: l1 :: n0 :: n1 :: data =>
    let len := l0.toNat + 256 * l1.toNat
    if len + (n0.toNat + 256 * n1.toNat) = 65535 then
      if len ≤ data.length then .ok (⟨[], data.drop len⟩, out ++ (data.take len).toArray)
      else .error .truncated
    else .error .badStoredLen
  | _ => .error .truncated

def block (btype : Nat) (r : BitReader) (out : Array UInt8) : Except Err (BitReader × Array UInt8) :=
  if btype = 0 then stored r out
  else if btype = 1 then
    match mkHuff fixedLitLens, mkHuff fixedDistLens with
    | .ok lit, .ok dist => codes lit dist (r.size + 1) r out
    | _, _ => .error .oversubscribed
  else if btype = 2 then
    match dynamicTables r with
    | .error e => .error e
    | .ok ((lit, dist), r1) => codes lit dist (r1.size + 1) r1 out
  else .error .badBlockType

def blocks : Nat → BitReader → Array UInt8 → Except Err (BitReader × Array UInt8)
  | 0, _, _ => .error .fuel
  | fuel + 1, r, out =>
    match readBit r with
    | .error e => .error e
    | .ok (final, r1) =>
      match readBits 2 r1 with
      | .error e => .error e
      | .ok (btype, r2) =>
        match block btype r2 out with
        | .error e => .error e
        | .ok (r3, out3) => if final then .ok (r3, out3) else blocks fuel r3 out3

/-- A raw DEFLATE stream at the head of `data`: the decompressed bytes and the input after the
last block (the unused bits of its last byte are dropped). -/
def inflateRaw (data : List UInt8) : Except Err (List UInt8 × List UInt8) :=
  match blocks (8 * data.length + 1) ⟨[], data⟩ #[] with
  | .error e => .error e
  | .ok (r, out) => .ok (out.toList, r.rest)

/-- the whole input is one DEFLATE stream -/
def inflate (data : List UInt8) : Except Err (List UInt8) :=
  match inflateRaw data with
  | .error e => .error e
  | .ok (out, _) => .ok out

/-! ## gzip members (RFC 1952 §2.3) -/

def le32 (a b c d : UInt8) : Nat := a.toNat + 256 * b.toNat + 65536 * c.toNat + 16777216 * d.toNat

/-- drop a zero-terminated string -/
def skipZ : List UInt8 → Option (List UInt8)
  | [] => none
  | b :: bs => if b = 0 then some bs else skipZ bs

def optSkip (on : Bool) (f : List UInt8 → Option (List UInt8)) (d : List UInt8) : Option (List UInt8) :=
  if on then f d else some d

def skipExtra : List UInt8 → Option (List UInt8)
  | x0 :: x1 :: d => if x0.toNat + 256 * x1.toNat ≤ d.length then some (d.drop (x0.toNat + 256 * x1.toNat)) else none
  | _ => none

def skipOptional (flg : UInt8) (d0 : List UInt8) : Option (List UInt8) :=
  match optSkip (bitAt flg 2) skipExtra d0 with
  | none => none
  | some d =>
    match optSkip (bitAt flg 3) skipZ d with
    | none => none
    | some d => optSkip (bitAt flg 4) skipZ d

/-- FHCRC: the two least significant bytes of the CRC-32 of all header bytes before it
(`data` = the member from its first byte, `d1` = what is left of it at this point) -/
def headerCrc (on : Bool) (data d1 : List UInt8) : Except Err (List UInt8) :=
  if on then
    match d1 with
    | c0 :: c1 :: d2 =>
      if c0.toNat + 256 * c1.toNat =
          (PqModel.Crc.crc32 (data.take (data.length - d1.length))).toNat % 65536
      then .ok d2 else .error .badHeaderCrc
    | _ => .error .truncated
  else .ok d1

/-- CRC32 and ISIZE (length modulo 2^32) of the uncompressed bytes, little endian -/
def trailer (out d : List UInt8) : Except Err (List UInt8 × List UInt8) :=
  match d with
  | c0 :: c1 :: c2 :: c3 :: s0 :: s1 :: s2 :: s3 :: rest =>
    if le32 c0 c1 c2 c3 ≠ (PqModel.Crc.crc32 out).toNat then .error .badCrc
    else if le32 s0 s1 s2 s3 ≠ out.length % 4294967296 then .error .badSize
    else .ok (out, rest)
  | _ => .error .truncated

/-- one member at the head of `data`: its decompressed bytes and what follows its trailer.
Header: ID1 ID2 CM FLG MTIME(4) XFL OS, then the optional fields announced by FLG; reserved FLG
bits must be zero. -/
def member (data : List UInt8) : Except Err (List UInt8 × List UInt8) :=
  match data with
  | id1 :: id2 :: cm :: flg :: _ :: _ :: _ :: _ :: _ :: _ :: d0 =>
    if id1 ≠ 0x1f ∨ id2 ≠ 0x8b then .error .badMagic
    else if cm ≠ 8 then .error .badMethod
    else if 32 ≤ flg.toNat then .error .badFlags
    else
      match skipOptional flg d0 with
      | none => .error .truncated
      | some d1 =>
        match headerCrc (bitAt flg 1) data d1 with
        | .error e => .error e
        | .ok d2 =>
          match inflateRaw d2 with
          | .error e => .error e
          | .ok (out, d3) => trailer out d3
  | _ => .error .truncated

def members : Nat → List UInt8 → List UInt8 → Except Err (List UInt8)
  | 0, _, _ => .error .fuel
  | fuel + 1, data, acc =>
    match member data with
    | .error e => .error e
    | .ok (out, rest) =>
      match rest with
      | [] => .ok (acc ++ out)
      | _ :: _ => members fuel rest (acc ++ out)

/-- a gzip file: one or more members, outputs concatenated (RFC 1952 §2.2) -/
def gunzip (data : List UInt8) : Except Err (List UInt8) := members (data.length + 1) data []

/-! ## Reference encoder: stored blocks only -/

def put16 (n : Nat) : List UInt8 := [UInt8.ofNat (n % 256), UInt8.ofNat (n / 256 % 256)]

def put32 (n : Nat) : List UInt8 :=
  [UInt8.ofNat (n % 256), UInt8.ofNat (n / 256 % 256), UInt8.ofNat (n / 65536 % 256),
   UInt8.ofNat (n / 16777216 % 256)]

def storedBlock (final : Bool) (c : List UInt8) : List UInt8 :=
  (if final then 1 else 0) :: (put16 c.length ++ put16 (65535 - c.length) ++ c)

/-- `cs` as non-final stored blocks, then `last` as the final one -/
def storedChunks : List (List UInt8) → List UInt8 → List UInt8
  | [], last => storedBlock true last
  | c :: cs, last => storedBlock false c ++ storedChunks cs last

def splitChunks : Nat → List UInt8 → List (List UInt8) × List UInt8
  | 0, bs => ([], bs)
  | fuel + 1, bs =>
    if bs.length ≤ 65535 then ([], bs)
    else ((bs.take 65535) :: (splitChunks fuel (bs.drop 65535)).1, (splitChunks fuel (bs.drop 65535)).2)

/-- the stored-block encoder: blocks of 65535 bytes, the rest in the final block -/
def storedBlocks (bs : List UInt8) : List UInt8 :=
  storedChunks (splitChunks bs.length bs).1 (splitChunks bs.length bs).2

/-- a gzip member around `storedBlocks` (no optional fields, MTIME 0, OS 255 = unknown) -/
def gzipStored (bs : List UInt8) : List UInt8 :=
  [0x1f, 0x8b, 8, 0, 0, 0, 0, 0, 0, 255] ++ (storedBlocks bs ++
    (put32 (PqModel.Crc.crc32 bs).toNat ++ put32 (bs.length % 4294967296)))

/-! ## Totality: the fuel of the entry points is never exhausted

Every definition above is structurally recursive, so it is a total function for the kernel; what
needs a proof is that the `fuel` error is unreachable, i.e. that the result is determined by the
stream and not by an arbitrary cut-off. Measure: `BitReader.size` (unread bits). -/

theorem readBit_size {r r1 : BitReader} {b : Bool} (h : readBit r = .ok (b, r1)) :
    r1.size + 1 = r.size := by
  unfold readBit at h
  split at h
  · injection h with h; injection h with _ h; subst h; simp [BitReader.size]; omega
  · injection h with h; injection h with _ h; subst h; simp [BitReader.size]; omega
  · cases h

theorem readBits_size : ∀ (n : Nat) {r r1 : BitReader} {v : Nat}, readBits n r = .ok (v, r1) →
    r1.size ≤ r.size := by
  intro n
  induction n with
  | zero => intro r r1 v h; simp [readBits] at h; rw [h.2]; exact Nat.le_refl _
  | succ n ih =>
    intro r r1 v h
    unfold readBits at h
    split at h
    · cases h
    · rename_i b r2 hb
      split at h
      · cases h
      · rename_i v2 r3 h3
        injection h with h; injection h with _ h; subst h
        have := readBit_size hb
        have := ih h3
        omega

theorem decodeSymAux_size (symbols : Array Nat) : ∀ (cs : List Nat) (code first index : Nat)
    {r r1 : BitReader} {s : Nat},
    decodeSymAux symbols cs code first index r = .ok (s, r1) → r1.size < r.size := by
  intro cs
  induction cs with
  | nil => intro code first index r r1 s h; simp [decodeSymAux] at h
  | cons c cs ih =>
    intro code first index r r1 s h
    unfold decodeSymAux at h
    split at h
    · cases h
    · rename_i b r2 hb
      have hsz := readBit_size hb
      simp only at h
      split at h
      · split at h
        · injection h with h; injection h with _ h; subst h; omega
        · cases h
      · have := ih _ _ _ h
        omega

theorem decodeSym_size {h : Huff} {r r1 : BitReader} {s : Nat} (hd : decodeSym h r = .ok (s, r1)) :
    r1.size < r.size := decodeSymAux_size _ _ _ _ _ hd

theorem copyStep_size {dist : Huff} {sym : Nat} {r r1 : BitReader} {out out1 : Array UInt8}
    (h : copyStep dist sym r out = .ok (r1, out1)) : r1.size ≤ r.size := by
  unfold copyStep at h
  split at h
  · split at h
    · cases h
    · rename_i h1
      split at h
      · cases h
      · rename_i h2
        split at h
        · split at h
          · cases h
          · rename_i h3
            split at h
            · injection h with h; injection h with h _; subst h
              have := readBits_size _ h1
              have := decodeSym_size h2
              have := readBits_size _ h3
              omega
            · cases h
        · cases h
  · cases h

theorem readBit_ne_fuel {r : BitReader} : readBit r ≠ .error .fuel := by
  intro h; unfold readBit at h; split at h <;> cases h

theorem readBits_ne_fuel : ∀ (n : Nat) {r : BitReader}, readBits n r ≠ .error .fuel := by
  intro n
  induction n with
  | zero => intro r h; simp [readBits] at h
  | succ n ih =>
    intro r h
    unfold readBits at h
    split at h
    · rename_i hb; cases h; exact readBit_ne_fuel hb
    · split at h
      · rename_i hb; cases h; exact ih hb
      · cases h

theorem decodeSymAux_ne_fuel (symbols : Array Nat) : ∀ (cs : List Nat) (code first index : Nat)
    {r : BitReader}, decodeSymAux symbols cs code first index r ≠ .error .fuel := by
  intro cs
  induction cs with
  | nil => intro code first index r h; simp [decodeSymAux] at h
  | cons c cs ih =>
    intro code first index r h
    unfold decodeSymAux at h
    split at h
    · rename_i hb; cases h; exact readBit_ne_fuel hb
    · simp only at h
      split at h
      · split at h <;> cases h
      · exact ih _ _ _ h

theorem decodeSym_ne_fuel {h : Huff} {r : BitReader} : decodeSym h r ≠ .error .fuel :=
  decodeSymAux_ne_fuel _ _ _ _ _

theorem copyStep_ne_fuel {dist : Huff} {sym : Nat} {r : BitReader} {out : Array UInt8} :
    copyStep dist sym r out ≠ .error .fuel := by
  intro h
  unfold copyStep at h
  split at h
  · split at h
    · rename_i h1; cases h; exact readBits_ne_fuel _ h1
    · split at h
      · rename_i h2; cases h; exact decodeSym_ne_fuel h2
      · split at h
        · split at h
          · rename_i h3; cases h; exact readBits_ne_fuel _ h3
          · split at h <;> cases h
        · cases h
  · cases h

theorem codes_zero (lit dist : Huff) (r : BitReader) (out : Array UInt8) :
    codes lit dist 0 r out = .error .fuel := rfl

theorem codes_succ (lit dist : Huff) (fuel : Nat) (r : BitReader) (out : Array UInt8) :
    codes lit dist (fuel + 1) r out =
      match decodeSym lit r with
      | .error e => .error e
      | .ok (sym, r1) =>
        if sym < 256 then codes lit dist fuel r1 (out.push (UInt8.ofNat sym))
        else if sym = 256 then .ok (r1, out)
        else
          match copyStep dist sym r1 out with
          | .error e => .error e
          | .ok (r2, out2) => codes lit dist fuel r2 out2 := by rfl

theorem codes_size (lit dist : Huff) : ∀ (fuel : Nat) {r r1 : BitReader} {out out1 : Array UInt8},
    codes lit dist fuel r out = .ok (r1, out1) → r1.size ≤ r.size := by
  intro fuel
  induction fuel with
  | zero => intro r r1 out out1 h; rw [codes_zero] at h; cases h
  | succ fuel ih =>
    intro r r1 out out1 h
    rw [codes_succ] at h
    split at h
    · cases h
    · rename_i hs
      have := decodeSym_size hs
      split at h
      · have := ih h; omega
      · split at h
        · injection h with h; injection h with h _; subst h; omega
        · split at h
          · cases h
          · rename_i hc
            have := copyStep_size hc
            have := ih h
            omega

theorem codes_ne_fuel (lit dist : Huff) : ∀ (fuel : Nat) {r : BitReader} {out : Array UInt8},
    r.size < fuel → codes lit dist fuel r out ≠ .error .fuel := by
  intro fuel
  induction fuel with
  | zero => intro r out hf; omega
  | succ fuel ih =>
    intro r out hf h
    rw [codes_succ] at h
    split at h
    · rename_i hs; cases h; exact decodeSym_ne_fuel hs
    · rename_i hs
      have := decodeSym_size hs
      split at h
      · exact ih (by omega) h
      · split at h
        · cases h
        · split at h
          · rename_i hc; cases h; exact copyStep_ne_fuel hc
          · rename_i hc
            have := copyStep_size hc
            exact ih (by omega) h

theorem readMany_size (w : Nat) : ∀ (n : Nat) {r r1 : BitReader} {vs : List Nat},
    readMany w n r = .ok (vs, r1) → r1.size ≤ r.size := by
  intro n
  induction n with
  | zero => intro r r1 vs h; simp [readMany] at h; rw [h.2]; exact Nat.le_refl _
  | succ n ih =>
    intro r r1 vs h
    unfold readMany at h
    split at h
    · cases h
    · rename_i h1
      split at h
      · cases h
      · rename_i h2
        injection h with h; injection h with _ h; subst h
        have := readBits_size _ h1
        have := ih h2
        omega

theorem readMany_ne_fuel (w : Nat) : ∀ (n : Nat) {r : BitReader}, readMany w n r ≠ .error .fuel := by
  intro n
  induction n with
  | zero => intro r h; simp [readMany] at h
  | succ n ih =>
    intro r h
    unfold readMany at h
    split at h
    · rename_i h1; cases h; exact readBits_ne_fuel _ h1
    · split at h
      · rename_i h2; cases h; exact ih h2
      · cases h

theorem mkHuff_ne_fuel {lens : List Nat} : mkHuff lens ≠ .error .fuel := by
  intro h; unfold mkHuff at h; simp only at h; split at h <;> cases h

theorem readLens_size (h : Huff) (total : Nat) : ∀ (fuel : Nat) {acc : List Nat} {r r1 : BitReader}
    {lens : List Nat}, readLens h total fuel acc r = .ok (lens, r1) → r1.size ≤ r.size := by
  intro fuel
  induction fuel with
  | zero => intro acc r r1 lens hr; simp [readLens] at hr
  | succ fuel ih =>
    intro acc r r1 lens hr
    unfold readLens at hr
    split at hr
    · cases hr
    · split at hr
      · injection hr with hr; injection hr with _ hr; subst hr; exact Nat.le_refl _
      · split at hr
        · cases hr
        · rename_i hs
          have := decodeSym_size hs
          split at hr
          · have := ih hr; omega
          · split at hr
            · split at hr
              · cases hr
              · split at hr
                · cases hr
                · rename_i hb
                  have := readBits_size _ hb
                  have := ih hr; omega
            · split at hr
              · split at hr
                · cases hr
                · rename_i hb
                  have := readBits_size _ hb
                  have := ih hr; omega
              · split at hr
                · cases hr
                · rename_i hb
                  have := readBits_size _ hb
                  have := ih hr; omega

theorem readLens_ne_fuel (h : Huff) (total : Nat) : ∀ (fuel : Nat) {acc : List Nat} {r : BitReader},
    0 < fuel → total + 1 ≤ acc.length + fuel → readLens h total fuel acc r ≠ .error .fuel := by
  intro fuel
  induction fuel with
  | zero => intro acc r h0; omega
  | succ fuel ih =>
    intro acc r _ hI hr
    unfold readLens at hr
    split at hr
    · cases hr
    · split at hr
      · cases hr
      · rename_i hlt hne
        have hf : 0 < fuel := by omega
        split at hr
        · rename_i hs; cases hr; exact decodeSym_ne_fuel hs
        · split at hr
          · exact ih hf (by simp only [List.length_cons]; omega) hr
          · split at hr
            · split at hr
              · cases hr
              · split at hr
                · rename_i hb; cases hr; exact readBits_ne_fuel _ hb
                · exact ih hf (by simp only [List.length_append, List.length_replicate, List.length_cons] at *; omega) hr
            · split at hr
              · split at hr
                · rename_i hb; cases hr; exact readBits_ne_fuel _ hb
                · exact ih hf (by simp only [List.length_append, List.length_replicate] at *; omega) hr
              · split at hr
                · rename_i hb; cases hr; exact readBits_ne_fuel _ hb
                · exact ih hf (by simp only [List.length_append, List.length_replicate] at *; omega) hr

theorem dynamicTables_size {r r1 : BitReader} {t : Huff × Huff}
    (h : dynamicTables r = .ok (t, r1)) : r1.size ≤ r.size := by
  unfold dynamicTables at h
  split at h
  · cases h
  · rename_i h1
    split at h
    · cases h
    · rename_i h2
      split at h
      · cases h
      · rename_i h3
        split at h
        · cases h
        · split at h
          · cases h
          · rename_i h4
            split at h
            · cases h
            · split at h
              · cases h
              · rename_i h5
                split at h
                · cases h
                · split at h
                  · cases h
                  · split at h
                    · cases h
                    · injection h with h; injection h with _ h; subst h
                      have := readBits_size _ h1
                      have := readBits_size _ h2
                      have := readBits_size _ h3
                      have := readMany_size _ _ h4
                      have := readLens_size _ _ _ h5
                      omega

theorem dynamicTables_ne_fuel {r : BitReader} : dynamicTables r ≠ .error .fuel := by
  intro h
  unfold dynamicTables at h
  split at h
  · rename_i h1; cases h; exact readBits_ne_fuel _ h1
  · split at h
    · rename_i h2; cases h; exact readBits_ne_fuel _ h2
    · split at h
      · rename_i h3; cases h; exact readBits_ne_fuel _ h3
      · split at h
        · cases h
        · split at h
          · rename_i h4; cases h; exact readMany_ne_fuel _ _ h4
          · split at h
            · rename_i h5; cases h; exact mkHuff_ne_fuel h5
            · split at h
              · rename_i h6; cases h
                exact readLens_ne_fuel _ _ _ (by omega) (by simp) h6
              · split at h
                · cases h
                · split at h
                  · rename_i h7; cases h; exact mkHuff_ne_fuel h7
                  · split at h
                    · rename_i h8; cases h; exact mkHuff_ne_fuel h8
                    · cases h

theorem stored_size {r r1 : BitReader} {out out1 : Array UInt8} (h : stored r out = .ok (r1, out1)) :
    r1.size ≤ r.size := by
  unfold stored at h
  split at h
  · rename_i hr
    simp only at h
    split at h
    · split at h
      · injection h with h; injection h with h _; subst h
        simp only [BitReader.size, hr, List.length_nil, List.length_drop, List.length_cons]; omega
      · cases h
    · cases h
  · cases h

theorem stored_ne_fuel {r : BitReader} {out : Array UInt8} : stored r out ≠ .error .fuel := by
  intro h
  unfold stored at h
  split at h
  · simp only at h
    split at h
    · split at h <;> cases h
    · cases h
  · cases h

theorem block_size {t : Nat} {r r1 : BitReader} {out out1 : Array UInt8}
    (h : block t r out = .ok (r1, out1)) : r1.size ≤ r.size := by
  unfold block at h
  split at h
  · exact stored_size h
  · split at h
    · split at h
      · exact codes_size _ _ _ h
      · cases h
    · split at h
      · split at h
        · cases h
        · rename_i hd
          have := dynamicTables_size hd
          have := codes_size _ _ _ h
          omega
      · cases h

theorem block_ne_fuel {t : Nat} {r : BitReader} {out : Array UInt8} : block t r out ≠ .error .fuel := by
  intro h
  unfold block at h
  split at h
  · exact stored_ne_fuel h
  · split at h
    · split at h
      · exact codes_ne_fuel _ _ _ (by omega) h
      · cases h
    · split at h
      · split at h
        · rename_i hd; cases h; exact dynamicTables_ne_fuel hd
        · exact codes_ne_fuel _ _ _ (by omega) h
      · cases h

theorem blocks_size : ∀ (fuel : Nat) {r r1 : BitReader} {out out1 : Array UInt8},
    blocks fuel r out = .ok (r1, out1) → r1.size ≤ r.size := by
  intro fuel
  induction fuel with
  | zero => intro r r1 out out1 h; simp [blocks] at h
  | succ fuel ih =>
    intro r r1 out out1 h
    unfold blocks at h
    split at h
    · cases h
    · rename_i hb
      have := readBit_size hb
      split at h
      · cases h
      · rename_i ht
        have := readBits_size _ ht
        split at h
        · cases h
        · rename_i hk
          have := block_size hk
          split at h
          · injection h with h; injection h with h _; subst h; omega
          · have := ih h; omega

theorem blocks_ne_fuel : ∀ (fuel : Nat) {r : BitReader} {out : Array UInt8},
    r.size < fuel → blocks fuel r out ≠ .error .fuel := by
  intro fuel
  induction fuel with
  | zero => intro r out hf; omega
  | succ fuel ih =>
    intro r out hf h
    unfold blocks at h
    split at h
    · rename_i hb; cases h; exact readBit_ne_fuel hb
    · rename_i hb
      have := readBit_size hb
      split at h
      · rename_i ht; cases h; exact readBits_ne_fuel _ ht
      · rename_i ht
        have := readBits_size _ ht
        split at h
        · rename_i hk; cases h; exact block_ne_fuel hk
        · rename_i hk
          have := block_size hk
          split at h
          · cases h
          · exact ih (by omega) h

/-- **Totality of `inflateRaw`**: the block loop and the symbol loops never run out of fuel. -/
theorem inflateRaw_no_fuel (data : List UInt8) : inflateRaw data ≠ .error .fuel := by
  intro h
  unfold inflateRaw at h
  split at h
  · rename_i hb; cases h
    exact blocks_ne_fuel _ (by simp [BitReader.size]) hb
  · cases h

theorem inflate_no_fuel (data : List UInt8) : inflate data ≠ .error .fuel := by
  intro h
  unfold inflate at h
  split at h
  · rename_i hb; cases h; exact inflateRaw_no_fuel _ hb
  · cases h

/-- what `inflateRaw` leaves is no longer than its input -/
theorem inflateRaw_rest {data out rest : List UInt8} (h : inflateRaw data = .ok (out, rest)) :
    rest.length ≤ data.length := by
  unfold inflateRaw at h
  split at h
  · cases h
  · rename_i hb
    injection h with h; injection h with _ h; subst h
    have := blocks_size _ hb
    simp only [BitReader.size, List.length_nil] at this
    omega

/-! ## The stored-block encoder is inverted, for every segmentation -/

open PqModel.Spec.BlockCodecs (toNat_ofNat_lt)

theorem get16_put16 {n : Nat} (h : n ≤ 65535) :
    (UInt8.ofNat (n % 256)).toNat + 256 * (UInt8.ofNat (n / 256 % 256)).toNat = n := by
  rw [toNat_ofNat_lt (by omega), toNat_ofNat_lt (by omega)]; omega

theorem readBit_header (final : Bool) (R : List UInt8) :
    readBit ⟨[], (if final then (1 : UInt8) else 0) :: R⟩ =
      .ok (final, ⟨[false, false, false, false, false, false, false], R⟩) := by
  cases final <;> simp [readBit, bitAt] <;> decide

theorem readBits_btype0 (R : List UInt8) :
    readBits 2 ⟨[false, false, false, false, false, false, false], R⟩ =
      .ok (0, ⟨[false, false, false, false, false], R⟩) := by
  simp [readBits, readBit]

theorem stored_put (cur : List Bool) (c tail : List UInt8) (out : Array UInt8) (hc : c.length ≤ 65535) :
    stored ⟨cur, put16 c.length ++ put16 (65535 - c.length) ++ c ++ tail⟩ out =
      .ok (⟨[], tail⟩, out ++ c.toArray) := by
  have h1 := get16_put16 hc
  have h2 := get16_put16 (n := 65535 - c.length) (by omega)
  simp only [stored, put16, List.cons_append, List.nil_append, h1, h2]
  have h3 : c.length + (65535 - c.length) = 65535 := by omega
  simp [h3]

/-- one stored block is consumed by one round of the block loop -/
theorem blocks_storedBlock (final : Bool) (c tail : List UInt8) (out : Array UInt8) (fuel : Nat)
    (hc : c.length ≤ 65535) :
    blocks (fuel + 1) ⟨[], storedBlock final c ++ tail⟩ out =
      if final then .ok (⟨[], tail⟩, out ++ c.toArray) else blocks fuel ⟨[], tail⟩ (out ++ c.toArray) := by
  have hb : block 0 ⟨[false, false, false, false, false],
      put16 c.length ++ put16 (65535 - c.length) ++ c ++ tail⟩ out = .ok (⟨[], tail⟩, out ++ c.toArray) := by
    simp only [block, ↓reduceIte]; exact stored_put _ _ _ _ hc
  simp only [blocks, storedBlock, List.cons_append, readBit_header, readBits_btype0,
    List.append_assoc] at hb ⊢
  rw [hb]

theorem blocks_storedChunks : ∀ (cs : List (List UInt8)) (last tail : List UInt8) (out : Array UInt8)
    (fuel : Nat), cs.length < fuel → (∀ c ∈ cs, c.length ≤ 65535) → last.length ≤ 65535 →
    blocks fuel ⟨[], storedChunks cs last ++ tail⟩ out =
      .ok (⟨[], tail⟩, out ++ (cs.flatten ++ last).toArray) := by
  intro cs
  induction cs with
  | nil =>
    intro last tail out fuel hf _ hl
    obtain ⟨f, rfl⟩ : ∃ f, fuel = f + 1 := ⟨fuel - 1, by omega⟩
    simp only [storedChunks, List.flatten_nil, List.nil_append]
    rw [blocks_storedBlock true last tail out f hl]; rfl
  | cons c cs ih =>
    intro last tail out fuel hf hcs hl
    obtain ⟨f, rfl⟩ : ∃ f, fuel = f + 1 := ⟨fuel - 1, by omega⟩
    simp only [storedChunks, List.append_assoc]
    rw [blocks_storedBlock false c _ out f (hcs c (List.mem_cons_self ..))]
    simp only [Bool.false_eq_true, ↓reduceIte]
    rw [ih last tail _ f (by simp only [List.length_cons] at hf; omega)
      (fun x hx => hcs x (List.mem_cons_of_mem _ hx)) hl]
    simp [Array.append_assoc]

theorem storedBlock_length (final : Bool) (c : List UInt8) : (storedBlock final c).length = c.length + 5 := by
  simp [storedBlock, put16]

theorem storedChunks_length : ∀ (cs : List (List UInt8)) (last : List UInt8),
    cs.length + 1 ≤ (storedChunks cs last).length := by
  intro cs
  induction cs with
  | nil => intro last; simp [storedChunks, storedBlock_length]
  | cons c cs ih =>
    intro last
    have := ih last
    simp only [storedChunks, List.length_append, storedBlock_length, List.length_cons]; omega

/-- **Stored blocks, any segmentation**: whatever way the bytes are cut into stored blocks of at
most 65535 bytes (empty ones included), `inflateRaw` gives them back and stops exactly behind
the final block. -/
theorem inflateRaw_storedChunks (cs : List (List UInt8)) (last tail : List UInt8)
    (hcs : ∀ c ∈ cs, c.length ≤ 65535) (hl : last.length ≤ 65535) :
    inflateRaw (storedChunks cs last ++ tail) = .ok (cs.flatten ++ last, tail) := by
  unfold inflateRaw
  have := storedChunks_length cs last
  rw [blocks_storedChunks cs last tail #[] _ (by simp only [List.length_append]; omega) hcs hl]
  simp

theorem splitChunks_flatten : ∀ (fuel : Nat) (bs : List UInt8),
    (splitChunks fuel bs).1.flatten ++ (splitChunks fuel bs).2 = bs := by
  intro fuel
  induction fuel with
  | zero => intro bs; simp [splitChunks]
  | succ fuel ih =>
    intro bs
    unfold splitChunks
    split
    · simp
    · simp only [List.flatten_cons, List.append_assoc, ih, List.take_append_drop]

theorem splitChunks_bound : ∀ (fuel : Nat) (bs : List UInt8), bs.length ≤ fuel + 65535 →
    (∀ c ∈ (splitChunks fuel bs).1, c.length ≤ 65535) ∧ (splitChunks fuel bs).2.length ≤ 65535 := by
  intro fuel
  induction fuel with
  | zero => intro bs h; simp [splitChunks]; omega
  | succ fuel ih =>
    intro bs h
    unfold splitChunks
    split
    · rename_i hle; simp; exact hle
    · have := ih (bs.drop 65535) (by simp only [List.length_drop]; omega)
      refine ⟨?_, this.2⟩
      intro c hc
      simp only [List.mem_cons] at hc
      rcases hc with rfl | hc
      · simp only [List.length_take]; omega
      · exact this.1 c hc

/-- **`inflate ∘ storedBlocks = id`** on every byte string (any length: 65535-byte blocks). -/
theorem inflate_storedBlocks (bs : List UInt8) : inflate (storedBlocks bs) = .ok bs := by
  have hb := splitChunks_bound bs.length bs (by omega)
  have h := inflateRaw_storedChunks _ _ [] hb.1 hb.2
  rw [List.append_nil, splitChunks_flatten] at h
  simp only [inflate, storedBlocks, h]

theorem inflateRaw_storedBlocks (bs tail : List UInt8) :
    inflateRaw (storedBlocks bs ++ tail) = .ok (bs, tail) := by
  have hb := splitChunks_bound bs.length bs (by omega)
  have h := inflateRaw_storedChunks _ _ tail hb.1 hb.2
  rw [splitChunks_flatten] at h
  exact h

example : inflate (storedBlocks [1, 2, 3]) = .ok [1, 2, 3] := inflate_storedBlocks _
example : storedBlocks [104, 105] = [1, 2, 0, 253, 255, 104, 105] := by decide

/-! ## gzip: totality and the stored-block member -/

theorem skipZ_length : ∀ {d d1 : List UInt8}, skipZ d = some d1 → d1.length ≤ d.length := by
  intro d
  induction d with
  | nil => intro d1 h; simp [skipZ] at h
  | cons b bs ih =>
    intro d1 h
    unfold skipZ at h
    split at h
    · injection h with h; subst h; simp
    · have := ih h; simp only [List.length_cons]; omega

theorem skipExtra_length {d d1 : List UInt8} (h : skipExtra d = some d1) : d1.length ≤ d.length := by
  unfold skipExtra at h
  split at h
  · split at h
    · injection h with h; subst h; simp only [List.length_drop, List.length_cons]; omega
    · cases h
  · cases h

theorem optSkip_length {on : Bool} {f : List UInt8 → Option (List UInt8)}
    (hf : ∀ {d d1 : List UInt8}, f d = some d1 → d1.length ≤ d.length) {d d1 : List UInt8}
    (h : optSkip on f d = some d1) : d1.length ≤ d.length := by
  unfold optSkip at h
  split at h
  · exact hf h
  · injection h with h; subst h; exact Nat.le_refl _

theorem skipOptional_length {flg : UInt8} {d d1 : List UInt8} (h : skipOptional flg d = some d1) :
    d1.length ≤ d.length := by
  unfold skipOptional at h
  split at h
  · cases h
  · rename_i h1
    split at h
    · cases h
    · rename_i h2
      have := optSkip_length (fun {_ _} => skipExtra_length) h1
      have := optSkip_length (fun {_ _} => skipZ_length) h2
      have := optSkip_length (fun {_ _} => skipZ_length) h
      omega

theorem headerCrc_length {on : Bool} {data d1 d2 : List UInt8} (h : headerCrc on data d1 = .ok d2) :
    d2.length ≤ d1.length := by
  unfold headerCrc at h
  split at h
  · split at h
    · split at h
      · injection h with h; subst h; simp only [List.length_cons]; omega
      · cases h
    · cases h
  · injection h with h; subst h; exact Nat.le_refl _

theorem trailer_length {out d out1 rest : List UInt8} (h : trailer out d = .ok (out1, rest)) :
    rest.length + 8 = d.length := by
  unfold trailer at h
  split at h
  · split at h
    · cases h
    · split at h
      · cases h
      · injection h with h; injection h with _ h; subst h; simp only [List.length_cons]
  · cases h

/-- a member is at least 18 bytes long -/
theorem member_length {data out rest : List UInt8} (h : member data = .ok (out, rest)) :
    rest.length + 18 ≤ data.length := by
  unfold member at h
  split at h
  · split at h
    · cases h
    · split at h
      · cases h
      · split at h
        · cases h
        · split at h
          · cases h
          · rename_i h1
            split at h
            · cases h
            · rename_i h2
              split at h
              · cases h
              · rename_i h3
                have := skipOptional_length h1
                have := headerCrc_length h2
                have := inflateRaw_rest h3
                have := trailer_length h
                simp only [List.length_cons]; omega
  · cases h

theorem member_ne_fuel {data : List UInt8} : member data ≠ .error .fuel := by
  intro h
  unfold member at h
  split at h
  · split at h
    · cases h
    · split at h
      · cases h
      · split at h
        · cases h
        · split at h
          · cases h
          · split at h
            · rename_i h2; cases h
              unfold headerCrc at h2
              split at h2
              · split at h2
                · split at h2 <;> cases h2
                · cases h2
              · cases h2
            · split at h
              · rename_i h3; cases h; exact inflateRaw_no_fuel _ h3
              · unfold trailer at h
                split at h
                · split at h
                  · cases h
                  · split at h <;> cases h
                · cases h
  · cases h

theorem members_ne_fuel : ∀ (fuel : Nat) {data acc : List UInt8}, data.length < fuel →
    members fuel data acc ≠ .error .fuel := by
  intro fuel
  induction fuel with
  | zero => intro data acc hf; omega
  | succ fuel ih =>
    intro data acc hf h
    unfold members at h
    split at h
    · rename_i hm; cases h; exact member_ne_fuel hm
    · rename_i hm
      have := member_length hm
      split at h
      · cases h
      · exact ih (by simp only [List.length_cons] at this ⊢; omega) h

/-- **Totality of `gunzip`**: never out of fuel, whatever the bytes. -/
theorem gunzip_no_fuel (data : List UInt8) : gunzip data ≠ .error .fuel :=
  members_ne_fuel _ (Nat.lt_succ_self _)

theorem le32_put32 {n : Nat} (h : n < 4294967296) :
    le32 (UInt8.ofNat (n % 256)) (UInt8.ofNat (n / 256 % 256)) (UInt8.ofNat (n / 65536 % 256))
      (UInt8.ofNat (n / 16777216 % 256)) = n := by
  unfold le32
  rw [toNat_ofNat_lt (by omega), toNat_ofNat_lt (by omega), toNat_ofNat_lt (by omega),
    toNat_ofNat_lt (by omega)]
  omega

theorem trailer_put (out : List UInt8) :
    trailer out (put32 (PqModel.Crc.crc32 out).toNat ++ put32 (out.length % 4294967296)) = .ok (out, []) := by
  have h1 := le32_put32 (PqModel.Crc.crc32 out).isLt
  have h2 := le32_put32 (n := out.length % 4294967296) (Nat.mod_lt _ (by decide))
  simp only [trailer, put32, List.cons_append, List.nil_append, h1, h2, ne_eq, not_true_eq_false,
    ↓reduceIte]

theorem member_gzipStored (bs : List UInt8) : member (gzipStored bs) = .ok (bs, []) := by
  have hz : ∀ k, bitAt 0 k = false := by intro k; simp [bitAt]
  have hs : ∀ d, skipOptional 0 d = some d := by intro d; simp [skipOptional, optSkip, hz]
  simp only [member, gzipStored, List.cons_append, List.nil_append]
  simp [hs, hz, headerCrc, inflateRaw_storedBlocks, trailer_put]

/-- **gzip around stored blocks**: header, DEFLATE payload, CRC-32 and ISIZE are all read back
and checked, for every byte string. -/
theorem gunzip_gzipStored (bs : List UInt8) : gunzip (gzipStored bs) = .ok bs := by
  have hlen : (gzipStored bs).length + 1 = ((gzipStored bs).length) + 1 := rfl
  unfold gunzip
  rw [hlen]
  simp [members, member_gzipStored]

example : gunzip (gzipStored [104, 105]) = .ok [104, 105] := gunzip_gzipStored _

end PqModel.Spec.Inflate
