import PqModel.Spec.Thrift
import PqModel.Spec.Snappy
import PqModel.Spec.Inflate
import PqModel.Spec.Lz4File
import PqModel.Spec.PageDecode
import PqModel.Layout
import PqModel.FileMetaTrees

/-! Spec side of C02: an independent structural reader of Parquet files written from
    parquet.thrift and the format documents. It walks the footer, every column chunk's pages
    (by parsing page headers at the offsets the metadata announces), the offset and column
    indexes, re-derives the layout numbers with `Layout.chunkMeta` (the accounting model whose
    correctness is `Layout.layout_wf`) and reports every clause in which the file's metadata
    disagrees with the bytes that are present. Field ids are those of parquet.thrift.

    Value level (chunks stored UNCOMPRESSED, with SNAPPY, GZIP or LZ4_RAW): every page body is decompressed with
    the spec Snappy reader (`Spec.Snappy`), the spec gzip reader (`Spec.Inflate`) or the spec LZ4 block reader
    (`Spec.Lz4File.lz4Block` = `BlockCodecs.lz4Dec`, proved to invert every writable sequence list) and decoded with the SPEC decoders of the encodings
    (`Spec.PageDecode`): repetition/definition levels, dictionary, values. The counts the headers
    and indexes announce are compared with what was decoded, and `dumpFile` returns the Dremel
    streams (value, repetition level, definition level) of every leaf column. -/
namespace PqModel.Spec
open PqModel.Layout

structure Leaf where
  path : List String
  ptype : Nat
  maxRep : Nat
  maxDef : Nat
  typeLen : Nat := 0     -- type_length of the schema element (FIXED_LEN_BYTE_ARRAY)
deriving Repr

/-- walk the depth-first schema element list; returns the leaves below `n` children -/
def schemaLeaves : Nat → List TVal → Nat → List String → Nat → Nat → Except String (List Leaf × List TVal)
  | 0, _, _, _, _, _ => .error "schema too deep"
  | _, rest, 0, _, _, _ => .ok ([], rest)
  | _, [], _ + 1, _, _, _ => .error "schema: fewer elements than num_children announce"
  | fuel + 1, e :: rest, k + 1, path, rep, dfn =>
    let name := TVal.str (e.field? 4)
    let r := TVal.nat (e.field? 3)   -- 0 required, 1 optional, 2 repeated
    let rep' := if r == 2 then rep + 1 else rep
    let dfn' := if r == 0 then dfn else dfn + 1
    let nc := TVal.nat (e.field? 5)
    if nc == 0 then
      match schemaLeaves fuel rest k path rep dfn with
      | .ok (ls, rest') => .ok (⟨path ++ [name], TVal.nat (e.field? 1), rep', dfn', TVal.nat (e.field? 2)⟩ :: ls, rest')
      | .error x => .error x
    else
      match schemaLeaves fuel rest nc (path ++ [name]) rep' dfn' with
      | .error x => .error x
      | .ok (sub, rest') =>
        match schemaLeaves fuel rest' k path rep dfn with
        | .ok (ls, rest'') => .ok (sub ++ ls, rest'')
        | .error x => .error x

def crcByte (c : UInt32) (b : UInt8) : UInt32 :=
  let c := c ^^^ b.toUInt32
  (List.range 8).foldl (fun c _ => if c &&& 1 == 1 then (c >>> 1) ^^^ 0xEDB88320 else c >>> 1) c

/-- CRC-32/IEEE of `d[from, from+n)` -/
def crc32Range (d : ByteArray) (start n : Nat) : UInt32 :=
  ((List.range n).foldl (fun c i => crcByte c (d.get! (start + i))) 0xFFFFFFFF) ^^^ 0xFFFFFFFF

structure PageInfo where
  op : PageOp
  offset : Nat
  ptype : Nat            -- 0 data v1, 2 dictionary, 3 data v2
  encoding : Nat
  crcOk : Option Bool    -- none = no CRC field
  numNulls : Option Nat  -- v2 only
  levelsLen : Nat        -- v2: rep+def byte lengths
  hasStats : Bool
  v2Compressed : Bool := true   -- v2: is_compressed (default true)
  bodyPos : Nat := 0
  repLen : Nat := 0      -- v2: repetition_levels_byte_length
  defLen : Nat := 0      -- v2: definition_levels_byte_length
  levelEncs : List Nat := []   -- v1: definition_level_encoding, repetition_level_encoding

/-- walk the pages of a chunk: `n` bytes starting at `pos` -/
def walkPages (d : ByteArray) (checkCrc : Bool) : Nat → Nat → Nat → List PageInfo → Except String (List PageInfo)
  | 0, _, _, _ => .error "too many pages"
  | fuel + 1, pos, stop, acc =>
    if pos == stop then .ok acc.reverse
    else if pos > stop then .error s!"page at {pos} runs past the end of the chunk at {stop}"
    else
      match readStruct d pos with
      | .error e => .error s!"page header at {pos}: {e}"
      | .ok (h, bodyPos) =>
        let ptype := TVal.nat (h.field? 1)
        let uncomp := TVal.nat (h.field? 2)
        let comp := TVal.nat (h.field? 3)
        if bodyPos + comp > d.size then .error s!"page body at {bodyPos}+{comp} past end of file" else
        let crc := TVal.int? (h.field? 4)
        let crcOk := match crc with
          | some c => if checkCrc then some ((crc32Range d bodyPos comp).toNat == (c.toNat % 4294967296) || (crc32Range d bodyPos comp).toNat == ((c + 4294967296).toNat % 4294967296)) else some true
          | none => none
        let (nv, nr, enc, nn, ll, st) :=
          if ptype == 0 then
            let dh := h.field? 5
            (TVal.nat (dh.bind (·.field? 1)), 0, TVal.nat (dh.bind (·.field? 2)), (none : Option Nat), 0, TVal.isSome (dh.bind (·.field? 5)))
          else if ptype == 3 then
            let dh := h.field? 8
            (TVal.nat (dh.bind (·.field? 1)), TVal.nat (dh.bind (·.field? 3)), TVal.nat (dh.bind (·.field? 4)),
             some (TVal.nat (dh.bind (·.field? 2))), TVal.nat (dh.bind (·.field? 5)) + TVal.nat (dh.bind (·.field? 6)), TVal.isSome (dh.bind (·.field? 8)))
          else
            let dh := h.field? 7
            (TVal.nat (dh.bind (·.field? 1)), 0, TVal.nat (dh.bind (·.field? 2)), none, 0, false)
        let info : PageInfo := {
          op := { isDict := ptype == 2, hdrLen := bodyPos - pos, bodyLen := comp, uncompLen := uncomp, numValues := nv, numRows := nr },
          offset := pos, ptype := ptype, encoding := enc, crcOk := crcOk, numNulls := nn, levelsLen := ll, hasStats := st,
          v2Compressed := (match (h.field? 8).bind (·.field? 7) with | some (.bool b) => b | _ => true),
          bodyPos := bodyPos,
          repLen := TVal.nat ((h.field? 8).bind (·.field? 6)),
          defLen := TVal.nat ((h.field? 8).bind (·.field? 5)),
          levelEncs := if ptype == 0 then [TVal.nat ((h.field? 5).bind (·.field? 3)), TVal.nat ((h.field? 5).bind (·.field? 4))] else [] }
        walkPages d checkCrc fuel (bodyPos + comp) stop (info :: acc)

/-- What the stored body says about its own uncompressed size, for the codecs whose framing
    carries it: UNCOMPRESSED (0): the body itself; SNAPPY (1): the uvarint preamble of the block;
    GZIP (2): ISIZE, the last four bytes. `none` = the framing does not say (zstd, brotli, lz4 raw).
    For v2 pages the levels are stored uncompressed in front of the (optionally) compressed values. -/
def announcedSizeOk (d : ByteArray) (codec : Nat) (p : PageInfo) : Option Bool :=
  let lv := if p.ptype == 3 then p.levelsLen else 0
  if lv > p.op.bodyLen || lv > p.op.uncompLen then some false else
  let dataPos := p.bodyPos + lv
  let dataLen := p.op.bodyLen - lv
  let want := p.op.uncompLen - lv
  if codec == 0 || (p.ptype == 3 && !p.v2Compressed) then some (dataLen == want)
  else if codec == 1 then
    if dataLen == 0 then some (want == 0) else
    match uvarint d dataPos with
    | .ok (n, _) => some (n == want)
    | .error _ => some false
  else if codec == 2 then
    if dataLen < 18 then some false else some (le d (dataPos + dataLen - 4) 4 == want % 4294967296)
  else none

/-! ## value level: page bodies of UNCOMPRESSED (0), SNAPPY (1), GZIP (2) and LZ4_RAW (7) chunks -/

/-- the codecs whose chunks are value-decoded: UNCOMPRESSED, SNAPPY, GZIP, LZ4_RAW (zstd 6 and
    brotli 4 stay structural: no Lean reader of those formats) -/
def valueCodec (codec : Nat) : Bool := codec ≤ 2 || codec == 7

/-- what one data page holds once decoded -/
structure PageData where
  reps : List Nat          -- one per entry (all 0 when the column is not repeated)
  defs : List Nat          -- one per entry (all 0 when nothing is optional)
  vals : List Value        -- the non-null values, in order
  rows : Nat               -- entries with repetition level 0
  nulls : Nat              -- entries with definition level below the maximum

/-- the stored bytes `d[pos, pos+len)` of a page (part), decompressed when `compressed` -/
def partBytes (d : ByteArray) (codec : Nat) (compressed : Bool) (pos len : Nat) : Except String ByteArray :=
  if codec == 1 && compressed && len > 0 then
    match Snappy.decodeRange d pos (pos + len) with
    | .ok out => .ok out
    | .error e => .error s!"snappy block does not decompress ({e})"
  else if codec == 2 && compressed && len > 0 then
    -- GZIP: the spec reader of RFC 1951/1952 (`Spec.Inflate.gunzip`: members, CRC-32, ISIZE)
    match Inflate.gunzip (d.extract pos (pos + len)).toList with
    | .ok out => .ok (ByteArray.mk out.toArray)
    | .error _ => .error "gzip member does not decompress (inflate / CRC-32 / ISIZE)"
  else if codec == 7 && compressed then
    -- LZ4_RAW: one LZ4 block, no framing (`Spec.Lz4File.lz4Block`, equal to `BlockCodecs.lz4Dec`)
    match Lz4File.lz4Block (Lz4File.blockAt d pos len) with
    | .ok out => .ok (ByteArray.mk out)
    | .error e => .error s!"lz4 block does not decompress ({Lz4File.errName e})"
  else .ok (d.extract pos (pos + len))

/-- v1 level block at `pos` of the uncompressed body: `<4-byte LE length> <hybrid stream>` -/
def levelsV1 (w nv : Nat) (body : ByteArray) (pos : Nat) (which : String) : Except String (List Nat × Nat) :=
  if pos + 4 > body.size then .error s!"v1 {which} level block lacks its 4-byte length prefix" else
  let len := le body pos 4
  if pos + 4 + len > body.size then .error s!"v1 {which} level block of {len} bytes does not fit in the page body" else
  match PqModel.Rle.specDecodeLevelsV1 w nv (sliceNat body pos (4 + len) []) with
  | .ok l => .ok (l, pos + 4 + len)
  | .error e => .error s!"{which} levels do not decode ({e.name})"

/-- v2 level block `d[pos, pos+len)`: the hybrid stream alone -/
def levelsV2 (w nv : Nat) (d : ByteArray) (pos len : Nat) (which : String) : Except String (List Nat) :=
  match PqModel.Rle.specDecode w nv (sliceNat d pos len []) with
  | .ok l => .ok l
  | .error e => .error s!"{which} levels do not decode ({e.name})"

def countP (f : Nat → Bool) : List Nat → Nat → Nat
  | [], n => n
  | x :: xs, n => countP f xs (if f x then n + 1 else n)

/-- Decode one data page. `.error` = the page cannot be decoded (one clause); otherwise the data
    and the clauses in which header counts and decoded counts differ. -/
def decodeDataPage (d : ByteArray) (leaf : Leaf) (codec : Nat) (dict : Option (Array Value)) (p : PageInfo) :
    Except String (PageData × List String) := do
  let nv := p.op.numValues
  let wr := PqModel.Rle.bitLen leaf.maxRep
  let wd := PqModel.Rle.bitLen leaf.maxDef
  let sizeClause := fun (got want : Nat) =>
    if got == want || announcedSizeOk d codec p == some false then []
    else [s!"stored body decompresses to {got} bytes, uncompressed_page_size leaves {want} (codec {codec})"]
  let (reps, defs, vb, soft) ← (
    if p.ptype == 3 then do
      let ll := p.repLen + p.defLen
      if ll > p.op.bodyLen || ll > p.op.uncompLen then throw "v2 level byte lengths exceed the page size"
      let reps ← if leaf.maxRep == 0 then pure (List.replicate nv 0) else levelsV2 wr nv d p.bodyPos p.repLen "repetition"
      let defs ← if leaf.maxDef == 0 then pure (List.replicate nv 0) else levelsV2 wd nv d (p.bodyPos + p.repLen) p.defLen "definition"
      let vb ← partBytes d codec p.v2Compressed (p.bodyPos + ll) (p.op.bodyLen - ll)
      pure (reps, defs, vb, sizeClause vb.size (p.op.uncompLen - ll))
    else do
      let body ← partBytes d codec true p.bodyPos p.op.bodyLen
      let soft := sizeClause body.size p.op.uncompLen
      let soft := if p.levelEncs.all (· == 3) then soft else "v1 level encoding is not RLE" :: soft
      let (reps, pos) ← if leaf.maxRep == 0 then pure (List.replicate nv 0, 0) else levelsV1 wr nv body 0 "repetition"
      let (defs, pos) ← if leaf.maxDef == 0 then pure (List.replicate nv 0, pos) else levelsV1 wd nv body pos "definition"
      pure (reps, defs, body.extract pos body.size, soft) : Except String (List Nat × List Nat × ByteArray × List String))
  let nulls := countP (· < leaf.maxDef) defs 0
  let nonNull := defs.length - nulls
  let rows := countP (· == 0) reps 0
  let vals ← match decodeValues leaf.ptype leaf.typeLen p.encoding nonNull dict vb with
    | .ok v => pure v
    | .error (.undecodable m) => throw s!"page body does not decode (encoding {p.encoding}: {m})"
    | .error (.dictIndex i n) => throw s!"dictionary index {i} is not below the dictionary size {n}"
    | .error .noDict => throw s!"dictionary-encoded data page (encoding {p.encoding}) in a chunk without decodable dictionary page"
  let soft := if reps.length == nv && defs.length == nv then soft
    else s!"page decodes {reps.length} repetition and {defs.length} definition level entries, header announces num_values {nv}" :: soft
  let soft := if reps.all (· ≤ leaf.maxRep) && defs.all (· ≤ leaf.maxDef) then soft
    else s!"a level exceeds the schema maximum (max repetition {leaf.maxRep}, max definition {leaf.maxDef})" :: soft
  let soft := if vals.length == nonNull then soft
    else s!"page holds {vals.length} values but {nonNull} definition levels equal the maximum" :: soft
  let soft := match reps with
    | r :: _ => if r == 0 then soft else s!"data page does not start on a row boundary (first repetition level {r})" :: soft
    | [] => soft
  let soft := match p.numNulls with
    | some n => if n == nulls then soft else s!"v2 num_nulls {n} but {nulls} definition levels are below the maximum" :: soft
    | none => soft
  let soft := if p.ptype != 3 || p.op.numRows == rows then soft
    else s!"v2 num_rows {p.op.numRows} but {rows} repetition levels are 0" :: soft
  pure ({ reps := reps, defs := defs, vals := vals, rows := rows, nulls := nulls }, soft)

/-- the dictionary page: PLAIN values, `num_values` of them -/
def decodeDictPage (d : ByteArray) (leaf : Leaf) (codec : Nat) (p : PageInfo) : Except String (Array Value × List String) := do
  let body ← partBytes d codec true p.bodyPos p.op.bodyLen
  let soft := if body.size == p.op.uncompLen || announcedSizeOk d codec p == some false then []
    else [s!"stored body decompresses to {body.size} bytes, uncompressed_page_size leaves {p.op.uncompLen} (codec {codec})"]
  if p.encoding != 0 && p.encoding != 2 then throw s!"dictionary page encoding {p.encoding} is not PLAIN"
  match plainValues leaf.ptype leaf.typeLen p.op.numValues (sliceU8 body 0 body.size []) with
  | .error e => throw s!"dictionary page does not decode ({e})"
  | .ok vals =>
    let soft := if vals.length == p.op.numValues then soft
      else s!"dictionary page holds {vals.length} values, header announces {p.op.numValues}" :: soft
    pure (vals.toArray, soft)

/-- pages larger than this are not value-decoded (the spec decoders work on lists) -/
def pageCapped (p : PageInfo) : Bool :=
  p.op.uncompLen > 1048576 || p.op.bodyLen > 1048576 || p.op.numValues > 262144

structure ChunkDecode where
  problems : List String := []            -- clauses without the chunk tag, latest first
  datas : List (Option PageData) := []    -- one per non-dictionary page, latest first
  decoded : Nat := 0
  capped : Nat := 0
  dict : Option (Array Value) := none
  dictCapped : Bool := false
  index : Nat := 0

/-- decode every page of a chunk whose codec is 0, 1, 2 or 7 (`valueCodec`) -/
def decodeChunkPages (d : ByteArray) (leaf : Leaf) (codec : Nat) (pages : List PageInfo) : ChunkDecode :=
  let st := pages.foldl (fun (st : ChunkDecode) p =>
    let st := { st with index := st.index + 1 }
    let k := st.index - 1
    if p.op.isDict then
      if pageCapped p then { st with capped := st.capped + 1, dictCapped := true } else
      match decodeDictPage d leaf codec p with
      | .error e => { st with problems := s!"page {k}: {e}" :: st.problems }
      | .ok (dv, soft) => { st with dict := some dv, problems := soft.map (s!"page {k}: " ++ ·) ++ st.problems }
    else if p.ptype != 0 && p.ptype != 3 then { st with datas := none :: st.datas }
    else if pageCapped p || (st.dictCapped && (p.encoding == 2 || p.encoding == 8)) then
      { st with capped := st.capped + 1, datas := none :: st.datas }
    else
      match decodeDataPage d leaf codec st.dict p with
      | .error e => { st with problems := s!"page {k}: {e}" :: st.problems, datas := none :: st.datas }
      | .ok (pd, soft) => { st with datas := some pd :: st.datas, decoded := st.decoded + 1,
                                    problems := soft.map (s!"page {k}: " ++ ·) ++ st.problems }) {}
  { st with problems := st.problems.reverse, datas := st.datas.reverse }

structure Report where
  problems : List String := []
  rowGroups : Nat := 0
  chunks : Nat := 0
  dataPages : Nat := 0
  dictPages : Nat := 0
  pagesWithCrc : Nat := 0
  v2Pages : Nat := 0
  offsetIndexes : Nat := 0
  columnIndexes : Nat := 0
  decodedPages : Nat := 0    -- data pages whose levels and values were decoded
  cappedPages : Nat := 0     -- pages too large for the list-based spec decoders
  bloomSections : Nat := 0   -- bloom filter sections found at the announced offsets
  regions : List (Nat × Nat × String) := []   -- (start, length, name) of every structure the footer names

def Report.add (r : Report) (cond : Bool) (msg : String) : Report :=
  if cond then r else { r with problems := msg :: r.problems }

def Report.region (r : Report) (start len : Nat) (name : String) : Report :=
  { r with regions := (start, len, name) :: r.regions }

/-- the member a thrift union holds: the id of its only field -/
def unionMember : Option TVal → Option Nat
  | some (.struct [(k, _)]) => some k
  | _ => none

/-- SPEC (parquet.thrift `BloomFilterHeader {1: required i32 numBytes, 2: required
    BloomFilterAlgorithm algorithm (union, 1: BLOCK), 3: required BloomFilterHash hash (union, 1:
    XXHASH), 4: required BloomFilterCompression compression (union, 1: UNCOMPRESSED)}`, and
    BloomFilter.md: the bitset follows the header; a split-block filter is a whole number of
    32-byte blocks). Returns the clauses violated by the section at `off` and its length in bytes. -/
def bloomSection (d : ByteArray) (off : Nat) (announcedLen : Option Int) (limit : Nat) : List String × Nat :=
  match readStruct d off with
  | .error e => ([s!"bloom filter header at {off}: {e}"], 0)
  | .ok (h, hend) =>
    match TVal.int? (h.field? 1) with
    | none => ([s!"bloom filter header at {off} lacks numBytes"], hend - off)
    | some nb =>
      let nb := nb.toNat
      let total := hend - off + nb
      let ps : List String := []
      let ps := if unionMember (h.field? 2) == some 1 then ps else s!"bloom filter algorithm is not BLOCK" :: ps
      let ps := if unionMember (h.field? 3) == some 1 then ps else s!"bloom filter hash is not XXHASH" :: ps
      let comp := unionMember (h.field? 4)
      let ps := if comp == some 1 || comp == some 2 then ps else s!"bloom filter compression is not a known member" :: ps
      let ps := if nb > 0 then ps else s!"bloom filter numBytes is 0" :: ps
      let ps := if comp != some 1 || nb % 32 == 0 then ps else s!"bloom filter bitset of {nb} bytes is not a whole number of 32-byte blocks" :: ps
      let ps := if off + total ≤ limit then ps else s!"bloom filter section [{off},{off + total}) runs past the footer at {limit}" :: ps
      let ps := match announcedLen with
        | some l => if l.toNat == total then ps else s!"bloom_filter_length {l} but header and bitset take {total} bytes" :: ps
        | none => ps
      (ps.reverse, total)

/-- two structures the footer names share a byte: `rs` sorted by start -/
def overlaps : List (Nat × Nat × String) → List String
  | a :: b :: rest =>
    let tl := overlaps (b :: rest)
    if a.1 + a.2.1 ≤ b.1 then tl
    else s!"{a.2.2} [{a.1},{a.1 + a.2.1}) overlaps {b.2.2} [{b.1},{b.1 + b.2.1})" :: tl
  | _ => []

def checkChunk (d : ByteArray) (footerStart : Nat) (rgi ci : Nat) (leaf : Leaf) (c : TVal) (rgRows : Nat)
    (start : Nat) (r : Report) : Report × Nat :=
  let tag := s!"rg{rgi}/col{ci}"
  match c.field? 3 with
  | none => (r.add false s!"{tag}: no column meta data", start)
  | some m =>
    let pathOk := (TVal.listD (m.field? 3)).map (fun p => TVal.str (some p)) == leaf.path
    let r := r.add pathOk s!"{tag}: path_in_schema {(TVal.listD (m.field? 3)).map (fun p => TVal.str (some p))} is not the schema path {leaf.path}"
    let r := r.add (TVal.nat (m.field? 1) == leaf.ptype) s!"{tag}: type differs from the schema leaf type"
    let dataOff := TVal.nat (m.field? 9)
    let dictOff := TVal.int? (m.field? 11)
    let totalComp := TVal.nat (m.field? 7)
    let totalUncomp := TVal.nat (m.field? 6)
    let numValues := TVal.nat (m.field? 5)
    let first := match dictOff with
      | some o => if o.toNat > 0 && o.toNat < dataOff then o.toNat else dataOff
      | none => dataOff
    let r := r.add (first ≥ start) s!"{tag}: chunk starts at {first}, inside the previous chunk which ends at {start}"
    let r := r.add (first + totalComp ≤ footerStart) s!"{tag}: chunk [{first},{first + totalComp}) overlaps the footer at {footerStart}"
    if first + totalComp > d.size then (r.add false s!"{tag}: chunk past end of file", first + totalComp) else
    match walkPages d true (totalComp + 2) first (first + totalComp) [] with
    | .error e => (r.add false s!"{tag}: {e}", first + totalComp)
    | .ok pages =>
      let ops := pages.map (·.op)
      let model := chunkMeta first ops
      let ndict := (pages.filter (·.op.isDict)).length
      let datas := pages.filter (fun p => !p.op.isDict)
      let r := { r with chunks := r.chunks + 1, dataPages := r.dataPages + datas.length, dictPages := r.dictPages + ndict,
                        pagesWithCrc := r.pagesWithCrc + (pages.filter (fun (p : PageInfo) => p.crcOk.isSome)).length,
                        v2Pages := r.v2Pages + (pages.filter (fun (p : PageInfo) => p.ptype == 3)).length }
      let r := r.region first totalComp s!"{tag} pages"
      -- bloom filter section (ColumnMetaData 14: bloom_filter_offset, 15: bloom_filter_length)
      let r := match TVal.int? (m.field? 14) with
        | none => r.add (TVal.int? (m.field? 15) == none) s!"{tag}: bloom_filter_length without bloom_filter_offset"
        | some bo =>
          let (ps, total) := bloomSection d bo.toNat (TVal.int? (m.field? 15)) footerStart
          let r := ps.foldl (fun (r : Report) p => r.add false s!"{tag}: {p}") r
          let r := r.add (bo.toNat ≥ 4) s!"{tag}: bloom_filter_offset {bo} is inside the magic"
          { r.region bo.toNat total s!"{tag} bloom filter" with bloomSections := r.bloomSections + 1 }
      let r := r.add (ndict ≤ 1) s!"{tag}: {ndict} dictionary pages"
      let r := r.add (match pages with | p :: rest => rest.all (fun q => !q.op.isDict) && (ndict == 0 || p.op.isDict) | [] => true)
                s!"{tag}: dictionary page is not the first page"
      let r := r.add (model.dataOffset == dataOff || datas.isEmpty) s!"{tag}: data_page_offset {dataOff} but the first data page is at {model.dataOffset}"
      let r := r.add (match dictOff, model.dictOffset with
                      | some o, some x => o.toNat == x
                      | some o, none => o == 0
                      | none, none => true
                      | none, some _ => false) s!"{tag}: dictionary_page_offset does not name the dictionary page"
      let r := r.add (model.totalCompressed == totalComp) s!"{tag}: total_compressed_size"
      let r := r.add (model.totalUncompressed == totalUncomp) s!"{tag}: total_uncompressed_size {totalUncomp} but pages announce {model.totalUncompressed}"
      let r := r.add (model.numValues == numValues) s!"{tag}: num_values {numValues} but data pages hold {model.numValues}"
      let r := r.add (pages.all (fun p => p.crcOk != some false)) s!"{tag}: page CRC does not match the stored body"
      let r := r.add (pages.all (fun p => p.levelsLen ≤ p.op.bodyLen)) s!"{tag}: v2 level byte lengths exceed the page size"
      let codec := TVal.nat (m.field? 4)
      let r := r.add (pages.all (fun p => announcedSizeOk d codec p != some false)) s!"{tag}: uncompressed_page_size differs from the size the stored body decompresses to (codec {codec})"
      let r := r.add (pages.all (fun p => p.ptype == 0 || p.ptype == 2 || p.ptype == 3)) s!"{tag}: unknown page type"
      let allV2 := datas.all (·.ptype == 3)
      let r := r.add (!allV2 || datas.isEmpty || model.numRows == rgRows) s!"{tag}: v2 pages hold {model.numRows} rows, row group announces {rgRows}"
      let r := r.add (leaf.maxRep != 0 || model.numValues == rgRows) s!"{tag}: non-repeated column holds {model.numValues} values for {rgRows} rows"
      let r := r.add (datas.all (fun p => match p.numNulls with | some n => n ≤ p.op.numValues | none => true)) s!"{tag}: v2 num_nulls exceeds num_values"
      -- value level: decode every page of an uncompressed or snappy chunk with the spec decoders
      let cd : ChunkDecode := if valueCodec codec then decodeChunkPages d leaf codec pages else {}
      let r := cd.problems.foldl (fun (r : Report) m => r.add false s!"{tag}: {m}") r
      let r := { r with decodedPages := r.decodedPages + cd.decoded, cappedPages := r.cappedPages + cd.capped }
      let allDecoded := valueCodec codec && cd.datas.length == datas.length && cd.datas.all (·.isSome)
      let rowsD := cd.datas.map (fun (o : Option PageData) => match o with | some pd => pd.rows | none => 0)
      -- the row counts read off the repetition levels (this covers v1 pages of repeated columns)
      let r := r.add (!allDecoded || datas.isEmpty || rowsD.sum == rgRows) s!"{tag}: pages hold {rowsD.sum} rows (repetition levels equal to 0), row group announces {rgRows}"
      let firstRowsD := (specLocs first 0 (List.zipWith (fun (p : PageInfo) n => { p.op with numRows := n }) datas rowsD)).map (·.firstRow)
      -- encodings listed in the chunk metadata cover what the pages use
      let encs := (TVal.listD (m.field? 2)).map (fun e => TVal.nat (some e))
      let r := r.add (pages.all (fun p => encs.contains p.encoding)) s!"{tag}: a page uses an encoding missing from the chunk's encodings list {encs}"
      -- encoding_stats, when present, count the pages by (type, encoding)
      let stats := TVal.listD (m.field? 13)
      let r := r.add (stats.isEmpty || stats.all (fun (s : TVal) =>
          let pt := TVal.nat (s.field? 1); let en := TVal.nat (s.field? 2); let cnt := TVal.nat (s.field? 3)
          (pages.filter (fun (p : PageInfo) => p.ptype == pt && p.encoding == en)).length == cnt)) s!"{tag}: encoding_stats do not count the pages present"
      let r := r.add (stats.isEmpty || (stats.map (fun (s : TVal) => TVal.nat (s.field? 3))).sum == pages.length) s!"{tag}: encoding_stats total differs from the number of pages"
      -- offset index
      let oiOff := TVal.nat (c.field? 4)
      let oiLen := TVal.nat (c.field? 5)
      let r := if oiOff == 0 then r else
        match readStruct d oiOff with
        | .error e => r.add false s!"{tag}: offset index at {oiOff}: {e}"
        | .ok (oi, oiEnd) =>
          let r := { r.region oiOff (oiEnd - oiOff) s!"{tag} offset index" with offsetIndexes := r.offsetIndexes + 1 }
          let r := r.add (oiEnd - oiOff == oiLen) s!"{tag}: offset_index_length {oiLen} but the struct is {oiEnd - oiOff} bytes"
          let r := r.add (oiOff ≥ first + totalComp && oiEnd ≤ footerStart) s!"{tag}: offset index overlaps data or footer"
          let locs := (TVal.listD (oi.field? 1)).map fun l => (⟨TVal.nat (l.field? 1), TVal.nat (l.field? 2), TVal.nat (l.field? 3)⟩ : PageLoc)
          let r := r.add (locs.length == datas.length) s!"{tag}: offset index has {locs.length} locations for {datas.length} data pages"
          let r := r.add (locs.map (·.offset) == model.locs.map (·.offset)) s!"{tag}: offset index offsets {locs.map (·.offset)} are not the page starts {model.locs.map (·.offset)}"
          let r := r.add (locs.map (·.size) == model.locs.map (·.size)) s!"{tag}: offset index compressed_page_size differs from header+body size"
          let r := r.add (!allV2 || locs.map (·.firstRow) == model.locs.map (·.firstRow)) s!"{tag}: first_row_index {locs.map (·.firstRow)} is not cumulative over page row counts {model.locs.map (·.firstRow)}"
          let r := r.add (leaf.maxRep != 0 || locs.map (·.firstRow) == (specLocs first 0 (datas.map fun p => { p.op with numRows := p.op.numValues })).map (·.firstRow))
                    s!"{tag}: first_row_index is not cumulative over page value counts (non-repeated column)"
          let r := r.add (!allDecoded || locs.length != datas.length || locs.map (·.firstRow) == firstRowsD)
                    s!"{tag}: first_row_index {locs.map (·.firstRow)} is not cumulative over the decoded page row counts {firstRowsD}"
          r.add (match locs with | l :: _ => l.firstRow == 0 | [] => true) s!"{tag}: first page does not start at row 0"
      -- column index
      let ciOff := TVal.nat (c.field? 6)
      let ciLen := TVal.nat (c.field? 7)
      let r := if ciOff == 0 then r else
        match readStruct d ciOff with
        | .error e => r.add false s!"{tag}: column index at {ciOff}: {e}"
        | .ok (cix, ciEnd) =>
          let r := { r.region ciOff (ciEnd - ciOff) s!"{tag} column index" with columnIndexes := r.columnIndexes + 1 }
          let r := r.add (ciEnd - ciOff == ciLen) s!"{tag}: column_index_length {ciLen} but the struct is {ciEnd - ciOff} bytes"
          let np := (TVal.listD (cix.field? 1)).length
          let r := r.add (np == datas.length) s!"{tag}: column index null_pages has {np} entries for {datas.length} data pages"
          let r := r.add ((TVal.listD (cix.field? 2)).length == np) s!"{tag}: column index min_values has {(TVal.listD (cix.field? 2)).length} entries, null_pages {np}"
          let r := r.add ((TVal.listD (cix.field? 3)).length == np) s!"{tag}: column index max_values has {(TVal.listD (cix.field? 3)).length} entries, null_pages {np}"
          let ncs := TVal.listD (cix.field? 5)
          let r := r.add (ncs.isEmpty || ncs.length == np) s!"{tag}: column index null_counts has {ncs.length} entries, null_pages {np}"
          let r := r.add (TVal.nat (cix.field? 4) ≤ 2) s!"{tag}: boundary_order out of range"
          -- the null counts read off the definition levels must agree with the index
          let nullsD := cd.datas.map (fun (o : Option PageData) => match o with | some pd => pd.nulls | none => 0)
          let r := r.add (!allDecoded || ncs.isEmpty || ncs.length != datas.length || ncs.map (fun x => TVal.nat (some x)) == nullsD)
                    s!"{tag}: column index null_counts {ncs.map (fun x => TVal.nat (some x))} differ from the decoded definition levels {nullsD}"
          -- v2 pages announce their null counts: they must agree with the index
          r.add (!allV2 || ncs.isEmpty || ncs.map (fun x => TVal.nat (some x)) == datas.map (fun p => p.numNulls.getD 0)) s!"{tag}: column index null_counts differ from the v2 page headers"
      (r, first + totalComp)

def checkChunks (d : ByteArray) (footerStart rgi : Nat) (rgRows : Nat) :
    List Leaf → List TVal → Nat → Nat → Report → Report × Nat
  | leaf :: ls, c :: cs, ci, start, r =>
    let (r, nxt) := checkChunk d footerStart rgi ci leaf c rgRows start r
    checkChunks d footerStart rgi rgRows ls cs (ci + 1) nxt r
  | _, _, _, start, r => (r, start)

def checkRowGroups (d : ByteArray) (footerStart : Nat) (leaves : List Leaf) (maxRows : Nat) :
    List TVal → Nat → Nat → Report → Report
  | [], _, _, r => r
  | rg :: rgs, i, start, r =>
    let cols := TVal.listD (rg.field? 1)
    let rows := TVal.nat (rg.field? 3)
    let r := { r with rowGroups := r.rowGroups + 1 }
    let r := r.add (cols.length == leaves.length) s!"rg{i}: {cols.length} column chunks for {leaves.length} leaf columns"
    let r := r.add (maxRows == 0 || rows ≤ maxRows) s!"rg{i}: {rows} rows exceed MaxRowsPerRowGroup {maxRows}"
    let r := r.add (match TVal.int? (rg.field? 7) with | some o => o.toNat == i | none => true) s!"rg{i}: ordinal"
    -- file_offset names the first page of the first column chunk (bloom filters of the previous
    -- row group may sit in between, so it need not equal the previous end)
    let firstPage := match cols with
      | c :: _ =>
        let m := c.field? 3
        let dataOff := TVal.nat (m.bind (·.field? 9))
        (match TVal.int? (m.bind (·.field? 11)) with
         | some o => if o.toNat > 0 && o.toNat < dataOff then o.toNat else dataOff
         | none => dataOff)
      | [] => start
    let r := r.add (match TVal.int? (rg.field? 5) with | some o => (o.toNat == firstPage && firstPage ≥ start) || o == 0 | none => true) s!"rg{i}: file_offset {TVal.intD (rg.field? 5)} but the first page of the row group is at {firstPage} (previous data ends at {start})"
    let sumUn := (cols.map fun c => TVal.nat ((c.field? 3).bind (·.field? 6))).sum
    let sumCo := (cols.map fun c => TVal.nat ((c.field? 3).bind (·.field? 7))).sum
    let r := r.add (TVal.nat (rg.field? 2) == sumUn) s!"rg{i}: total_byte_size {TVal.nat (rg.field? 2)} but chunks sum to {sumUn}"
    let r := r.add (match TVal.int? (rg.field? 6) with | some t => t.toNat == sumCo | none => true) s!"rg{i}: total_compressed_size"
    -- sorting_columns: three required fields each, naming distinct leaf columns
    let scs := PqModel.FileMetaTrees.sortingOf rg
    let r := r.add (scs.all (·.isSome)) s!"rg{i}: a sorting column lacks one of its required fields"
    let idxs := scs.filterMap (fun sc => sc.map (·.1))
    let r := r.add (idxs.all (fun x => 0 ≤ x && x.toNat < leaves.length)) s!"rg{i}: sorting column index {idxs} does not name one of the {leaves.length} leaf columns"
    let r := r.add (idxs.eraseDups.length == idxs.length) s!"rg{i}: sorting columns {idxs} name a column twice"
    let (r, nxt) := checkChunks d footerStart i rows leaves cols 0 start r
    checkRowGroups d footerStart leaves maxRows rgs (i + 1) nxt r

/-- the whole check; `maxRows = 0` means no row-group limit was configured -/
def checkFile (d : ByteArray) (maxRows : Nat) : Except String Report :=
  let n := d.size
  if n < 12 then .error "file shorter than 12 bytes" else
  if d.extract 0 4 != "PAR1".toUTF8 then .error "missing leading magic" else
  if d.extract (n - 4) n != "PAR1".toUTF8 then .error "missing trailing magic" else
  let flen := le d (n - 8) 4
  if flen + 12 > n then .error "footer length exceeds file" else
  let fstart := n - 8 - flen
  match readStruct d fstart with
  | .error e => .error s!"footer: {e}"
  | .ok (md, fend) =>
    let r : Report := {}
    let r := r.add (fend == n - 8) s!"footer struct ends at {fend}, expected {n - 8}"
    match TVal.listD (md.field? 2) with
    | [] => .error "empty schema"
    | root :: elems =>
      match schemaLeaves (elems.length + 2) elems (TVal.nat (root.field? 5)) [] 0 0 with
      | .error e => .error e
      | .ok (leaves, rest) =>
        let r := r.add rest.isEmpty "schema: elements left over after the root's children"
        let rgs := TVal.listD (md.field? 4)
        let r := r.add (TVal.nat (md.field? 3) == (rgs.map fun rg => TVal.nat (rg.field? 3)).sum) "file num_rows is not the sum of the row groups"
        -- key_value_metadata: every pair has its (required) key; thrift strings are UTF-8
        let kvs := PqModel.FileMetaTrees.kvsOf md
        let r := r.add (kvs.all (·.isSome)) "key_value_metadata: a pair lacks its key"
        let r := r.add (kvs.all (fun kv => match kv with
            | some (k, v) => (String.fromUTF8? k).isSome && (match v with | some v => (String.fromUTF8? v).isSome | none => true)
            | none => true)) "key_value_metadata: a key or value is not UTF-8"
        let r := r.add (match PqModel.FileMetaTrees.createdByOf md with | some b => (String.fromUTF8? b).isSome | none => true) "created_by is not UTF-8"
        let r := checkRowGroups d fstart leaves maxRows rgs 0 4 r
        -- no two structures the footer names (chunk pages, bloom filters, offset and column indexes) share a byte
        let sorted := r.regions.mergeSort (fun a b => a.1 < b.1 || (a.1 == b.1 && a.2.1 ≤ b.2.1))
        let r := (overlaps (sorted.filter (fun x => x.2.1 > 0))).foldl (fun (r : Report) m => r.add false m) r
        .ok r

/-! ## the Dremel streams of a file -/

/-- one entry of a leaf column's stream; `val = none` is a null -/
structure Triple where
  val : Option Value
  rep : Nat
  dl : Nat

/-- levels and non-null values of a page zipped into entries (prepended, reversed, to `acc`) -/
def zipTriples (maxDef : Nat) : List Nat → List Nat → List Value → List Triple → List Triple
  | r :: rs, dl :: ds, vals, acc =>
    if dl == maxDef then
      match vals with
      | v :: vs => zipTriples maxDef rs ds vs (⟨some v, r, dl⟩ :: acc)
      | [] => acc
    else zipTriples maxDef rs ds vals (⟨none, r, dl⟩ :: acc)
  | _, _, _, acc => acc

/-- the entries of one column chunk (reversed, prepended to `acc`); `.ok none` = the chunk's codec
    is none of UNCOMPRESSED, SNAPPY, GZIP, LZ4_RAW -/
def dumpChunk (d : ByteArray) (tag : String) (leaf : Leaf) (c : TVal) (acc : List Triple) : Except String (Option (List Triple)) :=
  match c.field? 3 with
  | none => .error s!"{tag}: no column meta data"
  | some m =>
    let codec := TVal.nat (m.field? 4)
    if !valueCodec codec then .ok none else
    let dataOff := TVal.nat (m.field? 9)
    let totalComp := TVal.nat (m.field? 7)
    let first := match TVal.int? (m.field? 11) with
      | some o => if o.toNat > 0 && o.toNat < dataOff then o.toNat else dataOff
      | none => dataOff
    if first + totalComp > d.size then .error s!"{tag}: chunk past end of file" else
    match walkPages d false (totalComp + 2) first (first + totalComp) [] with
    | .error e => .error s!"{tag}: {e}"
    | .ok pages =>
      let cd := decodeChunkPages d leaf codec pages
      match cd.problems with
      | m :: _ => .error s!"{tag}: {m}"
      | [] =>
        if cd.capped > 0 then .error s!"{tag}: a page is too large for the list-based spec decoders (capped)" else
        if !cd.datas.all (·.isSome) then .error s!"{tag}: unknown page type" else
        .ok (some (cd.datas.foldl (fun acc o => match o with
          | some pd => zipTriples leaf.maxDef pd.reps pd.defs pd.vals acc
          | none => acc) acc))

def dumpColumn (d : ByteArray) (leaf : Leaf) (ci : Nat) : List TVal → Nat → List Triple → Except String (Option (List Triple))
  | [], _, acc => .ok (some acc.reverse)
  | rg :: rgs, rgi, acc =>
    match (TVal.listD (rg.field? 1))[ci]? with
    | none => .error s!"rg{rgi}: no column chunk {ci}"
    | some c =>
      match dumpChunk d s!"rg{rgi}/col{ci}" leaf c acc with
      | .error e => .error e
      | .ok none => .ok none
      | .ok (some acc) => dumpColumn d leaf ci rgs (rgi + 1) acc

def dumpColumns (d : ByteArray) (rgs : List TVal) : List Leaf → Nat → Except String (List (Option (List Triple)))
  | [], _ => .ok []
  | leaf :: ls, ci =>
    match dumpColumn d leaf ci rgs 0 [] with
    | .error e => .error e
    | .ok col =>
      match dumpColumns d rgs ls (ci + 1) with
      | .error e => .error e
      | .ok cols => .ok (col :: cols)

/-- the stream of every leaf column (schema order), all row groups and pages in file order;
    `none` for a column with a chunk the spec reader cannot decompress -/
def dumpFile (d : ByteArray) : Except String (List (Option (List Triple))) :=
  let n := d.size
  if n < 12 then .error "file shorter than 12 bytes" else
  if d.extract 0 4 != "PAR1".toUTF8 then .error "missing leading magic" else
  if d.extract (n - 4) n != "PAR1".toUTF8 then .error "missing trailing magic" else
  let flen := le d (n - 8) 4
  if flen + 12 > n then .error "footer length exceeds file" else
  match readStruct d (n - 8 - flen) with
  | .error e => .error s!"footer: {e}"
  | .ok (md, _) =>
    match TVal.listD (md.field? 2) with
    | [] => .error "empty schema"
    | root :: elems =>
      match schemaLeaves (elems.length + 2) elems (TVal.nat (root.field? 5)) [] 0 0 with
      | .error e => .error e
      | .ok (leaves, _) => dumpColumns d (TVal.listD (md.field? 4)) leaves 0

def Report.summary (r : Report) : String :=
  s!"rg={r.rowGroups} chunks={r.chunks} data={r.dataPages} dict={r.dictPages} crc={r.pagesWithCrc} v2={r.v2Pages} oi={r.offsetIndexes} ci={r.columnIndexes} decoded={r.decodedPages} capped={r.cappedPages} bloom={r.bloomSections}"

end PqModel.Spec
