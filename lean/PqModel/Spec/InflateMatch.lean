import PqModel.Spec.InflateFixed

/-! SPEC side (C20): a reference ENCODER for fixed-Huffman blocks WITH length/distance pairs and the
proof that `inflate` reads it back, for every input.

Two layers, proved separately:

* `inflate_fixedBlock` — the READER on tokens: for every list of tokens (literal, or a reference given
  by its length symbol, extra length bits, distance symbol, extra distance bits) whose references stay
  inside the output produced so far, `inflate (fixedBlock toks)` is the result of applying the tokens
  (`applyToks`: a reference is `copyBack dist len`, byte by byte, so distance < length — an
  overlapping copy — is covered). This proves the length/distance path of the symbol loop (`copyStep`:
  base tables, extra bits read LSB-first, the 5-bit distance code, the distance check) for every symbol
  285 ≥ s ≥ 257 and every distance symbol < 30, not only for sampled streams.
* `lz77` — a greedy matcher (longest match in a window, ties to the nearest distance; the match
  source runs into the bytes being produced, so runs come out as overlapping references) that emits a
  reference only after checking it reproduces the next input bytes; `applyToks_lz77`: its tokens
  rebuild the input, whatever the window and the input.

`inflate_deflateFixed`: `inflate (deflateFixed w bs) = bs` for every window `w` and byte string `bs`.
`copyBack_get` states what a reference means (RFC 1951 §3.2.3: every new byte equals the byte
`dist` positions before it). Evaluated once in the kernel: `fixedCheck2_ok` (286 literal/length codes,
30 distance codes). -/
namespace PqModel.Spec.Inflate
open PqModel.Spec.BlockCodecs (copyBack)

/-! ## what a back-reference means -/

theorem copyBack_size (d : Nat) : ∀ (n : Nat) (out : Array UInt8), (copyBack d n out).size = out.size + n := by
  intro n
  induction n with
  | zero => intro out; rfl
  | succ n ih => intro out; rw [copyBack, ih]; simp only [Array.size_push]; omega

theorem copyBack_prefix (d : Nat) : ∀ (n : Nat) (out : Array UInt8) (i : Nat), i < out.size →
    (copyBack d n out)[i]? = out[i]? := by
  intro n
  induction n with
  | zero => intro out i _; rfl
  | succ n ih =>
    intro out i hi
    rw [copyBack, ih _ _ (by simp only [Array.size_push]; omega)]
    simp [Array.getElem?_push, Nat.ne_of_lt hi]

/-- RFC 1951 §3.2.3 "move backward distance bytes in the output stream, and copy length bytes from
this position": every byte a reference appends equals the byte `d` positions before it IN THE
RESULT — also when `d < n` and the source runs into the copy itself. -/
theorem copyBack_get (d : Nat) (hd : 0 < d) : ∀ (n : Nat) (out : Array UInt8) (i : Nat),
    d ≤ out.size → out.size ≤ i → i < out.size + n →
    (copyBack d n out)[i]? = (copyBack d n out)[i - d]? := by
  intro n
  induction n with
  | zero => intro out i _ h1 h2; omega
  | succ n ih =>
    intro out i hdo h1 h2
    rw [copyBack]
    by_cases hi : i = out.size
    · subst hi
      rw [copyBack_prefix d n _ out.size (by simp), copyBack_prefix d n _ (out.size - d) (by simp only [Array.size_push]; omega)]
      have h3 : out.size - d < out.size := by omega
      simp [Array.getElem?_push, Nat.ne_of_lt h3, h3]
    · exact ih _ i (by simp only [Array.size_push]; omega) (by simp only [Array.size_push]; omega)
        (by simp only [Array.size_push]; omega)

/-! ## tokens -/

inductive Tok
  | lit (b : UInt8)
  /-- length symbol 257+`ls` with extra bits `lx`, distance symbol `ds` with extra bits `dx` -/
  | ref (ls lx ds dx : Nat)
  deriving DecidableEq

def Tok.len : Tok → Nat
  | .lit _ => 1
  | .ref ls lx _ _ => lenBase.getD ls 0 + lx

def Tok.dist : Tok → Nat
  | .lit _ => 0
  | .ref _ _ ds dx => distBase.getD ds 0 + dx

/-- a token that can be written and read when `n` bytes have been produced -/
def tokOk (n : Nat) : Tok → Bool
  | .lit _ => true
  | .ref ls lx ds dx =>
    decide (ls < 29) && decide (lx < 2 ^ lenExtra.getD ls 0) && decide (ds < 30) &&
      decide (dx < 2 ^ distExtra.getD ds 0) && decide (distBase.getD ds 0 + dx ≤ n)

def applyTok (out : Array UInt8) : Tok → Array UInt8
  | .lit b => out.push b
  | .ref ls lx ds dx => copyBack (distBase.getD ds 0 + dx) (lenBase.getD ls 0 + lx) out

def applyToks : List Tok → Array UInt8 → Array UInt8
  | [], out => out
  | t :: ts, out => applyToks ts (applyTok out t)

def toksOk : List Tok → Array UInt8 → Bool
  | [], _ => true
  | t :: ts, out => tokOk out.size t && toksOk ts (applyTok out t)

/-- `n` bits of `v`, least significant first (§3.1.1: extra bits are "data elements other than
Huffman codes") -/
def lsbBits : Nat → Nat → List Bool
  | 0, _ => []
  | n + 1, v => (v % 2 == 1) :: lsbBits n (v / 2)

/-- the code of distance symbol `s` in the fixed table (5 bits, §3.2.6), MSB first -/
def distCode (s : Nat) : List Bool := msbBits (fixedDistLens.getD s 0) (rfcCode fixedDistLens s)

def tokBits : Tok → List Bool
  | .lit b => fixedCode b.toNat
  | .ref ls lx ds dx =>
    fixedCode (257 + ls) ++ (lsbBits (lenExtra.getD ls 0) lx ++
      (distCode ds ++ lsbBits (distExtra.getD ds 0) dx))

def fixedBlockBits (toks : List Tok) : List Bool :=
  [true, true, false] ++ (toks.flatMap tokBits ++ fixedCode 256)

/-- REFERENCE ENCODER, token level: one final fixed-Huffman block -/
def fixedBlock (toks : List Tok) : List UInt8 :=
  pack (fixedBlockBits toks).length (fixedBlockBits toks)

/-! ## the codes, once, in the kernel -/

def fixedCheck2 : Bool :=
  match mkHuff fixedLitLens, mkHuff fixedDistLens with
  | .ok lit, .ok dist =>
    ((List.range 286).all fun s => walkBits lit.symbols lit.counts 0 0 0 (fixedCode s) == some (s, [])) &&
    ((List.range 30).all fun s => walkBits dist.symbols dist.counts 0 0 0 (distCode s) == some (s, []))
  | _, _ => false

theorem fixedCheck2_ok : fixedCheck2 = true := by decide +kernel

theorem fixedTables2 : ∃ lit dist, mkHuff fixedLitLens = .ok lit ∧ mkHuff fixedDistLens = .ok dist ∧
    (∀ s, s < 286 → walkBits lit.symbols lit.counts 0 0 0 (fixedCode s) = some (s, [])) ∧
    (∀ s, s < 30 → walkBits dist.symbols dist.counts 0 0 0 (distCode s) = some (s, [])) := by
  have h := fixedCheck2_ok
  unfold fixedCheck2 at h
  split at h
  · rename_i lit dist h1 h2
    rw [Bool.and_eq_true, List.all_eq_true, List.all_eq_true] at h
    refine ⟨lit, dist, h1, h2, ?_, ?_⟩
    · intro s hs
      simpa using h.1 s (List.mem_range.mpr hs)
    · intro s hs
      simpa using h.2 s (List.mem_range.mpr hs)
  · cases h

/-! ## extra bits -/

theorem lsbBits_length : ∀ (n v : Nat), (lsbBits n v).length = n := by
  intro n
  induction n with
  | zero => intro v; rfl
  | succ n ih => intro v; simp [lsbBits, ih]

theorem lsbVal_lsbBits : ∀ (n v : Nat), v < 2 ^ n → lsbVal (lsbBits n v) = v := by
  intro n
  induction n with
  | zero => intro v h; simp only [Nat.pow_zero] at h; simp only [lsbBits, lsbVal]; omega
  | succ n ih =>
    intro v h
    have h2 : v / 2 < 2 ^ n := by rw [Nat.pow_succ] at h; omega
    simp only [lsbBits, lsbVal, ih _ h2]
    rcases Nat.mod_two_eq_zero_or_one v with h0 | h1
    · simp [h0]; omega
    · simp [h1]; omega

theorem readBits_lsbBits {n v : Nat} (hv : v < 2 ^ n) {r : BitReader} {tail : List Bool}
    (h : r.bits = lsbBits n v ++ tail) : ∃ r1, readBits n r = .ok (v, r1) ∧ r1.bits = tail := by
  obtain ⟨r1, h1, hb1⟩ := readBits_bits (lsbBits n v) h
  rw [lsbBits_length, lsbVal_lsbBits n v hv] at h1
  exact ⟨r1, h1, hb1⟩

theorem getElem?_getD {l : List Nat} {i : Nat} (h : i < l.length) : l[i]? = some (l.getD i 0) := by
  simp [List.getD, List.getElem?_eq_getElem h]

theorem lenBase_length : lenBase.length = 29 := rfl
theorem lenExtra_length : lenExtra.length = 29 := rfl
theorem distBase_length : distBase.length = 30 := rfl
theorem distExtra_length : distExtra.length = 30 := rfl

/-! ## one reference through `copyStep` -/

theorem copyStep_ref (dist : Huff)
    (hdist : ∀ s, s < 30 → walkBits dist.symbols dist.counts 0 0 0 (distCode s) = some (s, []))
    {ls lx ds dx : Nat} {r : BitReader} {out : Array UInt8} {tail : List Bool}
    (hok : tokOk out.size (.ref ls lx ds dx) = true)
    (hb : r.bits = lsbBits (lenExtra.getD ls 0) lx ++
      (distCode ds ++ (lsbBits (distExtra.getD ds 0) dx ++ tail))) :
    ∃ r3, copyStep dist (257 + ls) r out = .ok (r3, applyTok out (.ref ls lx ds dx)) ∧ r3.bits = tail := by
  simp only [tokOk, Bool.and_eq_true, decide_eq_true_eq] at hok
  obtain ⟨⟨⟨⟨hls, hlx⟩, hds⟩, hdx⟩, hfit⟩ := hok
  obtain ⟨r1, h1, hb1⟩ := readBits_lsbBits hlx hb
  have hw := walkBits_append dist.symbols dist.counts 0 0 0 _
    (lsbBits (distExtra.getD ds 0) dx ++ tail) (hdist ds hds)
  rw [List.nil_append, ← hb1] at hw
  obtain ⟨r2, h2, hb2⟩ := decodeSymAux_walk _ _ _ _ _ hw
  have h2' : decodeSym dist r1 = .ok (ds, r2) := h2
  obtain ⟨r3, h3, hb3⟩ := readBits_lsbBits hdx hb2
  refine ⟨r3, ?_, hb3⟩
  have e : 257 + ls - 257 = ls := by omega
  have hl1 : lenBase[ls]? = some (lenBase.getD ls 0) := getElem?_getD (lenBase_length ▸ hls)
  have hl2 : lenExtra[ls]? = some (lenExtra.getD ls 0) := getElem?_getD (lenExtra_length ▸ hls)
  have hd1 : distBase[ds]? = some (distBase.getD ds 0) := getElem?_getD (distBase_length ▸ hds)
  have hd2 : distExtra[ds]? = some (distExtra.getD ds 0) := getElem?_getD (distExtra_length ▸ hds)
  unfold copyStep
  rw [e]
  simp only [hl1, hl2, h1, h2', hd1, hd2, h3]
  rw [if_pos hfit]
  rfl

/-! ## the symbol loop on tokens -/

theorem tokBits_pos (lit : Huff)
    (hlit : ∀ s, s < 286 → walkBits lit.symbols lit.counts 0 0 0 (fixedCode s) = some (s, []))
    (t : Tok) (n : Nat) (hok : tokOk n t = true) : 1 ≤ (tokBits t).length := by
  have key : ∀ s, s < 286 → 1 ≤ (fixedCode s).length := by
    intro s hs
    have := hlit s hs
    cases hc : fixedCode s with
    | nil => rw [hc] at this; cases hcs : lit.counts <;> simp [walkBits, hcs] at this
    | cons _ _ => simp
  cases t with
  | lit b =>
    have hlt : b.toNat < 256 := b.toNat_lt
    exact key _ (by omega)
  | ref ls lx ds dx =>
    simp only [tokOk, Bool.and_eq_true, decide_eq_true_eq] at hok
    have := key (257 + ls) (by omega)
    simp only [tokBits, List.length_append]; omega

theorem codes_toks (lit dist : Huff)
    (hlit : ∀ s, s < 286 → walkBits lit.symbols lit.counts 0 0 0 (fixedCode s) = some (s, []))
    (hdist : ∀ s, s < 30 → walkBits dist.symbols dist.counts 0 0 0 (distCode s) = some (s, [])) :
    ∀ (toks : List Tok) (fuel : Nat) (r : BitReader) (out : Array UInt8) (tail : List Bool),
    toks.length < fuel → toksOk toks out = true →
    r.bits = toks.flatMap tokBits ++ fixedCode 256 ++ tail →
    ∃ r1, codes lit dist fuel r out = .ok (r1, applyToks toks out) ∧ r1.bits = tail := by
  intro toks
  induction toks with
  | nil =>
    intro fuel r out tail hf _ hb
    obtain ⟨f, rfl⟩ : ∃ f, fuel = f + 1 := ⟨fuel - 1, by simp only [List.length_nil] at hf; omega⟩
    simp only [List.flatMap_nil, List.nil_append] at hb
    have hw := walkBits_append lit.symbols lit.counts 0 0 0 _ tail (hlit 256 (by omega))
    rw [List.nil_append, ← hb] at hw
    obtain ⟨r1, h1, hb1⟩ := decodeSymAux_walk _ _ _ _ _ hw
    refine ⟨r1, ?_, hb1⟩
    rw [codes_succ]
    have : decodeSym lit r = .ok (256, r1) := h1
    simp [this, applyToks]
  | cons t ts ih =>
    intro fuel r out tail hf hok hb
    obtain ⟨f, rfl⟩ : ∃ f, fuel = f + 1 := ⟨fuel - 1, by simp only [List.length_cons] at hf; omega⟩
    simp only [toksOk, Bool.and_eq_true] at hok
    obtain ⟨hok1, hok2⟩ := hok
    have hf' : ts.length < f := by simp only [List.length_cons] at hf; omega
    cases t with
    | lit b =>
      have hlt : b.toNat < 256 := b.toNat_lt
      simp only [List.flatMap_cons, tokBits, List.append_assoc] at hb
      have hw := walkBits_append lit.symbols lit.counts 0 0 0 _
        (ts.flatMap tokBits ++ (fixedCode 256 ++ tail)) (hlit b.toNat (by omega))
      rw [List.nil_append, ← hb] at hw
      obtain ⟨r1, h1, hb1⟩ := decodeSymAux_walk _ _ _ _ _ hw
      have hd : decodeSym lit r = .ok (b.toNat, r1) := h1
      obtain ⟨r2, h2, hb2⟩ := ih f r1 (out.push b) tail hf' hok2
        (by rw [hb1]; simp only [List.append_assoc])
      refine ⟨r2, ?_, hb2⟩
      rw [codes_succ]
      simp only [hd, hlt, ↓reduceIte, UInt8.ofNat_toNat, h2, applyToks, applyTok]
    | ref ls lx ds dx =>
      have hls : ls < 29 := by
        simp only [tokOk, Bool.and_eq_true, decide_eq_true_eq] at hok1; exact hok1.1.1.1.1
      simp only [List.flatMap_cons, tokBits, List.append_assoc] at hb
      have hw := walkBits_append lit.symbols lit.counts 0 0 0 _
        (lsbBits (lenExtra.getD ls 0) lx ++ (distCode ds ++ (lsbBits (distExtra.getD ds 0) dx ++
          (ts.flatMap tokBits ++ (fixedCode 256 ++ tail))))) (hlit (257 + ls) (by omega))
      rw [List.nil_append, ← hb] at hw
      obtain ⟨r1, h1, hb1⟩ := decodeSymAux_walk _ _ _ _ _ hw
      have hd : decodeSym lit r = .ok (257 + ls, r1) := h1
      obtain ⟨r2, h2, hb2⟩ := copyStep_ref dist hdist hok1 hb1
      obtain ⟨r3, h3, hb3⟩ := ih f r2 _ tail hf' hok2 (by rw [hb2]; simp only [List.append_assoc])
      refine ⟨r3, ?_, hb3⟩
      rw [codes_succ]
      have n1 : ¬ (257 + ls < 256) := by omega
      have n2 : ¬ (257 + ls = 256) := by omega
      simp only [hd, n1, n2, ↓reduceIte, h2, h3, applyToks]

/-- **Fixed-Huffman block of tokens**: literals and length/distance pairs (every length symbol,
every distance symbol, every value of the extra bits, overlapping or not) are read back as the
tokens mean them, for every token list whose references stay inside the output. -/
theorem inflate_fixedBlock (toks : List Tok) (hok : toksOk toks #[] = true) :
    inflate (fixedBlock toks) = .ok (applyToks toks #[]).toList := by
  obtain ⟨lit, dist, hl, hd, hlit, hdist⟩ := fixedTables2
  obtain ⟨pad, hp⟩ := pack_bits (fixedBlockBits toks).length (fixedBlockBits toks) (Nat.le_refl _)
  have hb0 : (⟨[], fixedBlock toks⟩ : BitReader).bits =
      true :: ([true, false] ++ (toks.flatMap tokBits ++ fixedCode 256 ++ pad)) := by
    show ([] : List Bool) ++ (fixedBlock toks).flatMap byteBits8 = _
    unfold fixedBlock
    rw [hp]
    simp [fixedBlockBits]
  obtain ⟨r1, h1, hb1⟩ := readBit_bits hb0
  obtain ⟨r2, h2, hb2⟩ := readBits_bits [true, false] hb1
  have hsz : toks.length < r2.size + 1 := by
    have := bits_length r2
    rw [hb2] at this
    simp only [List.length_append, List.length_flatMap] at this
    have hge : ∀ (ts : List Tok) (out : Array UInt8), toksOk ts out = true →
        ts.length ≤ (ts.map (fun t => (tokBits t).length)).sum := by
      intro ts
      induction ts with
      | nil => intro _ _; simp
      | cons t ts ih =>
        intro out h
        simp only [toksOk, Bool.and_eq_true] at h
        have := tokBits_pos lit hlit t out.size h.1
        have := ih _ h.2
        simp only [List.map_cons, List.sum_cons, List.length_cons]; omega
    have := hge toks #[] hok
    omega
  obtain ⟨r3, h3, _⟩ := codes_toks lit dist hlit hdist toks (r2.size + 1) r2 #[] pad hsz hok hb2
  have hblock : block 1 r2 #[] = .ok (r3, applyToks toks #[]) := by
    simp only [block, hl, hd]
    simpa using h3
  have h2' : readBits 2 r1 = .ok (1, r2) := by simpa [lsbVal] using h2
  have hfuel : 8 * (fixedBlock toks).length + 1 = (8 * (fixedBlock toks).length) + 1 := rfl
  unfold inflate inflateRaw
  rw [hfuel]
  simp only [blocks, h1, h2', hblock, ↓reduceIte]

/-! ## a greedy LZ77 matcher -/

/-- index of the last base ≤ `v` -/
def baseIdx (base : List Nat) (v : Nat) : Nat := (base.filter (· ≤ v)).length - 1

/-- the reference (length, distance) in symbols and extra bits -/
def mkRef (len dist : Nat) : Tok :=
  .ref (baseIdx lenBase len) (len - lenBase.getD (baseIdx lenBase len) 0)
    (baseIdx distBase dist) (dist - distBase.getD (baseIdx distBase dist) 0)

def commonPrefix : List UInt8 → List UInt8 → Nat
  | a :: as, b :: bs => if a = b then commonPrefix as bs + 1 else 0
  | _, _ => 0

/-- how many of the next bytes a reference at distance `d` would reproduce (at most 258): the
source is the history continued by the copy itself, so `d` smaller than the result is fine -/
def matchLen (hist : Array UInt8) (rest : List UInt8) (d : Nat) : Nat :=
  commonPrefix ((copyBack d (min 258 rest.length) hist).toList.drop hist.size) rest

/-- best (length, distance) over distances `d, d-1, .., 1`: longest, ties to the nearest -/
def bestMatch (hist : Array UInt8) (rest : List UInt8) : Nat → Nat × Nat
  | 0 => (0, 0)
  | d + 1 =>
    let b := bestMatch hist rest d
    if b.1 < matchLen hist rest (d + 1) then (matchLen hist rest (d + 1), d + 1) else b

/-- GREEDY MATCHER with window `w`: at every position the longest match of at least 3 bytes
becomes a reference — emitted only after checking that it is writable and reproduces the bytes it
stands for —, anything else a literal. Out of fuel (never, with fuel = length): literals. -/
def lz77 (w : Nat) : Nat → Array UInt8 → List UInt8 → List Tok
  | _, _, [] => []
  | 0, _, rest => rest.map .lit
  | fuel + 1, hist, b :: rest =>
    let m := bestMatch hist (b :: rest) (min w (min hist.size 32768))
    let t := mkRef m.1 m.2
    if 3 ≤ m.1 ∧ m.1 ≤ (b :: rest).length ∧ t.len = m.1 ∧ tokOk hist.size t = true ∧
        applyTok hist t = hist ++ ((b :: rest).take m.1).toArray then
      t :: lz77 w fuel (applyTok hist t) ((b :: rest).drop m.1)
    else .lit b :: lz77 w fuel (hist.push b) rest

/-- REFERENCE ENCODER: greedy LZ77 with window `w`, one final fixed-Huffman block -/
def deflateFixed (w : Nat) (bs : List UInt8) : List UInt8 := fixedBlock (lz77 w bs.length #[] bs)

theorem applyToks_lits : ∀ (rest : List UInt8) (hist : Array UInt8),
    applyToks (rest.map .lit) hist = hist ++ rest.toArray ∧ toksOk (rest.map .lit) hist = true := by
  intro rest
  induction rest with
  | nil => intro hist; simp [applyToks, toksOk]
  | cons b rest ih =>
    intro hist
    have := ih (hist.push b)
    simp only [List.map_cons, applyToks, applyTok, toksOk, tokOk, Bool.true_and, this, and_true]
    apply Array.ext'
    simp

/-- the tokens of the matcher rebuild the input behind any history, and are all writable -/
theorem applyToks_lz77 (w : Nat) : ∀ (fuel : Nat) (hist : Array UInt8) (rest : List UInt8),
    applyToks (lz77 w fuel hist rest) hist = hist ++ rest.toArray ∧
    toksOk (lz77 w fuel hist rest) hist = true := by
  intro fuel
  induction fuel with
  | zero =>
    intro hist rest
    cases rest with
    | nil => simp [lz77, applyToks, toksOk]
    | cons b rest => simpa [lz77] using applyToks_lits (b :: rest) hist
  | succ fuel ih =>
    intro hist rest
    cases rest with
    | nil => simp [lz77, applyToks, toksOk]
    | cons b rest =>
      simp only [lz77]
      generalize bestMatch hist (b :: rest) (min w (min hist.size 32768)) = m
      split
      · rename_i hc
        obtain ⟨_, _, _, hok, happ⟩ := hc
        have := ih (applyTok hist (mkRef m.1 m.2)) ((b :: rest).drop m.1)
        simp only [applyToks, toksOk, hok, Bool.true_and, this, and_true]
        rw [happ]
        apply Array.ext'
        simp only [Array.toList_append, List.append_assoc, List.append_cancel_left_eq]
        exact List.take_append_drop _ _
      · have := ih (hist.push b) rest
        simp only [applyToks, applyTok, toksOk, tokOk, Bool.true_and, this, and_true]
        apply Array.ext'
        simp

/-- **Fixed-Huffman blocks with length/distance pairs**: `inflate` inverts the greedy LZ77 +
fixed-Huffman reference encoder, for every window and every byte string. -/
theorem inflate_deflateFixed (w : Nat) (bs : List UInt8) : inflate (deflateFixed w bs) = .ok bs := by
  have h := applyToks_lz77 w bs.length #[] bs
  unfold deflateFixed
  rw [inflate_fixedBlock _ h.2, h.1]
  simp

/-! ## non-vacuity: the matcher does emit references, overlapping ones included -/

/-- ten times `a`: one literal, then length 9 at distance 1 (the copy overlaps its own output) -/
example : lz77 32 10 #[] (List.replicate 10 97) = [.lit 97, .ref 6 0 0 0] := by decide +kernel
example : (Tok.ref 6 0 0 0).len = 9 ∧ (Tok.ref 6 0 0 0).dist = 1 := by decide
/-- `abcabcabcabX`: three literals, length 8 at distance 3 (overlapping), one literal -/
example : lz77 32 12 #[] [97, 98, 99, 97, 98, 99, 97, 98, 99, 97, 98, 88] =
    [.lit 97, .lit 98, .lit 99, .ref 5 0 2 0, .lit 88] := by decide +kernel
/-- a non-overlapping reference with extra bits on both sides: length 13 = 13+0 at distance 20 = 17+3 -/
example : mkRef 13 20 = .ref 9 0 8 3 ∧ mkRef 14 20 = .ref 9 1 8 3 ∧ mkRef 258 32768 = .ref 28 0 29 8191 := by
  decide +kernel
/-- every length 3..258 has a writable symbol/extra-bits form with that length -/
example : (List.range 256).all (fun i => tokOk 1 (mkRef (i + 3) 1) && (mkRef (i + 3) 1).len == i + 3) = true := by
  decide +kernel
example : deflateFixed 32 (List.replicate 10 97) = [75, 132, 3, 0] := by decide +kernel
example : inflate [75, 132, 3, 0] = .ok (List.replicate 10 97) := by
  have h : deflateFixed 32 (List.replicate 10 97) = [75, 132, 3, 0] := by decide +kernel
  exact h ▸ inflate_deflateFixed 32 (List.replicate 10 97)

end PqModel.Spec.Inflate
