import PqModel.Spec.BlockCodecs

/-! SPEC side (C20, round 6): the Snappy block format on ELEMENTS (format_description.txt:
literals with an inline length or a 1..4-byte length, copies with a 1-byte (11-bit), 2-byte and
4-byte offset). `snappyDec_encBlock`: for EVERY list of elements whose copies stay inside the
output produced so far (overlapping copies included), the reader `snappyDec` returns what the
elements mean. Until this round only two reference encoders (short literals; runs as copies at
offset 1 with 2-byte offsets) were proved to be inverted. `parseBlock` splits a stream into its elements (used by the check on
the real encoder's output; re-encoding is compared at run time, not proved). -/
namespace PqModel.Spec.SnappyElems
open PqModel.Spec.BlockCodecs

inductive Elem
  | lit (bs : List UInt8)
  /-- `kind` = 1, 2 or 4: the tag kind with a 1-byte (+3 bits), 2-byte, 4-byte offset -/
  | copy (kind off len : Nat)
  deriving DecidableEq

/-- `n` little-endian bytes of `v` -/
def leBytes : Nat → Nat → List UInt8
  | 0, _ => []
  | n + 1, v => UInt8.ofNat (v % 256) :: leBytes n (v / 256)

theorem leBytes_length : ∀ (n v : Nat), (leBytes n v).length = n := by
  intro n; induction n with
  | zero => intro v; rfl
  | succ n ih => intro v; simp [leBytes, ih]

theorem le_leBytes : ∀ (n v : Nat), v < 256 ^ n → le (leBytes n v) = v := by
  intro n; induction n with
  | zero => intro v h; simp at h; simp [leBytes, le, h]
  | succ n ih =>
    intro v h
    have h2 : v / 256 < 256 ^ n := by
      rw [Nat.pow_succ] at h
      exact Nat.div_lt_of_lt_mul (by rw [Nat.mul_comm]; exact h)
    simp only [leBytes, le, ih _ h2, toNat_ofNat_lt (Nat.mod_lt v (by decide : 0 < 256))]
    omega

/-- bytes needed for a literal length field `m = length - 1 ≥ 60` -/
def litNb (m : Nat) : Nat := if m < 256 then 1 else if m < 65536 then 2 else if m < 16777216 then 3 else 4

def encElem : Elem → List UInt8
  | .lit bs =>
    let m := bs.length - 1
    if m < 60 then UInt8.ofNat (m * 4) :: bs
    else UInt8.ofNat ((59 + litNb m) * 4) :: (leBytes (litNb m) m ++ bs)
  | .copy k off len =>
    if k = 1 then [UInt8.ofNat (1 + (len - 4) * 4 + (off / 256) * 32), UInt8.ofNat (off % 256)]
    else if k = 2 then UInt8.ofNat (2 + (len - 1) * 4) :: leBytes 2 off
    else UInt8.ofNat (3 + (len - 1) * 4) :: leBytes 4 off

/-- writable behind `n` bytes of output -/
def elemOk (n : Nat) : Elem → Bool
  | .lit bs => decide (1 ≤ bs.length) && decide (bs.length ≤ 4294967296)
  | .copy k off len => decide (1 ≤ off) && decide (off ≤ n) &&
      ((decide (k = 1) && decide (4 ≤ len) && decide (len ≤ 11) && decide (off < 2048)) ||
       (decide (k = 2) && decide (1 ≤ len) && decide (len ≤ 64) && decide (off < 65536)) ||
       (decide (k = 4) && decide (1 ≤ len) && decide (len ≤ 64) && decide (off < 4294967296)))

def applyElem (out : Array UInt8) : Elem → Array UInt8
  | .lit bs => out ++ bs
  | .copy _ off len => copyBack off len out

def applyElems : List Elem → Array UInt8 → Array UInt8
  | [], out => out
  | e :: r, out => applyElems r (applyElem out e)

def elemsOk : List Elem → Array UInt8 → Bool
  | [], _ => true
  | e :: r, out => elemOk out.size e && elemsOk r (applyElem out e)

def encElems : List Elem → List UInt8
  | [] => []
  | e :: r => encElem e ++ encElems r

/-- a block: announced length, then the elements -/
def encBlock (els : List Elem) : List UInt8 :=
  putUvarint 10 (applyElems els #[]).size ++ encElems els

theorem litNb_range (m : Nat) : 1 ≤ litNb m ∧ litNb m ≤ 4 := by
  unfold litNb; split <;> (try split) <;> (try split) <;> omega

theorem litNb_fits (m : Nat) (h : m < 4294967296) : m < 256 ^ litNb m := by
  unfold litNb
  split
  · omega
  · split
    · omega
    · split <;> omega

theorem not_short (a r : List UInt8) : ¬ (a ++ r).length < a.length := by simp

/-- one literal element, short or long form -/
theorem snappyElems_lit (bs S : List UInt8) (out : Array UInt8) (fuel : Nat)
    (h1 : 1 ≤ bs.length) (h2 : bs.length ≤ 4294967296) :
    snappyElems (fuel + 1) (encElem (.lit bs) ++ S) out = snappyElems fuel S (out ++ bs) := by
  by_cases hm : bs.length - 1 < 60
  · have := snappyElems_shortLit bs S out fuel h1 (by omega)
    simp only [encElem, hm, ↓reduceIte, List.cons_append]
    exact this
  · have hk := litNb_range (bs.length - 1)
    have hfit := litNb_fits (bs.length - 1) (by omega)
    have htag : (UInt8.ofNat ((59 + litNb (bs.length - 1)) * 4)).toNat = (59 + litNb (bs.length - 1)) * 4 :=
      toNat_ofNat_lt (by omega)
    have hmod : (59 + litNb (bs.length - 1)) * 4 % 4 = 0 := by omega
    have hdiv : (59 + litNb (bs.length - 1)) * 4 / 4 = 59 + litNb (bs.length - 1) := by omega
    have hl : ¬ (59 + litNb (bs.length - 1) < 60) := by omega
    have hnb : 59 + litNb (bs.length - 1) - 59 = litNb (bs.length - 1) := by omega
    have hlen := leBytes_length (litNb (bs.length - 1)) (bs.length - 1)
    simp only [encElem, hm, ↓reduceIte, List.cons_append, snappyElems, htag, hmod, hdiv, hl, hnb,
      List.append_assoc]
    rw [if_neg (by simp only [List.length_append, hlen]; omega)]
    rw [List.take_left' hlen, List.drop_left' hlen, le_leBytes _ _ hfit]
    have hb : bs.length - 1 + 1 = bs.length := by omega
    rw [hb, if_neg (not_short _ _), List.take_left' rfl, List.drop_left' rfl]

/-- one copy element of any of the three kinds -/
theorem snappyElems_copy (k off len : Nat) (S : List UInt8) (out : Array UInt8) (fuel : Nat)
    (hok : elemOk out.size (.copy k off len) = true) :
    snappyElems (fuel + 1) (encElem (.copy k off len) ++ S) out = snappyElems fuel S (copyBack off len out) := by
  simp only [elemOk, Bool.and_eq_true, Bool.or_eq_true, decide_eq_true_eq] at hok
  obtain ⟨⟨ho1, ho2⟩, hk⟩ := hok
  rcases hk with (⟨⟨⟨rfl, hl1⟩, hl2⟩, ho3⟩ | ⟨⟨⟨rfl, hl1⟩, hl2⟩, ho3⟩) | ⟨⟨⟨rfl, hl1⟩, hl2⟩, ho3⟩
  · have htag : (UInt8.ofNat (1 + (len - 4) * 4 + (off / 256) * 32)).toNat = 1 + (len - 4) * 4 + (off / 256) * 32 :=
      toNat_ofNat_lt (by omega)
    have hb : (UInt8.ofNat (off % 256)).toNat = off % 256 := toNat_ofNat_lt (by omega)
    have hmod : (1 + (len - 4) * 4 + (off / 256) * 32) % 4 = 1 := by omega
    have hlen : 4 + (1 + (len - 4) * 4 + (off / 256) * 32) / 4 % 8 = len := by omega
    have hoff : (1 + (len - 4) * 4 + (off / 256) * 32) / 32 * 256 + (off % 256 + 256 * 0) = off := by omega
    simp only [encElem, ↓reduceIte, List.cons_append, List.nil_append, snappyElems, htag, hmod,
      show (1 : Nat) ≠ 0 by omega, List.length_cons, List.take_succ_cons, List.take_zero, le, hb, hlen, hoff,
      List.drop_succ_cons, List.drop_zero]
    rw [if_neg (by omega), if_neg (by omega)]
  · have htag : (UInt8.ofNat (2 + (len - 1) * 4)).toNat = 2 + (len - 1) * 4 := toNat_ofNat_lt (by omega)
    have hb0 : (UInt8.ofNat (off % 256)).toNat = off % 256 := toNat_ofNat_lt (by omega)
    have hb1 : (UInt8.ofNat (off / 256 % 256)).toNat = off / 256 % 256 := toNat_ofNat_lt (by omega)
    have hmod : (2 + (len - 1) * 4) % 4 = 2 := by omega
    have hlen : (2 + (len - 1) * 4) / 4 + 1 = len := by omega
    have hoff : off % 256 + 256 * (off / 256 % 256 + 256 * 0) = off := by omega
    simp only [encElem, show (2 : Nat) ≠ 1 by omega, ↓reduceIte, leBytes, List.cons_append, List.nil_append,
      snappyElems, htag, hmod, show (2 : Nat) ≠ 0 by omega, List.length_cons, List.take_succ_cons,
      List.take_zero, le, hb0, hb1, hlen, hoff, List.drop_succ_cons, List.drop_zero]
    rw [if_neg (by omega), if_neg (by omega)]
  · have htag : (UInt8.ofNat (3 + (len - 1) * 4)).toNat = 3 + (len - 1) * 4 := toNat_ofNat_lt (by omega)
    have hb0 : (UInt8.ofNat (off % 256)).toNat = off % 256 := toNat_ofNat_lt (by omega)
    have hb1 : (UInt8.ofNat (off / 256 % 256)).toNat = off / 256 % 256 := toNat_ofNat_lt (by omega)
    have hb2 : (UInt8.ofNat (off / 256 / 256 % 256)).toNat = off / 256 / 256 % 256 := toNat_ofNat_lt (by omega)
    have hb3 : (UInt8.ofNat (off / 256 / 256 / 256 % 256)).toNat = off / 256 / 256 / 256 % 256 := toNat_ofNat_lt (by omega)
    have hmod : (3 + (len - 1) * 4) % 4 = 3 := by omega
    have hlen : (3 + (len - 1) * 4) / 4 + 1 = len := by omega
    have hoff : off % 256 + 256 * (off / 256 % 256 + 256 * (off / 256 / 256 % 256 +
        256 * (off / 256 / 256 / 256 % 256 + 256 * 0))) = off := by omega
    simp only [encElem, show (4 : Nat) ≠ 1 by omega, show (4 : Nat) ≠ 2 by omega, ↓reduceIte, leBytes,
      List.cons_append, List.nil_append, snappyElems, htag, hmod, show (3 : Nat) ≠ 0 by omega,
      show (3 : Nat) ≠ 1 by omega, show (3 : Nat) ≠ 2 by omega, List.length_cons, List.take_succ_cons,
      List.take_zero, le, hb0, hb1, hb2, hb3, hlen, hoff, List.drop_succ_cons, List.drop_zero]
    rw [if_neg (by omega), if_neg (by omega)]

theorem encElem_length (e : Elem) : 1 ≤ (encElem e).length := by
  cases e with
  | lit bs => simp only [encElem]; split <;> simp
  | copy k off len => simp only [encElem]; split <;> (try split) <;> simp

theorem snappyElems_encElems : ∀ (els : List Elem) (out : Array UInt8) (fuel : Nat),
    elemsOk els out = true → (encElems els).length < fuel →
    snappyElems fuel (encElems els) out = .ok (applyElems els out) := by
  intro els
  induction els with
  | nil =>
    intro out fuel _ hf
    cases fuel with
    | zero => simp at hf
    | succ fuel => simp [encElems, snappyElems, applyElems]
  | cons e r ih =>
    intro out fuel hok hf
    simp only [elemsOk, Bool.and_eq_true] at hok
    cases fuel with
    | zero => simp at hf
    | succ fuel =>
      simp only [encElems, applyElems] at hf ⊢
      have hl := encElem_length e
      have hf' : (encElems r).length < fuel := by simp only [List.length_append] at hf; omega
      cases e with
      | lit bs =>
        have h := hok.1
        simp only [elemOk, Bool.and_eq_true, decide_eq_true_eq] at h
        rw [snappyElems_lit bs _ out fuel h.1 h.2]
        exact ih _ fuel hok.2 hf'
      | copy k off len =>
        rw [snappyElems_copy k off len _ out fuel hok.1]
        exact ih _ fuel hok.2 hf'

/-- **The Snappy reader inverts every writable element list** whose total fits 32 bits: literals
of any length (inline and 1..4-byte length fields), copies of the three kinds with any offset
inside the output so far, overlapping or not. -/
theorem snappyDec_encBlock (els : List Elem) (hok : elemsOk els #[] = true)
    (hsz : (applyElems els #[]).size < 4294967296) :
    snappyDec (encBlock els) = .ok (applyElems els #[]).toList := by
  have hv := uvarint_put 10 (applyElems els #[]).size (encElems els) (by omega) (by
    have : (4294967296 : Nat) ≤ 128 ^ 10 := by decide
    omega)
  have he := snappyElems_encElems els #[] ((encElems els).length + 1) hok (by omega)
  simp only [snappyDec, encBlock, hv, he]
  rw [if_neg (by omega)]
  simp

/-! ## splitting a block into its elements -/

/-- the element loop of `snappyElems` without the copying -/
def parseElems : Nat → List UInt8 → List Elem → Option (List Elem)
  | 0, _, _ => none
  | _ + 1, [], acc => some acc.reverse
  | fuel + 1, tag :: rest, acc =>
    let t := tag.toNat
    if t % 4 = 0 then
      let l := t / 4
      let nb := if l < 60 then 0 else l - 59
      if rest.length < nb then none else
      let len := if l < 60 then l + 1 else le (rest.take nb) + 1
      let rest := rest.drop nb
      if rest.length < len then none else
      parseElems fuel (rest.drop len) (.lit (rest.take len) :: acc)
    else
      let nb := if t % 4 = 1 then 1 else if t % 4 = 2 then 2 else 4
      if rest.length < nb then none else
      let len := if t % 4 = 1 then 4 + (t / 4) % 8 else t / 4 + 1
      let off := if t % 4 = 1 then (t / 32) * 256 + le (rest.take 1) else le (rest.take nb)
      parseElems fuel (rest.drop nb) (.copy nb off len :: acc)

/-- announced length and elements -/
def parseBlock (src : List UInt8) : Option (Nat × List Elem) :=
  match uvarint 10 src with
  | none => none
  | some (want, rest) => (parseElems (rest.length + 1) rest []).map fun els => (want, els)

/-! ## non-vacuity -/
example : elemsOk [.lit [1, 2, 3], .copy 1 3 11, .copy 2 1 64, .copy 4 14 5] #[] = true := by decide +kernel
example : snappyDec (encBlock [.lit [1, 2, 3], .copy 1 2 5]) = .ok [1, 2, 3, 2, 3, 2, 3, 2] := by decide +kernel
example : elemOk 0 (.lit (List.replicate 61 0)) = true ∧
    (encElem (.lit (List.replicate 61 0))).take 2 = [240, 60] := by decide +kernel

example : parseBlock (encBlock [.lit [1, 2, 3], .copy 1 2 5]) = some (8, [.lit [1, 2, 3], .copy 1 2 5]) := by
  decide +kernel

end PqModel.Spec.SnappyElems
