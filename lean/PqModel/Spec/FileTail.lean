import PqModel.Spec.FileCheck
import PqModel.FooterLayout

/-! C02: what the footer says beyond the pages. `fileMeta` returns the SPEC views of a file's
    `created_by`, `key_value_metadata` and every row group's `sorting_columns`
    (`PqModel.FileMetaTrees`), and runs the MIRROR of `writeFileFooter`'s page-index loops
    (`PqModel.FooterLayout.indexLayout`) on the index lengths the footer announces: the offsets the
    mirror computes must be the file's (L2), and the section must end where the footer starts. -/
namespace PqModel.Spec
open PqModel.FooterLayout PqModel.FileMetaTrees

structure FileMeta where
  createdBy : Option ByteArray
  kvs : List (Option (ByteArray × Option ByteArray))
  sorting : List (List (Option (Int × Bool × Bool)))   -- per row group
  layout : List String                                  -- disagreements with the mirror (empty = agrees)
  indexes : Nat                                         -- page-index structures laid out by the mirror

/-- the four page-index numbers of every column chunk, row groups in order -/
def fileIdxLocs (rgs : List TVal) : List IdxLoc :=
  rgs.flatMap fun rg => (TVal.listD (rg.field? 1)).map fun c =>
    { ciOff := TVal.nat (c.field? 6), ciLen := TVal.nat (c.field? 7), oiOff := TVal.nat (c.field? 4), oiLen := TVal.nat (c.field? 5) }

def fileMeta (d : ByteArray) : Except String FileMeta :=
  let n := d.size
  if n < 12 then .error "file shorter than 12 bytes" else
  if d.extract (n - 4) n != "PAR1".toUTF8 then .error "missing trailing magic" else
  let flen := le d (n - 8) 4
  if flen + 12 > n then .error "footer length exceeds file" else
  let fstart := n - 8 - flen
  match readStruct d fstart with
  | .error e => .error s!"footer: {e}"
  | .ok (md, _) =>
    let rgs := TVal.listD (md.field? 4)
    let locs := fileIdxLocs rgs
    let ops : List IdxOp := locs.map fun l => { ci := if l.ciOff == 0 then none else some l.ciLen, oi := l.oiLen }
    -- the section starts at the first structure the footer names
    let starts := (locs.filter (·.ciOff != 0)).map (·.ciOff) ++ locs.map (·.oiOff)
    let layout : List String := match starts with
      | [] => []
      | start :: _ =>
        let (mls, stop) := indexLayout start ops
        (if mls == locs then [] else [s!"page index offsets {locs.map fun l => (l.ciOff, l.ciLen, l.oiOff, l.oiLen)} but the mirror of writeFileFooter lays the same lengths out as {mls.map fun l => (l.ciOff, l.ciLen, l.oiOff, l.oiLen)}"]) ++
        (if stop == fstart then [] else [s!"page index section ends at {stop} in the mirror, the footer starts at {fstart}"])
    .ok { createdBy := createdByOf md, kvs := kvsOf md, sorting := rgs.map sortingOf, layout := layout,
          indexes := (ops.filter (·.ci.isSome)).length + ops.length }

end PqModel.Spec
