import PqModel.Spec.FileCheck

/-! Spec side of C02, statistics derived from the decoded data. Everything the format defines as
    a function of the (value, repetition level, definition level) entries of a page or chunk is
    recomputed here from what the spec reader (`Spec.FileCheck`) decodes and compared with what
    the file announces (parquet.thrift field ids):

    * `ColumnMetaData.size_statistics` (16): `unencoded_byte_array_data_bytes` (1) = sum of the
      lengths of the non-null BYTE_ARRAY values of the chunk, without length prefixes;
      `repetition_level_histogram` (2) / `definition_level_histogram` (3): entry `l` = number of
      entries of the chunk whose level is `l`, `max level + 1` entries;
    * `OffsetIndex.unencoded_byte_array_data_bytes` (2): the same sum, one per data page;
    * `ColumnIndex.repetition_level_histograms` (6) / `definition_level_histograms` (7): the page
      histograms one after the other; `null_pages` (1): the page holds no non-null value;
    * `Statistics.null_count` (3) and `distinct_count` (4) of the chunk (`ColumnMetaData` 12) and
      of every data page header (`DataPageHeader` 5, `DataPageHeaderV2` 8).

    An optional field that is absent announces nothing, with one exception: a `size_statistics`
    struct that IS present on a BYTE_ARRAY column whose values hold bytes must carry the byte
    count (thrift readers that default a missing i64 to 0 would otherwise be told "0 bytes").
    All of this is SPEC (written from parquet.thrift); nothing here looks at the Go code. -/
namespace PqModel.Spec.SizeStats
open PqModel.Spec PqModel.Layout

/-- SPEC `unencoded_byte_array_data_bytes`: the sum of the lengths of the non-null byte-array
    values (what PLAIN would store, minus the 4-byte length prefixes) -/
def unencodedBytes : List Value → Nat
  | [] => 0
  | v :: vs => v.length + unencodedBytes vs

/-- number of entries of `levels` equal to `l` -/
def countLevel (l : Nat) : List Nat → Nat
  | [] => 0
  | x :: xs => (if x == l then 1 else 0) + countLevel l xs

/-- SPEC level histogram: `maxLevel + 1` entries, entry `l` counts the levels equal to `l` -/
def levelHistogram (maxLevel : Nat) (levels : List Nat) : List Nat :=
  (List.range (maxLevel + 1)).map fun l => countLevel l levels

/-- the bytes the non-null values of a Dremel stream hold -/
def streamBytes : List Triple → Nat
  | [] => 0
  | t :: ts => (match t.val with | some v => v.length | none => 0) + streamBytes ts

/-- the entries of a chunk, as `dumpChunk` builds them (reversed, in front of `acc`) -/
def chunkStream (maxDef : Nat) (pds : List PageData) (acc : List Triple) : List Triple :=
  pds.foldl (fun acc pd => zipTriples maxDef pd.reps pd.defs pd.vals acc) acc

structure StatReport where
  problems : List String := []
  chunks : Nat := 0           -- chunks whose statistics were recomputed from decoded pages
  skipped : Nat := 0          -- chunks not (fully) value-decoded: nothing to compare with
  byteArray : Nat := 0        -- recomputed chunks of BYTE_ARRAY columns
  unencoded : Nat := 0        -- chunks announcing unencoded_byte_array_data_bytes
  runs : Nat := 0             -- BYTE_ARRAY chunks with dictionary-encoded pages holding two adjacent equal non-empty values
  hists : Nat := 0            -- level histograms compared (chunk level)
  nullCounts : Nat := 0       -- Statistics.null_count fields compared (chunk + pages)
  distinct : Nat := 0         -- distinct_count fields compared
  pageLists : Nat := 0        -- per-page lists compared (offset index bytes, column index histograms, null_pages)

def StatReport.add (r : StatReport) (cond : Bool) (msg : String) : StatReport :=
  if cond then r else { r with problems := msg :: r.problems }

def natList (v : Option TVal) : List Nat := (TVal.listD v).map fun x => TVal.nat (some x)

def hasAdjacentEqual : List Value → Bool
  | a :: b :: rest => (a == b && !a.isEmpty) || hasAdjacentEqual (b :: rest)
  | _ => false

/-- the Statistics struct of a data page header, read again at the page's offset -/
def pageStatistics (d : ByteArray) (p : PageInfo) : Option TVal :=
  match readStruct d p.offset with
  | .error _ => none
  | .ok (h, _) =>
    if p.ptype == 0 then (h.field? 5).bind (·.field? 5)
    else if p.ptype == 3 then (h.field? 8).bind (·.field? 8)
    else none

/-- the clauses of one Statistics struct against the entries it describes -/
def statisticsClauses (tag what : String) (st : Option TVal) (nulls : Nat) (vals : List Value) (r : StatReport) : StatReport :=
  let r := match TVal.int? (st.bind (·.field? 3)) with
    | some n => { r.add (n == Int.ofNat nulls) s!"{tag}: {what} statistics null_count {n} but {nulls} definition levels are below the maximum" with nullCounts := r.nullCounts + 1 }
    | none => r
  match TVal.int? (st.bind (·.field? 4)) with
  | some n =>
    let dc := vals.eraseDups.length
    { r.add (n == Int.ofNat dc) s!"{tag}: {what} statistics distinct_count {n} but the values decode to {dc} distinct ones" with distinct := r.distinct + 1 }
  | none => r

def checkChunkStats (d : ByteArray) (rgi ci : Nat) (leaf : Leaf) (c : TVal) (r : StatReport) : StatReport :=
  let tag := s!"rg{rgi}/col{ci}"
  match c.field? 3 with
  | none => r
  | some m =>
    let codec := TVal.nat (m.field? 4)
    if !valueCodec codec then { r with skipped := r.skipped + 1 } else
    let dataOff := TVal.nat (m.field? 9)
    let totalComp := TVal.nat (m.field? 7)
    let first := match TVal.int? (m.field? 11) with
      | some o => if o.toNat > 0 && o.toNat < dataOff then o.toNat else dataOff
      | none => dataOff
    if first + totalComp > d.size then { r with skipped := r.skipped + 1 } else
    match walkPages d false (totalComp + 2) first (first + totalComp) [] with
    | .error _ => { r with skipped := r.skipped + 1 }
    | .ok pages =>
      let cd := decodeChunkPages d leaf codec pages
      let datas := pages.filter (fun p => !p.op.isDict)
      let pds := cd.datas.filterMap id
      -- undecodable / capped pages are the business of `checkFile`; here: nothing to compare with
      if !cd.problems.isEmpty || cd.capped > 0 || pds.length != datas.length then { r with skipped := r.skipped + 1 } else
      let isBA := leaf.ptype == 6
      let pageBytes := pds.map (fun pd => unencodedBytes pd.vals)
      let total := pageBytes.sum
      let allReps := pds.flatMap (·.reps)
      let allDefs := pds.flatMap (·.defs)
      let nulls := (pds.map (·.nulls)).sum
      let dictRuns := isBA && (List.zip datas pds).any (fun (p, pd) => (p.encoding == 2 || p.encoding == 8) && hasAdjacentEqual pd.vals)
      let r := { r with chunks := r.chunks + 1, byteArray := r.byteArray + (if isBA then 1 else 0), runs := r.runs + (if dictRuns then 1 else 0) }
      -- size_statistics of the chunk
      let ss := m.field? 16
      let r := match TVal.int? (ss.bind (·.field? 1)) with
        | some n =>
          let r := { r with unencoded := r.unencoded + 1 }
          if isBA then r.add (n == Int.ofNat total) s!"{tag}: size_statistics unencoded_byte_array_data_bytes {n} but the non-null values hold {total} bytes"
          else r.add (n == 0) s!"{tag}: size_statistics unencoded_byte_array_data_bytes {n} on a column that is not BYTE_ARRAY"
        | none => r.add (!(isBA && ss.isSome && total > 0)) s!"{tag}: size_statistics present without unencoded_byte_array_data_bytes, the non-null values hold {total} bytes"
      let rh := natList (ss.bind (·.field? 2))
      let r := if rh.isEmpty then r else
        { r.add (rh == levelHistogram leaf.maxRep allReps) s!"{tag}: size_statistics repetition_level_histogram {rh} but the decoded levels count {levelHistogram leaf.maxRep allReps}" with hists := r.hists + 1 }
      let dh := natList (ss.bind (·.field? 3))
      let r := if dh.isEmpty then r else
        { r.add (dh == levelHistogram leaf.maxDef allDefs) s!"{tag}: size_statistics definition_level_histogram {dh} but the decoded levels count {levelHistogram leaf.maxDef allDefs}" with hists := r.hists + 1 }
      -- Statistics of the chunk and of every data page
      let r := statisticsClauses tag "chunk" (m.field? 12) nulls (pds.flatMap (·.vals)) r
      let r := (List.zip datas pds).foldl (fun (r : StatReport) (p, pd) =>
        statisticsClauses tag "data page" (pageStatistics d p) pd.nulls pd.vals r) r
      -- offset index: unencoded_byte_array_data_bytes per page
      let oiOff := TVal.nat (c.field? 4)
      let r := if oiOff == 0 then r else
        match readStruct d oiOff with
        | .error _ => r
        | .ok (oi, _) =>
          let ub := natList (oi.field? 2)
          if ub.isEmpty then r else
          { r.add (ub == (if isBA then pageBytes else pageBytes.map fun _ => 0))
              s!"{tag}: offset index unencoded_byte_array_data_bytes {ub} but the non-null values of the pages hold {pageBytes} bytes" with pageLists := r.pageLists + 1 }
      -- column index: level histograms per page, null_pages
      let ciOff := TVal.nat (c.field? 6)
      if ciOff == 0 then r else
      match readStruct d ciOff with
      | .error _ => r
      | .ok (cix, _) =>
        let rhs := natList (cix.field? 6)
        let wantR := pds.flatMap (fun pd => levelHistogram leaf.maxRep pd.reps)
        let r := if rhs.isEmpty then r else
          { r.add (rhs == wantR) s!"{tag}: column index repetition_level_histograms {rhs} but the decoded levels of the pages count {wantR}" with pageLists := r.pageLists + 1 }
        let dhs := natList (cix.field? 7)
        let wantD := pds.flatMap (fun pd => levelHistogram leaf.maxDef pd.defs)
        let r := if dhs.isEmpty then r else
          { r.add (dhs == wantD) s!"{tag}: column index definition_level_histograms {dhs} but the decoded levels of the pages count {wantD}" with pageLists := r.pageLists + 1 }
        let nps := (TVal.listD (cix.field? 1)).map fun x => match x with | .bool b => b | _ => false
        if nps.length != pds.length then r else
        let wantN := pds.map (fun pd => pd.vals.isEmpty)
        -- a page without any entry is neither: skip the clause for such chunks
        if pds.any (fun pd => pd.defs.isEmpty) then r else
        { r.add (nps == wantN) s!"{tag}: column index null_pages {nps} but the pages without non-null value are {wantN}" with pageLists := r.pageLists + 1 }

def checkChunksStats (d : ByteArray) (rgi : Nat) : List Leaf → List TVal → Nat → StatReport → StatReport
  | leaf :: ls, c :: cs, ci, r => checkChunksStats d rgi ls cs (ci + 1) (checkChunkStats d rgi ci leaf c r)
  | _, _, _, r => r

def checkRowGroupsStats (d : ByteArray) (leaves : List Leaf) : List TVal → Nat → StatReport → StatReport
  | [], _, r => r
  | rg :: rgs, i, r => checkRowGroupsStats d leaves rgs (i + 1) (checkChunksStats d i leaves (TVal.listD (rg.field? 1)) 0 r)

/-- the statistics clauses of a whole file -/
def checkFileStats (d : ByteArray) : Except String StatReport :=
  let n := d.size
  if n < 12 then .error "file shorter than 12 bytes" else
  if d.extract 0 4 != "PAR1".toUTF8 then .error "missing leading magic" else
  if d.extract (n - 4) n != "PAR1".toUTF8 then .error "missing trailing magic" else
  let flen := le d (n - 8) 4
  if flen + 12 > n then .error "footer length exceeds file" else
  match readStruct d (n - 8 - flen) with
  | .error e => .error s!"footer: {e}"
  | .ok (md, _) =>
    match TVal.listD (md.field? 2) with
    | [] => .error "empty schema"
    | root :: elems =>
      match schemaLeaves (elems.length + 2) elems (TVal.nat (root.field? 5)) [] 0 0 with
      | .error e => .error e
      | .ok (leaves, _) => .ok (checkRowGroupsStats d leaves (TVal.listD (md.field? 4)) 0 {})

def StatReport.summary (r : StatReport) : String :=
  s!"chunks={r.chunks} skipped={r.skipped} bytearray={r.byteArray} unencoded={r.unencoded} dictruns={r.runs} hists={r.hists} nullcounts={r.nullCounts} distinct={r.distinct} pagelists={r.pageLists}"

/-! ## the function the writer computes the byte count with, dictionary branch -/

/-- MIRROR of `computeUnencodedByteArraySize`, dictionary branch (writer_statistics.go:19-24):
    `for _, index := range values.Int32() { size += len(dict.Index(index).byteArray()) }`.
    `runCache = true` is the variant with a last-index cache that adds the size only when the
    index changes (the slipped change of seed C02-7a); `false` is the code as it is. An index
    outside the dictionary (a panic in Go) contributes nothing here. -/
def dictBranchSize (runCache : Bool) (dict : Array Value) : List Nat → Option Nat → Nat → Nat
  | [], _, size => size
  | i :: is, last, size =>
    if runCache && last == some i then dictBranchSize runCache dict is last size
    else dictBranchSize runCache dict is (some i) (size + (dict[i]?.getD []).length)

end PqModel.Spec.SizeStats
