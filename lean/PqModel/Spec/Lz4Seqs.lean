import PqModel.Spec.BlockCodecs

/-! SPEC side (C20, round 6): the LZ4 block format on SEQUENCES (lz4_Block_format.md: token,
literal length, literals, 2-byte little-endian offset, match length; "the last sequence contains
only literals"), the way `Spec/InflateMatch.lean` treats DEFLATE on tokens.

Layers, proved separately:

* `lz4Dec_encSeqs` — the READER on sequences: for EVERY list of sequences (any literals, any offset
  1..65535 that stays inside the output produced so far, any match length ≥ 4 incl. the 255-byte
  length extensions, offset < match length = overlapping copy) and every final literal run,
  `lz4Dec (encSeqs seqs last)` is what the sequences mean (`applySeqs`). `lz4Dec_encSeqs_rejects`:
  a list with an offset that is 0 or reaches before the start of the output is REJECTED
  (`.badOffset`), so the reader accepts exactly the writable lists.
* `greedy` — a greedy matcher (longest match in a window, nearest distance on ties, matches may run
  into the bytes being produced) that obeys the END-OF-BLOCK restrictions of the format document
  (the last 5 bytes are literals; the last match starts at least 12 bytes before the end): its
  sequences rebuild the input (`applySeqs_greedy`) and satisfy the end rules (`endOk_greedy`).
  `lz4Dec_lz4Greedy`: `lz4Dec (lz4Greedy w x) = x` for every window and input.
* `parseSeqs` — splits a block into its sequences (used by the L2 check on the real encoder's
  output: the stream is the `encSeqs` of a writable, end-rule-conformant list, i.e. it lies in the
  domain of `lz4Dec_encSeqs`); that re-encoding the parse gives the stream back is checked at run
  time by the driver op, not proved. -/
namespace PqModel.Spec.Lz4Seqs
open PqModel.Spec.BlockCodecs

/-- one sequence WITH a match: literals, offset, match length − 4 -/
structure Seq where
  lits : List UInt8
  off : Nat
  ml : Nat
  deriving DecidableEq

/-- writable behind `n` bytes of output: the offset is not 0, fits 16 bits and does not reach
before the start of the output (the literals of the sequence itself count) -/
def seqOk (n : Nat) (s : Seq) : Bool :=
  decide (1 ≤ s.off) && decide (s.off ≤ n + s.lits.length) && decide (s.off < 65536)

/-- what a sequence means: append the literals, then `ml + 4` bytes each taken `off` back -/
def applySeq (out : Array UInt8) (s : Seq) : Array UInt8 := copyBack s.off (s.ml + 4) (out ++ s.lits)

def applySeqs : List Seq → Array UInt8 → Array UInt8
  | [], out => out
  | s :: r, out => applySeqs r (applySeq out s)

def seqsOk : List Seq → Array UInt8 → Bool
  | [], _ => true
  | s :: r, out => seqOk out.size s && seqsOk r (applySeq out s)

/-- the bytes of one sequence -/
def encSeq (s : Seq) : List UInt8 :=
  UInt8.ofNat (lz4Nib s.lits.length * 16 + lz4Nib s.ml) ::
    (lz4LenExt s.lits.length ++ (s.lits ++
      (UInt8.ofNat (s.off % 256) :: UInt8.ofNat (s.off / 256) :: lz4LenExt s.ml)))

/-- a block: the sequences, then the last one that has literals only -/
def encSeqs : List Seq → List UInt8 → List UInt8
  | [], last => lz4LastSeq last
  | s :: r, last => encSeq s ++ encSeqs r last

/-- END-OF-BLOCK restrictions (lz4_Block_format.md "End of block restrictions"): if there is a match
at all, the last 5 bytes are literals and the last match starts ≥ 12 bytes before the end -/
def endOk : List Seq → List UInt8 → Bool
  | [], _ => true
  | [s], last => decide (5 ≤ last.length) && decide (12 ≤ s.ml + 4 + last.length)
  | _ :: s2 :: r, last => endOk (s2 :: r) last

/-! ## the reader on sequences -/

theorem copyBack_size (d : Nat) : ∀ (n : Nat) (out : Array UInt8), (copyBack d n out).size = out.size + n := by
  intro n
  induction n with
  | zero => intro out; rfl
  | succ n ih => intro out; rw [copyBack, ih]; simp only [Array.size_push]; omega

theorem off_bytes (o : Nat) (h : o < 65536) :
    (UInt8.ofNat (o % 256)).toNat + 256 * (UInt8.ofNat (o / 256)).toNat = o := by
  rw [toNat_ofNat_lt (by omega), toNat_ofNat_lt (by omega)]; omega

theorem size_appendList (out : Array UInt8) (l : List UInt8) : (out ++ l).size = out.size + l.length := by
  rw [← Array.length_toList, Array.toList_appendList]; simp

theorem not_short (a r : List UInt8) : ¬ (a ++ r).length < a.length := by simp

/-- one sequence, any offset / lengths -/
theorem lz4Seqs_encSeq (s : Seq) (S : List UInt8) (out : Array UInt8) (fuel : Nat)
    (hok : seqOk out.size s = true) :
    lz4Seqs (fuel + 1) (encSeq s ++ S) out = lz4Seqs fuel S (applySeq out s) := by
  simp only [seqOk, Bool.and_eq_true, decide_eq_true_eq] at hok
  obtain ⟨⟨ho1, ho2⟩, ho3⟩ := hok
  have h1 := lz4Nib_le s.lits.length
  have h2 := lz4Nib_le s.ml
  have htag : (UInt8.ofNat (lz4Nib s.lits.length * 16 + lz4Nib s.ml)).toNat =
      lz4Nib s.lits.length * 16 + lz4Nib s.ml := toNat_ofNat_lt (by omega)
  have hd : (lz4Nib s.lits.length * 16 + lz4Nib s.ml) / 16 = lz4Nib s.lits.length := by omega
  have hm : (lz4Nib s.lits.length * 16 + lz4Nib s.ml) % 16 = lz4Nib s.ml := by omega
  simp only [encSeq, List.cons_append, lz4Seqs, htag, hd, hm, List.append_assoc]
  rw [lz4ReadLen_enc]
  simp only []
  rw [if_neg (not_short _ _)]
  rw [List.drop_left' rfl, List.take_left' rfl]
  simp only []
  rw [lz4ReadLen_enc]
  simp only []
  rw [off_bytes _ ho3, if_neg (by rw [size_appendList]; omega)]
  rfl

/-- one sequence whose offset is 0 or reaches before the start of the output is rejected -/
theorem lz4Seqs_encSeq_bad (s : Seq) (S : List UInt8) (out : Array UInt8) (fuel : Nat)
    (h16 : s.off < 65536) (hbad : seqOk out.size s = false) :
    lz4Seqs (fuel + 1) (encSeq s ++ S) out = .error .badOffset := by
  have hb : s.off = 0 ∨ out.size + s.lits.length < s.off := by
    simp only [seqOk, Bool.and_eq_false_iff, decide_eq_false_iff_not] at hbad
    omega
  have h1 := lz4Nib_le s.lits.length
  have h2 := lz4Nib_le s.ml
  have htag : (UInt8.ofNat (lz4Nib s.lits.length * 16 + lz4Nib s.ml)).toNat =
      lz4Nib s.lits.length * 16 + lz4Nib s.ml := toNat_ofNat_lt (by omega)
  have hd : (lz4Nib s.lits.length * 16 + lz4Nib s.ml) / 16 = lz4Nib s.lits.length := by omega
  have hm : (lz4Nib s.lits.length * 16 + lz4Nib s.ml) % 16 = lz4Nib s.ml := by omega
  simp only [encSeq, List.cons_append, lz4Seqs, htag, hd, hm, List.append_assoc]
  rw [lz4ReadLen_enc]
  simp only []
  rw [if_neg (not_short _ _)]
  rw [List.drop_left' rfl, List.take_left' rfl]
  simp only []
  rw [lz4ReadLen_enc]
  simp only []
  rw [off_bytes _ h16, if_pos (by rw [size_appendList]; omega)]

theorem encSeq_length (s : Seq) : 3 ≤ (encSeq s).length := by
  simp only [encSeq, List.length_cons, List.length_append]; omega

theorem lz4Seqs_encSeqs : ∀ (seqs : List Seq) (last : List UInt8) (out : Array UInt8) (fuel : Nat),
    seqsOk seqs out = true → (encSeqs seqs last).length < fuel →
    lz4Seqs fuel (encSeqs seqs last) out = .ok (applySeqs seqs out ++ last) := by
  intro seqs
  induction seqs with
  | nil =>
    intro last out fuel _ hf
    cases fuel with
    | zero => simp at hf
    | succ fuel => simp [encSeqs, lz4Seqs_lastSeq, applySeqs]
  | cons s r ih =>
    intro last out fuel hok hf
    simp only [seqsOk, Bool.and_eq_true] at hok
    cases fuel with
    | zero => simp at hf
    | succ fuel =>
      simp only [encSeqs, applySeqs] at hf ⊢
      rw [lz4Seqs_encSeq s _ out fuel hok.1]
      have := encSeq_length s
      exact ih last _ fuel hok.2 (by simp only [List.length_append] at hf; omega)

theorem encSeqs_ne_nil : ∀ (seqs : List Seq) (last : List UInt8), encSeqs seqs last ≠ [] := by
  intro seqs last
  cases seqs with
  | nil => simp [encSeqs, lz4LastSeq]
  | cons s r => simp [encSeqs, encSeq]

/-- **The reader inverts every writable sequence list** (literal runs and match lengths of any
size, every offset 1..65535 inside the output so far — overlapping matches included — and any
final literal run, the empty one too). -/
theorem lz4Dec_encSeqs (seqs : List Seq) (last : List UInt8) (hok : seqsOk seqs #[] = true) :
    lz4Dec (encSeqs seqs last) = .ok ((applySeqs seqs #[]).toList ++ last) := by
  unfold lz4Dec
  rw [if_neg (encSeqs_ne_nil seqs last),
    lz4Seqs_encSeqs seqs last #[] _ hok (Nat.lt_succ_self _)]
  simp

/-- first sequence that is not writable, all offsets fitting 16 bits: rejected -/
theorem lz4Seqs_encSeqs_rejects : ∀ (seqs : List Seq) (last : List UInt8) (out : Array UInt8) (fuel : Nat),
    (∀ s, s ∈ seqs → s.off < 65536) → seqsOk seqs out = false → (encSeqs seqs last).length < fuel →
    lz4Seqs fuel (encSeqs seqs last) out = .error .badOffset := by
  intro seqs
  induction seqs with
  | nil => intro last out fuel _ h; simp [seqsOk] at h
  | cons s r ih =>
    intro last out fuel h16 hbad hf
    cases fuel with
    | zero => simp at hf
    | succ fuel =>
      simp only [encSeqs] at hf ⊢
      by_cases hs : seqOk out.size s = true
      · rw [lz4Seqs_encSeq s _ out fuel hs]
        have := encSeq_length s
        simp only [seqsOk, hs, Bool.true_and] at hbad
        exact ih last _ fuel (fun t ht => h16 t (by simp [ht])) hbad
          (by simp only [List.length_append] at hf; omega)
      · exact lz4Seqs_encSeq_bad s _ out fuel (h16 s (by simp)) (by simpa using hs)

/-- **The reader accepts only writable lists**: an offset 0 or one that reaches before the start
of the output makes the whole block an error. -/
theorem lz4Dec_encSeqs_rejects (seqs : List Seq) (last : List UInt8)
    (h16 : ∀ s, s ∈ seqs → s.off < 65536) (hbad : seqsOk seqs #[] = false) :
    lz4Dec (encSeqs seqs last) = .error .badOffset := by
  unfold lz4Dec
  rw [if_neg (encSeqs_ne_nil seqs last),
    lz4Seqs_encSeqs_rejects seqs last #[] _ h16 hbad (Nat.lt_succ_self _)]

/-! ## a greedy matcher that obeys the end-of-block rules -/

def commonPrefix : List UInt8 → List UInt8 → Nat
  | a :: as, b :: bs => if a = b then commonPrefix as bs + 1 else 0
  | _, _ => 0

/-- how many of the next bytes (at most 600) a match at offset `d` reproduces; the source is the
history continued by the copy itself -/
def matchLen (hist : Array UInt8) (rest : List UInt8) (d : Nat) : Nat :=
  commonPrefix ((copyBack d (min 600 rest.length) hist).toList.drop hist.size) rest

/-- best (length, offset) over offsets `d, d-1, .., 1`: longest, ties to the nearest -/
def bestMatch (hist : Array UInt8) (rest : List UInt8) : Nat → Nat × Nat
  | 0 => (0, 0)
  | d + 1 =>
    let b := bestMatch hist rest d
    if b.1 < matchLen hist rest (d + 1) then (matchLen hist rest (d + 1), d + 1) else b

/-- GREEDY MATCHER with window `w`. State: output already covered by sequences, pending literals,
remaining input. The longest match, cut so that 5 bytes stay behind it, is emitted only if it has
≥ 4 bytes, at least 12 bytes remain (end-of-block rules), and it is checked to be writable and to
reproduce the bytes it stands for; otherwise the next byte joins the pending literals. -/
def greedy (w : Nat) : Nat → Array UInt8 → List UInt8 → List UInt8 → List Seq × List UInt8
  | _, _, lits, [] => ([], lits)
  | 0, _, lits, rest => ([], lits ++ rest)
  | fuel + 1, out, lits, b :: rest =>
    let hist := out ++ lits
    let m := bestMatch hist (b :: rest) (min w (min hist.size 65535))
    let len := min m.1 ((b :: rest).length - 5)
    let s : Seq := ⟨lits, m.2, len - 4⟩
    if 4 ≤ len ∧ 12 ≤ (b :: rest).length ∧ len + 5 ≤ (b :: rest).length ∧ seqOk out.size s = true ∧
        applySeq out s = out ++ lits ++ (b :: rest).take len then
      let r := greedy w fuel (applySeq out s) [] ((b :: rest).drop len)
      (s :: r.1, r.2)
    else greedy w fuel out (lits ++ [b]) rest

/-- REFERENCE ENCODER: greedy matching in a window of `w` bytes -/
def lz4Greedy (w : Nat) (x : List UInt8) : List UInt8 :=
  encSeqs (greedy w x.length #[] [] x).1 (greedy w x.length #[] [] x).2

/-- the sequences of the matcher rebuild the input behind any output, and are all writable -/
theorem applySeqs_greedy (w : Nat) : ∀ (fuel : Nat) (out : Array UInt8) (lits rest : List UInt8),
    applySeqs (greedy w fuel out lits rest).1 out ++ (greedy w fuel out lits rest).2 =
      out ++ lits ++ rest ∧
    seqsOk (greedy w fuel out lits rest).1 out = true := by
  intro fuel
  induction fuel with
  | zero =>
    intro out lits rest
    cases rest with
    | nil => simp [greedy, applySeqs, seqsOk]
    | cons b rest =>
      simp only [greedy, applySeqs, seqsOk, and_true]
      apply Array.ext'
      simp
  | succ fuel ih =>
    intro out lits rest
    cases rest with
    | nil => simp [greedy, applySeqs, seqsOk]
    | cons b rest =>
      simp only [greedy]
      generalize bestMatch (out ++ lits) (b :: rest) (min w (min (out ++ lits).size 65535)) = m
      generalize min m.1 ((b :: rest).length - 5) = len
      split
      · rename_i hc
        obtain ⟨_, _, _, hok, happ⟩ := hc
        have := ih (applySeq out ⟨lits, m.2, len - 4⟩) [] ((b :: rest).drop len)
        simp only [applySeqs, seqsOk, hok, Bool.true_and, this, and_true]
        rw [happ]
        apply Array.ext'
        simp only [Array.toList_append, Array.toList_appendList, List.append_assoc, List.append_nil,
          List.append_cancel_left_eq]
        exact List.take_append_drop _ _
      · have := ih out (lits ++ [b]) rest
        simp only [this, and_true]
        apply Array.ext'
        simp

theorem applySeqs_size : ∀ (seqs : List Seq) (out : Array UInt8), out.size ≤ (applySeqs seqs out).size := by
  intro seqs
  induction seqs with
  | nil => intro out; simp [applySeqs]
  | cons s r ih =>
    intro out
    have := ih (applySeq out s)
    simp only [applySeqs]
    have h2 : out.size ≤ (applySeq out s).size := by simp only [applySeq, copyBack_size, size_appendList]; omega
    omega

/-- the matcher obeys the end-of-block restrictions -/
theorem endOk_greedy (w : Nat) : ∀ (fuel : Nat) (out : Array UInt8) (lits rest : List UInt8),
    endOk (greedy w fuel out lits rest).1 (greedy w fuel out lits rest).2 = true := by
  intro fuel
  induction fuel with
  | zero =>
    intro out lits rest
    cases rest <;> simp [greedy, endOk]
  | succ fuel ih =>
    intro out lits rest
    cases rest with
    | nil => simp [greedy, endOk]
    | cons b rest =>
      simp only [greedy]
      generalize bestMatch (out ++ lits) (b :: rest) (min w (min (out ++ lits).size 65535)) = m
      generalize min m.1 ((b :: rest).length - 5) = len
      split
      · rename_i hc
        obtain ⟨h4, h12, h5, _, _⟩ := hc
        have hi := ih (applySeq out ⟨lits, m.2, len - 4⟩) [] ((b :: rest).drop len)
        have hr := (applySeqs_greedy w fuel (applySeq out ⟨lits, m.2, len - 4⟩) [] ((b :: rest).drop len)).1
        generalize greedy w fuel (applySeq out ⟨lits, m.2, len - 4⟩) [] ((b :: rest).drop len) = r at hi hr
        obtain ⟨r1, r2⟩ := r
        cases r1 with
        | cons s2 r' => simpa [endOk] using hi
        | nil =>
          have hsz := congrArg Array.size hr
          simp [applySeqs, size_appendList] at hsz
          simp only [endOk, Bool.and_eq_true, decide_eq_true_eq]
          simp only [List.length_cons] at h12 h5
          omega
      · exact ih out (lits ++ [b]) rest

/-- **`lz4Dec` inverts the greedy encoder**, for every window and every input; the stream obeys
the end-of-block rules (`endOk_greedy`). -/
theorem lz4Dec_lz4Greedy (w : Nat) (x : List UInt8) : lz4Dec (lz4Greedy w x) = .ok x := by
  have h := applySeqs_greedy w x.length #[] [] x
  unfold lz4Greedy
  rw [lz4Dec_encSeqs _ _ h.2]
  have := congrArg Array.toList h.1
  simp only [Array.toList_appendList, Array.toList_append] at this
  simpa using this

/-! ## splitting a block into its sequences -/

/-- the sequence loop of `lz4Seqs` without the copying: the sequences and the final literals -/
def parseSeqs : Nat → List UInt8 → List Seq × List UInt8 → Option (List Seq × List UInt8)
  | 0, _, _ => none
  | _ + 1, [], _ => none
  | fuel + 1, token :: rest, acc =>
    let t := token.toNat
    match lz4ReadLen (t / 16) rest with
    | none => none
    | some (ll, rest) =>
      if rest.length < ll then none else
      match rest.drop ll with
      | [] => some (acc.1.reverse, rest.take ll)
      | [_] => none
      | o0 :: o1 :: rest' =>
        match lz4ReadLen (t % 16) rest' with
        | none => none
        | some (ml, rest'') =>
          parseSeqs fuel rest'' (⟨rest.take ll, o0.toNat + 256 * o1.toNat, ml⟩ :: acc.1, [])

def parseBlock (src : List UInt8) : Option (List Seq × List UInt8) := parseSeqs (src.length + 1) src ([], [])

/-! ## non-vacuity -/

/-- twenty times `a`: one literal, a match of 14 at offset 1 (overlapping), 5 final literals -/
example : greedy 32 20 #[] [] (List.replicate 20 97) = ([⟨[97], 1, 10⟩], [97, 97, 97, 97, 97]) := by
  decide +kernel
example : lz4Greedy 32 (List.replicate 20 97) = [0x1a, 97, 1, 0, 0x50, 97, 97, 97, 97, 97] := by
  decide +kernel
/-- `abcabcabcabcabcabcXYZUV`: three literals, overlapping match of 15 at offset 3 -/
example : (greedy 32 23 #[] []
    [97, 98, 99, 97, 98, 99, 97, 98, 99, 97, 98, 99, 97, 98, 99, 97, 98, 99, 88, 89, 90, 85, 86]).1 =
    [⟨[97, 98, 99], 3, 11⟩] := by decide +kernel
/-- twelve equal bytes cannot hold a match that leaves 5 literals and starts 12 before the end
only if shorter than 13: 12 bytes stay literals (format document: "a block with less than 13 bytes
cannot be compressed") -/
example : greedy 32 12 #[] [] (List.replicate 12 97) = ([], List.replicate 12 97) := by decide +kernel
/-- length extensions on both sides and a two-byte offset -/
example : seqsOk [⟨List.replicate 300 7, 258, 300⟩] #[] = true := by decide +kernel
/-- rejected: offset 0, offset one beyond the start -/
example : lz4Dec (encSeqs [⟨[1, 2], 0, 0⟩] [9, 9, 9, 9, 9]) = .error .badOffset := by decide +kernel
example : lz4Dec (encSeqs [⟨[1, 2], 3, 0⟩] [9, 9, 9, 9, 9]) = .error .badOffset := by decide +kernel
example : lz4Dec (encSeqs [⟨[1, 2], 2, 0⟩] [9]) = .ok [1, 2, 1, 2, 1, 2, 9] := by decide +kernel
example : parseBlock [0x1a, 97, 1, 0, 0x50, 97, 97, 97, 97, 97] =
    some ([⟨[97], 1, 10⟩], [97, 97, 97, 97, 97]) := by decide +kernel

end PqModel.Spec.Lz4Seqs
