/-! SPEC side (C20): decoders for the Snappy *block* format and the LZ4 *block* format, written
from the format descriptions only (google/snappy `format_description.txt`, lz4
`lz4_Block_format.md`), over `List UInt8` input with an `Array UInt8` output that is only pushed
to; plus simple REFERENCE ENCODERS (literal-only, and run-length ones that emit overlapping
back-references) with machine-checked `decoder ∘ encoder = id`.

What this buys for C20: "the codec is lossless" is no longer a bare assumption about an opaque
function — the *format* admits lossless encoders, our decoder is a total function of the stream,
and the L1 check runs this decoder on everything the real third-party encoders emit.

Everything is total: element / sequence loops run on fuel (every step consumes at least one
input byte, so `input length + 1` suffices), copies on their length. -/
namespace PqModel.Spec.BlockCodecs

inductive Err
  | fuel | truncated | badOffset | badLength | tooLarge
  deriving DecidableEq

deriving instance DecidableEq for Except

theorem toNat_ofNat_lt {n : Nat} (h : n < 256) : (UInt8.ofNat n).toNat = n := by
  simp only [UInt8.toNat_ofNat']; omega

/-- append `n` bytes, each taken `off` bytes before the current end (overlap allowed: with
`off < n` the bytes just written are read again, which gives runs) -/
def copyBack (off : Nat) : Nat → Array UInt8 → Array UInt8
  | 0, out => out
  | n + 1, out => copyBack off n (out.push (out[out.size - off]?.getD 0))

theorem copyBack_one (b : UInt8) : ∀ (n : Nat) (prev : Array UInt8),
    copyBack 1 n (prev.push b) = prev ++ Array.replicate (n + 1) b := by
  intro n
  induction n with
  | zero =>
    intro prev
    apply Array.ext'
    simp [copyBack]
  | succ n ih =>
    intro prev
    have h : (prev.push b)[(prev.push b).size - 1]?.getD 0 = b := by simp
    rw [copyBack, h, ih (prev.push b)]
    apply Array.ext'
    simp [List.replicate_succ]

/-! ## Snappy -/

/-- ULEB128, at most `fuel` bytes -/
def uvarint : Nat → List UInt8 → Option (Nat × List UInt8)
  | 0, _ => none
  | _ + 1, [] => none
  | fuel + 1, b :: bs =>
    if b.toNat < 128 then some (b.toNat, bs)
    else match uvarint fuel bs with
      | some (v, r) => some (b.toNat - 128 + 128 * v, r)
      | none => none

def putUvarint : Nat → Nat → List UInt8
  | 0, _ => []
  | fuel + 1, n =>
    if n < 128 then [UInt8.ofNat n] else UInt8.ofNat (n % 128 + 128) :: putUvarint fuel (n / 128)

theorem uvarint_put : ∀ (fuel n : Nat) (rest : List UInt8), 0 < fuel → n < 128 ^ fuel →
    uvarint fuel (putUvarint fuel n ++ rest) = some (n, rest) := by
  intro fuel
  induction fuel with
  | zero => intro n rest h0 h; omega
  | succ fuel ih =>
    intro n rest _ h
    by_cases hn : n < 128
    · have : (UInt8.ofNat n).toNat = n := toNat_ofNat_lt (by omega)
      simp [putUvarint, hn, uvarint, this]
    · have h1 : (UInt8.ofNat (n % 128 + 128)).toNat = n % 128 + 128 := toNat_ofNat_lt (by omega)
      have h2 : n / 128 < 128 ^ fuel := by
        rw [Nat.pow_succ] at h
        exact Nat.div_lt_of_lt_mul (by rw [Nat.mul_comm]; exact h)
      simp only [putUvarint, hn, ↓reduceIte, List.cons_append, uvarint, h1]
      have hf0 : 0 < fuel := by
        cases fuel with
        | zero => simp at h2; omega
        | succ f => omega
      rw [if_neg (by omega), ih _ rest hf0 h2]
      simp only [Option.some.injEq, Prod.mk.injEq, and_true]
      omega

/-- little-endian number -/
def le : List UInt8 → Nat
  | [] => 0
  | b :: bs => b.toNat + 256 * le bs

/-- the element loop. Tag kinds (two low bits): 0 literal (`len-1` in the upper six bits, 60..63:
in the next 1..4 bytes LE), 1 copy with 11-bit offset and length 4..11, 2 copy with 2-byte offset,
3 copy with 4-byte offset (length 1..64). -/
def snappyElems : Nat → List UInt8 → Array UInt8 → Except Err (Array UInt8)
  | 0, _, _ => .error .fuel
  | _ + 1, [], out => .ok out
  | fuel + 1, tag :: rest, out =>
    let t := tag.toNat
    if t % 4 = 0 then
      let l := t / 4
      let nb := if l < 60 then 0 else l - 59
      if rest.length < nb then .error .truncated else
      let len := if l < 60 then l + 1 else le (rest.take nb) + 1
      let rest := rest.drop nb
      if rest.length < len then .error .truncated else
      snappyElems fuel (rest.drop len) (out ++ rest.take len)
    else
      let nb := if t % 4 = 1 then 1 else if t % 4 = 2 then 2 else 4
      if rest.length < nb then .error .truncated else
      let len := if t % 4 = 1 then 4 + (t / 4) % 8 else t / 4 + 1
      let off := if t % 4 = 1 then (t / 32) * 256 + le (rest.take 1) else le (rest.take nb)
      if off = 0 ∨ out.size < off then .error .badOffset else
      snappyElems fuel (rest.drop nb) (copyBack off len out)

/-- SPEC: decode a Snappy block: `<uvarint length> <element>*`, the elements must produce exactly
the announced number of bytes (which must fit 32 bits) -/
def snappyDec (src : List UInt8) : Except Err (List UInt8) :=
  match uvarint 10 src with
  | none => .error .truncated
  | some (want, rest) =>
    if want ≥ 4294967296 then .error .tooLarge else
    match snappyElems (rest.length + 1) rest #[] with
    | .error e => .error e
    | .ok out => if out.size = want then .ok out.toList else .error .badLength

/-- literal elements of at most 60 bytes (`fuel ≥` number of bytes) -/
def snappyLits : Nat → List UInt8 → List UInt8
  | 0, _ => []
  | _ + 1, [] => []
  | fuel + 1, b :: bs =>
    let chunk := (b :: bs).take 60
    UInt8.ofNat ((chunk.length - 1) * 4) :: (chunk ++ snappyLits fuel ((b :: bs).drop 60))

/-- REFERENCE ENCODER 1: literals only -/
def snappyEncLit (x : List UInt8) : List UInt8 := putUvarint 10 x.length ++ snappyLits x.length x

/-- run-length decomposition -/
def runs : List UInt8 → List (UInt8 × Nat)
  | [] => []
  | b :: xs =>
    match runs xs with
    | (c, n) :: r => if b = c then (c, n + 1) :: r else (b, 1) :: (c, n) :: r
    | [] => [(b, 1)]

def expand (rs : List (UInt8 × Nat)) : List UInt8 := rs.flatMap (fun p => List.replicate p.2 p.1)

theorem expand_runs (x : List UInt8) : expand (runs x) = x := by
  induction x with
  | nil => rfl
  | cons b xs ih =>
    simp only [runs]
    split
    · rename_i c n r h
      rw [h] at ih
      split
      · rename_i hb
        subst hb
        simp only [expand, List.flatMap_cons, List.replicate_succ, List.cons_append] at ih ⊢
        rw [ih]
      · simp only [expand, List.flatMap_cons] at ih ⊢
        rw [ih]; rfl
    · rename_i h
      rw [h] at ih
      simp only [expand, List.flatMap_nil] at ih
      simp [expand, ← ih]

theorem runs_pos (x : List UInt8) : ∀ p, p ∈ runs x → 0 < p.2 := by
  induction x with
  | nil => intro p hp; simp [runs] at hp
  | cons b xs ih =>
    intro p hp
    simp only [runs] at hp
    split at hp
    · rename_i c n r h
      rw [h] at ih
      split at hp
      · simp only [List.mem_cons] at hp
        rcases hp with rfl | hp
        · simp
        · exact ih p (by simp [hp])
      · simp only [List.mem_cons] at hp
        rcases hp with rfl | hp
        · simp
        · exact ih p (by simpa using hp)
    · simp only [List.mem_cons, List.not_mem_nil, or_false] at hp
      subst hp; simp

/-- `n` more copies of the last byte: 2-byte-offset copies (tag kind 2) with offset 1 and
length ≤ 64 — OVERLAPPING copies (offset 1 < length) -/
def snappyCopies : Nat → Nat → List UInt8
  | 0, _ => []
  | fuel + 1, n =>
    if n = 0 then []
    else if n ≤ 64 then [UInt8.ofNat ((n - 1) * 4 + 2), 1, 0]
    else UInt8.ofNat (63 * 4 + 2) :: 1 :: 0 :: snappyCopies fuel (n - 64)

def snappyRunsEnc : List (UInt8 × Nat) → List UInt8
  | [] => []
  | (b, n) :: r => 0 :: b :: (snappyCopies n (n - 1) ++ snappyRunsEnc r)

/-- REFERENCE ENCODER 2: every run is one literal byte followed by overlapping back-references -/
def snappyEncRle (x : List UInt8) : List UInt8 := putUvarint 10 x.length ++ snappyRunsEnc (runs x)

/-! ### decoder ∘ encoder -/

/-- one short literal element -/
theorem snappyElems_shortLit (chunk rest : List UInt8) (out : Array UInt8) (fuel : Nat)
    (h1 : 1 ≤ chunk.length) (h60 : chunk.length ≤ 60) :
    snappyElems (fuel + 1) (UInt8.ofNat ((chunk.length - 1) * 4) :: (chunk ++ rest)) out =
      snappyElems fuel rest (out ++ chunk) := by
  have htag : (UInt8.ofNat ((chunk.length - 1) * 4)).toNat = (chunk.length - 1) * 4 :=
    toNat_ofNat_lt (by omega)
  have hm : (chunk.length - 1) * 4 % 4 = 0 := by omega
  have hd : (chunk.length - 1) * 4 / 4 = chunk.length - 1 := by omega
  have hl : chunk.length - 1 < 60 := by omega
  have hcl : chunk.length - 1 + 1 = chunk.length := by omega
  simp only [snappyElems, htag, hm, ↓reduceIte, hd, hl, Nat.not_lt_zero, List.drop_zero, hcl]
  rw [if_neg (by simp)]
  simp

/-- one copy element with a 2-byte offset of 1 (overlapping when `n > 1`) -/
theorem snappyElems_copy1 (n : Nat) (rest : List UInt8) (prev : Array UInt8) (b : UInt8) (fuel : Nat)
    (h1 : 1 ≤ n) (h64 : n ≤ 64) :
    snappyElems (fuel + 1) (UInt8.ofNat ((n - 1) * 4 + 2) :: 1 :: 0 :: rest) (prev.push b) =
      snappyElems fuel rest (prev ++ Array.replicate (n + 1) b) := by
  have htag : (UInt8.ofNat ((n - 1) * 4 + 2)).toNat = (n - 1) * 4 + 2 := toNat_ofNat_lt (by omega)
  have hm : ((n - 1) * 4 + 2) % 4 = 2 := by omega
  have hd : ((n - 1) * 4 + 2) / 4 + 1 = n := by omega
  have ho : (1 : UInt8).toNat + 256 * ((0 : UInt8).toNat + 256 * 0) = 1 := by decide
  simp only [snappyElems, htag, hm, hd, show (2 : Nat) ≠ 0 by omega, show (2 : Nat) ≠ 1 by omega,
    ↓reduceIte, List.length_cons, List.take_succ_cons, List.take_zero, le, ho, List.drop_succ_cons,
    List.drop_zero]
  rw [if_neg (by omega), if_neg (by simp)]
  obtain ⟨m, rfl⟩ : ∃ m, n = m + 1 := ⟨n - 1, by omega⟩
  rw [copyBack_one]

theorem snappyElems_lits : ∀ (n : Nat) (x : List UInt8) (fuel : Nat) (out : Array UInt8),
    x.length ≤ n → (snappyLits n x).length < fuel →
    snappyElems fuel (snappyLits n x) out = .ok (out ++ x) := by
  intro n
  induction n with
  | zero =>
    intro x fuel out hx hf
    have : x = [] := List.length_eq_zero_iff.mp (by omega)
    subst this
    cases fuel with
    | zero => simp [snappyLits] at hf
    | succ fuel => simp [snappyLits, snappyElems]
  | succ n ih =>
    intro x fuel out hx hf
    cases x with
    | nil =>
      cases fuel with
      | zero => simp [snappyLits] at hf
      | succ fuel => simp [snappyLits, snappyElems]
    | cons b bs =>
      cases fuel with
      | zero => simp at hf
      | succ fuel =>
        have hlen : ((b :: bs).take 60).length = min 60 (bs.length + 1) := by
          simp only [List.length_take, List.length_cons]
        simp only [snappyLits] at hf ⊢
        rw [snappyElems_shortLit _ _ _ _ (by omega) (by omega)]
        have hrec := ih ((b :: bs).drop 60) fuel (out ++ (b :: bs).take 60)
          (by simp only [List.length_drop, List.length_cons] at *; omega)
          (by simp only [List.length_cons, List.length_append] at hf; omega)
        rw [hrec]
        congr 1
        apply Array.ext'
        simp only [Array.toList_append, List.append_assoc, Array.toList_appendList]
        rw [List.take_append_drop]

theorem snappyElems_copies (b : UInt8) (R : Except Err (Array UInt8)) :
    ∀ (k n : Nat) (S : List UInt8) (prev : Array UInt8) (fuel : Nat), n ≤ k →
      (∀ fuel', S.length < fuel' → snappyElems fuel' S (prev ++ Array.replicate (n + 1) b) = R) →
      (snappyCopies k n ++ S).length < fuel →
      snappyElems fuel (snappyCopies k n ++ S) (prev.push b) = R := by
  have hpush1 : ∀ prev : Array UInt8, prev.push b = prev ++ Array.replicate (0 + 1) b := by
    intro prev; apply Array.ext'; simp
  intro k
  induction k with
  | zero =>
    intro n S prev fuel hn hS hf
    have : n = 0 := by omega
    subst this
    rw [hpush1]
    exact hS fuel (by simpa [snappyCopies] using hf)
  | succ k ih =>
    intro n S prev fuel hn hS hf
    by_cases h0 : n = 0
    · subst h0
      rw [hpush1]
      exact hS fuel (by simpa [snappyCopies] using hf)
    · cases fuel with
      | zero => simp at hf
      | succ fuel =>
        by_cases h64 : n ≤ 64
        · simp only [snappyCopies, h0, ↓reduceIte, h64, List.cons_append, List.nil_append] at hf ⊢
          rw [snappyElems_copy1 n S prev b fuel (by omega) h64]
          exact hS fuel (by simp only [List.length_cons] at hf; omega)
        · simp only [snappyCopies, h0, ↓reduceIte, h64, List.cons_append] at hf ⊢
          have := snappyElems_copy1 64 (snappyCopies k (n - 64) ++ S) prev b fuel (by omega) (by omega)
          have h254 : (64 - 1) * 4 + 2 = 63 * 4 + 2 := by omega
          rw [h254] at this
          rw [this]
          have hpush : prev ++ Array.replicate (64 + 1) b = (prev ++ Array.replicate 64 b).push b := by
            apply Array.ext'
            simp [List.replicate_succ']
          rw [hpush]
          apply ih (n - 64) S _ fuel (by omega)
          · intro fuel' hf'
            have := hS fuel' hf'
            have e : prev ++ Array.replicate 64 b ++ Array.replicate (n - 64 + 1) b =
                prev ++ Array.replicate (n + 1) b := by
              apply Array.ext'
              simp only [Array.toList_append, Array.toList_replicate, List.append_assoc,
                List.replicate_append_replicate]
              have h64' : 64 + (n - 64 + 1) = n + 1 := by omega
              rw [h64']
            rw [e]; exact this
          · simp only [List.length_cons] at hf
            omega

theorem snappyElems_runs : ∀ (rs : List (UInt8 × Nat)) (out : Array UInt8) (fuel : Nat),
    (∀ p, p ∈ rs → 0 < p.2) → (snappyRunsEnc rs).length < fuel →
    snappyElems fuel (snappyRunsEnc rs) out = .ok (out ++ expand rs) := by
  intro rs
  induction rs with
  | nil =>
    intro out fuel _ hf
    cases fuel with
    | zero => simp at hf
    | succ fuel => simp [snappyRunsEnc, snappyElems, expand]
  | cons p r ih =>
    intro out fuel hpos hf
    obtain ⟨b, n⟩ := p
    have hn : 0 < n := hpos (b, n) (by simp)
    cases fuel with
    | zero => simp at hf
    | succ fuel =>
      simp only [snappyRunsEnc] at hf ⊢
      have hlit := snappyElems_shortLit [b] (snappyCopies n (n - 1) ++ snappyRunsEnc r) out fuel
        (by simp) (by simp)
      simp only [List.length_cons, List.length_nil, Nat.zero_add, Nat.sub_self, Nat.zero_mul,
        List.cons_append, List.nil_append] at hlit
      rw [show (0 : UInt8) = UInt8.ofNat 0 by rfl, hlit]
      have e1 : out ++ [b] = out.push b := by
        apply Array.ext'; simp
      rw [e1]
      apply snappyElems_copies b _ n (n - 1) (snappyRunsEnc r) out fuel (by omega)
      · intro fuel' hf'
        rw [ih _ fuel' (fun p hp => hpos p (by simp [hp])) hf']
        congr 1
        apply Array.ext'
        simp only [Array.toList_append, Array.toList_replicate, List.append_assoc, expand,
          List.flatMap_cons, Array.toList_appendList]
        congr 2
        · congr 1; omega
      · simp only [List.length_cons] at hf
        omega

theorem snappyDec_encLit (x : List UInt8) (h : x.length < 4294967296) :
    snappyDec (snappyEncLit x) = .ok x := by
  have hv := uvarint_put 10 x.length (snappyLits x.length x) (by omega) (by
    have : (4294967296 : Nat) ≤ 128 ^ 10 := by decide
    omega)
  have he := snappyElems_lits x.length x ((snappyLits x.length x).length + 1) #[]
    (Nat.le_refl _) (by omega)
  simp only [snappyDec, snappyEncLit, hv, he]
  rw [if_neg (by omega)]
  simp

theorem snappyDec_encRle (x : List UInt8) (h : x.length < 4294967296) :
    snappyDec (snappyEncRle x) = .ok x := by
  have hv := uvarint_put 10 x.length (snappyRunsEnc (runs x)) (by omega) (by
    have : (4294967296 : Nat) ≤ 128 ^ 10 := by decide
    omega)
  have he := snappyElems_runs (runs x) #[] ((snappyRunsEnc (runs x)).length + 1)
    (runs_pos x) (by omega)
  simp only [snappyDec, snappyEncRle, hv, he, expand_runs]
  rw [if_neg (by omega)]
  simp

/-! ## LZ4 block -/

/-- length extension: add the following bytes until one is not 255 -/
def lz4Ext : List UInt8 → Nat → Option (Nat × List UInt8)
  | [], _ => none
  | b :: bs, acc => if b.toNat = 255 then lz4Ext bs (acc + 255) else some (acc + b.toNat, bs)

/-- a length whose 4-bit field is `nib`: 15 means "continued in the following bytes" -/
def lz4ReadLen (nib : Nat) (rest : List UInt8) : Option (Nat × List UInt8) :=
  if nib = 15 then lz4Ext rest 15 else some (nib, rest)

/-- the sequence loop: token (literal length nibble, match length nibble), literal length
extension, literals, [end of block] or 2-byte LE offset, match length extension, copy of
`match length + 4` bytes (may overlap). A block must end after the literals of a sequence. -/
def lz4Seqs : Nat → List UInt8 → Array UInt8 → Except Err (Array UInt8)
  | 0, _, _ => .error .fuel
  | _ + 1, [], _ => .error .truncated
  | fuel + 1, token :: rest, out =>
    let t := token.toNat
    match lz4ReadLen (t / 16) rest with
    | none => .error .truncated
    | some (ll, rest) =>
      if rest.length < ll then .error .truncated else
      let out := out ++ rest.take ll
      match rest.drop ll with
      | [] => .ok out
      | [_] => .error .truncated
      | o0 :: o1 :: rest =>
        match lz4ReadLen (t % 16) rest with
        | none => .error .truncated
        | some (ml, rest) =>
          let off := o0.toNat + 256 * o1.toNat
          if off = 0 ∨ out.size < off then .error .badOffset else
          lz4Seqs fuel rest (copyBack off (ml + 4) out)

/-- SPEC: decode an LZ4 block; the empty block stands for the empty string (parquet LZ4_RAW) -/
def lz4Dec (src : List UInt8) : Except Err (List UInt8) :=
  if src = [] then .ok [] else
  match lz4Seqs (src.length + 1) src #[] with
  | .error e => .error e
  | .ok out => .ok out.toList

def lz4ExtEnc : Nat → Nat → List UInt8
  | 0, m => [UInt8.ofNat m]
  | fuel + 1, m => if m < 255 then [UInt8.ofNat m] else 255 :: lz4ExtEnc fuel (m - 255)

def lz4Nib (n : Nat) : Nat := if n < 15 then n else 15
def lz4LenExt (n : Nat) : List UInt8 := if n < 15 then [] else lz4ExtEnc n (n - 15)

/-- a sequence: literals, then a match of `ml + 4` bytes at offset 1 (a run of the last literal) -/
def lz4MatchSeq (lits : List UInt8) (ml : Nat) : List UInt8 :=
  UInt8.ofNat (lz4Nib lits.length * 16 + lz4Nib ml) ::
    (lz4LenExt lits.length ++ (lits ++ (1 :: 0 :: lz4LenExt ml)))

def lz4LastSeq (lits : List UInt8) : List UInt8 :=
  UInt8.ofNat (lz4Nib lits.length * 16) :: (lz4LenExt lits.length ++ lits)

/-- runs of 5 or more become one literal and an OVERLAPPING match at offset 1; shorter runs are
collected as literals -/
def lz4RunsEnc : List (UInt8 × Nat) → List UInt8 → List UInt8
  | [], lits => lz4LastSeq lits
  | (b, n) :: r, lits =>
    if 5 ≤ n then lz4MatchSeq (lits ++ [b]) (n - 5) ++ lz4RunsEnc r []
    else lz4RunsEnc r (lits ++ List.replicate n b)

/-- REFERENCE ENCODER: literals and run-length matches -/
def lz4EncSimple (x : List UInt8) : List UInt8 := lz4RunsEnc (runs x) []

theorem lz4Ext_enc : ∀ (fuel m acc : Nat) (rest : List UInt8), m ≤ 255 * fuel + 254 →
    lz4Ext (lz4ExtEnc fuel m ++ rest) acc = some (acc + m, rest) := by
  intro fuel
  induction fuel with
  | zero =>
    intro m acc rest h
    have : (UInt8.ofNat m).toNat = m := toNat_ofNat_lt (by omega)
    simp only [lz4ExtEnc, List.cons_append, List.nil_append, lz4Ext, this]
    rw [if_neg (by omega)]
  | succ fuel ih =>
    intro m acc rest h
    by_cases hm : m < 255
    · have : (UInt8.ofNat m).toNat = m := toNat_ofNat_lt (by omega)
      simp only [lz4ExtEnc, hm, ↓reduceIte, List.cons_append, List.nil_append, lz4Ext, this]
      rw [if_neg (by omega)]
    · simp only [lz4ExtEnc, hm, ↓reduceIte, List.cons_append, lz4Ext]
      rw [if_pos (by decide), ih (m - 255) (acc + 255) rest (by omega)]
      simp only [Option.some.injEq, Prod.mk.injEq, and_true]; omega

theorem lz4ReadLen_enc (n : Nat) (rest : List UInt8) :
    lz4ReadLen (lz4Nib n) (lz4LenExt n ++ rest) = some (n, rest) := by
  unfold lz4ReadLen lz4Nib lz4LenExt
  by_cases h : n < 15
  · simp only [h, ↓reduceIte, List.nil_append]; rw [if_neg (by omega)]
  · simp only [h, ↓reduceIte]
    rw [lz4Ext_enc n (n - 15) 15 rest (by omega)]
    simp only [Option.some.injEq, Prod.mk.injEq, and_true]; omega

theorem lz4Nib_le (n : Nat) : lz4Nib n ≤ 15 := by unfold lz4Nib; split <;> omega

/-- one sequence with a match -/
theorem lz4Seqs_matchSeq (lits : List UInt8) (b : UInt8) (ml : Nat) (S : List UInt8)
    (out : Array UInt8) (fuel : Nat) :
    lz4Seqs (fuel + 1) (lz4MatchSeq (lits ++ [b]) ml ++ S) out =
      lz4Seqs fuel S (out ++ lits ++ Array.replicate (ml + 5) b) := by
  have h1 := lz4Nib_le (lits ++ [b]).length
  have h2 := lz4Nib_le ml
  have htag : (UInt8.ofNat (lz4Nib (lits ++ [b]).length * 16 + lz4Nib ml)).toNat =
      lz4Nib (lits ++ [b]).length * 16 + lz4Nib ml := toNat_ofNat_lt (by omega)
  have hd : (lz4Nib (lits ++ [b]).length * 16 + lz4Nib ml) / 16 = lz4Nib (lits ++ [b]).length := by omega
  have hm : (lz4Nib (lits ++ [b]).length * 16 + lz4Nib ml) % 16 = lz4Nib ml := by omega
  simp only [lz4MatchSeq, List.cons_append, lz4Seqs, htag, hd, hm, List.append_assoc]
  rw [lz4ReadLen_enc]
  simp only []
  rw [if_neg (by simp)]
  have hsplit : lits ++ b :: ([] ++ 1 :: 0 :: (lz4LenExt ml ++ S)) =
      (lits ++ [b]) ++ (1 :: 0 :: (lz4LenExt ml ++ S)) := by simp
  have e1 : out ++ (lits ++ [b]) = (out ++ lits).push b := by
    apply Array.ext'; simp
  rw [hsplit, List.drop_left' rfl, List.take_left' rfl, e1]
  simp only []
  rw [lz4ReadLen_enc]
  simp only []
  have ho : (1 : UInt8).toNat + 256 * (0 : UInt8).toNat = 1 := by decide
  rw [ho, if_neg (by simp), copyBack_one]

theorem lz4Seqs_lastSeq (lits : List UInt8) (out : Array UInt8) (fuel : Nat) :
    lz4Seqs (fuel + 1) (lz4LastSeq lits) out = .ok (out ++ lits) := by
  have h1 := lz4Nib_le lits.length
  have htag : (UInt8.ofNat (lz4Nib lits.length * 16)).toNat = lz4Nib lits.length * 16 :=
    toNat_ofNat_lt (by omega)
  have hd : (lz4Nib lits.length * 16) / 16 = lz4Nib lits.length := by omega
  simp only [lz4LastSeq, lz4Seqs, htag, hd]
  have := lz4ReadLen_enc lits.length lits
  rw [this]
  simp

theorem lz4Seqs_runs : ∀ (rs : List (UInt8 × Nat)) (lits : List UInt8) (out : Array UInt8) (fuel : Nat),
    (lz4RunsEnc rs lits).length < fuel →
    lz4Seqs fuel (lz4RunsEnc rs lits) out = .ok (out ++ lits ++ expand rs) := by
  intro rs
  induction rs with
  | nil =>
    intro lits out fuel hf
    cases fuel with
    | zero => simp at hf
    | succ fuel => simp [lz4RunsEnc, lz4Seqs_lastSeq, expand]
  | cons p r ih =>
    intro lits out fuel hf
    obtain ⟨b, n⟩ := p
    simp only [lz4RunsEnc] at hf ⊢
    split
    · rename_i h5
      rw [if_pos h5] at hf
      cases fuel with
      | zero => simp at hf
      | succ fuel =>
        rw [lz4Seqs_matchSeq, ih [] _ fuel (by
          simp only [List.length_append, lz4MatchSeq, List.length_cons] at hf; omega)]
        congr 1
        apply Array.ext'
        simp only [Array.toList_append, Array.toList_replicate, List.append_assoc, expand,
          List.flatMap_cons, Array.toList_appendList, List.append_nil, List.nil_append]
        have : n - 5 + 5 = n := by omega
        rw [this]
    · rename_i h5
      rw [if_neg h5] at hf
      rw [ih _ out fuel hf]
      congr 1
      apply Array.ext'
      simp [expand, List.append_assoc]

theorem lz4RunsEnc_ne_nil : ∀ (rs : List (UInt8 × Nat)) (lits : List UInt8), lz4RunsEnc rs lits ≠ [] := by
  intro rs
  induction rs with
  | nil => intro lits; simp [lz4RunsEnc, lz4LastSeq]
  | cons p r ih =>
    intro lits
    obtain ⟨b, n⟩ := p
    simp only [lz4RunsEnc]
    split
    · simp [lz4MatchSeq]
    · exact ih _

theorem lz4Dec_encSimple (x : List UInt8) : lz4Dec (lz4EncSimple x) = .ok x := by
  have hne : lz4EncSimple x ≠ [] := lz4RunsEnc_ne_nil _ _
  have h := lz4Seqs_runs (runs x) [] #[] ((lz4EncSimple x).length + 1) (by
    unfold lz4EncSimple; omega)
  unfold lz4Dec
  rw [if_neg hne]
  unfold lz4EncSimple at h ⊢
  rw [h]
  simp [expand_runs]

end PqModel.Spec.BlockCodecs
