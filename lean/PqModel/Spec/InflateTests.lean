import PqModel.Spec.Inflate

/-! Evaluation evidence for `PqModel/Spec/Inflate.lean` (kernel `decide`): what is TESTED, not
proved, about the Huffman / LZ77 paths of the spec inflate. -/
namespace PqModel.Spec.Inflate

/-! ## TESTED, not proved: the Huffman / LZ77 paths

RFC 1951 §3.2.2 assigns the codes explicitly (`bl_count`, `next_code`); `rfcCode` is that
assignment, `decodeSym` the walk used above. They are compared on finite tables by evaluation in
the kernel — evidence, not a theorem about all tables. -/

/-- §3.2.2 step 2: smallest code of each length 0..15 -/
def rfcNextCode (lens : List Nat) : Nat → Nat
  | 0 => 0
  | bits + 1 => 2 * (rfcNextCode lens bits + (if bits = 0 then 0 else countLen lens bits))

/-- §3.2.2 step 3: codes of one length are handed out in symbol order -/
def rfcCode (lens : List Nat) (s : Nat) : Nat :=
  rfcNextCode lens (lens.getD s 0) + countLen (lens.take s) (lens.getD s 0)

/-- a code as it is packed: most significant bit first -/
def msbBits (len code : Nat) : List Bool := (List.range len).map (fun i => code.testBit (len - 1 - i))

def walkAgrees (lens : List Nat) : Bool :=
  match mkHuff lens with
  | .error _ => false
  | .ok h => (List.range lens.length).all fun s =>
      lens.getD s 0 == 0 ||
        (match decodeSym h ⟨msbBits (lens.getD s 0) (rfcCode lens s), []⟩ with
         | .ok (s1, r) => s1 == s && r.size == 0
         | .error _ => false)

/-- the example of §3.2.2: lengths (3,3,3,3,3,2,4,4) give 010 011 100 101 110 00 1110 1111 -/
example : (List.range 8).map (rfcCode [3, 3, 3, 3, 3, 2, 4, 4]) = [2, 3, 4, 5, 6, 0, 14, 15] := by decide
example : walkAgrees [3, 3, 3, 3, 3, 2, 4, 4] = true := by decide +kernel
/-- the table of §3.2.6: 0 ↦ 00110000, 144 ↦ 110010000, 256 ↦ 0000000, 280 ↦ 11000000 -/
example : [0, 143, 144, 255, 256, 279, 280, 287].map (rfcCode fixedLitLens) =
    [0b00110000, 0b10111111, 0b110010000, 0b111111111, 0, 0b0010111, 0b11000000, 0b11000111] := by
  decide +kernel
/-- on the fixed literal/length and distance tables the walk decodes every RFC code to its symbol -/
theorem walkAgrees_fixedLit : walkAgrees fixedLitLens = true := by decide +kernel
theorem walkAgrees_fixedDist : walkAgrees fixedDistLens = true := by decide +kernel
/-- an incomplete code (one distance code of one bit, §3.2.7) and an over-subscribed one -/
example : walkAgrees [0, 1] = true := by decide +kernel
example : mkHuff [1, 1, 1] = .error .oversubscribed := by decide +kernel

/- streams written by Go's standard library (compress/flate, compress/gzip), not by the codec
   under test: a fixed-Huffman block with matches, one of them overlapping (distance 1, length
   45), followed by an empty stored block; a dynamic-Huffman block; a gzip member with FEXTRA,
   FNAME and FCOMMENT -/
example : inflate [202, 72, 205, 201, 201, 87, 192, 32, 117, 20, 18, 73, 2, 128, 0, 0, 0, 255, 255] =
    .ok ("hello hello hello hello, aaaaaaaaaaaaaaaaaaaaaaaaaaaaaaaaaaaaaaaaaaaaaa".toUTF8.toList) := by
  decide +kernel
example : inflate [4, 192, 65, 1, 0, 32, 16, 2, 176, 42, 86, 27, 71, 2, 250, 63, 156, 204, 169, 204,
    147, 57, 149, 249, 1, 0, 0, 255, 255] = .ok ("abracadabra abracadabra".toUTF8.toList) := by
  decide +kernel
example : gunzip [31, 139, 8, 28, 0, 0, 0, 0, 2, 255, 3, 0, 1, 2, 3, 110, 46, 116, 120, 116, 0, 99, 0,
    74, 76, 74, 134, 35, 64, 0, 0, 0, 255, 255, 52, 42, 110, 90, 12, 0, 0, 0] =
    .ok ("abcabcabcabc".toUTF8.toList) := by
  decide +kernel
/- and what must be refused: a flipped CRC byte, a wrong ISIZE, a reserved flag, a distance that
   reaches before the start of the output, block type 3, LEN/NLEN that do not match -/
example : gunzip [31, 139, 8, 0, 0, 0, 0, 0, 0, 255, 1, 2, 0, 253, 255, 104, 105, 173, 42, 147, 216, 2, 0, 0, 0]
    = .error .badCrc := by decide +kernel
example : gunzip [31, 139, 8, 0, 0, 0, 0, 0, 0, 255, 1, 2, 0, 253, 255, 104, 105, 172, 42, 147, 216, 3, 0, 0, 0]
    = .error .badSize := by decide +kernel
example : gunzip [31, 139, 8, 32, 0, 0, 0, 0, 0, 255, 1, 2, 0, 253, 255, 104, 105, 172, 42, 147, 216, 2, 0, 0, 0]
    = .error .badFlags := by decide +kernel
example : inflate [3, 2, 0] = .error .badDistance := by decide +kernel
example : inflate [7] = .error .badBlockType := by decide +kernel
example : inflate [1, 2, 0, 252, 255, 104, 105] = .error .badStoredLen := by decide +kernel

end PqModel.Spec.Inflate
