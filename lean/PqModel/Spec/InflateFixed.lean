import PqModel.Spec.Inflate
import PqModel.Spec.InflateTests

/-! SPEC side (C20): a reference ENCODER for fixed-Huffman blocks without matches — every byte as
the literal code that RFC 1951 §3.2.2/§3.2.6 assigns to it (`rfcCode fixedLitLens`), then the
end-of-block code, packed LSB-first — and the proof that `inflate` reads it back, for every input.
This moves the literal path of the Huffman decoder (bit order of codes, the canonical walk on the
288-symbol table, the symbol loop, the end-of-block test) from "tested" to "proved" for one encoder.
The 257 codes are checked by kernel evaluation once (`fixedCheck_ok`); everything else is by
induction over the input. -/
namespace PqModel.Spec.Inflate

/-! ## the reader as a list of pending bits -/

def byteBits8 (x : UInt8) : List Bool :=
  [bitAt x 0, bitAt x 1, bitAt x 2, bitAt x 3, bitAt x 4, bitAt x 5, bitAt x 6, bitAt x 7]

def BitReader.bits (r : BitReader) : List Bool := r.cur ++ r.rest.flatMap byteBits8

theorem readBit_bits {r : BitReader} {b : Bool} {bs : List Bool} (h : r.bits = b :: bs) :
    ∃ r1, readBit r = .ok (b, r1) ∧ r1.bits = bs := by
  obtain ⟨cur, rest⟩ := r
  cases cur with
  | cons c cur =>
    simp only [BitReader.bits, List.cons_append, List.cons.injEq] at h
    exact ⟨⟨cur, rest⟩, by simp [readBit, h.1], h.2⟩
  | nil =>
    cases rest with
    | nil => simp [BitReader.bits] at h
    | cons x rest =>
      simp only [BitReader.bits, List.nil_append, List.flatMap_cons, byteBits8, List.cons_append,
        List.cons.injEq] at h
      refine ⟨⟨[bitAt x 1, bitAt x 2, bitAt x 3, bitAt x 4, bitAt x 5, bitAt x 6, bitAt x 7], rest⟩, ?_, ?_⟩
      · simp [readBit, h.1]
      · simpa [BitReader.bits] using h.2

/-- value of bits read LSB-first -/
def lsbVal : List Bool → Nat
  | [] => 0
  | b :: bs => b.toNat + 2 * lsbVal bs

theorem readBits_bits : ∀ (bs : List Bool) {r : BitReader} {tail : List Bool}, r.bits = bs ++ tail →
    ∃ r1, readBits bs.length r = .ok (lsbVal bs, r1) ∧ r1.bits = tail := by
  intro bs
  induction bs with
  | nil => intro r tail h; exact ⟨r, rfl, by simpa using h⟩
  | cons b bs ih =>
    intro r tail h
    obtain ⟨r1, h1, hb1⟩ := readBit_bits (by simpa using h : r.bits = b :: (bs ++ tail))
    obtain ⟨r2, h2, hb2⟩ := ih hb1
    exact ⟨r2, by simp [readBits, h1, h2, lsbVal], hb2⟩

/-- the canonical walk on a plain list of bits -/
def walkBits (symbols : Array Nat) : List Nat → Nat → Nat → Nat → List Bool → Option (Nat × List Bool)
  | [], _, _, _, _ => none
  | _ :: _, _, _, _, [] => none
  | c :: cs, code, first, index, b :: bs =>
    let code := code + b.toNat
    if first ≤ code ∧ code < first + c then
      match symbols[index + (code - first)]? with
      | some s => some (s, bs)
      | none => none
    else walkBits symbols cs (2 * code) (2 * (first + c)) (index + c) bs

theorem walkBits_append (symbols : Array Nat) : ∀ (cs : List Nat) (code first index : Nat)
    (bits : List Bool) {s : Nat} {rem : List Bool} (tail : List Bool),
    walkBits symbols cs code first index bits = some (s, rem) →
    walkBits symbols cs code first index (bits ++ tail) = some (s, rem ++ tail) := by
  intro cs
  induction cs with
  | nil => intro code first index bits s rem tail h; simp [walkBits] at h
  | cons c cs ih =>
    intro code first index bits s rem tail h
    cases bits with
    | nil => simp [walkBits] at h
    | cons b bs =>
      simp only [walkBits, List.cons_append] at h ⊢
      split at h
      · rename_i hc
        rw [if_pos hc]
        split at h
        · simp only [Option.some.injEq, Prod.mk.injEq] at h ⊢
          exact ⟨h.1, by rw [h.2]⟩
        · cases h
      · rename_i hc
        rw [if_neg hc]
        exact ih _ _ _ _ _ h

theorem decodeSymAux_walk (symbols : Array Nat) : ∀ (cs : List Nat) (code first index : Nat)
    {r : BitReader} {s : Nat} {rem : List Bool},
    walkBits symbols cs code first index r.bits = some (s, rem) →
    ∃ r1, decodeSymAux symbols cs code first index r = .ok (s, r1) ∧ r1.bits = rem := by
  intro cs
  induction cs with
  | nil => intro code first index r s rem h; simp [walkBits] at h
  | cons c cs ih =>
    intro code first index r s rem h
    cases hb : r.bits with
    | nil => rw [hb] at h; simp [walkBits] at h
    | cons b bs =>
      rw [hb] at h
      obtain ⟨r1, h1, hb1⟩ := readBit_bits hb
      simp only [walkBits] at h
      simp only [decodeSymAux, h1]
      split at h
      · rename_i hc
        rw [if_pos hc]
        split at h
        · rename_i hs; rw [hs]
          simp only [Option.some.injEq, Prod.mk.injEq] at h
          exact ⟨r1, by rw [h.1], by rw [hb1, h.2]⟩
        · cases h
      · rename_i hc
        rw [if_neg hc]
        rw [← hb1] at h
        exact ih _ _ _ h

/-! ## the encoder -/

/-- the code of literal/length symbol `s` in the fixed table, as it is packed (MSB first) -/
def fixedCode (s : Nat) : List Bool := msbBits (fixedLitLens.getD s 0) (rfcCode fixedLitLens s)

/-- eight bits, least significant first, as a byte -/
def packByte (g : List Bool) : UInt8 := UInt8.ofNat (lsbVal (g.take 8))

/-- pack bits into bytes LSB-first, the last byte padded with zero bits; fuel = number of bits -/
def pack : Nat → List Bool → List UInt8
  | 0, _ => []
  | _ + 1, [] => []
  | fuel + 1, b :: bs => packByte (b :: bs) :: pack fuel ((b :: bs).drop 8)

def fixedLiteralBits (bs : List UInt8) : List Bool :=
  [true, true, false] ++ (bs.flatMap (fun b => fixedCode b.toNat) ++ fixedCode 256)

/-- REFERENCE ENCODER: one final fixed-Huffman block, literals only -/
def fixedLiterals (bs : List UInt8) : List UInt8 :=
  pack (fixedLiteralBits bs).length (fixedLiteralBits bs)

def fixedCheck : Bool :=
  match mkHuff fixedLitLens, mkHuff fixedDistLens with
  | .ok lit, .ok _ =>
    (List.range 257).all fun s => walkBits lit.symbols lit.counts 0 0 0 (fixedCode s) == some (s, [])
  | _, _ => false

/-- kernel evaluation, once: the two fixed tables build, and the walk decodes the RFC code of each
of the symbols 0..256 to that symbol, consuming exactly its bits -/
theorem fixedCheck_ok : fixedCheck = true := by decide +kernel

theorem fixedTables : ∃ lit dist, mkHuff fixedLitLens = .ok lit ∧ mkHuff fixedDistLens = .ok dist ∧
    ∀ s, s < 257 → walkBits lit.symbols lit.counts 0 0 0 (fixedCode s) = some (s, []) := by
  have h := fixedCheck_ok
  unfold fixedCheck at h
  split at h
  · rename_i lit dist h1 h2
    refine ⟨lit, dist, h1, h2, ?_⟩
    intro s hs
    rw [List.all_eq_true] at h
    have := h s (List.mem_range.mpr hs)
    simpa using this
  · cases h

/-! ## packing -/

theorem byteBits8_ofBits : ∀ (b0 b1 b2 b3 b4 b5 b6 b7 : Bool),
    byteBits8 (UInt8.ofNat (lsbVal [b0, b1, b2, b3, b4, b5, b6, b7])) = [b0, b1, b2, b3, b4, b5, b6, b7] := by
  decide

theorem lsbVal_pad : ∀ (l : List Bool) (k : Nat), lsbVal (l ++ List.replicate k false) = lsbVal l := by
  intro l
  induction l with
  | nil =>
    intro k
    induction k with
    | zero => rfl
    | succ k ih => simp only [List.nil_append] at ih; simp [List.replicate_succ, lsbVal, ih]
  | cons b l ih => intro k; simp [lsbVal, ih]

theorem byteBits8_eight {l : List Bool} (h : l.length = 8) : byteBits8 (UInt8.ofNat (lsbVal l)) = l := by
  match l, h with
  | [b0, b1, b2, b3, b4, b5, b6, b7], _ => exact byteBits8_ofBits ..

theorem byteBits8_packByte (g : List Bool) :
    byteBits8 (packByte g) = g.take 8 ++ List.replicate (8 - (g.take 8).length) false := by
  unfold packByte
  rw [← lsbVal_pad (g.take 8) (8 - (g.take 8).length)]
  exact byteBits8_eight (by simp only [List.length_append, List.length_replicate, List.length_take]; omega)

theorem pack_bits : ∀ (fuel : Nat) (bits : List Bool), bits.length ≤ fuel →
    ∃ pad, (pack fuel bits).flatMap byteBits8 = bits ++ pad := by
  intro fuel
  induction fuel with
  | zero => intro bits h; exact ⟨[], by have : bits = [] := List.length_eq_zero_iff.mp (by omega); simp [this, pack]⟩
  | succ fuel ih =>
    intro bits h
    cases bits with
    | nil => exact ⟨[], by simp [pack]⟩
    | cons b bs =>
      obtain ⟨pad, hp⟩ := ih ((b :: bs).drop 8) (by simp only [List.length_drop, List.length_cons] at h ⊢; omega)
      refine ⟨List.replicate (8 - ((b :: bs).take 8).length) false ++ pad, ?_⟩
      simp only [pack, List.flatMap_cons, byteBits8_packByte, hp]
      by_cases hl : 8 ≤ (b :: bs).length
      · have : ((b :: bs).take 8).length = 8 := by simp only [List.length_take]; omega
        rw [this]
        simp only [Nat.sub_self, List.replicate_zero, List.append_nil, List.nil_append]
        rw [← List.append_assoc, List.take_append_drop]
      · have hd : (b :: bs).drop 8 = [] := List.drop_eq_nil_iff.mpr (by omega)
        have ht : (b :: bs).take 8 = b :: bs := List.take_of_length_le (by omega)
        rw [hd] at hp
        rw [hd, ht]
        simp [List.append_assoc]

/-! ## the symbol loop on literal codes -/

theorem bits_length (r : BitReader) : r.bits.length = r.size := by
  obtain ⟨cur, rest⟩ := r
  simp only [BitReader.bits, BitReader.size, List.length_append]
  congr 1
  induction rest with
  | nil => rfl
  | cons x rest ih => simp [List.flatMap_cons, byteBits8, ih]; omega

theorem codes_literals (lit dist : Huff)
    (hlit : ∀ s, s < 257 → walkBits lit.symbols lit.counts 0 0 0 (fixedCode s) = some (s, [])) :
    ∀ (bs : List UInt8) (fuel : Nat) (r : BitReader) (out : Array UInt8) (tail : List Bool),
    bs.length < fuel → r.bits = bs.flatMap (fun b => fixedCode b.toNat) ++ fixedCode 256 ++ tail →
    ∃ r1, codes lit dist fuel r out = .ok (r1, out ++ bs.toArray) ∧ r1.bits = tail := by
  intro bs
  induction bs with
  | nil =>
    intro fuel r out tail hf hb
    obtain ⟨f, rfl⟩ : ∃ f, fuel = f + 1 := ⟨fuel - 1, by simp only [List.length_nil] at hf; omega⟩
    simp only [List.flatMap_nil, List.nil_append] at hb
    have hw := walkBits_append lit.symbols lit.counts 0 0 0 _ tail (hlit 256 (by omega))
    rw [List.nil_append, ← hb] at hw
    obtain ⟨r1, h1, hb1⟩ := decodeSymAux_walk _ _ _ _ _ hw
    refine ⟨r1, ?_, hb1⟩
    rw [codes_succ]
    have : decodeSym lit r = .ok (256, r1) := h1
    simp [this]
  | cons b bs ih =>
    intro fuel r out tail hf hb
    obtain ⟨f, rfl⟩ : ∃ f, fuel = f + 1 := ⟨fuel - 1, by simp only [List.length_cons] at hf; omega⟩
    have hlt : b.toNat < 256 := b.toNat_lt
    simp only [List.flatMap_cons, List.append_assoc] at hb
    have hw := walkBits_append lit.symbols lit.counts 0 0 0 _
      (bs.flatMap (fun b => fixedCode b.toNat) ++ (fixedCode 256 ++ tail)) (hlit b.toNat (by omega))
    rw [List.nil_append, ← hb] at hw
    obtain ⟨r1, h1, hb1⟩ := decodeSymAux_walk _ _ _ _ _ hw
    have hd : decodeSym lit r = .ok (b.toNat, r1) := h1
    obtain ⟨r2, h2, hb2⟩ := ih f r1 (out.push b) tail (by simp only [List.length_cons] at hf; omega)
      (by rw [hb1]; simp only [List.append_assoc])
    refine ⟨r2, ?_, hb2⟩
    rw [codes_succ]
    simp only [hd, hlt, ↓reduceIte, UInt8.ofNat_toNat, h2]
    simp

/-- **Fixed-Huffman literals**: `inflate` reads back the block that codes every byte with the
literal code RFC 1951 assigns to it, for every byte string. -/
theorem inflate_fixedLiterals (bs : List UInt8) : inflate (fixedLiterals bs) = .ok bs := by
  obtain ⟨lit, dist, hl, hd, hcodes⟩ := fixedTables
  obtain ⟨pad, hp⟩ := pack_bits (fixedLiteralBits bs).length (fixedLiteralBits bs) (Nat.le_refl _)
  have hb0 : (⟨[], fixedLiterals bs⟩ : BitReader).bits =
      true :: ([true, false] ++ (bs.flatMap (fun b => fixedCode b.toNat) ++ fixedCode 256 ++ pad)) := by
    show ([] : List Bool) ++ (fixedLiterals bs).flatMap byteBits8 = _
    unfold fixedLiterals
    rw [hp]
    simp [fixedLiteralBits]
  obtain ⟨r1, h1, hb1⟩ := readBit_bits hb0
  obtain ⟨r2, h2, hb2⟩ := readBits_bits [true, false] hb1
  have hsz : bs.length < r2.size + 1 := by
    have := bits_length r2
    rw [hb2] at this
    simp only [List.length_append, List.length_flatMap] at this
    have hge : bs.length ≤ (bs.map (fun b => (fixedCode b.toNat).length)).sum := by
      clear this hb2 h2 hb1 h1 hb0 hp
      induction bs with
      | nil => simp
      | cons b bs ih =>
        have : 1 ≤ (fixedCode b.toNat).length := by
          have hlt : b.toNat < 256 := b.toNat_lt
          have := hcodes b.toNat (by omega)
          cases hc : fixedCode b.toNat with
          | nil => rw [hc] at this; cases hcs : lit.counts <;> simp [walkBits, hcs] at this
          | cons _ _ => simp
        simp only [List.map_cons, List.sum_cons, List.length_cons]; omega
    omega
  obtain ⟨r3, h3, _⟩ := codes_literals lit dist hcodes bs (r2.size + 1) r2 #[] pad hsz hb2
  have hblock : block 1 r2 #[] = .ok (r3, #[] ++ bs.toArray) := by
    simp only [block, hl, hd]
    simpa using h3
  have h2' : readBits 2 r1 = .ok (1, r2) := by simpa [lsbVal] using h2
  have hfuel : 8 * (fixedLiterals bs).length + 1 = (8 * (fixedLiterals bs).length) + 1 := rfl
  unfold inflate inflateRaw
  rw [hfuel]
  simp only [blocks, h1, h2', hblock, ↓reduceIte]
  simp

example : fixedLiterals [104, 105] = [203, 200, 4, 0] := by decide +kernel
example : inflate [203, 200, 4, 0] = .ok [104, 105] := inflate_fixedLiterals [104, 105]

end PqModel.Spec.Inflate
