/-! Spec side: a generic reader of the Thrift *compact protocol* into an untyped tree, written
    from the protocol description only (no knowledge of the Go thrift package). Fuel-based
    (structural) recursion: the fuel bounds nesting depth × element count and is taken from the
    input length by the callers. -/
namespace PqModel.Spec

inductive TVal where
  | bool (b : Bool)
  | int (i : Int)            -- byte, i16, i32, i64 (zigzag decoded)
  | double (bits : UInt64)
  | bin (b : ByteArray)
  | list (xs : List TVal)
  | struct (fields : List (Nat × TVal))
deriving Inhabited

abbrev R (α : Type) := Except String (α × Nat)

def rdByte (d : ByteArray) (pos : Nat) : R UInt8 :=
  if h : pos < d.size then .ok (d[pos], pos + 1) else .error "eof"

def rdUvarint (d : ByteArray) : Nat → Nat → Nat → Nat → R Nat
  | 0, _, _, _ => .error "varint too long"
  | fuel + 1, pos, shift, acc =>
    match rdByte d pos with
    | .error e => .error e
    | .ok (b, pos) =>
      let acc := acc + ((b.toNat % 128) <<< shift)
      if b.toNat < 128 then .ok (acc, pos) else rdUvarint d fuel pos (shift + 7) acc

def uvarint (d : ByteArray) (pos : Nat) : R Nat := rdUvarint d 10 pos 0 0

def zigzag (n : Nat) : Int := if n % 2 == 0 then Int.ofNat (n / 2) else -(Int.ofNat ((n + 1) / 2))

def rdBytes (d : ByteArray) (pos n : Nat) : R ByteArray :=
  if pos + n ≤ d.size then .ok (d.extract pos (pos + n), pos + n) else .error "eof in binary"

def le (d : ByteArray) (off n : Nat) : Nat :=
  (List.range n).foldl (fun acc i => acc + ((d.get! (off + i)).toNat <<< (8 * i))) 0

mutual
def rdVal (d : ByteArray) : Nat → Nat → Nat → R TVal
  | 0, _, _ => .error "nesting too deep"
  | fuel + 1, ty, pos =>
    match ty with
    | 1 => .ok (.bool true, pos)
    | 2 => .ok (.bool false, pos)
    | 3 => match rdByte d pos with
      | .ok (b, pos) => .ok (.int (if b.toNat < 128 then b.toNat else (b.toNat : Int) - 256), pos)
      | .error e => .error e
    | 4 | 5 | 6 => match uvarint d pos with
      | .ok (n, pos) => .ok (.int (zigzag n), pos)
      | .error e => .error e
    | 7 => match rdBytes d pos 8 with
      | .ok (b, pos) => .ok (.double (UInt64.ofNat (le b 0 8)), pos)
      | .error e => .error e
    | 8 => match uvarint d pos with
      | .ok (n, pos) => match rdBytes d pos n with
        | .ok (b, pos) => .ok (.bin b, pos)
        | .error e => .error e
      | .error e => .error e
    | 9 | 10 => match rdByte d pos with
      | .error e => .error e
      | .ok (h, pos) =>
        let ety := h.toNat % 16
        let n := h.toNat / 16
        if n == 15 then
          match uvarint d pos with
          | .ok (n, pos) => if n > d.size then .error "list longer than input" else rdElems d fuel ety n pos []
          | .error e => .error e
        else rdElems d fuel ety n pos []
    | 12 => rdFields d fuel d.size pos 0 []
    | t => .error s!"unsupported thrift type {t}"
def rdElems (d : ByteArray) : Nat → Nat → Nat → Nat → List TVal → R TVal
  | 0, _, _, _, _ => .error "nesting too deep"
  | _ + 1, _, 0, pos, acc => .ok (.list acc.reverse, pos)
  | fuel + 1, ety, n + 1, pos, acc =>
    if ety == 1 || ety == 2 then
      match rdByte d pos with
      | .ok (b, pos) => rdElems d (fuel + 1 - 1) ety n pos (.bool (b == 1) :: acc)
      | .error e => .error e
    else
      match rdVal d fuel ety pos with
      | .ok (v, pos) => rdElems d (fuel + 1 - 1) ety n pos (v :: acc)
      | .error e => .error e
def rdFields (d : ByteArray) : Nat → Nat → Nat → Int → List (Nat × TVal) → R TVal
  | 0, _, _, _, _ => .error "nesting too deep"
  | _, 0, _, _, _ => .error "too many fields"
  | fuel + 1, k + 1, pos, last, acc =>
    match rdByte d pos with
    | .error e => .error e
    | .ok (h, pos) =>
      if h == 0 then .ok (.struct acc.reverse, pos) else
      let ty := h.toNat % 16
      let delta := h.toNat / 16
      let idr : R Int := if delta == 0 then
          match uvarint d pos with
          | .ok (n, pos) => .ok (zigzag n, pos)
          | .error e => .error e
        else .ok (last + delta, pos)
      match idr with
      | .error e => .error e
      | .ok (id, pos) =>
        match rdVal d fuel ty pos with
        | .ok (v, pos) => rdFields d (fuel + 1 - 1) k pos id ((id.toNat, v) :: acc)
        | .error e => .error e
end

/-- read one struct starting at `pos`. Every list element and struct field consumes one unit of
    fuel and at least one input byte, so `2 * size + 64` never runs out on well-formed input. -/
def readStruct (d : ByteArray) (pos : Nat) : R TVal := rdFields d (2 * d.size + 64) d.size pos 0 []

def TVal.field? (v : TVal) (id : Nat) : Option TVal :=
  match v with
  | .struct fs => (fs.find? (·.1 == id)).map (·.2)
  | _ => none

def TVal.int? : Option TVal → Option Int
  | some (.int i) => some i
  | _ => none
def TVal.nat (v : Option TVal) : Nat := (TVal.int? v).getD 0 |>.toNat
def TVal.intD (v : Option TVal) : Int := (TVal.int? v).getD 0
def TVal.listD : Option TVal → List TVal
  | some (.list xs) => xs
  | _ => []
def TVal.str : Option TVal → String
  | some (.bin b) => (String.fromUTF8? b).getD "?"
  | _ => ""
def TVal.bytes : Option TVal → ByteArray
  | some (.bin b) => b
  | _ => ByteArray.empty
def TVal.isSome : Option TVal → Bool
  | some _ => true
  | none => false

end PqModel.Spec
