/-! # PLAIN, BYTE_STREAM_SPLIT and dictionaries (property C04, part "plain")

Two kinds of definitions live here and are kept apart:

* **SPEC** — decoders written from the Parquet format documents only (Encodings.md, sections
  "Plain" and "Byte Stream Split"); they never look at the Go code.
* **MIRROR** — transliterations of the Go encoders (and of one Go decoder) as they are, with the
  Go `file:line` range.

Values are bit patterns: `Nat` below `2^(8k)` for the fixed width types (int32/int64/float/double/
int96 — floats are their IEEE bit pattern, nothing is ever interpreted as a number), `Bool`,
and `List UInt8` for BYTE_ARRAY / FIXED_LEN_BYTE_ARRAY. -/
namespace PqModel.Plain

abbrev Bytes := List UInt8

/-! ## Little endian (shared by SPEC and MIRROR: the definition of "little endian") -/

/-- the `n` low-order bytes of `x`, least significant first -/
def leBytes : Nat → Nat → Bytes
  | 0, _ => []
  | n + 1, x => UInt8.ofNat (x % 256) :: leBytes n (x / 256)

/-- the number whose little-endian digits (base 256) are `bs` -/
def leVal : Bytes → Nat
  | [] => 0
  | b :: bs => b.toNat + 256 * leVal bs

theorem leBytes_length : ∀ n x, (leBytes n x).length = n
  | 0, _ => rfl
  | n + 1, x => by simp [leBytes, leBytes_length n]

theorem leVal_lt : ∀ bs : Bytes, leVal bs < 2 ^ (8 * bs.length)
  | [] => by simp [leVal]
  | b :: bs => by
    have ih := leVal_lt bs
    have hb : b.toNat < 256 := b.toNat_lt
    have e : 2 ^ (8 * (bs.length + 1)) = 256 * 2 ^ (8 * bs.length) := by
      rw [Nat.mul_add, Nat.pow_add]; simp [Nat.mul_comm]
    simp only [leVal, List.length_cons, e]
    omega

theorem leVal_leBytes : ∀ (n x : Nat), x < 2 ^ (8 * n) → leVal (leBytes n x) = x
  | 0, x, h => by simp at h; simp [leBytes, leVal, h]
  | n + 1, x, h => by
    have e : 2 ^ (8 * (n + 1)) = 256 * 2 ^ (8 * n) := by
      rw [Nat.mul_add, Nat.pow_add]; simp [Nat.mul_comm]
    have h2 : x / 256 < 2 ^ (8 * n) := by
      rw [e] at h; exact Nat.div_lt_of_lt_mul h
    have hm : (UInt8.ofNat (x % 256)).toNat = x % 256 := by
      simp [UInt8.toNat_ofNat']
    simp only [leBytes, leVal, leVal_leBytes n (x / 256) h2, hm]
    omega

theorem leBytes_leVal : ∀ bs : Bytes, leBytes bs.length (leVal bs) = bs
  | [] => rfl
  | b :: bs => by
    have hb : b.toNat < 256 := b.toNat_lt
    have h1 : (b.toNat + 256 * leVal bs) % 256 = b.toNat := by omega
    have h2 : (b.toNat + 256 * leVal bs) / 256 = leVal bs := by omega
    simp only [leVal, List.length_cons, leBytes, h1, h2, leBytes_leVal bs]
    simp

/-! ## Fixed width values: INT32, INT64, INT96, FLOAT, DOUBLE, FIXED_LEN_BYTE_ARRAY -/

/-- cut `n` consecutive chunks of `k` bytes -/
def chunks (k : Nat) : Nat → Bytes → List Bytes
  | 0, _ => []
  | n + 1, bs => bs.take k :: chunks k n (bs.drop k)

/-- SPEC (Encodings.md, PLAIN, FIXED_LEN_BYTE_ARRAY: "the bytes of each value back to back"; the
    number of values is the number of whole `k`-byte groups; a partial group is malformed). -/
def specDecFixedBytes (k : Nat) (bs : Bytes) : Option (List Bytes) :=
  if k = 0 then none
  else if bs.length % k ≠ 0 then none
  else some (chunks k (bs.length / k) bs)

/-- SPEC (Encodings.md, PLAIN: INT32 "4 bytes little endian", INT64 "8 bytes little endian",
    INT96 "12 bytes little endian", FLOAT/DOUBLE "IEEE little endian"): `k` = 4, 8, 12. -/
def specDecFixed (k : Nat) (bs : Bytes) : Option (List Nat) :=
  (specDecFixedBytes k bs).map (·.map leVal)

/-- MIRROR of `plain.Encoding.EncodeInt32/Int64/Float/Double` (encoding/plain/plain_le.go:10-24)
    and `EncodeInt96` (plain.go:40-42): `append(dst[:0], unsafecast.Slice[byte](src)...)`, i.e. the
    in-memory bytes of every element on a little-endian machine, back to back. Values are the bit
    patterns of the elements (`k` bytes each). -/
def encFixed (k : Nat) (xs : List Nat) : Bytes := (xs.map (leBytes k)).flatten

/-- MIRROR of `plain.Encoding.EncodeFixedLenByteArray` (plain.go:59-64): a copy of the
    concatenated values. -/
def encFLBA (vs : List Bytes) : Bytes := vs.flatten

theorem chunks_flatten (k : Nat) : ∀ (vs : List Bytes) (rest : Bytes), (∀ v ∈ vs, v.length = k) →
    chunks k vs.length (vs.flatten ++ rest) = vs
  | [], _, _ => rfl
  | v :: vs, rest, h => by
    have hv : v.length = k := h v (by simp)
    have ih := chunks_flatten k vs rest (fun w hw => h w (by simp [hw]))
    simp only [List.flatten_cons, List.length_cons, chunks, List.append_assoc]
    rw [List.take_left' hv, List.drop_left' hv, ih]

theorem flatten_length_const (k : Nat) : ∀ (vs : List Bytes), (∀ v ∈ vs, v.length = k) →
    vs.flatten.length = k * vs.length
  | [], _ => by simp
  | v :: vs, h => by
    have hv : v.length = k := h v (by simp)
    have ih := flatten_length_const k vs (fun w hw => h w (by simp [hw]))
    simp only [List.flatten_cons, List.length_append, List.length_cons, hv, ih, Nat.mul_add]
    omega

theorem specDecFixedBytes_flatten (k : Nat) (hk : 0 < k) (vs : List Bytes)
    (h : ∀ v ∈ vs, v.length = k) : specDecFixedBytes k vs.flatten = some vs := by
  have hl := flatten_length_const k vs h
  have hm : vs.flatten.length % k = 0 := by rw [hl]; exact Nat.mul_mod_right k _
  have hd : vs.flatten.length / k = vs.length := by rw [hl]; exact Nat.mul_div_cancel_left _ hk
  have := chunks_flatten k vs [] h
  simp only [List.append_nil] at this
  unfold specDecFixedBytes
  split
  · omega
  · split
    · omega
    · rw [hd, this]

theorem specDecFixed_encFixed (k : Nat) (hk : 0 < k) (xs : List Nat) (h : ∀ x ∈ xs, x < 2 ^ (8 * k)) :
    specDecFixed k (encFixed k xs) = some xs := by
  unfold specDecFixed encFixed
  rw [specDecFixedBytes_flatten k hk]
  · simp only [Option.map_some, List.map_map]
    congr 1
    have : ∀ x ∈ xs, (leVal ∘ leBytes k) x = id x := fun x hx => leVal_leBytes k x (h x hx)
    rw [List.map_congr_left this, List.map_id]
  · intro v hv
    simp only [List.mem_map] at hv
    obtain ⟨x, _, rfl⟩ := hv
    exact leBytes_length k x

/-- MIRROR, typed view: elements are `8k`-bit patterns (`BitVec`), k = 4 INT32/FLOAT, 8 INT64/DOUBLE,
    12 INT96. -/
def encFixedBV (k : Nat) (xs : List (BitVec (8 * k))) : Bytes := encFixed k (xs.map BitVec.toNat)

/-- SPEC, typed view -/
def specDecFixedBV (k : Nat) (bs : Bytes) : Option (List (BitVec (8 * k))) :=
  (specDecFixed k bs).map (·.map (BitVec.ofNat (8 * k)))

theorem specDecFixedBV_encFixedBV (k : Nat) (hk : 0 < k) (xs : List (BitVec (8 * k))) :
    specDecFixedBV k (encFixedBV k xs) = some xs := by
  unfold specDecFixedBV encFixedBV
  rw [specDecFixed_encFixed k hk]
  · simp only [Option.map_some, List.map_map]
    congr 1
    have : ∀ x ∈ xs, (BitVec.ofNat (8 * k) ∘ BitVec.toNat) x = id x := fun x _ => by simp
    rw [List.map_congr_left this, List.map_id]
  · intro x hx
    simp only [List.mem_map] at hx
    obtain ⟨v, _, rfl⟩ := hx
    exact v.isLt

/-! ## BOOLEAN -/

/-- bit `i` of a bit-packed byte string, least significant bit of each byte first -/
def bitAt (bs : Bytes) (i : Nat) : Bool := (bs.getD (i / 8) 0).toNat.testBit (i % 8)

/-- SPEC (Encodings.md, PLAIN, BOOLEAN: "bit packed, LSB first"): value `i` is bit `i % 8` of byte
    `i / 8`. The number of values comes from the page header; the unused high bits of the last byte
    carry no information. -/
def specDecBool (n : Nat) (bs : Bytes) : Option (List Bool) :=
  if bs.length * 8 < n then none else some ((List.range n).map (bitAt bs))

def setBit (x : UInt8) (k : Nat) (v : Bool) : UInt8 :=
  (x &&& ~~~((1 : UInt8) <<< UInt8.ofNat k)) ||| ((if v then 1 else 0) <<< UInt8.ofNat k)

/-- MIRROR of `plain.AppendBoolean(b, n, v)` (encoding/plain/plain.go:128-148). The Go code
    re-slices `b` to `n/8+1` bytes when the capacity allows (exposing whatever the capacity region
    holds) and otherwise allocates a zeroed buffer; `stale` is that environment: `stale[j]` is the
    content of byte `j` of the capacity region (zero beyond it, which is what `make` gives). Only
    bit `n%8` of byte `n/8` is then written: `b[i] = (b[i] & ^(1<<k)) | (x<<k)`. -/
def appendBoolean (stale : Bytes) (b : Bytes) (n : Nat) (v : Bool) : Bytes :=
  let i := n / 8
  let b' := (List.range (i + 1)).map (fun j => if j < b.length then b.getD j 0 else stale.getD j 0)
  b'.set i (setBit (b'.getD i 0) (n % 8) v)

/-- MIRROR of the way the library packs a sequence: `AppendBoolean(b, n, v)` for n = 0, 1, 2, … -/
def encBoolsFrom (stale : Bytes) : Bytes → Nat → List Bool → Bytes
  | b, _, [] => b
  | b, n, v :: vs => encBoolsFrom stale (appendBoolean stale b n v) (n + 1) vs

def encBools (stale : Bytes) (vs : List Bool) : Bytes := encBoolsFrom stale [] 0 vs

theorem setBit_table : ∀ n, n < 256 → ∀ k, k < 8 → ∀ v : Bool, ∀ j, j < 8 →
    (setBit (UInt8.ofNat n) k v).toNat.testBit j =
      (if j = k then v else (UInt8.ofNat n).toNat.testBit j) := by
  decide +kernel

theorem setBit_testBit (x : UInt8) (k : Nat) (v : Bool) (j : Nat) (hk : k < 8) (hj : j < 8) :
    (setBit x k v).toNat.testBit j = (if j = k then v else x.toNat.testBit j) := by
  have := setBit_table x.toNat x.toNat_lt k hk v j hj
  simpa using this

theorem appendBoolean_length (stale b : Bytes) (n : Nat) (v : Bool) :
    (appendBoolean stale b n v).length = n / 8 + 1 := by
  simp [appendBoolean]

/-- the new bit is `v` -/
theorem appendBoolean_new (stale b : Bytes) (n : Nat) (v : Bool) :
    bitAt (appendBoolean stale b n v) n = v := by
  have h8 : n % 8 < 8 := Nat.mod_lt _ (by omega)
  simp only [bitAt, appendBoolean]
  rw [List.getD_eq_getElem?_getD, List.getElem?_set_self (by simp)]
  simp [setBit_testBit _ _ _ _ h8 h8]

/-- the bits already present are kept (the buffer holds exactly the bytes of `n` bits) -/
theorem appendBoolean_old (stale b : Bytes) (n : Nat) (v : Bool) (hb : b.length = (n + 7) / 8)
    (j : Nat) (hj : j < n) : bitAt (appendBoolean stale b n v) j = bitAt b j := by
  have h8 : n % 8 < 8 := Nat.mod_lt _ (by omega)
  have j8 : j % 8 < 8 := Nat.mod_lt _ (by omega)
  simp only [bitAt, appendBoolean]
  by_cases hji : j / 8 = n / 8
  · -- same byte as the new bit: that byte already existed, another bit of it is written
    have hne : j % 8 ≠ n % 8 := by omega
    have hlt : n / 8 < b.length := by omega
    rw [hji, List.getD_eq_getElem?_getD, List.getElem?_set_self (by simp)]
    simp only [Option.getD_some, setBit_testBit _ _ _ _ h8 j8, hne, if_false]
    simp [List.getD_eq_getElem?_getD, hlt]
  · have hlt : j / 8 < b.length := by omega
    have hlt' : j / 8 < n / 8 + 1 := by omega
    rw [List.getD_eq_getElem?_getD, List.getElem?_set_ne (by omega)]
    simp [List.getD_eq_getElem?_getD, hlt, hlt']

theorem encBoolsFrom_spec (stale : Bytes) : ∀ (vs : List Bool) (b : Bytes) (n : Nat),
    b.length = (n + 7) / 8 →
    (encBoolsFrom stale b n vs).length = (n + vs.length + 7) / 8 ∧
    (∀ j, j < n → bitAt (encBoolsFrom stale b n vs) j = bitAt b j) ∧
    (∀ j, (hj : j < vs.length) → bitAt (encBoolsFrom stale b n vs) (n + j) = vs[j])
  | [], b, n, hb => by simp [encBoolsFrom, hb]
  | v :: vs, b, n, hb => by
    have hb' : (appendBoolean stale b n v).length = (n + 1 + 7) / 8 := by
      rw [appendBoolean_length]; omega
    obtain ⟨h1, h2, h3⟩ := encBoolsFrom_spec stale vs (appendBoolean stale b n v) (n + 1) hb'
    simp only [encBoolsFrom, List.length_cons]
    refine ⟨by rw [h1]; congr 1; omega, ?_, ?_⟩
    · intro j hj
      rw [h2 j (by omega), appendBoolean_old stale b n v hb j hj]
    · intro j hj
      cases j with
      | zero => simp only [Nat.add_zero, List.getElem_cons_zero]; rw [h2 n (by omega), appendBoolean_new]
      | succ j =>
        have := h3 j (by simpa using hj)
        simp only [List.getElem_cons_succ]
        rw [← this]; congr 1; omega

/-! ## BYTE_ARRAY -/

/-- SPEC (Encodings.md, PLAIN, BYTE_ARRAY: "length in 4 bytes little endian followed by the bytes
    contained in the array"). Recursion on fuel (the input length suffices: every value consumes at
    least its 4 length bytes). A length prefix cut short, or a length larger than what is left, is
    malformed. -/
def specDecByteArrayFuel : Nat → Bytes → Option (List Bytes)
  | 0, bs => if bs.isEmpty then some [] else none
  | f + 1, bs =>
    if bs.isEmpty then some []
    else if bs.length < 4 then none
    else
      let n := leVal (bs.take 4)
      let r := bs.drop 4
      if r.length < n then none
      else (specDecByteArrayFuel f (r.drop n)).map (r.take n :: ·)

def specDecByteArray (bs : Bytes) : Option (List Bytes) := specDecByteArrayFuel bs.length bs

/-- MIRROR of `plain.Encoding.EncodeByteArray` (plain.go:44-57) with `AppendByteArray`
    (plain.go:183-189) and `PutByteArrayLength` (plain.go:212-214): for each value the length as
    `uint32` (so modulo 2^32) little endian, then the bytes. -/
def encByteArray (vs : List Bytes) : Bytes := (vs.map (fun v => leBytes 4 v.length ++ v)).flatten

theorem specDecByteArrayFuel_enc : ∀ (vs : List Bytes) (f : Nat), (∀ v ∈ vs, v.length < 2 ^ 32) →
    (encByteArray vs).length ≤ f → specDecByteArrayFuel f (encByteArray vs) = some vs
  | [], f, _, _ => by cases f <;> simp [encByteArray, specDecByteArrayFuel]
  | v :: vs, 0, _, hf => by
    simp [encByteArray, leBytes_length] at hf
  | v :: vs, f + 1, h, hf => by
    have hv : v.length < 2 ^ (8 * 4) := h v (by simp)
    have e : encByteArray (v :: vs) = leBytes 4 v.length ++ (v ++ encByteArray vs) := by
      simp [encByteArray]
    have hl4 : (leBytes 4 v.length).length = 4 := leBytes_length 4 _
    have hlen : (encByteArray (v :: vs)).length = 4 + (v.length + (encByteArray vs).length) := by
      rw [e]; simp [hl4]
    have ih := specDecByteArrayFuel_enc vs f (fun w hw => h w (by simp [hw])) (by omega)
    rw [specDecByteArrayFuel]
    have hne : (encByteArray (v :: vs)).isEmpty = false := by
      cases hh : encByteArray (v :: vs) with
      | nil => exfalso; rw [hh] at hlen; simp only [List.length_nil] at hlen; omega
      | cons _ _ => rfl
    simp only [hne, Bool.false_eq_true, if_false]
    split
    · omega
    · rw [e, List.take_left' hl4, List.drop_left' hl4, leVal_leBytes 4 _ hv]
      split
      · rename_i hh; simp at hh; omega
      · rw [List.take_left' rfl, List.drop_left' rfl, ih]; rfl

theorem specDecByteArrayFuel_mono : ∀ (f g : Nat) (bs : Bytes), bs.length ≤ f → bs.length ≤ g →
    specDecByteArrayFuel f bs = specDecByteArrayFuel g bs
  | 0, g, bs, hf, _ => by
    have : bs = [] := List.eq_nil_of_length_eq_zero (by omega)
    subst this; cases g <;> simp [specDecByteArrayFuel]
  | f + 1, 0, bs, _, hg => by
    have : bs = [] := List.eq_nil_of_length_eq_zero (by omega)
    subst this; simp [specDecByteArrayFuel]
  | f + 1, g + 1, bs, hf, hg => by
    simp only [specDecByteArrayFuel]
    split
    · rfl
    · split
      · rfl
      · split
        · rfl
        · rw [specDecByteArrayFuel_mono f g _ (by simp; omega) (by simp; omega)]

/-- outcome of a Go function: a result, an error, or a run-time panic -/
inductive GoRes (α : Type) where
  | ok (a : α) | err | panic
  deriving DecidableEq, Repr

/-- MIRROR of `plain.Encoding.DecodeByteArray` (plain.go:77-94), the loop over `i`, for a source
    slice whose capacity equals its length (a tight slice, as `io.ReadFull` into an exact buffer
    gives). Note the bound test of the Go code, `n > len(src) - 4`: it compares with the whole
    input, not with what is left after position `i`, so `src[i:i+n]` can run past the end. With
    capacity = length that is a slice-bounds panic (with a larger capacity it silently reads stale
    bytes past the end instead). Fuel `len(src)+1` suffices: `i` grows by at least 4 per turn. -/
def goDecByteArrayLoop (src : Bytes) : Nat → Nat → List Bytes → GoRes (List Bytes)
  | 0, _, _ => .err
  | f + 1, i, acc =>
    if i < src.length then
      if src.length - i < 4 then .err
      else
        let n := leVal ((src.drop i).take 4)
        if n > src.length - 4 then .err
        else if i + 4 + n > src.length then .panic
        else goDecByteArrayLoop src f (i + 4 + n) (((src.drop (i + 4)).take n) :: acc)
    else .ok acc.reverse

def goDecByteArray (src : Bytes) : GoRes (List Bytes) := goDecByteArrayLoop src (src.length + 1) 0 []

/-- Whenever the Go decoder returns values they are the values the SPEC decoder returns
    (the Go decoder never returns wrong data from a tight buffer; it may panic, see C04Plain). -/
theorem goDecByteArrayLoop_sound (src : Bytes) : ∀ (f i : Nat) (acc vs : List Bytes),
    i ≤ src.length → src.length - i < f →
    goDecByteArrayLoop src f i acc = .ok vs →
    ∃ tl, specDecByteArrayFuel (src.length - i) (src.drop i) = some tl ∧ vs = acc.reverse ++ tl
  | 0, _, _, _, _, hf, _ => by omega
  | f + 1, i, acc, vs, hi, hf, h => by
    rw [goDecByteArrayLoop] at h
    split at h
    · rename_i hlt
      split at h
      · cases h
      · rename_i h4
        simp only at h
        split at h
        · cases h
        · split at h
          · cases h
          · rename_i hbig hpan
            have hle : i + 4 + leVal ((src.drop i).take 4) ≤ src.length := by omega
            obtain ⟨tl, htl, hvs⟩ := goDecByteArrayLoop_sound src f _ _ vs hle (by omega) h
            obtain ⟨m, hm⟩ : ∃ m, src.length - i = m + 1 := ⟨src.length - i - 1, by omega⟩
            refine ⟨(src.drop (i + 4)).take (leVal ((src.drop i).take 4)) :: tl, ?_, ?_⟩
            · rw [hm, specDecByteArrayFuel]
              have hne : (src.drop i).isEmpty = false := by
                cases hh : src.drop i with
                | nil => have := congrArg List.length hh; simp at this; omega
                | cons _ _ => rfl
              simp only [hne, Bool.false_eq_true, if_false, List.length_drop, List.drop_drop]
              split
              · omega
              · split
                · omega
                · rw [specDecByteArrayFuel_mono m (src.length - (i + 4 + leVal ((src.drop i).take 4))) _
                        (by simp; omega) (by simp), htl]
                  rfl
            · rw [hvs]; simp
    · cases h
      refine ⟨[], ?_, by simp⟩
      have : src.drop i = [] := by apply List.drop_eq_nil_of_le; omega
      rw [this]; cases (src.length - i) <;> simp [specDecByteArrayFuel]

/-- the Go decoder on what the Go encoder wrote -/
theorem goDecByteArrayLoop_enc : ∀ (vs : List Bytes) (pre : Bytes) (acc : List Bytes) (f : Nat),
    (∀ v ∈ vs, v.length < 2 ^ 32) → (encByteArray vs).length < f →
    goDecByteArrayLoop (pre ++ encByteArray vs) f pre.length acc = .ok (acc.reverse ++ vs)
  | _, _, _, 0, _, hf => by omega
  | [], pre, acc, f + 1, _, _ => by
    simp [encByteArray, goDecByteArrayLoop]
  | v :: vs, pre, acc, f + 1, h, hf => by
    have hv : v.length < 2 ^ (8 * 4) := h v (by simp)
    have e : encByteArray (v :: vs) = leBytes 4 v.length ++ (v ++ encByteArray vs) := by
      simp [encByteArray]
    have hl4 : (leBytes 4 v.length).length = 4 := leBytes_length 4 _
    have hlen : (encByteArray (v :: vs)).length = 4 + (v.length + (encByteArray vs).length) := by
      rw [e]; simp [hl4]
    have ih := goDecByteArrayLoop_enc vs (pre ++ leBytes 4 v.length ++ v) (v :: acc) f
      (fun w hw => h w (by simp [hw])) (by omega)
    have esrc : pre ++ leBytes 4 v.length ++ v ++ encByteArray vs = pre ++ encByteArray (v :: vs) := by
      rw [e]; simp
    have elen : (pre ++ leBytes 4 v.length ++ v).length = pre.length + 4 + v.length := by
      simp [hl4]; omega
    rw [esrc, elen] at ih
    have hd : (pre ++ encByteArray (v :: vs)).drop pre.length = encByteArray (v :: vs) :=
      List.drop_left' rfl
    have hd4 : (pre ++ encByteArray (v :: vs)).drop (pre.length + 4) = v ++ encByteArray vs := by
      rw [← List.drop_drop, hd, e, List.drop_left' hl4]
    have hn : leVal (((pre ++ encByteArray (v :: vs)).drop pre.length).take 4) = v.length := by
      rw [hd, e, List.take_left' hl4, leVal_leBytes 4 _ hv]
    rw [goDecByteArrayLoop]
    simp only [hn, hd4, List.take_left' rfl, List.length_append, hlen]
    split
    · split
      · omega
      · split
        · omega
        · split
          · omega
          · rw [ih]; simp
    · omega

/-! ## BYTE_STREAM_SPLIT -/

/-- SPEC (Encodings.md, BYTE_STREAM_SPLIT: "creates K byte-streams of length N … the bytes of each
    value are scattered to the corresponding streams … the streams are concatenated in the order
    0, 1, …, K-1"), index form: with `n = len / k` values, byte `j` of value `i` is at offset
    `j * n + i`. (Quadratic on lists; kept as the reference reading, see `bssSpecDec`.) -/
def bssSpecDecIdx (k : Nat) (bs : Bytes) : Option (List Bytes) :=
  if k = 0 then none
  else if bs.length % k ≠ 0 then none
  else
    let n := bs.length / k
    some ((List.range n).map (fun i => (List.range k).map (fun j => bs.getD (j * n + i) 0)))

/-- value `i` of `n`: the `i`-th byte of every stream, in stream order -/
def transposeN : Nat → List Bytes → List Bytes
  | 0, _ => []
  | n + 1, streams => streams.map (·.headD 0) :: transposeN n (streams.map List.tail)

/-- SPEC (same section of Encodings.md), stream form, linear time: cut the input into the `k`
    streams of `n = len / k` bytes, value `i` is made of byte `i` of stream 0, 1, …, k-1. -/
def bssSpecDec (k : Nat) (bs : Bytes) : Option (List Bytes) :=
  if k = 0 then none
  else if bs.length % k ≠ 0 then none
  else
    let n := bs.length / k
    some (transposeN n (chunks n k bs))

/-- SPEC for the numeric types: each `k`-byte value is little endian (FLOAT/INT32 k = 4,
    DOUBLE/INT64 k = 8). -/
def bssSpecDecFixed (k : Nat) (bs : Bytes) : Option (List Nat) := (bssSpecDec k bs).map (·.map leVal)

/-- MIRROR of `encodeFloat` / `encodeDouble` (encoding/bytestreamsplit/bytestreamsplit_purego.go:7-46,
    `b_s[i] = byte(v >> 8s)`) and `encodeFixedLenByteArray` (bytestreamsplit_fixedlen.go:3-11,
    `stream_s[i] = src[i*size+s]`): stream `s` is byte `s` of every value, streams back to back. -/
def bssEnc (k : Nat) (vs : List Bytes) : Bytes :=
  ((List.range k).map (fun s => vs.map (fun v => v.getD s 0))).flatten

/-- MIRROR of `EncodeFloat/Double/Int32/Int64` (bytestreamsplit.go:23-75): the elements are the
    little-endian memory bytes of the values. -/
def bssEncFixed (k : Nat) (xs : List Nat) : Bytes := bssEnc k (xs.map (leBytes k))

def bssEncFixedBV (k : Nat) (xs : List (BitVec (8 * k))) : Bytes := bssEncFixed k (xs.map BitVec.toNat)

def bssSpecDecFixedBV (k : Nat) (bs : Bytes) : Option (List (BitVec (8 * k))) :=
  (bssSpecDecFixed k bs).map (·.map (BitVec.ofNat (8 * k)))

theorem flatten_getElem?_const {α} (n : Nat) : ∀ (L : List (List α)) (j i : Nat),
    (∀ l ∈ L, l.length = n) → i < n → L.flatten[j * n + i]? = (L[j]?).bind (·[i]?)
  | [], j, i, _, _ => by simp
  | l :: L, 0, i, h, hi => by
    have hl : l.length = n := h l (by simp)
    simp only [List.flatten_cons, Nat.zero_mul, Nat.zero_add, List.getElem?_cons_zero, Option.bind_some]
    rw [List.getElem?_append_left (by omega)]
  | l :: L, j + 1, i, h, hi => by
    have hl : l.length = n := h l (by simp)
    have ih := flatten_getElem?_const n L j i (fun m hm => h m (by simp [hm])) hi
    simp only [List.flatten_cons, List.getElem?_cons_succ]
    rw [List.getElem?_append_right (by rw [hl, Nat.succ_mul]; omega)]
    rw [← ih]; congr 1; rw [hl, Nat.succ_mul]; omega

theorem range_map_getD_self (v : Bytes) : (List.range v.length).map (fun j => v.getD j 0) = v := by
  apply List.ext_getElem
  · simp
  · intro i h1 h2
    simp at h1
    simp [List.getD_eq_getElem?_getD, h1]

theorem bssSpecDecIdx_bssEnc (k : Nat) (hk : 0 < k) (vs : List Bytes) (h : ∀ v ∈ vs, v.length = k) :
    bssSpecDecIdx k (bssEnc k vs) = some vs := by
  have hlen : (bssEnc k vs).length = k * vs.length := by
    have := flatten_length_const vs.length ((List.range k).map (fun s => vs.map (fun v => v.getD s 0)))
      (by intro l hl; simp only [List.mem_map] at hl; obtain ⟨s, _, rfl⟩ := hl; simp)
    simp only [List.length_map, List.length_range] at this
    rw [bssEnc, this, Nat.mul_comm]
  have hm : (bssEnc k vs).length % k = 0 := by rw [hlen]; exact Nat.mul_mod_right k _
  have hd : (bssEnc k vs).length / k = vs.length := by rw [hlen]; exact Nat.mul_div_cancel_left _ hk
  unfold bssSpecDecIdx
  split
  · omega
  · split
    · omega
    · simp only [hd]
      congr 1
      apply List.ext_getElem
      · simp
      · intro i h1 h2
        have hi : i < vs.length := h2
        have hvi : vs[i].length = k := h _ (List.getElem_mem hi)
        simp only [List.getElem_map, List.getElem_range]
        rw [← range_map_getD_self vs[i], hvi]
        apply List.map_congr_left
        intro j hj
        have hj : j < k := by simpa using hj
        simp only [List.getD_eq_getElem?_getD, bssEnc]
        rw [flatten_getElem?_const vs.length _ j i
          (by intro l hl; simp only [List.mem_map] at hl; obtain ⟨s, _, rfl⟩ := hl; simp) hi]
        simp [hj, hi]

theorem transposeN_streams (k : Nat) : ∀ (vs : List Bytes), (∀ v ∈ vs, v.length = k) →
    transposeN vs.length ((List.range k).map (fun s => vs.map (fun v => v.getD s 0))) = vs
  | [], _ => rfl
  | v :: vs, h => by
    have hv : v.length = k := h v (by simp)
    have ih := transposeN_streams k vs (fun w hw => h w (by simp [hw]))
    simp only [List.length_cons, transposeN, List.map_map]
    have e1 : (List.range k).map ((fun l : Bytes => l.headD 0) ∘ fun s => (v :: vs).map (fun v => v.getD s 0))
        = v := by
      have hself : (List.range k).map (fun s => v.getD s 0) = v := by
        rw [← hv]; exact range_map_getD_self v
      refine Eq.trans ?_ hself
      apply List.map_congr_left
      intro s _
      simp
    have e2 : (List.range k).map (List.tail ∘ fun s => (v :: vs).map (fun v => v.getD s 0))
        = (List.range k).map (fun s => vs.map (fun v => v.getD s 0)) := by
      apply List.map_congr_left
      intro s _
      simp
    rw [e1, e2, ih]

theorem bssSpecDec_bssEnc (k : Nat) (hk : 0 < k) (vs : List Bytes) (h : ∀ v ∈ vs, v.length = k) :
    bssSpecDec k (bssEnc k vs) = some vs := by
  have hall : ∀ l ∈ (List.range k).map (fun s => vs.map (fun v => v.getD s 0)), l.length = vs.length := by
    intro l hl; simp only [List.mem_map] at hl; obtain ⟨s, _, rfl⟩ := hl; simp
  have hlen : (bssEnc k vs).length = k * vs.length := by
    have := flatten_length_const vs.length _ hall
    simp only [List.length_map, List.length_range] at this
    rw [bssEnc, this, Nat.mul_comm]
  have hm : (bssEnc k vs).length % k = 0 := by rw [hlen]; exact Nat.mul_mod_right k _
  have hd : (bssEnc k vs).length / k = vs.length := by rw [hlen]; exact Nat.mul_div_cancel_left _ hk
  have hc := chunks_flatten vs.length _ [] hall
  simp only [List.append_nil, List.length_map, List.length_range] at hc
  unfold bssSpecDec
  split
  · omega
  · split
    · omega
    · simp only [hd]
      rw [show chunks vs.length k (bssEnc k vs) = _ from hc, transposeN_streams k vs h]

theorem bssSpecDecFixed_bssEncFixed (k : Nat) (hk : 0 < k) (xs : List Nat)
    (h : ∀ x ∈ xs, x < 2 ^ (8 * k)) : bssSpecDecFixed k (bssEncFixed k xs) = some xs := by
  unfold bssSpecDecFixed bssEncFixed
  rw [bssSpecDec_bssEnc k hk]
  · simp only [Option.map_some, List.map_map]
    congr 1
    have : ∀ x ∈ xs, (leVal ∘ leBytes k) x = id x := fun x hx => leVal_leBytes k x (h x hx)
    rw [List.map_congr_left this, List.map_id]
  · intro v hv
    simp only [List.mem_map] at hv
    obtain ⟨x, _, rfl⟩ := hv
    exact leBytes_length k x

theorem bssSpecDecFixedBV_bssEncFixedBV (k : Nat) (hk : 0 < k) (xs : List (BitVec (8 * k))) :
    bssSpecDecFixedBV k (bssEncFixedBV k xs) = some xs := by
  unfold bssSpecDecFixedBV bssEncFixedBV
  rw [bssSpecDecFixed_bssEncFixed k hk]
  · simp only [Option.map_some, List.map_map]
    congr 1
    have : ∀ x ∈ xs, (BitVec.ofNat (8 * k) ∘ BitVec.toNat) x = id x := fun x _ => by simp
    rw [List.map_congr_left this, List.map_id]
  · intro x hx
    simp only [List.mem_map] at hx
    obtain ⟨v, _, rfl⟩ := hx
    exact v.isLt

/-! ## Dictionaries

The abstract model: a dictionary is the list of its values in index order; inserting a value is a
linear search for its first occurrence, appending when absent. The Go hash tables (`hashprobe`,
Go maps) are lookup accelerators whose answer must equal this search. -/

section Dict
variable {α : Type} [DecidableEq α]

/-- first position holding `x` -/
def dictFind : List α → α → Option Nat
  | [], _ => none
  | y :: ys, x => if y = x then some 0 else (dictFind ys x).map (· + 1)

def dictInsert1 (d : List α) (x : α) : List α × Nat :=
  match dictFind d x with
  | some i => (d, i)
  | none => (d ++ [x], d.length)

/-- insert a batch: the new dictionary and the index of every value of the batch -/
def insertAll (d : List α) : List α → List α × List Nat
  | [] => (d, [])
  | x :: xs =>
    let r := dictInsert1 d x
    let r2 := insertAll r.1 xs
    (r2.1, r.2 :: r2.2)

/-- MIRROR of `booleanDictionary.insert` (dictionary_boolean.go:68-93): every call first makes sure
    both `false` and `true` have an entry (in that order), whatever the batch holds. -/
def ensureBools (d : List Bool) : List Bool :=
  let d1 := if false ∈ d then d else d ++ [false]
  if true ∈ d1 then d1 else d1 ++ [true]

def insertAllBool (d : List Bool) (xs : List Bool) : List Bool × List Nat := insertAll (ensureBools d) xs

/-- MIRROR of the typed dictionaries backed by a probing table (`int32Dictionary.init/insert`,
    dictionary_int32.go:42-87; same code in dictionary_{int64,float,double,uint32,uint64,be128}.go;
    `byteArrayDictionary.init/insert`, dictionary_byte_array.go:55-93, numbers its map entries the
    same way). State: the page `values` and the `table` (keys in the order the table numbered them:
    a key's number is its position). `init` probes the pre-loaded values in order, so the table
    numbers the *distinct* values; `insert` appends a value to the page only when the number the
    table handed out equals the current page length. -/
structure GoDict (α : Type) where
  values : List α
  table : List α
  deriving Repr

def goDictInit (values : List α) : GoDict α :=
  { values := values, table := (insertAll ([] : List α) values).1 }

def goDictInsert1 (g : GoDict α) (x : α) : GoDict α × Nat :=
  match dictFind g.table x with
  | some i => (g, i)
  | none =>
    let i := g.table.length
    ({ values := if i = g.values.length then g.values ++ [x] else g.values, table := g.table ++ [x] }, i)

def goDictInsertAll (g : GoDict α) : List α → GoDict α × List Nat
  | [] => (g, [])
  | x :: xs =>
    let r := goDictInsert1 g x
    let r2 := goDictInsertAll r.1 xs
    (r2.1, r.2 :: r2.2)

/-! ### lemmas -/

theorem dictFind_some : ∀ (d : List α) (x : α) (i : Nat), dictFind d x = some i → d[i]? = some x
  | [], _, _, h => by simp [dictFind] at h
  | y :: ys, x, i, h => by
    simp only [dictFind] at h
    split at h
    · rename_i hy; cases h; simp [hy]
    · cases hf : dictFind ys x with
      | none => simp [hf] at h
      | some j =>
        simp only [hf, Option.map_some, Option.some.injEq] at h
        subst h
        simpa using dictFind_some ys x j hf

theorem dictFind_none : ∀ (d : List α) (x : α), dictFind d x = none ↔ x ∉ d
  | [], _ => by simp [dictFind]
  | y :: ys, x => by
    simp only [dictFind, List.mem_cons, not_or]
    split
    · rename_i hy; simp [hy]
    · rename_i hy
      rw [Option.map_eq_none_iff, dictFind_none ys x]
      exact ⟨fun h => ⟨fun e => hy e.symm, h⟩, fun h => h.2⟩

theorem dictFind_append_left : ∀ (d e : List α) (x : α) (i : Nat), dictFind d x = some i →
    dictFind (d ++ e) x = some i
  | [], _, _, _, h => by simp [dictFind] at h
  | y :: ys, e, x, i, h => by
    simp only [dictFind, List.cons_append] at h ⊢
    split
    · rename_i hy; simpa [hy] using h
    · rename_i hy
      simp only [hy, if_false] at h
      cases hf : dictFind ys x with
      | none => simp [hf] at h
      | some j => rw [dictFind_append_left ys e x j hf]; simpa [hf] using h

theorem dictFind_append_new : ∀ (d : List α) (x : α), dictFind d x = none →
    dictFind (d ++ [x]) x = some d.length
  | [], x, _ => by simp [dictFind]
  | y :: ys, x, h => by
    simp only [dictFind, List.cons_append] at h ⊢
    split
    · rename_i hy; simp [hy] at h
    · rename_i hy
      simp only [hy, if_false, Option.map_eq_none_iff] at h
      rw [dictFind_append_new ys x h]; simp

theorem dictInsert1_prefix (d : List α) (x : α) : d <+: (dictInsert1 d x).1 := by
  unfold dictInsert1
  split
  · exact List.prefix_refl d
  · exact List.prefix_append d [x]

theorem dictInsert1_find (d : List α) (x : α) :
    dictFind (dictInsert1 d x).1 x = some (dictInsert1 d x).2 := by
  unfold dictInsert1
  split
  · rename_i i hi; exact hi
  · rename_i hn; exact dictFind_append_new d x hn

theorem insertAll_prefix : ∀ (xs : List α) (d : List α), d <+: (insertAll d xs).1
  | [], d => List.prefix_refl d
  | x :: xs, d => List.IsPrefix.trans (dictInsert1_prefix d x) (insertAll_prefix xs _)

theorem insertAll_length : ∀ (xs : List α) (d : List α), (insertAll d xs).2.length = xs.length
  | [], _ => rfl
  | x :: xs, d => by simp [insertAll, insertAll_length xs]

/-- every returned index is the linear-search position of its value in the final dictionary -/
theorem insertAll_find : ∀ (xs : List α) (d : List α),
    (insertAll d xs).2.map some = xs.map (dictFind (insertAll d xs).1)
  | [], _ => rfl
  | x :: xs, d => by
    simp only [insertAll, List.map_cons]
    rw [insertAll_find xs]
    congr 1
    obtain ⟨e, he⟩ := insertAll_prefix xs (dictInsert1 d x).1
    rw [← he, dictFind_append_left _ e x _ (dictInsert1_find d x)]

theorem dictInsert1_nodup (d : List α) (x : α) (h : d.Nodup) : (dictInsert1 d x).1.Nodup := by
  unfold dictInsert1
  split
  · exact h
  · rename_i hn
    rw [dictFind_none] at hn
    rw [List.nodup_append]
    refine ⟨h, by simp, ?_⟩
    intro a ha b hb
    simp only [List.mem_singleton] at hb
    subst hb
    intro e; subst e; exact hn ha

theorem insertAll_nodup : ∀ (xs : List α) (d : List α), d.Nodup → (insertAll d xs).1.Nodup
  | [], _, h => h
  | x :: xs, d, h => insertAll_nodup xs _ (dictInsert1_nodup d x h)

theorem insertAll_append : ∀ (xs ys : List α) (d : List α),
    insertAll d (xs ++ ys) =
      ((insertAll (insertAll d xs).1 ys).1, (insertAll d xs).2 ++ (insertAll (insertAll d xs).1 ys).2)
  | [], _, _ => rfl
  | x :: xs, ys, d => by
    simp only [List.cons_append, insertAll]
    rw [insertAll_append xs ys]

theorem eraseDups_of_nodup : ∀ (d : List α), d.Nodup → d.eraseDups = d
  | [], _ => by simp
  | x :: xs, h => by
    rw [List.nodup_cons] at h
    rw [List.eraseDups_cons]
    have : xs.filter (fun b => !b == x) = xs := by
      rw [List.filter_eq_self]
      intro a ha
      simp only [Bool.not_eq_eq_eq_not, Bool.not_true, beq_eq_false_iff_ne, ne_eq]
      intro e; subst e; exact h.1 ha
    rw [this, eraseDups_of_nodup xs h.2]

/-- the dictionary after a batch is the first occurrences, in order, of old entries then batch -/
theorem insertAll_eraseDups : ∀ (xs : List α) (d : List α), d.Nodup →
    (insertAll d xs).1 = (d ++ xs).eraseDups
  | [], d, h => by simp [insertAll, eraseDups_of_nodup d h]
  | x :: xs, d, h => by
    simp only [insertAll]
    rw [insertAll_eraseDups xs _ (dictInsert1_nodup d x h)]
    unfold dictInsert1
    split
    · rename_i i hi
      have hx : x ∈ d := by
        have := dictFind_some d x i hi
        exact List.mem_of_getElem? this
      simp only
      rw [List.eraseDups_append, List.eraseDups_append]
      congr 2
      simp [List.removeAll, hx]
    · simp

theorem goDictInit_of_nodup (values : List α) (h : values.Nodup) :
    (goDictInit values).table = (goDictInit values).values := by
  simp only [goDictInit]
  rw [insertAll_eraseDups values [] (by simp), List.nil_append, eraseDups_of_nodup values h]

/-- while the table numbering coincides with the page positions (`table = values`), the
    table-driven Go insert is the abstract linear-search insert -/
theorem goDictInsertAll_refines : ∀ (xs : List α) (g : GoDict α), g.table = g.values →
    (goDictInsertAll g xs).1.values = (insertAll g.values xs).1 ∧
    (goDictInsertAll g xs).1.table = (insertAll g.values xs).1 ∧
    (goDictInsertAll g xs).2 = (insertAll g.values xs).2
  | [], g, h => by simp [goDictInsertAll, insertAll, h]
  | x :: xs, g, h => by
    have key : (goDictInsert1 g x).1.table = (goDictInsert1 g x).1.values ∧
        (goDictInsert1 g x).1.values = (dictInsert1 g.values x).1 ∧
        (goDictInsert1 g x).2 = (dictInsert1 g.values x).2 := by
      unfold goDictInsert1 dictInsert1
      rw [h]
      split <;> simp [h]
    obtain ⟨k1, k2, k3⟩ := key
    obtain ⟨i1, i2, i3⟩ := goDictInsertAll_refines xs (goDictInsert1 g x).1 k1
    simp only [goDictInsertAll, insertAll]
    rw [i1, i2, i3, k2, k3]
    exact ⟨rfl, rfl, rfl⟩

end Dict

end PqModel.Plain
