import PqModel.RleLemmas

/-! Lemmas for the legacy BIT_PACKED levels (MSB-first packing), C04 rle. -/
namespace PqModel.Rle
open PqModel.Bits

theorem toBitsMsb_length (w x : Nat) : (toBitsMsb w x).length = w := by
  simp [toBitsMsb, toBits_length]

theorem packMsb_length (w : Nat) : ∀ xs : List Nat, ((xs.map (toBitsMsb w)).flatten).length = xs.length * w
  | [] => by simp
  | x :: xs => by
    have ih := packMsb_length w xs
    simp only [List.map_cons, List.flatten_cons, List.length_append, toBitsMsb_length, ih, List.length_cons]
    rw [Nat.add_mul]; omega

theorem unpackMsb_pack (w : Nat) : ∀ (xs : List Nat) (pad : List Bool), (∀ x ∈ xs, x < 2 ^ w) →
    unpackMsb w xs.length ((xs.map (toBitsMsb w)).flatten ++ pad) = xs
  | [], _, _ => rfl
  | x :: xs, pad, h => by
    have hx := h x (by simp)
    have ih := unpackMsb_pack w xs pad (fun y hy => h y (by simp [hy]))
    simp only [List.map_cons, List.flatten_cons, List.length_cons, unpackMsb, List.append_assoc]
    rw [List.take_left' (toBitsMsb_length w x), List.drop_left' (toBitsMsb_length w x), ih]
    simp [toBitsMsb, fromBits_toBits w x hx]

theorem bitsToBytesMsb_nil (f : Nat) : bitsToBytesMsb f [] = [] := by cases f <;> simp [bitsToBytesMsb]

theorem bitsToBytesMsb_length : ∀ (f : Nat) (bs : List Bool), bs.length ≤ f →
    (bitsToBytesMsb f bs).length = (bs.length + 7) / 8
  | 0, bs, h => by
    have : bs = [] := by cases bs <;> simp_all
    subst this; rfl
  | f + 1, bs, h => by
    cases bs with
    | nil => simp [bitsToBytesMsb]
    | cons b bs =>
      simp only [bitsToBytesMsb, List.isEmpty_cons, Bool.false_eq_true, if_false, List.length_cons]
      rw [bitsToBytesMsb_length f _ (by simp at h ⊢; omega)]
      simp only [List.length_drop, List.length_cons]
      omega

theorem bytes_bits_msb : ∀ (f : Nat) (bs : List Bool), bs.length ≤ f →
    ∃ pad, bytesToBitsMsb (bitsToBytesMsb f bs) = bs ++ pad
  | 0, bs, h => by
    have : bs = [] := by cases bs <;> simp_all
    subst this; exact ⟨[], rfl⟩
  | f + 1, bs, h => by
    cases hbs : bs with
    | nil => exact ⟨[], by simp [bitsToBytesMsb, bytesToBitsMsb]⟩
    | cons b bs' =>
      rw [← hbs]
      have hne : bs.isEmpty = false := by rw [hbs]; rfl
      have hpos : 0 < bs.length := by rw [hbs]; simp
      simp only [bitsToBytesMsb, hne, Bool.false_eq_true, if_false]
      obtain ⟨pad, hp⟩ := bytes_bits_msb f (bs.drop 8) (by simp only [List.length_drop]; omega)
      have hc : ((bs.take 8 ++ List.replicate (8 - (bs.take 8).length) false).reverse).length ≤ 8 := by
        simp only [List.length_reverse, List.length_append, List.length_replicate, List.length_take]; omega
      have hc8 : (bs.take 8 ++ List.replicate (8 - (bs.take 8).length) false).length = 8 := by
        simp only [List.length_append, List.length_replicate, List.length_take]; omega
      simp only [bytesToBitsMsb, List.map_cons, List.flatten_cons] at hp ⊢
      rw [hp, toBitsMsb, toBits_fromBits 8 _ hc]
      simp only [List.length_reverse, hc8, Nat.sub_self, List.replicate_zero, List.append_nil,
        List.reverse_reverse]
      by_cases h8 : 8 ≤ bs.length
      · refine ⟨pad, ?_⟩
        have : (bs.take 8).length = 8 := by simp only [List.length_take]; omega
        simp only [this, Nat.sub_self, List.replicate_zero, List.append_nil]
        rw [← List.append_assoc, List.take_append_drop]
      · have hd : bs.drop 8 = [] := by simp; omega
        have ht : bs.take 8 = bs := List.take_of_length_le (by omega)
        refine ⟨List.replicate (8 - bs.length) false ++ pad, ?_⟩
        rw [ht, hd]
        simp

/-- BIT_PACKED levels: the spec decoder (MSB-first) reads back every in-range list from the model
of `bitpacked.encodeLevels` (width ≥ 1, non-empty input). -/
theorem bitpacked_roundtrip_lemma (w : Nat) (xs : List Nat) (hw : 1 ≤ w) (hne : xs ≠ [])
    (hx : ∀ x ∈ xs, x < 2 ^ w) :
    specDecodeBitPacked w xs.length (encodeBitPacked w xs) = .ok xs := by
  have h0 : ¬ (w = 0 ∨ xs = []) := by
    intro h; rcases h with h | h
    · omega
    · exact hne h
  simp only [specDecodeBitPacked, encodeBitPacked, h0, if_false]
  have hl : ¬ 8 * (bitsToBytesMsb ((xs.map (toBitsMsb w)).flatten).length ((xs.map (toBitsMsb w)).flatten)).length
      < xs.length * w := by
    rw [bitsToBytesMsb_length _ _ (Nat.le_refl _), packMsb_length]; omega
  simp only [hl, if_false]
  obtain ⟨pad, hp⟩ := bytes_bits_msb _ ((xs.map (toBitsMsb w)).flatten) (Nat.le_refl _)
  rw [hp, unpackMsb_pack w xs pad hx]

end PqModel.Rle
