import PqModel.ColWriterLemmas

/-! # C11 — the row path above `ColumnWriter` at the row-group level: `MaxRowsPerRowGroup`

MIRROR of `ConcurrentRowGroupWriter.writeRows` WITH its row limit (writer.go:1046-1079),
`writer.WriteRows` (writer.go:1895-1909: on `ErrTooManyRowGroups` the row group is flushed and the
remaining rows go to the next one) and of what `writeRowGroup` does to a column and to the row
counter (writer.go:1524-1531 the row count from `totalRowCount`, nothing written for 0 rows;
1541-1542 `rg.reset()`; 1569-1572 `Flush` of the column), for ONE column of the row group —
`writeRowGroup` reads the row count off column 0, so the model is the file as seen through a column
under the assumption that every column is given the same rows (true of the row path; the caller's
duty on the column-oriented path, see `Props/C11ColWriter.lean`). -/
namespace PqModel.ColWriter

structure RGW where
  /-- `rg.numRows`: rows written through `WriteRows` since the last `reset()` -/
  numRows : Nat
  /-- one of `rg.columns` -/
  col : CW
  /-- the row groups written so far: `NumRows` and the column's data pages -/
  groups : List (Nat × List (List Val))
  deriving DecidableEq, Repr

def RGW.init : RGW := ⟨0, fresh, []⟩

/-- MIRROR writer.go:1524-1531, 1541-1542, 1569-1572 + `ColumnWriter.reset` (writer.go:2085-2143:
    the buffer object is kept and emptied, pages and counters are cleared). -/
def writeRowGroup (k : Kind) (s : RGW) : RGW :=
  let n := totalRowCount k s.col
  if n = 0 then s else
  { numRows := 0, col := { fresh with buf := s.col.buf.map fun _ => [] },
    groups := s.groups ++ [(n, (flush k s.col).pages)] }

/-- MIRROR writer.go:1046-1079 `writeRows` (second component: the rows not written; third:
    `ErrTooManyRowGroups`). One unit of fuel per chunk. -/
def rgWriteRows (k : Kind) (bufferSize maxRows : Nat) :
    Nat → RGW → List (List Val) → RGW × List (List Val) × Bool
  | 0, s, rows => (s, rows, false)
  | fuel + 1, s, rows =>
    if rows.isEmpty then (s, [], false) else
    if maxRows ≤ s.numRows then (s, rows, true) else         -- remain <= 0
    let length := min (min rows.length (maxRows - s.numRows)) 64
    let vs := (rows.take length).flatten
    let col' := if vs.isEmpty then s.col else (writeRowValues k bufferSize s.col vs).1
    rgWriteRows k bufferSize maxRows fuel { s with col := col', numRows := s.numRows + length }
      (rows.drop length)

/-- MIRROR writer.go:1895-1909 `writer.WriteRows`. One unit of fuel per row group started. -/
def writerWriteRows (k : Kind) (bufferSize maxRows : Nat) : Nat → RGW → List (List Val) → RGW
  | 0, s, _ => s
  | fuel + 1, s, rows =>
    if rows.isEmpty then s else
    let r := rgWriteRows k bufferSize maxRows (rows.length + 1) s rows
    if r.2.2 then writerWriteRows k bufferSize maxRows fuel (writeRowGroup k r.1) r.2.1 else r.1

/-- `Writer.ColumnWriters()[i].WriteRowValues(vs)`: the column writer is the row group's, the row
    counter of the row group (`rg.numRows`) is not touched (writer.go:2419-2437 has no access to it). -/
def cwWrite (k : Kind) (bufferSize : Nat) (s : RGW) (vs : List Val) : RGW :=
  { s with col := (writeRowValues k bufferSize s.col vs).1 }

/-- a row of the column: starts at repetition level 0 and is one row for `Len()` -/
def rowOK (k : Kind) (r : List Val) : Prop := headOK k r = true ∧ bufLen k r = 1

/-- the values of the column in the row groups written, in order -/
def RGW.stream (s : RGW) : List Val := (s.groups.map fun g => g.2.flatten).flatten

/-- invariant: `cur` = the values handed to the current row group, `all` = everything so far -/
structure RGood (k : Kind) (maxRows : Nat) (s : RGW) (cur all : List Val) : Prop where
  col : Good k s.col cur
  rows : s.numRows = bufLen k cur
  le : s.numRows ≤ maxRows
  stream : s.stream ++ cur = all
  groups : ∀ g ∈ s.groups, 0 < g.1 ∧ g.1 ≤ maxRows ∧ g.1 = bufLen k g.2.flatten

theorem totalRowCount_good {k : Kind} {c : CW} {cur : List Val} (h : Good k c cur) :
    totalRowCount k c = bufLen k cur := by
  unfold totalRowCount
  rw [h.rows, sum_map_bufLen, ← bufLen_append, h.stream]

theorem bufLen_pos_of_head {k : Kind} {p : List Val} (hne : p ≠ []) (hh : headOK k p = true) :
    0 < bufLen k p := by
  cases h : bufLen k p with
  | zero => exact absurd (eq_nil_of_len_zero hh h) hne
  | succ n => omega

theorem good_cur_nil {k : Kind} {c : CW} {cur : List Val} (h : Good k c cur) (h0 : bufLen k cur = 0) :
    cur = [] ∧ c.pages = [] := by
  rw [← h.stream, bufLen_append] at h0
  have hv : c.vals = [] := eq_nil_of_len_zero h.head (by omega)
  have hp : c.pages = [] := by
    cases hps : c.pages with
    | nil => rfl
    | cons p ps =>
      have := h.pagesOK p (by simp [hps])
      have hpos := bufLen_pos_of_head this.1 this.2
      rw [hps, List.flatten_cons, bufLen_append] at h0
      omega
  refine ⟨?_, hp⟩
  rw [← h.stream, hv, hp]; rfl

theorem good_reset (k : Kind) (b : Option (List Val)) :
    Good k { fresh with buf := b.map fun _ => [] } [] := by
  refine ⟨?_, ?_, by simp [fresh], rfl, rfl, rfl⟩
  · cases b <;> simp [fresh, CW.vals]
  · cases b <;> simpa [fresh, CW.vals] using headOK_nil k

theorem rgood_init (k : Kind) (maxRows : Nat) : RGood k maxRows RGW.init [] [] :=
  ⟨good_fresh k, by simp [RGW.init, bufLen_nil], by simp [RGW.init], by simp [RGW.init, RGW.stream],
    by simp [RGW.init]⟩

theorem rgood_writeRowGroup {k : Kind} {maxRows : Nat} {s : RGW} {cur all : List Val}
    (h : RGood k maxRows s cur all) :
    RGood k maxRows (writeRowGroup k s) [] all ∧ (writeRowGroup k s).numRows = 0 ∧
    (writeRowGroup k s).col.pages = [] := by
  have ht := totalRowCount_good h.col
  unfold writeRowGroup
  simp only
  by_cases hn : totalRowCount k s.col = 0
  · simp only [hn, if_true]
    have hc := good_cur_nil h.col (by omega)
    have h0 : s.numRows = 0 := by rw [h.rows, ← ht, hn]
    refine ⟨?_, h0, hc.2⟩
    have := h
    rw [hc.1] at this
    exact this
  · simp only [hn, if_false]
    refine ⟨⟨good_reset k _, by simp [bufLen_nil], by simp, ?_, ?_⟩, by simp, by simp [fresh]⟩
    · have hf := good_flush h.col
      have hw : (flush k s.col).pages.flatten = cur := by
        have := hf.1.stream
        rw [hf.2, List.append_nil] at this
        exact this
      simp only [RGW.stream, List.map_append, List.map_cons, List.map_nil, List.flatten_append,
        List.flatten_cons, List.flatten_nil, List.append_nil, hw]
      exact h.stream
    · intro g hg
      simp only [List.mem_append, List.mem_singleton] at hg
      rcases hg with hg | rfl
      · exact h.groups g hg
      · have hf := good_flush h.col
        have hw : (flush k s.col).pages.flatten = cur := by
          have := hf.1.stream
          rw [hf.2, List.append_nil] at this
          exact this
        simp only [hw]
        refine ⟨by omega, ?_, ht⟩
        rw [ht, ← h.rows]; exact h.le

theorem bufLen_flatten_rows {k : Kind} : ∀ (l : List (List Val)), (∀ r ∈ l, rowOK k r) →
    bufLen k l.flatten = l.length
  | [], _ => by simp [bufLen_nil]
  | r :: l, h => by
    simp only [List.flatten_cons, bufLen_append, List.length_cons,
      bufLen_flatten_rows l (fun r' hr' => h r' (by simp [hr'])), (h r (by simp)).2]
    omega

theorem rgWriteRows_spec (k : Kind) (bufferSize maxRows : Nat) :
    ∀ (fuel : Nat) (s : RGW) (rows : List (List Val)) (cur all : List Val),
      RGood k maxRows s cur all → (∀ r ∈ rows, rowOK k r) → rows.length < fuel →
      ∃ done cur', rows = done ++ (rgWriteRows k bufferSize maxRows fuel s rows).2.1 ∧
        RGood k maxRows (rgWriteRows k bufferSize maxRows fuel s rows).1 cur' (all ++ done.flatten) ∧
        ((rgWriteRows k bufferSize maxRows fuel s rows).2.2 = false →
          (rgWriteRows k bufferSize maxRows fuel s rows).2.1 = []) ∧
        (s.numRows < maxRows → rows ≠ [] → done ≠ []) := by
  intro fuel
  induction fuel with
  | zero => intro s rows cur all _ _ hl; omega
  | succ fuel ih =>
    intro s rows cur all hg hr hl
    unfold rgWriteRows
    by_cases he : rows.isEmpty = true
    · have : rows = [] := List.isEmpty_iff.mp he
      subst this
      exact ⟨[], cur, by simp, by simpa using hg, by simp, by simp⟩
    · have hne : rows ≠ [] := by simpa [List.isEmpty_iff] using he
      have hpos : 0 < rows.length := List.length_pos_iff.mpr hne
      simp only [he, Bool.false_eq_true, if_false]
      by_cases hm : maxRows ≤ s.numRows
      · simp only [hm, if_true]
        exact ⟨[], cur, by simp, by simpa using hg, by simp, by omega⟩
      · simp only [hm, if_false]
        generalize hlen : min (min rows.length (maxRows - s.numRows)) 64 = length
        have hl1 : 0 < length := by omega
        have hl2 : length ≤ rows.length := by omega
        have hl3 : s.numRows + length ≤ maxRows := by omega
        have hchunk : ∀ r ∈ rows.take length, rowOK k r := fun r hm' => hr r (List.mem_of_mem_take hm')
        have hcl : bufLen k (rows.take length).flatten = length := by
          rw [bufLen_flatten_rows _ hchunk, List.length_take]; omega
        have hhead : headOK k (rows.take length).flatten = true :=
          headOK_flatten fun r hm' => (hchunk r hm').1
        have hcol : Good k (if (rows.take length).flatten.isEmpty = true then s.col
            else (writeRowValues k bufferSize s.col (rows.take length).flatten).1)
            (cur ++ (rows.take length).flatten) := by
          split
          · next hv => rw [List.isEmpty_iff.mp hv, List.append_nil]; exact hg.col
          · exact good_write bufferSize hg.col hhead
        have hg' : RGood k maxRows
            { s with col := (if (rows.take length).flatten.isEmpty = true then s.col
                else (writeRowValues k bufferSize s.col (rows.take length).flatten).1),
                     numRows := s.numRows + length }
            (cur ++ (rows.take length).flatten) (all ++ (rows.take length).flatten) :=
          ⟨hcol, by simp only [bufLen_append, hcl, hg.rows], hl3,
            by simp only [RGW.stream, ← List.append_assoc]; rw [← hg.stream]; rfl, hg.groups⟩
        obtain ⟨done, cur', h1, h2, h3, _⟩ := ih _ (rows.drop length) _ _ hg'
          (fun r hm' => hr r (List.mem_of_mem_drop hm')) (by simp only [List.length_drop]; omega)
        refine ⟨rows.take length ++ done, cur', ?_, ?_, h3, ?_⟩
        · rw [List.append_assoc, ← h1, List.take_append_drop]
        · simpa [List.flatten_append, List.append_assoc] using h2
        · intro _ _ hd
          have : rows.take length = [] := (List.append_eq_nil_iff.mp hd).1
          have := congrArg List.length this
          simp only [List.length_take, List.length_nil] at this
          omega

theorem writerWriteRows_spec (k : Kind) (bufferSize maxRows : Nat) :
    ∀ (fuel : Nat) (s : RGW) (rows : List (List Val)) (cur all : List Val),
      RGood k maxRows s cur all → (∀ r ∈ rows, rowOK k r) → s.numRows < maxRows → rows.length < fuel →
      ∃ cur', RGood k maxRows (writerWriteRows k bufferSize maxRows fuel s rows) cur' (all ++ rows.flatten) := by
  intro fuel
  induction fuel with
  | zero => intro s rows cur all _ _ _ hl; omega
  | succ fuel ih =>
    intro s rows cur all hg hr hlt hl
    unfold writerWriteRows
    by_cases he : rows.isEmpty = true
    · have : rows = [] := List.isEmpty_iff.mp he
      subst this
      exact ⟨cur, by simpa using hg⟩
    · have hne : rows ≠ [] := by simpa [List.isEmpty_iff] using he
      simp only [he, Bool.false_eq_true, if_false]
      obtain ⟨done, cur', h1, h2, h3, h4⟩ :=
        rgWriteRows_spec k bufferSize maxRows (rows.length + 1) s rows cur all hg hr (Nat.lt_succ_self _)
      have hdone := h4 hlt hne
      by_cases ht : (rgWriteRows k bufferSize maxRows (rows.length + 1) s rows).2.2 = true
      · simp only [ht, if_true]
        obtain ⟨hw, hw0, _⟩ := rgood_writeRowGroup h2
        have hrest : ∀ r ∈ (rgWriteRows k bufferSize maxRows (rows.length + 1) s rows).2.1, rowOK k r := by
          intro r hm'; exact hr r (by rw [h1]; exact List.mem_append_right _ hm')
        have hlen : (rgWriteRows k bufferSize maxRows (rows.length + 1) s rows).2.1.length < fuel := by
          have := congrArg List.length h1
          have hd : 0 < done.length := List.length_pos_iff.mpr hdone
          simp only [List.length_append] at this
          omega
        have hmax : 0 < maxRows := by omega
        obtain ⟨cur'', h5⟩ := ih _ _ _ _ hw hrest (by rw [hw0]; exact hmax) hlen
        refine ⟨cur'', ?_⟩
        have : rows.flatten = done.flatten ++ (rgWriteRows k bufferSize maxRows (rows.length + 1) s rows).2.1.flatten := by
          rw [← List.flatten_append, ← h1]
        rw [this, ← List.append_assoc]
        exact h5
      · simp only [ht, Bool.false_eq_true, if_false]
        have hf : (rgWriteRows k bufferSize maxRows (rows.length + 1) s rows).2.2 = false := by
          simpa using ht
        have hnil := h3 hf
        rw [hnil, List.append_nil] at h1
        have hfl : rows.flatten = done.flatten := congrArg List.flatten h1
        exact ⟨cur', by rw [hfl]; exact h2⟩

end PqModel.ColWriter
