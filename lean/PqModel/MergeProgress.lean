import PqModel.MergeReader

/-! # C09 — progress: a `ReadRows` call with a non-empty buffer returns rows or io.EOF, hence every
    session with enough positive batch sizes drains the inputs -/
namespace PqModel.Merge

theorem take_ne_nil {l : List Row} {n : Nat} (hl : l ≠ []) (hn : n ≠ 0) : l.take n ≠ [] := by
  cases l with
  | nil => exact absurd rfl hl
  | cons x xs => cases n with
    | zero => exact absurd rfl hn
    | succ n => simp

theorem M2.loop_ne (f m : Nat) (a b : Buf) (p : Int) (s : Nat) (hm : m ≠ 0)
    (ha : a.win ≠ []) (hb : b.win ≠ []) (sa : SortedK a.win) (sb : SortedK b.win) :
    (M2.loop (f + 1) m a b p s).1 ≠ [] := by
  have hra : (emitRun m a b.head).1 ≠ [] := by
    rw [emitRun_fst m a b.head hm ha sa]
    exact take_ne_nil ha (by have := (emitRunLen_le m a b.head hm ha sa).1; omega)
  have hrb : (emitRun m b a.head).1 ≠ [] := by
    rw [emitRun_fst m b a.head hm hb sb]
    exact take_ne_nil hb (by have := (emitRunLen_le m b a.head hm hb sb).1; omega)
  simp only [M2.loop]
  generalize (if p < 0 then s + 1 else 0) = s1
  generalize (if p > 0 then s + 1 else 0) = s2
  split
  · omega
  split
  · split
    · split
      · simp [hra]
      · exact hra
    · split <;> simp
  · split
    · split
      · split
        · simp [hrb]
        · exact hrb
      · split <;> simp
    · split
      · simp
      · split <;> simp

theorem M2.readRows_progress (s : M2) (m : Nat) (hm : 1 ≤ m) (hs : ∀ l ∈ s.rems, SortedK l) (hok : s.Ok) :
    (s.readRows m).2.1 = true ∨ (s.readRows m).1 ≠ [] := by
  obtain ⟨s1, hs1, hrem1⟩ : ∃ s1 : M2,
      s1 = (if s.initialized then s else { s with r0 := s.r0.bind Buf.read, r1 := s.r1.bind Buf.read, initialized := true })
      ∧ s1.rems = s.rems := by
    refine ⟨_, rfl, ?_⟩
    split
    · rfl
    · rename_i hi
      have hok' := hok (by simpa using hi)
      simp only [M2.rems, bind_read_rem _ hok'.1, bind_read_rem _ hok'.2]
  have hunf : s.readRows m =
      (match refill s1.r0, refill s1.r1 with
        | none, none => ([], true, { s1 with r0 := none, r1 := none })
        | none, some b => ((emitSingle m b).1, false, { s1 with r0 := none, r1 := some (emitSingle m b).2 })
        | some a, none => ((emitSingle m a).1, false, { s1 with r0 := some (emitSingle m a).2, r1 := none })
        | some a, some b =>
          ((M2.loop m m a b s1.prev s1.streak).1, false,
            { s1 with r0 := some (M2.loop m m a b s1.prev s1.streak).2.1,
                      r1 := some (M2.loop m m a b s1.prev s1.streak).2.2.1,
                      prev := (M2.loop m m a b s1.prev s1.streak).2.2.2.1,
                      streak := (M2.loop m m a b s1.prev s1.streak).2.2.2.2 })) := by
    rw [hs1]; rfl
  rw [hunf]
  have hrems : s.rems = [optRem (refill s1.r0), optRem (refill s1.r1)] := by
    rw [← hrem1, refill_rem, refill_rem]; rfl
  rw [hrems] at hs
  cases h0 : refill s1.r0 with
  | none =>
    cases h1 : refill s1.r1 with
    | none => exact Or.inl rfl
    | some b =>
      right
      simp only
      rw [(emitSingle_spec m b (refill_win h1)).1]
      exact take_ne_nil (refill_win h1) (by omega)
  | some a =>
    cases h1 : refill s1.r1 with
    | none =>
      right
      simp only
      rw [(emitSingle_spec m a (refill_win h0)).1]
      exact take_ne_nil (refill_win h0) (by omega)
    | some b =>
      right
      simp only [h0, h1] at hs ⊢
      obtain ⟨m', rfl⟩ : ∃ m', m = m' + 1 := ⟨m - 1, by omega⟩
      exact M2.loop_ne m' (m' + 1) a b _ _ (by omega) (refill_win h0) (refill_win h1)
        (Buf.win_sorted (hs _ (by simp [optRem]))) (Buf.win_sorted (hs _ (by simp [optRem])))

/-- with a buffered winner one iteration of the k-way loop emits a row -/
theorem MK.loop_fresh_ne (f m : Nat) (st : MK) (hm : m ≠ 0) (hc : st.count ≠ 0) (hw : st.cur.win ≠ []) :
    (MK.loop (f + 1) m st).1 ≠ [] := by
  simp only [MK.loop]
  split
  · rename_i h; simp at h; omega
  split
  · rename_i h; simp [Buf.empty] at h; exact absurd h hw
  · split
    · simp
    · split
      · split <;> simp
      · simp

theorem cur_of_buffered {st : MK} {H : Heads} {win : Nat → Int} {w1 : Nat}
    (hl : Live st H win w1) (hb : Buffered st w1) : st.cur.win ≠ [] := by
  obtain ⟨c, hc, hw⟩ := hb
  have := hl.cur
  rw [hc] at this; cases this; exact hw

theorem replayKeep_cur (st : MK) (p : Int) : (st.replayKeep p).cur = st.replayGames.cur := by
  unfold MK.replayKeep; split <;> rfl

theorem replayKeep_count (st : MK) (p : Int) : (st.replayKeep p).count = st.count := by
  unfold MK.replayKeep; split <;> rfl

theorem MK.loop_progress (f m : Nat) (st : MK) (hm : m ≠ 0) (hk : KInv st) :
    (MK.loop (f + 2) m st).1 ≠ [] ∨ (MK.loop (f + 2) m st).2.count = 0 := by
  by_cases hc : st.count = 0
  · right; simp [MK.loop, hc]
  obtain ⟨H, win, w0, hl, _⟩ := hk.2 hc
  rw [MK.loop]
  dsimp only
  split
  · rename_i h; simp at h; omega
  split
  · rename_i hempty
    have hwin : st.cur.win = [] := by simpa [Buf.empty] using hempty
    split
    · rename_i c' hr
      obtain ⟨H', win', w1, hl', _, hb'⟩ := (hl.setBuf c').replay_fresh c' (setBuf_get_eq hl c') (Buf.read_win hr)
      left
      apply MK.loop_fresh_ne f m _ hm
      · rw [replayKeep_count]; exact hc
      · rw [replayKeep_cur]; exact cur_of_buffered hl' hb'
    · rename_i hr
      have hrem : st.cur.rem = [] := by simp [Buf.rem, hwin, Buf.read_none hr]
      obtain ⟨_, h1⟩ := hl.replay_eof hrem
      by_cases hc1 : st.count - 1 = 0
      · right
        have : ({ st with winner := -1, count := st.count - 1 }.replayKeep (-1)).count = 0 := by
          rw [replayKeep_count]; exact hc1
        simp [MK.loop, this]
      · obtain ⟨H', win', w1, hl', _, hb'⟩ := h1 hc1
        left
        apply MK.loop_fresh_ne f m _ hm
        · rw [replayKeep_count]; exact hc1
        · rw [replayKeep_cur]; exact cur_of_buffered hl' hb'
  · left
    split
    · simp
    · split
      · split <;> simp
      · simp

theorem MK.readRows_progress (st : MK) (m : Nat) (hm : 1 ≤ m) (hok : st.Ok) :
    (st.readRows m).2.1 = true ∨ (st.readRows m).1 ≠ [] := by
  have hk1 : KInv (if st.initialized then st else st.initialize) := by
    split
    · rename_i h; exact hok.2 h
    · rename_i h; exact initialize_kinv st (hok.1 (by simpa using h))
  have hunf : st.readRows m =
      ((MK.loop (2 * m + 2) m (if st.initialized then st else st.initialize)).1,
       decide ((MK.loop (2 * m + 2) m (if st.initialized then st else st.initialize)).2.count = 0),
       (MK.loop (2 * m + 2) m (if st.initialized then st else st.initialize)).2) := rfl
  rw [hunf]
  rcases MK.loop_progress (2 * m) m _ (by omega) hk1 with h | h
  · exact Or.inr h
  · exact Or.inl (by simpa using h)

theorem Reader.readRows_progress (r : Reader) (m : Nat) (hm : 1 ≤ m) (hok : r.Ok)
    (hs : ∀ l ∈ r.rem, SortedK l) : (r.readRows m).2.1 = true ∨ (r.readRows m).1 ≠ [] := by
  cases r with
  | empty => exact Or.inl rfl
  | one b =>
    simp only [Reader.readRows]
    split
    · exact Or.inl rfl
    · rename_i x xs hsrc
      right
      simp only [hsrc]
      apply take_ne_nil (by simp)
      have : 1 ≤ (match b.sizes with | [] => m | s :: _ => max 1 s) := by split <;> omega
      simp only [List.length_cons]
      exact Nat.ne_of_gt (Nat.lt_min.mpr ⟨hm, Nat.lt_min.mpr ⟨this, by omega⟩⟩)
  | two s => exact M2.readRows_progress s m hm hs hok
  | many s => exact MK.readRows_progress s m hm hok

/-- rows not yet emitted -/
def Reader.size (r : Reader) : Nat := r.rem.flatten.length

/-- every session of positive batch sizes that is longer than the number of rows reaches io.EOF -/
theorem Reader.session_eof : ∀ (bs : List Nat) (r : Reader), r.Ok → (∀ l ∈ r.rem, SortedK l) →
    (∀ b ∈ bs, 1 ≤ b) → r.size < bs.length → (r.session bs).2.1 = true
  | [], r, _, _, _, h => by simp at h
  | m :: ms, r, hok, hs, hpos, hlen => by
    obtain ⟨h1, h2, _⟩ := Reader.readRows_emits r m hok hs
    simp only [Reader.session]
    split
    · rfl
    · rename_i hne
      have hprog := Reader.readRows_progress r m (hpos m (by simp)) hok hs
      have hout : (r.readRows m).1 ≠ [] := by
        rcases hprog with h | h
        · exact absurd h hne
        · exact h
      have hperm := (emits_perm h1).length_eq
      simp only [List.length_append] at hperm
      have hpos' : 0 < (r.readRows m).1.length := List.length_pos_iff.mpr hout
      apply Reader.session_eof ms _ h2 (emits_sorted h1 hs).2.2 (fun b hb => hpos b (by simp [hb]))
      simp only [Reader.size, List.length_cons] at hlen ⊢
      omega

end PqModel.Merge
