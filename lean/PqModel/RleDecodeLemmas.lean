import PqModel.RleLemmas
import PqModel.RleDecode

/-! Lemmas tying the arithmetic kernels of RleDecode.lean to the bit-list packing of Bits.lean,
and the decoder mirrors to the run grammar. -/
namespace PqModel.Rle
open PqModel.Bits

/-! ### numbers and bit lists -/

theorem fromBits_lt : ∀ bs : List Bool, fromBits bs < 2 ^ bs.length
  | [] => by simp [fromBits]
  | b :: bs => by
    have ih := fromBits_lt bs
    simp only [fromBits, List.length_cons, Nat.pow_succ]
    cases b <;> simp <;> omega

theorem fromBits_append : ∀ (a b : List Bool), fromBits (a ++ b) = fromBits a + 2 ^ a.length * fromBits b
  | [], b => by simp [fromBits]
  | x :: a, b => by
    simp only [List.cons_append, fromBits, fromBits_append a b, List.length_cons, Nat.pow_succ]
    rw [Nat.mul_add, ← Nat.mul_assoc, Nat.mul_comm 2 (2 ^ a.length)]
    omega

theorem fromBits_drop : ∀ (o : Nat) (bs : List Bool), fromBits (bs.drop o) = fromBits bs / 2 ^ o
  | 0, bs => by simp
  | o + 1, [] => by simp [fromBits]
  | o + 1, b :: bs => by
    simp only [List.drop_succ_cons, fromBits_drop o bs, fromBits]
    have e : ((if b = true then 1 else 0) + 2 * fromBits bs) / 2 = fromBits bs := by
      cases b <;> simp <;> omega
    rw [Nat.pow_succ, Nat.mul_comm (2 ^ o) 2, ← Nat.div_div_eq_div_mul, e]

theorem fromBits_take : ∀ (w : Nat) (bs : List Bool), fromBits (bs.take w) = fromBits bs % 2 ^ w
  | 0, bs => by simp [fromBits, Nat.mod_one]
  | w + 1, [] => by simp [fromBits]
  | w + 1, b :: bs => by
    simp only [List.take_succ_cons, fromBits, fromBits_take w bs]
    generalize fromBits bs = F
    have hP : 0 < 2 ^ w := Nat.two_pow_pos w
    have h1 := Nat.mod_add_div F (2 ^ w)
    have h2 : F % 2 ^ w < 2 ^ w := Nat.mod_lt _ hP
    have key : ∀ c, c < 2 → (c + 2 * F) % (2 ^ w * 2) = c + 2 * (F % 2 ^ w) := by
      intro c hc
      have e : c + 2 * F = (c + 2 * (F % 2 ^ w)) + (2 ^ w * 2) * (F / 2 ^ w) := by
        rw [Nat.mul_assoc, Nat.mul_left_comm]
        generalize 2 ^ w * (F / 2 ^ w) = t at h1 ⊢
        omega
      rw [e, Nat.add_mul_mod_self_left, Nat.mod_eq_of_lt]
      omega
    rw [Nat.pow_succ]
    cases b
    · simpa using (key 0 (by omega)).symm
    · simpa using (key 1 (by omega)).symm

theorem toBits8_lt (b : Nat) (h : b < 256) : fromBits (toBits 8 b) = b :=
  fromBits_toBits 8 b (by simpa using h)

theorem fromBits_bytesToBits : ∀ bytes : List Nat, (∀ b ∈ bytes, b < 256) →
    fromBits (bytesToBits bytes) = leNat bytes
  | [], _ => rfl
  | b :: bs, h => by
    have ih := fromBits_bytesToBits bs (fun x hx => h x (by simp [hx]))
    simp only [bytesToBits] at ih
    simp only [bytesToBits, List.map_cons, List.flatten_cons, fromBits_append, toBits_length, leNat, ih,
      toBits8_lt b (h b (by simp))]

theorem unpackBits_eq_map (w : Nat) : ∀ (n : Nat) (bits : List Bool),
    unpackBits w n bits = (List.range n).map (fun k => fromBits ((bits.drop (k * w)).take w))
  | 0, _ => rfl
  | n + 1, bits => by
    rw [unpackBits, unpackBits_eq_map w n (bits.drop w), List.range_succ_eq_map]
    simp only [List.map_cons, List.map_map, Nat.zero_mul, List.drop_zero]
    congr 1
    apply List.map_congr_left
    intro k _
    simp only [Function.comp, List.drop_drop]
    congr 3
    rw [Nat.succ_mul]; omega

/-- value `k` of width `w` read from a bit list is a quotient/remainder of the number it denotes -/
theorem unpackBits_arith (w n : Nat) (bits : List Bool) :
    unpackBits w n bits = (List.range n).map (fun k => (fromBits bits / 2 ^ (k * w)) % 2 ^ w) := by
  rw [unpackBits_eq_map]
  apply List.map_congr_left
  intro k _
  rw [fromBits_take, fromBits_drop]

/-! ### slicing bit lists of byte strings -/

theorem bytesToBits_drop : ∀ (k : Nat) (p : List Nat), (bytesToBits p).drop (8 * k) = bytesToBits (p.drop k)
  | 0, p => by simp
  | k + 1, [] => by simp [bytesToBits]
  | k + 1, b :: p => by
    have ih := bytesToBits_drop k p
    simp only [bytesToBits] at ih
    simp only [bytesToBits, List.map_cons, List.flatten_cons, List.drop_succ_cons]
    have e : 8 * (k + 1) = (toBits 8 b).length + 8 * k := by rw [toBits_length]; omega
    rw [e, ← List.drop_drop, List.drop_left' rfl]
    exact ih

theorem bytesToBits_take : ∀ (k : Nat) (p : List Nat), (bytesToBits p).take (8 * k) = bytesToBits (p.take k)
  | 0, p => by simp [bytesToBits]
  | k + 1, [] => by simp [bytesToBits]
  | k + 1, b :: p => by
    have ih := bytesToBits_take k p
    simp only [bytesToBits] at ih
    simp only [bytesToBits, List.map_cons, List.flatten_cons, List.take_succ_cons]
    have e : 8 * (k + 1) = (toBits 8 b).length + 8 * k := by rw [toBits_length]; omega
    rw [e, List.take_length_add_append]
    rw [ih]

theorem take_drop_take {α} (l : List α) (a w m : Nat) (h : a + w ≤ m) :
    ((l.take m).drop a).take w = (l.drop a).take w := by
  rw [List.drop_take, List.take_take, Nat.min_eq_left (by omega)]

theorem unpackBits_take_bits (w n m : Nat) (bits : List Bool) (h : n * w ≤ m) :
    unpackBits w n (bits.take m) = unpackBits w n bits := by
  rw [unpackBits_eq_map, unpackBits_eq_map]
  apply List.map_congr_left
  intro k hk
  have hk' : k < n := by simpa using hk
  have : k * w + w ≤ m := by
    have : (k + 1) * w ≤ n * w := Nat.mul_le_mul_right w (by omega)
    rw [Nat.succ_mul] at this; omega
  rw [take_drop_take bits (k * w) w m this]

theorem unpackBits_append_pad (w n : Nat) (bits pad : List Bool) (h : n * w ≤ bits.length) :
    unpackBits w n (bits ++ pad) = unpackBits w n bits := by
  have := unpackBits_take_bits w n bits.length (bits ++ pad) h
  rw [List.take_left' rfl] at this
  exact this.symm

theorem unpackBits_add (w : Nat) : ∀ (a b : Nat) (bits : List Bool),
    unpackBits w (a + b) bits = unpackBits w a bits ++ unpackBits w b (bits.drop (a * w))
  | 0, b, bits => by simp [unpackBits]
  | a + 1, b, bits => by
    have e : a + 1 + b = (a + b) + 1 := by omega
    rw [e, unpackBits, unpackBits, unpackBits_add w a b (bits.drop w), List.drop_drop]
    simp only [List.cons_append]
    have e2 : w + a * w = (a + 1) * w := by rw [Nat.succ_mul]; omega
    rw [e2]

/-! ### the levels decoding kernel is LSB-first unpacking -/

theorem goUnpackBytesGroup_eq (w : Nat) (bytes : List Nat) (hb : ∀ b ∈ bytes, b < 256) :
    goUnpackBytesGroup w bytes = unpackBits w 8 (bytesToBits bytes) := by
  rw [unpackBits_arith, fromBits_bytesToBits bytes hb]; rfl

theorem goDecodeBytesBitpack_eq (w : Nat) : ∀ (g : Nat) (p : List Nat), p.length = g * w →
    (∀ b ∈ p, b < 256) → goDecodeBytesBitpack w g p = unpackBits w (8 * g) (bytesToBits p)
  | 0, p, _, _ => by simp [goDecodeBytesBitpack, unpackBits]
  | g + 1, p, hl, hb => by
    have e : 8 * (g + 1) = 8 + 8 * g := by omega
    rw [goDecodeBytesBitpack, e, unpackBits_add]
    have hdrop : (bytesToBits p).drop (8 * w) = bytesToBits (p.drop w) := bytesToBits_drop w p
    rw [hdrop]
    rw [goDecodeBytesBitpack_eq w g (p.drop w) (by rw [List.length_drop, hl, Nat.succ_mul]; omega)
      (fun b hb' => hb b (List.mem_of_mem_drop hb'))]
    congr 1
    rw [goUnpackBytesGroup_eq w (p.take w) (fun b hb' => hb b (List.mem_of_mem_take hb'))]
    rw [← bytesToBits_take, unpackBits_take_bits w 8 (8 * w) _ (Nat.le_refl _)]

/-! ### the int32 decoding kernel (`bitpack.Unpack`, portable) is LSB-first unpacking -/

theorem le32At_eq (src : List Nat) (hb : ∀ b ∈ src, b < 256) (i : Nat) :
    le32At src i = fromBits (((bytesToBits src).drop (32 * i)).take 32) := by
  unfold le32At
  rw [← fromBits_bytesToBits _ (fun b hb' => hb b (List.mem_of_mem_drop (List.mem_of_mem_take hb')))]
  have e1 : 32 * i = 8 * (4 * i) := by omega
  have e2 : (32 : Nat) = 8 * 4 := by omega
  rw [e1, bytesToBits_drop]
  conv => rhs; rw [e2, bytesToBits_take]

theorem goUnpackInt32Value_eq (w : Nat) (hw : w ≤ 32) (src : List Nat) (hb : ∀ b ∈ src, b < 256)
    (n : Nat) (hlen : n * w / 32 * 32 + 64 ≤ 8 * src.length) :
    goUnpackInt32Value w src n = fromBits (((bytesToBits src).drop (n * w)).take w) := by
  simp only [goUnpackInt32Value]
  generalize hi : n * w / 32 = i at hlen ⊢
  generalize hj : n * w % 32 = j
  have hnw : n * w = 32 * i + j := by rw [← hi, ← hj]; exact (Nat.div_add_mod (n * w) 32).symm
  have hj32 : j < 32 := by rw [← hj]; exact Nat.mod_lt _ (by omega)
  rw [le32At_eq src hb i, le32At_eq src hb (i + 1)]
  generalize hbits : bytesToBits src = bits
  have hbl : bits.length = 8 * src.length := by rw [← hbits, bytesToBits_length]
  have hdrop : bits.drop (n * w) = (bits.drop (32 * i)).drop j := by rw [hnw, List.drop_drop]
  rw [hdrop]
  generalize hB : bits.drop (32 * i) = B
  have hBl : 64 ≤ B.length := by rw [← hB, List.length_drop]; omega
  have hB2 : bits.drop (32 * (i + 1)) = B.drop 32 := by
    rw [← hB, List.drop_drop]; congr 1
  rw [hB2]
  -- d
  have hd : fromBits (B.take 32) / 2 ^ j % 2 ^ w = fromBits (((B.take 32).drop j).take w) := by
    rw [fromBits_take w, fromBits_drop j]
  rw [hd]
  split
  · -- the value straddles two words
    rename_i hs
    have h1l : ((B.take 32).drop j).length = 32 - j := by
      rw [List.length_drop, List.length_take]; omega
    have ht : ((B.take 32).drop j).take w = (B.take 32).drop j := List.take_of_length_le (by omega)
    rw [ht]
    have hw1 : fromBits ((B.drop 32).take 32) % 2 ^ (w - (32 - j)) = fromBits ((B.drop 32).take (w - (32 - j))) := by
      rw [← fromBits_take, List.take_take, Nat.min_eq_left (by omega)]
    rw [hw1]
    have hsplit : (B.drop j).take w = (B.take 32).drop j ++ (B.drop 32).take (w - (32 - j)) := by
      conv => lhs; rw [← List.take_append_drop 32 B]
      rw [List.drop_append_of_le_length (by rw [List.length_take]; omega), List.take_append, ht, h1l]
    rw [hsplit, fromBits_append, h1l, Nat.mul_comm]
  · rename_i hs
    rw [take_drop_take B j w 32 (by omega)]

theorem goUnpackInt32_eq (w n : Nat) (p : List Nat) (hw : w ≤ 32) (hb : ∀ b ∈ p, b < 256)
    (hn : n * w ≤ 8 * p.length) : goUnpackInt32 w n p = unpackBits w n (bytesToBits p) := by
  rw [← unpackBits_append_pad w n (bytesToBits p) (bytesToBits (List.replicate 16 0))
    (by rw [bytesToBits_length]; exact hn), ← bytesToBits_append, unpackBits_eq_map]
  unfold goUnpackInt32
  apply List.map_congr_left
  intro k hk
  have hk' : k < n := by simpa using hk
  have hkw : k * w ≤ n * w := Nat.mul_le_mul_right w (by omega)
  apply goUnpackInt32Value_eq w hw
  · intro b hb'
    rw [List.mem_append] at hb'
    rcases hb' with h | h
    · exact hb b h
    · have := List.eq_of_mem_replicate h; omega
  · rw [List.length_append, List.length_replicate]
    have := Nat.div_mul_le_self (k * w) 32
    omega

/-! ### the decoder mirrors read every run list they frame like the format -/

/-- What `decodeBytes` / `decodeInt32` additionally require of a run to agree with the format:
RLE runs are not empty (the value of an empty run is not consumed) and their stored value is
canonical (`< 2^w`: the Go decoders do not mask); no run above `math.MaxInt32`; packed bytes are bytes. -/
def Run.GoOKW (w : Nat) : Run → Prop
  | .rle c v => 1 ≤ c ∧ c ≤ 2 ^ 31 - 1 ∧ leNat v < 2 ^ w
  | .bp g p => g ≤ 2 ^ 31 - 1 ∧ ∀ b ∈ p, b < 256

def ValidRleGoW (w : Nat) (xs bs : List Nat) : Prop :=
  ∃ rs : List Run, (∀ r ∈ rs, r.WF w) ∧ (∀ r ∈ rs, r.GoOKW w) ∧ runsValues w rs = xs ∧ serialize rs = bs

theorem serialize_isEmpty_cons (r : Run) (rs : List Run) : (serialize (r :: rs)).isEmpty = false := by
  have := serialize_length_ge (r :: rs)
  cases hs : serialize (r :: rs) with
  | nil => rw [hs] at this; simp at this
  | cons _ _ => rfl

theorem goLevelsLoop_serialize (w : Nat) (hw8 : w ≤ 8) : ∀ (rs : List Run) (fuel : Nat) (dst : List Nat),
    (∀ r ∈ rs, r.WF w) → (∀ r ∈ rs, r.GoOKW w) → rs.length ≤ fuel →
    goDecodeLevelsLoop w fuel dst (serialize rs) = .ok (dst ++ runsValues w rs)
  | [], fuel, dst, _, _, _ => by
    cases fuel <;> simp [goDecodeLevelsLoop, serialize, runsValues]
  | r :: rs, 0, _, _, _, hf => by simp at hf
  | r :: rs, f + 1, dst, hwf, hgo, hf => by
    have hwf' : ∀ r ∈ rs, r.WF w := fun x hx => hwf x (by simp [hx])
    have hgo' : ∀ r ∈ rs, r.GoOKW w := fun x hx => hgo x (by simp [hx])
    have hr : r.WF w := hwf r (by simp)
    have hg : r.GoOKW w := hgo r (by simp)
    have hf' : rs.length ≤ f := by simpa using hf
    simp only [goDecodeLevelsLoop, serialize_isEmpty_cons, Bool.false_eq_true, if_false]
    rw [serialize_cons, runsValues_cons]
    cases r with
    | rle c v =>
      simp only [Run.WF] at hr
      obtain ⟨hc1, hc2, hcan⟩ := hg
      simp only [Run.bytes, List.append_assoc]
      rw [goUvarint_uvarint 5 0 (2 * c) _ (by omega) (by omega)]
      have h2 : 2 * c / 2 = c := by omega
      have h0 : ¬ c = 0 := by omega
      have hbig : ¬ c > 2 ^ 31 - 1 := by omega
      have h1 : ¬ (2 * c % 2 = 1) := by omega
      simp only [h2, h0, hbig, h1, if_false]
      by_cases hw0 : w = 0
      · subst hw0
        have hv : v = [] := by cases v <;> simp_all
        subst hv
        simp only [List.nil_append, ne_eq, not_true_eq_false, false_and, if_false, if_true]
        rw [goLevelsLoop_serialize 0 hw8 rs f _ hwf' hgo' hf']
        simp [Run.values, leNat, List.append_assoc]
      · -- one stored byte
        have hvl : v.length = 1 := by rw [hr]; omega
        match v, hvl with
        | [wd], _ =>
          simp only [hw0, if_false, List.singleton_append, List.headD_cons, List.drop_succ_cons,
            List.drop_zero]
          rw [goLevelsLoop_serialize w hw8 rs f _ hwf' hgo' hf']
          simp only [Run.values, leNat] at hcan ⊢
          rw [Nat.mod_eq_of_lt (by simpa using hcan)]
          simp [List.append_assoc]
    | bp g p =>
      simp only [Run.WF] at hr
      obtain ⟨hg1, hgb⟩ := hg
      simp only [Run.bytes, List.append_assoc]
      rw [goUvarint_uvarint 5 0 (2 * g + 1) _ (by omega) (by omega)]
      have h2 : (2 * g + 1) / 2 = g := by omega
      have hnb : (8 * g * w + 7) / 8 = g * w := by rw [Nat.mul_assoc]; omega
      by_cases h0 : g = 0
      · subst h0
        have : p = [] := by cases p <;> simp_all
        subst this
        simp only [h2, if_true, List.nil_append]
        rw [goLevelsLoop_serialize w hw8 rs f _ hwf' hgo' hf']
        simp [Run.values, unpackBits]
      · have hbig : ¬ g > 2 ^ 31 - 1 := by omega
        have h1 : (2 * g + 1) % 2 = 1 := by omega
        have h3 : ¬ ((p ++ serialize rs).length < g * w) := by
          rw [List.length_append]; omega
        simp only [h2, h0, hbig, h1, hnb, h3, if_false, if_true]
        rw [List.take_left' hr, List.drop_left' hr]
        rw [goLevelsLoop_serialize w hw8 rs f _ hwf' hgo' hf']
        rw [goDecodeBytesBitpack_eq w g p hr hgb]
        simp [Run.values, List.append_assoc]

theorem goInt32Loop_serialize (w : Nat) (hw32 : w ≤ 32) : ∀ (rs : List Run) (fuel : Nat) (dst : List Nat),
    (∀ r ∈ rs, r.WF w) → (∀ r ∈ rs, r.GoOKW w) → rs.length ≤ fuel →
    goDecodeInt32Loop w fuel dst (serialize rs) = .ok (dst ++ runsValues w rs)
  | [], fuel, dst, _, _, _ => by
    cases fuel <;> simp [goDecodeInt32Loop, serialize, runsValues]
  | r :: rs, 0, _, _, _, hf => by simp at hf
  | r :: rs, f + 1, dst, hwf, hgo, hf => by
    have hwf' : ∀ r ∈ rs, r.WF w := fun x hx => hwf x (by simp [hx])
    have hgo' : ∀ r ∈ rs, r.GoOKW w := fun x hx => hgo x (by simp [hx])
    have hr : r.WF w := hwf r (by simp)
    have hg : r.GoOKW w := hgo r (by simp)
    have hf' : rs.length ≤ f := by simpa using hf
    simp only [goDecodeInt32Loop, serialize_isEmpty_cons, Bool.false_eq_true, if_false]
    rw [serialize_cons, runsValues_cons]
    cases r with
    | rle c v =>
      simp only [Run.WF] at hr
      obtain ⟨hc1, hc2, hcan⟩ := hg
      simp only [Run.bytes, List.append_assoc]
      rw [goUvarint_uvarint 5 0 (2 * c) _ (by omega) (by omega)]
      have h2 : 2 * c / 2 = c := by omega
      have h0 : ¬ c = 0 := by omega
      have hbig : ¬ c > 2 ^ 31 - 1 := by omega
      have h1 : ¬ (2 * c % 2 = 1) := by omega
      have h3 : ¬ ((v ++ serialize rs).length < (w + 7) / 8) := by
        rw [List.length_append]; omega
      simp only [h2, h0, hbig, h1, h3, if_false]
      rw [List.take_left' hr, List.drop_left' hr]
      rw [goInt32Loop_serialize w hw32 rs f _ hwf' hgo' hf']
      simp [Run.values, Nat.mod_eq_of_lt hcan, List.append_assoc]
    | bp g p =>
      simp only [Run.WF] at hr
      obtain ⟨hg1, hgb⟩ := hg
      simp only [Run.bytes, List.append_assoc]
      rw [goUvarint_uvarint 5 0 (2 * g + 1) _ (by omega) (by omega)]
      have h2 : (2 * g + 1) / 2 = g := by omega
      by_cases h0 : g = 0
      · subst h0
        have : p = [] := by cases p <;> simp_all
        subst this
        simp only [h2, if_true, List.nil_append]
        rw [goInt32Loop_serialize w hw32 rs f _ hwf' hgo' hf']
        simp [Run.values, unpackBits]
      · have hbig : ¬ g > 2 ^ 31 - 1 := by omega
        have h1 : (2 * g + 1) % 2 = 1 := by omega
        have h3 : ¬ ((p ++ serialize rs).length < g * w) := by
          rw [List.length_append]; omega
        simp only [h2, h0, hbig, h1, h3, if_false, if_true]
        rw [List.take_left' hr, List.drop_left' hr]
        rw [goInt32Loop_serialize w hw32 rs f _ hwf' hgo' hf']
        rw [goUnpackInt32_eq w (8 * g) p hw32 hgb (by rw [hr, Nat.mul_assoc]; exact Nat.le_refl _)]
        simp [Run.values, List.append_assoc]

/-! ### the runs the mirror encoders emit are in the decoders' domain -/

theorem bitsToBytes_lt : ∀ (f : Nat) (bs : List Bool), ∀ b ∈ bitsToBytes f bs, b < 256
  | 0, _, b, hb => by simp [bitsToBytes] at hb
  | f + 1, bs, b, hb => by
    simp only [bitsToBytes] at hb
    split at hb
    · simp at hb
    · simp only [List.mem_cons] at hb
      rcases hb with rfl | hb
      · have := fromBits_lt (bs.take 8)
        have h8 : (bs.take 8).length ≤ 8 := by simp [List.length_take]; omega
        exact Nat.lt_of_lt_of_le this (Nat.pow_le_pow_right (by decide) h8)
      · exact bitsToBytes_lt f _ b hb

theorem packBytes_lt (w : Nat) (vals : List Nat) : ∀ b ∈ packBytes w vals, b < 256 :=
  bitsToBytes_lt _ _

theorem headD_lt_of_len8 (g : List Nat) (w : Nat) (hl : g.length = 8) (h : ∀ x ∈ g, x < 2 ^ w) :
    g.headD 0 < 2 ^ w := by
  cases g with
  | nil => simp at hl
  | cons a t => exact h a (by simp)

theorem groupLoop_goOK (w : Nat) (enc : Nat → List Nat) (scan : List Nat → List (List Nat) → Nat)
    (hcan : ∀ v, v < 2 ^ w → leNat (enc v) < 2 ^ w) (hscan : ∀ g gs, scan g gs ≤ gs.length) :
    ∀ (f : Nat) (gs : List (List Nat)), (∀ g ∈ gs, g.length = 8) → (∀ g ∈ gs, ∀ x ∈ g, x < 2 ^ w) →
      8 * gs.length ≤ 2 ^ 31 - 1 → ∀ r ∈ groupLoop enc scan w f gs, r.GoOKW w
  | 0, gs, _, _, _ => by simp [groupLoop]
  | f + 1, [], _, _, _ => by simp [groupLoop]
  | f + 1, g :: gs, hall, hlt, hcnt => by
    simp only [groupLoop]
    split
    · rename_i hk
      generalize hkdef : (List.takeWhile (fun x => x == List.replicate 8 (g.headD 0)) (g :: gs)).length = k at hk ⊢
      have hkle : k ≤ (g :: gs).length := by rw [← hkdef]; exact length_takeWhile_le _ _
      intro r hr
      simp only [List.mem_cons] at hr
      rcases hr with rfl | hr
      · refine ⟨by omega, by omega, hcan _ (headD_lt_of_len8 g w (hall g (by simp)) (hlt g (by simp)))⟩
      · exact groupLoop_goOK w enc scan hcan hscan f _
          (fun x hx => hall x (List.mem_of_mem_drop hx)) (fun x hx => hlt x (List.mem_of_mem_drop hx))
          (by simp only [List.length_drop] at hcnt ⊢; omega) r hr
    · generalize hmdef : 1 + scan g gs = m
      have hmle : m ≤ (g :: gs).length := by
        have := hscan g gs; simp only [List.length_cons]; omega
      intro r hr
      simp only [List.mem_cons] at hr
      rcases hr with rfl | hr
      · exact ⟨by omega, packBytes_lt _ _⟩
      · exact groupLoop_goOK w enc scan hcan hscan f _
          (fun x hx => hall x (List.mem_of_mem_drop hx)) (fun x hx => hlt x (List.mem_of_mem_drop hx))
          (by simp only [List.length_drop] at hcnt ⊢; omega) r hr

theorem tailLoop_goOK (w : Nat) (enc : Nat → List Nat) (hcan : ∀ v, v < 2 ^ w → leNat (enc v) < 2 ^ w) :
    ∀ (f : Nat) (l : List Nat), (∀ x ∈ l, x < 2 ^ w) → l.length ≤ 2 ^ 31 - 1 →
      ∀ r ∈ tailLoop enc f l, r.GoOKW w
  | 0, _, _, _ => by simp [tailLoop]
  | f + 1, [], _, _ => by simp [tailLoop]
  | f + 1, a :: rest, hlt, hcnt => by
    simp only [tailLoop]
    generalize hkdef : (List.takeWhile (fun x => x == a) rest).length = k
    have hkle : k ≤ rest.length := by rw [← hkdef]; exact length_takeWhile_le _ _
    intro r hr
    simp only [List.mem_cons] at hr
    rcases hr with rfl | hr
    · simp only [List.length_cons] at hcnt
      exact ⟨by omega, by omega, hcan a (hlt a (by simp))⟩
    · exact tailLoop_goOK w enc hcan f _ (fun x hx => hlt x (by simp [List.mem_of_mem_drop hx]))
        (by simp only [List.length_drop, List.length_cons] at hcnt ⊢; omega) r hr

theorem groups_tail_goOK (w : Nat) (enc : Nat → List Nat) (scan : List Nat → List (List Nat) → Nat)
    (hcan : ∀ v, v < 2 ^ w → leNat (enc v) < 2 ^ w) (hscan : ∀ g gs, scan g gs ≤ gs.length)
    (src : List Nat) (hlt : ∀ x ∈ src, x < 2 ^ w) (hlen : src.length ≤ 2 ^ 31 - 1) :
    ∀ r ∈ groupLoop enc scan w (src.length / 8) (groups8 (src.length / 8) src) ++
      tailLoop enc (src.length % 8) (src.drop (8 * (src.length / 8))), r.GoOKW w := by
  intro r hr
  rw [List.mem_append] at hr
  rcases hr with hr | hr
  · refine groupLoop_goOK w enc scan hcan hscan _ _ (groups8_all_len _ _ (by omega)) ?_
      (by rw [groups8_length]; omega) r hr
    intro g hg x hx
    have : x ∈ (groups8 (src.length / 8) src).flatten := List.mem_flatten.mpr ⟨g, hg, hx⟩
    rw [groups8_flatten] at this
    exact hlt x (List.mem_of_mem_take this)
  · exact tailLoop_goOK w enc hcan _ _ (fun x hx => hlt x (List.mem_of_mem_drop hx))
      (by simp only [List.length_drop]; omega) r hr

theorem bitsLoop_goOK : ∀ (f : Nat) (l : List Nat), 8 * l.length ≤ 2 ^ 31 - 1 →
    ∀ r ∈ bitsLoop f l, r.GoOK
  | 0, _, _ => by simp [bitsLoop]
  | f + 1, [], _ => by simp [bitsLoop]
  | f + 1, a :: rest, hcnt => by
    simp only [bitsLoop]
    split
    · generalize hkdef : (List.takeWhile (fun x => x == a) rest).length = k
      have hkle : k ≤ rest.length := by rw [← hkdef]; exact length_takeWhile_le _ _
      intro r hr
      simp only [List.mem_cons] at hr
      simp only [List.length_cons] at hcnt
      rcases hr with rfl | hr
      · exact ⟨by omega, by omega⟩
      · exact bitsLoop_goOK f _ (by simp only [List.length_drop, List.length_cons]; omega) r hr
    · generalize hjdef : 1 + scanBits a rest = j
      have hjle : j ≤ (a :: rest).length := by
        have := scanBits_le a rest; simp only [List.length_cons]; omega
      generalize hj'def : (if (decide (j > 1) && decide (j < (a :: rest).length)) = true then j - 1 else j) = j'
      have hj'le : j' ≤ (a :: rest).length := by rw [← hj'def]; split <;> omega
      intro r hr
      simp only [List.mem_cons] at hr
      simp only [List.length_cons] at hcnt hj'le
      rcases hr with rfl | hr
      · simp only [Run.GoOK]; omega
      · exact bitsLoop_goOK f _ (by simp only [List.length_drop, List.length_cons]; omega) r hr

/-! ### bytes ↔ bits, and the levels encoding kernel is LSB-first packing -/

theorem bitsToBytes_leBytes : ∀ (k f : Nat) (bits : List Bool), bits.length = 8 * k → k ≤ f →
    bitsToBytes f bits = leBytes k (fromBits bits)
  | 0, f, bits, hl, _ => by
    have : bits = [] := by cases bits <;> simp_all
    subst this; simp [bitsToBytes_nil, leBytes]
  | k + 1, 0, _, _, hf => by omega
  | k + 1, f + 1, bits, hl, hf => by
    have hne : bits.isEmpty = false := by cases bits <;> simp_all
    simp only [bitsToBytes, hne, Bool.false_eq_true, if_false, leBytes]
    rw [bitsToBytes_leBytes k f (bits.drop 8) (by rw [List.length_drop]; omega) (by omega)]
    rw [fromBits_take 8, fromBits_drop 8]

theorem leBytes_leNat : ∀ src : List Nat, (∀ b ∈ src, b < 256) → leBytes src.length (leNat src) = src
  | [], _ => rfl
  | b :: src, h => by
    have hb := h b (by simp)
    have ih := leBytes_leNat src (fun x hx => h x (by simp [hx]))
    simp only [List.length_cons, leBytes, leNat]
    have e1 : (b + 256 * leNat src) % 256 = b := by omega
    have e2 : (b + 256 * leNat src) / 256 = leNat src := by omega
    rw [e1, e2, ih]

theorem bitsToBytes_bytesToBits (src : List Nat) (hb : ∀ b ∈ src, b < 256) (f : Nat) (hf : src.length ≤ f) :
    bitsToBytes f (bytesToBits src) = src := by
  rw [bitsToBytes_leBytes src.length f _ (bytesToBits_length src) hf, fromBits_bytesToBits src hb,
    leBytes_leNat src hb]

theorem bitsToBytes_fuel : ∀ (f f' : Nat) (bits : List Bool), (bits.length + 7) / 8 ≤ f →
    (bits.length + 7) / 8 ≤ f' → bitsToBytes f bits = bitsToBytes f' bits
  | 0, f', bits, h, _ => by
    have : bits = [] := by cases bits <;> simp_all <;> omega
    subst this; simp [bitsToBytes_nil]
  | f + 1, 0, bits, _, h' => by
    have : bits = [] := by cases bits <;> simp_all <;> omega
    subst this; simp [bitsToBytes_nil]
  | f + 1, f' + 1, bits, h, h' => by
    cases bits with
    | nil => simp [bitsToBytes]
    | cons b bs =>
      simp only [bitsToBytes, List.isEmpty_cons, Bool.false_eq_true, if_false]
      rw [bitsToBytes_fuel f f' _ (by simp only [List.length_drop, List.length_cons] at h ⊢; omega)
        (by simp only [List.length_drop, List.length_cons] at h' ⊢; omega)]

theorem bitsToBytes_append_aligned : ∀ (k f : Nat) (a b : List Bool), a.length = 8 * k →
    k + (b.length + 7) / 8 ≤ f → bitsToBytes f (a ++ b) = bitsToBytes k a ++ bitsToBytes (f - k) b
  | 0, f, a, b, hl, _ => by
    have : a = [] := by cases a <;> simp_all
    subst this; simp [bitsToBytes]
  | k + 1, 0, _, _, _, hf => by omega
  | k + 1, f + 1, a, b, hl, hf => by
    have hne : (a ++ b).isEmpty = false := by cases a <;> simp_all
    have hne' : a.isEmpty = false := by cases a <;> simp_all
    simp only [bitsToBytes, hne, hne', Bool.false_eq_true, if_false, List.cons_append]
    rw [List.take_append_of_le_length (by omega), List.drop_append_of_le_length (by omega)]
    rw [bitsToBytes_append_aligned k f (a.drop 8) b (by rw [List.length_drop]; omega) (by omega)]
    have : f + 1 - (k + 1) = f - k := by omega
    rw [this]

theorem packBits_append (w : Nat) (a b : List Nat) : packBits w (a ++ b) = packBits w a ++ packBits w b := by
  simp [packBits]

theorem goPackWord_eq (w : Nat) : ∀ g : List Nat, goPackWord w g = fromBits (packBits w (g.map (· % 2 ^ w)))
  | [] => rfl
  | x :: xs => by
    have ih := goPackWord_eq w xs
    simp only [packBits] at ih
    simp only [goPackWord, packBits, List.map_cons, List.flatten_cons, fromBits_append, toBits_length, ih]
    rw [fromBits_toBits w _ (Nat.mod_lt _ (Nat.two_pow_pos w))]

theorem goPackBytesGroup_eq (w : Nat) (g : List Nat) (hl : g.length = 8) :
    goPackBytesGroup w g = packBytes w g := by
  have hbl : (packBits w (g.map (· % 2 ^ w))).length = 8 * w := by
    rw [packBits_length, List.length_map, hl]
  simp only [goPackBytesGroup, packBytes, goPackWord_eq]
  rw [bitsToBytes_leBytes w _ _ hbl (by omega)]

/-- the transliterated portable kernel `encodeBytesBitpackDefault` computes exactly the LSB-first
packing of the masked values (`packBytes`, i.e. `Bits.packBits` through `bitsToBytes`). -/
theorem goEncodeBytesBitpack_eq (w : Nat) : ∀ gs : List (List Nat), (∀ g ∈ gs, g.length = 8) →
    goEncodeBytesBitpack w gs = packBytes w gs.flatten
  | [], _ => by simp [goEncodeBytesBitpack, packBytes, packBits, bitsToBytes]
  | g :: gs, h => by
    have hg := h g (by simp)
    have ih := goEncodeBytesBitpack_eq w gs (fun x hx => h x (by simp [hx]))
    simp only [goEncodeBytesBitpack] at ih
    simp only [goEncodeBytesBitpack, List.map_cons, List.flatten_cons, ih, goPackBytesGroup_eq w g hg]
    simp only [packBytes, List.map_append, packBits_append]
    have hbl : (packBits w (g.map (· % 2 ^ w))).length = 8 * w := by
      rw [packBits_length, List.length_map, hg]
    rw [bitsToBytes_append_aligned w _ _ _ hbl (by rw [List.length_append, hbl]; omega)]
    congr 1
    · exact bitsToBytes_fuel _ _ _ (by omega) (by omega)
    · exact bitsToBytes_fuel _ _ _ (by omega) (by rw [List.length_append, hbl]; omega)

theorem map_b2n_inj : ∀ (a b : List Bool), a.map b2n = b.map b2n → a = b
  | [], [], _ => rfl
  | [], _ :: _, h => by simp at h
  | _ :: _, [], h => by simp at h
  | x :: a, y :: b, h => by
    simp only [List.map_cons, List.cons.injEq] at h
    have := map_b2n_inj a b h.2
    subst this
    cases x <;> cases y <;> simp_all [b2n]

end PqModel.Rle
