/-! # The column writers of a row group while its ordinal is not known ("pending until Commit")

MIRROR of writer.go at the granularity of calls on one `ColumnWriter` and on the column writers of
one `ConcurrentRowGroupWriter`, column-oriented API:

* `newConcurrentRowGroupWriter` (writer.go:742-897): on an encrypting writer every column writer of a
  `BeginRowGroup()` row group gets `awaitOrdinal = true` (:892): the page AAD carries the row-group
  ordinal, which is known at Commit only, so nothing may be sealed before.
* `ColumnWriter.WriteRowValues` (writer.go:2414-2435): the rows go to `c.columnBuffer`; a full page
  buffer calls `c.Flush()` (a page boundary the history does not say; the harness uses it only where
  Flush is a no-op or compares row contents only).
* `ColumnWriter.Flush` (writer.go:2154-2157): `if c.columnBuffer == nil || c.awaitOrdinal { return nil }`,
  otherwise a non-empty buffer becomes a page (`c.numRows`, `c.numPages` grow, the buffer is reset).
* `ColumnWriter.Close` (writer.go:2439-2450):
  `if c.columnBuffer == nil || c.awaitOrdinal { return nil }; c.Flush(); c.columnBuffer.Reset()`.
  The parameter `guard` is the `|| c.awaitOrdinal` of that first line: `true` is the code as it is,
  `false` is the slip in which the line reads `if c.columnBuffer == nil` (Flush has a check of its
  own, but Close goes on to reset the buffer): theorem `slipped_guard_loses_values`.
* `writer.writeRowGroup` (writer.go:1524-1580 for the part modelled): `numRows :=
  rg.columns[0].totalRowCount()`, nothing happens when it is 0 (:1528-1531, before the `defer`: the
  column writers are left as they are); otherwise every column gets `awaitOrdinal = false` (:1565) and
  is flushed (:1569), the pages go to the file, and the deferred block resets every column writer and
  restores `awaitOrdinal = (rg != w.currentRowGroup)` (:1548).

SPEC side (`Spec.*`): the documentation of the column-oriented API — values written through
`ColumnWriters()[i]` belong to the row group until it is committed; `Flush` and `Close` ("closes the
column writer and resets all dependent resources. It can be reused after Close is called") are not
ways to discard rows; Commit writes the row group and leaves the writer empty and reusable. Page
boundaries do not exist in it. -/
namespace PqModel.C18Pending

/-- one `ColumnWriter` -/
structure Col (X : Type) where
  await : Bool            -- c.awaitOrdinal
  buf : List X            -- rows in c.columnBuffer
  pages : List (List X)   -- rows of the pages sealed so far (c.numPages, c.numRows)
deriving DecidableEq, Repr

inductive Ev (X : Type) where
  | write (xs : List X)   -- c.WriteRowValues(rows)
  | flush                 -- c.Flush()
  | close                 -- c.Close()
deriving DecidableEq, Repr

variable {X : Type}

/-- writer.go:2154-2157 and the page it writes -/
def flushCol (c : Col X) : Col X :=
  if c.await || c.buf.isEmpty then c else { c with pages := c.pages ++ [c.buf], buf := [] }

/-- writer.go:2439-2450; `guard` = the `|| c.awaitOrdinal` of the first line is there -/
def closeCol (guard : Bool) (c : Col X) : Col X :=
  if guard && c.await then c else { flushCol c with buf := [] }

def stepCol (guard : Bool) (c : Col X) : Ev X → Col X
  | .write xs => { c with buf := c.buf ++ xs }
  | .flush => flushCol c
  | .close => closeCol guard c

def runCol (guard : Bool) (c : Col X) (es : List (Ev X)) : Col X := es.foldl (stepCol guard) c

/-- `c.totalRowCount()` (writer.go:2145-2151) -/
def total (c : Col X) : Nat := (c.pages.map List.length).sum + c.buf.length

/-- the rows a column writer holds, in order: its sealed pages, then its buffer. This is what Commit
    puts into the column chunk (`awaitOrdinal = false`, `Flush`, the pages in order). -/
def held (c : Col X) : List X := c.pages.flatten ++ c.buf

/-- a fresh column writer of a row group (`enc` = the writer encrypts and the row group comes from
    BeginRowGroup) -/
def fresh (enc : Bool) : Col X := { await := enc, buf := [], pages := [] }

/-! ## a row group: its column writers, events addressed to a column -/

abbrev Rg (X : Type) := List (Col X)

def stepRg (guard : Bool) (rg : Rg X) (e : Nat × Ev X) : Rg X :=
  match rg[e.1]? with
  | none => rg
  | some c => rg.set e.1 (stepCol guard c e.2)

def runRg (guard : Bool) (rg : Rg X) (es : List (Nat × Ev X)) : Rg X := es.foldl (stepRg guard) rg

/-- writer.go:1524-1580: `none` = the row group is empty by the count of column 0 and nothing is
    written (the column writers stay as they are); `some (chunks, rg')` = the column chunks that go
    to the file (the rows of each column) and the column writers after the deferred reset. -/
def commitRg (enc : Bool) (rg : Rg X) : Option (List (List X) × Rg X) :=
  match rg with
  | [] => none
  | c0 :: _ =>
    if total c0 == 0 then none
    else some (rg.map (fun c => held (flushCol { c with await := false })), rg.map (fun _ => fresh enc))

/-! ## SPEC -/
namespace Spec

/-- the rows written to a column since the last Commit -/
def written : List (Ev X) → List X
  | [] => []
  | .write xs :: es => xs ++ written es
  | _ :: es => written es

/-- the events of a row-group history that go to column `i` -/
def ofCol (i : Nat) (es : List (Nat × Ev X)) : List (Ev X) :=
  (es.filter (·.1 == i)).map (·.2)

end Spec

/-! ## lemmas -/

theorem held_flushCol (c : Col X) : held (flushCol c) = held c := by
  unfold flushCol held
  split <;> simp

theorem held_flush_unawaited (c : Col X) : held (flushCol { c with await := false }) = held c := by
  unfold flushCol held
  split <;> simp

theorem flushCol_await (c : Col X) : (flushCol c).await = c.await := by
  unfold flushCol; split <;> rfl

/-- with the guard, Close keeps every row the column writer holds: nothing while the ordinal is
    awaited, and otherwise the buffer it resets has just been flushed into a page -/
theorem held_closeCol_guarded (c : Col X) : held (closeCol true c) = held c := by
  unfold closeCol
  cases hA : c.await
  · simp only [Bool.and_false, Bool.false_eq_true, if_false]
    unfold flushCol held
    simp only [hA, Bool.false_or]
    split
    · rename_i h
      have : c.buf = [] := by simpa using h
      simp [this]
    · simp
  · simp [held]

theorem closeCol_await (g : Bool) (c : Col X) : (closeCol g c).await = c.await := by
  unfold closeCol
  split
  · rfl
  · exact flushCol_await c

theorem stepCol_await (g : Bool) (c : Col X) (e : Ev X) : (stepCol g c e).await = c.await := by
  cases e
  · rfl
  · exact flushCol_await c
  · exact closeCol_await g c

theorem held_stepCol_guarded (c : Col X) (e : Ev X) :
    held (stepCol true c e) = held c ++ Spec.written [e] := by
  cases e with
  | write xs => simp [stepCol, held, Spec.written]
  | flush => simp [stepCol, held_flushCol, Spec.written]
  | close => simp [stepCol, held_closeCol_guarded, Spec.written]

theorem written_append (a b : List (Ev X)) : Spec.written (a ++ b) = Spec.written a ++ Spec.written b := by
  induction a with
  | nil => rfl
  | cons e es ih => cases e <;> simp [Spec.written, ih]

theorem held_runCol_guarded (c : Col X) (es : List (Ev X)) :
    held (runCol true c es) = held c ++ Spec.written es := by
  induction es generalizing c with
  | nil => simp [runCol, Spec.written]
  | cons e es ih =>
    have := ih (stepCol true c e)
    simp only [runCol, List.foldl_cons] at this ⊢
    rw [this, held_stepCol_guarded]
    cases e <;> simp [Spec.written]

theorem total_eq_length_held (c : Col X) : total c = (held c).length := by
  simp [total, held, List.length_flatten]

end PqModel.C18Pending
