/-! # I/O fault model (C14)

MIRROR / abstract model of the byte path from the parquet writer to the destination `io.Writer`:

    API call (Write / Flush / WriteRowGroup / Close)
      └─ write plan: a list of operations, each at a *site* of writer.go
           ├─ intermediate stores (page buffers of the columns, deferred bloom-filter buffers)
           └─ offsetTrackingWriter  (writer.go:2855-2884)
                └─ optional bufio.Writer (sticky error, flushed by `close`)   (bufio/bufio.go, Go 1.24)
                     └─ the sink: any conforming io.Writer, as a state machine

and of the trailer checks of `OpenFile` (file.go:65-131) on the reader side.

What is mirror and what is spec is said on each definition.  Everything is total and computable;
loops carry explicit fuel. -/
namespace PqModel.IoFault

abbrev Bytes := List UInt8

/-! ## The sink: a conforming `io.Writer` -/

/-- result of one `Write(p)`: `n` bytes accepted, `err` = (err != nil) -/
structure Resp where
  n : Nat
  err : Bool
  deriving Repr, DecidableEq

/-- SPEC (package io): a destination writer is a deterministic state machine; it sees its own
state, how many bytes it holds so far, and the bytes offered. -/
structure SinkM (σ : Type) where
  step : σ → Nat → Bytes → σ × Resp

/-- SPEC: the `io.Writer` contract: `0 ≤ n ≤ len(p)` and `n < len(p) → err != nil`. -/
def Conforming {σ} (m : SinkM σ) : Prop :=
  ∀ s len p, (m.step s len p).2.n ≤ p.length ∧
    ((m.step s len p).2.n < p.length → (m.step s len p).2.err = true)

/-- the sink together with what the harness observes of it: the bytes it holds and the trace of
`Write` calls `(len offered, n accepted, err)`, newest first -/
structure Sk (σ : Type) where
  st : σ
  /-- the bytes held, newest first (so that a write costs its own length only) -/
  rev : Bytes
  /-- number of bytes held (`= rev.length` for every reachable state, see `faultSink_bound`) -/
  len : Nat
  trace : List (Nat × Nat × Bool)

/-- the bytes the destination holds, in order -/
def Sk.held {σ} (s : Sk σ) : Bytes := s.rev.reverse

/-- one `Write(p)` on the sink -/
def Sk.write {σ} (m : SinkM σ) (s : Sk σ) (p : Bytes) : Sk σ × Resp :=
  let r := m.step s.st s.len p
  ({ st := r.1, rev := (p.take r.2.n).reverse ++ s.rev, len := s.len + (p.take r.2.n).length,
     trace := (p.length, r.2.n, r.2.err) :: s.trace }, r.2)

theorem Sk.held_write {σ} (m : SinkM σ) (s : Sk σ) (p : Bytes) :
    (s.write m p).1.held = s.held ++ p.take (s.write m p).2.n := by
  simp [Sk.write, Sk.held]

theorem Sk.write_resp {σ} (m : SinkM σ) (s : Sk σ) (p : Bytes) :
    (s.write m p).2 = (m.step s.st s.len p).2 := rfl

/-- SPEC: the fault sinks of the enumeration.  Byte index `k` (0-based) can never be stored
(`k = none`: no fault).  A write that would cross `k` fails: with `short` it first accepts the
bytes below `k` (`0 ≤ n < len`, `err != nil`), without it accepts nothing.  With `sticky` every
write after the first failure fails too; without, a later smaller write that fits below `k`
is accepted again (a full disk: the *capacity* mode).  With `oneshot` only the first write that
would cross `k` fails and every later write is accepted whole (a *transient* failure: a conforming
io.Writer may fail one call and accept the next).  State: "a write has failed". -/
structure Fault where
  k : Option Nat
  short : Bool
  sticky : Bool
  oneshot : Bool
  deriving Repr, DecidableEq

def faultSink (f : Fault) : SinkM Bool where
  step failed len p :=
    if f.sticky && failed then (true, ⟨0, true⟩) else
    if f.oneshot && failed then (true, ⟨p.length, false⟩) else
    match f.k with
    | none => (failed, ⟨p.length, false⟩)
    | some k =>
      if len + p.length ≤ k then (failed, ⟨p.length, false⟩)
      else if f.short then (true, ⟨k - len, true⟩)
      else (true, ⟨0, true⟩)

theorem faultSink_conforming (f : Fault) : Conforming (faultSink f) := by
  intro s len p
  simp only [faultSink]
  split
  · simp
  · split
    · simp
    · split
      · simp
      · split
        · simp
        · split
          · constructor
            · simp only; omega
            · intro _; rfl
          · simp

/-- SPEC: fault points per `Write` *call* instead of per byte offset: the `i`-th call (0-based) of
the destination fails whatever it is offered, even nothing — rejected whole, or with `short` after
accepting half of it; with `sticky` every later call fails too, without it the failure is
transient.  State: (calls seen, "a call has failed"). -/
structure CallFault where
  i : Nat
  short : Bool
  sticky : Bool
  deriving Repr, DecidableEq

def callSink (f : CallFault) : SinkM (Nat × Bool) where
  step st _ p :=
    if f.sticky && st.2 then ((st.1 + 1, true), ⟨0, true⟩)
    else if st.1 = f.i then ((st.1 + 1, true), ⟨if f.short then p.length / 2 else 0, true⟩)
    else ((st.1 + 1, st.2), ⟨p.length, false⟩)

theorem callSink_conforming (f : CallFault) : Conforming (callSink f) := by
  intro s len p
  simp only [callSink]
  split
  · simp
  · split
    · refine ⟨?_, fun _ => rfl⟩
      split
      · exact Nat.div_le_self _ _
      · exact Nat.zero_le _
    · simp

/-- states of the sink reachable by further `Write` calls -/
inductive Reach {σ} (m : SinkM σ) : Sk σ → Sk σ → Prop where
  | refl (s) : Reach m s s
  | step {s t} (p : Bytes) : Reach m s t → Reach m s (t.write m p).1

theorem Reach.trans {σ} {m : SinkM σ} {a b c : Sk σ} (h1 : Reach m a b) (h2 : Reach m b c) :
    Reach m a c := by
  induction h2 with
  | refl => exact h1
  | step p _ ih => exact Reach.step p ih

theorem Reach.one {σ} (m : SinkM σ) (s : Sk σ) (p : Bytes) : Reach m s (s.write m p).1 :=
  Reach.step p (Reach.refl s)

/-- an invariant of single writes holds along any reachable path -/
theorem Reach.inv {σ} {m : SinkM σ} (P : Sk σ → Prop) (hP : ∀ s p, P s → P (s.write m p).1)
    {a b : Sk σ} (h : Reach m a b) (ha : P a) : P b := by
  induction h with
  | refl => exact ha
  | step p _ ih => exact hP _ p ih

/-- the fault sink never holds byte `k` -/
theorem faultSink_bound (f : Fault) (k : Nat) (hk : f.k = some k) (hone : f.oneshot = false)
    {a b : Sk Bool}
    (h : Reach (faultSink f) a b) (hlen : a.len = a.held.length) (ha : a.held.length ≤ k) :
    b.held.length ≤ k := by
  have := Reach.inv (fun s => s.len = s.held.length ∧ s.held.length ≤ k) ?_ h ⟨hlen, ha⟩
  · exact this.2
  intro s p ⟨hl, hs⟩
  rw [Sk.held_write]
  simp only [Sk.write, faultSink, hk, hone, Bool.false_and, Bool.false_eq_true, if_false, Sk.held,
    List.length_reverse] at hl hs ⊢
  split
  · simp; omega
  · split
    · simp only [List.length_append, List.length_take, List.length_reverse]; omega
    · split
      · simp only [List.length_append, List.length_take, List.length_reverse]; omega
      · simp; omega

/-! ## bufio.Writer (mirror of bufio/bufio.go `Writer`, Go 1.24) -/

/-- `bufio.Writer`: `buf = b.buf[0:b.n]`, `cap = len(b.buf)`, `err = (b.err != nil)` -/
structure Bufio where
  cap : Nat
  buf : Bytes
  err : Bool
  deriving Repr, DecidableEq

def Bufio.avail (b : Bufio) : Nat := b.cap - b.buf.length

/-- MIRROR `(*Writer).Flush` (bufio/bufio.go:636-657, go1.24.9): returns the new state and `err != nil`.
A short count without error becomes `io.ErrShortWrite`; the unwritten tail is moved to the front
of the buffer; the error sticks. -/
def bufFlush {σ} (m : SinkM σ) (b : Bufio) (sk : Sk σ) : Bufio × Sk σ × Bool :=
  if b.err then (b, sk, true)
  else if b.buf.length = 0 then (b, sk, false)
  else
    let w := sk.write m b.buf
    if w.2.err || decide (w.2.n < b.buf.length) then
      ({ b with buf := b.buf.drop w.2.n, err := true }, w.1, true)
    else ({ b with buf := [] }, w.1, false)

/-- MIRROR the loop of `(*Writer).Write` (bufio/bufio.go:677-699)
`for len(p) > b.Available() && b.err == nil { … }`; state `(b, sink, rest of p, nn)`.
Out of fuel is reported as an error (it cannot happen with a conforming sink and fuel 3:
`bufWriteLoop_fuel`). -/
def bufWriteLoop {σ} (m : SinkM σ) : Nat → Bufio → Sk σ → Bytes → Nat → Bufio × Sk σ × Bytes × Nat
  | 0, b, sk, p, nn =>
    if p.length > b.avail ∧ b.err = false then ({ b with err := true }, sk, p, nn) else (b, sk, p, nn)
  | fuel + 1, b, sk, p, nn =>
    if p.length > b.avail ∧ b.err = false then
      if b.buf.length = 0 then
        -- large write, empty buffer: write directly from p
        let w := sk.write m p
        bufWriteLoop m fuel { b with err := w.2.err } w.1 (p.drop w.2.n) (nn + w.2.n)
      else
        let n := b.avail            -- copy(b.buf[b.n:], p) with len(p) > Available()
        let f := bufFlush m { b with buf := b.buf ++ p.take n } sk
        bufWriteLoop m fuel f.1 f.2.1 (p.drop n) (nn + n)
    else (b, sk, p, nn)

/-- MIRROR `(*Writer).Write` -/
def bufWrite {σ} (m : SinkM σ) (b : Bufio) (sk : Sk σ) (p : Bytes) : Bufio × Sk σ × Resp :=
  let l := bufWriteLoop m 3 b sk p 0
  if l.1.err then (l.1, l.2.1, ⟨l.2.2.2, true⟩)
  else ({ l.1 with buf := l.1.buf ++ l.2.2.1 }, l.2.1, ⟨l.2.2.2 + l.2.2.1.length, false⟩)

/-- MIRROR the loop of `(*Writer).WriteString` (bufio/bufio.go:748-781) for a sink that is not an
`io.StringWriter`: fill the buffer, flush, repeat. -/
def bufWriteStringLoop {σ} (m : SinkM σ) : Nat → Bufio → Sk σ → Bytes → Nat → Bufio × Sk σ × Bytes × Nat
  | 0, b, sk, p, nn =>
    if p.length > b.avail ∧ b.err = false then ({ b with err := true }, sk, p, nn) else (b, sk, p, nn)
  | fuel + 1, b, sk, p, nn =>
    if p.length > b.avail ∧ b.err = false then
      let n := b.avail
      let f := bufFlush m { b with buf := b.buf ++ p.take n } sk
      bufWriteStringLoop m fuel f.1 f.2.1 (p.drop n) (nn + n)
    else (b, sk, p, nn)

/-- MIRROR `(*Writer).WriteString`; fuel `len(s)+1` suffices when `cap ≥ 1`
(`bufWriteStringLoop_fuel`). -/
def bufWriteString {σ} (m : SinkM σ) (b : Bufio) (sk : Sk σ) (p : Bytes) : Bufio × Sk σ × Resp :=
  let l := bufWriteStringLoop m (p.length + 1) b sk p 0
  if l.1.err then (l.1, l.2.1, ⟨l.2.2.2, true⟩)
  else ({ l.1 with buf := l.1.buf ++ l.2.2.1 }, l.2.1, ⟨l.2.2.2 + l.2.2.1.length, false⟩)

/-- MIRROR the loop of `(*Writer).ReadFrom` (bufio/bufio.go:785-831; fuel: `bufReadFromLoop_fuel`) for a sink that is not an
`io.ReaderFrom` and a source `src` whose `Read(buf)` returns `min(len(buf), remaining)` bytes
(bytes.Reader, io.SectionReader, os.File): flush when full, read straight into the free part of
the buffer; at EOF "if we filled the buffer exactly, flush preemptively". -/
def bufReadFromLoop {σ} (m : SinkM σ) : Nat → Bufio → Sk σ → Bytes → Nat → Bufio × Sk σ × Resp
  | 0, b, sk, _, n => ({ b with err := true }, sk, ⟨n, true⟩)      -- io.ErrNoProgress (cap = 0 only)
  | fuel + 1, b, sk, src, n =>
    let f := if b.avail = 0 then bufFlush m b sk else (b, sk, false)
    if f.2.2 then (f.1, f.2.1, ⟨n, true⟩)
    else if src.length = 0 then
      if f.1.avail = 0 then
        let g := bufFlush m f.1 f.2.1
        (g.1, g.2.1, ⟨n, g.2.2⟩)
      else (f.1, f.2.1, ⟨n, false⟩)
    else
      let k := min src.length f.1.avail
      bufReadFromLoop m fuel { f.1 with buf := f.1.buf ++ src.take k } f.2.1 (src.drop k) (n + k)

/-- MIRROR `(*Writer).ReadFrom` -/
def bufReadFrom {σ} (m : SinkM σ) (b : Bufio) (sk : Sk σ) (src : Bytes) : Bufio × Sk σ × Resp :=
  if b.err then (b, sk, ⟨0, true⟩) else bufReadFromLoop m (src.length + 1) b sk src 0

/-! ### Facts about the bufio mirror -/

theorem bufFlush_spec {σ} (m : SinkM σ) (b : Bufio) (sk : Sk σ) :
    (bufFlush m b sk).2.1.held ++ (bufFlush m b sk).1.buf = sk.held ++ b.buf ∧
    ((bufFlush m b sk).2.2 = false → (bufFlush m b sk).1.buf = [] ∧ (bufFlush m b sk).1.err = false) ∧
    ((bufFlush m b sk).2.2 = true → (bufFlush m b sk).1.err = true) ∧
    (b.err = true → bufFlush m b sk = (b, sk, true)) ∧
    Reach m sk (bufFlush m b sk).2.1 ∧ (bufFlush m b sk).1.cap = b.cap := by
  unfold bufFlush
  by_cases he : b.err = true
  · simp [he, Reach.refl]
  · by_cases h0 : b.buf.length = 0
    · have : b.buf = [] := List.eq_nil_of_length_eq_zero h0
      simp [he, this, Reach.refl]
    · simp only [he, h0, Bool.false_eq_true, if_false]
      split
      · refine ⟨?_, by simp, by simp, by simp, Reach.one m sk _, rfl⟩
        simp [Sk.held_write, List.append_assoc]
      · rename_i hne
        have hn : ¬ ((sk.write m b.buf).2.n < b.buf.length) := by
          intro h; apply hne; simp [h]
        refine ⟨?_, by simp, by simp, by simp, Reach.one m sk _, rfl⟩
        simp only [Sk.held_write, List.append_nil] at hn ⊢
        rw [List.take_of_length_le (by omega)]

/-- loop invariant of `Write`: `j` bytes of `p` consumed, all of them in the sink or the buffer -/
theorem bufWriteLoop_spec {σ} (m : SinkM σ) (hm : Conforming m) :
    ∀ (fuel : Nat) (b : Bufio) (sk : Sk σ) (p : Bytes) (nn : Nat),
    ∃ j, j ≤ p.length ∧
      (bufWriteLoop m fuel b sk p nn).2.2.1 = p.drop j ∧
      (bufWriteLoop m fuel b sk p nn).2.2.2 = nn + j ∧
      (bufWriteLoop m fuel b sk p nn).2.1.held ++ (bufWriteLoop m fuel b sk p nn).1.buf
        = sk.held ++ b.buf ++ p.take j ∧
      (b.err = true → bufWriteLoop m fuel b sk p nn = (b, sk, p, nn)) ∧
      ((bufWriteLoop m fuel b sk p nn).1.err = false →
        (p.drop j).length ≤ (bufWriteLoop m fuel b sk p nn).1.avail) ∧
      Reach m sk (bufWriteLoop m fuel b sk p nn).2.1 ∧
      (bufWriteLoop m fuel b sk p nn).1.cap = b.cap := by
  intro fuel
  induction fuel with
  | zero =>
    intro b sk p nn
    refine ⟨0, Nat.zero_le _, ?_⟩
    unfold bufWriteLoop
    split
    · rename_i h; simp [h.2, Reach.refl]
    · rename_i h
      refine ⟨by simp, by simp, by simp, by simp, ?_, Reach.refl _, rfl⟩
      intro he; simp only [List.drop_zero]
      have he' : b.err = false := he
      have : ¬ (p.length > b.avail) := fun hh => h ⟨hh, he'⟩
      omega
  | succ fuel ih =>
    intro b sk p nn
    unfold bufWriteLoop
    split
    · rename_i h
      obtain ⟨hlen, he⟩ := h
      split
      · -- direct write
        rename_i h0
        have hb : b.buf = [] := List.eq_nil_of_length_eq_zero h0
        have hc := hm sk.st sk.len p
        obtain ⟨j, hj, h1, h2, h3, _, h5, h6, h7⟩ :=
          ih { b with err := (sk.write m p).2.err } (sk.write m p).1 (p.drop (sk.write m p).2.n) (nn + (sk.write m p).2.n)
        have hn : (sk.write m p).2.n ≤ p.length := hc.1
        refine ⟨(sk.write m p).2.n + j, ?_, ?_, ?_, ?_, ?_, ?_, ?_, ?_⟩
        · simp only [List.length_drop] at hj; omega
        · rw [h1, List.drop_drop]
        · rw [h2]; omega
        · rw [h3]; simp only [Sk.held_write, hb, List.append_nil, List.append_assoc, List.take_add]
        · intro h; simp [he] at h
        · intro h; have := h5 h; rw [List.drop_drop] at this; exact this
        · exact Reach.trans (Reach.one m sk p) h6
        · rw [h7]
      · -- fill the buffer and flush
        rename_i h0
        obtain ⟨f1, f2, f3, f4, f5, f6⟩ := bufFlush_spec m { b with buf := b.buf ++ p.take b.avail } sk
        obtain ⟨j, hj, h1, h2, h3, _, h5, h6, h7⟩ :=
          ih (bufFlush m { b with buf := b.buf ++ p.take b.avail } sk).1
            (bufFlush m { b with buf := b.buf ++ p.take b.avail } sk).2.1 (p.drop b.avail) (nn + b.avail)
        refine ⟨b.avail + j, ?_, ?_, ?_, ?_, ?_, ?_, ?_, ?_⟩
        · simp only [List.length_drop] at hj; omega
        · rw [h1, List.drop_drop]
        · rw [h2]; omega
        · rw [h3, f1]; simp only [List.append_assoc, List.take_add]
        · intro h; simp [he] at h
        · intro h; have := h5 h; rw [List.drop_drop] at this; exact this
        · exact Reach.trans f5 h6
        · rw [h7, f6]
    · rename_i h
      refine ⟨0, Nat.zero_le _, by simp, by simp, by simp, by simp, ?_, Reach.refl _, rfl⟩
      intro he; simp only [List.drop_zero]
      have he' : b.err = false := he
      have : ¬ (p.length > b.avail) := fun hh => h ⟨hh, he'⟩
      omega

/-! ### Fuel: the loop of `Write` ends within two iterations on a conforming sink -/

theorem bufWriteLoop_done {σ} (m : SinkM σ) (b : Bufio) (sk : Sk σ) (p : Bytes) (nn : Nat)
    (h : ¬ (p.length > b.avail ∧ b.err = false)) :
    ∀ fuel, bufWriteLoop m fuel b sk p nn = (b, sk, p, nn)
  | 0 => by simp [bufWriteLoop, h]
  | fuel + 1 => by simp [bufWriteLoop, h]

/-- after a direct write the loop condition is false: either the error is set or `p` is used up -/
theorem direct_write_done {σ} (m : SinkM σ) (hm : Conforming m) (b : Bufio) (sk : Sk σ) (p : Bytes) :
    ¬ ((p.drop (sk.write m p).2.n).length > ({ b with err := (sk.write m p).2.err } : Bufio).avail ∧
      ({ b with err := (sk.write m p).2.err } : Bufio).err = false) := by
  intro ⟨hlen, he⟩
  have hc := hm sk.st sk.len p
  have he' : (m.step sk.st sk.len p).2.err = false := he
  have : ¬ ((m.step sk.st sk.len p).2.n < p.length) := fun hh => by
    have := hc.2 hh; rw [he'] at this; cases this
  simp only [Sk.write_resp, List.length_drop] at hlen
  omega

set_option linter.unusedSimpArgs false in
theorem bufWriteLoop_fuel_empty {σ} (m : SinkM σ) (hm : Conforming m) (b : Bufio) (sk : Sk σ)
    (p : Bytes) (nn : Nat) (h0 : b.buf.length = 0) (f : Nat) :
    bufWriteLoop m (f + 1) b sk p nn = bufWriteLoop m 1 b sk p nn := by
  unfold bufWriteLoop
  split
  · simp only [h0, if_true]
    rw [bufWriteLoop_done m _ _ _ _ (direct_write_done m hm b sk p) f,
      bufWriteLoop_done m _ _ _ _ (direct_write_done m hm b sk p) 0]
  · rfl

/-- MIRROR adequacy: more fuel than 2 never changes the result of the `Write` loop (so the
"out of fuel" branch of `bufWriteLoop` is dead for the fuel 3 used by `bufWrite`) -/
theorem bufWriteLoop_fuel {σ} (m : SinkM σ) (hm : Conforming m) (b : Bufio) (sk : Sk σ)
    (p : Bytes) (nn : Nat) (f : Nat) :
    bufWriteLoop m (f + 2) b sk p nn = bufWriteLoop m 2 b sk p nn := by
  unfold bufWriteLoop
  split
  · split
    · rw [bufWriteLoop_done m _ _ _ _ (direct_write_done m hm b sk p) (f + 1),
        bufWriteLoop_done m _ _ _ _ (direct_write_done m hm b sk p) 1]
    · obtain ⟨_, f2, f3, _, _, _⟩ := bufFlush_spec m { b with buf := b.buf ++ p.take b.avail } sk
      cases he : (bufFlush m { b with buf := b.buf ++ p.take b.avail } sk).1.err with
      | true =>
        have hd : ¬ ((p.drop b.avail).length > (bufFlush m { b with buf := b.buf ++ p.take b.avail } sk).1.avail ∧
            (bufFlush m { b with buf := b.buf ++ p.take b.avail } sk).1.err = false) := by
          intro ⟨_, h⟩; rw [he] at h; cases h
        rw [bufWriteLoop_done m _ _ _ _ hd (f + 1), bufWriteLoop_done m _ _ _ _ hd 1]
      | false =>
        have hflush : (bufFlush m { b with buf := b.buf ++ p.take b.avail } sk).2.2 = false := by
          cases h : (bufFlush m { b with buf := b.buf ++ p.take b.avail } sk).2.2 with
          | false => rfl
          | true => have := f3 h; rw [he] at this; cases this
        have h0 : (bufFlush m { b with buf := b.buf ++ p.take b.avail } sk).1.buf.length = 0 := by
          rw [(f2 hflush).1]; rfl
        exact bufWriteLoop_fuel_empty m hm _ _ _ _ h0 f
  · rfl

theorem bufWriteStringLoop_done {σ} (m : SinkM σ) (b : Bufio) (sk : Sk σ) (p : Bytes) (nn : Nat)
    (h : ¬ (p.length > b.avail ∧ b.err = false)) :
    ∀ fuel, bufWriteStringLoop m fuel b sk p nn = (b, sk, p, nn)
  | 0 => by simp [bufWriteStringLoop, h]
  | fuel + 1 => by simp [bufWriteStringLoop, h]

/-- MIRROR adequacy: the `WriteString` loop needs at most `len(s) + 1` iterations when the buffer
has room for at least one byte (`bufio.NewWriterSize` never makes a smaller one) -/
theorem bufWriteStringLoop_fuel_aux {σ} (m : SinkM σ) :
    ∀ (fuel : Nat) (b : Bufio) (sk : Sk σ) (p : Bytes) (nn extra : Nat), 1 ≤ b.cap →
      (1 ≤ b.avail ∨ p.length + 1 ≤ fuel) → p.length ≤ fuel →
      bufWriteStringLoop m (fuel + extra) b sk p nn = bufWriteStringLoop m fuel b sk p nn := by
  intro fuel
  induction fuel with
  | zero =>
    intro b sk p nn extra _ _ hp
    have hd : ¬ (p.length > b.avail ∧ b.err = false) := by intro ⟨h, _⟩; omega
    rw [bufWriteStringLoop_done m b sk p nn hd, bufWriteStringLoop_done m b sk p nn hd]
  | succ fuel ih =>
    intro b sk p nn extra hcap hav hp
    by_cases hc : p.length > b.avail ∧ b.err = false
    · rw [show fuel + 1 + extra = (fuel + extra) + 1 by omega]
      unfold bufWriteStringLoop
      rw [if_pos hc, if_pos hc]
      show bufWriteStringLoop m (fuel + extra) (bufFlush m { b with buf := b.buf ++ p.take b.avail } sk).1
          (bufFlush m { b with buf := b.buf ++ p.take b.avail } sk).2.1 (p.drop b.avail) (nn + b.avail) =
        bufWriteStringLoop m fuel (bufFlush m { b with buf := b.buf ++ p.take b.avail } sk).1
          (bufFlush m { b with buf := b.buf ++ p.take b.avail } sk).2.1 (p.drop b.avail) (nn + b.avail)
      have hs := bufFlush_spec m { b with buf := b.buf ++ p.take b.avail } sk
      generalize bufFlush m { b with buf := b.buf ++ p.take b.avail } sk = X at hs ⊢
      obtain ⟨_, f2, f3, _, _, f6⟩ := hs
      have hcap' : X.1.cap = b.cap := f6
      cases he : X.1.err with
      | true =>
        have hd : ¬ ((p.drop b.avail).length > X.1.avail ∧ X.1.err = false) := by
          intro ⟨_, h⟩; rw [he] at h; cases h
        rw [bufWriteStringLoop_done m _ _ _ _ hd, bufWriteStringLoop_done m _ _ _ _ hd]
      | false =>
        have hflush : X.2.2 = false := by
          cases h : X.2.2 with
          | false => rfl
          | true => have := f3 h; rw [he] at this; cases this
        have hb0 := (f2 hflush).1
        apply ih
        · rw [hcap']; exact hcap
        · left
          show 1 ≤ X.1.cap - X.1.buf.length
          rw [hb0, hcap']; simp only [List.length_nil]; omega
        · simp only [List.length_drop]
          cases hav with
          | inl h => omega
          | inr h => omega
    · rw [bufWriteStringLoop_done m b sk p nn hc, bufWriteStringLoop_done m b sk p nn hc]

theorem bufWriteStringLoop_fuel {σ} (m : SinkM σ) (b : Bufio) (sk : Sk σ) (p : Bytes) (nn extra : Nat)
    (hcap : 1 ≤ b.cap) :
    bufWriteStringLoop m (p.length + 1 + extra) b sk p nn = bufWriteStringLoop m (p.length + 1) b sk p nn :=
  bufWriteStringLoop_fuel_aux m (p.length + 1) b sk p nn extra hcap (Or.inr (Nat.le_refl _)) (Nat.le_succ _)

/-- MIRROR adequacy: the `ReadFrom` loop needs at most `len(src) + 1` iterations when `cap ≥ 1` -/
theorem bufReadFromLoop_fuel {σ} (m : SinkM σ) :
    ∀ (fuel : Nat) (b : Bufio) (sk : Sk σ) (src : Bytes) (n extra : Nat), 1 ≤ b.cap →
      src.length + 1 ≤ fuel →
      bufReadFromLoop m (fuel + extra) b sk src n = bufReadFromLoop m fuel b sk src n := by
  intro fuel
  induction fuel with
  | zero => intro b sk src n extra _ h; omega
  | succ fuel ih =>
    intro b sk src n extra hcap hfuel
    rw [show fuel + 1 + extra = (fuel + extra) + 1 by omega]
    -- the state after the optional flush at the top
    have hf : ∃ f : Bufio × Sk σ × Bool, f = (if b.avail = 0 then bufFlush m b sk else (b, sk, false)) ∧
        f.1.cap = b.cap ∧ (f.2.2 = false → 1 ≤ f.1.avail) := by
      refine ⟨_, rfl, ?_⟩
      by_cases h0 : b.avail = 0
      · obtain ⟨_, f2, _, _, _, f6⟩ := bufFlush_spec m b sk
        rw [if_pos h0]
        refine ⟨f6, fun h => ?_⟩
        show 1 ≤ (bufFlush m b sk).1.cap - (bufFlush m b sk).1.buf.length
        rw [(f2 h).1, f6]; simp only [List.length_nil]; omega
      · rw [if_neg h0]
        exact ⟨rfl, fun _ => by show 1 ≤ b.avail; omega⟩
    obtain ⟨f, hfeq, hc, ha⟩ := hf
    unfold bufReadFromLoop
    simp only [← hfeq]
    split
    · rfl
    · rename_i he
      split
      · rfl
      · rename_i hs
        have hav := ha (by simpa using he)
        apply ih
        · show 1 ≤ f.1.cap
          rw [hc]; exact hcap
        · simp only [List.length_drop]; omega

/-- a sink write inside `Flush` that fails or is short sets the sticky error -/
theorem flush_failure_sticks {σ} (m : SinkM σ) (b : Bufio) (sk : Sk σ) (he : b.err = false)
    (hn : b.buf.length ≠ 0)
    (hbad : (sk.write m b.buf).2.err = true ∨ (sk.write m b.buf).2.n < b.buf.length) :
    (bufFlush m b sk).1.err = true ∧ (bufFlush m b sk).2.2 = true := by
  unfold bufFlush
  have : ((sk.write m b.buf).2.err || decide ((sk.write m b.buf).2.n < b.buf.length)) = true := by
    cases hbad with
    | inl h => simp [h]
    | inr h => simp [h]
  simp [he, hn, this]

/-! ## The chain below the offsetTrackingWriter -/

/-- `w.writer.writer`: the optional `bufio.Writer` (`WriteBufferSize > 0`, writer.go:1095-1101)
and the sink -/
structure Under (σ : Type) where
  bw : Option Bufio
  sk : Sk σ

/-- everything accepted by the chain and not lost: sink contents, then the buffered bytes -/
def Under.deliv {σ} (u : Under σ) : Bytes :=
  u.sk.held ++ (match u.bw with | some b => b.buf | none => [])

/-- the sticky error of the bufio.Writer -/
def Under.berr {σ} (u : Under σ) : Bool := match u.bw with | some b => b.err | none => false

/-- what every transfer primitive guarantees (`p` = bytes offered, `r` = its result) -/
structure PrimOK {σ} (m : SinkM σ) (u u' : Under σ) (p : Bytes) (r : Resp) : Prop where
  deliv : u'.deliv = u.deliv ++ p.take r.n
  le : r.n ≤ p.length
  full : r.err = false → r.n = p.length
  errOut : r.err = true → u.bw.isSome = true → u'.berr = true
  mono : u.berr = true → u' = u
  reach : Reach m u.sk u'.sk
  shape : u'.bw.isSome = u.bw.isSome

/-- MIRROR `w.writer.writer.Write(p)` -/
def uWrite {σ} (m : SinkM σ) (u : Under σ) (p : Bytes) : Under σ × Resp :=
  match u.bw with
  | none => let w := u.sk.write m p; (⟨none, w.1⟩, w.2)
  | some b => let w := bufWrite m b u.sk p; (⟨some w.1, w.2.1⟩, w.2.2)

theorem uWrite_ok {σ} (m : SinkM σ) (hm : Conforming m) (u : Under σ) (p : Bytes) :
    PrimOK m u (uWrite m u p).1 p (uWrite m u p).2 := by
  obtain ⟨bw, sk⟩ := u
  cases bw with
  | none =>
    have hc := hm sk.st sk.len p
    refine ⟨?_, hc.1, ?_, ?_, ?_, Reach.one m sk p, rfl⟩
    · simp [uWrite, Under.deliv, Sk.held_write]
    · intro h
      have : ¬ ((m.step sk.st sk.len p).2.n < p.length) := fun hh => by
        have := hc.2 hh; simp [uWrite, Sk.write_resp] at h; simp [h] at this
      simp only [uWrite, Sk.write_resp]; omega
    · intro _ h; simp at h
    · intro h; simp [Under.berr] at h
  | some b =>
    obtain ⟨j, hj, h1, h2, h3, h4, h5, h6, h7⟩ := bufWriteLoop_spec m hm 3 b sk p 0
    simp only [uWrite, bufWrite]
    split
    · rename_i he
      refine ⟨?_, ?_, ?_, ?_, ?_, h6, rfl⟩
      · simp only [Under.deliv]; rw [h3, h2]; simp
      · simp only; rw [h2]; omega
      · intro h; simp at h
      · intro _ _; simpa [Under.berr] using he
      · intro h; simp only [Under.berr] at h; rw [h4 h]
    · rename_i he
      have he' : (bufWriteLoop m 3 b sk p 0).1.err = false := by simpa using he
      refine ⟨?_, ?_, ?_, ?_, ?_, h6, rfl⟩
      · simp only [Under.deliv]; rw [← List.append_assoc, h3, h2, h1]
        simp only [List.length_drop, Nat.zero_add]
        rw [show j + (p.length - j) = p.length by omega, List.take_length, List.append_assoc,
          List.take_append_drop]
      · simp only; rw [h2, h1]; simp only [List.length_drop]; omega
      · intro _; simp only; rw [h2, h1]; simp only [List.length_drop]; omega
      · intro h; simp at h
      · intro h; simp only [Under.berr] at h; rw [h4 h] at he; simp [h] at he

theorem bufWriteStringLoop_spec {σ} (m : SinkM σ) :
    ∀ (fuel : Nat) (b : Bufio) (sk : Sk σ) (p : Bytes) (nn : Nat),
    ∃ j, j ≤ p.length ∧
      (bufWriteStringLoop m fuel b sk p nn).2.2.1 = p.drop j ∧
      (bufWriteStringLoop m fuel b sk p nn).2.2.2 = nn + j ∧
      (bufWriteStringLoop m fuel b sk p nn).2.1.held ++ (bufWriteStringLoop m fuel b sk p nn).1.buf
        = sk.held ++ b.buf ++ p.take j ∧
      (b.err = true → bufWriteStringLoop m fuel b sk p nn = (b, sk, p, nn)) ∧
      ((bufWriteStringLoop m fuel b sk p nn).1.err = false →
        (p.drop j).length ≤ (bufWriteStringLoop m fuel b sk p nn).1.avail) ∧
      Reach m sk (bufWriteStringLoop m fuel b sk p nn).2.1 ∧
      (bufWriteStringLoop m fuel b sk p nn).1.cap = b.cap := by
  intro fuel
  induction fuel with
  | zero =>
    intro b sk p nn
    refine ⟨0, Nat.zero_le _, ?_⟩
    unfold bufWriteStringLoop
    split
    · rename_i h; simp [h.2, Reach.refl]
    · rename_i h
      refine ⟨by simp, by simp, by simp, by simp, ?_, Reach.refl _, rfl⟩
      intro he; simp only [List.drop_zero]
      have he' : b.err = false := he
      have : ¬ (p.length > b.avail) := fun hh => h ⟨hh, he'⟩
      omega
  | succ fuel ih =>
    intro b sk p nn
    unfold bufWriteStringLoop
    split
    · rename_i h
      obtain ⟨hlen, he⟩ := h
      obtain ⟨f1, f2, f3, f4, f5, f6⟩ := bufFlush_spec m { b with buf := b.buf ++ p.take b.avail } sk
      obtain ⟨j, hj, h1, h2, h3, _, h5, h6, h7⟩ :=
        ih (bufFlush m { b with buf := b.buf ++ p.take b.avail } sk).1
          (bufFlush m { b with buf := b.buf ++ p.take b.avail } sk).2.1 (p.drop b.avail) (nn + b.avail)
      refine ⟨b.avail + j, ?_, ?_, ?_, ?_, ?_, ?_, ?_, ?_⟩
      · simp only [List.length_drop] at hj; omega
      · rw [h1, List.drop_drop]
      · rw [h2]; omega
      · rw [h3, f1]; simp only [List.append_assoc, List.take_add]
      · intro h; simp [he] at h
      · intro h; have := h5 h; rw [List.drop_drop] at this; exact this
      · exact Reach.trans f5 h6
      · rw [h7, f6]
    · rename_i h
      refine ⟨0, Nat.zero_le _, by simp, by simp, by simp, by simp, ?_, Reach.refl _, rfl⟩
      intro he; simp only [List.drop_zero]
      have he' : b.err = false := he
      have : ¬ (p.length > b.avail) := fun hh => h ⟨hh, he'⟩
      omega

/-- MIRROR `io.WriteString(w.writer.writer, s)` (offsetTrackingWriter.WriteString, writer.go:2871):
the sink is not an `io.StringWriter`, so unbuffered this is `Write([]byte(s))`. -/
def uWriteString {σ} (m : SinkM σ) (u : Under σ) (p : Bytes) : Under σ × Resp :=
  match u.bw with
  | none => let w := u.sk.write m p; (⟨none, w.1⟩, w.2)
  | some b => let w := bufWriteString m b u.sk p; (⟨some w.1, w.2.1⟩, w.2.2)

theorem uWriteString_ok {σ} (m : SinkM σ) (hm : Conforming m) (u : Under σ) (p : Bytes) :
    PrimOK m u (uWriteString m u p).1 p (uWriteString m u p).2 := by
  obtain ⟨bw, sk⟩ := u
  cases bw with
  | none => exact uWrite_ok m hm ⟨none, sk⟩ p
  | some b =>
    obtain ⟨j, hj, h1, h2, h3, h4, h5, h6, h7⟩ := bufWriteStringLoop_spec m (p.length + 1) b sk p 0
    simp only [uWriteString, bufWriteString]
    split
    · rename_i he
      refine ⟨?_, ?_, ?_, ?_, ?_, h6, rfl⟩
      · simp only [Under.deliv]; rw [h3, h2]; simp
      · simp only; rw [h2]; omega
      · intro h; simp at h
      · intro _ _; simpa [Under.berr] using he
      · intro h; simp only [Under.berr] at h; rw [h4 h]
    · rename_i he
      refine ⟨?_, ?_, ?_, ?_, ?_, h6, rfl⟩
      · simp only [Under.deliv]; rw [← List.append_assoc, h3, h2, h1]
        simp only [List.length_drop, Nat.zero_add]
        rw [show j + (p.length - j) = p.length by omega, List.take_length, List.append_assoc,
          List.take_append_drop]
      · simp only; rw [h2, h1]; simp only [List.length_drop]; omega
      · intro _; simp only; rw [h2, h1]; simp only [List.length_drop]; omega
      · intro h; simp at h
      · intro h; simp only [Under.berr] at h; rw [h4 h] at he; simp [h] at he

theorem bufReadFromLoop_spec {σ} (m : SinkM σ) :
    ∀ (fuel : Nat) (b : Bufio) (sk : Sk σ) (src : Bytes) (n : Nat),
    ∃ j, j ≤ src.length ∧
      (bufReadFromLoop m fuel b sk src n).2.2.n = n + j ∧
      (bufReadFromLoop m fuel b sk src n).2.1.held ++ (bufReadFromLoop m fuel b sk src n).1.buf
        = sk.held ++ b.buf ++ src.take j ∧
      ((bufReadFromLoop m fuel b sk src n).2.2.err = false → j = src.length) ∧
      ((bufReadFromLoop m fuel b sk src n).2.2.err = true →
        (bufReadFromLoop m fuel b sk src n).1.err = true) ∧
      Reach m sk (bufReadFromLoop m fuel b sk src n).2.1 := by
  intro fuel
  induction fuel with
  | zero =>
    intro b sk src n
    exact ⟨0, Nat.zero_le _, by simp [bufReadFromLoop], by simp [bufReadFromLoop],
      by simp [bufReadFromLoop], by simp [bufReadFromLoop], Reach.refl _⟩
  | succ fuel ih =>
    intro b sk src n
    -- the optional flush at the top of the loop
    have hf : ∃ f : Bufio × Sk σ × Bool,
        f = (if b.avail = 0 then bufFlush m b sk else (b, sk, false)) ∧
        f.2.1.held ++ f.1.buf = sk.held ++ b.buf ∧ (f.2.2 = true → f.1.err = true) ∧ Reach m sk f.2.1 := by
      refine ⟨_, rfl, ?_⟩
      split
      · obtain ⟨f1, _, f3, _, f5, _⟩ := bufFlush_spec m b sk
        exact ⟨f1, f3, f5⟩
      · exact ⟨rfl, by simp, Reach.refl _⟩
    obtain ⟨f, hfeq, hf1, hf2, hf3⟩ := hf
    unfold bufReadFromLoop
    simp only [← hfeq]
    split
    · rename_i he
      exact ⟨0, Nat.zero_le _, by simp, by simpa using hf1, by simp, fun _ => hf2 he, hf3⟩
    · split
      · rename_i h0
        have hs : src = [] := List.eq_nil_of_length_eq_zero h0
        split
        · obtain ⟨g1, _, g3, _, g5, _⟩ := bufFlush_spec m f.1 f.2.1
          refine ⟨0, Nat.zero_le _, by simp, ?_, by simp [hs], ?_, Reach.trans hf3 g5⟩
          · simp only [List.take_zero, List.append_nil]; rw [g1, hf1]
          · intro h; exact g3 h
        · exact ⟨0, Nat.zero_le _, by simp, by simpa using hf1, by simp [hs], by simp, hf3⟩
      · obtain ⟨j, hj, h1, h2, h3, h4, h5⟩ :=
          ih { f.1 with buf := f.1.buf ++ src.take (min src.length f.1.avail) } f.2.1
            (src.drop (min src.length f.1.avail)) (n + min src.length f.1.avail)
        refine ⟨min src.length f.1.avail + j, ?_, ?_, ?_, ?_, h4, Reach.trans hf3 h5⟩
        · simp only [List.length_drop] at hj; omega
        · rw [h1]; omega
        · rw [h2, ← List.append_assoc, hf1]; simp only [List.append_assoc, List.take_add]
        · intro h; have := h3 h; simp only [List.length_drop] at this; omega

/-- MIRROR `io.Copy(w.writer.writer, r)` (offsetTrackingWriter.ReadFrom, writer.go:2877-2882) for a
source without `WriteTo`: buffered it is `bufio.Writer.ReadFrom`; unbuffered the generic loop of
`io.copyBuffer` (io.go:407-447) with its 32 KiB buffer, see `uCopy`. Only the buffered case here. -/
def uReadFromBuf {σ} (m : SinkM σ) (b : Bufio) (sk : Sk σ) (src : Bytes) : Under σ × Resp :=
  let w := bufReadFrom m b sk src; (⟨some w.1, w.2.1⟩, w.2.2)

theorem uReadFromBuf_ok {σ} (m : SinkM σ) (b : Bufio) (sk : Sk σ) (src : Bytes) :
    PrimOK m ⟨some b, sk⟩ (uReadFromBuf m b sk src).1 src (uReadFromBuf m b sk src).2 := by
  simp only [uReadFromBuf, bufReadFrom]
  split
  · rename_i he
    exact ⟨by simp [Under.deliv], by simp, by simp, fun _ _ => by simpa [Under.berr] using he,
      fun _ => rfl, Reach.refl _, rfl⟩
  · rename_i he
    obtain ⟨j, hj, h1, h2, h3, h4, h5⟩ := bufReadFromLoop_spec m (src.length + 1) b sk src 0
    refine ⟨?_, ?_, ?_, ?_, ?_, h5, rfl⟩
    · simp only [Under.deliv]; rw [h2, h1]; simp
    · rw [h1]; omega
    · intro h; rw [h1, h3 h]; omega
    · intro h _; simpa [Under.berr] using h4 h
    · intro h; simp only [Under.berr] at h; exact absurd h he

/-- MIRROR the copy loops that feed the chain chunk by chunk: `io.copyBuffer` (io.go:407-447;
`nr > 0` → `Write`, stop on `ew != nil` or `nr != nw` = `io.ErrShortWrite`) and
`(*memory.Buffer).WriteTo` (internal/memory/buffer.go:78-94), which behave alike on a conforming
writer. Returns the bytes written and `err != nil`. -/
def uCopy {σ} (m : SinkM σ) : Under σ → List Bytes → Nat → Under σ × Resp
  | u, [], written => (u, ⟨written, false⟩)
  | u, c :: cs, written =>
    if c.length = 0 then uCopy m u cs written else
    let w := uWrite m u c
    if w.2.err || decide (w.2.n ≠ c.length) then (w.1, ⟨written + w.2.n, true⟩)
    else uCopy m w.1 cs (written + w.2.n)

theorem uCopy_spec {σ} (m : SinkM σ) (hm : Conforming m) :
    ∀ (chunks : List Bytes) (u : Under σ) (written : Nat),
    ∃ j, (uCopy m u chunks written).2.n = written + j ∧
      PrimOK m u (uCopy m u chunks written).1 chunks.flatten ⟨j, (uCopy m u chunks written).2.err⟩ := by
  intro chunks
  induction chunks with
  | nil =>
    intro u written
    exact ⟨0, rfl, by simp [uCopy], by simp, by simp [uCopy], by simp [uCopy], fun _ => rfl,
      Reach.refl _, rfl⟩
  | cons c cs ih =>
    intro u written
    unfold uCopy
    split
    · rename_i h0
      have hc : c = [] := List.eq_nil_of_length_eq_zero h0
      obtain ⟨j, hj, hp⟩ := ih u written
      exact ⟨j, hj, by simpa [hc] using hp⟩
    · rename_i h0
      have hw := uWrite_ok m hm u c
      dsimp only
      split
      · rename_i hbad
        have herr : (uWrite m u c).2.err = true := by
          cases he : (uWrite m u c).2.err with
          | true => rfl
          | false => have := hw.full he; simp [he, this] at hbad
        refine ⟨(uWrite m u c).2.n, rfl, ?_, ?_, by simp, ?_, hw.mono, hw.reach, hw.shape⟩
        · simp only [List.flatten_cons]
          rw [hw.deliv, List.take_append_of_le_length hw.le]
        · simp only [List.flatten_cons, List.length_append]; have := hw.le; omega
        · intro _ hb; exact hw.errOut herr hb
      · rename_i hgood
        have he : (uWrite m u c).2.err = false := by
          cases he : (uWrite m u c).2.err with
          | true => simp [he] at hgood
          | false => rfl
        have hn := hw.full he
        obtain ⟨j, hj, hp⟩ := ih (uWrite m u c).1 (written + (uWrite m u c).2.n)
        refine ⟨c.length + j, by rw [hj, hn]; omega, ?_, ?_, ?_, ?_, ?_, Reach.trans hw.reach hp.reach,
          by rw [hp.shape, hw.shape]⟩
        · rw [hp.deliv, hw.deliv, hn]
          simp only [List.flatten_cons, List.take_length, List.append_assoc, List.take_length_add_append]
        · simp only [List.flatten_cons, List.length_append]; have := hp.le; simp only at this; omega
        · intro h; have := hp.full h
          simp only [List.flatten_cons, List.length_append] at this ⊢; omega
        · intro h hb; exact hp.errOut h (by rw [hw.shape]; exact hb)
        · intro hb; have h1 := hw.mono hb; rw [hp.mono (by rw [h1]; exact hb), h1]

/-- split `p` into pieces of `c` bytes (the last one shorter): the chunks of a `memory.Buffer`
(`c` = chunk size of the pool) or of `io.copyBuffer` (`c` = 32768) -/
def chunksOf (c : Nat) : Nat → Bytes → List Bytes
  | 0, p => [p]
  | fuel + 1, p => if p.length ≤ c ∨ c = 0 then [p] else p.take c :: chunksOf c fuel (p.drop c)

theorem chunksOf_flatten (c : Nat) : ∀ (fuel : Nat) (p : Bytes), (chunksOf c fuel p).flatten = p := by
  intro fuel
  induction fuel with
  | zero => intro p; simp [chunksOf]
  | succ fuel ih =>
    intro p; unfold chunksOf; split
    · simp
    · simp [ih]

/-- MIRROR `w.buffer.Flush()` when `w.buffer != nil` (writer.go:1248-1250) -/
def uFlush {σ} (m : SinkM σ) (u : Under σ) : Under σ × Resp :=
  match u.bw with
  | none => (u, ⟨0, false⟩)
  | some b => let f := bufFlush m b u.sk; (⟨some f.1, f.2.1⟩, ⟨0, f.2.2⟩)

theorem uFlush_ok {σ} (m : SinkM σ) (u : Under σ) :
    PrimOK m u (uFlush m u).1 [] (uFlush m u).2 ∧
    ((uFlush m u).2.err = false → (uFlush m u).1.deliv = (uFlush m u).1.sk.held ∧ (uFlush m u).1.berr = false) ∧
    (u.berr = true → (uFlush m u).2.err = true) := by
  obtain ⟨bw, sk⟩ := u
  cases bw with
  | none =>
    exact ⟨⟨by simp [uFlush], by simp [uFlush], by simp [uFlush], by simp, fun _ => rfl, Reach.refl _, rfl⟩,
      by simp [uFlush, Under.deliv, Under.berr], by simp [Under.berr]⟩
  | some b =>
    obtain ⟨f1, f2, f3, f4, f5, _⟩ := bufFlush_spec m b sk
    refine ⟨⟨?_, by simp [uFlush], by simp [uFlush], ?_, ?_, f5, rfl⟩, ?_, ?_⟩
    · simpa [uFlush, Under.deliv] using f1
    · intro h _; simpa [uFlush, Under.berr] using f3 (by simpa [uFlush] using h)
    · intro h; simp only [Under.berr] at h; simp [uFlush, f4 h]
    · intro h
      have := f2 (by simpa [uFlush] using h)
      simp [uFlush, Under.deliv, Under.berr, this.1, this.2]
    · intro h; simp only [Under.berr] at h; simp [uFlush, f4 h]

theorem uCopy_ok {σ} (m : SinkM σ) (hm : Conforming m) (u : Under σ) (chunks : List Bytes) :
    PrimOK m u (uCopy m u chunks 0).1 chunks.flatten (uCopy m u chunks 0).2 := by
  obtain ⟨j, hj, hp⟩ := uCopy_spec m hm chunks u 0
  have : (uCopy m u chunks 0).2 = ⟨j, (uCopy m u chunks 0).2.err⟩ := by
    cases h : (uCopy m u chunks 0).2 with
    | mk n e => rw [h] at hj; simp at hj; simp [hj]
  rw [this]; exact hp

/-- MIRROR `offsetTrackingWriter.ReadFrom` = `io.Copy(w.writer, r)` (writer.go:2877-2882) for a
source without `WriteTo` (the `io.SectionReader`s of the verbatim column copy, writer.go:1556,
1567, 1641; an `*os.File` page buffer reaches the same code through `genericWriteTo`) -/
def uReadFrom {σ} (m : SinkM σ) (u : Under σ) (src : Bytes) : Under σ × Resp :=
  match u.bw with
  | none => uCopy m u (chunksOf 32768 src.length src) 0
  | some b => uReadFromBuf m b u.sk src

theorem uReadFrom_ok {σ} (m : SinkM σ) (hm : Conforming m) (u : Under σ) (src : Bytes) :
    PrimOK m u (uReadFrom m u src).1 src (uReadFrom m u src).2 := by
  obtain ⟨bw, sk⟩ := u
  cases bw with
  | none =>
    have := uCopy_ok m hm ⟨none, sk⟩ (chunksOf 32768 src.length src)
    rw [chunksOf_flatten] at this; exact this
  | some b => exact uReadFromBuf_ok m b sk src

theorem PrimOK.nil {σ} (m : SinkM σ) (u : Under σ) : PrimOK m u u [] ⟨0, false⟩ :=
  ⟨by simp, by simp, by simp, by simp, fun _ => rfl, Reach.refl _, rfl⟩

/-! ## The writer: offsetTrackingWriter, intermediate stores, write plan -/

/-- state of `writer` as far as bytes are concerned: the chain, `w.writer.offset`, and the
intermediate stores (page buffer of column c, deferred bloom-filter buffers) by id -/
structure W (σ : Type) where
  u : Under σ
  offset : Nat
  stores : Nat → Bytes

def setStore (s : Nat → Bytes) (id : Nat) (v : Bytes) : Nat → Bytes := fun j => if j = id then v else s j

/-- one operation of a write plan; `site` names the call in writer.go -/
inductive Op where
  /-- `w.writer.Write(p)` (directly or under the thrift encoder) -/
  | write (site : String) (p : Bytes)
  /-- `w.writer.WriteString(s)`: the thrift encoder's strings (`io.WriteString(&w.writer, s)`,
      encoding/thrift/binary.go:371-374) -/
  | writeString (site : String) (p : Bytes)
  /-- `writeFileHeader` (writer.go:1258-1272): `WriteString(magic)` iff `w.writer.offset == 0` -/
  | header (site : String) (p : Bytes)
  /-- `w.writer.ReadFrom(r)`, r without WriteTo (verbatim column copy) -/
  | readFrom (site : String) (src : Bytes)
  /-- append to an intermediate store: `writePageTo` into the column's page buffer
      (writer.go:2638-2662), `writeBloomFilter(buf)` into a deferred buffer (writer.go:1654-1679).
      No sink I/O. -/
  | store (id : Nat) (p : Bytes)
  /-- `io.Copy(&w.writer, c.pageBuffer)` (writer.go:1607) / `w.writer.ReadFrom(bf.buf)`
      (writer.go:1287): hand the whole store to the chain and empty it. `some c`: the store has
      `WriteTo` and offers chunks of `c` bytes (memory.Buffer); `none`: through `ReadFrom` -/
  | drain (site : String) (id : Nat) (chunk : Option Nat)
  /-- `w.buffer.Flush()` when buffered (end of `close`, writer.go:1248-1250) -/
  | flushBuf (site : String)

def Op.site : Op → String
  | .write s _ | .writeString s _ | .header s _ | .readFrom s _ | .drain s _ _ | .flushBuf s => s
  | .store _ _ => ""

/-- offsetTrackingWriter: `w.offset += n` (writer.go:2865-2882) -/
def W.track {σ} (w : W σ) (x : Under σ × Resp) : W σ × Bool :=
  ({ w with u := x.1, offset := w.offset + x.2.n }, x.2.err)

/-- MIRROR: run one operation; the Bool is `err != nil` at the site -/
def execOp {σ} (m : SinkM σ) (w : W σ) : Op → W σ × Bool
  | .write _ p => w.track (uWrite m w.u p)
  | .writeString _ p => w.track (uWriteString m w.u p)
  | .header _ p => if w.offset = 0 then w.track (uWriteString m w.u p) else (w, false)
  | .readFrom _ src => w.track (uReadFrom m w.u src)
  | .store id p => ({ w with stores := setStore w.stores id (w.stores id ++ p) }, false)
  | .drain _ id (some c) =>
    W.track { w with stores := setStore w.stores id [] }
      (uCopy m w.u (chunksOf c (w.stores id).length (w.stores id)) 0)
  | .drain _ id none =>
    W.track { w with stores := setStore w.stores id [] } (uReadFrom m w.u (w.stores id))
  | .flushBuf _ => w.track (uFlush m w.u)

/-- SPEC: the bytes an operation hands to the chain when nothing fails -/
def Op.payload (offset : Nat) (stores : Nat → Bytes) : Op → Bytes
  | .write _ p => p
  | .writeString _ p => p
  | .header _ p => if offset = 0 then p else []
  | .readFrom _ src => src
  | .store _ _ => []
  | .drain _ id _ => stores id
  | .flushBuf _ => []

def Op.after (stores : Nat → Bytes) : Op → (Nat → Bytes)
  | .store id p => setStore stores id (stores id ++ p)
  | .drain _ id _ => setStore stores id []
  | _ => stores

theorem execOp_ok {σ} (m : SinkM σ) (hm : Conforming m) (w : W σ) (op : Op) :
    PrimOK m w.u (execOp m w op).1.u (op.payload w.offset w.stores)
      ⟨(execOp m w op).1.offset - w.offset, (execOp m w op).2⟩ ∧
    (execOp m w op).1.stores = op.after w.stores ∧ w.offset ≤ (execOp m w op).1.offset := by
  cases op with
  | write s p =>
    have := uWrite_ok m hm w.u p
    simpa [execOp, W.track, Op.payload, Op.after] using this
  | writeString s p =>
    have := uWriteString_ok m hm w.u p
    simpa [execOp, W.track, Op.payload, Op.after] using this
  | header s p =>
    by_cases h0 : w.offset = 0
    · have := uWriteString_ok m hm w.u p
      simpa [execOp, W.track, Op.payload, Op.after, h0] using this
    · simpa [execOp, Op.payload, Op.after, h0] using PrimOK.nil m w.u
  | readFrom s src =>
    have := uReadFrom_ok m hm w.u src
    simpa [execOp, W.track, Op.payload, Op.after] using this
  | store id p =>
    simpa [execOp, Op.payload, Op.after] using PrimOK.nil m w.u
  | drain s id chunk =>
    cases chunk with
    | some c =>
      have := uCopy_ok m hm w.u (chunksOf c (w.stores id).length (w.stores id))
      rw [chunksOf_flatten] at this
      simpa [execOp, W.track, Op.payload, Op.after] using this
    | none =>
      have := uReadFrom_ok m hm w.u (w.stores id)
      simpa [execOp, W.track, Op.payload, Op.after] using this
  | flushBuf s =>
    have := (uFlush_ok m w.u).1
    simpa [execOp, W.track, Op.payload, Op.after] using this

/-- MIRROR of the error handling around the sites: `if err != nil { return err }` where the
site propagates (`table site = true`), otherwise the error is dropped and the call goes on -/
def execCall {σ} (m : SinkM σ) (table : String → Bool) : W σ → List Op → W σ × Bool
  | w, [] => (w, false)
  | w, op :: rest =>
    if (execOp m w op).2 && table op.site then ((execOp m w op).1, true)
    else execCall m table (execOp m w op).1 rest

/-- a history of API calls (Write / Flush / WriteRowGroup / … / Close), each with its plan; the
caller goes on after an error (most general user) -/
def runCalls {σ} (m : SinkM σ) (table : String → Bool) : W σ → List (List Op) → W σ × List Bool
  | w, [] => (w, [])
  | w, c :: cs =>
    ((runCalls m table (execCall m table w c).1 cs).1,
      (execCall m table w c).2 :: (runCalls m table (execCall m table w c).1 cs).2)

/-- SPEC: the fault-free meaning of a plan: (bytes handed to the chain, final offset, final stores) -/
def ideal : Nat → (Nat → Bytes) → List Op → Bytes × Nat × (Nat → Bytes)
  | off, st, [] => ([], off, st)
  | off, st, op :: rest =>
    ((op.payload off st) ++ (ideal (off + (op.payload off st).length) (op.after st) rest).1,
      (ideal (off + (op.payload off st).length) (op.after st) rest).2)

theorem ideal_append : ∀ (a b : List Op) (off : Nat) (st : Nat → Bytes),
    ideal off st (a ++ b) =
      ((ideal off st a).1 ++ (ideal (ideal off st a).2.1 (ideal off st a).2.2 b).1,
        (ideal (ideal off st a).2.1 (ideal off st a).2.2 b).2)
  | [], b, off, st => by simp [ideal]
  | op :: a, b, off, st => by
    simp only [List.cons_append, ideal, ideal_append a b, List.append_assoc]

/-- `w'` is what the plan means when started from `w` -/
def Good {σ} (w w' : W σ) (ops : List Op) : Prop :=
  w'.u.deliv = w.u.deliv ++ (ideal w.offset w.stores ops).1 ∧
  w'.offset = (ideal w.offset w.stores ops).2.1 ∧ w'.stores = (ideal w.offset w.stores ops).2.2

theorem Good.nil {σ} (w : W σ) : Good w w [] := by simp [Good, ideal]

theorem Good.cons {σ} (m : SinkM σ) (hm : Conforming m) (w w' : W σ) (op : Op) (rest : List Op)
    (he : (execOp m w op).2 = false) (h : Good (execOp m w op).1 w' rest) : Good w w' (op :: rest) := by
  obtain ⟨hp, hs, ho⟩ := execOp_ok m hm w op
  have hn := hp.full he
  simp only at hn
  have hoff : (execOp m w op).1.offset = w.offset + (op.payload w.offset w.stores).length := by omega
  obtain ⟨g1, g2, g3⟩ := h
  rw [hoff, hs] at g1 g2 g3
  refine ⟨?_, ?_, ?_⟩
  · rw [g1, hp.deliv]; simp only [hn, List.take_length, ideal, List.append_assoc]
  · simpa [ideal] using g2
  · simpa [ideal] using g3

theorem Good.trans {σ} {a b c : W σ} {x y : List Op} (h1 : Good a b x) (h2 : Good b c y) :
    Good a c (x ++ y) := by
  obtain ⟨a1, a2, a3⟩ := h1
  obtain ⟨b1, b2, b3⟩ := h2
  rw [a2, a3] at b1 b2 b3
  refine ⟨?_, ?_, ?_⟩ <;> rw [ideal_append]
  · rw [b1, a1, List.append_assoc]
  · exact b2
  · exact b3

/-- a call in which every site propagates and which returns nil has done what the plan means -/
theorem execCall_clean {σ} (m : SinkM σ) (hm : Conforming m) (table : String → Bool) :
    ∀ (ops : List Op) (w : W σ), (∀ op ∈ ops, table op.site = true ∨ ∃ id p, op = .store id p) →
      (execCall m table w ops).2 = false → Good w (execCall m table w ops).1 ops
  | [], w, _, _ => Good.nil w
  | op :: rest, w, hsite, hres => by
    unfold execCall at hres ⊢
    split
    · rename_i h; simp [h] at hres
    · rename_i h
      simp only [h] at hres
      have he : (execOp m w op).2 = false := by
        cases hsite op (by simp) with
        | inl ht => simpa [ht] using h
        | inr hst => obtain ⟨id, p, rfl⟩ := hst; rfl
      exact Good.cons m hm w _ op rest he
        (execCall_clean m hm table rest _ (fun o ho => hsite o (by simp [ho])) hres)

theorem execCall_mono {σ} (m : SinkM σ) (hm : Conforming m) (table : String → Bool) :
    ∀ (ops : List Op) (w : W σ), w.u.berr = true → (execCall m table w ops).1.u = w.u
  | [], w, _ => rfl
  | op :: rest, w, hb => by
    have h1 := (execOp_ok m hm w op).1.mono hb
    unfold execCall
    split
    · exact h1
    · rw [execCall_mono m hm table rest _ (by rw [h1]; exact hb), h1]

theorem execCall_shape {σ} (m : SinkM σ) (hm : Conforming m) (table : String → Bool) :
    ∀ (ops : List Op) (w : W σ), (execCall m table w ops).1.u.bw.isSome = w.u.bw.isSome ∧
      Reach m w.u.sk (execCall m table w ops).1.u.sk
  | [], w => ⟨rfl, Reach.refl _⟩
  | op :: rest, w => by
    have h1 := (execOp_ok m hm w op).1
    unfold execCall
    split
    · exact ⟨h1.shape, h1.reach⟩
    · have := execCall_shape m hm table rest (execOp m w op).1
      exact ⟨by rw [this.1, h1.shape], Reach.trans h1.reach this.2⟩

/-- buffered: if the sticky error is still clear after the call, the call returned nil and did
what the plan means — whatever the sites do with their errors -/
theorem execCall_buffered {σ} (m : SinkM σ) (hm : Conforming m) (table : String → Bool) :
    ∀ (ops : List Op) (w : W σ), w.u.bw.isSome = true → (execCall m table w ops).1.u.berr = false →
      (execCall m table w ops).2 = false ∧ Good w (execCall m table w ops).1 ops
  | [], w, _, _ => ⟨rfl, Good.nil w⟩
  | op :: rest, w, hbuf, hclear => by
    have h1 := (execOp_ok m hm w op).1
    unfold execCall at hclear ⊢
    split
    · rename_i h
      simp only [h, if_true] at hclear
      have : (execOp m w op).2 = true := by
        cases h' : (execOp m w op).2 <;> simp [h'] at h ⊢
      have := h1.errOut this hbuf
      rw [this] at hclear; cases hclear
    · rename_i h
      replace hclear : (execCall m table (execOp m w op).1 rest).1.u.berr = false := by
        simpa [h] using hclear
      have hbuf1 : (execOp m w op).1.u.bw.isSome = true := by rw [h1.shape]; exact hbuf
      obtain ⟨r1, r2⟩ := execCall_buffered m hm table rest _ hbuf1 hclear
      have hb1 : (execOp m w op).1.u.berr = false := by
        cases hb : (execOp m w op).1.u.berr with
        | false => rfl
        | true =>
          have := execCall_mono m hm table rest _ hb
          rw [this, hb] at hclear; cases hclear
      have he : (execOp m w op).2 = false := by
        cases he : (execOp m w op).2 with
        | false => rfl
        | true => have := h1.errOut he hbuf; rw [this] at hb1; cases hb1
      exact ⟨r1, Good.cons m hm w _ op rest he r2⟩

theorem execCall_append {σ} (m : SinkM σ) (table : String → Bool) :
    ∀ (a b : List Op) (w : W σ), execCall m table w (a ++ b) =
      if (execCall m table w a).2 then ((execCall m table w a).1, true)
      else execCall m table (execCall m table w a).1 b
  | [], b, w => by simp [execCall]
  | op :: a, b, w => by
    simp only [List.cons_append, execCall]
    split
    · simp
    · exact execCall_append m table a b _

theorem runCalls_append {σ} (m : SinkM σ) (table : String → Bool) :
    ∀ (a b : List (List Op)) (w : W σ), runCalls m table w (a ++ b) =
      ((runCalls m table (runCalls m table w a).1 b).1,
        (runCalls m table w a).2 ++ (runCalls m table (runCalls m table w a).1 b).2)
  | [], b, w => by simp [runCalls]
  | c :: a, b, w => by simp [runCalls, runCalls_append m table a b]

theorem runCalls_mono {σ} (m : SinkM σ) (hm : Conforming m) (table : String → Bool) :
    ∀ (calls : List (List Op)) (w : W σ), w.u.berr = true → (runCalls m table w calls).1.u = w.u
  | [], w, _ => rfl
  | c :: cs, w, hb => by
    have h1 := execCall_mono m hm table c w hb
    simp only [runCalls]
    rw [runCalls_mono m hm table cs _ (by rw [h1]; exact hb), h1]

theorem runCalls_shape {σ} (m : SinkM σ) (hm : Conforming m) (table : String → Bool) :
    ∀ (calls : List (List Op)) (w : W σ), (runCalls m table w calls).1.u.bw.isSome = w.u.bw.isSome ∧
      Reach m w.u.sk (runCalls m table w calls).1.u.sk
  | [], w => ⟨rfl, Reach.refl _⟩
  | c :: cs, w => by
    have h1 := execCall_shape m hm table c w
    have h2 := runCalls_shape m hm table cs (execCall m table w c).1
    simp only [runCalls]
    exact ⟨by rw [h2.1, h1.1], Reach.trans h1.2 h2.2⟩

theorem runCalls_clean {σ} (m : SinkM σ) (hm : Conforming m) (table : String → Bool) :
    ∀ (calls : List (List Op)) (w : W σ),
      (∀ c ∈ calls, ∀ op ∈ c, table op.site = true ∨ ∃ id p, op = .store id p) →
      (∀ r ∈ (runCalls m table w calls).2, r = false) → Good w (runCalls m table w calls).1 calls.flatten
  | [], w, _, _ => Good.nil w
  | c :: cs, w, hsite, hres => by
    simp only [runCalls] at hres ⊢
    have h1 := execCall_clean m hm table c w (hsite c (by simp)) (hres _ (by simp))
    have h2 := runCalls_clean m hm table cs (execCall m table w c).1
      (fun c' hc' => hsite c' (by simp [hc'])) (fun r hr => hres r (by simp [hr]))
    simpa using Good.trans h1 h2

theorem runCalls_buffered {σ} (m : SinkM σ) (hm : Conforming m) (table : String → Bool) :
    ∀ (calls : List (List Op)) (w : W σ), w.u.bw.isSome = true →
      (runCalls m table w calls).1.u.berr = false →
      (∀ r ∈ (runCalls m table w calls).2, r = false) ∧ Good w (runCalls m table w calls).1 calls.flatten
  | [], w, _, _ => ⟨by simp [runCalls], Good.nil w⟩
  | c :: cs, w, hbuf, hclear => by
    simp only [runCalls] at hclear ⊢
    have hs := execCall_shape m hm table c w
    have hbuf1 : (execCall m table w c).1.u.bw.isSome = true := by rw [hs.1]; exact hbuf
    obtain ⟨r1, r2⟩ := runCalls_buffered m hm table cs _ hbuf1 hclear
    have hb1 : (execCall m table w c).1.u.berr = false := by
      cases hb : (execCall m table w c).1.u.berr with
      | false => rfl
      | true =>
        have := runCalls_mono m hm table cs _ hb
        rw [this, hb] at hclear; cases hclear
    obtain ⟨e1, e2⟩ := execCall_buffered m hm table c w hbuf hb1
    refine ⟨?_, by simpa using Good.trans e2 r2⟩
    intro r hr
    simp only [List.mem_cons] at hr
    cases hr with
    | inl h => rw [h]; exact e1
    | inr h => exact r1 r h

/-- MIRROR `(*writer).close` (writer.go:1233-1252) as a plan: `writeFileHeader`; `flush` (the
pending row group); `writeDeferredBloomFilters` (one `ReadFrom` per deferred buffer);
`writeFileFooter` (page indexes, footer, `len‖magic`); `w.buffer.Flush()`. -/
def closeSeq (magic : Bytes) (rowGroup : List Op) (blooms : List (Nat × Option Nat)) (footer : List Bytes)
    (flushSite : String) : List Op :=
  ([Op.header "writeFileHeader:w.writer.WriteString#1" magic] ++ rowGroup ++
    blooms.map (fun b => Op.drain "writeDeferredBloomFilters:w.writer.ReadFrom#1" b.1 b.2) ++
    footer.map (Op.write "writeFileFooter")) ++ [Op.flushBuf flushSite]

/-- once the sticky error is set, every transfer through the bufio.Writer fails at once -/
theorem uWrite_sticky {σ} (m : SinkM σ) (hm : Conforming m) (u : Under σ) (p : Bytes)
    (hb : u.berr = true) : (uWrite m u p).2.err = true := by
  obtain ⟨bw, sk⟩ := u
  cases bw with
  | none => simp [Under.berr] at hb
  | some b =>
    obtain ⟨j, _, _, _, _, h4, _⟩ := bufWriteLoop_spec m hm 3 b sk p 0
    simp only [Under.berr] at hb
    simp [uWrite, bufWrite, h4 hb, hb]

theorem uWriteString_sticky {σ} (m : SinkM σ) (u : Under σ) (p : Bytes)
    (hb : u.berr = true) : (uWriteString m u p).2.err = true := by
  obtain ⟨bw, sk⟩ := u
  cases bw with
  | none => simp [Under.berr] at hb
  | some b =>
    obtain ⟨j, _, _, _, _, h4, _⟩ := bufWriteStringLoop_spec m (p.length + 1) b sk p 0
    simp only [Under.berr] at hb
    simp [uWriteString, bufWriteString, h4 hb, hb]

theorem uReadFrom_sticky {σ} (m : SinkM σ) (u : Under σ) (src : Bytes)
    (hb : u.berr = true) : (uReadFrom m u src).2.err = true := by
  obtain ⟨bw, sk⟩ := u
  cases bw with
  | none => simp [Under.berr] at hb
  | some b =>
    simp only [Under.berr] at hb
    simp [uReadFrom, uReadFromBuf, bufReadFrom, hb]

/-- a call that ends with `w.buffer.Flush()` at a propagating site and returns nil leaves
nothing in the buffer and no sticky error -/
theorem close_flushes {σ} (m : SinkM σ) (table : String → Bool) (w : W σ) (pre : List Op)
    (s : String) (hs : table s = true)
    (h : (execCall m table w (pre ++ [Op.flushBuf s])).2 = false) :
    (execCall m table w pre).2 = false ∧
    (execCall m table w (pre ++ [Op.flushBuf s])).1.u.deliv
      = (execCall m table w (pre ++ [Op.flushBuf s])).1.u.sk.held ∧
    (execCall m table w (pre ++ [Op.flushBuf s])).1.u.berr = false := by
  rw [execCall_append] at h ⊢
  cases hp : (execCall m table w pre).2 with
  | true => simp [hp] at h
  | false =>
    simp only [hp, Bool.false_eq_true, if_false] at h ⊢
    have hf := (uFlush_ok m (execCall m table w pre).1.u).2.1
    simp only [execCall, execOp, W.track, Op.site, hs, Bool.and_true] at h ⊢
    cases he : (uFlush m (execCall m table w pre).1.u).2.err with
    | true => simp [he] at h
    | false => simpa [he] using hf he

/-- with the sticky error set, a call that ends with `w.buffer.Flush()` at a propagating site
returns non-nil -/
theorem close_sticky {σ} (m : SinkM σ) (hm : Conforming m) (table : String → Bool) (w : W σ)
    (pre : List Op) (s : String) (hs : table s = true) (hb : w.u.berr = true) :
    (execCall m table w (pre ++ [Op.flushBuf s])).2 = true := by
  rw [execCall_append]
  cases hp : (execCall m table w pre).2 with
  | true => simp
  | false =>
    have h1 := execCall_mono m hm table pre w hb
    have hb1 : (execCall m table w pre).1.u.berr = true := by rw [h1]; exact hb
    have := (uFlush_ok m (execCall m table w pre).1.u).2.2 hb1
    simp [execCall, execOp, W.track, Op.site, hs, this]

/-- a fresh writer over a sink in state `s0`; `cap = some c`: `WriteBufferSize = c > 0` -/
def initW {σ} (s0 : σ) (cap : Option Nat) : W σ :=
  ⟨⟨cap.map (fun c => ⟨c, [], false⟩), ⟨s0, [], 0, []⟩⟩, 0, fun _ => []⟩

/-- SPEC: the complete file a history of calls describes -/
def planBytes (calls : List (List Op)) : Bytes := (ideal 0 (fun _ => []) calls.flatten).1

/-! ## Reader side: the trailer checks of OpenFile -/

inductive OpenErr where
  | shortHeader      -- "reading magic header": fewer than 4 bytes
  | badHeaderMagic   -- "invalid magic header"
  | shortTrailer     -- "reading magic footer": fewer than 8 bytes
  | badFooterMagic   -- "invalid magic footer"
  | footerBounds     -- "reading footer": the footer would start before offset 0 (spec: before offset 4)
  deriving Repr, DecidableEq

deriving instance DecidableEq for Except

def magicPAR1 : Bytes := [0x50, 0x41, 0x52, 0x31]
def magicPARE : Bytes := [0x50, 0x41, 0x52, 0x45]

/-- 4-byte little-endian length -/
def le32 (b : Bytes) : Nat :=
  match b with
  | [a, b, c, d] => a.toNat + 256 * b.toNat + 65536 * c.toNat + 16777216 * d.toNat
  | _ => 0

/-- header magic (file.go:77-87): "PARE" needs a DecryptionConfig -/
def isMagic (b : Bytes) (encrypted : Bool) : Bool := b == magicPAR1 || (encrypted && b == magicPARE)

/-- footer magic (file.go:113-116): "PAR1" or "PARE", whatever the configuration -/
def isFooterMagic (b : Bytes) : Bool := b == magicPAR1 || b == magicPARE

/-- MIRROR `OpenFile` up to the point where the footer bytes are in hand (file.go:65-131), for
`size = len(f)` and an `io.ReaderAt` over exactly these bytes: the 4-byte header read fails on
fewer than 4 bytes, the 8-byte trailer read at `size-8` fails on a negative offset, the footer
read at `size-(footerSize+8)` fails on a negative offset. `encrypted` = a DecryptionConfig was
given (then "PARE" is accepted too). `slack` is the number of bytes that must precede the footer:
the code only needs `footerSize + 8 ≤ size` (`slack = 0`, the footer may overlap the header
magic); the format says 4. Returns the footer bytes (thrift decoding is not modelled). -/
def openWith (slack : Nat) (encrypted : Bool) (f : Bytes) : Except OpenErr Bytes :=
  if f.length < 4 then .error .shortHeader
  else if !isMagic (f.take 4) encrypted then .error .badHeaderMagic
  else if f.length < 8 then .error .shortTrailer
  else
    let tail := f.drop (f.length - 8)
    if !isFooterMagic (tail.drop 4) then .error .badFooterMagic
    else
      let n := le32 (tail.take 4)
      if f.length < n + 8 + slack then .error .footerBounds
      else .ok ((f.drop (f.length - 8 - n)).take n)

/-- MIRROR: what the code does -/
def openModel (encrypted : Bool) (f : Bytes) : Except OpenErr Bytes := openWith 0 encrypted f
/-- SPEC: what the format describes (`magic ‖ … ‖ footer ‖ len ‖ magic`) -/
def openSpec (encrypted : Bool) (f : Bytes) : Except OpenErr Bytes := openWith 4 encrypted f

/-- MIRROR `readAt` (file.go:1702-1711): a full count clears the error -/
def readAtWrap (want : Nat) (n : Nat) (err : Bool) : Nat × Bool := if n = want then (n, false) else (n, err)

/-- SPEC: a conforming `io.ReaderAt` returns `n < len(p)` only together with an error -/
theorem readAtWrap_reports (want n : Nat) (err : Bool) (hconf : n < want → err = true) (hle : n ≤ want) :
    (readAtWrap want n err).2 = false → n = want := by
  unfold readAtWrap
  split
  · intro _; assumption
  · rename_i h; intro he; have : n < want := by omega
    simp only at he; rw [hconf this] at he; cases he

/-- SPEC: a well-formed file: `magic ‖ body ‖ footer ‖ le32(len footer) ‖ magic` -/
structure WellFormed (encrypted : Bool) (f : Bytes) : Prop where
  len : 12 ≤ f.length
  head : isMagic (f.take 4) encrypted = true
  tail : isFooterMagic (f.drop (f.length - 4)) = true
  bound : le32 ((f.drop (f.length - 8)).take 4) + 12 ≤ f.length

/-- the residual case: the last 8 bytes of the prefix are themselves `len‖magic` and `len` fits -/
def Residual (slack : Nat) (g : Bytes) : Prop :=
  8 ≤ g.length ∧ isFooterMagic (g.drop (g.length - 4)) = true ∧
    le32 ((g.drop (g.length - 8)).take 4) + 8 + slack ≤ g.length

end PqModel.IoFault
