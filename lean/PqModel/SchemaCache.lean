/-! # Process-wide keyed caches (C17): when is a cache invisible?

The library keeps package-level caches (`cachedSchemas`, schema.go:196; factgen family
`globalcaches` lists all of them with their store sites). A cache is state of the PROCESS: what an
earlier, unrelated call with OTHER options stored is what a later call finds. This file models

* a keyed cache as an association list (`sync.Map` seen sequentially; first match wins),
* SPEC: a cached derivation `call` parametrised by the key function `keyOf : I → Option K`
  (`none` = this input bypasses the cache) and the uncached derivation `derive : I → S`,
* MIRROR: `schemaOf` (schema.go:198-221) over abstract Go types `Ty`, struct-tag replacements `R`
  and schemas `S`, with a flag for the variant that stores non-cacheable derivations as well.

Concurrency (two goroutines deriving the same type at once: `LoadOrStore` keeps one of two equal
schemas) is not modelled: the stored values are equal, only their identity differs. -/

namespace PqModel.SchemaCache

abbrev Cache (K S : Type) := List (K × S)

def lookup {K S : Type} [DecidableEq K] : Cache K S → K → Option S
  | [], _ => none
  | (k', s) :: rest, k => if k' = k then some s else lookup rest k

/-- `sync.Map.LoadOrStore`: an existing entry wins -/
def loadOrStore {K S : Type} [DecidableEq K] (c : Cache K S) (k : K) (s : S) : S × Cache K S :=
  match lookup c k with
  | some s' => (s', c)
  | none => (s, (k, s) :: c)

/-- SPEC shape of a cached derivation: inputs with a key are looked up, derived on a miss and
    stored under their key; inputs without a key are derived and leave the cache alone -/
def call {I K S : Type} [DecidableEq K] (keyOf : I → Option K) (derive : I → S) (c : Cache K S) (i : I) :
    S × Cache K S :=
  match keyOf i with
  | none => (derive i, c)
  | some k =>
    match lookup c k with
    | some s => (s, c)
    | none => (derive i, (k, derive i) :: c)

/-- the results of a history of calls of a stateful function, from state `c` -/
def results {C I S : Type} (f : C → I → S × C) : C → List I → List S
  | _, [] => []
  | c, i :: is => (f c i).1 :: results f (f c i).2 is

/-- the key determines the value: everything the derived value depends on is in the key -/
def KeySound {I K S : Type} (keyOf : I → Option K) (derive : I → S) : Prop :=
  ∀ a b k, keyOf a = some k → keyOf b = some k → derive a = derive b

/-- every entry is what any input with that key derives -/
def Good {I K S : Type} [DecidableEq K] (keyOf : I → Option K) (derive : I → S) (c : Cache K S) : Prop :=
  ∀ k s, lookup c k = some s → ∀ i, keyOf i = some k → s = derive i

theorem good_nil {I K S : Type} [DecidableEq K] (keyOf : I → Option K) (derive : I → S) :
    Good keyOf derive ([] : Cache K S) := by
  intro k s h
  simp [lookup] at h

theorem call_good {I K S : Type} [DecidableEq K] (keyOf : I → Option K) (derive : I → S)
    (hs : KeySound keyOf derive) (c : Cache K S) (hc : Good keyOf derive c) (i : I) :
    (call keyOf derive c i).1 = derive i ∧ Good keyOf derive (call keyOf derive c i).2 := by
  cases hk : keyOf i with
  | none => simp only [call, hk]; exact ⟨trivial, hc⟩
  | some k =>
    cases hl : lookup c k with
    | some s => simp only [call, hk, hl]; exact ⟨hc k s hl i hk, hc⟩
    | none =>
      simp only [call, hk, hl]
      refine ⟨trivial, ?_⟩
      intro k' s' h' j hj
      simp only [lookup] at h'
      split at h'
      · rename_i hkk
        cases h'
        subst hkk
        exact hs i j k hk hj
      · exact hc k' s' h' j hj

theorem results_of_good {I K S : Type} [DecidableEq K] (keyOf : I → Option K) (derive : I → S)
    (hs : KeySound keyOf derive) (hist : List I) :
    ∀ c : Cache K S, Good keyOf derive c → results (call keyOf derive) c hist = hist.map derive := by
  induction hist with
  | nil => intro c _; rfl
  | cons i is ih =>
    intro c hc
    have h := call_good keyOf derive hs c hc i
    simp only [results, List.map_cons, h.1, ih _ h.2]

/-! ## MIRROR of schemaOf -/

/-- MIRROR schema.go:198-221 `schemaOf(model, tagReplacements...)`. `flat = false` is the code:
    `cacheable := len(tagReplacements) == 0`; a cacheable call returns the cached schema if there is
    one; the schema is derived; `if cacheable { if actual, loaded := LoadOrStore(model, schema);
    loaded { schema = actual } }`. `flat = true` is the variant with the store hoisted into the
    `if`'s init statement (`if actual, loaded := LoadOrStore(..); loaded && cacheable`): it also
    runs for derivations with replacements. -/
def schemaOf {Ty R S : Type} [DecidableEq Ty] (derive : Ty → List R → S) (flat : Bool)
    (c : Cache Ty S) (i : Ty × List R) : S × Cache Ty S :=
  let cacheable := i.2.isEmpty
  match (if cacheable then lookup c i.1 else none) with
  | some s => (s, c)
  | none =>
    let schema := derive i.1 i.2
    if cacheable then loadOrStore c i.1 schema
    else if flat then (schema, (loadOrStore c i.1 schema).2)
    else (schema, c)

/-- what `schemaOf` is keyed by: the Go type, for calls without replacements only -/
def schemaKey {Ty R : Type} (i : Ty × List R) : Option Ty := if i.2.isEmpty then some i.1 else none

end PqModel.SchemaCache
