import PqModel.Delta

/-! Lemmas for the DELTA encodings round trips (property theorems are in Props/C04Delta.lean). -/
namespace PqModel.Delta
open PqModel.Bits

/-! ### varints -/

theorem putUvarint_roundtrip : ∀ (f x : Nat) (rest : List Nat), x ≤ f →
    decUvarint (putUvarint f x ++ rest) = some (x, rest)
  | 0, x, rest, h => by
    have : x = 0 := by omega
    subst this; simp [putUvarint, decUvarint]
  | f + 1, x, rest, h => by
    simp only [putUvarint]
    by_cases hx : x < 128
    · simp [hx, decUvarint]
    · simp only [hx, if_false, List.cons_append, decUvarint]
      have : ¬ (x % 128 + 128 < 128) := by omega
      simp only [this, if_false]
      rw [putUvarint_roundtrip f (x / 128) rest (by omega)]
      simp; omega

theorem specUleb_uvarintEnc (x : Nat) (rest : List Nat) :
    specUleb (uvarintEnc x ++ rest) = .ok (x, rest) := by
  simp [specUleb, uvarintEnc, putUvarint_roundtrip x x rest (Nat.le_refl _)]

theorem unzigzag_zigzag64 (y : BitVec 64) : unzigzag (zigzag64 y) = y.toInt := by
  unfold unzigzag zigzag64
  have hm := BitVec.msb_eq_decide y
  have hlt := y.isLt
  rw [BitVec.toInt_eq_msb_cond]
  cases hmsb : y.msb
  · simp only [hmsb, Bool.false_eq_true, if_false] at hm ⊢
    have h1 : y.toNat < 2 ^ 63 := by simpa using hm.symm
    simp only [BitVec.toNat_shiftLeft, Nat.shiftLeft_eq]
    omega
  · simp only [hmsb, if_true] at hm ⊢
    have h1 : 2 ^ 63 ≤ y.toNat := by simpa using hm.symm
    simp only [BitVec.toNat_not, BitVec.toNat_shiftLeft, Nat.shiftLeft_eq]
    omega

theorem specZigzag_varintEnc {n : Nat} (hn : n ≤ 64) (x : BitVec n) (rest : List Nat) :
    specZigzag (varintEnc (x.signExtend 64) ++ rest) = .ok (x.toInt, rest) := by
  simp [specZigzag, varintEnc, specUleb_uvarintEnc, unzigzag_zigzag64, BitVec.toInt_signExtend_of_le hn]

/-! ### bit widths -/

theorem lt_bitLenF : ∀ (f x : Nat), x ≤ f → x < 2 ^ bitLenF f x
  | 0, x, h => by simp [bitLenF]; omega
  | f + 1, x, h => by
    simp only [bitLenF]
    by_cases hx : x = 0
    · simp [hx]
    · simp only [hx, if_false]
      have := lt_bitLenF f (x / 2) (by omega)
      rw [Nat.pow_succ]; omega

theorem lt_bitLen (x : Nat) : x < 2 ^ bitLen x := lt_bitLenF x x (Nat.le_refl _)

theorem bitLenF_le : ∀ (f x w : Nat), x < 2 ^ w → bitLenF f x ≤ w
  | 0, _, _, _ => by simp [bitLenF]
  | f + 1, x, w, h => by
    simp only [bitLenF]
    by_cases hx : x = 0
    · simp [hx]
    · simp only [hx, if_false]
      cases w with
      | zero => simp at h; omega
      | succ w =>
        have := bitLenF_le f (x / 2) w (by rw [Nat.pow_succ] at h; omega)
        omega

theorem bitLen_le {x w : Nat} (h : x < 2 ^ w) : bitLen x ≤ w := bitLenF_le x x w h

theorem bitLen_zero : bitLen 0 = 0 := by simp [bitLen, bitLenF]

theorem foldl_width_ge {n : Nat} : ∀ (mb : List (BitVec n)) (w0 : Nat),
    w0 ≤ mb.foldl (fun w v => if bitLen v.toNat > w then bitLen v.toNat else w) w0 ∧
    ∀ v ∈ mb, bitLen v.toNat ≤ mb.foldl (fun w v => if bitLen v.toNat > w then bitLen v.toNat else w) w0
  | [], w0 => by simp
  | a :: mb, w0 => by
    simp only [List.foldl_cons, List.mem_cons]
    generalize hs : (if bitLen a.toNat > w0 then bitLen a.toNat else w0) = s
    have hs' : w0 ≤ s ∧ bitLen a.toNat ≤ s := by subst hs; split <;> omega
    have ih := foldl_width_ge mb s
    refine ⟨by omega, ?_⟩
    intro v hv
    rcases hv with rfl | hv
    · omega
    · exact ih.2 v hv

theorem foldl_width_le {n : Nat} (B : Nat) : ∀ (mb : List (BitVec n)) (w0 : Nat),
    w0 ≤ B → (∀ v ∈ mb, bitLen v.toNat ≤ B) →
    mb.foldl (fun w v => if bitLen v.toNat > w then bitLen v.toNat else w) w0 ≤ B
  | [], w0, h, _ => by simpa
  | a :: mb, w0, h, hv => by
    simp only [List.foldl_cons]
    apply foldl_width_le B mb
    · have := hv a (by simp); split <;> omega
    · intro v hm; exact hv v (by simp [hm])

/-- every value of a miniblock fits in the width the encoder computes for it -/
theorem lt_miniWidth {n : Nat} (mb : List (BitVec n)) : ∀ v ∈ mb, v.toNat < 2 ^ miniWidth mb := by
  intro v hv
  have h1 := (foldl_width_ge mb 0).2 v hv
  have h2 := lt_bitLen v.toNat
  exact Nat.lt_of_lt_of_le h2 (Nat.pow_le_pow_right (by omega) h1)

/-- the width never exceeds the width of the physical type -/
theorem miniWidth_le {n : Nat} (mb : List (BitVec n)) : miniWidth mb ≤ n :=
  foldl_width_le n mb 0 (Nat.zero_le _) (fun v _ => bitLen_le v.isLt)

theorem miniWidth_zero {n : Nat} (mb : List (BitVec n)) (h : ∀ v ∈ mb, v = 0) : miniWidth mb = 0 := by
  have := foldl_width_le 0 mb 0 (Nat.le_refl _) (fun v hv => by rw [h v hv]; simp [bitLen_zero])
  unfold miniWidth; omega

/-! ### packed sizes -/

theorem packBits_length (w : Nat) : ∀ xs : List Nat, (packBits w xs).length = w * xs.length
  | [] => by simp [packBits]
  | x :: xs => by
    have ih := packBits_length w xs
    simp only [packBits, List.map_cons, List.flatten_cons, List.length_append, toBits_length, List.length_cons] at ih ⊢
    rw [ih, Nat.mul_succ]; omega

theorem bitsToBytes_length : ∀ (f : Nat) (bs : List Bool), bs.length ≤ f →
    (bitsToBytes f bs).length = (bs.length + 7) / 8
  | 0, bs, h => by
    have : bs = [] := by cases bs <;> simp_all
    subst this; simp [bitsToBytes]
  | f + 1, bs, h => by
    simp only [bitsToBytes]
    cases bs with
    | nil => simp
    | cons b bs =>
      simp only [List.isEmpty_cons, Bool.false_eq_true, if_false, List.length_cons]
      rw [bitsToBytes_length f _ (by simp only [List.length_drop, List.length_cons] at *; omega)]
      simp only [List.length_drop, List.length_cons]
      omega

theorem packMini_eq {n : Nat} (w : Nat) (mb : List (BitVec n)) :
    packMini w mb = bitsToBytes (packBits w (mb.map BitVec.toNat)).length (packBits w (mb.map BitVec.toNat)) := by
  unfold packMini
  rw [packBits_length, List.length_map]
  by_cases hw : w = 0
  · subst hw; simp [packBits, bitsToBytes]
  · simp [hw]

theorem packMini_length {n : Nat} (w : Nat) (mb : List (BitVec n)) (h : mb.length = 32) :
    (packMini w mb).length = 32 * w / 8 := by
  rw [packMini_eq, bitsToBytes_length _ _ (Nat.le_refl _), packBits_length, List.length_map, h]
  omega

/-! ### miniblocks -/

theorem unpackBits_take (w : Nat) : ∀ (k n : Nat) (bits : List Bool), k ≤ n →
    unpackBits w k bits = (unpackBits w n bits).take k
  | 0, _, _, _ => by simp [unpackBits]
  | k + 1, 0, _, h => by omega
  | k + 1, n + 1, bits, h => by
    simp only [unpackBits, List.take_succ_cons]
    rw [unpackBits_take w k n _ (by omega)]

theorem packAll_zero {n : Nat} : ∀ (mbs : List (List (BitVec n))), (∀ v ∈ mbs.flatten, v = 0) →
    mbs.flatMap (fun mb => packMini (miniWidth mb) mb) = []
  | [], _ => rfl
  | mb :: mbs, h => by
    have h1 : miniWidth mb = 0 := miniWidth_zero mb (fun v hv => h v (by simp [hv]))
    have ih := packAll_zero mbs (fun v hv => h v (by
      simp only [List.flatten_cons, List.mem_append]; exact Or.inr hv))
    rw [List.flatMap_cons, ih, h1]; simp [packMini]

/-- The spec decoder reads back the miniblocks written by the mirror, for any number of values
`rem` still expected, provided everything beyond `rem` is zero padding (which is what
`blockClear` establishes). -/
theorem decMinis_pack {n : Nat} (maxW : Nat) : ∀ (mbs : List (List (BitVec n))) (rem : Nat) (tail : List Nat),
    (∀ mb ∈ mbs, mb.length = 32) → (∀ mb ∈ mbs, miniWidth mb ≤ maxW) →
    (∀ v ∈ (mbs.flatten).drop rem, v = 0) →
    decMinis 32 maxW (mbs.map miniWidth) rem (mbs.flatMap (fun mb => packMini (miniWidth mb) mb) ++ tail)
      = .ok (((mbs.flatten).take rem).map BitVec.toNat, tail)
  | [], rem, tail, _, _, _ => by simp [decMinis]
  | mb :: mbs, rem, tail, hlen, hw, hz => by
    simp only [List.map_cons, decMinis]
    by_cases hr : rem = 0
    · subst hr
      have := packAll_zero (mb :: mbs) (by simpa using hz)
      simp [this]
    · simp only [hr, if_false]
      have hl : mb.length = 32 := hlen mb (by simp)
      have hwm : ¬ maxW < miniWidth mb := by have := hw mb (by simp); omega
      simp only [hwm, if_false, List.flatMap_cons, List.append_assoc]
      have hpl := packMini_length (miniWidth mb) mb hl
      have hnt : ¬ ((packMini (miniWidth mb) mb ++
          (mbs.flatMap (fun mb => packMini (miniWidth mb) mb) ++ tail)).length < 32 * miniWidth mb / 8) := by
        simp only [List.length_append]; omega
      simp only [hnt, if_false]
      rw [List.take_left' hpl, List.drop_left' hpl]
      have hz' : ∀ v ∈ (mbs.flatten).drop (rem - min 32 rem), v = 0 := by
        intro v hv
        apply hz v
        simp only [List.flatten_cons, List.drop_append, hl]
        by_cases h32 : 32 ≤ rem
        · rw [Nat.min_eq_left h32] at hv
          exact List.mem_append_right _ hv
        · have : rem - min 32 rem = 0 := by omega
          rw [this] at hv
          have : rem - 32 = 0 := by omega
          rw [this]
          exact List.mem_append_right _ hv
      rw [decMinis_pack maxW mbs (rem - min 32 rem) tail (fun m hm => hlen m (by simp [hm]))
        (fun m hm => hw m (by simp [hm])) hz']
      rw [unpackBits_take (miniWidth mb) (min 32 rem) 32 _ (Nat.min_le_left _ _)]
      have hup : unpackBits (miniWidth mb) 32 (bytesToBits (packMini (miniWidth mb) mb)) = mb.map BitVec.toNat := by
        rw [packMini_eq]
        have := unpack_pack_bytes (miniWidth mb) (mb.map BitVec.toNat) (by
          intro x hx
          obtain ⟨v, hv, rfl⟩ := List.mem_map.mp hx
          exact lt_miniWidth mb v hv)
        simpa [hl] using this
      simp only [hup]
      congr 1
      simp only [List.flatten_cons, List.take_append, List.map_append, List.map_take, hl]
      by_cases h32 : 32 ≤ rem
      · rw [Nat.min_eq_left h32, List.take_of_length_le (by simp [hl]), List.take_of_length_le (l := List.map BitVec.toNat mb) (by simp [hl]; omega)]
      · have : rem - min 32 rem = 0 := by omega
        rw [this]
        have : min 32 rem = rem := by omega
        rw [this]
        have : rem - 32 = 0 := by omega
        rw [this]

/-! ### one block -/

theorem recon_blockDelta {n : Nat} (minD : BitVec n) : ∀ (chunk : List (BitVec n)) (last : BitVec n),
    recon minD last ((blockDelta chunk last).map (fun d => (d - minD).toNat)) = chunk
  | [], _ => rfl
  | v :: vs, last => by
    simp only [blockDelta, List.map_cons, recon]
    have : last + minD + BitVec.ofNat n (v - last - minD).toNat = v := by
      rw [BitVec.ofNat_toNat, BitVec.setWidth_eq]; grind
    rw [this, recon_blockDelta minD vs v]

theorem blockDelta_length {n : Nat} : ∀ (a : List (BitVec n)) (last : BitVec n), (blockDelta a last).length = a.length
  | [], _ => rfl
  | v :: vs, _ => by simp [blockDelta, blockDelta_length vs v]

theorem blockDelta_append {n : Nat} : ∀ (a b : List (BitVec n)) (last : BitVec n),
    blockDelta (a ++ b) last = blockDelta a last ++ blockDelta b (a.getLastD last)
  | [], b, last => by simp [blockDelta]
  | v :: vs, b, last => by
    simp only [List.cons_append, blockDelta, blockDelta_append vs b v]
    cases vs <;> simp [List.getLastD]

theorem minis_flatten {α : Type} (l : List α) (h : l.length = 128) :
    ([0, 1, 2, 3].map (fun i => (l.drop (32 * i)).take 32)).flatten = l := by
  simp only [List.map_cons, List.map_nil, List.flatten_cons, List.flatten_nil, List.append_nil, Nat.mul_zero, List.drop_zero]
  have e1 : l = l.take 32 ++ l.drop 32 := (List.take_append_drop 32 l).symm
  have e2 : l.drop 32 = (l.drop 32).take 32 ++ l.drop 64 := by
    have := (List.take_append_drop 32 (l.drop 32)).symm; rwa [List.drop_drop] at this
  have e3 : l.drop 64 = (l.drop 64).take 32 ++ l.drop 96 := by
    have := (List.take_append_drop 32 (l.drop 64)).symm; rwa [List.drop_drop] at this
  have e4 : (l.drop 96).take 32 = l.drop 96 := List.take_of_length_le (by simp; omega)
  conv => rhs; rw [e1, e2, e3]
  simp [e4]

theorem minis_length {α : Type} (l : List α) (h : l.length = 128) :
    ∀ mb ∈ [0, 1, 2, 3].map (fun i => (l.drop (32 * i)).take 32), mb.length = 32 := by
  intro mb hmb
  simp only [List.map_cons, List.map_nil, List.mem_cons, List.not_mem_nil, or_false] at hmb
  rcases hmb with rfl | rfl | rfl | rfl <;> simp <;> omega

/-- **Per-block lemma.** The spec decoder applied to the bytes of one mirror block returns the
values of the block and the bytes that follow, for every chunk of `min 128 rem` values, every
previous value, every padding situation and whatever minimum the encoder picked. -/
theorem decBlock_encBlock {n : Nat} (hn : n ≤ 64) (chunk : List (BitVec n)) (last : BitVec n) (rem : Nat)
    (tail : List Nat) (hk : chunk.length = min 128 rem) :
    decBlock n 32 4 rem last ((encBlock chunk last).1 ++ tail) = .ok (chunk, tail) := by
  simp only [encBlock]
  generalize hm : blockMin (blockDelta (chunk ++ List.replicate (128 - chunk.length) 0) last) = minD
  have hcl : ((blockDelta (chunk ++ List.replicate (128 - chunk.length) 0) last).map (· - minD)).take chunk.length
      = (blockDelta chunk last).map (· - minD) := by
    rw [blockDelta_append, List.map_append, List.take_left' (by simp [blockDelta_length])]
  rw [hcl]
  generalize hc : (blockDelta chunk last).map (· - minD) ++ List.replicate (128 - chunk.length) 0 = cleared
  have hclen : cleared.length = 128 := by
    subst hc; simp [blockDelta_length]; omega
  generalize hmbs : [0, 1, 2, 3].map (fun i => (cleared.drop (32 * i)).take 32) = mbs
  have hfl : mbs.flatten = cleared := by subst hmbs; exact minis_flatten cleared hclen
  have hml : ∀ mb ∈ mbs, mb.length = 32 := by subst hmbs; exact minis_length cleared hclen
  have hmn : mbs.length = 4 := by subst hmbs; rfl
  simp only [decBlock, List.append_assoc, specZigzag_varintEnc hn]
  have hwl : (mbs.map miniWidth).length = 4 := by simp [hmn]
  have hnt : ¬ ((mbs.map miniWidth ++ (mbs.flatMap (fun mb => packMini (miniWidth mb) mb) ++ tail)).length < 4) := by
    simp only [List.length_append]; omega
  simp only [hnt, if_false]
  rw [List.take_left' hwl, List.drop_left' hwl]
  have hz : ∀ v ∈ (mbs.flatten).drop rem, v = 0 := by
    intro v hv
    rw [hfl, ← hc, List.drop_append] at hv
    rcases List.mem_append.mp hv with h | h
    · have : (List.map (fun x => x - minD) (blockDelta chunk last)).length ≤ rem := by
        simp [blockDelta_length]; omega
      rw [List.drop_of_length_le this] at h; cases h
    · exact List.eq_of_mem_replicate (List.mem_of_mem_drop h)
  rw [decMinis_pack n mbs rem tail hml (fun mb _ => miniWidth_le mb) hz]
  simp only [BitVec.ofInt_toInt]
  have htk : (mbs.flatten).take rem = (blockDelta chunk last).map (· - minD) := by
    rw [hfl, ← hc, List.take_append]
    have hl : (List.map (fun x => x - minD) (blockDelta chunk last)).length = chunk.length := by
      simp [blockDelta_length]
    by_cases h128 : 128 ≤ rem
    · have : 128 - chunk.length = 0 := by omega
      simp only [this, List.replicate_zero, List.take_nil, List.append_nil]
      exact List.take_of_length_le (by omega)
    · have hr : rem = chunk.length := by omega
      rw [hr, hl, Nat.sub_self, List.take_zero, List.append_nil, List.take_of_length_le (Nat.le_of_eq hl)]
  rw [htk, List.map_map]
  have := recon_blockDelta minD chunk last
  simp only [Function.comp_def]
  rw [this]

/-- the `lastValue` the Go loop carries to the next block is the last value of a full block -/
theorem encBlock_last {n : Nat} (chunk : List (BitVec n)) (last : BitVec n) (h : chunk.length = 128) :
    (encBlock chunk last).2 = chunk.getLastD last := by
  simp [encBlock, h]

/-! ### the block loop and the whole stream -/

theorem encBlocks_nil {n : Nat} : ∀ (f : Nat) (last : BitVec n), encBlocks f ([] : List (BitVec n)) last = []
  | 0, _ => rfl
  | _ + 1, _ => by simp [encBlocks]

theorem decBlocks_encBlocks {n : Nat} (hn : n ≤ 64) : ∀ (fuel : Nat) (rest : List (BitVec n)) (last : BitVec n)
    (tail : List Nat) (fuelD : Nat), rest.length ≤ fuel → rest.length ≤ fuelD →
    decBlocks n 32 4 fuelD rest.length last (encBlocks fuel rest last ++ tail) = .ok (rest, tail)
  | 0, rest, last, tail, fuelD, h, _ => by
    have : rest = [] := by cases rest <;> simp_all
    subst this; cases fuelD <;> simp [decBlocks, encBlocks]
  | fuel + 1, [], last, tail, fuelD, _, _ => by
    cases fuelD <;> simp [decBlocks, encBlocks]
  | fuel + 1, a :: r, last, tail, 0, _, h' => by simp at h'
  | fuel + 1, a :: r, last, tail, fd + 1, h, h' => by
    have hk : ((a :: r).take 128).length = min 128 (r.length + 1) := by
      simp only [List.length_take, List.length_cons]
    simp only [encBlocks, List.isEmpty_cons, Bool.false_eq_true, if_false, List.length_cons, decBlocks,
      List.append_assoc]
    have hb := decBlock_encBlock hn ((a :: r).take 128) last (r.length + 1)
      (encBlocks fuel ((a :: r).drop 128) (encBlock ((a :: r).take 128) last).2 ++ tail) hk
    rw [hb]
    simp only [hk]
    by_cases hlen : 128 ≤ r.length + 1
    · -- full block: the carried last value is the last value of the block
      have hl : ((a :: r).take 128).length = 128 := by rw [hk]; omega
      rw [encBlock_last _ _ hl]
      have hd : r.length + 1 - min 128 (r.length + 1) = ((a :: r).drop 128).length := by
        simp only [List.length_drop, List.length_cons]; omega
      rw [hd, decBlocks_encBlocks hn fuel ((a :: r).drop 128) _ tail fd
        (by simp only [List.length_drop, List.length_cons] at *; omega)
        (by simp only [List.length_drop, List.length_cons] at *; omega)]
      simp only [List.take_append_drop]
    · -- last (partial) block: nothing follows
      have hd : (a :: r).drop 128 = [] := List.drop_of_length_le (by simp only [List.length_cons]; omega)
      have hz : r.length + 1 - min 128 (r.length + 1) = 0 := by omega
      rw [hd, hz, encBlocks_nil]
      have ht : (a :: r).take 128 = a :: r := List.take_of_length_le (by simp only [List.length_cons]; omega)
      cases fd <;> simp [decBlocks, ht]

theorem specHeader_encHeader {n : Nat} (hn : n ≤ 64) (total : Nat) (first : BitVec n) (tail : List Nat) :
    specHeader (encHeader total first ++ tail) =
      .ok ({ blockSize := 128, minis := 4, total := total, first := first.toInt }, tail) := by
  simp [specHeader, encHeader, List.append_assoc, specUleb_uvarintEnc, specZigzag_varintEnc hn]

/-- The round trip for an `n`-bit type (`n ≤ 64`), with an arbitrary continuation `tail` after the
stream (this is the stream-length lemma the byte-array encodings need). -/
theorem specDecode_mirrorEncode {n : Nat} (hn : n ≤ 64) (xs : List (BitVec n)) (tail : List Nat) :
    specDecode n (mirrorEncode xs ++ tail) = .ok (xs, tail) := by
  simp only [specDecode, mirrorEncode, List.append_assoc, specHeader_encHeader hn]
  match xs with
  | [] => simp
  | [a] => simp [decBlocks, BitVec.ofInt_toInt]
  | a :: b :: r =>
    have h2 : ¬ ((a :: b :: r).length < 2) := by simp
    have h0 : ¬ ((a :: b :: r).length = 0) := by simp
    simp only [h2, h0, if_false, List.headD_cons, List.tail_cons, BitVec.ofInt_toInt]
    have := decBlocks_encBlocks hn (a :: b :: r).length (b :: r) a tail (a :: b :: r).length
      (by simp) (by simp)
    simp only [List.length_cons, Nat.add_sub_cancel] at this ⊢
    rw [this]

/-! ### byte arrays -/

theorem natLens_ofNat (ls : List Nat) (h : ∀ l ∈ ls, l < 2 ^ 31) :
    natLens (ls.map (BitVec.ofNat 32)) = .ok ls := by
  have hall : (ls.map (BitVec.ofNat 32)).all (fun l => !l.msb) = true := by
    simp only [List.all_map, List.all_eq_true, Function.comp_def]
    intro l hl
    have := h l hl
    simp only [BitVec.msb_eq_decide, BitVec.toNat_ofNat, Bool.not_eq_true', decide_eq_false_iff_not]
    omega
  have hmap : (ls.map (BitVec.ofNat 32)).map BitVec.toNat = ls := by
    rw [List.map_map]
    conv => rhs; rw [← List.map_id ls]
    apply List.map_congr_left
    intro l hl
    have := h l hl
    simp only [Function.comp_def, BitVec.toNat_ofNat, id]
    omega
  simp [natLens, hall, hmap]

theorem splitLens_flatten : ∀ (vs : List (List Nat)) (tail : List Nat),
    splitLens (vs.map List.length) (vs.flatten ++ tail) = .ok (vs, tail)
  | [], tail => by simp [splitLens]
  | v :: vs, tail => by
    have hnt : ¬ ((v ++ (vs.flatten ++ tail)).length < v.length) := by simp only [List.length_append]; omega
    simp only [List.map_cons, List.flatten_cons, List.append_assoc, splitLens, hnt, if_false,
      List.take_left' rfl, List.drop_left' rfl, splitLens_flatten vs tail]

theorem specDecodeDLBA_mirror (vs : List (List Nat)) (tail : List Nat) (h : ∀ v ∈ vs, v.length < 2 ^ 31) :
    specDecodeDLBA (mirrorEncodeDLBA vs ++ tail) = .ok (vs, tail) := by
  have e : vs.map (fun v => BitVec.ofNat 32 v.length) = (vs.map List.length).map (BitVec.ofNat 32) := by
    simp [List.map_map, Function.comp_def]
  simp only [specDecodeDLBA, mirrorEncodeDLBA, mirrorEncode32, List.append_assoc,
    specDecode_mirrorEncode (by decide : 32 ≤ 64), e]
  rw [natLens_ofNat _ (by
    intro l hl
    obtain ⟨v, hv, rfl⟩ := List.mem_map.mp hl
    exact h v hv)]
  exact splitLens_flatten vs tail

theorem le_lastOff : ∀ (rest : List Nat) (o : Nat), nondecreasing (o :: rest) = true → o ≤ lastOff o rest
  | [], _, _ => by simp [lastOff]
  | b :: r, o, h => by
    simp only [nondecreasing, Bool.and_eq_true, decide_eq_true_eq] at h
    have := le_lastOff r b h.2
    simp only [lastOff]; omega

/-- For a non-decreasing offsets list inside `src`: the offset differences are the lengths of the
window values, and the window values concatenate to `src[offsets[0]:offsets[n]]`. -/
theorem window_facts (src : List Nat) : ∀ (rest : List Nat) (o : Nat), nondecreasing (o :: rest) = true →
    lastOff o rest ≤ src.length →
    (((o :: rest).zip rest).map (fun ab => BitVec.ofNat 32 (ab.2 - ab.1))
        = (windowValues src (o :: rest)).map (fun v => BitVec.ofNat 32 v.length)) ∧
    (windowValues src (o :: rest)).flatten = (src.drop o).take (lastOff o rest - o)
  | [], o, _, _ => by simp [windowValues, lastOff]
  | b :: r, o, h, hl => by
    have hle := le_lastOff (b :: r) o h
    simp only [nondecreasing, Bool.and_eq_true, decide_eq_true_eq] at h
    have hb := le_lastOff r b h.2
    simp only [lastOff] at hl hle ⊢
    obtain ⟨ih1, ih2⟩ := window_facts src r b h.2 hl
    simp only [windowValues, List.tail_cons, List.zip_cons_cons, List.map_cons, List.flatten_cons] at ih1 ih2 ⊢
    refine ⟨?_, ?_⟩
    · rw [ih1]
      congr 2
      simp only [List.length_take, List.length_drop]; omega
    · rw [ih2]
      have e : lastOff b r - o = (b - o) + (lastOff b r - b) := by omega
      rw [e, List.take_add, List.drop_drop]
      have : o + (b - o) = b := by omega
      rw [this]

/-- on well-formed `(src, offsets)` the raw Go entry point is the list mirror applied to the window values -/
theorem mirrorEncodeDLBARaw_eq (src : List Nat) (o : Nat) (rest : List Nat)
    (hm : nondecreasing (o :: rest) = true) (hl : lastOff o rest ≤ src.length) :
    mirrorEncodeDLBARaw src (o :: rest) = mirrorEncodeDLBA (windowValues src (o :: rest)) := by
  obtain ⟨h1, h2⟩ := window_facts src rest o hm hl
  simp only [mirrorEncodeDLBARaw, mirrorEncodeDLBA, h1, h2]

theorem commonPrefix_le : ∀ (a b : List Nat), commonPrefix a b ≤ a.length ∧ commonPrefix a b ≤ b.length
  | [], _ => by simp [commonPrefix]
  | _ :: _, [] => by simp [commonPrefix]
  | a :: as, b :: bs => by
    have := commonPrefix_le as bs
    simp only [commonPrefix, List.length_cons]
    split <;> omega

theorem commonPrefix_take : ∀ (a b : List Nat), a.take (commonPrefix a b) = b.take (commonPrefix a b)
  | [], _ => by simp [commonPrefix]
  | _ :: _, [] => by simp [commonPrefix]
  | a :: as, b :: bs => by
    simp only [commonPrefix]
    split
    · next h => subst h; simp [commonPrefix_take as bs]
    · simp

theorem commonPrefix_of_take_ne : ∀ (m : Nat) (a b : List Nat), a.take m ≠ b.take m →
    commonPrefix a b = commonPrefix (a.take m) (b.take m)
  | 0, _, _, h => by simp at h
  | m + 1, [], [], h => by simp at h
  | m + 1, [], _ :: _, _ => by simp [commonPrefix]
  | m + 1, _ :: _, [], _ => by simp [commonPrefix]
  | m + 1, x :: xs, y :: ys, h => by
    simp only [List.take_succ_cons, commonPrefix]
    split
    · next hxy =>
      subst hxy
      rw [commonPrefix_of_take_ne m xs ys (by
        intro he; apply h; simp [he])]
    · rfl

theorem commonPrefix_of_take_eq : ∀ (m : Nat) (a b : List Nat), a.take m = b.take m →
    m ≤ a.length → m ≤ b.length → commonPrefix a b = commonPrefix (a.drop m) (b.drop m) + m
  | 0, _, _, _, _, _ => by simp
  | m + 1, [], _, _, h, _ => by simp at h
  | m + 1, _ :: _, [], _, _, h => by simp at h
  | m + 1, x :: xs, y :: ys, he, ha, hb => by
    simp only [List.take_succ_cons, List.cons.injEq] at he
    simp only [List.length_cons] at ha hb
    simp only [commonPrefix, he.1, if_true, List.drop_succ_cons]
    rw [commonPrefix_of_take_eq m xs ys he.2 (by omega) (by omega)]
    omega

theorem wordSearch_eq : ∀ (k : Nat) (a b : List Nat), 8 * k ≤ a.length → 8 * k ≤ b.length →
    wordSearch k a b = commonPrefix a b
  | 0, _, _, _, _ => rfl
  | k + 1, a, b, ha, hb => by
    simp only [wordSearch]
    split
    · next he =>
      rw [wordSearch_eq k _ _ (by simp only [List.length_drop]; omega) (by simp only [List.length_drop]; omega),
        commonPrefix_of_take_eq 8 a b he (by omega) (by omega)]
    · next hne => exact (commonPrefix_of_take_ne 8 a b hne).symm

/-- the word-at-a-time search of the Go code returns the length of the longest common prefix -/
theorem searchPrefixLength_eq (a b : List Nat) : searchPrefixLength a b = commonPrefix a b := by
  unfold searchPrefixLength wordSearchPrefixLength
  apply wordSearch_eq <;> omega

theorem joinPrefix_dba : ∀ (vs : List (List Nat)) (prev : List Nat),
    joinPrefix prev (dbaPrefixes prev vs) (dbaSuffixes prev vs) = .ok vs
  | [], _ => by simp [joinPrefix, dbaPrefixes, dbaSuffixes]
  | v :: vs, prev => by
    have hle := (commonPrefix_le prev v).1
    have hv : prev.take (commonPrefix prev v) ++ v.drop (commonPrefix prev v) = v := by
      rw [commonPrefix_take, List.take_append_drop]
    have hnt : ¬ (prev.length < commonPrefix prev v) := by omega
    simp only [dbaPrefixes, dbaSuffixes, searchPrefixLength_eq, joinPrefix, hnt, if_false, hv, joinPrefix_dba vs v]

theorem dbaPrefixes_lt : ∀ (vs : List (List Nat)) (prev : List Nat), (∀ v ∈ vs, v.length < 2 ^ 31) →
    ∀ p ∈ dbaPrefixes prev vs, p < 2 ^ 31
  | [], _, _ => by simp [dbaPrefixes]
  | v :: vs, prev, h => by
    intro p hp
    simp only [dbaPrefixes, searchPrefixLength_eq, List.mem_cons] at hp
    rcases hp with rfl | hp
    · have := (commonPrefix_le prev v).2
      have := h v (by simp)
      omega
    · exact dbaPrefixes_lt vs v (fun w hw => h w (by simp [hw])) p hp

theorem dbaSuffixes_lt : ∀ (vs : List (List Nat)) (prev : List Nat), (∀ v ∈ vs, v.length < 2 ^ 31) →
    ∀ s ∈ dbaSuffixes prev vs, s.length < 2 ^ 31
  | [], _, _ => by simp [dbaSuffixes]
  | v :: vs, prev, h => by
    intro s hs
    simp only [dbaSuffixes, searchPrefixLength_eq, List.mem_cons] at hs
    rcases hs with rfl | hs
    · have := h v (by simp)
      simp only [List.length_drop]; omega
    · exact dbaSuffixes_lt vs v (fun w hw => h w (by simp [hw])) s hs

theorem specDecodeDBA_mirror (vs : List (List Nat)) (tail : List Nat) (h : ∀ v ∈ vs, v.length < 2 ^ 31) :
    specDecodeDBA (mirrorEncodeDBA vs ++ tail) = .ok (vs, tail) := by
  have hd := specDecodeDLBA_mirror (dbaSuffixes [] vs) tail (dbaSuffixes_lt vs [] h)
  simp only [mirrorEncodeDLBA] at hd
  simp only [specDecodeDBA, mirrorEncodeDBA, mirrorEncode32, List.append_assoc,
    specDecode_mirrorEncode (by decide : 32 ≤ 64)]
  rw [natLens_ofNat _ (dbaPrefixes_lt vs [] h)]
  simp only [mirrorEncode32, List.append_assoc] at hd
  simp only [hd, joinPrefix_dba]

theorem chunksOf_flatten (size : Nat) : ∀ (f : Nat) (src : List Nat), 0 < size → src.length ≤ f →
    src.length % size = 0 → (chunksOf size f src).flatten = src
  | 0, src, _, h, _ => by
    have : src = [] := by cases src <;> simp_all
    subst this; simp [chunksOf]
  | f + 1, src, hs, h, hm => by
    simp only [chunksOf]
    by_cases hlt : src.length < size
    · have : src.length = 0 := by rw [Nat.mod_eq_of_lt hlt] at hm; exact hm
      have : src = [] := List.eq_nil_of_length_eq_zero this
      subst this; simp
    · have hs0 : ¬ (size = 0) := by omega
      simp only [hlt, hs0, or_self, if_false, List.flatten_cons]
      rw [chunksOf_flatten size f (src.drop size) hs (by simp only [List.length_drop]; omega) (by
        simp only [List.length_drop]
        have := Nat.sub_mod_eq_zero_of_mod_eq (m := src.length) (n := size) (k := size) (by simp [hm])
        exact this)]
      exact List.take_append_drop size src

theorem chunksOf_length (size : Nat) : ∀ (f : Nat) (src : List Nat), ∀ v ∈ chunksOf size f src, v.length = size
  | 0, _ => by simp [chunksOf]
  | f + 1, src => by
    intro v hv
    simp only [chunksOf] at hv
    split at hv
    · cases hv
    · next hc =>
      rcases List.mem_cons.mp hv with rfl | hv
      · simp only [List.length_take]; omega
      · exact chunksOf_length size f _ v hv

end PqModel.Delta
