import PqModel.XxHash

/-! # Split-block bloom filter (C07)

MIRROR of `bloom/block.go:5-28` (words, block, salts), `bloom/block_optimized.go:27-50`
(`Insert`, `Check`), `bloom/bloom.go:4-6` (`fasthash1x64`), `bloom/filter.go:22-94`
(`MakeSplitBlockFilter`, `Insert`, `InsertBulk`, `Check`, `Bytes`, `CheckSplitBlock`) and of the two
hashing sides in `bloom.go` (`Value.hash` 55-66; `splitBlockEncoding.Encode*` 249-368).
The spec-side check ("every mask bit is set", BloomFilter.md) is `blockCheck`; the Go form
(`word & mask != 0`) is `blockCheckGo`; they are proved equal. -/
namespace PqModel.Bloom
open PqModel.XxHash

/-! ## blocks and filters over 64-bit hashes -/

def salts : List (BitVec 32) :=
  [0x47b6137b#32, 0x44974d91#32, 0x8824ad5b#32, 0xa2b7289d#32, 0x705495c7#32, 0x2df1424b#32, 0x9efc4947#32, 0x5c6bfb31#32]

/-- block = 8 words; mask word i = 1 <<< ((x * salt_i) >>> 27) -/
def maskWord (x salt : BitVec 32) : BitVec 32 := 1#32 <<< ((x * salt) >>> 27).toNat

abbrev Block := List (BitVec 32)   -- length 8

def mask (x : BitVec 32) : Block := salts.map (maskWord x)

def blockInsert (b : Block) (x : BitVec 32) : Block := List.zipWith (· ||| ·) b (mask x)

def blockCheck (b : Block) (x : BitVec 32) : Bool :=
  (List.zipWith (fun w m => (w &&& m) == m) b (mask x)).all id

/-- fasthash1x64: ((x >>> 32) * n) >>> 32 -/
def blockIndex (x : BitVec 64) (n : Nat) : Nat := ((x >>> 32).toNat * n) >>> 32

/-- MIRROR `fasthash1x64(value, int32(len(f)))`, bloom/bloom.go:4-6, in 64-bit wraparound arithmetic;
    `n` is the block count after the `int32` conversion (0 ≤ n < 2^31 for filters below 64 GiB). -/
def blockIndexGo (x : BitVec 64) (n : Nat) : Nat := (((x >>> 32) * BitVec.ofNat 64 n) >>> 32).toNat

abbrev Filter := List Block

def setAt {α} : List α → Nat → (α → α) → List α
  | [], _, _ => []
  | a :: as, 0, f => f a :: as
  | a :: as, i + 1, f => a :: setAt as i f

def bfInsert (f : Filter) (h : BitVec 64) : Filter :=
  setAt f (blockIndex h f.length) (fun b => blockInsert b (h.truncate 32))

def check (f : Filter) (h : BitVec 64) : Bool :=
  match f[blockIndex h f.length]? with
  | some b => blockCheck b (h.truncate 32)
  | none => false

def WfBlock (b : Block) : Prop := b.length = 8
def WfFilter (f : Filter) : Prop := 0 < f.length ∧ ∀ b ∈ f, WfBlock b

theorem bv_ext32 {a b : BitVec 32} (h : ∀ i, i < 32 → a.getLsbD i = b.getLsbD i) : a = b :=
  BitVec.eq_of_getLsbD_eq (fun i hi => h i hi)

theorem or_and_self (w m : BitVec 32) : ((w ||| m) &&& m) = m := by
  apply bv_ext32; intro i _
  simp only [BitVec.getLsbD_and, BitVec.getLsbD_or]
  cases w.getLsbD i <;> cases m.getLsbD i <;> rfl

theorem and_mono (w m m' : BitVec 32) (h : (w &&& m) = m) : ((w ||| m') &&& m) = m := by
  apply bv_ext32; intro i hi
  have := congrArg (fun v => v.getLsbD i) h
  simp only [BitVec.getLsbD_and, BitVec.getLsbD_or] at this ⊢
  cases hw : w.getLsbD i <;> cases hm : m.getLsbD i <;> cases m'.getLsbD i <;> simp_all

theorem zipCheck_insert : ∀ (b m : Block), b.length = m.length →
    (List.zipWith (fun w m => (w &&& m) == m) (List.zipWith (· ||| ·) b m) m).all id = true
  | [], [], _ => rfl
  | w :: ws, m :: ms, h => by
    simp only [List.zipWith_cons_cons, List.all_cons, id]
    rw [or_and_self]
    simp [zipCheck_insert ws ms (by simpa using h)]
  | [], _ :: _, h => by simp at h
  | _ :: _, [], h => by simp at h

theorem zipCheck_mono : ∀ (b m m' : Block), b.length = m.length → m.length = m'.length →
    (List.zipWith (fun w m => (w &&& m) == m) b m).all id = true →
    (List.zipWith (fun w m => (w &&& m) == m) (List.zipWith (· ||| ·) b m') m).all id = true
  | [], [], [], _, _, _ => rfl
  | w :: ws, m :: ms, m' :: ms', h1, h2, h => by
    simp only [List.zipWith_cons_cons, List.all_cons, id, Bool.and_eq_true, beq_iff_eq] at h ⊢
    exact ⟨and_mono w m m' h.1, zipCheck_mono ws ms ms' (by simpa using h1) (by simpa using h2) h.2⟩
  | [], _ :: _, _, h, _, _ => by simp at h
  | _ :: _, [], _, h, _, _ => by simp at h
  | _ :: _, _ :: _, [], _, h, _ => by simp at h
  | [], [], _ :: _, _, h, _ => by simp at h

theorem mask_length (x : BitVec 32) : (mask x).length = 8 := by simp [mask, salts]

theorem blockCheck_insert (b : Block) (x : BitVec 32) (hb : WfBlock b) : blockCheck (blockInsert b x) x = true :=
  zipCheck_insert b (mask x) (by rw [hb, mask_length])

theorem blockCheck_mono (b : Block) (x y : BitVec 32) (hb : WfBlock b) (h : blockCheck b x = true) :
    blockCheck (blockInsert b y) x = true :=
  zipCheck_mono b (mask x) (mask y) (by rw [hb, mask_length]) (by rw [mask_length, mask_length]) h

theorem blockInsert_wf (b : Block) (x : BitVec 32) (hb : WfBlock b) : WfBlock (blockInsert b x) := by
  simp [WfBlock, blockInsert, mask_length] at *
  omega

theorem setAt_length {α} : ∀ (l : List α) i f, (setAt l i f).length = l.length
  | [], _, _ => rfl
  | _ :: _, 0, _ => rfl
  | a :: as, i + 1, f => by simp [setAt, setAt_length as i f]

theorem setAt_get {α} : ∀ (l : List α) (i j : Nat) (f : α → α),
    (setAt l i f)[j]? = if i = j then l[j]?.map f else l[j]?
  | [], i, j, f => by simp [setAt]
  | a :: as, 0, 0, f => by simp [setAt]
  | a :: as, 0, j + 1, f => by simp [setAt]
  | a :: as, i + 1, 0, f => by simp [setAt]
  | a :: as, i + 1, j + 1, f => by
    simp only [setAt, List.getElem?_cons_succ, setAt_get as i j f]
    by_cases h : i = j <;> simp [h]

theorem mem_setAt {α} {P : α → Prop} : ∀ (l : List α) i (f : α → α), (∀ a ∈ l, P a) → (∀ a, P a → P (f a)) →
    ∀ a ∈ setAt l i f, P a
  | [], _, _, _, _ => by intro a ha; simp [setAt] at ha
  | x :: xs, 0, f, h, hf => by
    intro a ha
    simp only [setAt, List.mem_cons] at ha
    rcases ha with rfl | ha
    · exact hf x (h x (by simp))
    · exact h a (by simp [ha])
  | x :: xs, i + 1, f, h, hf => by
    intro a ha
    simp only [setAt, List.mem_cons] at ha
    rcases ha with rfl | ha
    · exact h a (by simp)
    · exact mem_setAt xs i f (fun b hb => h b (by simp [hb])) hf a ha

theorem insert_wf (f : Filter) (h : BitVec 64) (hf : WfFilter f) : WfFilter (bfInsert f h) := by
  refine ⟨by simp [bfInsert, setAt_length]; exact hf.1, ?_⟩
  exact mem_setAt f _ _ hf.2 (fun b hb => blockInsert_wf b _ hb)

theorem blockIndex_lt (x : BitVec 64) (n : Nat) (hn : 0 < n) : blockIndex x n < n := by
  unfold blockIndex
  have hx : (x >>> 32).toNat < 2 ^ 32 := by
    rw [BitVec.toNat_ushiftRight, Nat.shiftRight_eq_div_pow]
    have := x.isLt
    apply Nat.div_lt_of_lt_mul
    omega
  rw [Nat.shiftRight_eq_div_pow]
  apply Nat.div_lt_of_lt_mul
  calc (x >>> 32).toNat * n < 2 ^ 32 * n := Nat.mul_lt_mul_of_pos_right hx hn

/-- no wraparound happens in `fasthash1x64` for any block count that fits 32 bits -/
theorem blockIndexGo_eq (x : BitVec 64) (n : Nat) (hn : n < 2 ^ 32) : blockIndexGo x n = blockIndex x n := by
  unfold blockIndexGo blockIndex
  have hx : (x >>> 32).toNat < 2 ^ 32 := by
    rw [BitVec.toNat_ushiftRight, Nat.shiftRight_eq_div_pow]
    have := x.isLt
    apply Nat.div_lt_of_lt_mul
    omega
  rw [BitVec.toNat_ushiftRight, BitVec.toNat_mul, BitVec.toNat_ofNat]
  have h1 : n % 2 ^ 64 = n := Nat.mod_eq_of_lt (by omega)
  have h2 : (x >>> 32).toNat * n < 2 ^ 64 := by
    calc (x >>> 32).toNat * n < 2 ^ 32 * 2 ^ 32 := Nat.mul_lt_mul'' hx hn
      _ = 2 ^ 64 := by decide
  rw [h1, Nat.mod_eq_of_lt h2]

theorem check_insert (f : Filter) (h : BitVec 64) (hf : WfFilter f) : check (bfInsert f h) h = true := by
  unfold check bfInsert
  rw [setAt_length, setAt_get]
  simp only [if_true]
  have hlt := blockIndex_lt h f.length hf.1
  rw [List.getElem?_eq_getElem hlt]
  simp only [Option.map_some]
  exact blockCheck_insert _ _ (hf.2 _ (List.getElem_mem hlt))

theorem check_mono (f : Filter) (h g : BitVec 64) (hf : WfFilter f) (hc : check f h = true) :
    check (bfInsert f g) h = true := by
  unfold check bfInsert at *
  rw [setAt_length, setAt_get]
  have hlt := blockIndex_lt h f.length hf.1
  rw [List.getElem?_eq_getElem hlt] at hc ⊢
  simp only at hc
  by_cases he : blockIndex g f.length = blockIndex h f.length
  · simp only [he, if_true, Option.map_some]
    exact blockCheck_mono _ _ _ (hf.2 _ (List.getElem_mem hlt)) hc
  · simp only [he, if_false]
    exact hc

/-- C07 core: a value whose hash was inserted is always reported present. -/
theorem no_false_negative (f : Filter) (hf : WfFilter f) : ∀ (hs : List (BitVec 64)) (h : BitVec 64), h ∈ hs →
    check (hs.foldl bfInsert f) h = true := by
  intro hs
  induction hs generalizing f with
  | nil => intro h hm; simp at hm
  | cons g gs ih =>
    intro h hm
    simp only [List.foldl_cons]
    rcases List.mem_cons.mp hm with rfl | hm
    · -- inserted first, preserved afterwards
      have h0 := check_insert f h hf
      have : ∀ (gs : List (BitVec 64)) (f' : Filter), WfFilter f' → check f' h = true →
          check (gs.foldl bfInsert f') h = true := by
        intro gs
        induction gs with
        | nil => intro f' _ hc; simpa using hc
        | cons g' gs' ih' =>
          intro f' hf' hc
          simp only [List.foldl_cons]
          exact ih' _ (insert_wf f' g' hf') (check_mono f' h g' hf' hc)
      exact this gs _ (insert_wf f h hf) h0
    · exact ih (bfInsert f g) (insert_wf f g hf) h hm

/-! ## the Go form of the block check (`word & mask != 0`) -/

/-- MIRROR `Block.Check`, block_optimized.go:40-50 -/
def blockCheckGo (b : Block) (x : BitVec 32) : Bool :=
  (List.zipWith (fun w m => (w &&& m) != 0#32) b (mask x)).all id

theorem getLsbD_oneShl (k i : Nat) (hk : k < 32) (hi : i < 32) :
    (1#32 <<< k).getLsbD i = decide (i = k) := by
  simp only [BitVec.getLsbD_shiftLeft, BitVec.getLsbD_one]
  by_cases h : i = k
  · subst h; simp [hi]
  · by_cases h2 : i < k
    · simp [h2, h]
    · have : ¬ (i - k = 0) := by omega
      simp [this, h]

theorem single_bit_check (w : BitVec 32) (k : Nat) (hk : k < 32) :
    ((w &&& (1#32 <<< k)) != 0#32) = ((w &&& (1#32 <<< k)) == (1#32 <<< k)) := by
  have hm : (1#32 <<< k) ≠ 0#32 := by
    intro h
    have := congrArg (fun v => v.getLsbD k) h
    simp only [getLsbD_oneShl k k hk hk] at this
    simp at this
  by_cases hb : w.getLsbD k = true
  · have e : (w &&& (1#32 <<< k)) = (1#32 <<< k) := by
      apply bv_ext32; intro i hi
      rw [BitVec.getLsbD_and, getLsbD_oneShl k i hk hi]
      by_cases h : i = k
      · subst h; simp [hb]
      · simp [h]
    rw [e]; simp [hm]
  · have e : (w &&& (1#32 <<< k)) = 0#32 := by
      apply bv_ext32; intro i hi
      rw [BitVec.getLsbD_and, getLsbD_oneShl k i hk hi]
      by_cases h : i = k
      · subst h; simp at hb; simp [hb]
      · simp [h]
    rw [e]
    have : (0#32 == 1#32 <<< k) = false := by
      simp only [beq_eq_false_iff_ne, ne_eq]; exact fun h => hm h.symm
    rw [this]; simp

theorem maskShift_lt (x salt : BitVec 32) : ((x * salt) >>> 27).toNat < 32 := by
  rw [BitVec.toNat_ushiftRight, Nat.shiftRight_eq_div_pow]
  have := (x * salt).isLt
  omega

theorem zipGo_eq : ∀ (b : Block) (ss : List (BitVec 32)) (x : BitVec 32),
    (List.zipWith (fun w m => (w &&& m) != 0#32) b (ss.map (maskWord x))).all id =
    (List.zipWith (fun w m => (w &&& m) == m) b (ss.map (maskWord x))).all id
  | [], _, _ => by simp
  | _ :: _, [], _ => by simp
  | w :: ws, s :: ss, x => by
    simp only [List.map_cons, List.zipWith_cons_cons, List.all_cons, id]
    rw [zipGo_eq ws ss x]
    unfold maskWord
    rw [single_bit_check w _ (maskShift_lt x s)]

/-- the Go check and the spec check are the same function -/
theorem blockCheckGo_eq (b : Block) (x : BitVec 32) : blockCheckGo b x = blockCheck b x :=
  zipGo_eq b salts x

/-! ## construction and serialisation -/

def emptyBlock : Block := List.replicate 8 0#32

/-- `make(SplitBlockFilter, n)` / a zeroed byte buffer of `32*n` bytes seen through
    `MakeSplitBlockFilter` (filter.go:24-26) -/
def emptyFilter (n : Nat) : Filter := List.replicate n emptyBlock

/-- `InsertBulk` (filter_default.go:5-9): insert one hash after the other -/
def insertBulk (f : Filter) (hs : List (BitVec 64)) : Filter := hs.foldl bfInsert f

def build (n : Nat) (hs : List (BitVec 64)) : Filter := insertBulk (emptyFilter n) hs

theorem emptyFilter_wf (n : Nat) (hn : 0 < n) : WfFilter (emptyFilter n) := by
  refine ⟨by simpa [emptyFilter] using hn, ?_⟩
  intro b hb
  simp only [emptyFilter, List.mem_replicate] at hb
  rw [hb.2]; simp [WfBlock, emptyBlock]

theorem insertBulk_wf (f : Filter) (hs : List (BitVec 64)) (hf : WfFilter f) : WfFilter (insertBulk f hs) := by
  unfold insertBulk
  induction hs generalizing f with
  | nil => simpa using hf
  | cons g gs ih => simp only [List.foldl_cons]; exact ih _ (insert_wf f g hf)

/-- a 32-bit word as it lies in memory / in the file: little endian
    (`SplitBlockFilter.Bytes`, filter.go:66-68, is a cast of the word array on a little-endian host) -/
def wordBytes (w : BitVec 32) : List UInt8 := leBytes 4 w.toNat

def blockBytes (b : Block) : List UInt8 := b.flatMap wordBytes

def filterBytes (f : Filter) : List UInt8 := f.flatMap blockBytes

/-- read `n` little-endian 32-bit words -/
def parseWords : Nat → List UInt8 → List (BitVec 32)
  | 0, _ => []
  | n + 1, bs => BitVec.ofNat 32 (leToNat (bs.take 4)) :: parseWords n (bs.drop 4)

/-- MIRROR `CheckSplitBlock`, filter.go:74-80: the filter is `n = len bytes` bytes, block index
    from `n / 32` blocks, read 32 bytes at `32 * index`, check the low 32 bits of the hash. -/
def checkBytes (bytes : List UInt8) (h : BitVec 64) : Bool :=
  let nb := bytes.length / 32
  let blk := (bytes.drop (32 * blockIndex h nb)).take 32
  blockCheckGo (parseWords 8 blk) (h.truncate 32)

theorem wordBytes_length (w : BitVec 32) : (wordBytes w).length = 4 := leBytes_length 4 _

theorem flatMap_length_const {α β} (g : α → List β) (k : Nat) :
    ∀ (l : List α), (∀ a ∈ l, (g a).length = k) → (l.flatMap g).length = k * l.length
  | [], _ => by simp
  | a :: as, h => by
    simp only [List.flatMap_cons, List.length_append, List.length_cons]
    rw [h a (by simp), flatMap_length_const g k as (fun b hb => h b (by simp [hb])), Nat.mul_succ]
    omega

theorem blockBytes_length (b : Block) (hb : WfBlock b) : (blockBytes b).length = 32 := by
  unfold blockBytes
  rw [flatMap_length_const wordBytes 4 b (fun w _ => wordBytes_length w), hb]

theorem filterBytes_length (f : Filter) (hf : ∀ b ∈ f, WfBlock b) : (filterBytes f).length = 32 * f.length :=
  flatMap_length_const blockBytes 32 f (fun b hb => blockBytes_length b (hf b hb))

theorem flatMap_slice {α β} (g : α → List β) (k : Nat) :
    ∀ (l : List α) (i : Nat) (hi : i < l.length), (∀ a ∈ l, (g a).length = k) →
      ((l.flatMap g).drop (k * i)).take k = g l[i]
  | a :: as, 0, _, h => by
    simp only [List.flatMap_cons, Nat.mul_zero, List.drop_zero, List.getElem_cons_zero]
    rw [← h a (by simp)]
    exact List.take_left'  rfl
  | a :: as, i + 1, hi, h => by
    simp only [List.flatMap_cons, List.getElem_cons_succ]
    have e : k * (i + 1) = (g a).length + k * i := by rw [h a (by simp), Nat.mul_succ]; omega
    rw [e, List.drop_length_add_append]
    exact flatMap_slice g k as i (by simpa using hi) (fun b hb => h b (by simp [hb]))

theorem parseWords_wordBytes : ∀ (ws : List (BitVec 32)), parseWords ws.length (ws.flatMap wordBytes) = ws
  | [] => rfl
  | w :: ws => by
    simp only [List.length_cons, parseWords, List.flatMap_cons]
    have h4 : (wordBytes w).length = 4 := wordBytes_length w
    rw [List.take_left' h4, List.drop_left' h4, parseWords_wordBytes ws]
    unfold wordBytes
    rw [leToNat_leBytes]
    congr 1
    apply BitVec.eq_of_toNat_eq
    simp only [BitVec.toNat_ofNat]
    have := w.isLt
    omega

/-- reading the serialised filter gives the same answers as the in-memory filter -/
theorem checkBytes_filterBytes (f : Filter) (h : BitVec 64) (hf : WfFilter f) :
    checkBytes (filterBytes f) h = check f h := by
  unfold checkBytes check
  have hl := filterBytes_length f hf.2
  have hnb : (filterBytes f).length / 32 = f.length := by rw [hl]; omega
  simp only [hnb]
  have hlt := blockIndex_lt h f.length hf.1
  rw [List.getElem?_eq_getElem hlt]
  unfold filterBytes
  rw [flatMap_slice blockBytes 32 f _ hlt (fun b hb => blockBytes_length b (hf.2 b hb))]
  simp only
  have hb8 : (f[blockIndex h f.length]).length = 8 := hf.2 _ (List.getElem_mem hlt)
  have := parseWords_wordBytes (f[blockIndex h f.length])
  rw [hb8] at this
  unfold blockBytes
  rw [this, blockCheckGo_eq]

/-! ## the two hashing sides (MIRROR of bloom.go)

A `Value` is a non-null parquet value as `parquet.Value` holds it: a kind tag plus either a 64-bit
payload (boolean, int32, int64, float and double by bit pattern) or a byte string (int96 = 12
little-endian bytes, byte array, fixed-length byte array). -/

inductive Kind where
  | boolean | int32 | int64 | int96 | float | double | byteArray
  | flba (size : Nat)
  deriving DecidableEq, Repr

inductive Value where
  | boolean (b : Bool)
  | int32 (v : UInt32)
  | int64 (v : UInt64)
  | int96 (bytes : List UInt8)
  | float (bits : UInt32)
  | double (bits : UInt64)
  | byteArray (bytes : List UInt8)
  | flba (bytes : List UInt8)
  deriving DecidableEq, Repr

def Value.kindOk : Kind → Value → Bool
  | .boolean, .boolean _ => true
  | .int32, .int32 _ => true
  | .int64, .int64 _ => true
  | .int96, .int96 b => b.length == 12
  | .float, .float _ => true
  | .double, .double _ => true
  | .byteArray, .byteArray _ => true
  | .flba n, .flba b => b.length == n && 0 < n
  | _, _ => false

/-- READ SIDE. MIRROR `Value.hash`, bloom.go:55-66 (with `bloom.XXH64` as the hash).
    `v.byte()` of a boolean value is 0 or 1. -/
def hashRead : Value → UInt64
  | .boolean b => sum64Uint8 (if b then 1 else 0)
  | .int32 v | .float v => sum64Uint32 v
  | .int64 v | .double v => sum64Uint64 v
  | .int96 bs | .byteArray bs | .flba bs => xxh64 bs

/-- What `Page.Data()` hands to `splitBlockEncoding` (encoding.Values): booleans are the
    *bit-packed* bytes of the page (page_boolean.go:46), numeric kinds are the value array, byte
    arrays are one buffer plus offsets, int96 and fixed-length values are one flat buffer. -/
inductive PageData where
  | boolean (bits : List UInt8)
  | int32 (vs : List UInt32)
  | int64 (vs : List UInt64)
  | int96 (data : List UInt8)
  | float (vs : List UInt32)
  | double (vs : List UInt64)
  | byteArray (data : List UInt8) (offsets : List Nat)
  | flba (data : List UInt8) (size : Nat)

/-- MIRROR of the loop `for i, j := 0, size; j <= len(data); { Sum64(data[i:j]); i += size; j += size }`
    of `splitBlockEncodeFixedLenByteArray`, bloom.go:311-324; fuel = number of iterations allowed
    (`data.length` always suffices when `size > 0`; with `size = 0` the Go loop does not terminate). -/
def chunksFuel : Nat → Nat → List UInt8 → List (List UInt8)
  | 0, _, _ => []
  | fuel + 1, size, data =>
    if size ≤ data.length then data.take size :: chunksFuel fuel size (data.drop size) else []

def chunks (size : Nat) (data : List UInt8) : List (List UInt8) := chunksFuel data.length size data

/-- MIRROR of `for _, endOffset := range offsets[1:] { value := src[baseOffset:endOffset]; baseOffset = endOffset }`,
    bloom.go:283-300 -/
def slices (data : List UInt8) : Nat → List Nat → List (List UInt8)
  | _, [] => []
  | base, e :: es => (data.drop base).take (e - base) :: slices data e es

def byteArrayValues (data : List UInt8) : List Nat → List (List UInt8)
  | [] => []            -- (Go: offsets[0] panics; pages always carry at least one offset)
  | o :: os => slices data o os

def hashBool (b : Bool) : UInt64 := sum64Uint8 (if b then 1 else 0)

/-- MIRROR `splitBlockEncoding.EncodeBoolean` as repaired (fix 3b0d378), bloom.go:253-268: `src` is
    bit-packed; hash(0) is inserted when some byte has a 0 bit (`b != 0xFF`), hash(1) when some byte
    has a 1 bit (`b != 0x00`), in this order. -/
def encodeBooleanHashes (bits : List UInt8) : List UInt64 :=
  (if bits.any (· != 0xFF) then [hashBool false] else []) ++
  (if bits.any (· != 0x00) then [hashBool true] else [])

/-- `EncodeBoolean` BEFORE the fix (finding F3): the packed bytes themselves were hashed. -/
def encodeBooleanHashesBeforeFix (bits : List UInt8) : List UInt64 := multiSum64Uint8 bits.length bits

/-- WRITE SIDE, value level. `splitBlockEncoding.Encode*`, bloom.go:253-395, with the 128-entry
    staging buffers flattened (`hashWriteStaged` below is the loop-level mirror, proved equal):
    the hashes inserted for one page, in order. -/
def hashWrite : PageData → List UInt64
  | .boolean bits => encodeBooleanHashes bits
  | .int32 vs | .float vs => multiSum64Uint32 vs.length vs
  | .int64 vs | .double vs => multiSum64Uint64 vs.length vs
  | .int96 data => (chunks 12 data).map xxh64
  | .byteArray data offsets => (byteArrayValues data offsets).map xxh64
  | .flba data size =>
    if size = 16 then multiSum64Uint128 (chunks 16 data).length (chunks 16 data)
    else (chunks size data).map xxh64

/-- the write side as it was before fix 3b0d378 (only the boolean case differs) -/
def hashWriteBeforeFix : PageData → List UInt64
  | .boolean bits => encodeBooleanHashesBeforeFix bits
  | pd => hashWrite pd

/-! ### the staging buffers of the write side (loop-level MIRROR) -/

/-- MIRROR `splitBlockEncodeUint8/32/64/128`, bloom.go:355-395:
    `buffer := make([]uint64, 128); for i := 0; i < len(values); { n := MultiSum64(buffer, values[i:]); InsertBulk(buffer[:n]); i += n }`.
    Fuel = iterations allowed (`len(values)` suffices: every iteration consumes ≥ 1 value). -/
def stagedFuel {α} (sum : α → UInt64) : Nat → List α → List UInt64
  | 0, _ => []
  | fuel + 1, values =>
    if values.isEmpty then []
    else
      let hs := multiSum64 sum 128 values
      hs ++ stagedFuel sum fuel (values.drop hs.length)

def staged {α} (sum : α → UInt64) (values : List α) : List UInt64 := stagedFuel sum values.length values

/-- MIRROR of the append-style staging of `EncodeByteArray` / `splitBlockEncodeFixedLenByteArray`,
    bloom.go:283-300, 311-324: `buffer := make([]uint64, 0, 128)`; when full, `InsertBulk` and
    reset; append the hash; final `InsertBulk(buffer)`. State = (inserted so far, buffer). -/
def stagedAppendStep {α} (f : α → UInt64) (st : List UInt64 × List UInt64) (v : α) : List UInt64 × List UInt64 :=
  if st.2.length = 128 then (st.1 ++ st.2, [f v]) else (st.1, st.2 ++ [f v])

def stagedAppend {α} (f : α → UInt64) (vs : List α) : List UInt64 :=
  let st := vs.foldl (stagedAppendStep f) ([], [])
  st.1 ++ st.2

/-- WRITE SIDE, loop level: `hashWrite` with the staging buffers in place. -/
def hashWriteStaged : PageData → List UInt64
  | .boolean bits => encodeBooleanHashes bits
  | .int32 vs | .float vs => staged sum64Uint32 vs
  | .int64 vs | .double vs => staged sum64Uint64 vs
  | .int96 data => stagedAppend xxh64 (chunks 12 data)
  | .byteArray data offsets => stagedAppend xxh64 (byteArrayValues data offsets)
  | .flba data size =>
    if size = 16 then staged sum64Uint128 (chunks 16 data)
    else stagedAppend xxh64 (chunks size data)

theorem stagedFuel_eq_map {α} (sum : α → UInt64) :
    ∀ (fuel : Nat) (values : List α), values.length ≤ fuel → stagedFuel sum fuel values = values.map sum
  | 0, values, h => by
    have : values = [] := List.eq_nil_of_length_eq_zero (by omega)
    subst this; rfl
  | fuel + 1, values, h => by
    unfold stagedFuel
    cases values with
    | nil => rfl
    | cons v vs =>
      simp only [List.isEmpty_cons, Bool.false_eq_true, if_false]
      have hl : (multiSum64 sum 128 (v :: vs)).length = min 128 (v :: vs).length := by
        simp only [multiSum64, List.length_map, List.length_take]
      rw [hl, stagedFuel_eq_map sum fuel _ (by simp only [List.length_drop, List.length_cons] at h ⊢; omega)]
      unfold multiSum64
      rw [← List.map_append]
      congr 1
      have : List.take 128 (v :: vs) = List.take (min 128 (v :: vs).length) (v :: vs) := by
        rw [List.take_eq_take_min]
      rw [this, List.take_append_drop]

theorem staged_eq_map {α} (sum : α → UInt64) (values : List α) : staged sum values = values.map sum :=
  stagedFuel_eq_map sum _ values (Nat.le_refl _)

theorem stagedAppend_fold {α} (f : α → UInt64) : ∀ (vs : List α) (st : List UInt64 × List UInt64),
    (vs.foldl (stagedAppendStep f) st).1 ++ (vs.foldl (stagedAppendStep f) st).2 = st.1 ++ st.2 ++ vs.map f
  | [], st => by simp
  | v :: vs, st => by
    simp only [List.foldl_cons, List.map_cons]
    rw [stagedAppend_fold f vs]
    unfold stagedAppendStep
    split <;> simp [List.append_assoc]

theorem stagedAppend_eq_map {α} (f : α → UInt64) (vs : List α) : stagedAppend f vs = vs.map f := by
  unfold stagedAppend
  simpa using stagedAppend_fold f vs ([], [])

/-- the staging buffers do not change which hashes are inserted, nor their order -/
theorem hashWriteStaged_eq (pd : PageData) : hashWriteStaged pd = hashWrite pd := by
  cases pd <;>
    simp only [hashWriteStaged, hashWrite, staged_eq_map, stagedAppend_eq_map, multiSum64Uint32,
      multiSum64Uint64, multiSum64Uint128, multiSum64, List.take_length]

/-! ### how the values of a column chunk reach `Page.Data()` -/

def bitsByte : List Bool → Nat
  | [] => 0
  | b :: bs => (if b then 1 else 0) + 2 * bitsByte bs

/-- LSB-first bit packing, 8 values per byte, last byte zero padded (boolean column buffers) -/
def packBits : List Bool → List UInt8
  | b0 :: b1 :: b2 :: b3 :: b4 :: b5 :: b6 :: b7 :: rest =>
      UInt8.ofNat (bitsByte [b0, b1, b2, b3, b4, b5, b6, b7]) :: packBits rest
  | [] => []
  | bs => [UInt8.ofNat (bitsByte bs)]

def offsetsFrom : Nat → List (List UInt8) → List Nat
  | base, [] => [base]
  | base, v :: vs => base :: offsetsFrom (base + v.length) vs

def Value.payloadBytes : Value → List UInt8
  | .int96 b | .byteArray b | .flba b => b
  | _ => []

/-- the page data the typed column buffers build from a list of values of one kind -/
def pageData : Kind → List Value → PageData
  | .boolean, vs => .boolean (packBits (vs.map (fun v => match v with | .boolean b => b | _ => false)))
  | .int32, vs => .int32 (vs.map (fun v => match v with | .int32 x => x | _ => 0))
  | .int64, vs => .int64 (vs.map (fun v => match v with | .int64 x => x | _ => 0))
  | .float, vs => .float (vs.map (fun v => match v with | .float x => x | _ => 0))
  | .double, vs => .double (vs.map (fun v => match v with | .double x => x | _ => 0))
  | .int96, vs => .int96 (vs.flatMap Value.payloadBytes)
  | .byteArray, vs => .byteArray (vs.flatMap Value.payloadBytes) (offsetsFrom 0 (vs.map Value.payloadBytes))
  | .flba n, vs => .flba (vs.flatMap Value.payloadBytes) n

/-! ### boolean write side: the packed bits carry every written value -/

def byteBits (b : UInt8) : List Bool := (List.range 8).map (fun i => (b.toNat >>> i) % 2 == 1)

/-- all 8 bits of every packed byte, LSB first (padding bits of the last byte included) -/
def unpackAll (bits : List UInt8) : List Bool := bits.flatMap byteBits

theorem byteBits_pack8 : ∀ (b0 b1 b2 b3 b4 b5 b6 b7 : Bool),
    byteBits (UInt8.ofNat (bitsByte [b0, b1, b2, b3, b4, b5, b6, b7])) = [b0, b1, b2, b3, b4, b5, b6, b7] := by
  decide

/-- unpacking the packed bits gives the values back (followed by the padding bits) -/
theorem unpack_pack : ∀ (bs : List Bool), (unpackAll (packBits bs)).take bs.length = bs
  | [] => rfl
  | [b0] => by revert b0; decide
  | [b0, b1] => by revert b0 b1; decide
  | [b0, b1, b2] => by revert b0 b1 b2; decide
  | [b0, b1, b2, b3] => by revert b0 b1 b2 b3; decide
  | [b0, b1, b2, b3, b4] => by revert b0 b1 b2 b3 b4; decide
  | [b0, b1, b2, b3, b4, b5] => by revert b0 b1 b2 b3 b4 b5; decide
  | [b0, b1, b2, b3, b4, b5, b6] => by revert b0 b1 b2 b3 b4 b5 b6; decide
  | b0 :: b1 :: b2 :: b3 :: b4 :: b5 :: b6 :: b7 :: rest => by
    have ih := unpack_pack rest
    simp only [packBits, unpackAll, List.flatMap_cons, byteBits_pack8, List.length_cons] at ih ⊢
    have e : rest.length + 1 + 1 + 1 + 1 + 1 + 1 + 1 + 1 = [b0, b1, b2, b3, b4, b5, b6, b7].length + rest.length := by
      simp only [List.length_cons, List.length_nil]; omega
    rw [e, List.take_length_add_append, ih]
    rfl

theorem true_mem_byteBits (byte : UInt8) (h : true ∈ byteBits byte) : byte ≠ 0x00 := by
  intro he; subst he; revert h; decide

theorem false_mem_byteBits (byte : UInt8) (h : false ∈ byteBits byte) : byte ≠ 0xFF := by
  intro he; subst he; revert h; decide

/-- the repaired `EncodeBoolean` inserts the read-side hash of every boolean packed into the page -/
theorem encodeBoolean_covers (bs : List Bool) (b : Bool) (hm : b ∈ bs) :
    hashBool b ∈ encodeBooleanHashes (packBits bs) := by
  have hp : b ∈ unpackAll (packBits bs) := by
    have := unpack_pack bs
    rw [← this] at hm
    exact List.mem_of_mem_take hm
  rcases List.mem_flatMap.mp hp with ⟨byte, hbyte, hb⟩
  unfold encodeBooleanHashes
  cases b with
  | false =>
    have : (packBits bs).any (· != 0xFF) = true :=
      List.any_eq_true.mpr ⟨byte, hbyte, by simpa using false_mem_byteBits byte hb⟩
    simp [this]
  | true =>
    have : (packBits bs).any (· != 0x00) = true :=
      List.any_eq_true.mpr ⟨byte, hbyte, by simpa using true_mem_byteBits byte hb⟩
    simp [this]

/-! ### the flat page buffers give the values back -/

theorem chunksFuel_flatten (size : Nat) (hs : 0 < size) :
    ∀ (vs : List (List UInt8)) (fuel : Nat), vs.length ≤ fuel → (∀ v ∈ vs, v.length = size) →
      chunksFuel fuel size vs.flatten = vs
  | [], 0, _, _ => rfl
  | [], fuel + 1, _, _ => by
    simp only [chunksFuel, List.flatten_nil, List.length_nil]
    split
    · omega
    · rfl
  | v :: vs, 0, h, _ => by simp at h
  | v :: vs, fuel + 1, h, hv => by
    have hl : v.length = size := hv v (by simp)
    simp only [chunksFuel, List.flatten_cons, List.length_append]
    split
    · rw [List.take_left' hl, List.drop_left' hl,
        chunksFuel_flatten size hs vs fuel (by simpa using h) (fun w hw => hv w (by simp [hw]))]
    · omega

theorem flatten_length_const (size : Nat) : ∀ (vs : List (List UInt8)), (∀ v ∈ vs, v.length = size) →
    vs.flatten.length = size * vs.length
  | [], _ => by simp
  | v :: vs, h => by
    simp only [List.flatten_cons, List.length_append, List.length_cons]
    rw [h v (by simp), flatten_length_const size vs (fun w hw => h w (by simp [hw])), Nat.mul_succ]
    omega

theorem chunks_flatten (size : Nat) (hs : 0 < size) (vs : List (List UInt8))
    (hv : ∀ v ∈ vs, v.length = size) : chunks size vs.flatten = vs := by
  unfold chunks
  apply chunksFuel_flatten size hs vs _ _ hv
  rw [flatten_length_const size vs hv]
  exact Nat.le_mul_of_pos_left _ hs

def endsFrom : Nat → List (List UInt8) → List Nat
  | _, [] => []
  | base, v :: vs => (base + v.length) :: endsFrom (base + v.length) vs

theorem offsetsFrom_eq : ∀ (vs : List (List UInt8)) (base : Nat), offsetsFrom base vs = base :: endsFrom base vs
  | [], _ => rfl
  | v :: vs, base => by simp [offsetsFrom, endsFrom, offsetsFrom_eq vs]

theorem slices_flatten : ∀ (vs : List (List UInt8)) (pre : List UInt8),
    slices (pre ++ vs.flatten) pre.length (endsFrom pre.length vs) = vs
  | [], _ => rfl
  | v :: vs, pre => by
    simp only [endsFrom, slices, List.flatten_cons]
    have e1 : (pre ++ (v ++ vs.flatten)).drop pre.length = v ++ vs.flatten := List.drop_left' rfl
    have e2 : pre.length + v.length - pre.length = v.length := by omega
    rw [e1, e2, List.take_left' rfl]
    have ih := slices_flatten vs (pre ++ v)
    rw [List.length_append, List.append_assoc] at ih
    rw [ih]

theorem byteArrayValues_flatten (vs : List (List UInt8)) :
    byteArrayValues vs.flatten (offsetsFrom 0 vs) = vs := by
  rw [offsetsFrom_eq]
  exact slices_flatten vs []

theorem mem_map_proj {α} (values : List Value) (v : Value) (hm : v ∈ values) (proj : Value → α) (g : α → UInt64)
    (hg : hashRead v = g (proj v)) : hashRead v ∈ (values.map proj).map g := by
  rw [hg]; exact List.mem_map_of_mem (List.mem_map_of_mem hm)

end PqModel.Bloom
