namespace PqModel.Bloom

/-! Spike: split-block bloom filter has no false negatives; truncation bounds. -/

/-! ## Bloom -/

def salts : List (BitVec 32) :=
  [0x47b6137b#32, 0x44974d91#32, 0x8824ad5b#32, 0xa2b7289d#32, 0x705495c7#32, 0x2df1424b#32, 0x9efc4947#32, 0x5c6bfb31#32]

/-- block = 8 words; mask word i = 1 <<< ((x * salt_i) >>> 27) -/
def maskWord (x salt : BitVec 32) : BitVec 32 := 1#32 <<< ((x * salt) >>> 27).toNat

abbrev Block := List (BitVec 32)   -- length 8

def mask (x : BitVec 32) : Block := salts.map (maskWord x)

def blockInsert (b : Block) (x : BitVec 32) : Block := List.zipWith (· ||| ·) b (mask x)

def blockCheck (b : Block) (x : BitVec 32) : Bool :=
  (List.zipWith (fun w m => (w &&& m) == m) b (mask x)).all id

/-- fasthash1x64: ((x >>> 32) * n) >>> 32 -/
def blockIndex (x : BitVec 64) (n : Nat) : Nat := ((x >>> 32).toNat * n) >>> 32

abbrev Filter := List Block

def setAt {α} : List α → Nat → (α → α) → List α
  | [], _, _ => []
  | a :: as, 0, f => f a :: as
  | a :: as, i + 1, f => a :: setAt as i f

def bfInsert (f : Filter) (h : BitVec 64) : Filter :=
  setAt f (blockIndex h f.length) (fun b => blockInsert b (h.truncate 32))

def check (f : Filter) (h : BitVec 64) : Bool :=
  match f[blockIndex h f.length]? with
  | some b => blockCheck b (h.truncate 32)
  | none => false

def WfBlock (b : Block) : Prop := b.length = 8
def WfFilter (f : Filter) : Prop := 0 < f.length ∧ ∀ b ∈ f, WfBlock b

theorem bv_ext32 {a b : BitVec 32} (h : ∀ i, i < 32 → a.getLsbD i = b.getLsbD i) : a = b :=
  BitVec.eq_of_getLsbD_eq (fun i hi => h i hi)

theorem or_and_self (w m : BitVec 32) : ((w ||| m) &&& m) = m := by
  apply bv_ext32; intro i _
  simp only [BitVec.getLsbD_and, BitVec.getLsbD_or]
  cases w.getLsbD i <;> cases m.getLsbD i <;> rfl

theorem and_mono (w m m' : BitVec 32) (h : (w &&& m) = m) : ((w ||| m') &&& m) = m := by
  apply bv_ext32; intro i hi
  have := congrArg (fun v => v.getLsbD i) h
  simp only [BitVec.getLsbD_and, BitVec.getLsbD_or] at this ⊢
  cases hw : w.getLsbD i <;> cases hm : m.getLsbD i <;> cases m'.getLsbD i <;> simp_all

theorem zipCheck_insert : ∀ (b m : Block), b.length = m.length →
    (List.zipWith (fun w m => (w &&& m) == m) (List.zipWith (· ||| ·) b m) m).all id = true
  | [], [], _ => rfl
  | w :: ws, m :: ms, h => by
    simp only [List.zipWith_cons_cons, List.all_cons, id]
    rw [or_and_self]
    simp [zipCheck_insert ws ms (by simpa using h)]
  | [], _ :: _, h => by simp at h
  | _ :: _, [], h => by simp at h

theorem zipCheck_mono : ∀ (b m m' : Block), b.length = m.length → m.length = m'.length →
    (List.zipWith (fun w m => (w &&& m) == m) b m).all id = true →
    (List.zipWith (fun w m => (w &&& m) == m) (List.zipWith (· ||| ·) b m') m).all id = true
  | [], [], [], _, _, _ => rfl
  | w :: ws, m :: ms, m' :: ms', h1, h2, h => by
    simp only [List.zipWith_cons_cons, List.all_cons, id, Bool.and_eq_true, beq_iff_eq] at h ⊢
    exact ⟨and_mono w m m' h.1, zipCheck_mono ws ms ms' (by simpa using h1) (by simpa using h2) h.2⟩
  | [], _ :: _, _, h, _, _ => by simp at h
  | _ :: _, [], _, h, _, _ => by simp at h
  | _ :: _, _ :: _, [], _, h, _ => by simp at h
  | [], [], _ :: _, _, h, _ => by simp at h

theorem mask_length (x : BitVec 32) : (mask x).length = 8 := by simp [mask, salts]

theorem blockCheck_insert (b : Block) (x : BitVec 32) (hb : WfBlock b) : blockCheck (blockInsert b x) x = true :=
  zipCheck_insert b (mask x) (by rw [hb, mask_length])

theorem blockCheck_mono (b : Block) (x y : BitVec 32) (hb : WfBlock b) (h : blockCheck b x = true) :
    blockCheck (blockInsert b y) x = true :=
  zipCheck_mono b (mask x) (mask y) (by rw [hb, mask_length]) (by rw [mask_length, mask_length]) h

theorem blockInsert_wf (b : Block) (x : BitVec 32) (hb : WfBlock b) : WfBlock (blockInsert b x) := by
  simp [WfBlock, blockInsert, hb, mask_length] at *
  omega

theorem setAt_length {α} : ∀ (l : List α) i f, (setAt l i f).length = l.length
  | [], _, _ => rfl
  | _ :: _, 0, _ => rfl
  | a :: as, i + 1, f => by simp [setAt, setAt_length as i f]

theorem setAt_get {α} : ∀ (l : List α) (i j : Nat) (f : α → α),
    (setAt l i f)[j]? = if i = j then l[j]?.map f else l[j]?
  | [], i, j, f => by simp [setAt]
  | a :: as, 0, 0, f => by simp [setAt]
  | a :: as, 0, j + 1, f => by simp [setAt]
  | a :: as, i + 1, 0, f => by simp [setAt]
  | a :: as, i + 1, j + 1, f => by
    simp only [setAt, List.getElem?_cons_succ, setAt_get as i j f]
    by_cases h : i = j <;> simp [h]

theorem mem_setAt {α} {P : α → Prop} : ∀ (l : List α) i (f : α → α), (∀ a ∈ l, P a) → (∀ a, P a → P (f a)) →
    ∀ a ∈ setAt l i f, P a
  | [], _, _, _, _ => by intro a ha; simp [setAt] at ha
  | x :: xs, 0, f, h, hf => by
    intro a ha
    simp only [setAt, List.mem_cons] at ha
    rcases ha with rfl | ha
    · exact hf x (h x (by simp))
    · exact h a (by simp [ha])
  | x :: xs, i + 1, f, h, hf => by
    intro a ha
    simp only [setAt, List.mem_cons] at ha
    rcases ha with rfl | ha
    · exact h a (by simp)
    · exact mem_setAt xs i f (fun b hb => h b (by simp [hb])) hf a ha

theorem insert_wf (f : Filter) (h : BitVec 64) (hf : WfFilter f) : WfFilter (bfInsert f h) := by
  refine ⟨by simp [bfInsert, setAt_length]; exact hf.1, ?_⟩
  exact mem_setAt f _ _ hf.2 (fun b hb => blockInsert_wf b _ hb)

theorem blockIndex_lt (x : BitVec 64) (n : Nat) (hn : 0 < n) : blockIndex x n < n := by
  unfold blockIndex
  have hx : (x >>> 32).toNat < 2 ^ 32 := by
    rw [BitVec.toNat_ushiftRight, Nat.shiftRight_eq_div_pow]
    have := x.isLt
    apply Nat.div_lt_of_lt_mul
    omega
  rw [Nat.shiftRight_eq_div_pow]
  apply Nat.div_lt_of_lt_mul
  calc (x >>> 32).toNat * n < 2 ^ 32 * n := Nat.mul_lt_mul_of_pos_right hx hn

theorem check_insert (f : Filter) (h : BitVec 64) (hf : WfFilter f) : check (bfInsert f h) h = true := by
  unfold check bfInsert
  rw [setAt_length, setAt_get]
  simp only [if_true]
  have hlt := blockIndex_lt h f.length hf.1
  rw [List.getElem?_eq_getElem hlt]
  simp only [Option.map_some]
  exact blockCheck_insert _ _ (hf.2 _ (List.getElem_mem hlt))

theorem check_mono (f : Filter) (h g : BitVec 64) (hf : WfFilter f) (hc : check f h = true) :
    check (bfInsert f g) h = true := by
  unfold check bfInsert at *
  rw [setAt_length, setAt_get]
  have hlt := blockIndex_lt h f.length hf.1
  rw [List.getElem?_eq_getElem hlt] at hc ⊢
  simp only at hc
  by_cases he : blockIndex g f.length = blockIndex h f.length
  · simp only [he, if_true, Option.map_some]
    exact blockCheck_mono _ _ _ (hf.2 _ (List.getElem_mem hlt)) hc
  · simp only [he, if_false]
    exact hc

/-- C07 core: a value whose hash was inserted is always reported present. -/
theorem no_false_negative (f : Filter) (hf : WfFilter f) : ∀ (hs : List (BitVec 64)) (h : BitVec 64), h ∈ hs →
    check (hs.foldl bfInsert f) h = true := by
  intro hs
  induction hs generalizing f with
  | nil => intro h hm; simp at hm
  | cons g gs ih =>
    intro h hm
    simp only [List.foldl_cons]
    rcases List.mem_cons.mp hm with rfl | hm
    · -- inserted first, preserved afterwards
      have h0 := check_insert f h hf
      have : ∀ (gs : List (BitVec 64)) (f' : Filter), WfFilter f' → check f' h = true →
          check (gs.foldl bfInsert f') h = true := by
        intro gs
        induction gs with
        | nil => intro f' _ hc; simpa using hc
        | cons g' gs' ih' =>
          intro f' hf' hc
          simp only [List.foldl_cons]
          exact ih' _ (insert_wf f' g' hf') (check_mono f' h g' hf' hc)
      exact this gs _ (insert_wf f h hf) h0
    · exact ih (bfInsert f g) (insert_wf f g hf) h hm

#print axioms no_false_negative

end PqModel.Bloom
