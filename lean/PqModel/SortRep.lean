import PqModel.SortCmp

/-! # C10 model, part 3 — `repeatedColumnBuffer` (`column_buffer_repeated.go`)

MIRROR: rows are `(offset, baseOffset)` pairs into the level arrays and the base column
(`offsetMapping`), a row's extent is found by scanning the repetition levels
(`repeatedRowLength`), `Swap` exchanges the pairs only, `Less` (as repaired, F23) walks the two rows
value by value, `Page()` rewrites the rows in row order into a fresh buffer.
The two parallel level arrays (`repetitionLevels`, `definitionLevels`, always appended in lock
step) are one list of pairs `lv`. SPEC: `view`, `cmpList`. -/
namespace PqModel.SortBuf

/-- a value of a repeated column inside a row: repetition level, definition level, value -/
abbrev RCell (V : Type) := Nat × Nat × Option V

structure RepCol (V : Type) where
  base : List V                 -- the non-null values
  rows : List (Nat × Nat)       -- `offsetMapping{offset, baseOffset}`
  lv : List (Nat × Nat)         -- (repetition level, definition level) per value slot
  reordered : Bool := false
deriving DecidableEq

def RepCol.empty {V : Type} : RepCol V := { base := [], rows := [], lv := [] }

/-- MIRROR `column_buffer_repeated.go:449-460` `repeatedRowLength(levels[off:])` together with the
    slice `levels[off : off+length]`: the slot at `off` and the following slots up to (excluding)
    the next repetition level 0 -/
def seg (lv : List (Nat × Nat)) (off : Nat) : List (Nat × Nat) :=
  match lv.drop off with
  | [] => []
  | hd :: tl => hd :: tl.takeWhile (fun p => p.1 != 0)

/-- the cells of a row: walk its level slots, taking the next base value for every slot whose
    definition level is the maximum (`column_buffer_repeated.go:122-147`, `185-204`) -/
def cells {V : Type} (m : Nat) (base : List V) : List (Nat × Nat) → Nat → List (RCell V)
  | [], _ => []
  | (r, d) :: tl, x => if d = m then (r, d, base[x]?) :: cells m base tl (x + 1) else (r, d, none) :: cells m base tl x

/-- SPEC: the rows the buffer holds, in row order -/
def RepCol.rowView {V : Type} (m : Nat) (c : RepCol V) (p : Nat × Nat) : List (RCell V) :=
  cells m c.base (seg c.lv p.1) p.2

def RepCol.view {V : Type} (m : Nat) (c : RepCol V) : List (List (RCell V)) := c.rows.map (c.rowView m)

/-- a row as the writer receives it: non-empty, starts a record (repetition level 0), continues it
    (levels ≠ 0), and a slot holds a value iff its definition level is the maximum -/
def RowWF {V : Type} (m : Nat) : List (RCell V) → Prop
  | [] => False
  | (r, d, v) :: tl => r = 0 ∧ (d = m ↔ v.isSome) ∧ ∀ c ∈ tl, c.1 ≠ 0 ∧ (c.2.1 = m ↔ c.2.2.isSome)

/-- MIRROR `column_buffer_repeated.go:233-257` `writeRow` (and `writeValues`/`writeLevel` 281-318):
    a new `offsetMapping{len(levels), base.NumValues()}`, the levels of every slot, the non-null
    values to the base column -/
def RepCol.writeRow {V : Type} (c : RepCol V) (row : List (RCell V)) : RepCol V :=
  { c with rows := c.rows ++ [(c.lv.length, c.base.length)],
           lv := c.lv ++ row.map (fun x => (x.1, x.2.1)),
           base := c.base ++ row.filterMap (fun x => x.2.2) }

/-- MIRROR `column_buffer_repeated.go:207-216` `Swap` -/
def RepCol.swap {V : Type} (c : RepCol V) (i j : Nat) : RepCol V :=
  { c with rows := swapL c.rows i j, reordered := true }

/-- MIRROR `column_buffer_repeated.go:101-153` `Page()`: when reordered, every row in row order is
    read (`ReadValuesAt(buffer[:numValues], baseOffset)`) and written to the spare buffer, which then
    replaces the column's arrays -/
def RepCol.page {V : Type} (m : Nat) (c : RepCol V) : RepCol V :=
  if c.reordered then
    c.rows.foldl (fun (acc : RepCol V) p =>
      let s := seg c.lv p.1
      let numValues := (s.filter (fun q => q.2 == m)).length
      { acc with rows := acc.rows ++ [(acc.lv.length, acc.base.length)],
                 lv := acc.lv ++ s,
                 base := acc.base ++ (c.base.drop p.2).take numValues })
      { base := [], rows := [], lv := [], reordered := false }
  else c

/-- the invariant: every row mapping points at a well-formed row -/
def RepCol.RInv {V : Type} (m : Nat) (c : RepCol V) : Prop :=
  ∀ p ∈ c.rows, p.1 < c.lv.length ∧ RowWF m (c.rowView m p)

/-! ## lemmas -/

theorem takeWhile_append_stop {α : Type} (p : α → Bool) (tl nw : List α) (hn : ∀ hd ∈ nw.head?, p hd = false) :
    (tl ++ nw).takeWhile p = tl.takeWhile p := by
  induction tl with
  | nil =>
    cases nw with
    | nil => rfl
    | cons b bs => simp [hn b (by simp)]
  | cons a as ih =>
    simp only [List.cons_append, List.takeWhile_cons]
    split
    · rw [ih]
    · rfl

theorem takeWhile_all {α : Type} (p : α → Bool) : ∀ (l : List α), (∀ x ∈ l, p x = true) → l.takeWhile p = l
  | [], _ => rfl
  | a :: as, h => by
    rw [List.takeWhile_cons, h a (by simp), if_pos rfl, takeWhile_all p as (fun x hx => h x (by simp [hx]))]

theorem seg_append_old (lv nw : List (Nat × Nat)) {off : Nat} (h : off < lv.length)
    (hn : ∀ hd ∈ nw.head?, hd.1 = 0) : seg (lv ++ nw) off = seg lv off := by
  unfold seg
  rw [List.drop_append_of_le_length (by omega)]
  cases hl : lv.drop off with
  | nil =>
    have := congrArg List.length hl
    simp at this; omega
  | cons a tl =>
    simp only [List.cons_append]
    congr 1
    exact takeWhile_append_stop _ tl nw (by intro hd hh; simp [hn hd hh])

/-- the slots of a freshly appended well-formed row are exactly that row's levels -/
theorem seg_append_new (lv : List (Nat × Nat)) (a : Nat × Nat) (tl : List (Nat × Nat)) (ht : ∀ q ∈ tl, q.1 ≠ 0) :
    seg (lv ++ a :: tl) lv.length = a :: tl := by
  unfold seg
  rw [List.drop_left]
  simp only
  congr 1
  exact takeWhile_all _ tl (by intro q hq; simpa using ht q hq)

theorem cells_append_base {V : Type} (m : Nat) (base ext : List V) : ∀ (s : List (Nat × Nat)) (x : Nat),
    (∀ c ∈ cells m base s x, c.2.1 = m → c.2.2.isSome) → cells m (base ++ ext) s x = cells m base s x
  | [], _, _ => rfl
  | (r, d) :: tl, x, h => by
    simp only [cells] at h ⊢
    by_cases hd : d = m
    · simp only [hd, if_true] at h ⊢
      have h0 := h (r, m, base[x]?) (by simp) rfl
      have hx : x < base.length := by
        cases hb : base[x]? with
        | none => simp [hb] at h0
        | some v => exact (List.getElem?_eq_some_iff.mp hb).1
      rw [List.getElem?_append_left hx, cells_append_base m base ext tl (x + 1) (fun c hc => h c (by simp [hc]))]
    · simp only [hd, if_false] at h ⊢
      rw [cells_append_base m base ext tl x (fun c hc => h c (by simp [hc]))]

/-- writing the levels and the non-null values of a row and reading the row back gives the row -/
theorem cells_written {V : Type} (m : Nat) : ∀ (row : List (RCell V)) (pre : List V),
    (∀ c ∈ row, (c.2.1 = m ↔ c.2.2.isSome)) →
    cells m (pre ++ row.filterMap (fun x => x.2.2)) (row.map (fun x => (x.1, x.2.1))) pre.length = row
  | [], _, _ => rfl
  | (r, d, v) :: tl, pre, h => by
    have h0 := h (r, d, v) (by simp)
    simp only at h0
    simp only [List.map_cons, cells, List.filterMap_cons]
    by_cases hd : d = m
    · obtain ⟨w, rfl⟩ := Option.isSome_iff_exists.mp (h0.mp hd)
      simp only [hd, if_true]
      have ih := cells_written m tl (pre ++ [w]) (fun c hc => h c (by simp [hc]))
      simp only [List.append_assoc, List.singleton_append, List.length_append, List.length_singleton] at ih
      rw [ih]
      simp
    · have hv : v = none := by
        cases v with
        | none => rfl
        | some w => exact absurd (h0.mpr rfl) hd
      subst hv
      simp only [hd, if_false]
      rw [cells_written m tl pre (fun c hc => h c (by simp [hc]))]

theorem RowWF.cells_ok {V : Type} {m : Nat} : ∀ {row : List (RCell V)}, RowWF m row → ∀ c ∈ row, (c.2.1 = m ↔ c.2.2.isSome)
  | (r, d, v) :: tl, h, c, hc => by
    rcases List.mem_cons.mp hc with rfl | hc
    · exact h.2.1
    · exact (h.2.2 c hc).2

/-- the rows held after `writeRow` are the rows held before followed by the row written; the
    invariant is kept -/
theorem RepCol.view_writeRow {V : Type} {m : Nat} {c : RepCol V} (h : c.RInv m) {row : List (RCell V)} (hw : RowWF m row) :
    (c.writeRow row).view m = c.view m ++ [row] ∧ (c.writeRow row).RInv m := by
  obtain ⟨⟨r, d, v⟩, tl, rfl⟩ : ∃ a tl, row = a :: tl := by
    cases row with
    | nil => exact absurd hw (by simp [RowWF])
    | cons a tl => exact ⟨a, tl, rfl⟩
  have hr : r = 0 := hw.1
  have hnew : ∀ hd ∈ (List.map (fun x : RCell V => (x.1, x.2.1)) ((r, d, v) :: tl)).head?, hd.1 = 0 := by
    intro hd hh; simp at hh; subst hh; exact hr
  have hold : ∀ p ∈ c.rows, (c.writeRow ((r, d, v) :: tl)).rowView m p = c.rowView m p := by
    intro p hp
    obtain ⟨hlt, hwf⟩ := h p hp
    simp only [RepCol.rowView, RepCol.writeRow]
    rw [seg_append_old _ _ hlt hnew]
    exact cells_append_base m _ _ _ _ (fun cc hcc hm => (RowWF.cells_ok hwf cc hcc).mp hm)
  have hlast : (c.writeRow ((r, d, v) :: tl)).rowView m (c.lv.length, c.base.length) = (r, d, v) :: tl := by
    simp only [RepCol.rowView, RepCol.writeRow, List.map_cons]
    rw [seg_append_new _ _ _ (by
      intro q hq
      obtain ⟨x, hx, rfl⟩ := List.mem_map.mp hq
      exact (hw.2.2 x hx).1)]
    have := cells_written m ((r, d, v) :: tl) c.base (RowWF.cells_ok hw)
    simpa using this
  constructor
  · simp only [RepCol.view]
    have : (c.writeRow ((r, d, v) :: tl)).rows = c.rows ++ [(c.lv.length, c.base.length)] := rfl
    rw [this, List.map_append, List.map_cons, List.map_nil, hlast]
    congr 1
    exact List.map_congr_left hold
  · intro p hp
    have : (c.writeRow ((r, d, v) :: tl)).rows = c.rows ++ [(c.lv.length, c.base.length)] := rfl
    rw [this, List.mem_append] at hp
    have hlen : (c.writeRow ((r, d, v) :: tl)).lv.length = c.lv.length + (tl.length + 1) := by
      simp [RepCol.writeRow]
    rcases hp with hp | hp
    · rw [hold p hp]
      exact ⟨by rw [hlen]; have := (h p hp).1; omega, (h p hp).2⟩
    · simp only [List.mem_singleton] at hp
      subst hp
      rw [hlast]
      exact ⟨by rw [hlen]; simp, hw⟩

theorem RepCol.RInv.empty {V : Type} (m : Nat) : (RepCol.empty : RepCol V).RInv m := by
  intro p hp; simp [RepCol.empty] at hp

theorem RepCol.view_swap {V : Type} (m : Nat) (c : RepCol V) (i j : Nat) : (c.swap i j).view m = swapL (c.view m) i j := by
  simp only [RepCol.view, RepCol.swap]
  rw [← map_swapL]
  rfl

theorem RepCol.RInv.swap {V : Type} {m : Nat} {c : RepCol V} (h : c.RInv m) (i j : Nat) : (c.swap i j).RInv m := by
  intro p hp
  have hp' : p ∈ c.rows := (swapL_perm c.rows i j).mem_iff.mp hp
  exact h p hp'

/-! ## `Page()` -/

theorem cells_levels {V : Type} (m : Nat) (base : List V) : ∀ (s : List (Nat × Nat)) (x : Nat),
    (cells m base s x).map (fun c => (c.1, c.2.1)) = s
  | [], _ => rfl
  | (r, d) :: tl, x => by
    simp only [cells]
    split <;> simp [cells_levels m base tl]

theorem cells_values {V : Type} (m : Nat) (base : List V) : ∀ (s : List (Nat × Nat)) (x : Nat),
    (∀ c ∈ cells m base s x, c.2.1 = m → c.2.2.isSome) →
    (cells m base s x).filterMap (fun c => c.2.2) = (base.drop x).take (s.filter (fun q => q.2 == m)).length
  | [], _, _ => by simp [cells]
  | (r, d) :: tl, x, h => by
    simp only [cells] at h ⊢
    by_cases hd : d = m
    · simp only [hd, if_true] at h ⊢
      have h0 := h (r, m, base[x]?) (by simp) rfl
      have hx : x < base.length := by
        cases hb : base[x]? with
        | none => simp [hb] at h0
        | some v => exact (List.getElem?_eq_some_iff.mp hb).1
      have ih := cells_values m base tl (x + 1) (fun c hc => h c (by simp [hc]))
      rw [List.filterMap_cons, List.getElem?_eq_getElem hx]
      simp only [List.filter_cons, beq_self_eq_true, if_true, List.length_cons]
      rw [List.drop_eq_getElem_cons hx, List.take_succ_cons, ih]
    · simp only [hd, if_false] at h ⊢
      have ih := cells_values m base tl x (fun c hc => h c (by simp [hc]))
      have : (d == m) = false := by simpa using hd
      rw [List.filterMap_cons]
      simp only [List.filter_cons, this]
      exact ih

/-- one step of `Page()` is `writeRow` of the row's view -/
theorem page_step {V : Type} {m : Nat} {c : RepCol V} (acc : RepCol V) {p : Nat × Nat} (hw : RowWF m (c.rowView m p)) :
    ({ acc with rows := acc.rows ++ [(acc.lv.length, acc.base.length)],
                lv := acc.lv ++ seg c.lv p.1,
                base := acc.base ++ (c.base.drop p.2).take ((seg c.lv p.1).filter (fun q => q.2 == m)).length } : RepCol V)
      = acc.writeRow (c.rowView m p) := by
  simp only [RepCol.writeRow, RepCol.rowView]
  rw [cells_levels, cells_values m c.base _ _ (fun cc hcc hm => (RowWF.cells_ok hw cc hcc).mp hm)]

theorem foldl_writeRow {V : Type} {m : Nat} : ∀ (rows : List (List (RCell V))) (acc : RepCol V), acc.RInv m →
    (∀ r ∈ rows, RowWF m r) →
    let c' := rows.foldl (fun a r => a.writeRow r) acc
    c'.RInv m ∧ c'.view m = acc.view m ++ rows ∧ c'.reordered = acc.reordered ∧
    c'.lv = acc.lv ++ rows.flatten.map (fun x => (x.1, x.2.1)) ∧
    c'.base = acc.base ++ rows.flatten.filterMap (fun x => x.2.2)
  | [], acc, h, _ => by simp [h]
  | r :: rs, acc, h, hw => by
    obtain ⟨v1, i1⟩ := RepCol.view_writeRow h (hw r (by simp))
    obtain ⟨a, b, c, d, e⟩ := foldl_writeRow rs (acc.writeRow r) i1 (fun x hx => hw x (by simp [hx]))
    simp only [List.foldl_cons]
    refine ⟨a, ?_, ?_, ?_, ?_⟩
    · rw [b, v1]; simp
    · rw [c]; rfl
    · rw [d]; simp [RepCol.writeRow]
    · rw [e]; simp [RepCol.writeRow]

theorem foldl_map_eq {α β γ : Type} (f : β → γ → β) (g : α → γ) : ∀ (l : List α) (b : β),
    l.foldl (fun acc a => f acc (g a)) b = (l.map g).foldl f b
  | [], _ => rfl
  | a :: as, b => by simp [foldl_map_eq f g as]

/-- `Page()` of the repeated buffer under the invariant: the invariant is kept, the rows held are
    unchanged, and (when rows had been swapped) the level arrays and the base column list the
    rows' levels and values in row order -/
theorem RepCol.page_spec {V : Type} {m : Nat} {c : RepCol V} (h : c.RInv m) :
    (c.page m).RInv m ∧ (c.page m).view m = c.view m ∧ (c.page m).reordered = false ∧
    (c.reordered = true →
      (c.page m).lv = (c.view m).flatten.map (fun x => (x.1, x.2.1)) ∧
      (c.page m).base = (c.view m).flatten.filterMap (fun x => x.2.2)) := by
  by_cases hr : c.reordered = true
  · have hpage : c.page m = (c.rows.map (c.rowView m)).foldl (fun a r => a.writeRow r)
        { base := [], rows := [], lv := [], reordered := false } := by
      simp only [RepCol.page, hr, if_true]
      rw [← foldl_map_eq (fun (a : RepCol V) r => a.writeRow r) (c.rowView m)]
      have : ∀ (l : List (Nat × Nat)) (acc : RepCol V), (∀ p ∈ l, p ∈ c.rows) →
          l.foldl (fun (acc : RepCol V) p =>
            { acc with rows := acc.rows ++ [(acc.lv.length, acc.base.length)],
                       lv := acc.lv ++ seg c.lv p.1,
                       base := acc.base ++ (c.base.drop p.2).take ((seg c.lv p.1).filter (fun q => q.2 == m)).length }) acc
          = l.foldl (fun acc p => acc.writeRow (c.rowView m p)) acc := by
        intro l
        induction l with
        | nil => intro _ _; rfl
        | cons p ps ih =>
          intro acc hl
          simp only [List.foldl_cons]
          rw [page_step acc (h p (hl p (by simp))).2]
          exact ih _ (fun q hq => hl q (by simp [hq]))
      exact this c.rows _ (fun p hp => hp)
    have hwf : ∀ r ∈ c.rows.map (c.rowView m), RowWF m r := by
      intro r hr'
      obtain ⟨p, hp, rfl⟩ := List.mem_map.mp hr'
      exact (h p hp).2
    obtain ⟨a, b, c', d, e⟩ := foldl_writeRow (m := m) (c.rows.map (c.rowView m))
      { base := [], rows := [], lv := [], reordered := false } (by intro p hp; simp at hp) hwf
    rw [hpage]
    refine ⟨a, ?_, c', fun _ => ⟨?_, ?_⟩⟩
    · rw [b]; simp [RepCol.view]
    · rw [d]; simp [RepCol.view]
    · rw [e]; simp [RepCol.view]
  · have hr' : c.reordered = false := by simpa using hr
    have hpage : c.page m = c := by simp [RepCol.page, hr']
    rw [hpage]
    exact ⟨h, rfl, hr', fun e => absurd e hr⟩


/-! ## `Less` and the comparator on list-valued keys -/

/-- the null ordering `Buffer.configure` gives the column (see `Col.less`), on base indexes -/
def nullOrd {V : Type} (lt : V → V → Bool) (desc nullsFirst : Bool) (base : List V) (m d1 d2 : Nat) (x y : Nat) : Bool :=
  let less := fun (i j : Int) => if desc then baseLess lt base j i else baseLess lt base i j
  if nullsFirst then nullsGoFirst less m d1 d2 x y else nullsGoLast less m d1 d2 x y

/-- MIRROR `column_buffer_repeated.go:185-210` `Less` (as repaired, F23): slot by slot over the
    common length, `x`/`y` advancing past every non-null value; then the shorter row first -/
def lessWalk {V : Type} (lt : V → V → Bool) (desc nullsFirst : Bool) (base : List V) (m : Nat) :
    List (Nat × Nat) → List (Nat × Nat) → Nat → Nat → Bool
  | [], l2, _, _ => decide (0 < l2.length)
  | _ :: _, [], _, _ => false
  | (_, d1) :: t1, (_, d2) :: t2, x, y =>
    if nullOrd lt desc nullsFirst base m d1 d2 x y then true
    else if nullOrd lt desc nullsFirst base m d2 d1 y x then false
    else lessWalk lt desc nullsFirst base m t1 t2 (if d1 = m then x + 1 else x) (if d2 = m then y + 1 else y)

/-- MIRROR as found (F23): `x := int(row1.baseOffset); y := int(row2.baseOffset)` inside the loop -/
def lessWalkF23 {V : Type} (lt : V → V → Bool) (desc nullsFirst : Bool) (base : List V) (m : Nat) :
    List (Nat × Nat) → List (Nat × Nat) → Nat → Nat → Bool
  | [], l2, _, _ => decide (0 < l2.length)
  | _ :: _, [], _, _ => false
  | (_, d1) :: t1, (_, d2) :: t2, x, y =>
    if nullOrd lt desc nullsFirst base m d1 d2 x y then true
    else if nullOrd lt desc nullsFirst base m d2 d1 y x then false
    else lessWalkF23 lt desc nullsFirst base m t1 t2 x y

def RepCol.less {V : Type} (lt : V → V → Bool) (desc nullsFirst : Bool) (m : Nat) (c : RepCol V) (i j : Nat) : Bool :=
  match c.rows[i]?, c.rows[j]? with
  | some p, some q => lessWalk lt desc nullsFirst c.base m (seg c.lv p.1) (seg c.lv q.1) p.2 q.2
  | _, _ => false

def RepCol.lessF23 {V : Type} (lt : V → V → Bool) (desc nullsFirst : Bool) (m : Nat) (c : RepCol V) (i j : Nat) : Bool :=
  match c.rows[i]?, c.rows[j]? with
  | some p, some q => lessWalkF23 lt desc nullsFirst c.base m (seg c.lv p.1) (seg c.lv q.1) p.2 q.2
  | _, _ => false

/-- MIRROR `compare.go:478-499`: the values of one sorting column in two rows are compared
    position by position; if one list is a proper prefix of the other it sorts first -/
def cmpList {V : Type} (c : Option V → Option V → Int) : List (Option V) → List (Option V) → Int
  | [], [] => 0
  | [], _ :: _ => -1
  | _ :: _, [] => 1
  | a :: as, b :: bs => if c a b ≠ 0 then c a b else cmpList c as bs

/-- the key of row `k`: the values (null = `none`) of its slots -/
def RepCol.key {V : Type} (m : Nat) (c : RepCol V) (k : Nat) : List (Option V) :=
  match c.rows[k]? with
  | some p => (c.rowView m p).map (fun x => x.2.2)
  | none => []

set_option linter.unusedSimpArgs false in
theorem nullOrd_agrees {V : Type} (o : VOrd V) (sc : SortCol) (base : List V) (m d1 d2 x y : Nat)
    (h1 : d1 = m → (base[x]?).isSome) (h2 : d2 = m → (base[y]?).isSome) :
    nullOrd o.lt sc.desc sc.nullsFirst base m d1 d2 x y = true ↔
      cmpCell o.cmp sc (if d1 = m then base[x]? else none) (if d2 = m then base[y]? else none) < 0 := by
  unfold nullOrd cmpCell
  by_cases e1 : d1 = m <;> by_cases e2 : d2 = m
  · obtain ⟨a, ha⟩ := Option.isSome_iff_exists.mp (h1 e1)
    obtain ⟨b, hb⟩ := Option.isSome_iff_exists.mp (h2 e2)
    have l1 := o.lt_iff a b
    have l2 := o.lt_iff b a
    have l3 := o.anti a b
    cases sc.desc <;> cases sc.nullsFirst <;>
      simp [nullsGoFirst, nullsGoLast, cmpNullsFirst, cmpNullsLast, cmpDesc, baseLess, e1, e2, ha, hb, l1, l2] <;> omega
  · cases sc.desc <;> cases sc.nullsFirst <;>
      simp [nullsGoFirst, nullsGoLast, cmpNullsFirst, cmpNullsLast, e1, e2] <;>
      (obtain ⟨a, ha⟩ := Option.isSome_iff_exists.mp (h1 e1); simp [ha, cmpNullsFirst, cmpNullsLast])
  · cases sc.desc <;> cases sc.nullsFirst <;>
      simp [nullsGoFirst, nullsGoLast, cmpNullsFirst, cmpNullsLast, e1, e2] <;>
      (obtain ⟨b, hb⟩ := Option.isSome_iff_exists.mp (h2 e2); simp [hb, cmpNullsFirst, cmpNullsLast])
  · cases sc.desc <;> cases sc.nullsFirst <;>
      simp [nullsGoFirst, nullsGoLast, cmpNullsFirst, cmpNullsLast, e1, e2]

theorem lessWalk_agrees {V : Type} (o : VOrd V) (sc : SortCol) (base : List V) (m : Nat) :
    ∀ (s1 s2 : List (Nat × Nat)) (x y : Nat),
    (∀ c ∈ cells m base s1 x, c.2.1 = m → c.2.2.isSome) → (∀ c ∈ cells m base s2 y, c.2.1 = m → c.2.2.isSome) →
    (lessWalk o.lt sc.desc sc.nullsFirst base m s1 s2 x y = true ↔
      cmpList (cmpCell o.cmp sc) ((cells m base s1 x).map (fun c => c.2.2)) ((cells m base s2 y).map (fun c => c.2.2)) < 0)
  | [], [], _, _, _, _ => by simp [lessWalk, cells, cmpList]
  | [], (r, d) :: t, _, _, _, _ => by
    simp only [lessWalk, cells]
    split <;> simp [cmpList]
  | (r, d) :: t, [], _, _, _, _ => by
    simp only [lessWalk, cells]
    split <;> simp [cmpList]
  | (r1, d1) :: t1, (r2, d2) :: t2, x, y, h1, h2 => by
    have hv1 : d1 = m → (base[x]?).isSome := by
      intro e; simp only [cells, e, if_true] at h1; exact h1 (r1, m, base[x]?) (by simp) rfl
    have hv2 : d2 = m → (base[y]?).isSome := by
      intro e; simp only [cells, e, if_true] at h2; exact h2 (r2, m, base[y]?) (by simp) rfl
    have a1 := nullOrd_agrees o sc base m d1 d2 x y hv1 hv2
    have a2 := nullOrd_agrees o sc base m d2 d1 y x hv2 hv1
    rw [cmpCell_anti o sc] at a2
    have ih := lessWalk_agrees o sc base m t1 t2 (if d1 = m then x + 1 else x) (if d2 = m then y + 1 else y)
      (by intro c hc; apply h1 c; simp only [cells]; split <;> simp_all)
      (by intro c hc; apply h2 c; simp only [cells]; split <;> simp_all)
    have hc1 : (cells m base ((r1, d1) :: t1) x).map (fun c => c.2.2) =
        (if d1 = m then base[x]? else none) :: (cells m base t1 (if d1 = m then x + 1 else x)).map (fun c => c.2.2) := by
      simp only [cells]; split <;> simp
    have hc2 : (cells m base ((r2, d2) :: t2) y).map (fun c => c.2.2) =
        (if d2 = m then base[y]? else none) :: (cells m base t2 (if d2 = m then y + 1 else y)).map (fun c => c.2.2) := by
      simp only [cells]; split <;> simp
    rw [hc1, hc2]
    simp only [lessWalk, cmpList]
    generalize cmpCell o.cmp sc (if d1 = m then base[x]? else none) (if d2 = m then base[y]? else none) = c at a1 a2 ⊢
    by_cases n1 : nullOrd o.lt sc.desc sc.nullsFirst base m d1 d2 x y = true
    · have : c < 0 := a1.mp n1
      have hc : c ≠ 0 := by omega
      simp [n1, hc, this]
    · have hx1 : ¬ c < 0 := fun e => n1 (a1.mpr e)
      by_cases n2 : nullOrd o.lt sc.desc sc.nullsFirst base m d2 d1 y x = true
      · have : -c < 0 := a2.mp n2
        have hc : c ≠ 0 := by omega
        simp [n1, n2, hc, hx1]
      · have hx2 : ¬ -c < 0 := fun e => n2 (a2.mpr e)
        have hc : c = 0 := by omega
        simp only [n1, n2, hc]
        simpa using ih

/-- `repeatedColumnBuffer.Less(i, j)` ⇔ the comparator on the two rows' value lists is negative -/
theorem RepCol.less_agrees {V : Type} (o : VOrd V) (sc : SortCol) {m : Nat} {c : RepCol V} (h : c.RInv m)
    {i j : Nat} (hi : i < c.rows.length) (hj : j < c.rows.length) :
    c.less o.lt sc.desc sc.nullsFirst m i j = true ↔ cmpList (cmpCell o.cmp sc) (c.key m i) (c.key m j) < 0 := by
  have wi := (h _ (List.getElem_mem hi)).2
  have wj := (h _ (List.getElem_mem hj)).2
  simp only [RepCol.less, RepCol.key, List.getElem?_eq_getElem hi, List.getElem?_eq_getElem hj]
  exact lessWalk_agrees o sc c.base m _ _ _ _
    (fun cc hcc hm => (RowWF.cells_ok wi cc hcc).mp hm) (fun cc hcc hm => (RowWF.cells_ok wj cc hcc).mp hm)


end PqModel.SortBuf
