import PqModel.HashProbeProofs
import PqModel.Plain
/-! Bridge from the numbering the hashprobe mirror maintains (`List (α × Nat)`, PqModel/HashProbe.lean) to the
table model the dictionary machines use (PqModel/DictReset.lean, `ProbeDict.table : List α` = the keys in
numbering order, probed with `Plain.insertAll`): a table representing `numbering d` answers `insertAll d`. -/
namespace PqModel.HashProbe
open PqModel.Plain

variable {α : Type} [DecidableEq α]

/-- the numbering of a table whose keys, in numbering order, are `d` -/
def numbering (d : List α) : List (α × Nat) := d.zipIdx

theorem gfind_zipIdx : ∀ (d : List α) (n : Nat) (x : α), gfind x (d.zipIdx n) = (dictFind d x).map (· + n)
  | [], _, _ => rfl
  | y :: ys, n, x => by
    simp only [List.zipIdx_cons, gfind, dictFind]
    split
    · simp
    · rw [gfind_zipIdx ys (n + 1) x]
      cases dictFind ys x with
      | none => rfl
      | some i => simp only [Option.map_some]; congr 1; omega

theorem specProbe1_numbering (d : List α) (x : α) :
    specProbe1 (numbering d) x = (numbering (dictInsert1 d x).1, (dictInsert1 d x).2) := by
  unfold specProbe1 dictInsert1 numbering
  rw [gfind_zipIdx d 0 x]
  cases dictFind d x with
  | some i => simp
  | none => simp [List.zipIdx_append]

theorem specProbe_numbering : ∀ (xs : List α) (d : List α),
    specProbe (numbering d) xs = (numbering (insertAll d xs).1, (insertAll d xs).2)
  | [], _ => rfl
  | x :: xs, d => by
    simp only [specProbe, insertAll, specProbe1_numbering, specProbe_numbering xs]

theorem specSession_numbering : ∀ (calls : List (List α)) (d : List α),
    (specSession (numbering d) calls).flatten = (insertAll d calls.flatten).2
      ∧ (specSession (numbering d) calls).map List.length = calls.map List.length
  | [], _ => by simp [specSession, insertAll]
  | c :: cs, d => by
    have ih := specSession_numbering cs (insertAll d c).1
    simp only [specSession, specProbe_numbering, List.flatten_cons, List.map_cons, insertAll_append, ih,
      insertAll_length, and_self]

end PqModel.HashProbe
