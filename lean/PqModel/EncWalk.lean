import PqModel.Spec.Thrift

/-! # Keyless walker of an encrypted Parquet file (C18, reader side; SPEC-side definition)

Without any key a reader can still check the framing of an encrypted file: the bytes between the
magic and the footer region must be exactly a chain of module envelopes
`len(4, LE) ‖ nonce(12) ‖ ciphertext ‖ tag(16)`; in encrypted-footer mode the footer region is a
plaintext `FileCryptoMetaData` followed by exactly one envelope; in plaintext-footer mode it is a
plaintext `FileMetaData` followed by a 28-byte signature, every column chunk carries an
`encrypted_column_metadata` that is itself one well-formed envelope, and its column-index and
offset-index references point at whole envelopes of the chain. The footer is read with the
generic thrift reader of `Spec/Thrift.lean`. The harness compares the result with the modules its
keyed walker opened (same offsets, same lengths, same AAD parameters). -/
namespace PqModel.EncWalk
open PqModel.Spec

/-- envelope = (offset, length including the 4-byte prefix) -/
abbrev Env := Nat × Nat

/-- the smallest envelope: prefix + nonce + tag -/
def minEnv : Nat := 4 + 12 + 16

/-- the chain of envelopes that tiles `[pos, stop)` exactly; fuel = number of envelopes at most -/
def chain (d : ByteArray) (stop : Nat) : Nat → Nat → List Env → Except String (List Env)
  | 0, _, _ => .error "chain: out of fuel"
  | fuel + 1, pos, acc =>
    if pos == stop then .ok acc.reverse
    else if pos + 4 > stop then .error s!"chain: {stop - pos} stray bytes at {pos}"
    else
      let l := le d pos 4
      if l < 28 then .error s!"chain: length prefix {l} at {pos} is below nonce+tag"
      else if pos + 4 + l > stop then .error s!"chain: envelope at {pos} (length prefix {l}) runs past {stop}"
      else chain d stop fuel (pos + 4 + l) ((pos, 4 + l) :: acc)

/-- the envelopes tile the interval: consecutive, starting at `a`, ending at `b` -/
def Tiles : List Env → Nat → Nat → Prop
  | [], a, b => a = b
  | (off, len) :: rest, a, b => off = a ∧ minEnv ≤ len ∧ Tiles rest (a + len) b

theorem chain_tiles (d : ByteArray) (stop : Nat) : ∀ fuel pos acc a out,
    Tiles acc.reverse a pos → chain d stop fuel pos acc = .ok out → Tiles out a stop := by
  intro fuel
  induction fuel with
  | zero => intro pos acc a out _ h; simp [chain] at h
  | succ fuel ih =>
    intro pos acc a out hacc h
    simp only [chain] at h
    split at h
    · rename_i he
      have : pos = stop := by simpa using he
      cases h; subst this; exact hacc
    · split at h
      · cases h
      · split at h
        · cases h
        · split at h
          · cases h
          · rename_i h28 _
            refine ih _ _ a out ?_ h
            rw [List.reverse_cons]
            clear h ih
            -- appending one envelope at `pos` to a tiling of [a, pos)
            have key : ∀ (l : List Env) (a : Nat), Tiles l a pos → Tiles (l ++ [(pos, 4 + le d pos 4)]) a (pos + (4 + le d pos 4)) := by
              intro l
              induction l with
              | nil => intro a h; simp only [Tiles] at h; subst h; exact ⟨rfl, by simp only [minEnv]; omega, rfl⟩
              | cons e l ihl => intro a h; obtain ⟨o, n⟩ := e; exact ⟨h.1, h.2.1, ihl _ h.2.2⟩
            have := key acc.reverse a hacc
            simpa [Nat.add_assoc] using this

/-- the chain found from `pos` tiles `[pos, stop)`: no byte outside an envelope, no overlap -/
theorem chain_tiles_from (d : ByteArray) (stop fuel pos : Nat) (out : List Env)
    (h : chain d stop fuel pos [] = .ok out) : Tiles out pos stop :=
  chain_tiles d stop fuel pos [] pos out rfl h

structure Walk where
  encFooter : Bool
  footerStart : Nat
  plainLen : Nat               -- bytes of plaintext thrift at the start of the footer region
  aadPrefix : ByteArray
  fileUnique : ByteArray
  dataMods : List Env          -- the chain between magic and footer region
  footerMods : List Env        -- the footer envelope / the inline column metadata envelopes
  problems : List String

def findSub (d : ByteArray) (pat : ByteArray) (stop : Nat) : Nat → Nat → Option Nat
  | 0, _ => none
  | fuel + 1, pos =>
    if pos + pat.size > stop then none
    else if d.get! pos == pat.get! 0 && d.get! (pos + 5) == pat.get! 5 &&
        (List.range pat.size).all (fun i => d.get! (pos + i) == pat.get! i) then some pos
    else findSub d pat stop fuel (pos + 1)

def algoParams (algo : Option TVal) : ByteArray × ByteArray :=
  -- EncryptionAlgorithm union: 1 = AES_GCM_V1 {1: aad_prefix, 2: aad_file_unique}, 2 = AES_GCM_CTR_V1 (same fields)
  let v := match algo with
    | some a => (match a.field? 1 with | some x => some x | none => a.field? 2)
    | none => none
  match v with
  | some s => (TVal.bytes (s.field? 1), TVal.bytes (s.field? 2))
  | none => (ByteArray.empty, ByteArray.empty)

def magicOf (d : ByteArray) (off : Nat) : String := String.ofList ((List.range 4).map (fun i => Char.ofNat (d.get! (off + i)).toNat))

def walk (d : ByteArray) : Except String Walk := do
  let n := d.size
  if n < 12 then throw "file shorter than magic + footer length + magic"
  let head := magicOf d 0
  let tail := magicOf d (n - 4)
  if head != tail then throw s!"magic {head} at the start, {tail} at the end"
  let flen := le d (n - 8) 4
  if flen + 12 > n then throw s!"footer length {flen}"
  let fstart := n - 8 - flen
  let dataMods ← chain d fstart (n + 1) 4 []
  if head == "PARE" then
    let (cm, pos) ← readStruct d fstart
    if pos + 4 > n - 8 then throw "no footer envelope after FileCryptoMetaData"
    let l := le d pos 4
    let probs := (if l < 28 then ["footer envelope shorter than nonce+tag"] else []) ++
      (if pos + 4 + l != n - 8 then [s!"footer envelope ends at {pos + 4 + l}, footer region at {n - 8}"] else [])
    let (pfx, fu) := algoParams (cm.field? 1)
    return { encFooter := true, footerStart := fstart, plainLen := pos - fstart, aadPrefix := pfx, fileUnique := fu,
             dataMods := dataMods, footerMods := [(pos, 4 + l)], problems := probs }
  else if head == "PAR1" then
    let (md, pos) ← readStruct d fstart
    if n - 8 - pos != 28 then throw s!"plaintext footer followed by {n - 8 - pos} bytes, want a 28-byte signature"
    let (pfx, fu) := algoParams (md.field? 8)
    let mut mods : List Env := []
    let mut probs : List String := []
    let mut gi := 0
    let mut from_ := fstart      -- the chunks are serialised in order: search on from the last hit
    for rg in TVal.listD (md.field? 4) do
      let mut ci := 0
      for cc in TVal.listD (rg.field? 1) do
        let ecm := TVal.bytes (cc.field? 9)
        if ecm.size < minEnv then
          probs := s!"rg {gi} col {ci}: no encrypted_column_metadata envelope" :: probs
        else if le ecm 0 4 + 4 != ecm.size then
          probs := s!"rg {gi} col {ci}: encrypted_column_metadata of {ecm.size} bytes with length prefix {le ecm 0 4}" :: probs
        else
          match findSub d ecm pos (pos - fstart + 1) from_ with
          | some at_ =>
            mods := (at_, ecm.size) :: mods
            from_ := at_ + ecm.size
          | none => probs := s!"rg {gi} col {ci}: encrypted_column_metadata not found in the footer bytes" :: probs
        for (offF, lenF, what) in [(6, 7, "column index"), (4, 5, "offset index")] do
          let off := TVal.nat (cc.field? offF)
          let len := TVal.nat (cc.field? lenF)
          if off != 0 && !(dataMods.contains (off, len)) then
            probs := s!"rg {gi} col {ci}: {what} reference {off}+{len} is not an envelope of the chain" :: probs
        ci := ci + 1
      gi := gi + 1
    return { encFooter := false, footerStart := fstart, plainLen := pos - fstart, aadPrefix := pfx, fileUnique := fu,
             dataMods := dataMods, footerMods := mods.reverse, problems := probs.reverse }
  else throw s!"magic {head}"

end PqModel.EncWalk
