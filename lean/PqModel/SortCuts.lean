import PqModel.SortWriter

/-! # C10 model, part 7 — where the `SortingWriter` cuts its sort runs

MIRROR of `sorting.go:146-185` (`Write`/`WriteRows` → `writeRows`), `:135-137` (`Flush`),
`:188-224` (`sortAndWriteBufferedRows`: an empty buffer writes nothing; otherwise the buffered rows
become one row group of the temporary file and the buffer is reset) and of the `Flush` at the start
of `Close` (`:72-75`). The state keeps the rows in arrival order; sorting, duplicate dropping and
the encoding of a run are applied later (`SortWriter.lean`: `sortRun`, `dedupRun`).
`maxRows` is `sortRowCount` (a natural number here; the library accepts any `int64` and does not
terminate on `Write` for `sortRowCount = 0`, see `writeLoop_zero`; negative counts panic). -/
namespace PqModel.SortBuf

/-- `SortingWriter`: the row buffer and the rows of every temporary row group written so far -/
structure SW (R : Type) where
  buf : List R
  runs : List (List R)

def SW.empty {R : Type} : SW R := ⟨[], []⟩

/-- MIRROR `sorting.go:188-224` `sortAndWriteBufferedRows` -/
def SW.flush {R : Type} (w : SW R) : SW R :=
  if w.buf.isEmpty then w else { buf := [], runs := w.runs ++ [w.buf] }

/-- MIRROR `sorting.go:158-185` `writeRows`: while rows remain — flush if the buffer holds
    `maxRows` rows or more; hand `rows[wn : min(wn + maxRows - NumRows, numRows)]` to the row buffer.
    One unit of fuel per loop iteration; returns the state and the rows not yet taken. -/
def SW.writeLoop {R : Type} (maxRows : Nat) : Nat → SW R → List R → SW R × List R
  | 0, w, rows => (w, rows)
  | fuel + 1, w, rows =>
    if rows.isEmpty then (w, rows)
    else
      let w1 := if maxRows ≤ w.buf.length then w.flush else w
      let n := maxRows - w1.buf.length
      SW.writeLoop maxRows fuel { w1 with buf := w1.buf ++ rows.take n } (rows.drop n)

/-- the calls a user makes before `Close` -/
inductive SWOp (R : Type) where
  | write (rows : List R)
  | flush

def SW.step {R : Type} (maxRows : Nat) (w : SW R) : SWOp R → SW R
  | .write rows => (w.writeLoop maxRows rows.length rows).1
  | .flush => w.flush

def SW.run {R : Type} (maxRows : Nat) (w : SW R) (ops : List (SWOp R)) : SW R := ops.foldl (SW.step maxRows) w

/-- MIRROR `sorting.go:72-75`: `Close` starts with `Flush` -/
def SW.close {R : Type} (w : SW R) : SW R := w.flush

/-- the runs `Close` merges, for a history of calls on a fresh writer -/
def cutRuns {R : Type} (maxRows : Nat) (ops : List (SWOp R)) : List (List R) := ((SW.empty.run maxRows ops).close).runs

/-- SPEC: the rows written, in the order written -/
def written {R : Type} : List (SWOp R) → List R
  | [] => []
  | .write rows :: t => rows ++ written t
  | .flush :: t => written t

/-- everything the writer holds, in arrival order -/
def SW.content {R : Type} (w : SW R) : List R := w.runs.flatten ++ w.buf

/-- the buffer never exceeds `maxRows`; every run is non-empty and at most `maxRows` long -/
def SW.Ok {R : Type} (maxRows : Nat) (w : SW R) : Prop :=
  w.buf.length ≤ maxRows ∧ ∀ r ∈ w.runs, r ≠ [] ∧ r.length ≤ maxRows

theorem SW.flush_content {R : Type} (w : SW R) : w.flush.content = w.content := by
  unfold SW.flush SW.content
  split
  · rfl
  · simp

theorem SW.flush_buf {R : Type} (w : SW R) : w.flush.buf = [] := by
  unfold SW.flush
  split
  · next h => simpa using h
  · rfl

theorem SW.Ok.flush {R : Type} {maxRows : Nat} {w : SW R} (h : w.Ok maxRows) : w.flush.Ok maxRows := by
  unfold SW.flush
  split
  · exact h
  · next hb =>
    refine ⟨by simp, ?_⟩
    intro r hr
    rcases List.mem_append.mp hr with hr | hr
    · exact h.2 r hr
    · have : r = w.buf := by simpa using hr
      subst this
      exact ⟨by intro e; simp [e] at hb, h.1⟩

/-- for `maxRows ≥ 1` the loop takes every row within `rows.length` iterations, keeps the arrival
    order and the size bounds -/
theorem SW.writeLoop_spec {R : Type} {maxRows : Nat} (h1 : 1 ≤ maxRows) : ∀ (fuel : Nat) (w : SW R) (rows : List R),
    w.Ok maxRows → rows.length ≤ fuel →
    (w.writeLoop maxRows fuel rows).2 = [] ∧ (w.writeLoop maxRows fuel rows).1.content = w.content ++ rows ∧
    (w.writeLoop maxRows fuel rows).1.Ok maxRows
  | 0, w, rows, hok, hl => by
    have : rows = [] := List.eq_nil_of_length_eq_zero (by omega)
    subst this
    simp [SW.writeLoop, hok]
  | fuel + 1, w, rows, hok, hl => by
    simp only [SW.writeLoop]
    split
    · next he =>
      have : rows = [] := by simpa using he
      subst this
      simp [hok]
    · next he =>
      have hne : rows ≠ [] := by simpa using he
      have hpos : 0 < rows.length := List.length_pos_iff.mpr hne
      -- the state after the conditional flush
      have hw1 : ∃ w1 : SW R, (if maxRows ≤ w.buf.length then w.flush else w) = w1 ∧ w1.Ok maxRows ∧
          w1.content = w.content ∧ w1.buf.length < maxRows := by
        by_cases hc : maxRows ≤ w.buf.length
        · refine ⟨w.flush, by simp [hc], hok.flush, w.flush_content, ?_⟩
          rw [w.flush_buf]; simp; omega
        · exact ⟨w, by simp [hc], hok, rfl, by omega⟩
      obtain ⟨w1, e1, ok1, c1, lt1⟩ := hw1
      rw [e1]
      have hn : 1 ≤ maxRows - w1.buf.length := by omega
      have ok2 : ({ w1 with buf := w1.buf ++ rows.take (maxRows - w1.buf.length) } : SW R).Ok maxRows := by
        refine ⟨?_, ok1.2⟩
        simp only [List.length_append, List.length_take]
        omega
      have ih := SW.writeLoop_spec h1 fuel { w1 with buf := w1.buf ++ rows.take (maxRows - w1.buf.length) }
        (rows.drop (maxRows - w1.buf.length)) ok2 (by rw [List.length_drop]; omega)
      refine ⟨ih.1, ?_, ih.2.2⟩
      rw [ih.2.1, ← c1]
      simp only [SW.content, List.append_assoc, List.take_append_drop]

theorem SW.Ok.step {R : Type} {maxRows : Nat} (h1 : 1 ≤ maxRows) {w : SW R} (h : w.Ok maxRows) (op : SWOp R) :
    (w.step maxRows op).Ok maxRows ∧
    (w.step maxRows op).content = w.content ++ (match op with | .write rows => rows | .flush => []) := by
  cases op with
  | write rows =>
    obtain ⟨_, b, c⟩ := SW.writeLoop_spec h1 rows.length w rows h (Nat.le_refl _)
    exact ⟨c, b⟩
  | flush => exact ⟨h.flush, by simp [SW.step, SW.flush_content]⟩

theorem SW.run_spec {R : Type} {maxRows : Nat} (h1 : 1 ≤ maxRows) : ∀ (ops : List (SWOp R)) (w : SW R), w.Ok maxRows →
    (w.run maxRows ops).Ok maxRows ∧ (w.run maxRows ops).content = w.content ++ written ops
  | [], w, h => by simp [SW.run, written, h]
  | op :: ops, w, h => by
    obtain ⟨o1, c1⟩ := h.step h1 op
    obtain ⟨o2, c2⟩ := SW.run_spec h1 ops (w.step maxRows op) o1
    simp only [SW.run, List.foldl_cons] at o2 c2 ⊢
    refine ⟨o2, ?_⟩
    rw [c2, c1]
    cases op <;> simp [written]

theorem SW.Ok.empty {R : Type} (maxRows : Nat) : (SW.empty : SW R).Ok maxRows := ⟨by simp [SW.empty], by simp [SW.empty]⟩

/-- **the runs partition the input**: for every history of `Write`/`WriteRows`/`Flush` calls on a
    fresh writer with `sortRowCount ≥ 1`, the runs merged by `Close` are consecutive pieces of the
    rows written (their concatenation is the input, in order), none is empty, none exceeds
    `sortRowCount`, and nothing stays behind in the buffer -/
theorem cutRuns_partition {R : Type} {maxRows : Nat} (h1 : 1 ≤ maxRows) (ops : List (SWOp R)) :
    (cutRuns maxRows ops).flatten = written ops ∧ (∀ r ∈ cutRuns maxRows ops, r ≠ [] ∧ r.length ≤ maxRows) ∧
    ((SW.empty.run maxRows ops).close).buf = [] := by
  obtain ⟨o, c⟩ := SW.run_spec h1 ops SW.empty (SW.Ok.empty maxRows)
  have hc := (SW.empty.run maxRows ops).flush_content
  have hb := (SW.empty.run maxRows ops).flush_buf
  refine ⟨?_, o.flush.2, hb⟩
  have : ((SW.empty.run maxRows ops).close).content = written ops := by
    rw [SW.close, hc, c]; simp [SW.content, SW.empty]
  simpa [SW.content, SW.close, hb, cutRuns] using this

/-- `sortRowCount = 0`: the loop never takes a row (the library spins in `Write`) -/
theorem SW.writeLoop_zero {R : Type} : ∀ (fuel : Nat) (w : SW R) (rows : List R), (w.writeLoop 0 fuel rows).2 = rows
  | 0, _, _ => rfl
  | fuel + 1, w, rows => by
    simp only [SW.writeLoop]
    split
    · rfl
    · simp only [Nat.zero_le, if_true, Nat.zero_sub, List.take_zero, List.append_nil, List.drop_zero]
      exact SW.writeLoop_zero fuel _ rows

/-! ## without explicit `Flush` calls the runs are the chunks of `maxRows` rows -/

/-- every run written so far is full -/
def SW.Full {R : Type} (maxRows : Nat) (w : SW R) : Prop := ∀ r ∈ w.runs, r.length = maxRows

theorem SW.writeLoop_full {R : Type} {maxRows : Nat} (h1 : 1 ≤ maxRows) : ∀ (fuel : Nat) (w : SW R) (rows : List R),
    w.Ok maxRows → w.Full maxRows → (w.writeLoop maxRows fuel rows).1.Full maxRows
  | 0, w, rows, _, hf => hf
  | fuel + 1, w, rows, hok, hf => by
    simp only [SW.writeLoop]
    split
    · exact hf
    · by_cases hc : maxRows ≤ w.buf.length
      · simp only [hc, if_true]
        have hfl : w.flush.Full maxRows := by
          unfold SW.flush
          split
          · exact hf
          · intro r hr
            rcases List.mem_append.mp hr with hr | hr
            · exact hf r hr
            · have : r = w.buf := by simpa using hr
              subst this
              have := hok.1
              omega
        have ok1 := hok.flush
        refine SW.writeLoop_full h1 fuel _ _ ⟨?_, ok1.2⟩ hfl
        simp only [List.length_append, List.length_take, w.flush_buf, List.length_nil]
        omega
      · simp only [hc, if_false]
        refine SW.writeLoop_full h1 fuel _ _ ⟨?_, hok.2⟩ hf
        simp only [List.length_append, List.length_take]
        omega

theorem chunks_full_runs {R : Type} {n : Nat} (hn : 1 ≤ n) : ∀ (runs : List (List R)) (tail : List R) (fuel : Nat),
    (∀ r ∈ runs, r.length = n) → tail.length ≤ n → (runs.flatten ++ tail).length ≤ fuel →
    chunks n fuel (runs.flatten ++ tail) = runs ++ (if tail.isEmpty then [] else [tail])
  | [], tail, fuel, _, ht, hf => by
    simp only [List.flatten_nil, List.nil_append] at hf ⊢
    cases fuel with
    | zero =>
      have : tail = [] := List.eq_nil_of_length_eq_zero (by omega)
      simp [chunks, this]
    | succ fuel =>
      simp only [chunks]
      by_cases he : tail = []
      · simp [he]
      · have h0 : 0 < tail.length := List.length_pos_iff.mpr he
        have hd : tail.drop n = [] := List.drop_eq_nil_of_le ht
        have htk : tail.take n = tail := List.take_of_length_le ht
        simp only [he, if_false, hd, htk]
        cases fuel <;> simp [chunks, he]
  | r :: runs, tail, fuel, hr, ht, hf => by
    have hrl : r.length = n := hr r (by simp)
    have hrne : r ≠ [] := by intro e; simp [e] at hrl; omega
    cases fuel with
    | zero =>
      have h0 : 0 < r.length := List.length_pos_iff.mpr hrne
      simp only [List.flatten_cons, List.length_append] at hf
      omega
    | succ fuel =>
      simp only [chunks, List.flatten_cons, List.append_assoc]
      have hne : r ++ (runs.flatten ++ tail) ≠ [] := by simp [hrne]
      simp only [hne, if_false]
      have htk : (r ++ (runs.flatten ++ tail)).take n = r := by rw [← hrl]; simp
      have hdr : (r ++ (runs.flatten ++ tail)).drop n = runs.flatten ++ tail := by rw [← hrl]; simp
      rw [htk, hdr, chunks_full_runs hn runs tail fuel (fun x hx => hr x (by simp [hx])) ht (by
        simp only [List.flatten_cons, List.append_assoc, List.length_append] at hf
        simp only [List.length_append]; omega)]
      simp

/-- a history of `Write`/`WriteRows` calls only (whatever their batch sizes): the runs are the
    consecutive chunks of `sortRowCount` rows of the input — the `chunks` of `SortWriter.lean` -/
theorem cutRuns_eq_chunks {R : Type} {maxRows : Nat} (h1 : 1 ≤ maxRows) (ops : List (SWOp R))
    (hw : ∀ op ∈ ops, ∃ rows, op = .write rows) :
    cutRuns maxRows ops = chunks maxRows (written ops).length (written ops) := by
  have hfull : ∀ (ops : List (SWOp R)) (w : SW R), (∀ op ∈ ops, ∃ rows, op = .write rows) → w.Ok maxRows → w.Full maxRows →
      (w.run maxRows ops).Full maxRows := by
    intro ops
    induction ops with
    | nil => intro w _ _ hf; exact hf
    | cons op ops ih =>
      intro w hw hok hf
      obtain ⟨rows, rfl⟩ := hw op (by simp)
      simp only [SW.run, List.foldl_cons]
      exact ih _ (fun x hx => hw x (by simp [hx])) (hok.step h1 (.write rows)).1 (SW.writeLoop_full h1 _ w rows hok hf)
  obtain ⟨o, c⟩ := SW.run_spec h1 ops SW.empty (SW.Ok.empty maxRows)
  have hf := hfull ops SW.empty hw (SW.Ok.empty maxRows) (by intro r hr; simp [SW.empty] at hr)
  show ((SW.empty.run maxRows ops).flush).runs = _
  generalize SW.empty.run maxRows ops = w at o c hf ⊢
  have hcont : w.runs.flatten ++ w.buf = written ops := by simpa [SW.content, SW.empty] using c
  have hch := chunks_full_runs h1 w.runs w.buf (written ops).length hf o.1 (by rw [hcont]; exact Nat.le_refl _)
  rw [hcont] at hch
  rw [hch]
  unfold SW.flush
  split <;> simp_all

end PqModel.SortBuf
