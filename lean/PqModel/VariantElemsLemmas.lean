import PqModel.VariantElems

/-! Lemmas for `Props/C19Elems.lean`: the two-pointer walk of `processElements` against the
    "group starts inside the slot range" specification. -/
namespace PqModel.VariantWindow

/-- SPEC: number of group starts below slot `b` -/
def cnt (E : List Nat) (b : Nat) : Nat := (E.filter (· < b)).length

theorem cnt_le_length (E : List Nat) (b : Nat) : cnt E b ≤ E.length := List.length_filter_le _ _

theorem cnt_cons (x : Nat) (E : List Nat) (b : Nat) :
    cnt (x :: E) b = (if x < b then 1 else 0) + cnt E b := by
  by_cases hx : x < b <;> simp [cnt, hx] <;> omega

theorem cnt_zero_of_ge (E : List Nat) (b : Nat) (h : ∀ y ∈ E, b ≤ y) : cnt E b = 0 := by
  induction E with
  | nil => rfl
  | cons x E ih =>
    have hx : ¬ x < b := by have := h x (by simp); omega
    rw [cnt_cons, ih (fun y hy => h y (by simp [hy]))]; simp [hx]

theorem cnt_mono (E : List Nat) {b b' : Nat} (h : b ≤ b') : cnt E b ≤ cnt E b' := by
  induction E with
  | nil => simp [cnt]
  | cons x E ih => rw [cnt_cons, cnt_cons]; split <;> split <;> omega

theorem getD_mem (l : List Nat) (i : Nat) (h : i < l.length) : l.getD i 0 ∈ l := by
  induction l generalizing i with
  | nil => simp at h
  | cons x l ih =>
    cases i with
    | zero => simp
    | succ i => simp only [List.getD_cons_succ]; exact List.mem_cons_of_mem _ (ih i (by simpa using h))

/-- in a strictly increasing list, the elements below `b` are the first `cnt E b` ones -/
theorem sorted_index (b : Nat) : ∀ (E : List Nat), E.Pairwise (· < ·) → ∀ i, i < E.length →
    (E.getD i 0 < b ↔ i < cnt E b) := by
  intro E
  induction E with
  | nil => intro _ i h; simp at h
  | cons x E ih =>
    intro hs i hi
    rw [List.pairwise_cons] at hs
    by_cases hx : x < b
    · cases i with
      | zero => rw [cnt_cons]; first | (simp [hx]; done) | (simp [hx]; omega)
      | succ i =>
        simp only [List.getD_cons_succ, cnt_cons, hx, if_true]
        rw [ih hs.2 i (by simpa using hi)]; omega
    · have hz : cnt E b = 0 := cnt_zero_of_ge E b (fun y hy => by have := hs.1 y hy; omega)
      cases i with
      | zero => simp [cnt_cons, hx, hz]
      | succ i =>
        have hm := getD_mem E i (by simpa using hi)
        have := hs.1 _ hm
        simp only [List.getD_cons_succ, cnt_cons, hx, if_false, hz]
        omega

theorem sorted_mono : ∀ (P : List Nat), P.Pairwise (· < ·) → ∀ i j, i ≤ j → j < P.length →
    P.getD i 0 ≤ P.getD j 0 := by
  intro P
  induction P with
  | nil => intro _ i j _ h; simp at h
  | cons x P ih =>
    intro hs i j hij hj
    rw [List.pairwise_cons] at hs
    cases j with
    | zero => have : i = 0 := by omega
              subst this; simp
    | succ j =>
      cases i with
      | zero =>
        have := hs.1 _ (getD_mem P j (by simpa using hj))
        simp only [List.getD_cons_zero, List.getD_cons_succ]; omega
      | succ i => simp only [List.getD_cons_succ]; exact ih hs.2 i j (by omega) (by simpa using hj)

theorem getD_append_left (E : List Nat) (n h : Nat) (hh : h < E.length) :
    (E ++ [n]).getD h 0 = E.getD h 0 := by
  induction E generalizing h with
  | nil => simp at hh
  | cons x E ih =>
    cases h with
    | zero => simp
    | succ h => simp only [List.cons_append, List.getD_cons_succ]; exact ih h (by simpa using hh)

/-- the `for h < len(startsE)-1 && startsE[h] < bound` loop stops at the number of starts below `bound` -/
theorem skipTo_cnt (E : List Nat) (n b : Nat) (hs : E.Pairwise (· < ·)) : ∀ (fuel h : Nat),
    h ≤ cnt E b → cnt E b - h ≤ fuel → skipTo (E ++ [n]) b fuel h = cnt E b := by
  intro fuel
  induction fuel with
  | zero => intro h h1 h2; simp only [skipTo]; omega
  | succ fuel ih =>
    intro h h1 h2
    have hcl := cnt_le_length E b
    by_cases hlt : h < cnt E b
    · have hh : h < E.length := by omega
      have hc : (E ++ [n]).getD h 0 < b := by
        rw [getD_append_left E n h hh]; exact (sorted_index b E hs h hh).2 hlt
      have hg : h < (E ++ [n]).length - 1 := by simp; omega
      simp only [skipTo, hg, hc, and_self, if_true]
      exact ih (h + 1) (by omega) (by omega)
    · have hne : ¬ (h < (E ++ [n]).length - 1 ∧ (E ++ [n]).getD h 0 < b) := by
        intro ⟨hg, hc⟩
        have hh : h < E.length := by simpa using hg
        rw [getD_append_left E n h hh] at hc
        exact hlt ((sorted_index b E hs h hh).1 hc)
      simp only [skipTo, hne, if_false]; omega

/-- the `LocTypedList` entries come with increasing slot groups (`groupOf` of successive entries) -/
def incFrom : Nat → List (Option Nat) → Prop
  | _, [] => True
  | lo, none :: es => incFrom lo es
  | lo, some g :: es => lo ≤ g ∧ incFrom (g + 1) es

/-- SPEC: the element groups of an entry depend on its own slot range only: the groups of the
    deeper level whose first slot lies in `[startsP[g], startsP[g+1])`, if the list is present -/
def elemsSpec (startsP E : List Nat) (present : Nat → Bool) : List (Option Nat) → List (List Nat)
  | [] => []
  | none :: es => [] :: elemsSpec startsP E present es
  | some g :: es =>
    (if g + 1 < startsP.length ∧ present (startsP.getD g 0) = true then
      List.range' (cnt E (startsP.getD g 0)) (cnt E (startsP.getD (g + 1) 0) - cnt E (startsP.getD g 0))
     else []) :: elemsSpec startsP E present es

theorem elemsLoop_spec (startsP E : List Nat) (n : Nat) (present : Nat → Bool)
    (hP : startsP.Pairwise (· < ·)) (hE : E.Pairwise (· < ·)) :
    ∀ (es : List (Option Nat)) (lo h : Nat), incFrom lo es →
      (∀ g, lo ≤ g → g < startsP.length → h ≤ cnt E (startsP.getD g 0)) →
      elemsLoop startsP (E ++ [n]) present es h = elemsSpec startsP E present es := by
  intro es
  induction es with
  | nil => intro lo h _ _; rfl
  | cons e es ih =>
    intro lo h hinc hH
    cases e with
    | none => simp only [elemsLoop, elemsSpec]; rw [ih lo h hinc hH]
    | some g =>
      obtain ⟨hlo, hinc'⟩ := hinc
      by_cases hg : g ≥ startsP.length - 1
      · have hng : ¬ (g + 1 < startsP.length ∧ present (startsP.getD g 0) = true) := by omega
        simp only [elemsLoop, elemsSpec, hg, if_true, hng, if_false]
        rw [ih (g + 1) h hinc' (fun g' h1 h2 => hH g' (by omega) h2)]
      · have hg1 : g + 1 < startsP.length := by omega
        have hle : startsP.getD g 0 ≤ startsP.getD (g + 1) 0 := sorted_mono startsP hP g (g + 1) (by omega) hg1
        have hfuel : ∀ b k, cnt E b - k ≤ (E ++ [n]).length := by
          intro b k; have := cnt_le_length E b; simp; omega
        have h1 : skipTo (E ++ [n]) (startsP.getD g 0) (E ++ [n]).length h = cnt E (startsP.getD g 0) :=
          skipTo_cnt E n _ hE _ h (hH g hlo (by omega)) (hfuel _ _)
        have h2 : skipTo (E ++ [n]) (startsP.getD (g + 1) 0) (E ++ [n]).length (cnt E (startsP.getD g 0)) =
            cnt E (startsP.getD (g + 1) 0) :=
          skipTo_cnt E n _ hE _ _ (cnt_mono E hle) (hfuel _ _)
        by_cases hp : present (startsP.getD g 0) = true
        · simp only [elemsLoop, elemsSpec, hg, if_false, h1, hp, if_true, h2, hg1, and_self]
          rw [ih (g + 1) _ hinc' (fun g' ha hb => cnt_mono E (sorted_mono startsP hP (g + 1) g' ha hb))]
        · have hng : ¬ (g + 1 < startsP.length ∧ present (startsP.getD g 0) = true) := fun ⟨_, x⟩ => hp x
          simp only [elemsLoop, elemsSpec, hg, if_false, h1, hp, Bool.false_eq_true]
          rw [ih (g + 1) _ hinc' (fun g' ha hb =>
            cnt_mono E (sorted_mono startsP hP g g' (by omega) hb))]
          simp

/-- membership in the range the spec gives = "the group starts inside the slot range" -/
theorem mem_range_cnt (E : List Nat) (hE : E.Pairwise (· < ·)) (gs ge i : Nat) (hi : i < E.length) :
    i ∈ List.range' (cnt E gs) (cnt E ge - cnt E gs) ↔ (gs ≤ E.getD i 0 ∧ E.getD i 0 < ge) := by
  have a := sorted_index gs E hE i hi
  have b := sorted_index ge E hE i hi
  rw [List.mem_range'_1]
  constructor
  · intro ⟨h1, h2⟩
    exact ⟨by have : ¬ i < cnt E gs := by omega
              have := mt a.1 this; omega, b.2 (by omega)⟩
  · intro ⟨h1, h2⟩
    have h3 := b.1 h2
    have h4 : ¬ i < cnt E gs := fun x => by have := a.2 x; omega
    omega

end PqModel.VariantWindow
