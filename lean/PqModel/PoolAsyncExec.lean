import PqModel.PoolAsync
import PqModel.AsyncExec

/-! Executable successor function of `PqModel.PoolAsync` (what `pqdriver` runs for the op
    `asyncown.run`) and its agreement with the relation `OStep`. -/
namespace PqModel.PoolAsync
open PqModel.Async

/-- the successor of `o` under label `l`, if `l` is enabled -/
def onext? (U : Under) (o : O) : Lbl → Option O
  | .lib e c n => (next? U o.g e).map fun g' => { eff o c n e with g := g' }
  | .appRetain b =>
    if 0 < o.appc b then
      some { o with h := o.h.ref b, appc := fun j => o.appc j + cnt (some b) j }
    else none
  | .appRelease b =>
    if 0 < o.appc b then
      some { o with h := o.h.unref (some b), appc := fun j => o.appc j - cnt (some b) j }
    else none

theorem onext?_sound {U o l o'} (h : onext? U o l = some o') : OStep U o l o' := by
  cases l with
  | lib e c n =>
    simp only [onext?, Option.map_eq_some_iff] at h
    obtain ⟨g', hg, rfl⟩ := h
    exact .lib c n (next?_sound hg)
  | appRetain b =>
    simp only [onext?] at h
    split at h
    · cases h; exact .appRetain (by assumption)
    · cases h
  | appRelease b =>
    simp only [onext?] at h
    split at h
    · cases h; exact .appRelease (by assumption)
    · cases h

theorem onext?_complete {U o l o'} (h : OStep U o l o') : onext? U o l = some o' := by
  cases h with
  | lib c n hs => simp only [onext?, next?_complete hs, Option.map_some]
  | appRetain ha => simp only [onext?, if_pos ha]
  | appRelease ha => simp only [onext?, if_pos ha]

theorem onext?_iff {U o l o'} : onext? U o l = some o' ↔ OStep U o l o' :=
  ⟨onext?_sound, onext?_complete⟩

/-- run a label list; `.error i` = index of the first label that is not enabled -/
def orunFrom (U : Under) (o : O) (ls : List Lbl) (i : Nat) : Except Nat O :=
  match ls with
  | [] => .ok o
  | l :: rest =>
    match onext? U o l with
    | some o' => orunFrom U o' rest (i + 1)
    | none => .error i

theorem orunFrom_ok {U o ls i o'} (h : orunFrom U o ls i = .ok o') : OPath U o ls o' := by
  induction ls generalizing o i with
  | nil => simp only [orunFrom] at h; cases h; exact .nil
  | cons l rest ih =>
    simp only [orunFrom] at h
    split at h
    · rename_i o1 h1; exact .cons (onext?_sound h1) (ih h)
    · cases h

/-- test the final state of an accepted label list (for `decide` witnesses) -/
def ocheck (U : Under) (ls : List Lbl) (p : O → Bool) : Bool :=
  match orunFrom U init ls 0 with
  | .ok o => p o
  | .error _ => false

theorem ocheck_reach {U ls p} (h : ocheck U ls p = true) : ∃ o, OReach U o ∧ p o = true := by
  unfold ocheck at h
  split at h
  · rename_i o ho; exact ⟨o, ⟨ls, orunFrom_ok ho⟩, h⟩
  · cases h

end PqModel.PoolAsync
