import PqModel.BloomWriter

/-! # Filters over several segments (C07, round 4)

Write side — MIRROR of `writer_reencode.go`:
* `writeSegmentsPacked` (lines 98-150): how the segments of a segmented row group (a `MergeRowGroups`
  view of non-overlapping file row groups) are batched into output row groups (`packBatches`);
* `packSegmentsByColumn` (153-169) + `configureBloomFiltersForSegments` (177-193): the filter of every
  column is sized ONCE for the value total of the batch, then the segments are copied column by column,
  pages being inserted into the filter as they are flushed (`writeDataPage`). `resizeBloomFilter`
  (writer.go) re-allocates AND ZEROES the filter, which is why the place of the call matters: the
  filter under construction is modelled as a fold over events (`FEv`).

Read side — MIRROR of `multi_row_group.go:341-350` `multiBloomFilter.Check`: the filter of a column of
a `MultiRowGroup` asks the member chunks' filters in order; an answer is the Go pair `(bool, error)`.

Not modelled: the value copy itself (`copyColumnValues`; values arrive in order: C11), where the
column buffer cuts pages (any page list is allowed). -/
namespace PqModel.BloomSegments
open PqModel.XxHash PqModel.Bloom PqModel.BloomWriter

/-! ## write side: events on one column's filter -/

/-- what happens to `c.filter` of one column while one output row group is assembled -/
inductive FEv where
  /-- `resizeBloomFilter(numValues)`: `c.filter = make/clear(Size(numValues))` — previous bits are gone -/
  | resize (numValues : Nat)
  /-- `writeDataPage(page)`: inserted iff `page.Dictionary() == nil && len(c.filter) > 0` -/
  | page (p : WPage)

/-- MIRROR of `resizeBloomFilter` / the insertion of `writeDataPage`, one event -/
def fstep (kind : Kind) (bits : Nat) (b : Built) : FEv → Built
  | .resize n => (filterSize bits n, [])
  | .page p => (b.1, b.2 ++ (if !p.indexed && b.1 > 0 then pageHashes kind p.values else []))

def frun (kind : Kind) (bits : Nat) (b : Built) (evs : List FEv) : Built := evs.foldl (fstep kind bits) b

/-- one source segment as `packSegmentsByColumn` sees it for one column -/
structure Segment where
  /-- `chunk.NumValues()` of the source chunk (nulls included) -/
  numValues : Nat
  /-- `chunkNumValuesIsExact(chunk)` -/
  exact : Bool
  /-- the pages the destination column writer FLUSHES while this segment is copied (they may hold values
      of earlier segments that were still in the column buffer); the pages flushed by the final
      `writeRowGroup` belong to the last segment -/
  pages : List WPage

/-- MIRROR `configureBloomFiltersForSegments`, writer_reencode.go:177-193, one column with a filter:
    `some total` = `c.resizeBloomFilter(total)`, `none` = left unallocated -/
def packedTotal (segs : List Segment) : Option Nat :=
  if segs.all (·.exact) then some ((segs.map (·.numValues)).sum) else none

/-- `len(c.filter)` while the pages of the packed row group are written -/
def packedPresize (bits : Nat) (segs : List Segment) : Nat :=
  match packedTotal segs with
  | some t => filterSize bits t
  | none => 0

def allPages (segs : List Segment) : List WPage := segs.flatMap (·.pages)

/-- MIRROR `packSegmentsByColumn`, writer_reencode.go:153-169: configure once, then every segment -/
def packedEvents (segs : List Segment) : List FEv :=
  (match packedTotal segs with | some t => [FEv.resize t] | none => []) ++ (allPages segs).map FEv.page

/-- SLIP (seeded change C07-4a): the filter "configured" inside the segment loop, from each segment's
    own chunk (`configureBloomFilters(seg.ColumnChunks(), seg.NumRows())`) -/
def packedEventsPerSegment (segs : List Segment) : List FEv :=
  segs.flatMap (fun s => (if s.exact then [FEv.resize s.numValues] else []) ++ s.pages.map FEv.page)

/-- the chunk `flushFilterPages` sees at the end of the packed row group -/
def packedChunk (kind : Kind) (bits : Nat) (segs : List Segment) (dictionary : Option (List Value))
    (switched : Bool) (numValues : Nat) : ChunkWrite :=
  { kind := kind, bits := bits, pages := allPages segs, dictionary := dictionary, switched := switched,
    presized := packedPresize bits segs, numValues := numValues }

/-- the hashes the pages insert into a filter of `size` bytes that is never re-allocated -/
def insertedInto (kind : Kind) (size : Nat) (pages : List WPage) : List UInt64 :=
  pages.flatMap (fun p => if !p.indexed && size > 0 then pageHashes kind p.values else [])

theorem frun_pages (kind : Kind) (bits : Nat) (b : Built) (pages : List WPage) :
    frun kind bits b (pages.map FEv.page) = (b.1, b.2 ++ insertedInto kind b.1 pages) := by
  induction pages generalizing b with
  | nil => simp [frun, insertedInto]
  | cons p ps ih =>
    have e : frun kind bits b ((p :: ps).map FEv.page) = frun kind bits (fstep kind bits b (.page p)) (ps.map FEv.page) := rfl
    rw [e, ih]
    simp only [fstep, insertedInto, List.flatMap_cons, List.append_assoc]
    rfl

theorem frun_append (kind : Kind) (bits : Nat) (b : Built) (xs ys : List FEv) :
    frun kind bits b (xs ++ ys) = frun kind bits (frun kind bits b xs) ys := by
  simp [frun, List.foldl_append]

/-! ## batching of segments into output row groups -/

/-- MIRROR of the loop of `writeSegmentsPacked`, writer_reencode.go:124-146, on row counts.
    `segs` = (rows, columnOriented?) per segment; result: batches in output order, a batch being the
    list of segment indexes written together. State: finished batches (reversed), pending (reversed),
    pending rows, next index. A segment that is not column oriented is a batch of its own. -/
def packLoop (maxRows : Nat) : List (Nat × Bool) → List (List Nat) → List Nat → Nat → Nat → List (List Nat)
  | [], done, pending, _, _ => (if pending.isEmpty then done else pending.reverse :: done).reverse
  | (rows, true) :: rest, done, pending, pendingRows, i =>
    if pendingRows > 0 && pendingRows + rows > maxRows then
      packLoop maxRows rest (if pending.isEmpty then done else pending.reverse :: done) [i] rows (i + 1)
    else packLoop maxRows rest done (i :: pending) (pendingRows + rows) (i + 1)
  | (_, false) :: rest, done, pending, _, i =>
    packLoop maxRows rest ([i] :: (if pending.isEmpty then done else pending.reverse :: done)) [] 0 (i + 1)

def packBatches (maxRows : Nat) (segs : List (Nat × Bool)) : List (List Nat) := packLoop maxRows segs [] [] 0 0

/-! ## read side: the filter of a column of a MultiRowGroup -/

/-- the Go pair `(bool, error)` a `BloomFilter.Check` returns: `err = true` ⇔ error non-nil -/
structure Ans where
  ok : Bool
  err : Bool
  deriving DecidableEq, Repr

/-- "absent": `(false, nil)` — the only answer that lets a reader skip the chunk -/
def Ans.absent : Ans := ⟨false, false⟩

/-- MIRROR `multiBloomFilter.Check`, multi_row_group.go:341-350. A member is `none` when its chunk's
    `BloomFilter()` is nil, else the answer of its `Check`. -/
def multiCheck : List (Option Ans) → Ans
  | [] => ⟨false, false⟩
  | none :: ms => multiCheck ms
  | some a :: ms => if a.ok || a.err then a else multiCheck ms

/-- SLIP (seeded change C07-4b): the early return only on `ok` -/
def multiCheckDropErr : List (Option Ans) → Ans
  | [] => ⟨false, false⟩
  | none :: ms => multiCheckDropErr ms
  | some a :: ms => if a.ok then a else multiCheckDropErr ms

/-- what a member filter answers for hash `h`. `io = false`: the storage failed while the filter (its
    header, its gzip stream or the 32-byte block) was fetched: the error is returned, the boolean is
    whatever the (pooled) block held — `junk`. Otherwise the answer of `readCheck`; a gzip stream that
    does not decompress is an error too. -/
def memberAnswer (dec : List UInt8 → Option (List UInt8)) (s : Stored) (io : Bool) (junk : Bool) (h : BitVec 64) : Ans :=
  if !io then ⟨junk, true⟩
  else match readCheck dec s h with
    | some b => ⟨b, false⟩
    | none => ⟨false, true⟩

end PqModel.BloomSegments
