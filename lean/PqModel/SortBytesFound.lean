import PqModel.SortBytes

/-! # C10 model, part 7b — `byteArrayColumnBuffer.page()` AS FOUND is right iff no value is empty

`page()` as found rewrote the value bytes only when the offsets were not in non-decreasing order.
The buffer's layout is always a rearrangement of a back-to-back layout (`Laid`); when every value
is non-empty the offsets of such a layout are pairwise distinct, so "offsets non-decreasing" means
"rows in storage order" and the test is exact. An empty value shares its offset with its successor:
that is the only way the test can be fooled (`Props/C10Bytes.lean` has the witness). This is why the
defect survived every test that sorts non-empty strings. -/
namespace PqModel.SortBuf

/-- the (offset, length) pairs are a rearrangement of a back-to-back layout -/
def BACol.Laid {B : Type} (c : BACol B) : Prop :=
  ∃ ls : List Nat, (c.offsets.zip c.lengths).Perm ((prefixSums 0 ls).zip ls)

theorem prefixSums_append (ls : List Nat) (x : Nat) : ∀ e, prefixSums e (ls ++ [x]) = prefixSums e ls ++ [e + ls.sum] := by
  induction ls with
  | nil => intro e; simp [prefixSums]
  | cons l ls ih => intro e; simp only [List.cons_append, prefixSums, ih, List.sum_cons]; rw [Nat.add_assoc]

theorem BACol.laid_empty {B : Type} : (BACol.empty : BACol B).Laid := ⟨[], by simp [BACol.empty, prefixSums]⟩

theorem BACol.laid_lengths {B : Type} {c : BACol B} (h : c.BInv) {ls : List Nat}
    (hp : (c.offsets.zip c.lengths).Perm ((prefixSums 0 ls).zip ls)) : c.lengths.Perm ls := by
  have := hp.map Prod.snd
  rwa [List.map_snd_zip (by rw [h.len]; exact Nat.le_refl _),
    List.map_snd_zip (by rw [length_prefixSums]; exact Nat.le_refl _)] at this

theorem BACol.laid_write {B : Type} {c : BACol B} (h : c.BInv) (hl : c.Laid) (v : List B) : (c.write v).Laid := by
  obtain ⟨ls, hp⟩ := hl
  refine ⟨ls ++ [v.length], ?_⟩
  have hs : c.values.length = ls.sum := by rw [h.tot]; exact (BACol.laid_lengths h hp).sum_nat
  simp only [BACol.write]
  rw [List.zip_append h.len, prefixSums_append, List.zip_append (length_prefixSums ls 0), hs, Nat.zero_add]
  exact hp.append (List.Perm.refl _)

theorem BACol.laid_swap {B : Type} {c : BACol B} (h : c.BInv) (hl : c.Laid) (i j : Nat) : (c.swap i j).Laid := by
  obtain ⟨ls, hp⟩ := hl
  refine ⟨ls, ?_⟩
  simp only [BACol.swap]
  rw [zip_swapL h.len]
  exact (swapL_perm _ i j).trans hp

/-- the arrays after the rewrite of `page()` -/
theorem BACol.rewrite_arrays {B : Type} {c : BACol B} (h : c.BInv) :
    (c.pageWith true).offsets = prefixSums 0 c.lengths ∧ (c.pageWith true).lengths = c.lengths := by
  have he := compactLoop_eq c.values c.offsets c.lengths [] h.len
  rw [map_length_view c.values c.offsets c.lengths h.len h.bnd] at he
  simp only [BACol.pageWith, if_true, he, List.length_nil, and_self]

/-- `page()` with either decision keeps the invariant, the row values and the layout property -/
theorem BACol.pageWith_spec {B : Type} {c : BACol B} (h : c.BInv) (hl : c.Laid) (b : Bool) :
    (c.pageWith b).BInv ∧ (c.pageWith b).view = c.view ∧ (c.pageWith b).Laid ∧ (c.pageWith b).lengths = c.lengths := by
  cases b with
  | true =>
    obtain ⟨hi, hv, _, _⟩ := BACol.rewrite_spec h
    obtain ⟨ho, hlen⟩ := BACol.rewrite_arrays h
    exact ⟨hi, hv, ⟨c.lengths, by rw [ho, hlen]⟩, hlen⟩
  | false =>
    simp only [BACol.pageWith, Bool.false_eq_true, if_false]
    exact ⟨⟨h.len, h.bnd, h.tot⟩, rfl, hl, trivial⟩

theorem BACol.pageValues_rewrite {B : Type} {c : BACol B} (h : c.BInv) : (c.pageWith true).pageValues = c.view := by
  obtain ⟨hi, hv, hcc, hend⟩ := BACol.rewrite_spec h
  have := BACol.pageValues_of_contig hi hcc
  rw [hv] at this
  rw [← this]
  congr 1

/-! ## non-decreasing offsets of a layout without empty values are the back-to-back offsets -/

theorem nondecr_pairwise : ∀ (xs : List Nat), nondecr xs = true → xs.Pairwise (· ≤ ·) := by
  intro xs
  induction xs with
  | nil => intro _; exact List.Pairwise.nil
  | cons a tl ih =>
    intro h
    cases tl with
    | nil => simp
    | cons b tl' =>
      simp only [nondecr, Bool.and_eq_true, decide_eq_true_eq] at h
      have ihh := ih h.2
      refine List.Pairwise.cons ?_ ihh
      intro x hx
      rcases List.mem_cons.mp hx with rfl | hx
      · exact h.1
      · exact Nat.le_trans h.1 ((List.pairwise_cons.mp ihh).1 x hx)

theorem contigZip_pairwise : ∀ (ls : List Nat) (e : Nat), (∀ l ∈ ls, 0 < l) →
    ((prefixSums e ls).zip ls).Pairwise (fun p q => p.1 < q.1) ∧ ∀ p ∈ (prefixSums e ls).zip ls, e ≤ p.1 := by
  intro ls
  induction ls with
  | nil => intro e _; simp [prefixSums]
  | cons l ls ih =>
    intro e hpos
    obtain ⟨h1, h2⟩ := ih (e + l) (fun x hx => hpos x (List.mem_cons_of_mem _ hx))
    have hl := hpos l List.mem_cons_self
    simp only [prefixSums, List.zip_cons_cons]
    refine ⟨List.Pairwise.cons ?_ h1, ?_⟩
    · intro p hp
      have := h2 p hp
      simp only
      omega
    · intro p hp
      rcases List.mem_cons.mp hp with rfl | hp
      · exact Nat.le_refl _
      · have := h2 p hp
        omega

/-- the core of it: a rearranged back-to-back layout of NON-EMPTY values whose offsets are in
    non-decreasing order is the back-to-back layout itself -/
theorem BACol.contig_of_sorted_offsets {B : Type} {c : BACol B} (h : c.BInv) (hl : c.Laid)
    (hpos : ∀ l ∈ c.lengths, 0 < l) (hs : c.offsets.Pairwise (· ≤ ·)) :
    contigFrom 0 c.offsets c.lengths = true := by
  obtain ⟨ls, hp⟩ := hl
  have hlen := BACol.laid_lengths h hp
  have hpos' : ∀ l ∈ ls, 0 < l := fun l hm => hpos l (hlen.mem_iff.mpr hm)
  obtain ⟨hK, _⟩ := contigZip_pairwise ls 0 hpos'
  -- the offsets are pairwise distinct, hence strictly increasing
  have hKf : ((prefixSums 0 ls).zip ls).map Prod.fst = prefixSums 0 ls :=
    List.map_fst_zip (by rw [length_prefixSums]; exact Nat.le_refl _)
  have hLf : (c.offsets.zip c.lengths).map Prod.fst = c.offsets :=
    List.map_fst_zip (by rw [h.len]; exact Nat.le_refl _)
  have hKlt : (prefixSums 0 ls).Pairwise (· < ·) := by
    rw [← hKf, List.pairwise_map]; exact hK
  have hnd : c.offsets.Nodup := by
    have : (prefixSums 0 ls).Nodup := hKlt.imp (fun hab => Nat.ne_of_lt hab)
    have hpf := hp.map Prod.fst
    rw [hKf, hLf] at hpf
    exact hpf.nodup_iff.mpr this
  have hlt : c.offsets.Pairwise (· < ·) :=
    (hs.and hnd).imp (fun ⟨hle, hne⟩ => Nat.lt_of_le_of_ne hle hne)
  have hL : (c.offsets.zip c.lengths).Pairwise (fun p q => p.1 < q.1) := by
    have : ((c.offsets.zip c.lengths).map Prod.fst).Pairwise (· < ·) := by rw [hLf]; exact hlt
    exact List.pairwise_map.mp this
  have heq := List.Perm.eq_of_pairwise (le := fun (p q : Nat × Nat) => p.1 < q.1)
    (fun a b _ _ hab hba => absurd hab (Nat.lt_asymm hba)) hL hK hp
  have ho : c.offsets = prefixSums 0 ls := by rw [← hLf, heq, hKf]
  have hle : c.lengths = ls := by
    have := congrArg (List.map Prod.snd) heq
    rwa [List.map_snd_zip (by rw [h.len]; exact Nat.le_refl _),
      List.map_snd_zip (by rw [length_prefixSums]; exact Nat.le_refl _)] at this
  rw [ho, hle]
  exact contigFrom_prefixSums ls 0

/-- **`page()` as found, no empty value in the buffer**: the page handed out lists the row values -/
theorem BACol.pageFound_spec_of_nonempty {B : Type} {c : BACol B} (h : c.BInv) (hl : c.Laid)
    (hpos : ∀ l ∈ c.lengths, 0 < l) : c.pageFound.pageValues = c.view := by
  unfold BACol.pageFound
  cases hb : (decide (c.lengths.length > 0) && decide (orderOfNat (c.offsets ++ c.endOff.toList) < 1)) with
  | true => exact BACol.pageValues_rewrite h
  | false =>
    have hc : contigFrom 0 c.offsets c.lengths = true := by
      rcases Bool.and_eq_false_iff.mp hb with h0 | h1
      · have : c.lengths = [] := by
          cases hh : c.lengths with
          | nil => rfl
          | cons _ _ => rw [hh] at h0; simp at h0
        rw [this]; cases c.offsets <;> rfl
      · have hnd : nondecr (c.offsets ++ c.endOff.toList) = true := by
          have h1' : ¬ (orderOfNat (c.offsets ++ c.endOff.toList) < 1) := by simpa using h1
          cases hn : nondecr (c.offsets ++ c.endOff.toList) with
          | true => rfl
          | false =>
            exfalso
            apply h1'
            simp only [orderOfNat, hn, Bool.false_eq_true, if_false]
            split <;> (try split) <;> omega
        have := nondecr_pairwise _ hnd
        exact BACol.contig_of_sorted_offsets h hl hpos (List.pairwise_append.mp this).1
    simp only [BACol.pageWith, Bool.false_eq_true, if_false]
    exact BACol.pageValues_of_contig h hc

/-! ## histories through the code as found -/

structure BACol.Good {B : Type} (c : BACol B) : Prop where
  inv : c.BInv
  laid : c.Laid
  pos : ∀ l ∈ c.lengths, 0 < l

theorem BACol.stepFound_spec {B : Type} {c : BACol B} (h : c.Good) (op : BAOp B)
    (hne : ∀ v, op = .write v → v ≠ []) :
    (c.stepFound op).Good ∧ (c.stepFound op).view = baSpecStep c.view op := by
  cases op with
  | write v =>
    refine ⟨⟨BACol.binv_write h.inv v, BACol.laid_write h.inv h.laid v, ?_⟩, BACol.view_write h.inv v⟩
    intro l hm
    simp only [BACol.stepFound, BACol.write, List.mem_append, List.mem_singleton] at hm
    rcases hm with hm | rfl
    · exact h.pos l hm
    · exact List.length_pos_iff.mpr (hne v rfl)
  | swap i j =>
    refine ⟨⟨BACol.binv_swap h.inv i j, BACol.laid_swap h.inv h.laid i j, ?_⟩, BACol.view_swap h.inv i j⟩
    intro l hm
    exact h.pos l ((swapL_perm c.lengths i j).mem_iff.mp hm)
  | page =>
    obtain ⟨h1, h2, h3, h4⟩ := BACol.pageWith_spec h.inv h.laid
      (decide (c.lengths.length > 0) && decide (orderOfNat (c.offsets ++ c.endOff.toList) < 1))
    refine ⟨⟨h1, h3, ?_⟩, h2⟩
    intro l hm
    simp only [BACol.stepFound, BACol.pageFound] at hm
    rw [h4] at hm
    exact h.pos l hm

theorem BACol.runFound_spec {B : Type} (ops : List (BAOp B)) (hne : ∀ v, BAOp.write v ∈ ops → v ≠ []) :
    ∀ (c : BACol B), c.Good →
    (ops.foldl BACol.stepFound c).Good ∧ (ops.foldl BACol.stepFound c).view = ops.foldl baSpecStep c.view := by
  induction ops with
  | nil => intro c h; exact ⟨h, rfl⟩
  | cons op ops ih =>
    intro c h
    obtain ⟨h1, h2⟩ := BACol.stepFound_spec h op (fun v hv => hne v (by rw [hv]; exact List.mem_cons_self))
    have := ih (fun v hv => hne v (List.mem_cons_of_mem _ hv)) (c.stepFound op) h1
    simp only [List.foldl_cons]
    rw [h2] at this
    exact this

end PqModel.SortBuf
