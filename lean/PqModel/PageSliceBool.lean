import PqModel.PageSlice

/-! # `booleanPage.Slice`: the bit-offset arithmetic (C08)

The base page of a boolean column keeps its values bit-packed and slices without moving bits: the
sliced page shares the bytes from `(i + offset) / 8` on and remembers the bit `offset` of its first
value inside the first byte (page_boolean.go:104-122); `valueAt` adds the offset back
(page_boolean.go:50-55).

* MIRROR: `BoolPg`, `valueAt`, `sliceBool`, `dataBits` (`Data()`: the bytes as they are,
  page_boolean.go:41), `boolValues` (what `Values()` delivers: `valueAt 0 … numValues-1`,
  page_boolean.go:147-157).
* SPEC: `PageSlice.baseSlice` on the list of values; `packBits` = PLAIN bit-packing, LSB first. -/
namespace PqModel.PageSlice

structure BoolPg where
  bits : List Nat      -- bytes
  offset : Nat
  numValues : Nat
deriving DecidableEq, Repr

/-- MIRROR of `booleanPage.valueAt` (page_boolean.go:50-55); 1 = true -/
def valueAt (p : BoolPg) (i : Nat) : Nat :=
  (p.bits[(p.offset + i) / 8]?.getD 0 / 2 ^ ((p.offset + i) % 8)) % 2

/-- MIRROR of `booleanPage.Slice` (page_boolean.go:104-122) -/
def sliceBool (p : BoolPg) (i j : Nat) : BoolPg :=
  let low := i + p.offset
  let high := j + p.offset
  let off := low / 8
  let end_ := if high % 8 ≠ 0 then high / 8 + 1 else high / 8
  ⟨(p.bits.drop off).take (end_ - off), low % 8, j - i⟩

/-- MIRROR of `booleanPageValues.ReadValues` in total -/
def boolValues (p : BoolPg) : List Nat := (List.range p.numValues).map (valueAt p)

/-- MIRROR of `booleanPage.Data()`: the shared bytes, whatever the offset -/
def dataBits (p : BoolPg) : List Nat := p.bits

/-- the bytes cover the values -/
def BoolPg.WF (p : BoolPg) : Prop := p.offset + p.numValues ≤ 8 * p.bits.length

theorem valueAt_slice (p : BoolPg) (i j k : Nat) (hk : k < j - i) :
    valueAt (sliceBool p i j) k = valueAt p (i + k) := by
  unfold valueAt sliceBool
  simp only
  have hidx : (i + p.offset) / 8 + ((i + p.offset) % 8 + k) / 8 = (p.offset + (i + k)) / 8 := by omega
  have hbit : ((i + p.offset) % 8 + k) % 8 = (p.offset + (i + k)) % 8 := by omega
  have hlt : ((i + p.offset) % 8 + k) / 8 <
      (if (j + p.offset) % 8 ≠ 0 then (j + p.offset) / 8 + 1 else (j + p.offset) / 8) - (i + p.offset) / 8 := by
    split <;> omega
  rw [List.getElem?_take, if_pos hlt, List.getElem?_drop, hidx, hbit]

/-- **the values of `booleanPage.Slice(i, j)` are values `i..j-1`**, for every bit offset -/
theorem boolValues_slice (p : BoolPg) (i j : Nat) (hij : i ≤ j) (hj : j ≤ p.numValues) :
    boolValues (sliceBool p i j) = baseSlice (boolValues p) i j := by
  unfold boolValues baseSlice
  apply List.ext_getElem
  · simp [sliceBool]; omega
  · intro k h1 h2
    have hk : k < j - i := by simpa [sliceBool] using h1
    simp only [List.getElem_map, List.getElem_range, List.getElem_take, List.getElem_drop]
    exact valueAt_slice p i j k hk

/-- slicing keeps the page well-formed, with an offset below 8 -/
theorem sliceBool_wf (p : BoolPg) (h : p.WF) (i j : Nat) (hij : i ≤ j) (hj : j ≤ p.numValues) :
    (sliceBool p i j).WF ∧ (sliceBool p i j).offset < 8 := by
  unfold BoolPg.WF at *
  unfold sliceBool
  simp only [List.length_take, List.length_drop]
  refine ⟨?_, by omega⟩
  split <;> omega

/-- SPEC: PLAIN bit-packing of 0/1 values, least significant bit first -/
def packByte : List Nat → Nat
  | [] => 0
  | b :: bs => b % 2 + 2 * packByte bs

def packBits : Nat → List Nat → List Nat
  | 0, _ => []
  | fuel + 1, vs => if vs.isEmpty then [] else packByte (vs.take 8) :: packBits fuel (vs.drop 8)

end PqModel.PageSlice
