import PqModel.SortCmp

/-! # C10 model, part 7 — `byteArrayColumnBuffer` (`column_buffer_byte_array.go`)

The column buffer of BYTE_ARRAY leaves (strings, `[]byte`): required columns use it directly, the
optional and repeated buffers use it as their base column. It keeps the value bytes in one array and
describes value `i` by `offsets[i]` and `lengths[i]`; `Swap` exchanges offsets and lengths only, and
`page()` must hand out a `byteArrayPage`, which has NO lengths: value `i` of a page is
`values[offsets[i] : offsets[i+1]]`. So `page()` has to rewrite the bytes in row order whenever they
are not stored back to back in row order.

MIRROR: `BACol`, `write`, `swap`, `compactLoop`, `pageWith`, `page` (as repaired, 4d5196e),
`pageFound` (as found: the decision looked at the ORDER of the offsets only), `orderOfNat`,
`slices` (`byteArrayPage.index`). SPEC: `view` (the values row by row), `specStep`.

Representation: Go keeps the offsets in ONE slice that holds one entry per value and, from `page()`
until the next write (`trimOffsets`), the page's end offset as an extra last entry. The model keeps
that last entry apart (`endOff`), so that the per-value entries always line up with `lengths`. -/
namespace PqModel.SortBuf

/-- `vals[o : o+l]` -/
def slice {B : Type} (vals : List B) (o l : Nat) : List B := (vals.drop o).take l

structure BACol (B : Type) where
  values : List B
  offsets : List Nat
  endOff : Option Nat := none
  lengths : List Nat
deriving DecidableEq

def BACol.empty {B : Type} : BACol B := { values := [], offsets := [], endOff := none, lengths := [] }

/-- MIRROR `column_buffer_byte_array.go` `writeByteArray` (one value; `writeNull` is `v = []`, and
    `writeValues` / `writeByteArrays` do the same per element): `trimOffsets`, then the offset is
    the current end of the value bytes -/
def BACol.write {B : Type} (c : BACol B) (v : List B) : BACol B :=
  { values := c.values ++ v, offsets := c.offsets ++ [c.values.length], endOff := none,
    lengths := c.lengths ++ [v.length] }

/-- MIRROR `Swap`: `offsets.Swap(i, j); lengths.Swap(i, j)` (`i`, `j` are row indexes) -/
def BACol.swap {B : Type} (c : BACol B) (i j : Nat) : BACol B :=
  { c with offsets := swapL c.offsets i j, lengths := swapL c.lengths i j }

/-- SPEC: the value of every row (`index(i)` for every `i`) -/
def BACol.view {B : Type} (c : BACol B) : List (List B) :=
  (c.offsets.zip c.lengths).map fun p => slice c.values p.1 p.2

/-- MIRROR the loop of `page()`: `n := scratch.Len(); scratch.Append(index(i)...); offsets[i] = n` -/
def compactLoop {B : Type} (vals : List B) : List Nat → List Nat → List B → List Nat × List B
  | o :: os, l :: ls, sc =>
    let r := compactLoop vals os ls (sc ++ slice vals o l)
    (sc.length :: r.1, r.2)
  | _, _, sc => ([], sc)

/-- MIRROR `page()`: rewrite the values in row order if asked to, then leave the end offset behind -/
def BACol.pageWith {B : Type} (rewrite : Bool) (c : BACol B) : BACol B :=
  if rewrite then
    let r := compactLoop c.values c.offsets c.lengths []
    { values := r.2, offsets := r.1, endOff := some r.2.length, lengths := c.lengths }
  else { c with endOff := some c.values.length }

/-- MIRROR `byteArraysAreContiguous(offsets, lengths)`: the values are stored back to back in row
    order, starting at `e` -/
def contigFrom : Nat → List Nat → List Nat → Bool
  | _, _, [] => true
  | _, [], _ :: _ => false
  | e, o :: os, l :: ls => o == e && contigFrom (e + l) os ls

/-- MIRROR `page()` as repaired -/
def BACol.page {B : Type} (c : BACol B) : BACol B := c.pageWith (!contigFrom 0 c.offsets c.lengths)

def nondecr : List Nat → Bool
  | a :: b :: tl => decide (a ≤ b) && nondecr (b :: tl)
  | _ => true

def nonincr : List Nat → Bool
  | a :: b :: tl => decide (b ≤ a) && nonincr (b :: tl)
  | _ => true

/-- MIRROR `orderOfUint32` (`order_purego.go:14-42`; the assembly build computes the same
    function): +1 non-decreasing, -1 non-increasing, 0 neither or fewer than two elements -/
def orderOfNat (xs : List Nat) : Int :=
  if xs.length > 1 then (if nondecr xs then 1 else if nonincr xs then -1 else 0) else 0

/-- MIRROR `page()` AS FOUND: `if len(lengths) > 0 && orderOfUint32(offsets) < 1 { rewrite }`,
    the order being taken over the whole offsets slice (a stale end offset included) -/
def BACol.pageFound {B : Type} (c : BACol B) : BACol B :=
  c.pageWith (decide (c.lengths.length > 0) && decide (orderOfNat (c.offsets ++ c.endOff.toList) < 1))

/-- MIRROR `byteArrayPage.index(i) = values[offsets[i] : offsets[i+1]]` for every value of a page -/
def slices {B : Type} (vals : List B) : List Nat → List (List B)
  | a :: b :: tl => slice vals a (b - a) :: slices vals (b :: tl)
  | _ => []

/-- what a reader of the page handed out by `page()` sees -/
def BACol.pageValues {B : Type} (c : BACol B) : List (List B) := slices c.values (c.offsets ++ c.endOff.toList)

/-- the invariant: one offset per length, every value inside the byte array, no other bytes -/
structure BACol.BInv {B : Type} (c : BACol B) : Prop where
  len : c.offsets.length = c.lengths.length
  bnd : ∀ p ∈ c.offsets.zip c.lengths, p.1 + p.2 ≤ c.values.length
  tot : c.values.length = c.lengths.sum

/-! ## slices -/

theorem slice_length {B : Type} {vals : List B} {o l : Nat} (h : o + l ≤ vals.length) : (slice vals o l).length = l := by
  simp only [slice, List.length_take, List.length_drop]
  omega

theorem slice_append_left {B : Type} {vals : List B} (ext : List B) {o l : Nat} (h : o + l ≤ vals.length) :
    slice (vals ++ ext) o l = slice vals o l := by
  unfold slice
  rw [List.drop_append_of_le_length (by omega), List.take_append_of_le_length (by simp only [List.length_drop]; omega)]

theorem slice_mid {B : Type} (pre x post : List B) : slice (pre ++ x ++ post) pre.length x.length = x := by
  unfold slice
  rw [List.append_assoc, List.drop_left, List.take_left]

/-- offsets `e, e+l₀, e+l₀+l₁, …` -/
def prefixSums : Nat → List Nat → List Nat
  | _, [] => []
  | e, l :: ls => e :: prefixSums (e + l) ls

theorem length_prefixSums (ls : List Nat) : ∀ e, (prefixSums e ls).length = ls.length := by
  induction ls with
  | nil => intro e; rfl
  | cons l ls ih => intro e; simp [prefixSums, ih]

theorem contigFrom_prefixSums (ls : List Nat) : ∀ e, contigFrom e (prefixSums e ls) ls = true := by
  induction ls with
  | nil => intro e; rfl
  | cons l ls ih => intro e; simp [prefixSums, contigFrom, ih]

/-- values stored back to back are found again by their prefix-sum offsets -/
theorem view_of_flatten {B : Type} (xs : List (List B)) : ∀ (pre post : List B),
    ((prefixSums pre.length (xs.map List.length)).zip (xs.map List.length)).map
      (fun p => slice (pre ++ xs.flatten ++ post) p.1 p.2) = xs := by
  induction xs with
  | nil => intro pre post; rfl
  | cons x xs ih =>
    intro pre post
    simp only [List.map_cons, prefixSums, List.zip_cons_cons, List.flatten_cons]
    congr 1
    · rw [← List.append_assoc pre x, List.append_assoc (pre ++ x)]
      exact slice_mid pre x (xs.flatten ++ post)
    · have h := ih (pre ++ x) post
      rw [List.length_append] at h
      rw [← List.append_assoc pre x]
      exact h

/-- the rewrite loop of `page()`: the scratch buffer receives the values in row order, the offsets
    become the prefix sums of their lengths -/
theorem compactLoop_eq {B : Type} (vals : List B) : ∀ (os ls : List Nat) (sc : List B), os.length = ls.length →
    compactLoop vals os ls sc =
      (prefixSums sc.length (((os.zip ls).map fun p => slice vals p.1 p.2).map List.length),
       sc ++ ((os.zip ls).map fun p => slice vals p.1 p.2).flatten) := by
  intro os
  induction os with
  | nil => intro ls sc h; cases ls <;> simp_all [compactLoop, prefixSums]
  | cons o os ih =>
    intro ls sc h
    cases ls with
    | nil => simp at h
    | cons l ls =>
      simp only [List.length_cons, Nat.add_right_cancel_iff] at h
      simp only [compactLoop, ih ls _ h, List.zip_cons_cons, List.map_cons, prefixSums, List.flatten_cons,
        List.length_append, List.append_assoc]

theorem map_length_view {B : Type} (vals : List B) : ∀ (os ls : List Nat), os.length = ls.length →
    (∀ p ∈ os.zip ls, p.1 + p.2 ≤ vals.length) →
    ((os.zip ls).map fun p => slice vals p.1 p.2).map List.length = ls := by
  intro os
  induction os with
  | nil => intro ls h _; cases ls <;> simp_all
  | cons o os ih =>
    intro ls h hb
    cases ls with
    | nil => simp at h
    | cons l ls =>
      simp only [List.length_cons, Nat.add_right_cancel_iff] at h
      simp only [List.zip_cons_cons, List.map_cons]
      rw [slice_length (hb (o, l) (by simp)), ih ls h (fun p hp => hb p (by simp [hp]))]

/-- offsets that are contiguous from `e` stay below `e + Σ lengths` -/
theorem contig_bound : ∀ (ls os : List Nat) (e : Nat), contigFrom e os ls = true →
    ∀ p ∈ os.zip ls, p.1 + p.2 ≤ e + ls.sum := by
  intro ls
  induction ls with
  | nil => intro os e _ p hp; simp at hp
  | cons l ls ih =>
    intro os e hc p hp
    cases os with
    | nil => simp at hp
    | cons o os =>
      simp only [contigFrom, Bool.and_eq_true, beq_iff_eq] at hc
      simp only [List.zip_cons_cons, List.mem_cons] at hp
      simp only [List.sum_cons]
      rcases hp with rfl | hp
      · simp only; omega
      · have := ih os (e + l) hc.2 p hp
        omega

/-- the page of a contiguous layout lists the row values: `offsets[i+1] - offsets[i] = lengths[i]` -/
theorem slices_of_contig {B : Type} (vals : List B) : ∀ (ls os : List Nat) (e : Nat), os.length = ls.length →
    contigFrom e os ls = true →
    slices vals (os ++ [e + ls.sum]) = (os.zip ls).map (fun p => slice vals p.1 p.2) := by
  intro ls
  induction ls with
  | nil => intro os e h _; cases os <;> simp_all [slices]
  | cons l ls ih =>
    intro os e h hc
    cases os with
    | nil => simp at h
    | cons o os =>
      simp only [List.length_cons, Nat.add_right_cancel_iff] at h
      simp only [contigFrom, Bool.and_eq_true, beq_iff_eq] at hc
      obtain ⟨rfl, hc⟩ := hc
      have ih' := ih os (o + l) h hc
      have hs : o + (l :: ls).sum = o + l + ls.sum := by simp only [List.sum_cons]; omega
      rw [hs]
      cases os with
      | nil =>
        cases ls with
        | nil => simp [slices]
        | cons _ _ => simp at h
      | cons o' os' =>
        cases ls with
        | nil => simp at h
        | cons l' ls' =>
          simp only [contigFrom, Bool.and_eq_true, beq_iff_eq] at hc
          obtain ⟨rfl, _⟩ := hc
          simp only [List.cons_append, slices, List.zip_cons_cons, List.map_cons] at ih' ⊢
          rw [ih']
          simp

/-! ## the invariant and the view along write / Swap / page -/

theorem BACol.binv_empty {B : Type} : (BACol.empty : BACol B).BInv :=
  ⟨rfl, by intro p hp; simp [BACol.empty] at hp, rfl⟩

theorem BACol.binv_write {B : Type} {c : BACol B} (h : c.BInv) (v : List B) : (c.write v).BInv := by
  refine ⟨by simp [BACol.write, h.len], ?_, by simp [BACol.write, h.tot]⟩
  intro p hp
  simp only [BACol.write] at hp ⊢
  rw [List.zip_append h.len] at hp
  simp only [List.zip_cons_cons, List.zip_nil_right, List.mem_append, List.mem_singleton] at hp
  simp only [List.length_append]
  rcases hp with hp | rfl
  · have := h.bnd p hp; omega
  · simp

theorem BACol.view_write {B : Type} {c : BACol B} (h : c.BInv) (v : List B) : (c.write v).view = c.view ++ [v] := by
  simp only [BACol.view, BACol.write]
  rw [List.zip_append h.len, List.map_append]
  congr 1
  · apply List.map_congr_left
    intro p hp
    exact slice_append_left v (h.bnd p hp)
  · simp only [List.zip_cons_cons, List.zip_nil_right, List.map_cons, List.map_nil]
    have := slice_mid c.values v []
    simp only [List.append_nil] at this
    rw [this]

theorem BACol.binv_swap {B : Type} {c : BACol B} (h : c.BInv) (i j : Nat) : (c.swap i j).BInv := by
  refine ⟨by simp [BACol.swap, length_swapL, h.len], ?_, ?_⟩
  · intro p hp
    simp only [BACol.swap] at hp ⊢
    rw [zip_swapL h.len] at hp
    exact h.bnd p ((swapL_perm _ i j).mem_iff.mp hp)
  · simp only [BACol.swap]
    rw [h.tot]
    exact ((swapL_perm c.lengths i j).sum_nat).symm

theorem BACol.view_swap {B : Type} {c : BACol B} (h : c.BInv) (i j : Nat) : (c.swap i j).view = swapL c.view i j := by
  simp only [BACol.view, BACol.swap]
  rw [zip_swapL h.len, map_swapL]

/-- a contiguous layout: handing out the page needs no rewrite, and the page lists the row values -/
theorem BACol.pageValues_of_contig {B : Type} {c : BACol B} (h : c.BInv) (hc : contigFrom 0 c.offsets c.lengths = true) :
    ({ c with endOff := some c.values.length } : BACol B).pageValues = c.view := by
  simp only [BACol.pageValues, BACol.view, Option.toList]
  have := slices_of_contig c.values c.lengths c.offsets 0 h.len hc
  rw [Nat.zero_add, ← h.tot] at this
  exact this

/-- the state after the rewrite of `page()` -/
theorem BACol.rewrite_spec {B : Type} {c : BACol B} (h : c.BInv) :
    let c' := c.pageWith true
    c'.BInv ∧ c'.view = c.view ∧ contigFrom 0 c'.offsets c'.lengths = true ∧ c'.endOff = some c'.values.length := by
  have he := compactLoop_eq c.values c.offsets c.lengths [] h.len
  have hl := map_length_view c.values c.offsets c.lengths h.len h.bnd
  rw [hl] at he
  simp only [List.length_nil, List.nil_append] at he
  have hv : c.view = (c.offsets.zip c.lengths).map fun p => slice c.values p.1 p.2 := rfl
  rw [← hv] at he hl
  have hcontig := contigFrom_prefixSums c.lengths 0
  have htot : c.view.flatten.length = c.lengths.sum := by rw [List.length_flatten, hl]
  simp only [BACol.pageWith, if_true, he]
  refine ⟨⟨by simp [length_prefixSums], ?_, htot⟩, ?_, hcontig, trivial⟩
  · intro p hp
    have := contig_bound c.lengths _ 0 hcontig p hp
    simp only at this ⊢
    omega
  · have := view_of_flatten c.view [] []
    simp only [List.length_nil, List.nil_append, List.append_nil, hl] at this
    exact this

/-- `page()` (as repaired) under the invariant: the row values are unchanged, the invariant holds,
    and the page handed out lists the row values in row order -/
theorem BACol.page_spec {B : Type} {c : BACol B} (h : c.BInv) :
    c.page.BInv ∧ c.page.view = c.view ∧ c.page.pageValues = c.view := by
  unfold BACol.page
  cases hc : contigFrom 0 c.offsets c.lengths with
  | true =>
    simp only [Bool.not_true, BACol.pageWith, Bool.false_eq_true, if_false]
    exact ⟨⟨h.len, h.bnd, h.tot⟩, rfl, BACol.pageValues_of_contig h hc⟩
  | false =>
    simp only [Bool.not_false]
    obtain ⟨hi, hv, hcc, hend⟩ := BACol.rewrite_spec h
    refine ⟨hi, hv, ?_⟩
    have := BACol.pageValues_of_contig hi hcc
    rw [hv] at this
    rw [← this]
    congr 1

/-! ## histories -/

inductive BAOp (B : Type) where
  | write (v : List B)
  | swap (i j : Nat)
  | page
deriving DecidableEq

def BACol.step {B : Type} (c : BACol B) : BAOp B → BACol B
  | .write v => c.write v
  | .swap i j => c.swap i j
  | .page => c.page

def BACol.stepFound {B : Type} (c : BACol B) : BAOp B → BACol B
  | .write v => c.write v
  | .swap i j => c.swap i j
  | .page => c.pageFound

/-- SPEC: what the operations mean for the list of row values -/
def baSpecStep {B : Type} (xs : List (List B)) : BAOp B → List (List B)
  | .write v => xs ++ [v]
  | .swap i j => swapL xs i j
  | .page => xs

theorem BACol.step_spec {B : Type} {c : BACol B} (h : c.BInv) (op : BAOp B) :
    (c.step op).BInv ∧ (c.step op).view = baSpecStep c.view op := by
  cases op with
  | write v => exact ⟨BACol.binv_write h v, BACol.view_write h v⟩
  | swap i j => exact ⟨BACol.binv_swap h i j, BACol.view_swap h i j⟩
  | page => exact ⟨(BACol.page_spec h).1, (BACol.page_spec h).2.1⟩

theorem BACol.run_spec {B : Type} (ops : List (BAOp B)) : ∀ (c : BACol B), c.BInv →
    (ops.foldl BACol.step c).BInv ∧ (ops.foldl BACol.step c).view = ops.foldl baSpecStep c.view := by
  induction ops with
  | nil => intro c h; exact ⟨h, rfl⟩
  | cons op ops ih =>
    intro c h
    obtain ⟨h1, h2⟩ := BACol.step_spec h op
    have := ih (c.step op) h1
    simp only [List.foldl_cons]
    rw [h2] at this
    exact this

end PqModel.SortBuf
