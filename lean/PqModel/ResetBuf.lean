import PqModel.SortRep

/-! # C17 model — the Buffer side of reuse: column buffers with their scratch state across `Reset`

The C10 models (`SortBuf.OptCol`, `SortBuf.RepCol`) describe ONE generation of an
`optionalColumnBuffer` / `repeatedColumnBuffer`: the arrays that hold the rows. This file adds what
survives `Reset()` and is therefore the subject of C17 on the Buffer side:

* `optionalColumnBuffer` (`column_buffer_optional.go`): `Reset` (126-130) empties `base`, `rows`,
  `definitionLevels`; it does NOT touch `reordered` (a `Swap` followed by `Reset` leaves it `true`)
  and does NOT touch `sortIndex` (length, capacity and content stay what the last reordering `Page()`
  left). `Size()` (132-134) counts `4*len(sortIndex)`.
* `repeatedColumnBuffer` (`column_buffer_repeated.go`): `Reset` (170-175) empties `base`, `rows` and
  the two level arrays; `reordered`, the spare buffer `reordering` (a whole second set of arrays)
  and the `buffer []Value` scratch stay.

MIRROR parts carry the Go `file:line`. The memory a re-extended `sortIndex` shows (elements between
the old and new length, or a pooled array) is an argument of the `page` operation (`junk`): the
theorems hold for every content. SPEC: `absStep` (a buffer is the list of its rows). -/
namespace PqModel.ResetBuf
open PqModel.SortBuf

/-! ## optional column buffer -/

/-- MIRROR `column_buffer_optional.go:22-30`: the C10 arrays + `sortIndex[:len]` -/
structure OptBuf (V : Type) where
  col : OptCol V
  sortIdx : List Nat := []
deriving DecidableEq

/-- `newOptionalColumnBuffer` (32-38) -/
def OptBuf.fresh {V : Type} : OptBuf V := { col := OptCol.empty }

/-- one call on the buffer. `page junk`: `Page()` where the memory under the resized `sortIndex`
    reads `junk` (padded with zeros / cut to the length needed) -/
inductive BOp (V : Type) where
  | write (op : WOp V)
  | swap (i j : Nat)
  | page (junk : List Nat)
  | reset

/-- what `sortIndex.Resize(n)` / `SliceBufferFor(n)` shows before it is filled (92-95) -/
def fit (junk : List Nat) (n : Nat) : List Nat := (junk ++ List.replicate n 0).take n

theorem length_fit (junk : List Nat) (n : Nat) : (fit junk n).length = n := by
  simp [fit]

/-- MIRROR `column_buffer_optional.go:86-109`: both results of the cyclic sort, the permuted base
    column and the `sortIndex` it leaves behind, starting from a dirty `sortIndex` -/
def pageSort {V : Type} (m : Nat) (c : OptCol V) (old junk : List Nat) : List Nat × List V :=
  let numNulls := (c.defs.filter (· != m)).length
  let numValues := c.rows.length - numNulls
  if numValues > 0 then
    outerL numValues numValues (buildIdx c.rows 0 (fit junk numValues), c.base)
  else (old, c.base)

/-- MIRROR `column_buffer_optional.go:83-124` `Page()` with the scratch index kept -/
def OptBuf.page {V : Type} (m : Nat) (b : OptBuf V) (junk : List Nat) : OptBuf V :=
  if b.col.reordered then
    let r := pageSort m b.col b.sortIdx junk
    { col := { base := r.2, rows := renum b.col.rows 0, defs := b.col.defs, reordered := false }, sortIdx := r.1 }
  else b

/-- MIRROR `column_buffer_optional.go:126-130` `Reset()`: `base.Reset(); rows.Resize(0);
    definitionLevels.Resize(0)` — `reordered` and `sortIndex` are not touched -/
def OptBuf.reset {V : Type} (b : OptBuf V) : OptBuf V :=
  { b with col := { base := [], rows := [], defs := [], reordered := b.col.reordered } }

/-- `Reset()` with the scratch state cleared too (not the library's code: the comparison point of
    `Props/C17Buf.lean`) -/
def OptBuf.resetFull {V : Type} (_ : OptBuf V) : OptBuf V := OptBuf.fresh

/-- the row index kernel is `rangeFrom` (`broadcastRangeInt32`; C10 `kernelOf_asm/_scalar` prove the
    two builds' kernels equal to it below 2^31 rows) -/
def OptBuf.step {V : Type} (m : Nat) (b : OptBuf V) : BOp V → OptBuf V
  | .write op => { b with col := b.col.write rangeFrom m op }
  | .swap i j => { b with col := b.col.swap i j }
  | .page junk => b.page m junk
  | .reset => b.reset

def OptBuf.run {V : Type} (m : Nat) (b : OptBuf V) (ops : List (BOp V)) : OptBuf V := ops.foldl (OptBuf.step m) b

/-- MIRROR `column_buffer_optional.go:132-134` `Size()`, `w` = bytes per value of the base column -/
def OptBuf.size {V : Type} (w : Nat) (b : OptBuf V) : Nat :=
  4 * b.col.rows.length + 4 * b.sortIdx.length + b.col.defs.length + w * b.col.base.length

/-- `Len()` (138) -/
def OptBuf.len {V : Type} (b : OptBuf V) : Nat := b.col.rows.length

/-- what `Page()` hands to `newOptionalPage` (123): the base column's values and the levels -/
def OptBuf.pageOut {V : Type} (m : Nat) (b : OptBuf V) (junk : List Nat) : List V × List Nat :=
  ((b.page m junk).col.base, (b.page m junk).col.defs)

/-- an operation the API can perform: nulls carry a level below the maximum and a negative mark -/
def BOp.WF {V : Type} (m : Nat) : BOp V → Prop
  | .write (.nulls d _ mark) => d ≠ m ∧ mark < 0
  | _ => True

/-- SPEC: a buffer is the list of its rows -/
def absStep {V : Type} (m : Nat) (v : List (Cell V)) : BOp V → List (Cell V)
  | .write op => v ++ op.cells m
  | .swap i j => swapL v i j
  | .page _ => v
  | .reset => []

def absRun {V : Type} (m : Nat) (v : List (Cell V)) (ops : List (BOp V)) : List (Cell V) := ops.foldl (absStep m) v

/-! ### lemmas -/

/-- the index `Page()` builds does not depend on what the memory held before: every slot is stored -/
theorem buildIdx_junk {rows : List Int} {n : Nat} (hp : (nn rows).Perm (List.range n))
    (a b : List Nat) (ha : a.length = n) (hb : b.length = n) : buildIdx rows 0 a = buildIdx rows 0 b := by
  have hnd : (nn rows).Nodup := hp.nodup_iff.mpr List.nodup_range
  have hlt : ∀ x ∈ nn rows, x < n := fun x hx => List.mem_range.mp (hp.mem_iff.mp hx)
  obtain ⟨la, sa, _⟩ := buildIdx_spec rows 0 a hnd (fun x hx => by rw [ha]; exact hlt x hx)
  obtain ⟨lb, sb, _⟩ := buildIdx_spec rows 0 b hnd (fun x hx => by rw [hb]; exact hlt x hx)
  apply List.ext_getElem?
  intro x
  by_cases hx : x < n
  · have hmem : x ∈ nn rows := hp.mem_iff.mpr (List.mem_range.mpr hx)
    obtain ⟨k, hk⟩ := List.mem_iff_getElem?.mp hmem
    rw [sa k x hk, sb k x hk]
  · rw [List.getElem?_eq_none (by omega), List.getElem?_eq_none (by omega)]

theorem pageSort_base {V : Type} {m : Nat} {c : OptCol V} (h : c.Inv m) (old junk : List Nat) :
    (pageSort m c old junk).2 = pageBase m c := by
  have hn := h.numValues
  unfold pageSort pageBase
  simp only [hn]
  split
  · rw [buildIdx_junk h.perm (fit junk c.base.length) (List.replicate c.base.length 0)
      (length_fit _ _) List.length_replicate]
  · rfl

/-- the mirror's `Page()` is the C10 `Page()` on the arrays, whatever the scratch index held -/
theorem OptBuf.page_col {V : Type} {m : Nat} {b : OptBuf V} (h : b.col.Inv m) (junk : List Nat) :
    (b.page m junk).col = b.col.page m := by
  unfold OptBuf.page OptCol.page
  split
  · simp only [pageSort_base h]
  · rfl

theorem OptBuf.reset_inv {V : Type} (m : Nat) (b : OptBuf V) : b.reset.col.Inv m ∧ b.reset.col.view = [] := by
  refine ⟨⟨rfl, ?_, ?_, ?_⟩, rfl⟩
  · simp [OptBuf.reset, nn]
  · intro p hp; simp [OptBuf.reset] at hp
  · intro _; simp [OptBuf.reset, nn]

/-- one call refines the abstract step and keeps the C10 invariant -/
theorem OptBuf.step_refines {V : Type} {m : Nat} {b : OptBuf V} (h : b.col.Inv m) (op : BOp V) (hw : op.WF m) :
    (b.step m op).col.Inv m ∧ (b.step m op).col.view = absStep m b.col.view op := by
  cases op with
  | write w =>
    cases w with
    | nulls d n mark =>
      obtain ⟨hd, hm⟩ := hw
      refine ⟨OptCol.Inv.write_nulls rangeFrom h hd n hm, ?_⟩
      exact OptCol.view_write h _ (fun _ _ _ e => by cases e; exact hm) (fun _ e => by cases e)
    | vals vs =>
      refine ⟨OptCol.Inv.write_vals h vs rfl, ?_⟩
      exact OptCol.view_write h _ (fun _ _ _ e => by cases e) (fun _ _ => rfl)
  | swap i j => exact ⟨h.swap i j, OptCol.view_swap h i j⟩
  | page junk =>
    obtain ⟨p1, _, p3, _⟩ := OptCol.page_spec h
    simp only [OptBuf.step, OptBuf.page_col h, absStep]
    exact ⟨p1, p3⟩
  | reset => exact b.reset_inv m

theorem OptBuf.run_refines {V : Type} {m : Nat} : ∀ (ops : List (BOp V)) (b : OptBuf V), b.col.Inv m → (∀ op ∈ ops, op.WF m) →
    (b.run m ops).col.Inv m ∧ (b.run m ops).col.view = absRun m b.col.view ops
  | [], _, h, _ => ⟨h, rfl⟩
  | op :: ops, b, h, hw => by
    obtain ⟨i1, v1⟩ := OptBuf.step_refines h op (hw op (List.mem_cons_self ..))
    obtain ⟨i2, v2⟩ := OptBuf.run_refines ops (b.step m op) i1 (fun o ho => hw o (List.mem_cons_of_mem _ ho))
    refine ⟨i2, ?_⟩
    show ((b.step m op).run m ops).col.view = absRun m (absStep m b.col.view op) ops
    rw [v2, v1]

/-- the values a list of rows holds, in row order -/
def cellVals {V : Type} (v : List (Cell V)) : List V := v.filterMap (·.2)

theorem view_vals_levels {V : Type} {m : Nat} : ∀ (rows : List Int) (defs : List Nat) (base : List V),
    rows.length = defs.length → (∀ k ∈ nn rows, k < base.length) →
    ((rows.zip defs).map (fun p => cellOf base p.1 p.2)).map (·.1) = defs ∧
    (((rows.zip defs).map (fun p => cellOf base p.1 p.2)).filterMap (·.2)).map some = (nn rows).map (fun (k : Nat) => base[k]?)
  | [], [], _, _, _ => ⟨rfl, rfl⟩
  | [], _ :: _, _, h, _ => by simp at h
  | _ :: _, [], _, h, _ => by simp at h
  | r :: rs, d :: ds, base, h, hk => by
    have hl : rs.length = ds.length := by simpa using h
    by_cases h0 : 0 ≤ r
    · have hk' : ∀ k ∈ nn rs, k < base.length := fun k hx => hk k (by rw [nn_cons_nonneg rs h0]; exact List.mem_cons_of_mem _ hx)
      obtain ⟨a, b⟩ := view_vals_levels (m := m) rs ds base hl hk'
      have hr : r.toNat < base.length := hk _ (by rw [nn_cons_nonneg rs h0]; exact List.mem_cons_self ..)
      have hc : cellOf base r d = (d, some base[r.toNat]) := by
        simp [cellOf, h0, List.getElem?_eq_getElem hr]
      rw [nn_cons_nonneg rs h0]
      simp only [List.zip_cons_cons, List.map_cons, hc, List.getElem?_eq_getElem hr]
      refine ⟨by rw [a], ?_⟩
      show List.map some (base[r.toNat] :: List.filterMap _ _) = _
      rw [List.map_cons, b]
    · have hk' : ∀ k ∈ nn rs, k < base.length := fun k hx => hk k (by rw [nn_cons_neg rs h0]; exact hx)
      obtain ⟨a, b⟩ := view_vals_levels (m := m) rs ds base hl hk'
      have hc : cellOf base r d = (d, none) := by simp [cellOf, h0]
      rw [nn_cons_neg rs h0]
      simp only [List.zip_cons_cons, List.map_cons, hc]
      refine ⟨by rw [a], ?_⟩
      exact b

/-- what `Page()` hands out is a function of the rows held: the non-null values in row order and
    the definition levels in row order — for every stale `reordered` flag and scratch index -/
theorem OptBuf.pageOut_spec {V : Type} {m : Nat} {b : OptBuf V} (h : b.col.Inv m) (junk : List Nat) :
    b.pageOut m junk = (cellVals b.col.view, b.col.view.map (·.1)) := by
  obtain ⟨_, _, _, p4, _, p6⟩ := OptCol.page_spec h
  have hmem : ∀ k ∈ nn b.col.rows, k < b.col.base.length := fun k hk => List.mem_range.mp (h.perm.mem_iff.mp hk)
  obtain ⟨a, c⟩ := view_vals_levels (m := m) b.col.rows b.col.defs b.col.base h.len hmem
  unfold OptBuf.pageOut
  rw [OptBuf.page_col h, p4]
  have e1 : (b.col.page m).base = cellVals b.col.view := by
    have : (b.col.page m).base.map some = (cellVals b.col.view).map some := by
      rw [p6]; exact c.symm
    simpa [List.filterMap_map] using congrArg (List.filterMap id) this
  rw [e1]
  exact congrArg _ a.symm

/-! ## repeated column buffer -/

/-- MIRROR `column_buffer_repeated.go:26-37`: the C10 arrays + the arrays of `col.reordering`
    (`none` = nil). `buffer []Value` is cleared by every function that fills it (110-112, 219-222)
    and holds no state between calls. -/
structure RepBuf (V : Type) where
  col : RepCol V
  spare : Option (RepCol V) := none
deriving DecidableEq

def RepBuf.fresh {V : Type} : RepBuf V := { col := RepCol.empty }

inductive ROp (V : Type) where
  | write (row : List (RCell V))
  | swap (i j : Nat)
  | page
  | reset

/-- MIRROR `column_buffer_repeated.go:101-163` `Page()`: `reordering` is cloned on first use (103-105),
    `Reset()` (108), filled row by row (118-150: `RepCol.page`), then `swapReorderingBuffer` (152,
    165-170) leaves the old arrays in the spare buffer -/
def RepBuf.page {V : Type} (m : Nat) (b : RepBuf V) : RepBuf V :=
  if b.col.reordered then { col := b.col.page m, spare := some b.col } else b

/-- MIRROR `column_buffer_repeated.go:172-177` `Reset()`: `reordered` and `reordering` stay -/
def RepBuf.reset {V : Type} (b : RepBuf V) : RepBuf V :=
  { b with col := { base := [], rows := [], lv := [], reordered := b.col.reordered } }

def RepBuf.step {V : Type} (m : Nat) (b : RepBuf V) : ROp V → RepBuf V
  | .write row => { b with col := b.col.writeRow row }
  | .swap i j => { b with col := b.col.swap i j }
  | .page => b.page m
  | .reset => b.reset

def RepBuf.run {V : Type} (m : Nat) (b : RepBuf V) (ops : List (ROp V)) : RepBuf V := ops.foldl (RepBuf.step m) b

/-- MIRROR `column_buffer_repeated.go:179-181` `Size()` -/
def RepBuf.size {V : Type} (w : Nat) (b : RepBuf V) : Nat :=
  8 * b.col.rows.length + b.col.lv.length + b.col.lv.length + w * b.col.base.length

def RepBuf.len {V : Type} (b : RepBuf V) : Nat := b.col.rows.length

/-- what `Page()` hands to `newRepeatedPage` (155-161): base values, level pairs -/
def RepBuf.pageOut {V : Type} (m : Nat) (b : RepBuf V) : List V × List (Nat × Nat) :=
  ((b.page m).col.base, (b.page m).col.lv)

def ROp.WF {V : Type} (m : Nat) : ROp V → Prop
  | .write row => RowWF m row
  | _ => True

def rabsStep {V : Type} (v : List (List (RCell V))) : ROp V → List (List (RCell V))
  | .write row => v ++ [row]
  | .swap i j => swapL v i j
  | .page => v
  | .reset => []

def rabsRun {V : Type} (v : List (List (RCell V))) (ops : List (ROp V)) : List (List (RCell V)) := ops.foldl rabsStep v

/-- C17 invariant of the repeated buffer: the C10 invariant and, while no `Swap` is pending, the
    arrays list the rows in row order (that is what `Page()` hands out without rewriting) -/
def RepBuf.BInv {V : Type} (m : Nat) (b : RepBuf V) : Prop :=
  b.col.RInv m ∧ (b.col.reordered = false →
    b.col.lv = (b.col.view m).flatten.map (fun x => (x.1, x.2.1)) ∧
    b.col.base = (b.col.view m).flatten.filterMap (fun x => x.2.2))

theorem RepBuf.reset_inv {V : Type} (m : Nat) (b : RepBuf V) : b.reset.BInv m ∧ b.reset.col.view m = [] := by
  refine ⟨⟨?_, ?_⟩, rfl⟩
  · intro p hp; simp [RepBuf.reset] at hp
  · intro _; simp [RepBuf.reset, RepCol.view]

theorem RepBuf.fresh_inv {V : Type} (m : Nat) : (RepBuf.fresh : RepBuf V).BInv m :=
  ⟨RepCol.RInv.empty m, fun _ => by simp [RepBuf.fresh, RepCol.empty, RepCol.view]⟩

theorem RepBuf.step_refines {V : Type} {m : Nat} {b : RepBuf V} (h : b.BInv m) (op : ROp V) (hw : op.WF m) :
    (b.step m op).BInv m ∧ (b.step m op).col.view m = rabsStep (b.col.view m) op := by
  cases op with
  | write row =>
    obtain ⟨v1, i1⟩ := RepCol.view_writeRow h.1 hw
    have e : b.step m (.write row) = { b with col := b.col.writeRow row } := rfl
    rw [e]
    refine ⟨⟨i1, ?_⟩, v1⟩
    intro hr
    have hr0 : b.col.reordered = false := hr
    obtain ⟨a, c⟩ := h.2 hr0
    show (b.col.writeRow row).lv = List.map _ (RepCol.view m (b.col.writeRow row)).flatten ∧
      (b.col.writeRow row).base = List.filterMap _ (RepCol.view m (b.col.writeRow row)).flatten
    rw [v1]
    constructor
    · show b.col.lv ++ _ = _
      rw [a]; simp
    · show b.col.base ++ _ = _
      rw [c]; simp
  | swap i j =>
    refine ⟨⟨h.1.swap i j, fun hr => ?_⟩, RepCol.view_swap m b.col i j⟩
    simp [RepBuf.step, RepCol.swap] at hr
  | page =>
    obtain ⟨p1, p2, p3, p4⟩ := RepCol.page_spec h.1
    by_cases hr : b.col.reordered = true
    · have e : b.step m .page = { col := b.col.page m, spare := some b.col } := by
        simp [RepBuf.step, RepBuf.page, hr]
      rw [e]
      refine ⟨⟨p1, fun _ => ?_⟩, p2⟩
      show (b.col.page m).lv = _ ∧ (b.col.page m).base = _
      rw [p2]; exact p4 hr
    · have e : b.step m .page = b := by simp [RepBuf.step, RepBuf.page, hr]
      rw [e]; exact ⟨h, rfl⟩
  | reset => exact b.reset_inv m

theorem RepBuf.run_refines {V : Type} {m : Nat} : ∀ (ops : List (ROp V)) (b : RepBuf V), b.BInv m → (∀ op ∈ ops, op.WF m) →
    (b.run m ops).BInv m ∧ (b.run m ops).col.view m = rabsRun (b.col.view m) ops
  | [], _, h, _ => ⟨h, rfl⟩
  | op :: ops, b, h, hw => by
    obtain ⟨i1, v1⟩ := RepBuf.step_refines h op (hw op (List.mem_cons_self ..))
    obtain ⟨i2, v2⟩ := RepBuf.run_refines ops (b.step m op) i1 (fun o ho => hw o (List.mem_cons_of_mem _ ho))
    refine ⟨i2, ?_⟩
    show ((b.step m op).run m ops).col.view m = rabsRun (rabsStep (b.col.view m) op) ops
    rw [v2, v1]

/-- what `Page()` hands out is a function of the rows held — whether the rewrite runs (a pending or
    a stale `reordered`) or not, and whatever the spare buffer holds -/
theorem RepBuf.pageOut_spec {V : Type} {m : Nat} {b : RepBuf V} (h : b.BInv m) :
    b.pageOut m = ((b.col.view m).flatten.filterMap (fun x => x.2.2), (b.col.view m).flatten.map (fun x => (x.1, x.2.1))) := by
  have hs := (RepBuf.step_refines h .page trivial)
  have e : b.step m .page = b.page m := rfl
  rw [e] at hs
  obtain ⟨⟨_, i2⟩, v⟩ := hs
  obtain ⟨_, _, p3, _⟩ := RepCol.page_spec h.1
  have hr : (b.page m).col.reordered = false := by
    unfold RepBuf.page
    split
    · exact p3
    · next hn => simpa using hn
  obtain ⟨a, c⟩ := i2 hr
  have v' : (b.page m).col.view m = b.col.view m := v
  unfold RepBuf.pageOut
  rw [show (b.page m).col.base = _ from c, show (b.page m).col.lv = _ from a, v']

/-! ### coverage and `Size()` of the repeated buffer -/

/-- coverage (lengths): every level slot and every base value belongs to exactly one row -/
def RepBuf.Cov {V : Type} (m : Nat) (b : RepBuf V) : Prop :=
  b.col.lv.length = (b.col.view m).flatten.length ∧
  b.col.base.length = ((b.col.view m).flatten.filterMap (fun x => x.2.2)).length

theorem RepBuf.reset_cov {V : Type} (m : Nat) (b : RepBuf V) : b.reset.Cov m := by
  simp [RepBuf.Cov, RepBuf.reset, RepCol.view]

theorem RepBuf.fresh_cov {V : Type} (m : Nat) : (RepBuf.fresh : RepBuf V).Cov m := by
  simp [RepBuf.Cov, RepBuf.fresh, RepCol.empty, RepCol.view]

theorem RepBuf.step_cov {V : Type} {m : Nat} {b : RepBuf V} (h : b.BInv m) (hc : b.Cov m) (op : ROp V) (hw : op.WF m) :
    (b.step m op).Cov m := by
  obtain ⟨i1, v⟩ := RepBuf.step_refines h op hw
  obtain ⟨c1, c2⟩ := hc
  cases op with
  | write row =>
    unfold RepBuf.Cov
    rw [v]
    show (b.col.writeRow row).lv.length = (b.col.view m ++ [row]).flatten.length ∧
      (b.col.writeRow row).base.length = ((b.col.view m ++ [row]).flatten.filterMap (fun x => x.2.2)).length
    simp only [RepCol.writeRow, List.flatten_append, List.flatten_cons, List.flatten_nil, List.append_nil,
      List.length_append, List.length_map, List.filterMap_append]
    omega
  | swap i j =>
    unfold RepBuf.Cov
    rw [v]
    have p := swapL_perm (b.col.view m) i j
    show b.col.lv.length = (swapL (b.col.view m) i j).flatten.length ∧
      b.col.base.length = ((swapL (b.col.view m) i j).flatten.filterMap (fun x => x.2.2)).length
    rw [p.flatten.length_eq, (p.flatten.filterMap _).length_eq]
    exact ⟨c1, c2⟩
  | page =>
    have hr : (b.step m .page).col.reordered = false := by
      show (b.page m).col.reordered = false
      obtain ⟨_, _, p3, _⟩ := RepCol.page_spec h.1
      unfold RepBuf.page
      split
      · exact p3
      · next hn => simpa using hn
    obtain ⟨a, c⟩ := i1.2 hr
    exact ⟨by rw [a, List.length_map], by rw [c]⟩
  | reset => exact b.reset_cov m

theorem RepBuf.run_cov {V : Type} {m : Nat} : ∀ (ops : List (ROp V)) (b : RepBuf V), b.BInv m → b.Cov m → (∀ op ∈ ops, op.WF m) →
    (b.run m ops).Cov m
  | [], _, _, hc, _ => hc
  | op :: ops, b, h, hc, hw => by
    have hop := hw op (List.mem_cons_self ..)
    exact RepBuf.run_cov ops (b.step m op) (RepBuf.step_refines h op hop).1 (RepBuf.step_cov h hc op hop)
      (fun o ho => hw o (List.mem_cons_of_mem _ ho))

/-- `Size()` of the repeated buffer is a function of the rows held -/
theorem RepBuf.size_spec {V : Type} {m : Nat} {b : RepBuf V} (hc : b.Cov m) (w : Nat) :
    b.size w = 8 * (b.col.view m).length + 2 * (b.col.view m).flatten.length +
      w * ((b.col.view m).flatten.filterMap (fun x => x.2.2)).length := by
  obtain ⟨c1, c2⟩ := hc
  unfold RepBuf.size
  rw [c1, c2]
  simp only [RepCol.view, List.length_map]
  omega

end PqModel.ResetBuf
