import PqModel.ConvertAdded

/-! C12, added columns, whole rows: for targets that add fields in groups whose closest leaf
    sibling is required (or that have no leaf sibling and sit at definition level 0) the mirror of
    `convert.go` yields, as Parquet streams (`canon`), the shredded projection. -/
namespace PqModel.Convert
open PqModel.Dremel

/-! ### the closest leaf sibling is a fixed column of the group's block -/

def pick (blk : Cols) : Nat × Nat × Rp → Nat × List Triple := fun p => (p.1, (blk.drop p.2.1).headD [])

theorem closestLeaf_eq (blk : Cols) : ∀ (fs : PFields) (off : Nat) (best : Option (Nat × Nat × Rp)),
    closestLeaf fs (blk.drop off) (best.map (pick blk)) = (closestOff fs off best).map (pick blk)
  | .nil, _, _ => rfl
  | .cons nm rp n fs, off, best => by
    cases n with
    | leaf =>
      simp only [closestLeaf, closestOff, List.drop_drop]
      cases best with
      | none =>
        have h := closestLeaf_eq blk fs (off + 1) (some (nm, off, rp))
        simpa [pick] using h
      | some p =>
        obtain ⟨bn, bo, brp⟩ := p
        by_cases hlt : nm < bn
        · have h := closestLeaf_eq blk fs (off + 1) (some (nm, off, rp))
          simpa [pick, hlt] using h
        · have h := closestLeaf_eq blk fs (off + 1) (some (bn, bo, brp))
          simpa [pick, hlt] using h
    | group gfs =>
      simp only [closestLeaf, closestOff, List.drop_drop]
      exact closestLeaf_eq blk fs _ best

theorem closest_col (sfs : PFields) (blk : Cols) :
    (closestLeaf sfs blk none).map (·.2) = (closestOff sfs 0 none).map (fun p => (blk.drop p.2.1).headD []) := by
  have h := closestLeaf_eq blk sfs 0 none
  simp only [List.drop_zero, Option.map_none] at h
  rw [h]
  cases closestOff sfs 0 none <;> simp [pick]

/-- the field list has a direct leaf child with repetition type `rp` at column offset `o` -/
def LeafAt : PFields → Nat → Rp → Prop
  | .nil, _, _ => False
  | .cons _ rp n fs, o, rp' =>
    (n = .leaf ∧ o = 0 ∧ rp' = rp) ∨ (leavesP n ≤ o ∧ LeafAt fs (o - leavesP n) rp')

theorem closestOff_sound : ∀ (fs : PFields) (off : Nat) (best : Option (Nat × Nat × Rp)) (n o : Nat) (rp : Rp),
    closestOff fs off best = some (n, o, rp) → best = some (n, o, rp) ∨ (off ≤ o ∧ LeafAt fs (o - off) rp)
  | .nil, _, _, _, _, _, h => Or.inl h
  | .cons nm rp' nd fs, off, best, n, o, rp, h => by
    cases nd with
    | leaf =>
      simp only [closestOff] at h
      rcases closestOff_sound fs (off + 1) _ n o rp h with h1 | ⟨h1, h2⟩
      · cases best with
        | none =>
          simp only [Option.some.injEq, Prod.mk.injEq] at h1
          obtain ⟨rfl, rfl, rfl⟩ := h1
          exact Or.inr ⟨Nat.le_refl _, Or.inl ⟨rfl, by omega, rfl⟩⟩
        | some p =>
          obtain ⟨bn, bo, brp⟩ := p
          simp only at h1
          split at h1
          · simp only [Option.some.injEq, Prod.mk.injEq] at h1
            obtain ⟨rfl, rfl, rfl⟩ := h1
            exact Or.inr ⟨Nat.le_refl _, Or.inl ⟨rfl, by omega, rfl⟩⟩
          · exact Or.inl h1
      · refine Or.inr ⟨by omega, Or.inr ⟨by simp [leavesP, eraseN, leavesN]; omega, ?_⟩⟩
        have : o - off - leavesP .leaf = o - (off + 1) := by simp [leavesP, eraseN, leavesN]; omega
        rw [this]; exact h2
    | group gfs =>
      simp only [closestOff] at h
      rcases closestOff_sound fs _ best n o rp h with h1 | ⟨h1, h2⟩
      · exact Or.inl h1
      · refine Or.inr ⟨by omega, Or.inr ⟨by omega, ?_⟩⟩
        have : o - off - leavesP (.group gfs) = o - (off + leavesP (.group gfs)) := by omega
        rw [this]; exact h2

theorem leafAt_lt : ∀ (fs : PFields) (o : Nat) (rp : Rp), LeafAt fs o rp → o < leavesF (eraseF fs)
  | .nil, _, _, h => by simp [LeafAt] at h
  | .cons nm rp' n fs, o, rp, h => by
    rw [leavesF_cons]
    rcases h with ⟨rfl, rfl, _⟩ | ⟨h1, h2⟩
    · simp [leavesP, eraseN, leavesN]; omega
    · have := leafAt_lt fs _ rp h2
      omega

theorem headD_drop_append {A B : Cols} {o : Nat} (h : A.length ≤ o) :
    ((A ++ B).drop o).headD [] = (B.drop (o - A.length)).headD [] := by
  obtain ⟨j, rfl⟩ : ∃ j, o = A.length + j := ⟨o - A.length, by omega⟩
  simp [List.drop_append]

theorem leafAt_absent (r d : Nat) : ∀ (fs : PFields) (o : Nat) (rp : Rp), LeafAt fs o rp →
    ((absentF (eraseF fs) r d).drop o).headD [] = [⟨none, r, d⟩]
  | .nil, _, _, h => by simp [LeafAt] at h
  | .cons nm rp' n fs, o, rp, h => by
    simp only [eraseF, absentF, absent_wrap]
    rcases h with ⟨rfl, rfl, _⟩ | ⟨h1, h2⟩
    · simp [eraseN, absentN]
    · have hl : (absentN (eraseN n) r d).length = leavesP n := absentN_length _ _ _
      rw [headD_drop_append (by omega), hl]
      exact leafAt_absent r d fs _ rp h2

theorem leafAt_shred (r k d : Nat) (hr : r ≤ k) : ∀ (fs : PFields) (vs : List Val) (o : Nat),
    wfF (eraseF fs) = true → confF (eraseF fs) vs = true → LeafAt fs o .req →
    ∃ x, ((shredF (eraseF fs) r k d vs).drop o).headD [] = [⟨some x, r, d⟩]
  | .nil, _, _, _, _, h => by simp [LeafAt] at h
  | .cons nm rp' n fs, vs, o, hw, hc, h => by
    simp only [eraseF, wfF, Bool.and_eq_true] at hw
    cases vs with
    | nil => simp [eraseF, confF] at hc
    | cons v vs' =>
      simp only [eraseF, confF, Bool.and_eq_true] at hc
      simp only [eraseF, shredF]
      rcases h with ⟨rfl, rfl, hrp⟩ | ⟨h1, h2⟩
      · subst hrp
        simp only [wrap, eraseN] at hc ⊢
        cases v with
        | prim x => exact ⟨x, by simp [shredN]⟩
        | struct _ => simp [confN] at hc
        | none => simp [confN] at hc
        | some _ => simp [confN] at hc
        | list _ => simp [confN] at hc
      · have hl := shredN_length (wrap rp' (eraseN n)) r k d v hw.1 hr
        rw [leaves_wrap] at hl
        rw [headD_drop_append (by rw [hl]; exact h1), hl]
        exact leafAt_shred r k d hr fs vs' _ hw.2 hc.2 h2

theorem headD_drop_zip : ∀ (X Y : Cols) (o : Nat), X.length = Y.length → o < X.length →
    ((zipApp X Y).drop o).headD [] = (X.drop o).headD [] ++ (Y.drop o).headD []
  | [], _, _, _, h => by simp at h
  | _ :: _, [], _, h, _ => by simp at h
  | x :: xs, y :: ys, 0, _, _ => by simp [zipApp]
  | x :: xs, y :: ys, o + 1, h, ho => by
    simp only [zipApp, List.drop_succ_cons]
    exact headD_drop_zip xs ys o (by simpa using h) (by simpa using ho)

/-! ### no repetition type changes: the tables are the identity -/

structure IdLv (lv : Lv) : Prop where
  tr : lv.tr = lv.sr
  td : lv.td = lv.sd
  R : ∀ i, i ≤ lv.sr → lv.R i = i
  D : ∀ i, i ≤ lv.sd → lv.D i = i
  rd : lv.sr ≤ lv.sd

theorem IdLv.step {lv : Lv} (h : IdLv lv) (rp : Rp) : IdLv (lv.step rp rp) := by
  refine ⟨by simp [Lv.step, h.tr], by simp [Lv.step, h.td], ?_, ?_, ?_⟩
  · intro i hi
    simp only [Lv.step, upd] at hi ⊢
    split
    · rename_i e; rw [e, h.tr]
    · exact h.R i (by cases rp <;> simp_all [repOf] <;> omega)
  · intro i hi
    simp only [Lv.step, upd] at hi ⊢
    split
    · rename_i e; rw [e, h.td]
    · exact h.D i (by cases rp <;> simp_all [defOf] <;> omega)
  · cases rp <;> simp [Lv.step, repOf, defOf] <;> have := h.rd <;> omega

theorem idLv0 : IdLv lv0 := ⟨rfl, rfl, fun i hi => by simp [lv0] at hi ⊢; omega, fun i hi => by simp [lv0] at hi ⊢; omega, Nat.le_refl _⟩

/-! ### canon algebra -/

theorem canonCol_append (td : Nat) (a b : List Triple) : canonCol td (a ++ b) = canonCol td a ++ canonCol td b := by
  simp [canonCol]

theorem canon_zipApp : ∀ (T : List Nat) (A B : Cols), canon T (zipApp A B) = zipApp (canon T A) (canon T B)
  | [], _, _ => by simp [canon, zipApp]
  | _ :: _, [], _ => by simp [canon, zipApp]
  | _ :: _, _ :: _, [] => by simp [canon, zipApp]
  | t :: ts, a :: as, b :: bs => by
    have := canon_zipApp ts as bs
    simp only [canon] at this
    simp [canon, zipApp, canonCol_append, this]

theorem canon_replicate_nil (T : List Nat) : canon T (List.replicate T.length []) = List.replicate T.length [] := by
  induction T with
  | nil => simp [canon]
  | cons t ts ih =>
    simp only [canon] at ih
    simp [canon, List.replicate_succ, canonCol, ih]

theorem canon_foldr (T : List Nat) (g : Val → Cols) : ∀ (ws : List Val),
    canon T (ws.foldr (fun w acc => zipApp (g w) acc) (List.replicate T.length [])) =
      ws.foldr (fun w acc => zipApp (canon T (g w)) acc) (List.replicate T.length [])
  | [] => canon_replicate_nil T
  | w :: ws => by
    simp only [List.foldr_cons]
    rw [canon_zipApp, canon_foldr T g ws]

/-! ### `lost` states distribute over concatenation -/

mutual
theorem lin_lostN : ∀ (a : PNode) (trp : Rp) (lv : Lv) (c1 c2 : List Triple), c1 ≠ [] → c2 ≠ [] →
    convN a trp lv (.lost (some (c1 ++ c2))) = zipApp (convN a trp lv (.lost (some c1))) (convN a trp lv (.lost (some c2)))
  | .leaf, trp, lv, c1, c2, h1, h2 => by
    have e1 : c1.isEmpty = false := by cases c1 <;> simp_all
    have e2 : c2.isEmpty = false := by cases c2 <;> simp_all
    have e3 : (c1 ++ c2).isEmpty = false := by cases c1 <;> simp_all
    simp only [convN, leafOut, e1, e2, e3, Bool.false_eq_true, if_false, zipApp]
    split <;> simp [toNullOpt, toZero, fixup]
  | .group fs, trp, lv, c1, c2, h1, h2 => by
    simp only [convN]
    exact lin_lostF fs lv c1 c2 h1 h2
theorem lin_lostF : ∀ (fs : PFields) (lv : Lv) (c1 c2 : List Triple), c1 ≠ [] → c2 ≠ [] →
    convF fs lv (.lost (some (c1 ++ c2))) = zipApp (convF fs lv (.lost (some c1))) (convF fs lv (.lost (some c2)))
  | .nil, _, _, _, _, _ => by simp [convF, zipApp]
  | .cons nm rp n fs, lv, c1, c2, h1, h2 => by
    simp only [convF, stepS_lost]
    rw [lin_lostN n rp _ c1 c2 h1 h2, lin_lostF fs lv c1 c2 h1 h2]
    rw [zipApp_append _ _ (by rw [convN_length, convN_length])]
end

/-! ### unfolding `addF` -/

theorem addF_cons {sd : Nat} {sfs : PFields} {nm : Nat} {trp : Rp} {t : PNode} {tfs : PFields}
    (h : addF sd sfs (.cons nm trp t tfs) = true) :
    ((∃ s, getFld nm sfs = some (trp, s) ∧ addN (sd + defOf trp) s t = true) ∨
      (getFld nm sfs = none ∧ addOk sfs sd = true)) ∧ addF sd sfs tfs = true := by
  simp only [addF, Bool.and_eq_true] at h
  refine ⟨?_, h.2⟩
  cases hg : getFld nm sfs with
  | none => simp only [hg] at h; exact Or.inr ⟨rfl, h.1⟩
  | some p =>
    obtain ⟨srp, s⟩ := p
    simp only [hg, Bool.and_eq_true, decide_eq_true_eq] at h
    obtain ⟨⟨rfl, h1⟩, _⟩ := h
    exact Or.inl ⟨s, rfl, h1⟩

theorem stepS_none (nm : Nat) (trp : Rp) (lv : Lv) (sfs : PFields) (blk : Cols) (pc : Option (List Triple))
    (h : getFld nm sfs = none) :
    stepS nm trp lv (.on (.group sfs) blk pc) = (lv.stepT trp, .lost ((closestLeaf sfs blk none).map (·.2))) := by
  simp [stepS, findB_eq, h]

theorem findV_none (nm : Nat) : ∀ (sfs : PFields) (vs : List Val), getFld nm sfs = none → findV nm sfs vs = none
  | .nil, _, _ => by simp [findV]
  | .cons nm' rp n fs, vs, h => by
    simp only [getFld] at h
    split at h
    · simp at h
    · rename_i hne
      cases vs with
      | nil => simp [findV]
      | cons v vs' => simp only [findV, hne, if_false]; exact findV_none nm fs vs' h

theorem sameKind_of_add {sd : Nat} {s t : PNode} (h : addN sd s t = true) : sameKind s t = true := by
  cases s <;> cases t <;> simp_all [addN, sameKind]

/-! ### an added field in its three contexts -/

theorem headD_drop_mem : ∀ (X : Cols) (o : Nat), o < X.length → (X.drop o).headD [] ∈ X
  | [], _, h => by simp at h
  | x :: xs, 0, _ => by simp
  | x :: xs, o + 1, h => by
    simp only [List.drop_succ_cons, List.mem_cons]
    exact Or.inr (headD_drop_mem xs o (by simpa using h))

theorem addOk_cases {sfs : PFields} {sd : Nat} (h : addOk sfs sd = true) :
    (∃ n o, closestOff sfs 0 none = some (n, o, .req) ∧ LeafAt sfs o .req) ∨ (closestOff sfs 0 none = none ∧ sd = 0) := by
  simp only [addOk] at h
  cases hc : closestOff sfs 0 none with
  | none => simp [hc] at h; exact Or.inr ⟨rfl, h⟩
  | some p =>
    obtain ⟨n, o, rp⟩ := p
    cases rp <;> simp [hc] at h
    rcases closestOff_sound sfs 0 none n o .req hc with h1 | ⟨_, h2⟩
    · simp at h1
    · exact Or.inl ⟨n, o, rfl, by simpa using h2⟩

/-- the enclosing group is absent at levels `(r, d)` -/
theorem added_absent (sfs : PFields) (tn : PNode) (trp : Rp) (lv : Lv) (r d : Nat)
    (hok : addOk sfs lv.sd = true) (hid : lv.td = lv.sd) (hd : d < lv.sd) :
    canon (maxDefsN tn (lv.td + defOf trp))
        (convN tn trp (lv.stepT trp) (.lost ((closestLeaf sfs (absentF (eraseF sfs) r d) none).map (·.2)))) =
      canon (maxDefsN tn (lv.td + defOf trp)) (absentN (eraseN tn) r d) := by
  rw [closest_col]
  rcases addOk_cases hok with ⟨n, o, hc, hl⟩ | ⟨_, h0⟩
  · simp only [hc, Option.map_some, leafAt_absent r d sfs o .req hl]
    have h := canon_lostN tn trp (lv.stepT trp) none r d (by simp [Lv.stepT]; omega)
      (by intro h; subst h; simp [Lv.stepT, defOf]; omega)
    rw [show (lv.stepT trp).td = lv.td + defOf trp from rfl] at h
    rw [h, canon_absentN tn _ r d (by omega)]
  · omega

/-- the enclosing group is present: its fields are shredded at `(r, lv.sr, lv.sd)` -/
theorem added_present (sfs : PFields) (tn : PNode) (trp : Rp) (lv : Lv) (vs : List Val) (r : Nat)
    (hok : addOk sfs lv.sd = true) (hid : IdLv lv) (hw : wfF (eraseF sfs) = true)
    (hc : confF (eraseF sfs) vs = true) (hr : r ≤ lv.sr) :
    canon (maxDefsN tn (lv.td + defOf trp))
        (convN tn trp (lv.stepT trp) (.lost ((closestLeaf sfs (shredF (eraseF sfs) r lv.sr lv.sd vs) none).map (·.2)))) =
      canon (maxDefsN tn (lv.td + defOf trp)) (shredN (wrap trp (eraseN tn)) r lv.tr lv.td (dfltW trp (dfltN tn))) := by
  rw [closest_col]
  have hspec : canon (maxDefsN tn (lv.td + defOf trp)) (shredN (wrap trp (eraseN tn)) r lv.tr lv.td (dfltW trp (dfltN tn))) =
      nf (maxDefsN tn (lv.td + defOf trp)) r lv.td := by
    cases trp with
    | req => simpa [wrap, dfltW, defOf] using canon_dfltN tn r lv.tr lv.td
    | opt => simpa [wrap, dfltW, defOf, shredN] using canon_absentN tn (lv.td + 1) r lv.td (by omega)
    | rpt => simpa [wrap, dfltW, defOf, shredN] using canon_absentN tn (lv.td + 1) r lv.td (by omega)
  rw [hspec]
  rcases addOk_cases hok with ⟨n, o, hcl, hl⟩ | ⟨hcl, h0⟩
  · obtain ⟨x, hx⟩ := leafAt_shred r lv.sr lv.sd hr sfs vs o hw hc hl
    simp only [hcl, Option.map_some, hx]
    have h := canon_lostN tn trp (lv.stepT trp) (some x) r lv.sd (by simp [Lv.stepT, hid.td])
      (by intro h; subst h; simp [Lv.stepT, defOf, hid.td])
    rw [show (lv.stepT trp).td = lv.td + defOf trp from rfl] at h
    rw [h, hid.td]
  · have h := canon_lostNoneN tn trp (lv.stepT trp) (by intro h; subst h; simp [Lv.stepT, defOf])
    rw [show (lv.stepT trp).td = lv.td + defOf trp from rfl] at h
    have hr0 : r = 0 := by have := hid.rd; omega
    have htd : lv.td = 0 := by rw [hid.td]; exact h0
    simp only [hcl, Option.map_none]
    rw [h, hr0, htd]

/-- below a repeated ancestor: the borrowed column is the concatenation of the elements' columns -/
theorem added_lin (sfs : PFields) (tn : PNode) (trp : Rp) (lv : Lv) (sd : Nat) (X Y : Cols)
    (hok : addOk sfs sd = true) (hsd : 0 < sd)
    (hx : X.length = leavesF (eraseF sfs)) (hy : Y.length = leavesF (eraseF sfs)) (nx : NE X) (ny : NE Y) :
    convN tn trp lv (.lost ((closestLeaf sfs (zipApp X Y) none).map (·.2))) =
      zipApp (convN tn trp lv (.lost ((closestLeaf sfs X none).map (·.2))))
        (convN tn trp lv (.lost ((closestLeaf sfs Y none).map (·.2)))) := by
  rw [closest_col, closest_col, closest_col]
  rcases addOk_cases hok with ⟨n, o, hcl, hl⟩ | ⟨_, h0⟩
  · have ho := leafAt_lt sfs o .req hl
    simp only [hcl, Option.map_some]
    rw [headD_drop_zip X Y o (by rw [hx, hy]) (by rw [hx]; exact ho)]
    exact lin_lostN tn trp lv _ _ (nx _ (headD_drop_mem X o (by rw [hx]; exact ho)))
      (ny _ (headD_drop_mem Y o (by rw [hy]; exact ho)))
  · omega

/-! ### absent groups -/

mutual
theorem absent_addN : ∀ (t : PNode) (trp : Rp) (lv : Lv) (s : PNode) (r d : Nat) (pc : Option (List Triple)),
    addN lv.sd s t = true → IdLv lv → r ≤ lv.sr → d < lv.sd →
    canon (maxDefsN t lv.td) (convN t trp lv (.on s (absentN (eraseN s) r d) pc)) =
      canon (maxDefsN t lv.td) (absentN (eraseN t) r d)
  | .leaf, trp, lv, s, r, d, pc, hs, hid, hr, hd => by
    cases s with
    | group sfs => simp [addN] at hs
    | leaf =>
      simp only [convN, eraseN, absentN]
      rw [leafOut_on _ _ _ _ (by simp)]
      simp [leafFn_absent lv r d hr (by omega) (by rw [hid.td]; omega), hid.R r hr, hid.D d (by omega)]
  | .group tfs, trp, lv, s, r, d, pc, hs, hid, hr, hd => by
    cases s with
    | leaf => simp [addN] at hs
    | group sfs =>
      simp only [addN] at hs
      simp only [convN, eraseN, absentN, maxDefsN]
      exact absent_addF tfs lv sfs r d pc hs hid hr hd
theorem absent_addF : ∀ (tfs : PFields) (lv : Lv) (sfs : PFields) (r d : Nat) (pc : Option (List Triple)),
    addF lv.sd sfs tfs = true → IdLv lv → r ≤ lv.sr → d < lv.sd →
    canon (maxDefsF tfs lv.td) (convF tfs lv (.on (.group sfs) (absentF (eraseF sfs) r d) pc)) =
      canon (maxDefsF tfs lv.td) (absentF (eraseF tfs) r d)
  | .nil, _, _, _, _, _, _, _, _, _ => by simp [convF, eraseF, absentF]
  | .cons nm trp tn tfs, lv, sfs, r, d, pc, hs, hid, hr, hd => by
    obtain ⟨hhead, hrest⟩ := addF_cons hs
    simp only [convF, maxDefsF, eraseF, absentF, absent_wrap]
    rw [canon_append (by rw [maxDefsN_length, convN_length]), canon_append (by rw [maxDefsN_length, absentN_length]; rfl)]
    rw [absent_addF tfs lv sfs r d pc hrest hid hr hd]
    congr 1
    rcases hhead with ⟨sn, hg, hsn⟩ | ⟨hg, hok⟩
    · rw [stepS_on nm trp lv sfs _ pc hg]
      simp only []
      rw [fld_absent nm trp sn r d sfs hg]
      exact absent_addN tn trp (lv.step trp trp) sn r d _ hsn (hid.step trp)
        (by simp [Lv.step]; omega) (by simp [Lv.step]; omega)
    · rw [stepS_none nm trp lv sfs _ pc hg]
      exact added_absent sfs tn trp lv r d hok hid.td hd
end

/-! ### distribution over list elements -/

mutual
theorem lin_addN : ∀ (t : PNode) (trp : Rp) (lv : Lv) (s : PNode) (X Y : Cols) (p1 p2 p3 : Option (List Triple)),
    addN lv.sd s t = true → 0 < lv.sd → X.length = leavesP s → Y.length = leavesP s → NE X → NE Y →
    convN t trp lv (.on s (zipApp X Y) p3) =
      zipApp (convN t trp lv (.on s X p1)) (convN t trp lv (.on s Y p2))
  | .leaf, trp, lv, s, X, Y, p1, p2, p3, hs, hsd, hx, hy, nx, ny => by
    cases s with
    | group sfs => simp [addN] at hs
    | leaf =>
      simp only [leavesP, eraseN, leavesN] at hx hy
      match X, Y, hx, hy with
      | [x], [y], _, _ =>
        have hxne : x ≠ [] := nx x (by simp)
        have hyne : y ≠ [] := ny y (by simp)
        have hxy : x ++ y ≠ [] := by simp [hxne]
        simp only [convN, zipApp]
        rw [leafOut_on _ _ _ _ hxy, leafOut_on _ _ _ _ hxne, leafOut_on _ _ _ _ hyne, List.map_append]
  | .group tfs, trp, lv, s, X, Y, p1, p2, p3, hs, hsd, hx, hy, nx, ny => by
    cases s with
    | leaf => simp [addN] at hs
    | group sfs =>
      simp only [addN] at hs
      simp only [leavesP, eraseN, leavesN] at hx hy
      simp only [convN]
      exact lin_addF tfs lv sfs X Y p1 p2 p3 hs hsd hx hy nx ny
theorem lin_addF : ∀ (tfs : PFields) (lv : Lv) (sfs : PFields) (X Y : Cols) (p1 p2 p3 : Option (List Triple)),
    addF lv.sd sfs tfs = true → 0 < lv.sd → X.length = leavesF (eraseF sfs) → Y.length = leavesF (eraseF sfs) → NE X → NE Y →
    convF tfs lv (.on (.group sfs) (zipApp X Y) p3) =
      zipApp (convF tfs lv (.on (.group sfs) X p1)) (convF tfs lv (.on (.group sfs) Y p2))
  | .nil, _, _, _, _, _, _, _, _, _, _, _, _, _ => by simp [convF, zipApp]
  | .cons nm trp tn tfs, lv, sfs, X, Y, p1, p2, p3, hs, hsd, hx, hy, nx, ny => by
    obtain ⟨hhead, hrest⟩ := addF_cons hs
    simp only [convF]
    rw [lin_addF tfs lv sfs X Y p1 p2 p3 hrest hsd hx hy nx ny]
    rw [zipApp_append _ _ (by rw [convN_length, convN_length])]
    congr 1
    rcases hhead with ⟨sn, hg, hsn⟩ | ⟨hg, hok⟩
    · simp only [stepS_on nm trp lv sfs _ _ hg]
      rw [blkOf_zip nm sfs X Y (by rw [hx, hy])]
      exact lin_addN tn trp (lv.step trp trp) sn (blkOf nm sfs X) (blkOf nm sfs Y) _ _ _ hsn
        (by simp [Lv.step]; omega)
        (blkOf_length nm trp sn sfs X hg hx) (blkOf_length nm trp sn sfs Y hg hy)
        (blkOf_ne nm sfs X nx) (blkOf_ne nm sfs Y ny)
    · simp only [stepS_none nm trp lv sfs _ _ hg]
      exact added_lin sfs tn trp (lv.stepT trp) lv.sd X Y hok hsd hx hy nx ny
end

/-! ### main lemma for targets with added fields -/

theorem wf_of_fld {nm : Nat} {rp : Rp} {sn : PNode} {sfs : PFields} (hw : wfF (eraseF sfs) = true)
    (hg : getFld nm sfs = some (rp, sn)) : wfN (eraseN sn) = true := wf_of_getFld nm rp sn sfs hw hg

mutual
theorem main_addN : ∀ (t : PNode) (trp : Rp) (lv : Lv) (s : PNode) (v : Val) (r : Nat) (pc : Option (List Triple)),
    addN lv.sd s t = true → IdLv lv → wfN (eraseN s) = true → confN (eraseN s) v = true → r ≤ lv.sr →
    canon (maxDefsN t lv.td) (convN t trp lv (.on s (shredN (eraseN s) r lv.sr lv.sd v) pc)) =
      canon (maxDefsN t lv.td) (shredN (eraseN t) r lv.tr lv.td (projN s t v))
  | .leaf, trp, lv, s, v, r, pc, hs, hid, hw, hc, hr => by
    cases s with
    | group sfs => simp [addN] at hs
    | leaf =>
      cases v with
      | prim x =>
        simp only [convN, eraseN, shredN, projN]
        rw [leafOut_on _ _ _ _ (by simp)]
        have hD : lv.D lv.sd = lv.td := by rw [hid.D _ (Nat.le_refl _), hid.td]
        simp [leafFn_value lv x r hr hD, hid.R r hr]
      | struct vs => simp [eraseN, confN] at hc
      | none => simp [eraseN, confN] at hc
      | some w => simp [eraseN, confN] at hc
      | list ws => simp [eraseN, confN] at hc
  | .group tfs, trp, lv, s, v, r, pc, hs, hid, hw, hc, hr => by
    cases s with
    | leaf => simp [addN] at hs
    | group sfs =>
      simp only [addN] at hs
      cases v with
      | struct vs =>
        simp only [eraseN, confN] at hc
        simp only [eraseN, wfN, Bool.and_eq_true] at hw
        simp only [convN, eraseN, shredN, projN, maxDefsN]
        exact main_addF tfs lv sfs vs r pc hs hid hw.1 hc hr
      | prim x => simp [eraseN, confN] at hc
      | none => simp [eraseN, confN] at hc
      | some w => simp [eraseN, confN] at hc
      | list ws => simp [eraseN, confN] at hc
theorem main_addF : ∀ (tfs : PFields) (lv : Lv) (sfs : PFields) (vs : List Val) (r : Nat) (pc : Option (List Triple)),
    addF lv.sd sfs tfs = true → IdLv lv → wfF (eraseF sfs) = true → confF (eraseF sfs) vs = true → r ≤ lv.sr →
    canon (maxDefsF tfs lv.td) (convF tfs lv (.on (.group sfs) (shredF (eraseF sfs) r lv.sr lv.sd vs) pc)) =
      canon (maxDefsF tfs lv.td) (shredF (eraseF tfs) r lv.tr lv.td (projF sfs vs tfs))
  | .nil, _, _, _, _, _, _, _, _, _, _ => by simp [convF, eraseF, shredF, projF]
  | .cons nm trp tn tfs, lv, sfs, vs, r, pc, hs, hid, hw, hc, hr => by
    obtain ⟨hhead, hrest⟩ := addF_cons hs
    have ih := main_addF tfs lv sfs vs r pc hrest hid hw hc hr
    rcases hhead with ⟨sn, hg, hsn⟩ | ⟨hg, hok⟩
    · -- shared field
      obtain ⟨v, hfv, hblk, hcv, hwn⟩ := fld_shred nm trp sn r lv.sr lv.sd hr sfs vs hw hc hg
      have hsk : sameKind sn tn = true := sameKind_of_add hsn
      simp only [convF, stepS_on nm trp lv sfs _ pc hg, hblk, eraseF, projF, hfv, hsk, if_true, shredF, maxDefsF]
      generalize Option.map (fun x => x.snd) (closestLeaf sfs (shredF (eraseF sfs) r lv.sr lv.sd vs) none) = pc'
      have hlenT : (maxDefsN tn (lv.td + defOf trp)).length = leavesP tn := maxDefsN_length _ _
      rw [canon_append (by rw [hlenT, convN_length])]
      rw [ih]
      have hstep := hid.step trp
      have hlenS : ∀ (k d : Nat) (w : Val), (shredN (wrap trp (eraseN tn)) r k d w).length = leavesP tn := by
        intro k d w; rw [shredN_len, leaves_wrap]; rfl
      rw [canon_append (by rw [hlenT, hlenS])]
      congr 1
      cases trp with
      | req =>
        simp only [wrap] at hcv ⊢
        exact main_addN tn .req (lv.step .req .req) sn v r pc' hsn hstep hwn hcv (by simp [Lv.step]; omega)
      | opt =>
        simp only [wrap] at hcv ⊢
        cases v with
        | some w =>
          simp only [confN] at hcv
          simp only [shredN]
          exact main_addN tn .opt (lv.step .opt .opt) sn w r pc' hsn hstep hwn hcv (by simp [Lv.step]; omega)
        | none =>
          simp only [shredN]
          have h := absent_addN tn .opt (lv.step .opt .opt) sn r lv.sd pc' hsn hstep
            (by simp [Lv.step]; omega) (by simp [Lv.step, defOf])
          rw [show absentN (eraseN tn) r lv.td = absentN (eraseN tn) r lv.sd from by rw [hid.td]]
          exact h
        | prim x => simp [confN] at hcv
        | struct vs' => simp [confN] at hcv
        | list ws => simp [confN] at hcv
      | rpt =>
        simp only [wrap] at hcv ⊢
        cases v with
        | list ws =>
          simp only [confN] at hcv
          cases ws with
          | nil =>
            simp only [shredN, List.map_nil]
            have h := absent_addN tn .rpt (lv.step .rpt .rpt) sn r lv.sd pc' hsn hstep
              (by simp [Lv.step]; omega) (by simp [Lv.step, defOf])
            rw [show absentN (eraseN tn) r lv.td = absentN (eraseN tn) r lv.sd from by rw [hid.td]]
            exact h
          | cons w0 ws =>
            simp only [List.all_cons, Bool.and_eq_true] at hcv
            simp only [shredN, List.map_cons, List.foldr_map]
            have hlin : ∀ X Y : Cols, X.length = leavesN (eraseN sn) → Y.length = leavesN (eraseN sn) → NE X → NE Y →
                convN tn .rpt (lv.step .rpt .rpt) (.on sn (zipApp X Y) pc') =
                  zipApp (convN tn .rpt (lv.step .rpt .rpt) (.on sn X pc')) (convN tn .rpt (lv.step .rpt .rpt) (.on sn Y pc')) :=
              fun X Y hx hy nx ny => lin_addN tn .rpt (lv.step .rpt .rpt) sn X Y pc' pc' pc' hsn
                (by simp [Lv.step, defOf]) hx hy nx ny
            have hgood : ∀ (r' : Nat) (w : Val), r' ≤ lv.sr + 1 →
                (shredN (eraseN sn) r' (lv.sr + 1) (lv.sd + 1) w).length = leavesN (eraseN sn) ∧
                  NE (shredN (eraseN sn) r' (lv.sr + 1) (lv.sd + 1) w) := fun r' w hr' =>
              ⟨(shredN_spec (eraseN sn) r' (lv.sr + 1) (lv.sd + 1) w hwn hr').1.1,
                ne_of_good (shredN_spec (eraseN sn) r' (lv.sr + 1) (lv.sd + 1) w hwn hr').1⟩
            rw [conv_fold (fun X => convN tn .rpt (lv.step .rpt .rpt) (.on sn X pc')) (leavesN (eraseN sn)) (leavesN (eraseN tn))
              (fun w => shredN (eraseN sn) (lv.sr + 1) (lv.sr + 1) (lv.sd + 1) w) hlin
              (fun X => convN_length tn _ _ _) ws (fun w _ => hgood (lv.sr + 1) w (Nat.le_refl _))
              _ (hgood r w0 (by omega)).1 (hgood r w0 (by omega)).2]
            have hT : (maxDefsN tn (lv.td + defOf .rpt)).length = leavesN (eraseN tn) := maxDefsN_length _ _
            rw [canon_zipApp, canon_zipApp, ← hT, canon_foldr, canon_foldr]
            have h0 := main_addN tn .rpt (lv.step .rpt .rpt) sn w0 r pc' hsn hstep hwn hcv.1 (by simp [Lv.step]; omega)
            have hrest' : ∀ w ∈ ws,
                canon (maxDefsN tn (lv.td + defOf .rpt)) (convN tn .rpt (lv.step .rpt .rpt)
                  (.on sn (shredN (eraseN sn) (lv.sr + 1) (lv.sr + 1) (lv.sd + 1) w) pc')) =
                canon (maxDefsN tn (lv.td + defOf .rpt)) (shredN (eraseN tn) (lv.tr + 1) (lv.tr + 1) (lv.td + 1) (projN sn tn w)) := by
              intro w hw'
              have hcw : confN (eraseN sn) w = true := (List.all_eq_true.mp hcv.2) w hw'
              have h := main_addN tn .rpt (lv.step .rpt .rpt) sn w (lv.sr + 1) pc' hsn hstep hwn hcw (Nat.le_refl _)
              have h' : canon (maxDefsN tn (lv.td + defOf .rpt)) (convN tn .rpt (lv.step .rpt .rpt)
                    (.on sn (shredN (eraseN sn) (lv.sr + 1) (lv.sr + 1) (lv.sd + 1) w) pc')) =
                  canon (maxDefsN tn (lv.td + defOf .rpt)) (shredN (eraseN tn) (lv.sr + 1) (lv.tr + 1) (lv.td + 1) (projN sn tn w)) := h
              rw [h', hid.tr]
            rw [foldr_zip_congr ws hrest']
            exact congrArg (fun z => zipApp z _) h0
        | prim x => simp [confN] at hcv
        | struct vs' => simp [confN] at hcv
        | none => simp [confN] at hcv
        | some w => simp [confN] at hcv
    · -- added field
      have hfv := findV_none nm sfs vs hg
      simp only [convF, stepS_none nm trp lv sfs _ pc hg, eraseF, projF, hfv, shredF, maxDefsF]
      have hlenT : (maxDefsN tn (lv.td + defOf trp)).length = leavesP tn := maxDefsN_length _ _
      have hadd := added_present sfs tn trp lv vs r hok hid hw hc hr
      have hl : (shredN (wrap trp (eraseN tn)) r lv.tr lv.td (dfltW trp (dfltN tn))).length = leavesP tn := by
        rw [shredN_len, leaves_wrap]; rfl
      rw [canon_append (by rw [hlenT, convN_length]), canon_append (by rw [hlenT, hl]), ih, hadd]
end

end PqModel.Convert
