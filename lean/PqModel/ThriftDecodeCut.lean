import PqModel.ThriftDecodeProofs

/-! Lemmas: the typed decoder mirror on a cut input `d.take m` against its run on `d` (the analogue of
    `ThriftSkip.Rel` / `skipT_rel`): up to the cut the two runs agree, at the cut the cut run fails with
    io.EOF or io.ErrUnexpectedEOF, never with MissingField or a range error. -/
namespace PqModel.ThriftDecode
open PqModel.IoFault (Bytes)
open PqModel.ThriftSkip

def RelT (pos m : Nat) (r r' : TR) : Prop :=
  ∀ q, r = .ok q →
    pos ≤ q ∧ (pos ≤ m → (q ≤ m → r' = .ok q) ∧
      (m < q → ∃ e, r' = .error (.sk e) ∧ (e = .eof ∨ e = .ueof)))

theorem RelT.ok {pos m : Nat} : RelT pos m (.ok pos) (.ok pos) := by
  intro q e
  cases e
  exact ⟨Nat.le_refl _, fun _ => ⟨fun _ => rfl, fun h' => by omega⟩⟩

theorem RelT.error (pos m : Nat) (e : TErr) (r' : TR) : RelT pos m (.error e) r' := by
  intro q h; cases h

theorem lift_rel {α} {pos m : Nat} {r r' : PR α} (fe : SkErr → SkErr) [hfe : EofPres fe] {k k' : α → Nat → TR}
    (hr : Rel pos m r r') (hk : ∀ a p, pos ≤ p → RelT p m (k a p) (k' a p)) :
    RelT pos m (lift r fe k) (lift r' fe k') := by
  intro q h
  cases r with
  | error e => simp [lift] at h
  | ok ap =>
    obtain ⟨a, p⟩ := ap
    simp only [lift] at h
    obtain ⟨h1, h2⟩ := hr a p rfl
    have hpq := (hk a p h1 q h).1
    refine ⟨by omega, fun hpm => ?_⟩
    obtain ⟨h3, h4⟩ := h2 hpm
    by_cases hp : p ≤ m
    · rw [h3 hp]
      simp only [lift]
      exact (hk a p h1 q h).2 hp
    · obtain ⟨e, he, hc⟩ := h4 (by omega)
      rw [he]
      exact ⟨fun _ => by omega, fun _ => ⟨_, rfl, hfe.pres e hc⟩⟩

theorem seqT_rel {pos m : Nat} {r r' : TR} (fe : SkErr → SkErr) [hfe : EofPres fe] {k k' : Nat → TR}
    (hr : RelT pos m r r') (hk : ∀ p, pos ≤ p → RelT p m (k p) (k' p)) :
    RelT pos m (seqT r fe k) (seqT r' fe k') := by
  intro q h
  cases r with
  | error e => simp [seqT] at h
  | ok p =>
    simp only [seqT] at h
    obtain ⟨h1, h2⟩ := hr p rfl
    have hpq := (hk p h1 q h).1
    refine ⟨by omega, fun hpm => ?_⟩
    obtain ⟨h3, h4⟩ := h2 hpm
    by_cases hp : p ≤ m
    · rw [h3 hp]
      simp only [seqT]
      exact (hk p h1 q h).2 hp
    · obtain ⟨e, he, hc⟩ := h4 (by omega)
      rw [he]
      exact ⟨fun _ => by omega, fun _ => ⟨_, rfl, hfe.pres e hc⟩⟩

theorem readBinary_rel (d : Bytes) (pos m : Nat) : Rel pos m (readBinary d pos) (readBinary (d.take m) pos) := by
  unfold readBinary
  refine seq_rel _ (readUvarint_rel _ d pos m) fun n p _ => ?_
  intro u q h
  rw [List.length_take]
  split at h
  · cases h
  · cases h
    refine ⟨by omega, fun _ => ⟨fun h' => ?_, fun h' => ?_⟩⟩
    · rw [if_neg (by omega)]
    · rw [if_pos (by omega)]; exact ⟨_, rfl, Or.inr rfl⟩

theorem readFieldT_rel (d : Bytes) (pos m : Nat) : Rel pos m (readFieldT d pos) (readFieldT (d.take m) pos) := by
  unfold readFieldT
  refine seq_rel _ (readByte_rel d pos m) fun b p _ => ?_
  refine Rel.ite _ (Rel.ok _) (Rel.ite _ (Rel.ok _) ?_)
  exact seq_rel _ (readVarint_rel _ _ d p m) fun _ q _ => Rel.ok _

/-- the typed decoder: for every fuel, task, offset, cut and allocator -/
theorem decT_rel (mem : Option Nat) (d : Bytes) (m : Nat) : ∀ (f : Nat) (t : DTask) (pos : Nat),
    RelT pos m (decT mem d f t pos) (decT mem (d.take m) f t pos) := by
  intro f
  induction f with
  | zero => intro t pos; simp only [decT]; exact RelT.error _ _ _ _
  | succ f ih =>
    intro t pos
    cases t with
    | val t =>
      cases t with
      | bool => simp only [decT]; exact lift_rel _ (readByte_rel d pos m) fun _ p _ => RelT.ok
      | i8 => simp only [decT]; exact lift_rel _ (readByte_rel d pos m) fun _ p _ => RelT.ok
      | i16 => simp only [decT]; exact lift_rel _ (readVarint_rel _ _ d pos m) fun _ p _ => RelT.ok
      | i32 => simp only [decT]; exact lift_rel _ (readVarint_rel _ _ d pos m) fun _ p _ => RelT.ok
      | i64 => simp only [decT]; exact lift_rel _ (readVarint_rel _ _ d pos m) fun _ p _ => RelT.ok
      | double => simp only [decT]; exact lift_rel _ (readFloat_rel d pos m) fun _ p _ => RelT.ok
      | binary => simp only [decT]; exact lift_rel _ (readBinary_rel d pos m) fun _ p _ => RelT.ok
      | list e =>
        simp only [decT]
        refine lift_rel _ (readList_rel d pos m) fun l p _ => ?_
        generalize (if l.1 = 1 then 2 else l.1) = ty'
        by_cases hw : wire e ≠ ty'
        · simp only [if_pos hw]
          exact lift_rel _ (skipT_rel d m f (.items ty' l.2) p) fun _ q _ => RelT.ok
        · simp only [if_neg hw]
          split
          · exact RelT.error _ _ _ _
          · exact ih (.elems e l.2) p
      | struct fs => simp only [decT]; exact ih _ pos
      | union ms => simp only [decT]; exact ih _ pos
    | elems t n =>
      cases n with
      | zero => simp only [decT]; exact RelT.ok
      | succ n => simp only [decT]; exact seqT_rel _ (ih _ pos) fun p _ => ih _ p
    | fields fs first last seen =>
      simp only [decT]
      refine lift_rel _ (readFieldT_rel d pos m) fun h p _ => ?_
      cases h with
      | none =>
        simp only
        split
        · exact RelT.error _ _ _ _
        · exact RelT.ok
      | some x =>
        obtain ⟨ty, raw, delta⟩ := x
        simp only
        split
        · exact lift_rel _ (skipT_rel d m f (.val ty) p) fun _ q _ => ih _ q
        · split
          · exact lift_rel _ (skipT_rel d m f (.val ty) p) fun _ q _ => ih _ q
          · split
            · exact ih _ p
            · exact seqT_rel _ (ih _ p) fun q _ => ih _ q

end PqModel.ThriftDecode
