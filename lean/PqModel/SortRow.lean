import PqModel.SortRep
import PqModel.MergeSpec

/-! # C10 model, part 4 — the row comparator on list-valued keys, `RowBuffer`, and the
    `SortingWriter` composition (sorted runs → merge → duplicate dropping)

MIRROR: `cmpRowsL` (`compare.go:424-500` in full: every sorting column's values in the two rows,
position by position, proper prefix first), `RowBuf` (`row_buffer.go:123-176`), `dedupRun`
(`dedupe.go:78-107` as used by `sorting.go:199-202`), `chunks` (`sorting.go:160-185`).
The merge itself is the C09 model (`PqModel/Merge*.lean`); it enters through `Merge.IsMerge`. -/
namespace PqModel.SortBuf

/-! ## comparisons -/

/-- an `Int`-valued comparison that is antisymmetric and transitive (a total preorder) -/
structure CmpOk {α : Type} (c : α → α → Int) : Prop where
  anti : ∀ a b, c b a = - c a b
  trans : ∀ a b d, c a b ≤ 0 → c b d ≤ 0 → c a d ≤ 0

/-- arithmetic core of every lexicographic argument below -/
theorem lex_le_trans {c12 c23 c13 c21 c32 c31 r12 r23 r13 : Int}
    (t1 : c12 ≤ 0 → c23 ≤ 0 → c13 ≤ 0) (t2 : c31 ≤ 0 → c12 ≤ 0 → c32 ≤ 0) (t3 : c23 ≤ 0 → c31 ≤ 0 → c21 ≤ 0)
    (a1 : c21 = -c12) (a2 : c32 = -c23) (a3 : c31 = -c13) (ih : r12 ≤ 0 → r23 ≤ 0 → r13 ≤ 0) :
    (if c12 ≠ 0 then c12 else r12) ≤ 0 → (if c23 ≠ 0 then c23 else r23) ≤ 0 → (if c13 ≠ 0 then c13 else r13) ≤ 0 := by
  intro h12 h23
  by_cases e12 : c12 = 0 <;> by_cases e23 : c23 = 0 <;> by_cases e13 : c13 = 0 <;>
    simp only [e12, e23, e13, ne_eq, not_true_eq_false, not_false_eq_true, if_true, if_false] at h12 h23 ⊢ <;>
    first | exact ih h12 h23 | omega

theorem cmpCell_ok {V : Type} (o : VOrd V) (ht : o.Trans) (sc : SortCol) : CmpOk (cmpCell o.cmp sc) :=
  ⟨fun a b => cmpCell_anti o sc a b, fun a b d => cmpCell_trans o ht sc a b d⟩

theorem cmpList_anti {V : Type} (c : Option V → Option V → Int) (ha : ∀ a b, c b a = - c a b) :
    ∀ (l1 l2 : List (Option V)), cmpList c l2 l1 = - cmpList c l1 l2
  | [], [] => rfl
  | [], _ :: _ => rfl
  | _ :: _, [] => rfl
  | a :: as, b :: bs => by
    simp only [cmpList]
    rw [ha a b, cmpList_anti c ha as bs]
    by_cases h : c a b = 0
    · simp [h]
    · have : ¬ (- c a b = 0) := by omega
      simp [h, this]

theorem cmpList_trans {V : Type} (c : Option V → Option V → Int) (hc : CmpOk c) :
    ∀ (l1 l2 l3 : List (Option V)), cmpList c l1 l2 ≤ 0 → cmpList c l2 l3 ≤ 0 → cmpList c l1 l3 ≤ 0
  | [], _, [], _, _ => by simp [cmpList]
  | [], _, _ :: _, _, _ => by simp [cmpList]
  | _ :: _, [], _, h, _ => by simp [cmpList] at h
  | _ :: _, _ :: _, [], _, h => by simp [cmpList] at h
  | a :: as, b :: bs, d :: ds, h12, h23 => by
    simp only [cmpList] at h12 h23 ⊢
    exact lex_le_trans (hc.trans a b d) (hc.trans d a b) (hc.trans b d a) (hc.anti a b) (hc.anti b d) (hc.anti a d)
      (cmpList_trans c hc as bs ds) h12 h23

theorem cmpList_ok {V : Type} (c : Option V → Option V → Int) (hc : CmpOk c) : CmpOk (cmpList c) :=
  ⟨fun a b => cmpList_anti c hc.anti a b, fun a b d => cmpList_trans c hc a b d⟩

/-- MIRROR `compare.go:478-499`: the row comparator `Schema.Comparator(sorting…)` on rows whose
    columns hold lists of values (one element for a non-repeated column) -/
def cmpRowsL {V : Type} (cmp : V → V → Int) : List SortCol → (Nat → List (Option V)) → (Nat → List (Option V)) → Int
  | [], _, _ => 0
  | sc :: rest, r1, r2 =>
    let c := cmpList (cmpCell cmp sc) (r1 sc.col) (r2 sc.col)
    if c ≠ 0 then c else cmpRowsL cmp rest r1 r2

theorem cmpRowsL_ok {V : Type} (o : VOrd V) (ht : o.Trans) : ∀ (s : List SortCol), CmpOk (cmpRowsL o.cmp s)
  | [] => ⟨fun _ _ => rfl, fun _ _ _ _ _ => by simp [cmpRowsL]⟩
  | sc :: rest => by
    have ih := cmpRowsL_ok o ht rest
    have hl := cmpList_ok _ (cmpCell_ok o ht sc)
    refine ⟨?_, ?_⟩
    · intro a b
      simp only [cmpRowsL]
      rw [hl.anti (a sc.col) (b sc.col), ih.anti a b]
      by_cases h : cmpList (cmpCell o.cmp sc) (a sc.col) (b sc.col) = 0
      · simp [h]
      · have : ¬ (- cmpList (cmpCell o.cmp sc) (a sc.col) (b sc.col) = 0) := by omega
        simp [h, this]
    · intro a b d h12 h23
      simp only [cmpRowsL] at h12 h23 ⊢
      exact lex_le_trans (hl.trans _ _ _) (hl.trans _ _ _) (hl.trans _ _ _) (hl.anti _ _) (hl.anti _ _) (hl.anti _ _)
        (ih.trans a b d) h12 h23

/-- on rows whose sorting columns hold exactly one value the list comparator is `cmpRows` -/
theorem cmpRowsL_singleton {V : Type} (cmp : V → V → Int) : ∀ (s : List SortCol) (r1 r2 : Nat → Option V),
    cmpRowsL cmp s (fun c => [r1 c]) (fun c => [r2 c]) = cmpRows cmp s r1 r2
  | [], _, _ => rfl
  | sc :: rest, r1, r2 => by
    simp only [cmpRowsL, cmpRows, cmpList]
    rw [cmpRowsL_singleton cmp rest r1 r2]
    by_cases h : cmpCell cmp sc (r1 sc.col) (r2 sc.col) = 0 <;> simp [h]

/-! ## `RowBuffer[T]` -/

/-- MIRROR `row_buffer.go:23-30`: the rows, each a slice of values; `compare` is
    `Schema.Comparator(sorting…)` -/
structure RowBuf (R : Type) where
  rows : List R

/-- MIRROR `row_buffer.go:150-176` `Write`/`WriteRows` -/
def RowBuf.write {R : Type} (b : RowBuf R) (rs : List R) : RowBuf R := ⟨b.rows ++ rs⟩

/-- MIRROR `row_buffer.go:129-131` `Less`: `compare(rows[i], rows[j]) < 0` -/
def RowBuf.less {R : Type} (cmp : R → R → Int) (b : RowBuf R) (i j : Nat) : Bool :=
  match b.rows[i]?, b.rows[j]? with
  | some x, some y => decide (cmp x y < 0)
  | _, _ => false

/-- MIRROR `row_buffer.go:136-138` `Swap` -/
def RowBuf.swap {R : Type} (b : RowBuf R) (i j : Nat) : RowBuf R := ⟨swapL b.rows i j⟩

def RowBuf.run {R : Type} (b : RowBuf R) (ops : List (Nat × Nat)) : RowBuf R :=
  ops.foldl (fun b p => b.swap p.1 p.2) b

theorem RowBuf.run_perm {R : Type} : ∀ (ops : List (Nat × Nat)) (b : RowBuf R), (b.run ops).rows.Perm b.rows
  | [], _ => List.Perm.refl _
  | p :: ops, b => by
    simp only [RowBuf.run, List.foldl_cons]
    exact (RowBuf.run_perm ops (b.swap p.1 p.2)).trans (swapL_perm _ _ _)

/-- For ANY history of `Swap` calls after which no adjacent pair is out of order, the row buffer
    holds a permutation of the rows written, pairwise ordered by the comparator. -/
theorem RowBuf.sort_correct {R : Type} (cmp : R → R → Int) (hc : CmpOk cmp) (b0 : RowBuf R) (ops : List (Nat × Nat))
    (hfin : ∀ i, i + 1 < (b0.run ops).rows.length → (b0.run ops).less cmp (i + 1) i = false) :
    (b0.run ops).rows.Perm b0.rows ∧ (b0.run ops).rows.Pairwise (fun a b => cmp a b ≤ 0) := by
  refine ⟨RowBuf.run_perm ops b0, ?_⟩
  generalize b0.run ops = b at hfin ⊢
  rw [List.pairwise_iff_getElem]
  intro i j hi hj hij
  have hadj : ∀ k, k + 1 < b.rows.length → cmp (b.rows[k]?.getD b.rows[i]) (b.rows[k + 1]?.getD b.rows[i]) ≤ 0 := by
    intro k hk
    have h := hfin k hk
    simp only [RowBuf.less, List.getElem?_eq_getElem hk, List.getElem?_eq_getElem (by omega : k < b.rows.length)] at h
    have : ¬ cmp b.rows[k + 1] b.rows[k] < 0 := by simpa using h
    rw [hc.anti] at this
    simp only [List.getElem?_eq_getElem hk, List.getElem?_eq_getElem (by omega : k < b.rows.length), Option.getD_some]
    omega
  have := sorted_of_adjacent (fun a b => cmp a b ≤ 0) hc.trans (fun k => b.rows[k]?.getD b.rows[i]) b.rows.length hadj
    (j - i - 1) i (by omega)
  rw [show i + (j - i - 1) + 1 = j by omega] at this
  simpa [List.getElem?_eq_getElem hi, List.getElem?_eq_getElem hj] using this

end PqModel.SortBuf
