import PqModel.Reorder

/-! # C10 model — sorting buffers (optional column buffer, Buffer, comparator chain)

MIRROR parts transliterate parquet-go (`column_buffer_optional.go`, `column_buffer.go`,
`column_buffer_amd64.s`, `column_buffer_purego.go`, `buffer.go`, `compare.go`); each carries the
Go `file:line` range. SPEC parts (`rangeFrom`, `view`, `cmpRows` …) are written from the property
statement. Where the library was repaired in this slice (F13, F14, F24) the mirror follows the
repaired code and the historical transliteration is kept under an `…F13/F14/F24` name, only to
carry the negation witnesses of `Props/C10.lean`.

Not modelled: `repeatedColumnBuffer` (L1 only), `RowBuffer` (it *is* `Schema.Comparator` + a slice
swap), the stdlib `sort.Sort` (abstracted as "any sequence of Less/Swap calls"), int32 overflow of
the row index beyond 2^31 rows. -/
namespace PqModel.SortBuf

/-! ## list swap -/

/-- `l[i], l[j] = l[j], l[i]` (Go panics out of range; the model leaves the list unchanged) -/
def swapL {α : Type} (l : List α) (i j : Nat) : List α :=
  match l[i]?, l[j]? with
  | some a, some b => (l.set i b).set j a
  | _, _ => l

/-- the transposition of `i` and `j` -/
def tr (i j k : Nat) : Nat := if k = i then j else if k = j then i else k

theorem length_swapL {α : Type} (l : List α) (i j : Nat) : (swapL l i j).length = l.length := by
  unfold swapL
  split <;> simp

theorem swapL_perm {α : Type} (l : List α) (i j : Nat) : (swapL l i j).Perm l := by
  unfold swapL
  split
  · next a b ha hb =>
    obtain ⟨hi, rfl⟩ := List.getElem?_eq_some_iff.mp ha
    obtain ⟨hj, rfl⟩ := List.getElem?_eq_some_iff.mp hb
    exact List.set_set_perm hi hj
  · exact List.Perm.refl _

theorem getElem?_swapL {α : Type} {l : List α} {i j : Nat} (hi : i < l.length) (hj : j < l.length) (k : Nat) :
    (swapL l i j)[k]? = l[tr i j k]? := by
  unfold swapL tr
  rw [List.getElem?_eq_getElem hi, List.getElem?_eq_getElem hj]
  simp only [List.getElem?_set, List.length_set]
  by_cases h1 : k = j
  · subst h1
    by_cases h2 : k = i
    · subst h2; simp [hi]
    · simp [h2, hi, hj]
  · by_cases h2 : k = i
    · subst h2
      have : ¬ j = k := fun h => h1 h.symm
      simp [this, hi, hj]
    · have h1' : ¬ j = k := fun h => h1 h.symm
      have h2' : ¬ i = k := fun h => h2 h.symm
      simp [h1, h2, h1', h2']

theorem swapL_oob {α : Type} {l : List α} {i j : Nat} (h : ¬ (i < l.length ∧ j < l.length)) : swapL l i j = l := by
  unfold swapL
  split
  · next a b ha hb =>
    exfalso; apply h
    exact ⟨(List.getElem?_eq_some_iff.mp ha).1, (List.getElem?_eq_some_iff.mp hb).1⟩
  · rfl

theorem map_swapL {α β : Type} (f : α → β) (l : List α) (i j : Nat) : (swapL l i j).map f = swapL (l.map f) i j := by
  by_cases h : i < l.length ∧ j < l.length
  · apply List.ext_getElem?
    intro k
    rw [List.getElem?_map, getElem?_swapL h.1 h.2, getElem?_swapL (by simpa using h.1) (by simpa using h.2), List.getElem?_map]
  · rw [swapL_oob h, swapL_oob (by simpa using h)]

theorem zip_swapL {α β : Type} {a : List α} {b : List β} (h : a.length = b.length) (i j : Nat) :
    (swapL a i j).zip (swapL b i j) = swapL (a.zip b) i j := by
  by_cases hr : i < a.length ∧ j < a.length
  · have hb : i < b.length ∧ j < b.length := by omega
    have hz : i < (a.zip b).length ∧ j < (a.zip b).length := by simp [List.length_zip]; omega
    apply List.ext_getElem?
    intro k
    rw [getElem?_swapL hz.1 hz.2]
    simp only [List.zip_eq_zipWith, List.getElem?_zipWith]
    rw [getElem?_swapL hr.1 hr.2, getElem?_swapL hb.1 hb.2]
  · have hb : ¬ (i < b.length ∧ j < b.length) := by omega
    have hz : ¬ (i < (a.zip b).length ∧ j < (a.zip b).length) := by simp [List.length_zip]; omega
    rw [swapL_oob hr, swapL_oob hb, swapL_oob hz]

/-! ## the range kernel (`broadcastRangeInt32`) -/

/-- SPEC of `broadcastRangeInt32(dst, base)`: `dst[i] = base + i` -/
def rangeFrom (b n : Nat) : List Int := (List.range n).map (fun k => ((b + k : Nat) : Int))

/-- MIRROR `column_buffer_purego.go:14-18` and the scalar branch of `column_buffer_amd64.go:22-26`:
    `for i := range dst { dst[i] = base + int32(i) }` (int32 wraparound) -/
def bcastScalar (base : BitVec 32) (n : Nat) : List (BitVec 32) :=
  (List.range n).map (fun i => base + BitVec.ofNat 32 i)

/-- MIRROR `column_buffer_amd64.s:5-42` `broadcastRangeInt32AVX2` (after the F14 repair): vector
    part stores `base+i` for the first `8*(n/8)` elements (`loop8x4`), the scalar tail `loop1x4`
    stores `base+i` (`MOVL CX, DX; ADDL SI, DX`). -/
def bcastAVX2 (base : BitVec 32) (n : Nat) : List (BitVec 32) :=
  (List.range n).map (fun i => if i < 8 * (n / 8) then base + BitVec.ofNat 32 i else base + BitVec.ofNat 32 i)

/-- MIRROR of the same routine as found (F14): the tail did `INCQ SI; MOVL CX, DX; IMULL SI, DX;
    MOVL DX, -4(AX)(SI*4)`, i.e. `dst[i] = base * (i+1)`. -/
def bcastAVX2F14 (base : BitVec 32) (n : Nat) : List (BitVec 32) :=
  (List.range n).map (fun i => if i < 8 * (n / 8) then base + BitVec.ofNat 32 i else base * BitVec.ofNat 32 (i + 1))

/-- MIRROR `column_buffer_amd64.go:19-27` (the machine has AVX2): dispatch on `len(dst) >= 8` -/
def bcastAsm (base : BitVec 32) (n : Nat) : List (BitVec 32) :=
  if n ≥ 8 then bcastAVX2 base n else bcastScalar base n

def bcastAsmF14 (base : BitVec 32) (n : Nat) : List (BitVec 32) :=
  if n ≥ 8 then bcastAVX2F14 base n else bcastScalar base n

theorem bcastAsm_eq_scalar (base : BitVec 32) (n : Nat) : bcastAsm base n = bcastScalar base n := by
  unfold bcastAsm bcastAVX2 bcastScalar
  split
  · apply List.map_congr_left; intro i _; split <;> rfl
  · rfl

/-- a row-index kernel: `k b n` are the `n` entries appended to `rows` when the base column holds
    `b` values -/
abbrev Kernel := Nat → Nat → List Int

/-- the kernel induced by an int32 routine -/
def kernelOf (f : BitVec 32 → Nat → List (BitVec 32)) : Kernel :=
  fun b n => (f (BitVec.ofNat 32 b) n).map BitVec.toInt

theorem kernelOf_scalar {b n : Nat} (h : b + n ≤ 2 ^ 31) : kernelOf bcastScalar b n = rangeFrom b n := by
  unfold kernelOf bcastScalar rangeFrom
  rw [List.map_map]
  apply List.map_congr_left
  intro i hi
  have hi' : i < n := List.mem_range.mp hi
  simp only [Function.comp]
  have h1 : BitVec.ofNat 32 b + BitVec.ofNat 32 i = BitVec.ofNat 32 (b + i) := by
    apply BitVec.eq_of_toNat_eq; simp [BitVec.toNat_add, BitVec.toNat_ofNat]
  rw [h1, BitVec.toInt_eq_toNat_of_lt]
  · simp [BitVec.toNat_ofNat]; omega
  · simp [BitVec.toNat_ofNat]; omega

theorem kernelOf_asm {b n : Nat} (h : b + n ≤ 2 ^ 31) : kernelOf bcastAsm b n = rangeFrom b n := by
  have : kernelOf bcastAsm b n = kernelOf bcastScalar b n := by
    unfold kernelOf; rw [bcastAsm_eq_scalar]
  rw [this, kernelOf_scalar h]

/-! ## the optional column buffer -/

/-- MIRROR `column_buffer_optional.go:22-30`: `base` non-null values, `rows` row → index into
    `base` (-1 for nulls), `defs` definition level per row, `reordered` -/
structure OptCol (V : Type) where
  base : List V
  rows : List Int
  defs : List Nat
  reordered : Bool := false
deriving DecidableEq

def OptCol.empty {V : Type} : OptCol V := { base := [], rows := [], defs := [] }

/-- one call of `writeValues(levels, rows)` / one run of `WriteValues(values)` -/
inductive WOp (V : Type) where
  | nulls (d : Nat) (n : Nat) (mark : Int := -1)   -- `n` rows of definition level `d` (≠ max), index `mark` (< 0)
  | vals (vs : List V)          -- a run of non-null values

/-- MIRROR `column_buffer_optional.go:214-250` (`writeValues`; `WriteValues` 160-212 and
    `writeNull`/`writeLevel` 303-311 append the same entries one by one): nulls append a negative
    mark (`-1`, or what `broadcastValueInt32(dst, -1)` stores: `nullMark`), a non-null run appends
    `k baseLen n` (`broadcastRangeInt32`) -/
def OptCol.write {V : Type} (k : Kernel) (m : Nat) (c : OptCol V) : WOp V → OptCol V
  | .nulls d n mark => { c with rows := c.rows ++ List.replicate n mark, defs := c.defs ++ List.replicate n d }
  | .vals vs => { c with base := c.base ++ vs, rows := c.rows ++ k c.base.length vs.length,
                         defs := c.defs ++ List.replicate vs.length m }

/-- MIRROR `column_buffer_optional.go:147-157` `Swap`: indexes and levels only -/
def OptCol.swap {V : Type} (c : OptCol V) (i j : Nat) : OptCol V :=
  { c with rows := swapL c.rows i j, defs := swapL c.defs i j, reordered := true }

/-- the base indexes of the non-null rows, in row order -/
def nn (rows : List Int) : List Nat := rows.filterMap (fun r => if 0 ≤ r then some r.toNat else none)

/-- C10 invariant of the optional buffer -/
structure OptCol.Inv {V : Type} (m : Nat) (c : OptCol V) : Prop where
  len : c.rows.length = c.defs.length
  perm : (nn c.rows).Perm (List.range c.base.length)
  lvl : ∀ p ∈ c.rows.zip c.defs, (p.2 = m ↔ 0 ≤ p.1)
  ord : c.reordered = false → nn c.rows = List.range c.base.length

theorem nn_append (a b : List Int) : nn (a ++ b) = nn a ++ nn b := by
  unfold nn; exact List.filterMap_append

theorem nn_replicate_neg (n : Nat) {mark : Int} (h : mark < 0) : nn (List.replicate n mark) = [] := by
  unfold nn; rw [List.filterMap_replicate]
  have : ¬ 0 ≤ mark := by omega
  simp [this]

/-- MIRROR of `broadcastValueInt32(dst, -1)`: the assembly build broadcasts the byte 0xFF
    (`column_buffer_amd64.go:12-14`, every int32 = -1); the portable build stores
    `0x01010101 * int32(src)` (`column_buffer_purego.go:7-12`) = -16843009. Only the sign is ever
    tested (`column_buffer_optional.go:100,118`). -/
def nullMark (purego : Bool) : Int :=
  if purego then (BitVec.ofNat 32 0x01010101 * BitVec.ofInt 32 (-1)).toInt else -1

theorem nullMark_neg (purego : Bool) : nullMark purego < 0 := by
  cases purego <;> decide

theorem nn_rangeFrom (b n : Nat) : nn (rangeFrom b n) = (List.range n).map (fun x => b + x) := by
  unfold nn rangeFrom
  rw [List.filterMap_map]
  induction (List.range n) with
  | nil => rfl
  | cons a as ih =>
    simp only [List.filterMap_cons, List.map_cons, Function.comp]
    have : (0 : Int) ≤ ((b + a : Nat) : Int) := Int.natCast_nonneg _
    simp only [this, if_true, Int.toNat_natCast]
    rw [ih]

theorem OptCol.Inv.empty {V : Type} (m : Nat) : (OptCol.empty : OptCol V).Inv m :=
  ⟨rfl, List.Perm.refl _, by intro p hp; simp [OptCol.empty] at hp, fun _ => rfl⟩

theorem OptCol.Inv.write_nulls {V : Type} {m : Nat} {c : OptCol V} (k : Kernel) (h : c.Inv m) {d : Nat} (hd : d ≠ m) (n : Nat)
    {mark : Int} (hm : mark < 0) :
    (c.write k m (.nulls d n mark)).Inv m := by
  refine ⟨?_, ?_, ?_, ?_⟩
  · simp [OptCol.write, h.len]
  · simp only [OptCol.write, nn_append, nn_replicate_neg n hm, List.append_nil]; exact h.perm
  · intro p hp
    simp only [OptCol.write] at hp
    rw [List.zip_append h.len, List.mem_append] at hp
    rcases hp with hp | hp
    · exact h.lvl p hp
    · rw [List.zip_replicate', ] at hp
      obtain ⟨_, rfl⟩ := List.mem_replicate.mp hp
      have : ¬ 0 ≤ mark := by omega
      simp [this]; exact hd
  · intro hr
    simp only [OptCol.write, nn_append, nn_replicate_neg n hm, List.append_nil]
    exact h.ord hr

theorem OptCol.Inv.write_vals {V : Type} {m : Nat} {c : OptCol V} {k : Kernel} (h : c.Inv m) (vs : List V)
    (hk : k c.base.length vs.length = rangeFrom c.base.length vs.length) :
    (c.write k m (.vals vs)).Inv m := by
  refine ⟨?_, ?_, ?_, ?_⟩
  · simp [OptCol.write, h.len, hk, rangeFrom]
  · simp only [OptCol.write, hk, nn_append, nn_rangeFrom, List.length_append, List.range_add]
    exact List.Perm.append h.perm (List.Perm.refl _)
  · intro p hp
    simp only [OptCol.write, hk] at hp
    rw [List.zip_append h.len, List.mem_append] at hp
    rcases hp with hp | hp
    · exact h.lvl p hp
    · have h2 := (List.of_mem_zip hp).2
      have h1 := (List.of_mem_zip hp).1
      have e2 : p.2 = m := (List.mem_replicate.mp h2).2
      unfold rangeFrom at h1
      obtain ⟨x, _, hx⟩ := List.mem_map.mp h1
      constructor
      · intro _; rw [← hx]; exact Int.natCast_nonneg _
      · intro _; exact e2
  · intro hr
    simp only [OptCol.write, hk, nn_append, nn_rangeFrom, List.length_append, List.range_add]
    rw [h.ord hr]

theorem OptCol.Inv.swap {V : Type} {m : Nat} {c : OptCol V} (h : c.Inv m) (i j : Nat) : (c.swap i j).Inv m := by
  refine ⟨?_, ?_, ?_, ?_⟩
  · simp [OptCol.swap, length_swapL, h.len]
  · exact ((swapL_perm c.rows i j).filterMap _).trans h.perm
  · intro p hp
    simp only [OptCol.swap] at hp
    rw [zip_swapL h.len] at hp
    exact h.lvl p ((swapL_perm _ i j).mem_iff.mp hp)
  · intro hr; simp [OptCol.swap] at hr


/-! ## the logical content of the buffer (SPEC) -/

/-- a cell of a row: definition level and value (`none` = null) -/
abbrev Cell (V : Type) := Nat × Option V

def cellOf {V : Type} (base : List V) (r : Int) (d : Nat) : Cell V :=
  (d, if 0 ≤ r then base[r.toNat]? else none)

/-- SPEC: the rows the buffer holds, in row order -/
def OptCol.view {V : Type} (c : OptCol V) : List (Cell V) :=
  (c.rows.zip c.defs).map (fun p => cellOf c.base p.1 p.2)

/-- the cells a write appends -/
def WOp.cells {V : Type} (m : Nat) : WOp V → List (Cell V)
  | .nulls d n _ => List.replicate n (d, none)
  | .vals vs => vs.map (fun v => (m, some v))

theorem OptCol.length_view {V : Type} {m : Nat} {c : OptCol V} (h : c.Inv m) : c.view.length = c.rows.length := by
  simp [OptCol.view, List.length_zip, h.len]

theorem OptCol.view_swap {V : Type} {m : Nat} {c : OptCol V} (h : c.Inv m) (i j : Nat) :
    (c.swap i j).view = swapL c.view i j := by
  simp only [OptCol.view, OptCol.swap]
  rw [zip_swapL h.len, map_swapL]

theorem mem_nn {rows : List Int} {r : Int} (hr : r ∈ rows) (h0 : 0 ≤ r) : r.toNat ∈ nn rows := by
  unfold nn
  exact List.mem_filterMap.mpr ⟨r, hr, by simp [h0]⟩

theorem OptCol.Inv.row_lt {V : Type} {m : Nat} {c : OptCol V} (h : c.Inv m) {r : Int} (hr : r ∈ c.rows) (h0 : 0 ≤ r) :
    r.toNat < c.base.length :=
  List.mem_range.mp (h.perm.mem_iff.mp (mem_nn hr h0))

theorem cellOf_append {V : Type} {base : List V} (vs : List V) {r : Int} (d : Nat) (h : 0 ≤ r → r.toNat < base.length) :
    cellOf (base ++ vs) r d = cellOf base r d := by
  unfold cellOf
  split
  · next h0 => rw [List.getElem?_append_left (h h0)]
  · rfl

theorem OptCol.view_write {V : Type} {m : Nat} {c : OptCol V} {k : Kernel} (h : c.Inv m) (op : WOp V)
    (hm : ∀ d n mark, op = .nulls d n mark → mark < 0)
    (hk : ∀ vs, op = .vals vs → k c.base.length vs.length = rangeFrom c.base.length vs.length) :
    (c.write k m op).view = c.view ++ op.cells m := by
  cases op with
  | nulls d n mark =>
    have : ¬ 0 ≤ mark := by have := hm d n mark rfl; omega
    simp only [OptCol.view, OptCol.write, WOp.cells]
    rw [List.zip_append h.len, List.map_append, List.zip_replicate', List.map_replicate]
    simp [cellOf, this]
  | vals vs =>
    simp only [OptCol.view, OptCol.write, WOp.cells, hk vs rfl]
    rw [List.zip_append h.len, List.map_append]
    congr 1
    · apply List.map_congr_left
      intro p hp
      exact cellOf_append vs p.2 (fun h0 => h.row_lt (List.of_mem_zip hp).1 h0)
    · apply List.ext_getElem?
      intro i
      simp only [List.getElem?_map, List.zip_eq_zipWith, List.getElem?_zipWith, rangeFrom, List.getElem?_replicate]
      by_cases hi : i < vs.length
      · rw [List.getElem?_range hi]
        simp only [hi, if_true, Option.map_some]
        unfold cellOf
        have : (0 : Int) ≤ ((c.base.length + i : Nat) : Int) := Int.natCast_nonneg _
        simp only [this, if_true, Int.toNat_natCast]
        rw [List.getElem?_append_right (by omega)]
        simp [List.getElem?_eq_getElem hi]
      · rw [List.getElem?_eq_none (by simpa using hi)]
        simp [hi]


/-! ## `Page()`: the cyclic reorder of the base column -/

/-- MIRROR `column_buffer_optional.go:93-100`:
    `i := 0; for _, j := range rows { if j >= 0 { sortIndex[j] = int32(i); i++ } }` -/
def buildIdx : List Int → Nat → List Nat → List Nat
  | [], _, idx => idx
  | r :: rs, i, idx => if 0 ≤ r then buildIdx rs (i + 1) (idx.set r.toNat i) else buildIdx rs i idx

/-- MIRROR `column_buffer_optional.go:104-107`, the inner loop (explicit fuel):
    `for j := int(sortIndex[i]); i != j; j = int(sortIndex[i]) { col.base.Swap(i, j); sortIndex[i], sortIndex[j] = sortIndex[j], sortIndex[i] }` -/
def innerL {V : Type} : Nat → List Nat × List V → Nat → List Nat × List V
  | 0, s, _ => s
  | f + 1, s, i =>
    match s.1[i]? with
    | none => s
    | some j => if j = i then s else innerL f (swapL s.1 i j, swapL s.2 i j) i

/-- MIRROR `column_buffer_optional.go:103-108`: `for i := range sortIndex { … }` -/
def outerL {V : Type} (n : Nat) : Nat → List Nat × List V → List Nat × List V
  | 0, s => s
  | k + 1, s => outerL n k (innerL n s (n - (k + 1)))

/-- MIRROR `column_buffer_optional.go:111-118` (after the F24 repair):
    `i := 0; for k, r := range rows { if r >= 0 { rows[k] = int32(i); i++ } }` -/
def renum : List Int → Nat → List Int
  | [], _ => []
  | r :: rs, i => if 0 ≤ r then (i : Int) :: renum rs (i + 1) else r :: renum rs i

/-- MIRROR of the same loop as found (F24): `for _, r := range rows { if r >= 0 { rows[i] = int32(i); i++ } }`
    — the store goes to position `i` (the counter), not to the position being read. The element read
    at position `k` has not been overwritten before (`i ≤ k`), so reading from a snapshot is exact. -/
def renumF24Loop : List Int → Nat → List Int → List Int
  | [], _, rows => rows
  | r :: rs, i, rows => if 0 ≤ r then renumF24Loop rs (i + 1) (rows.set i (i : Int)) else renumF24Loop rs i rows

def renumF24 (rows : List Int) : List Int := renumF24Loop rows 0 rows

/-- the reordered base column of `Page()` (lines 86-109); `numValues = len(rows) - numNulls` -/
def pageBase {V : Type} (m : Nat) (c : OptCol V) : List V :=
  let numNulls := (c.defs.filter (· != m)).length
  let numValues := c.rows.length - numNulls
  if numValues > 0 then
    (outerL numValues numValues (buildIdx c.rows 0 (List.replicate numValues 0), c.base)).2
  else c.base

/-- MIRROR `column_buffer_optional.go:83-124` `Page()` (repaired renumbering) -/
def OptCol.page {V : Type} (m : Nat) (c : OptCol V) : OptCol V :=
  if c.reordered then
    { base := pageBase m c, rows := renum c.rows 0, defs := c.defs, reordered := false }
  else c

/-- `Page()` as found (F24) -/
def OptCol.pageF24 {V : Type} (m : Nat) (c : OptCol V) : OptCol V :=
  if c.reordered then
    { base := pageBase m c, rows := renumF24 c.rows, defs := c.defs, reordered := false }
  else c

theorem count_nulls (m : Nat) : ∀ (rows : List Int) (defs : List Nat), rows.length = defs.length →
    (∀ p ∈ rows.zip defs, (p.2 = m ↔ 0 ≤ p.1)) →
    (defs.filter (· != m)).length + (nn rows).length = rows.length
  | [], [], _, _ => rfl
  | [], _ :: _, h, _ => by simp at h
  | _ :: _, [], h, _ => by simp at h
  | r :: rs, d :: ds, h, hl => by
    have ih := count_nulls m rs ds (by simpa using h) (fun p hp => hl p (by simp [hp]))
    have h0 := hl (r, d) (by simp)
    simp only at h0
    unfold nn at ih ⊢
    simp only [List.filter_cons, List.filterMap_cons, List.length_cons]
    by_cases hr : 0 ≤ r
    · have hd : d = m := h0.mpr hr
      simp only [hr, if_true, hd, bne_self_eq_false, Bool.false_eq_true, if_false, List.length_cons]
      omega
    · have hd : ¬ d = m := fun e => hr (h0.mp e)
      have : (d != m) = true := by simpa using hd
      simp only [hr, if_false, this, if_true, List.length_cons]
      omega

theorem nn_cons_nonneg {r : Int} (rs : List Int) (h : 0 ≤ r) : nn (r :: rs) = r.toNat :: nn rs := by
  simp [nn, h]

theorem nn_cons_neg {r : Int} (rs : List Int) (h : ¬ 0 ≤ r) : nn (r :: rs) = nn rs := by
  simp [nn, h]

theorem buildIdx_spec : ∀ (rs : List Int) (i : Nat) (idx : List Nat), (nn rs).Nodup → (∀ x ∈ nn rs, x < idx.length) →
    (buildIdx rs i idx).length = idx.length ∧
    (∀ k x, (nn rs)[k]? = some x → (buildIdx rs i idx)[x]? = some (i + k)) ∧
    (∀ x, x ∉ nn rs → (buildIdx rs i idx)[x]? = idx[x]?)
  | [], i, idx, _, _ => by
    refine ⟨rfl, ?_, fun _ _ => rfl⟩
    intro k x h; simp [nn] at h
  | r :: rs, i, idx, hnd, hlt => by
    by_cases hr : 0 ≤ r
    · rw [nn_cons_nonneg rs hr] at hnd hlt
      have hnd' := (List.nodup_cons.mp hnd)
      obtain ⟨h1, h2, h3⟩ := buildIdx_spec rs (i + 1) (idx.set r.toNat i) hnd'.2
        (fun x hx => by rw [List.length_set]; exact hlt x (List.mem_cons_of_mem _ hx))
      simp only [buildIdx, hr, if_true]
      refine ⟨by rw [h1, List.length_set], ?_, ?_⟩
      · intro k x hk
        rw [nn_cons_nonneg rs hr] at hk
        cases k with
        | zero =>
          simp at hk; subst hk
          rw [h3 _ hnd'.1, List.getElem?_set]
          simp [hlt r.toNat (List.mem_cons_self)]
        | succ k =>
          simp at hk
          rw [h2 k x hk]; congr 1; omega
      · intro x hx
        rw [nn_cons_nonneg rs hr] at hx
        have hx1 : x ≠ r.toNat := fun e => hx (by rw [e]; exact List.mem_cons_self)
        have hx2 : x ∉ nn rs := fun e => hx (List.mem_cons_of_mem _ e)
        rw [h3 x hx2, List.getElem?_set]
        have hne : ¬ r.toNat = x := fun e => hx1 e.symm
        simp only [hne, if_false]
    · rw [nn_cons_neg rs hr] at hnd hlt
      obtain ⟨h1, h2, h3⟩ := buildIdx_spec rs i idx hnd hlt
      simp only [buildIdx, hr, if_false]
      refine ⟨h1, ?_, ?_⟩
      · intro k x hk; rw [nn_cons_neg rs hr] at hk; exact h2 k x hk
      · intro x hx; rw [nn_cons_neg rs hr] at hx; exact h3 x hx

/-! ### refinement of the list loops to the index-function model of `Reorder.lean` -/

open PqModel.Reorder in
/-- abstraction: lists as index functions (`sortIndex` defaults to the identity out of range) -/
def absS {V : Type} (s : List Nat × List V) : Reorder.S (Option V) :=
  ⟨fun x => (s.1[x]?).getD x, fun x => s.2[x]?⟩

theorem absS_swap {V : Type} {n : Nat} (key : List Nat) (val : List V) {i j : Nat}
    (hk : key.length = n) (hv : val.length = n) (hi : i < n) (hj : j < n) :
    absS (swapL key i j, swapL val i j) = (absS (key, val)).swap i j := by
  unfold absS Reorder.S.swap
  simp only
  congr 1
  · funext x
    rw [getElem?_swapL (by omega) (by omega)]
    unfold tr Reorder.swapF
    by_cases h1 : x = i
    · subst h1
      simp only [if_true]
      rw [List.getElem?_eq_getElem (by omega : j < key.length)]; rfl
    · by_cases h2 : x = j
      · subst h2
        simp only [h1, if_false, if_true]
        rw [List.getElem?_eq_getElem (by omega : i < key.length)]; rfl
      · simp only [h1, h2, if_false]
  · funext x
    rw [getElem?_swapL (by omega) (by omega)]
    unfold tr Reorder.swapF
    by_cases h1 : x = i
    · subst h1; simp
    · by_cases h2 : x = j
      · subst h2; simp [h1]
      · simp [h1, h2]

theorem inner_perm {V : Type} {n : Nat} : ∀ (f : Nat) (s : Reorder.S V) (i : Nat), i < n → Reorder.PermN n s.key →
    Reorder.PermN n (Reorder.inner f s i).key
  | 0, _, _, _, hp => hp
  | f + 1, s, i, hi, hp => by
    simp only [Reorder.inner]
    split
    · exact hp
    · exact inner_perm f _ i hi (Reorder.swap_perm hp hi (hp.1 i hi))

theorem innerL_refines {V : Type} {n : Nat} : ∀ (f : Nat) (key : List Nat) (val : List V) (i : Nat),
    key.length = n → val.length = n → i < n → Reorder.PermN n (absS (key, val)).key →
    absS (innerL f (key, val) i) = Reorder.inner f (absS (key, val)) i ∧
    (innerL f (key, val) i).1.length = n ∧ (innerL f (key, val) i).2.length = n
  | 0, key, val, i, hk, hv, _, _ => ⟨rfl, hk, hv⟩
  | f + 1, key, val, i, hk, hv, hi, hp => by
    have hki : key[i]? = some key[i] := List.getElem?_eq_getElem (by omega)
    have habs : (absS (key, val)).key i = key[i] := by simp [absS, hki]
    simp only [innerL, Reorder.inner, hki, habs]
    by_cases he : key[i] = i
    · rw [if_pos he, if_pos he]; exact ⟨rfl, hk, hv⟩
    · rw [if_neg he, if_neg he]
      have hj : key[i] < n := by have := hp.1 i hi; rw [habs] at this; exact this
      have hsw := absS_swap key val hk hv hi hj
      have ih := innerL_refines f (swapL key i key[i]) (swapL val i key[i]) i
        (by rw [length_swapL, hk]) (by rw [length_swapL, hv]) hi
        (by rw [hsw]; exact Reorder.swap_perm hp hi hj)
      rw [hsw] at ih
      exact ih

theorem outerL_refines {V : Type} {n : Nat} : ∀ (k : Nat) (key : List Nat) (val : List V),
    k ≤ n → key.length = n → val.length = n → Reorder.PermN n (absS (key, val)).key →
    absS (outerL n k (key, val)) = Reorder.outer n k (absS (key, val)) ∧ (outerL n k (key, val)).2.length = n
  | 0, key, val, _, _, hv, _ => ⟨rfl, hv⟩
  | k + 1, key, val, hkn, hk, hv, hp => by
    simp only [outerL, Reorder.outer]
    have hi : n - (k + 1) < n := by omega
    obtain ⟨h1, h2, h3⟩ := innerL_refines n key val (n - (k + 1)) hk hv hi hp
    have hp' := inner_perm n (absS (key, val)) (n - (k + 1)) hi hp
    rw [← h1] at hp'
    have ih := outerL_refines k (innerL n (key, val) (n - (k + 1))).1 (innerL n (key, val) (n - (k + 1))).2
      (by omega) h2 h3 hp'
    rw [h1] at ih
    exact ih


theorem OptCol.Inv.numValues {V : Type} {m : Nat} {c : OptCol V} (h : c.Inv m) :
    c.rows.length - (c.defs.filter (· != m)).length = c.base.length := by
  have h1 := count_nulls m c.rows c.defs h.len h.lvl
  have h2 := h.perm.length_eq
  rw [List.length_range] at h2
  omega

/-- the reordered base column lists the values of the non-null rows in row order -/
theorem pageBase_spec {V : Type} {m : Nat} {c : OptCol V} (h : c.Inv m) :
    (pageBase m c).length = c.base.length ∧
    ∀ x : Nat, (pageBase m c)[x]? = ((nn c.rows)[x]?).bind (fun (k : Nat) => c.base[k]?) := by
  have hlen : (nn c.rows).length = c.base.length := by
    have := h.perm.length_eq; rwa [List.length_range] at this
  unfold pageBase
  simp only [h.numValues]
  by_cases hn : c.base.length > 0
  · simp only [hn, if_true]
    -- the index built from `rows`
    have hnd : (nn c.rows).Nodup := h.perm.nodup_iff.mpr List.nodup_range
    obtain ⟨b1, b2, _⟩ := buildIdx_spec c.rows 0 (List.replicate c.base.length 0) hnd
      (fun x hx => by rw [List.length_replicate]; exact List.mem_range.mp (h.perm.mem_iff.mp hx))
    rw [List.length_replicate] at b1
    generalize hidx : buildIdx c.rows 0 (List.replicate c.base.length 0) = idx at b1 b2
    -- every x < n is the k-th non-null row for exactly one k, and idx[x] = k
    have hex : ∀ x, x < c.base.length → ∃ k, (nn c.rows)[k]? = some x ∧ idx[x]? = some k := by
      intro x hx
      have hm : x ∈ nn c.rows := h.perm.mem_iff.mpr (List.mem_range.mpr hx)
      obtain ⟨k, hk⟩ := List.mem_iff_getElem?.mp hm
      exact ⟨k, hk, by simpa using b2 k x hk⟩
    have hperm : Reorder.PermN c.base.length (absS (idx, c.base)).key := by
      refine ⟨?_, ?_⟩
      · intro x hx
        obtain ⟨k, hk1, hk2⟩ := hex x hx
        simp only [absS, hk2, Option.getD_some]
        have := (List.getElem?_eq_some_iff.mp hk1).1
        omega
      · intro x y hx hy he
        obtain ⟨k, hk1, hk2⟩ := hex x hx
        obtain ⟨k', hk1', hk2'⟩ := hex y hy
        simp only [absS, hk2, hk2', Option.getD_some] at he
        subst he
        rw [hk1] at hk1'
        exact Option.some.inj hk1'
    have harr : Reorder.Arr c.base.length (absS (idx, c.base))
        (fun k => ((nn c.rows)[k]?).bind (fun (k : Nat) => c.base[k]?)) := by
      intro x hx
      obtain ⟨k, hk1, hk2⟩ := hex x hx
      simp only [absS, hk2, Option.getD_some, hk1, Option.bind_some]
    obtain ⟨r1, r2⟩ := outerL_refines c.base.length idx c.base (Nat.le_refl _) b1 rfl hperm
    have hc := Reorder.reorder_correct (absS (idx, c.base)) hperm harr
    rw [← r1] at hc
    refine ⟨r2, ?_⟩
    intro x
    by_cases hx : x < c.base.length
    · exact hc x hx
    · rw [List.getElem?_eq_none (by omega), List.getElem?_eq_none (by omega)]; rfl
  · simp only [hn, if_false]
    refine ⟨trivial, ?_⟩
    intro x
    rw [List.getElem?_eq_none (by omega), List.getElem?_eq_none (by omega)]; rfl

theorem length_renum : ∀ (rows : List Int) (i : Nat), (renum rows i).length = rows.length
  | [], _ => rfl
  | r :: rs, i => by
    simp only [renum]
    split <;> simp [length_renum rs]

theorem nn_renum : ∀ (rows : List Int) (i : Nat), nn (renum rows i) = (List.range (nn rows).length).map (fun x => i + x)
  | [], _ => rfl
  | r :: rs, i => by
    by_cases hr : 0 ≤ r
    · have : (0 : Int) ≤ (i : Int) := Int.natCast_nonneg _
      simp only [renum, hr, if_true]
      rw [nn_cons_nonneg _ this, nn_cons_nonneg _ hr, nn_renum rs (i + 1), List.length_cons, List.range_succ_eq_map]
      simp only [List.map_cons, List.map_map, Int.toNat_natCast, Nat.add_zero]
      congr 1
      apply List.map_congr_left
      intro x _; simp only [Function.comp]; omega
    · simp only [renum, hr, if_false]
      rw [nn_cons_neg _ hr, nn_cons_neg _ hr, nn_renum rs i]

theorem lvl_renum (m : Nat) : ∀ (rows : List Int) (defs : List Nat) (i : Nat),
    (∀ p ∈ rows.zip defs, (p.2 = m ↔ 0 ≤ p.1)) → ∀ p ∈ (renum rows i).zip defs, (p.2 = m ↔ 0 ≤ p.1)
  | [], _, _, _ => by intro p hp; simp [renum] at hp
  | _ :: _, [], _, _ => by intro p hp; simp at hp
  | r :: rs, d :: ds, i, h => by
    intro p hp
    have ih := lvl_renum m rs ds
    have h0 := h (r, d) (by simp)
    simp only at h0
    by_cases hr : 0 ≤ r
    · simp only [renum, hr, if_true, List.zip_cons_cons, List.mem_cons] at hp
      rcases hp with rfl | hp
      · simp only; rw [h0]; simp [hr, Int.natCast_nonneg]
      · exact ih (i + 1) (fun q hq => h q (by simp [hq])) p hp
    · simp only [renum, hr, if_false, List.zip_cons_cons, List.mem_cons] at hp
      rcases hp with rfl | hp
      · exact h0
      · exact ih i (fun q hq => h q (by simp [hq])) p hp

theorem view_renum {V : Type} (base base' : List V) : ∀ (rows : List Int) (defs : List Nat) (i : Nat),
    (∀ k, base'[i + k]? = ((nn rows)[k]?).bind (fun (x : Nat) => base[x]?)) →
    ((renum rows i).zip defs).map (fun p => cellOf base' p.1 p.2) = (rows.zip defs).map (fun p => cellOf base p.1 p.2)
  | [], _, _, _ => by simp [renum]
  | _ :: _, [], _, _ => by simp
  | r :: rs, d :: ds, i, h => by
    by_cases hr : 0 ≤ r
    · simp only [renum, hr, if_true, List.zip_cons_cons, List.map_cons]
      congr 1
      · have := h 0
        rw [nn_cons_nonneg _ hr] at this
        simp only [Nat.add_zero, List.getElem?_cons_zero, Option.bind_some] at this
        simp [cellOf, hr, Int.natCast_nonneg, this]
      · apply view_renum base base' rs ds (i + 1)
        intro k
        have := h (k + 1)
        rw [nn_cons_nonneg _ hr] at this
        simp only [List.getElem?_cons_succ] at this
        rw [← this]; congr 1; omega
    · simp only [renum, hr, if_false, List.zip_cons_cons, List.map_cons]
      congr 1
      · simp [cellOf, hr]
      · apply view_renum base base' rs ds i
        intro k
        have := h k
        rwa [nn_cons_neg _ hr] at this


theorem map_some_eq_of_bind {V : Type} {base base' : List V} {p : List Nat} (hp : ∀ k ∈ p, k < base.length)
    (h : ∀ x : Nat, base'[x]? = (p[x]?).bind (fun (k : Nat) => base[k]?)) :
    base'.map some = p.map (fun (k : Nat) => base[k]?) := by
  apply List.ext_getElem?
  intro x
  rw [List.getElem?_map, List.getElem?_map, h x]
  cases hx : p[x]? with
  | none => rfl
  | some k =>
    have hk : k < base.length := hp k (List.mem_iff_getElem?.mpr ⟨x, hx⟩)
    simp [List.getElem?_eq_getElem hk]

/-- `Page()` under the invariant: the invariant is kept, the logical content is unchanged, the
    row index is renumbered to the identity on the non-null rows (physical order = row order) and
    the base column lists the non-null values in row order. -/
theorem OptCol.page_spec {V : Type} {m : Nat} {c : OptCol V} (h : c.Inv m) :
    (c.page m).Inv m ∧ (c.page m).reordered = false ∧ (c.page m).view = c.view ∧ (c.page m).defs = c.defs ∧
    nn (c.page m).rows = List.range (c.page m).base.length ∧
    (c.page m).base.map some = (nn c.rows).map (fun (k : Nat) => c.base[k]?) := by
  have hmem : ∀ k ∈ nn c.rows, k < c.base.length := fun k hk => List.mem_range.mp (h.perm.mem_iff.mp hk)
  by_cases hr : c.reordered = true
  · obtain ⟨p1, p2⟩ := pageBase_spec h
    have hlen : (nn c.rows).length = c.base.length := by
      have := h.perm.length_eq; rwa [List.length_range] at this
    have hnn : nn (renum c.rows 0) = List.range (pageBase m c).length := by
      rw [nn_renum, hlen, p1]
      conv => rhs; rw [← List.map_id (List.range c.base.length)]
      apply List.map_congr_left; intro x _; simp
    have hview : ((renum c.rows 0).zip c.defs).map (fun p => cellOf (pageBase m c) p.1 p.2) = c.view :=
      view_renum c.base (pageBase m c) c.rows c.defs 0 (fun k => by rw [Nat.zero_add]; exact p2 k)
    have hpage : c.page m = { base := pageBase m c, rows := renum c.rows 0, defs := c.defs, reordered := false } := by
      simp [OptCol.page, hr]
    rw [hpage]
    refine ⟨⟨?_, ?_, ?_, ?_⟩, rfl, hview, rfl, hnn, map_some_eq_of_bind hmem p2⟩
    · simp [length_renum, h.len]
    · simp only; rw [hnn]
    · exact lvl_renum m c.rows c.defs 0 h.lvl
    · intro _; exact hnn
  · have hr' : c.reordered = false := by simpa using hr
    have hpage : c.page m = c := by simp [OptCol.page, hr']
    rw [hpage]
    refine ⟨h, hr', rfl, rfl, h.ord hr', ?_⟩
    rw [h.ord hr']
    apply List.ext_getElem?
    intro x
    rw [List.getElem?_map, List.getElem?_map]
    by_cases hx : x < c.base.length
    · rw [List.getElem?_range hx]; simp [List.getElem?_eq_getElem hx]
    · rw [List.getElem?_eq_none (by omega), List.getElem?_eq_none (by simp; omega)]; rfl


end PqModel.SortBuf
