import PqModel.Async
import PqModel.AsyncInv

/-! # PoolAsync — who owns the page buffers while `asyncPages` runs (property C16)

The transition system of `PqModel.Async` (MIRROR of page.go:121-328: consumer, producer goroutine,
the three channels; all interleavings) is extended by the refcounted page buffers that travel
through it. Nothing of `Async.Step` is restated: a library step of this system IS a step of
`Async.Step` (`OStep.lib`) together with its effect on the buffers (`eff`), so every theorem of C15
about the protocol applies to the projection (`oreach_proj`).

What is added (MIRROR, with the lines it transliterates):

* `Hp.refc`/`Hp.pooled` — reference count of the buffers behind a `bufferedPage` (buffer.go:575-631:
  `Retain`/`Release`/`Slice` move the counters of all buffers of a page together, so one counter per
  page storage is kept) and whether the storage went back to `sync.Pool` (refcount reached zero:
  `buffer.unref`, where the verif hook poisons it). A decode takes a buffer the model has not seen
  (`nbuf`); pool reuse is the business of `PqModel.Pool` (`get_never_returns_aliased`): here
  `pooled b` means "from now on anybody's `get` may overwrite it".
* `last` — `FilePages.lastPage` of the WRAPPED reader (file.go:1314-1320: release the cached page,
  cache the new one with `Retain`; file.go:1224-1233: a page served from the cache is a `Slice` of
  it, one more reference on the same buffers; file.go:1152,1738: `Close` releases it). It is touched
  by the producer goroutine only.
* `sendB` — the local `page` of `readPages` while it sits in the `select` (page.go:290,303,308-322),
  `gotB` — `p.page` of the consumer between the receive and the version test (page.go:190-210).
* `appc` — GHOST: the references the application holds (one per page `ReadPage` returned,
  page.go:205, plus its own `Retain`s minus its own `Release`s). The application is a third party
  that may run between any two steps of the two goroutines (`OStep.appRetain`, `OStep.appRelease`).
* `bug` — an `unref` of a counter that is zero / a `ref` of a pooled buffer happened (the panics of
  buffer.go `unref`/`ref`).

* `cached` / `skipped` (parameters of a library step) — choices of the wrapped reader the protocol
  does not see: whether the page it returns is a `Slice` of its cached page, and how many pages one
  `ReadPage` decodes and skips on its way to the seek target (file.go:1352-1361; each skipped page
  replaces `lastPage`, the loop may end in io.EOF: SeekToRow behind the last row). Every choice is a
  step, so the theorems hold for all of them; the L2 check derives the choices the library made from
  the page layout and cross-checks them with the buffer identities it observes.

Not modelled: the transient buffers inside one wrapped `ReadPage` (page bytes, levels: balanced
within the producer's step), the dictionary page buffer kept by `FilePages`, the values / rows read
out of a delivered page (that is `PqModel.Pool`'s alias level). -/
namespace PqModel.PoolAsync
open PqModel.Async

def cnt (x : Option Nat) (b : Nat) : Nat := if x = some b then 1 else 0

/-- the refcounted storage of the pages -/
structure Hp where
  refc : Nat → Nat
  pooled : Nat → Bool
  nbuf : Nat
  bug : Bool

structure O where
  g : G
  h : Hp
  last : Option Nat
  sendB : Option Nat
  gotB : Option Nat
  appc : Nat → Nat

def init : O :=
  { g := Async.init, h := ⟨fun _ => 0, fun _ => false, 0, false⟩, last := none,
    sendB := none, gotB := none, appc := fun _ => 0 }

/-- buffer.go `bufferUnref` on every buffer of the page (`Release(nil)` does nothing);
    the storage goes back to the pool when the counter reaches zero -/
def Hp.unref (h : Hp) : Option Nat → Hp
  | none => h
  | some b =>
    if h.refc b = 0 then { h with bug := true }
    else { h with refc := fun j => if j = b then h.refc b - 1 else h.refc j,
                  pooled := fun j => if j = b then decide (h.refc b = 1) else h.pooled j }

/-- buffer.go `bufferRef` on every buffer of the page -/
def Hp.ref (h : Hp) (b : Nat) : Hp :=
  if h.refc b = 0 then { h with bug := true }
  else { h with refc := fun j => if j = b then h.refc b + 1 else h.refc j }

/-- a page is decoded into storage the model has not seen: one reference for the page returned by
    the decode, one for `Retain(page)` of file.go:1320 -/
def Hp.alloc (h : Hp) : Hp :=
  { h with refc := fun j => if j = h.nbuf then 2 else h.refc j,
           pooled := fun j => if j = h.nbuf then false else h.pooled j,
           nbuf := h.nbuf + 1 }

/-- the storage of a page that the wrapped `ReadPage` decodes and skips (file.go:1352-1361:
    `Release(page)` after `Retain(page)` for the cache): one reference, the cache's -/
def Hp.alloc1 (h : Hp) : Hp :=
  { h with refc := fun j => if j = h.nbuf then 1 else h.refc j,
           pooled := fun j => if j = h.nbuf then false else h.pooled j,
           nbuf := h.nbuf + 1 }

/-- MIRROR of the wrapped `FilePages.ReadPage` returning a page (file.go:1224-1233 cached,
    file.go:1246-1365 decoded): the returned page goes to the producer's local `page` -/
def O.readUnder (o : O) (cached : Bool) : O :=
  match cached, o.last with
  | true, some b => { o with h := o.h.ref b, sendB := some b }    -- lastPage.Slice(skip, numRows)
  | _, _ =>
    let h1 := o.h.unref o.last                                     -- :1314-1316 Release(f.lastPage)
    { o with h := h1.alloc, last := some h1.nbuf, sendB := some h1.nbuf }

/-- MIRROR of the wrapped `FilePages.Close` (file.go:1738-1740 `Release(f.lastPage)`), evaluated by
    the producer's deferred function (page.go:255) -/
def O.closeUnder (o : O) : O := { o with h := o.h.unref o.last, last := none }

/-- MIRROR of one iteration of the loop of the wrapped `ReadPage` that decodes a page and skips it
    because the seek target lies behind it (file.go:1314-1320 then :1352-1361 `numRows <= f.skip`):
    the cache lets go of the page it held and keeps the skipped one -/
def O.skipOne (o : O) : O :=
  let h1 := o.h.unref o.last
  { o with h := h1.alloc1, last := some h1.nbuf }

def O.skipUnder (o : O) : Nat → O
  | 0 => o
  | n + 1 => (o.skipOne).skipUnder n

/-- page.go:303-307: what the wrapped `ReadPage` (or the failed `SeekToRow`) leaves in `page` -/
def offerEff (o : O) (cached : Bool) : Res → O
  | .page _ => o.readUnder cached
  | _ => { o with sendB := none }                                -- nil page with io.EOF / an error

/-- effect of a step of `Async.Step` on the buffers; `o.g` is the state BEFORE the step.
    `cached`: the wrapped reader serves the page from its cache; `skipped`: how many pages the wrapped
    `ReadPage` decodes and skips before it produces its result (both are choices of the wrapped
    reader the protocol does not see: every choice is a step) -/
def eff (o : O) (cached : Bool) (skipped : Nat) : Ev → O
  | .bodyOffer r _ => offerEff (o.skipUnder skipped) cached r     -- page.go:303
  | .handoff => { o with gotB := o.sendB, sendB := none }        -- page.go:190 / :309-313
  | .deliver _ _ =>                                              -- page.go:205: the caller owns it
    { o with gotB := none, appc := fun j => o.appc j + cnt o.gotB j }
  | .drop _ => { o with h := o.h.unref o.gotB, gotB := none }    -- page.go:210 Release(p.page)
  | .closeRecv => { o with h := o.h.unref o.sendB, sendB := none } -- page.go:175 Release(p.page)
  | .selTake _ _ => { o with h := o.h.unref o.sendB, sendB := none } -- page.go:317 Release(page)
  | .selDone => O.closeUnder { o with h := o.h.unref o.sendB, sendB := none } -- page.go:320, then :255
  | .initDone => o.closeUnder                                    -- page.go:268, then :255
  | _ => o

inductive Lbl where
  | lib (e : Ev) (cached : Bool) (skipped : Nat)
  | appRetain (b : Nat)
  | appRelease (b : Nat)
deriving DecidableEq, Repr

/-- all interleavings of the consumer, the producer and an application that retains / releases the
    pages it holds at any moment (also while the consumer is inside a call: another goroutine of the
    application may do that) -/
inductive OStep (U : Under) : O → Lbl → O → Prop where
  | lib {o e g'} (cached : Bool) (skipped : Nat) :
      Step U o.g e g' → OStep U o (.lib e cached skipped) { eff o cached skipped e with g := g' }
  /-- `parquet.Retain(page)` by the application on a page it holds -/
  | appRetain {o b} : 0 < o.appc b →
      OStep U o (.appRetain b) { o with h := o.h.ref b, appc := fun j => o.appc j + cnt (some b) j }
  /-- `parquet.Release(page)` by the application on a page it holds -/
  | appRelease {o b} : 0 < o.appc b →
      OStep U o (.appRelease b)
        { o with h := o.h.unref (some b), appc := fun j => o.appc j - cnt (some b) j }

inductive OPath (U : Under) : O → List Lbl → O → Prop where
  | nil {o} : OPath U o [] o
  | cons {o l o' ls o''} : OStep U o l o' → OPath U o' ls o'' → OPath U o (l :: ls) o''

def OReach (U : Under) (o : O) : Prop := ∃ ls, OPath U init ls o

theorem OPath.snoc {U o ls o' l o''} (h : OPath U o ls o') (s : OStep U o' l o'') :
    OPath U o (ls ++ [l]) o'' := by
  induction h with
  | nil => exact .cons s .nil
  | cons s' _ ih => exact .cons s' (ih s)

theorem OReach.step {U o l o'} (h : OReach U o) (s : OStep U o l o') : OReach U o' := by
  obtain ⟨ls, hp⟩ := h
  exact ⟨ls ++ [l], hp.snoc s⟩

theorem oreach_induction {U : Under} {P : O → Prop} (h0 : P init)
    (hs : ∀ o l o', P o → OStep U o l o' → P o') : ∀ o, OReach U o → P o := by
  intro o ⟨ls, hp⟩
  have : ∀ o0 ls o, OPath U o0 ls o → P o0 → P o := by
    intro o0 ls o hp
    induction hp with
    | nil => exact id
    | cons s _ ih => exact fun h => ih (hs _ _ _ h s)
  exact this _ _ _ hp h0

/-- the protocol part of a step is a step of `PqModel.Async` (or nothing: the application's own
    Retain / Release) -/
theorem ostep_proj {U o l o'} (h : OStep U o l o') : o'.g = o.g ∨ ∃ e, Step U o.g e o'.g := by
  cases h with
  | lib c n hs => exact .inr ⟨_, hs⟩
  | appRetain h => exact .inl rfl
  | appRelease h => exact .inl rfl

theorem oreach_proj {U o} (h : OReach U o) : Reachable U o.g := by
  refine oreach_induction (P := fun o => Reachable U o.g) ⟨[], .nil⟩ ?_ o h
  intro o l o' ⟨es, hp⟩ hs
  rcases ostep_proj hs with he | ⟨e, he⟩
  · rw [he]; exact ⟨es, hp⟩
  · exact ⟨es ++ [e], hp.snoc he⟩

/-! ## The heap against an abstract claim count -/

/-- `K b` = how many references on `b` somebody owns -/
structure HeapOK (h : Hp) (K : Nat → Nat) : Prop where
  nobug : h.bug = false
  count : ∀ b, h.refc b = K b
  pool : ∀ b, b < h.nbuf → (h.pooled b = true ↔ h.refc b = 0)
  fresh : ∀ b, h.nbuf ≤ b → h.refc b = 0 ∧ h.pooled b = false

theorem HeapOK.congr {h K K'} (ok : HeapOK h K) (e : ∀ b, K b = K' b) : HeapOK h K' :=
  ⟨ok.nobug, fun b => (ok.count b).trans (e b), ok.pool, ok.fresh⟩

theorem HeapOK.lt {h K b} (ok : HeapOK h K) (hb : 0 < K b) : b < h.nbuf := by
  have := ok.count b
  have := ok.fresh b
  omega

theorem unref_nbuf (h : Hp) (x : Option Nat) : (h.unref x).nbuf = h.nbuf := by
  cases x with
  | none => rfl
  | some b => simp only [Hp.unref]; split <;> rfl

/-- releasing a reference somebody owns: no panic, one claim less -/
theorem unref_ok {h K} (ok : HeapOK h K) (x : Option Nat) (hx : ∀ b, x = some b → 0 < K b) :
    HeapOK (h.unref x) (fun j => K j - cnt x j) := by
  cases x with
  | none => exact ok.congr (by intro b; simp [cnt])
  | some b =>
    have hb := hx b rfl
    have hc := ok.count b
    have hlt := ok.lt hb
    have hne : ¬ h.refc b = 0 := by omega
    simp only [Hp.unref, if_neg hne]
    constructor
    · exact ok.nobug
    · intro j
      have := ok.count j
      simp only [cnt]
      by_cases hj : j = b
      · subst hj; simp; omega
      · have : ¬ some b = some j := by intro h; cases h; exact hj rfl
        simp [hj, this]; omega
    · intro j hjl
      have := ok.pool j hjl
      by_cases hj : j = b
      · subst hj; simp; omega
      · simp [hj]; exact this
    · intro j hjl
      have hjl : h.nbuf ≤ j := hjl
      have := ok.fresh j hjl
      have hj : j ≠ b := by omega
      simp [hj]; exact this

/-- taking one more reference on a page somebody owns: no panic -/
theorem ref_ok {h K b} (ok : HeapOK h K) (hb : 0 < K b) :
    HeapOK (h.ref b) (fun j => K j + cnt (some b) j) := by
  have hc := ok.count b
  have hlt := ok.lt hb
  have hne : ¬ h.refc b = 0 := by omega
  simp only [Hp.ref, if_neg hne]
  refine ⟨ok.nobug, ?_, ?_, ?_⟩
  · intro j
    have := ok.count j
    simp only [cnt]
    by_cases hj : j = b
    · subst hj; simp; omega
    · have : ¬ some b = some j := by intro h; cases h; exact hj rfl
      simp [hj, this]; omega
  · intro j hjl
    have := ok.pool j hjl
    by_cases hj : j = b
    · subst hj
      have hp : ¬ h.pooled j = true := fun hp => hne (this.mp hp)
      simp [hp]
    · simp [hj]; exact this
  · intro j hjl
    have hjl : h.nbuf ≤ j := hjl
    have := ok.fresh j hjl
    have hj : j ≠ b := by omega
    simp [hj]; exact this

theorem ref_nbuf (h : Hp) (b : Nat) : (h.ref b).nbuf = h.nbuf := by
  simp only [Hp.ref]; split <;> rfl

theorem alloc_ok {h K} (ok : HeapOK h K) :
    HeapOK h.alloc (fun j => K j + 2 * cnt (some h.nbuf) j) := by
  simp only [Hp.alloc]
  refine ⟨ok.nobug, ?_, ?_, ?_⟩
  · intro j
    have := ok.count j
    have := ok.fresh j
    simp only [cnt]
    by_cases hj : j = h.nbuf
    · subst hj; simp; omega
    · have : ¬ some h.nbuf = some j := by intro h; cases h; exact hj rfl
      simp [hj, this]; omega
  · intro j hjl
    by_cases hj : j = h.nbuf
    · subst hj; simp
    · have := ok.pool j (by simp at hjl; omega)
      simp [hj]; exact this
  · intro j hjl
    have := ok.fresh j (by simp at hjl; omega)
    have hj : j ≠ h.nbuf := by simp at hjl; omega
    simp [hj]; exact this

theorem alloc1_ok {h K} (ok : HeapOK h K) :
    HeapOK h.alloc1 (fun j => K j + cnt (some h.nbuf) j) := by
  simp only [Hp.alloc1]
  refine ⟨ok.nobug, ?_, ?_, ?_⟩
  · intro j
    have := ok.count j
    have := ok.fresh j
    simp only [cnt]
    by_cases hj : j = h.nbuf
    · subst hj; simp; omega
    · have : ¬ some h.nbuf = some j := by intro h; cases h; exact hj rfl
      simp [hj, this]; omega
  · intro j hjl
    by_cases hj : j = h.nbuf
    · subst hj; simp
    · have := ok.pool j (by simp at hjl; omega)
      simp [hj]; exact this
  · intro j hjl
    have := ok.fresh j (by simp at hjl; omega)
    have hj : j ≠ h.nbuf := by simp at hjl; omega
    simp [hj]; exact this

/-! ## The ownership invariant -/

/-- every reference is somebody's: the producer's `page`, the consumer's `p.page`, the wrapped
    reader's `lastPage`, or the application -/
def claims (o : O) (b : Nat) : Nat := cnt o.sendB b + cnt o.gotB b + cnt o.last b + o.appc b

structure OInv (o : O) : Prop where
  heap : HeapOK o.h (claims o)
  send_pc : o.sendB ≠ none → ∃ it, o.g.ppc = .send it
  got_pc : o.gotB ≠ none → ∃ it, o.g.cpc = .got it
  fin_last : o.g.ppc = .final ∨ o.g.ppc = .exited → o.last = none

theorem oinv_init : OInv init := by
  constructor
  · constructor <;> simp [init, claims, cnt]
  all_goals simp [init, Async.init]

theorem claims_pos_send {o b} (h : o.sendB = some b) : 0 < claims o b := by
  simp [claims, cnt, h]; omega
theorem claims_pos_got {o b} (h : o.gotB = some b) : 0 < claims o b := by
  simp [claims, cnt, h]; omega
theorem claims_pos_last {o b} (h : o.last = some b) : 0 < claims o b := by
  simp [claims, cnt, h]; omega

theorem skipOne_inv {o} (hi : OInv o) (hp : o.g.ppc = .top) : OInv o.skipOne := by
  obtain ⟨hh, h5, h6, h7⟩ := hi
  simp only [O.skipOne]
  refine ⟨(alloc1_ok (unref_ok hh o.last (fun b hl => claims_pos_last hl))).congr ?_, h5, h6, ?_⟩
  · intro j; simp only [claims, cnt]; grind
  · intro hf
    rw [hp] at hf; simp at hf

@[simp] theorem skipUnder_g (o : O) (n : Nat) : (o.skipUnder n).g = o.g := by
  induction n generalizing o with
  | zero => rfl
  | succ n ih => simp only [O.skipUnder, ih]; rfl
@[simp] theorem skipUnder_sendB (o : O) (n : Nat) : (o.skipUnder n).sendB = o.sendB := by
  induction n generalizing o with
  | zero => rfl
  | succ n ih => simp only [O.skipUnder, ih]; rfl
@[simp] theorem skipUnder_appc (o : O) (n : Nat) : (o.skipUnder n).appc = o.appc := by
  induction n generalizing o with
  | zero => rfl
  | succ n ih => simp only [O.skipUnder, ih]; rfl

/-- skipping happens in the producer's loop body only (`ppc = top`) -/
theorem skipUnder_inv {o} (hi : OInv o) (hp : o.g.ppc = .top) (n : Nat) : OInv (o.skipUnder n) := by
  induction n generalizing o with
  | zero => exact hi
  | succ n ih => exact ih (skipOne_inv hi hp) hp

/-- the wrapped reader's result goes to the producer's `page` -/
theorem offer_inv {o c r g'} (hi : OInv o) (hs0 : o.sendB = none) (hp' : ∃ it, g'.ppc = .send it)
    (hc' : g'.cpc = o.g.cpc) : OInv { offerEff o c r with g := g' } := by
  obtain ⟨hh, h5, h6, h7⟩ := hi
  have hfin : ¬ (g'.ppc = .final ∨ g'.ppc = .exited) := by
    obtain ⟨it, hit⟩ := hp'; rw [hit]; simp
  cases r
  case page pos =>
    simp only [offerEff, O.readUnder]
    split
    · rename_i b hl
      refine ⟨(ref_ok hh (claims_pos_last hl)).congr ?_, fun _ => hp', ?_, fun hf => absurd hf hfin⟩
      · intro j; simp only [claims, cnt, hs0]; grind
      · intro hg; rw [hc']; exact h6 hg
    · refine ⟨(alloc_ok (unref_ok hh o.last (fun b hl => claims_pos_last hl))).congr ?_,
        fun _ => hp', ?_, fun hf => absurd hf hfin⟩
      · intro j; simp only [claims, cnt, hs0]; grind
      · intro hg; rw [hc']; exact h6 hg
  all_goals
    simp only [offerEff]
    refine ⟨hh.congr ?_, ?_, ?_, fun hf => absurd hf hfin⟩
    · intro j; simp only [claims, cnt, hs0]
    · intro hf; simp at hf
    · intro hg; rw [hc']; exact h6 hg

/-- every step of the consumer, of the producer and of the application preserves the invariant -/
theorem oinv_step {U o l o'} (hi : OInv o) (h : OStep U o l o') : OInv o' := by
  obtain ⟨hh, h5, h6, h7⟩ := hi
  cases h with
  | appRetain ha =>
    refine ⟨(ref_ok hh (by simp only [claims]; omega)).congr ?_, h5, h6, h7⟩
    intro j; simp only [claims]; omega
  | appRelease ha =>
    rename_i b
    refine ⟨(unref_ok hh (some b) (by intro b' e; cases e; simp only [claims]; omega)).congr ?_, h5, h6, h7⟩
    intro j
    by_cases hj : b = j
    · subst hj; simp only [claims, cnt]; simp; omega
    · have : ¬ some b = some j := by intro h; cases h; exact hj rfl
      simp only [claims, cnt, this]; simp
  | lib c n hs =>
    cases hs
    case bodyOffer l r hp hb =>
      have hs0 : o.sendB = none := by
        cases hsb : o.sendB with
        | none => rfl
        | some b => obtain ⟨it, hit⟩ := h5 (by simp [hsb]); rw [hp] at hit; cases hit
      simp only [eff]
      exact offer_inv (skipUnder_inv ⟨hh, h5, h6, h7⟩ hp n) (by rw [skipUnder_sendB]; exact hs0)
        ⟨_, rfl⟩ (by rw [skipUnder_g])
    case handoff it hc hp =>
      have hg0 : o.gotB = none := by
        cases hgb : o.gotB with
        | none => rfl
        | some b => obtain ⟨it, hit⟩ := h6 (by simp [hgb]); rw [hc] at hit; cases hit
      simp only [eff]
      refine ⟨hh.congr ?_, ?_, ?_, ?_⟩
      · intro j; simp only [claims, cnt, hg0]; grind
      · intro hf; simp at hf
      · intro _; exact ⟨_, rfl⟩
      · intro hf; simp at hf
    case deliver it hc hv =>
      simp only [eff]
      refine ⟨hh.congr ?_, h5, ?_, h7⟩
      · intro j; simp only [claims, cnt]; grind
      · intro hf; simp at hf
    case drop it hc hv =>
      simp only [eff]
      refine ⟨(unref_ok hh o.gotB (fun b hl => claims_pos_got hl)).congr ?_, h5, ?_, h7⟩
      · intro j; simp only [claims, cnt]; grind
      · intro hf; simp at hf
    case closeRecv it hc hp =>
      simp only [eff]
      refine ⟨(unref_ok hh o.sendB (fun b hl => claims_pos_send hl)).congr ?_, ?_, ?_, ?_⟩
      · intro j; simp only [claims, cnt]; grind
      · intro hf; simp at hf
      · exact h6
      · intro hf; simp at hf
    case selTake it k v hp hsk =>
      simp only [eff]
      refine ⟨(unref_ok hh o.sendB (fun b hl => claims_pos_send hl)).congr ?_, ?_, ?_, ?_⟩
      · intro j; simp only [claims, cnt]; grind
      · intro hf; simp at hf
      · exact h6
      · intro hf; simp at hf
    case selDone it hp hd =>
      simp only [eff, O.closeUnder]
      have h1 := unref_ok hh o.sendB (fun b hl => claims_pos_send hl)
      have h2 := unref_ok h1 o.last (fun b hl => by
        have := claims_pos_last hl
        simp only [claims, cnt, hl] at this ⊢; grind)
      refine ⟨h2.congr ?_, ?_, ?_, ?_⟩
      · intro j; simp only [claims, cnt]; grind
      · intro hf; simp at hf
      · exact h6
      · intro _; rfl
    case initDone hp hd =>
      simp only [eff, O.closeUnder]
      refine ⟨(unref_ok hh o.last (fun b hl => claims_pos_last hl)).congr ?_, ?_, h6, ?_⟩
      · intro j; simp only [claims, cnt]; grind
      · intro hf; obtain ⟨it, hit⟩ := h5 hf; rw [hp] at hit; cases hit
      · intro _; rfl
    all_goals
      refine ⟨hh, ?_, ?_, ?_⟩ <;> simp only [eff] <;> grind

theorem oinv_reach {U o} (h : OReach U o) : OInv o :=
  oreach_induction (P := OInv) oinv_init (fun _ _ _ hi hs => oinv_step hi hs) o h

end PqModel.PoolAsync
