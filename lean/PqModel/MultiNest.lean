import PqModel.SeekLayers

/-! # `MultiRowGroup` of `MultiRowGroup`s: `multiRowGroup.init` flattens, `multiPages` seeks by row counts (C08)

`multiRowGroup.init` (multi_row_group.go:30-78) builds, per column, a `multiColumnChunk` with the
list of chunk readers `chunks` and the list `rowCounts` of the rows each of them holds. A child that
is itself a multi row group is *flattened*: its chunks are spliced in, and its `rowCounts` are copied
(falling back to the `NumRows()` of its row groups when it has none). `multiPages.SeekToRow`
(multi_row_group.go:570-612) then walks `rowCounts` to find the chunk that holds a row.

The model keeps a chunk reader abstract (`χ`, with `rows : χ → Nat` the rows it holds: a `Machine`
and its `total`, or a bare number for the `decide` witnesses). MIRROR: `MCC`, `initM`, `countAt`,
`scan`, `seek`. SPEC: the multi row group reads as its leaf chunks back to back, i.e. `rowCounts`
is `chunks.map rows` at every nesting depth (`built_wf`), so that the row-count walk is the
`locate` of `multiM` over the flattened chunks (`scan_eq_locate`, `step_eq_multi`). -/
namespace PqModel.SeekLayers.Nest

universe u

/-- one column of a `*multiRowGroup`: the fields of its `multiColumnChunk` and the `NumRows()` of
    `c.rowGroup.rowGroups` (read by the fallback branches) -/
structure MCC (χ : Type u) where
  chunks : List χ
  rowCounts : List Nat
  groupRows : List Nat

/-- a child handed to `MultiRowGroup`: any other row group (its chunk reader of the column; it holds
    `NumRows()` rows) or a multi row group -/
inductive Node (χ : Type u) where
  | leaf (x : χ)
  | multi (c : MCC χ)

variable {χ : Type u} (rows : χ → Nat)

/-- MIRROR of `multiRowGroup.NumRows` (multi_row_group.go:114-119) -/
def Node.numRows : Node χ → Nat
  | .leaf x => rows x
  | .multi c => c.groupRows.sum

/-- the chunk readers a child contributes -/
def Node.leaves : Node χ → List χ
  | .leaf x => [x]
  | .multi c => c.chunks

/-- MIRROR of the `rowCounts` side of the loop of `init` (multi_row_group.go:45-65) -/
def initCounts : List (Node χ) → List Nat
  | [] => []
  | .leaf x :: t => rows x :: initCounts t
  | .multi c :: t => (if 0 < c.rowCounts.length then c.rowCounts else c.groupRows) ++ initCounts t

/-- MIRROR of `init` for one column: chunks spliced, row counts carried along -/
def initM (gs : List (Node χ)) : MCC χ :=
  { chunks := (gs.map Node.leaves).flatten, rowCounts := initCounts rows gs, groupRows := gs.map (Node.numRows rows) }

/-- SPEC: the row counts are those of the chunks, the row group has the rows of its chunks -/
def WF (c : MCC χ) : Prop :=
  c.rowCounts = c.chunks.map rows ∧ c.groupRows.sum = (c.chunks.map rows).sum ∧ c.chunks ≠ []

def NodeWF : Node χ → Prop
  | .leaf _ => True
  | .multi c => WF rows c

instance (c : MCC Nat) : Decidable (WF id c) := by unfold WF; exact inferInstance

theorem leaves_ne_nil (g : Node χ) (h : NodeWF rows g) : g.leaves ≠ [] := by
  cases g with
  | leaf x => simp [Node.leaves]
  | multi c => exact h.2.2

theorem initCounts_spec : ∀ (gs : List (Node χ)), (∀ g ∈ gs, NodeWF rows g) →
    initCounts rows gs = ((gs.map Node.leaves).flatten).map rows ∧
    (gs.map (Node.numRows rows)).sum = (((gs.map Node.leaves).flatten).map rows).sum
  | [], _ => by simp [initCounts]
  | g :: t, h => by
    obtain ⟨i1, i2⟩ := initCounts_spec t (fun x hx => h x (List.mem_cons_of_mem _ hx))
    have hg := h g (List.mem_cons_self ..)
    cases g with
    | leaf x =>
      simp only [initCounts, i1, List.map_cons, Node.leaves, List.flatten_cons, List.cons_append, List.nil_append,
        List.sum_cons, Node.numRows, i2]
      exact ⟨trivial, trivial⟩
    | multi c =>
      obtain ⟨w1, w2, w3⟩ := hg
      have hlen : 0 < c.rowCounts.length := by
        rw [w1, List.length_map]
        exact List.length_pos_iff.mpr w3
      have e : initCounts rows (.multi c :: t) = c.rowCounts ++ initCounts rows t := by
        simp only [initCounts, hlen, if_true]
      rw [e, i1, w1]
      constructor
      · simp [Node.leaves]
      · simp [Node.leaves, Node.numRows, w2, i2]

/-- **init_wf.** Flattening children that are well formed gives a well-formed multi column chunk
    whose chunks are the children's chunks in order. -/
theorem init_wf (gs : List (Node χ)) (hne : gs ≠ []) (h : ∀ g ∈ gs, NodeWF rows g) :
    WF rows (initM rows gs) ∧ (initM rows gs).chunks = (gs.map Node.leaves).flatten := by
  obtain ⟨i1, i2⟩ := initCounts_spec rows gs h
  refine ⟨⟨i1, i2, ?_⟩, rfl⟩
  cases gs with
  | nil => exact absurd rfl hne
  | cons g t =>
    have := leaves_ne_nil rows g (h g (List.mem_cons_self ..))
    simp only [initM, List.map_cons, List.flatten_cons]
    intro hc
    exact this (List.append_eq_nil_iff.mp hc).1

/-- everything `MultiRowGroup` can return, to any nesting depth -/
inductive Built : Node χ → Prop where
  | leaf (x : χ) : Built (.leaf x)
  | multi (gs : List (Node χ)) : gs ≠ [] → (∀ g ∈ gs, Built g) → Built (.multi (initM rows gs))

/-- **built_wf.** At every nesting depth the row counts of a multi column chunk are those of its
    (flattened) chunks and `NumRows()` is their sum. -/
theorem built_wf (g : Node χ) (h : Built rows g) : NodeWF rows g := by
  induction h with
  | leaf x => trivial
  | multi gs hne _ ih => exact (init_wf rows gs hne ih).1

/-! ### the seeded variant: row counts always recomputed from the nested row groups -/

/-- `init` with "always use the nested row groups' NumRows()" (seed C08-4a) -/
def initCountsNoCopy : List (Node χ) → List Nat
  | [] => []
  | .leaf x :: t => rows x :: initCountsNoCopy t
  | .multi c :: t => c.groupRows ++ initCountsNoCopy t

def initNoCopy (gs : List (Node χ)) : MCC χ :=
  { chunks := (gs.map Node.leaves).flatten, rowCounts := initCountsNoCopy rows gs, groupRows := gs.map (Node.numRows rows) }

/-- two levels are still right, the third is not: `M(M(M(3,2),4),5)` gets the counts `[5,4,5]` for
    the chunks `[3,2,4,5]` -/
theorem noCopy_refuted :
    WF id (initNoCopy id [.multi (initNoCopy id [.leaf 3, .leaf 2]), .leaf 4]) ∧
    ¬ WF id (initNoCopy id [.multi (initNoCopy id [.multi (initNoCopy id [.leaf 3, .leaf 2]), .leaf 4]), .leaf 5]) := by
  decide

example : WF id (initM id [.multi (initM id [.multi (initM id [.leaf 3, .leaf 2]), .leaf 4]), .leaf 5]) := by decide

/-! ### `multiPages.SeekToRow` over the row counts -/

/-- MIRROR of the choice in the scan (multi_row_group.go:592-598): `rowCounts[i]` if there is one,
    else `rowGroup.rowGroups[i].NumRows()` -/
def countAt (c : MCC χ) (i : Nat) : Nat :=
  if i < c.rowCounts.length then c.rowCounts.getD i 0 else c.groupRows.getD i 0

/-- MIRROR of the scan loop of `multiPages.SeekToRow` (multi_row_group.go:591-604):
    `(m.index, rowIndex)` when it stops; `fuel` = chunks not yet looked at -/
def scan (c : MCC χ) : Nat → Nat → Nat → Nat × Nat
  | 0, i, k => (i, k)
  | fuel + 1, i, k =>
    if i < c.chunks.length then
      if k < countAt c i then (i, k) else scan c fuel (i + 1) (k - countAt c i)
    else (i, k)

def locateN (c : MCC χ) (k : Nat) : Nat × Nat := scan c c.chunks.length 0 k

end Nest

namespace Nest
open Multi (MSt Running)
open PqModel.Seek (Op)

/-- the rest of `multiPages.SeekToRow` once the chunk is located (multi_row_group.go:606-611) -/
def seekAt (ms : List Machine.{u}) (loc : Nat × Nat) : MSt.{u} × ROut :=
  match ms[loc.1]? with
  | some m =>
    ({ index := loc.1 + 1, cur := some ⟨m, (m.step m.init (.seek loc.2)).1⟩, lost := false },
     (m.step m.init (.seek loc.2)).2)
  | none => ({ index := loc.1, cur := none, lost := false }, .ok)

theorem multi_seek_eq (ms : List Machine.{u}) (k : Nat) : Multi.seek ms k = seekAt ms (Multi.locate ms k) := rfl

/-- MIRROR: `multiPages` of a (possibly nested) multi row group's column -/
def step (c : MCC Machine.{u}) (s : MSt.{u}) : Op → MSt.{u} × ROut
  | .seek k => seekAt c.chunks (locateN c k)
  | op => Multi.step c.chunks s op

theorem scan_eq_locate (c : MCC Machine.{u}) (h : c.rowCounts = c.chunks.map (·.total)) :
    ∀ (suf pre : List Machine.{u}) (fuel k : Nat), c.chunks = pre ++ suf → suf.length ≤ fuel →
    scan c fuel pre.length k = (pre.length + (Multi.locate suf k).1, (Multi.locate suf k).2)
  | [], pre, fuel, k, hc, _ => by
    have hl : ¬ pre.length < c.chunks.length := by simp [hc]
    cases fuel with
    | zero => simp [scan, Multi.locate]
    | succ f => simp [scan, hl, Multi.locate]
  | a :: rest, pre, fuel, k, hc, hf => by
    cases fuel with
    | zero => simp at hf
    | succ f =>
      have hl : pre.length < c.chunks.length := by simp [hc]
      have hcnt : countAt c pre.length = a.total := by
        have hl' : pre.length < c.rowCounts.length := by rw [h, List.length_map]; exact hl
        simp only [countAt, hl', if_true, h, hc]
        simp [List.getD, List.getElem?_append_right]
      simp only [scan, hl, if_true, hcnt, Multi.locate]
      split
      · simp
      · have := scan_eq_locate c h rest (pre ++ [a]) f (k - a.total) (by simp [hc]) (by simp at hf; omega)
        simp only [List.length_append, List.length_cons, List.length_nil] at this
        rw [this]
        simp only [Prod.mk.injEq, and_true]
        omega

/-- **step_eq_multi.** With row counts that are those of the chunks, `multiPages` over a nested
    multi row group is `multiPages` over its flattened chunks. -/
theorem step_eq_multi (c : MCC Machine.{u}) (h : c.rowCounts = c.chunks.map (·.total)) (s : MSt.{u}) (op : Op) :
    step c s op = (multiM c.chunks).step s op := by
  cases op with
  | seek k =>
    show seekAt c.chunks (locateN c k) = Multi.seek c.chunks k
    rw [multi_seek_eq]
    congr 1
    have := scan_eq_locate c h c.chunks [] c.chunks.length k rfl (Nat.le_refl _)
    simpa [locateN] using this
  | readPage => rfl
  | loadIndex => rfl

/-- histories of the mirror -/
def outs (c : MCC Machine.{u}) : MSt.{u} → List Op → List ROut
  | _, [] => []
  | s, op :: ops => (step c s op).2 :: outs c (step c s op).1 ops

theorem outs_eq_multi (c : MCC Machine.{u}) (h : c.rowCounts = c.chunks.map (·.total)) :
    ∀ (ops : List Op) (s : MSt.{u}), outs c s ops = (multiM c.chunks).outs s ops
  | [], _ => rfl
  | op :: ops, s => by
    simp only [outs, Machine.outs, step_eq_multi c h s op, outs_eq_multi c h ops]

end Nest
end PqModel.SeekLayers
