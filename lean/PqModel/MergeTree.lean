namespace PqModel.MergeTree

/-! Spike: tournament tree of losers (merge.go:730-945) as an inductive tree. -/

abbrev Key := Int
abbrev Player := Option Nat          -- none = -1 (exhausted / phantom)
abbrev Heads := Nat → Option Key     -- current head of each input, none = exhausted

/-- key of a player; none = +∞ -/
def keyOf (hd : Heads) : Player → Option Key
  | some i => hd i
  | none => none

/-- a ≤ b with none = +∞ -/
def leInf : Option Key → Option Key → Prop
  | _, none => True
  | none, some _ => False
  | some a, some b => a ≤ b

/-- strict: head(p) < head(c), as used by playGame / replayGames -/
def ltHead (hd : Heads) (p c : Nat) : Bool :=
  match hd p, hd c with
  | some a, some b => decide (a < b)
  | _, _ => false

inductive T where
  | leaf (id : Player)
  | node (loser : Player) (l r : T)

def T.memb (x : Nat) : T → Bool
  | .leaf id => id == some x
  | .node _ l r => T.memb x l || T.memb x r

def T.mem (x : Nat) (t : T) : Prop := T.memb x t = true

theorem T.mem_leaf {x : Nat} {id : Player} : T.mem x (.leaf id) ↔ id = some x := by
  simp [T.mem, T.memb]

theorem T.mem_node {x : Nat} {p : Player} {l r : T} : T.mem x (.node p l r) ↔ T.mem x l ∨ T.mem x r := by
  simp [T.mem, T.memb]

/-- the live player at a leaf -/
def liveLeaf (hd : Heads) (id : Player) : Player :=
  match id with
  | some i => if (hd i).isSome then some i else none
  | none => none

/-- `Valid hd t w`: the stored losers are consistent with some tournament whose winner is `w` -/
inductive Valid (hd : Heads) : T → Player → Prop where
  | leaf (id : Player) : Valid hd (.leaf id) (liveLeaf hd id)
  | nodeL {l r : T} {wl wr : Player} : Valid hd l wl → Valid hd r wr →
      leInf (keyOf hd wl) (keyOf hd wr) → Valid hd (.node wr l r) wl
  | nodeR {l r : T} {wl wr : Player} : Valid hd l wl → Valid hd r wr →
      leInf (keyOf hd wr) (keyOf hd wl) → Valid hd (.node wl l r) wr

theorem leInf_trans {a b c : Option Key} (h1 : leInf a b) (h2 : leInf b c) : leInf a c := by
  cases a <;> cases b <;> cases c <;> simp [leInf] at *
  exact Int.le_trans h1 h2

theorem leInf_refl (a : Option Key) : leInf a a := by
  cases a <;> simp [leInf]

/-- the winner's head is minimal among all live leaves of the tree -/
theorem valid_min {hd : Heads} {t : T} {w : Player} (h : Valid hd t w) :
    ∀ x, T.mem x t → leInf (keyOf hd w) (hd x) := by
  induction h with
  | leaf id =>
    intro x hx
    have hx := T.mem_leaf.mp hx
    subst hx
    simp only [liveLeaf]
    cases hh : hd x <;> simp [hh, keyOf, leInf]
  | nodeL _ _ hle ihl ihr =>
    intro x hx
    rcases T.mem_node.mp hx with hx | hx
    · exact ihl x hx
    · exact leInf_trans hle (ihr x hx)
  | nodeR _ _ hle ihl ihr =>
    intro x hx
    rcases T.mem_node.mp hx with hx | hx
    · exact leInf_trans hle (ihl x hx)
    · exact ihr x hx

/-- the winner is a live leaf of the tree (or none) -/
theorem valid_winner_mem {hd : Heads} {t : T} {w : Player} (h : Valid hd t w) :
    ∀ i, w = some i → T.mem i t ∧ (hd i).isSome := by
  induction h with
  | leaf id =>
    intro i hi
    cases id with
    | none => simp [liveLeaf] at hi
    | some j =>
      simp only [liveLeaf] at hi
      split at hi
      · rename_i hs; simp at hi; subst hi; exact ⟨T.mem_leaf.mpr rfl, hs⟩
      · simp at hi
  | nodeL _ _ _ ihl _ => intro i hi; exact ⟨T.mem_node.mpr (Or.inl (ihl i hi).1), (ihl i hi).2⟩
  | nodeR _ _ _ _ ihr => intro i hi; exact ⟨T.mem_node.mpr (Or.inr (ihr i hi).1), (ihr i hi).2⟩

/-- play one game on the way up: stored loser `p` against the candidate `c` coming from below -/
def game (hd : Heads) (p c : Player) : Player × Player :=   -- (new stored loser, new winner)
  match p with
  | some pi =>
    match c with
    | none => (none, some pi)
    | some ci => if ltHead hd pi ci then (some ci, some pi) else (some pi, some ci)
  | none => (none, c)

/-- replayGames, top-down: `target` is the leaf of the previous winner -/
def replay (hd : Heads) (target : Nat) : T → T × Player
  | .leaf id => (.leaf id, liveLeaf hd id)
  | .node p l r =>
    if T.memb target l then
      let (l', c) := replay hd target l
      let (p', w) := game hd p c
      (.node p' l' r, w)
    else
      let (r', c) := replay hd target r
      let (p', w) := game hd p c
      (.node p' l r', w)

/-- validity only depends on the heads of the leaves of the tree -/
theorem valid_congr {hd hd' : Heads} {t : T} {w : Player} (h : Valid hd t w)
    (heq : ∀ x, T.mem x t → hd' x = hd x) : Valid hd' t w := by
  induction h with
  | leaf id =>
    have : liveLeaf hd id = liveLeaf hd' id := by
      cases id with
      | none => rfl
      | some i => simp [liveLeaf, heq i (T.mem_leaf.mpr rfl)]
    rw [this]; exact Valid.leaf id
  | nodeL hl hr hle ihl ihr =>
    rename_i l r wl wr
    have h1 := ihl (fun x hx => heq x (T.mem_node.mpr (Or.inl hx)))
    have h2 := ihr (fun x hx => heq x (T.mem_node.mpr (Or.inr hx)))
    refine Valid.nodeL h1 h2 ?_
    have e1 : keyOf hd' wl = keyOf hd wl := by
      cases wl with
      | none => rfl
      | some i => exact heq i (T.mem_node.mpr (Or.inl (valid_winner_mem hl i rfl).1))
    have e2 : keyOf hd' wr = keyOf hd wr := by
      cases wr with
      | none => rfl
      | some i => exact heq i (T.mem_node.mpr (Or.inr (valid_winner_mem hr i rfl).1))
    rw [e1, e2]; exact hle
  | nodeR hl hr hle ihl ihr =>
    rename_i l r wl wr
    have h1 := ihl (fun x hx => heq x (T.mem_node.mpr (Or.inl hx)))
    have h2 := ihr (fun x hx => heq x (T.mem_node.mpr (Or.inr hx)))
    refine Valid.nodeR h1 h2 ?_
    have e1 : keyOf hd' wl = keyOf hd wl := by
      cases wl with
      | none => rfl
      | some i => exact heq i (T.mem_node.mpr (Or.inl (valid_winner_mem hl i rfl).1))
    have e2 : keyOf hd' wr = keyOf hd wr := by
      cases wr with
      | none => rfl
      | some i => exact heq i (T.mem_node.mpr (Or.inr (valid_winner_mem hr i rfl).1))
    rw [e1, e2]; exact hle

def Disj : T → Prop
  | .leaf _ => True
  | .node _ l r => Disj l ∧ Disj r ∧ ∀ x, T.mem x l → ¬ T.mem x r

theorem ltHead_le {hd : Heads} {p c : Nat} (h : ltHead hd p c = true) :
    leInf (keyOf hd (some p)) (keyOf hd (some c)) := by
  unfold ltHead at h
  simp only [keyOf]
  cases hp : hd p <;> cases hc : hd c <;> simp [hp, hc, leInf] at h ⊢
  exact Int.le_of_lt h

theorem not_ltHead_le {hd : Heads} {p c : Nat} (h : ltHead hd p c = false) (hc : (hd c).isSome) :
    leInf (keyOf hd (some c)) (keyOf hd (some p)) := by
  unfold ltHead at h
  simp only [keyOf]
  cases hp : hd p <;> cases hc' : hd c <;> simp [hp, hc', leInf] at h hc ⊢
  omega

/-- one game keeps the node valid: `c` is the winner of the replayed child, `p` of the untouched one -/
theorem game_validL {hd : Heads} {l r : T} {p c : Player} (hl : Valid hd l c) (hr : Valid hd r p) :
    Valid hd (.node (game hd p c).1 l r) (game hd p c).2 := by
  cases p with
  | none => simpa [game] using Valid.nodeL hl hr (by simp [keyOf, leInf])
  | some pi =>
    cases c with
    | none => simpa [game] using Valid.nodeR hl hr (by simp [keyOf, leInf])
    | some ci =>
      simp only [game]
      split
      · rename_i h; exact Valid.nodeR hl hr (ltHead_le h)
      · rename_i h
        exact Valid.nodeL hl hr (not_ltHead_le (by simpa using h) (valid_winner_mem hl ci rfl).2)

theorem game_validR {hd : Heads} {l r : T} {p c : Player} (hl : Valid hd l p) (hr : Valid hd r c) :
    Valid hd (.node (game hd p c).1 l r) (game hd p c).2 := by
  cases p with
  | none => simpa [game] using Valid.nodeR hl hr (by simp [keyOf, leInf])
  | some pi =>
    cases c with
    | none => simpa [game] using Valid.nodeL hl hr (by simp [keyOf, leInf])
    | some ci =>
      simp only [game]
      split
      · rename_i h; exact Valid.nodeL hl hr (ltHead_le h)
      · rename_i h
        exact Valid.nodeR hl hr (not_ltHead_le (by simpa using h) (valid_winner_mem hr ci rfl).2)

/-- replaying the path of the previous winner restores validity under the new heads -/
theorem replay_valid {hd hd' : Heads} {target : Nat} (hagree : ∀ x, x ≠ target → hd' x = hd x) :
    ∀ (t : T), Disj t → T.mem target t → Valid hd t (some target) →
      Valid hd' (replay hd' target t).1 (replay hd' target t).2
  | .leaf id, _, _, _ => by simpa [replay] using Valid.leaf (hd := hd') id
  | .node p l r, hd3, hm, hv => by
    obtain ⟨hdl, hdr, hdisj⟩ := hd3
    simp only [replay]
    by_cases hml : T.memb target l = true
    · simp only [hml, if_true]
      have hnotr : ¬ T.mem target r := hdisj target hml
      cases hv with
      | nodeL hl hr hle =>
        have ihl := replay_valid hagree l hdl hml hl
        have hr' : Valid hd' r p := valid_congr hr (fun x hx => hagree x (by
          intro he; subst he; exact hnotr hx))
        exact game_validL ihl hr'
      | nodeR hl hr hle =>
        exact absurd (valid_winner_mem hr target rfl).1 hnotr
    · simp only [hml]
      have hmr : T.mem target r := by
        rcases T.mem_node.mp hm with h | h
        · exact absurd h hml
        · exact h
      have hnotl : ¬ T.mem target l := hml
      cases hv with
      | nodeL hl hr hle =>
        exact absurd (valid_winner_mem hl target rfl).1 hnotl
      | nodeR hl hr hle =>
        have ihr := replay_valid hagree r hdr hmr hr
        have hl' : Valid hd' l p := valid_congr hl (fun x hx => hagree x (by
          intro he; subst he; exact hnotl hx))
        exact game_validR hl' ihr

#print axioms replay_valid
#print axioms valid_min

end PqModel.MergeTree
