/-! # asyncPages (page.go:121-328, line numbers of the tree that contains the verif trace hook and the negative-index guard of SeekToRow, page.go:219-223; row indexes are therefore `Nat`) as a labelled transition system

MIRROR of `page.go` (every transition carries the `file:line` it transliterates), plus a ghost
*sequential reader* (`spec`) and ghost ownership lists (`released`, `handed`) that no transition
reads.

Two processes share three channels and nothing else:

* the **consumer** (the goroutine calling `ReadPage`, `SeekToRow`, `Close`; the methods are not
  safe for concurrent use, so there is one consumer), program counter `CPc`;
* the **producer** (`readPages`, page.go:253-324), program counter `PPc`;
* `read` (unbuffered, page.go:122): a rendezvous, modelled as one joint step (`handoff`,
  `closeRecv`, `closeFinal`); `seek` (capacity 1, page.go:123): `seekCh : Option (row × version)`;
  `init`/`done` (closed once, page.go:124-125): `initClosed`/`doneClosed`.

Interleaving semantics: in every state every enabled step of either process may fire. A Go `select`
with several ready cases is a nondeterministic choice (`handoff`/`selTake`/`selDone`,
`initPass`/`initDone`).

The wrapped `Pages` value is abstracted to `Under`: a position (a row index), `rd p` = outcome of
`ReadPage` at position `p`, `next p` = position after reading the page at `p`, `sk k` = outcome of
`SeekToRow k` (a successful seek is *absolute*: it sets the position to `k` whatever the state was;
this is C08's abstraction of `FilePages`). A page is identified by the position it was read from.

Granularity decisions (each merges steps no other process can observe in between):
`pages.start()` (page.go:246-251) is merged into the step that precedes/follows it (`readBegin`,
`seekSend`) because while `init` is open the producer is blocked on it and when it is closed
`start` is a no-op; `close(init); close(done)` (page.go:165-172) is one step because a producer that
has seen `init` but not yet `done` behaves like one that has not looked at `done` yet; the deferred
`read <- final; close(read)` (page.go:255-257) is one step; the consumer's receive and its version
test are SEPARATE steps (`handoff` then `deliver`/`drop`), so the producer may run in between. -/
namespace PqModel.Async

/-- what `ReadPage` hands to its caller: `(page, err)` (page.go:205) -/
inductive Res where
  | page (pos : Nat)   -- a page, read from position `pos`, nil error
  | eof                -- (nil, io.EOF)
  | soft (code : Nat)  -- (nil, err) with err recoverable: `ErrSeekOutOfRange` (page.go:327)
  | fatal (code : Nat) -- (nil, err) with `isFatalError err` (page.go:326-328)
deriving DecidableEq, Repr

inductive Rd where | page | eof | fatal (code : Nat)
deriving DecidableEq, Repr

inductive Sk where | ok | soft (code : Nat) | fatal (code : Nat)
deriving DecidableEq, Repr

/-- the wrapped `Pages` (abstract, see the header) -/
structure Under where
  next : Nat → Nat
  rd   : Nat → Rd
  sk   : Nat → Sk

/-- the variables that drive the producer's loop body: the position of the wrapped reader,
    `seekTo.rowIndex` (`none` = -1, page.go:283,298) and the sticky fatal `err` (page.go:287,294).
    The ghost sequential reader has the same shape. -/
structure Loc where
  pos  : Nat
  row  : Option Nat
  ferr : Option Nat
deriving DecidableEq, Repr

/-- MIRROR page.go:290-305, one iteration of the loop body up to the `select`:
    `none` = the `continue` of line 300, `some r` = the `(page, err)` offered on `read`. -/
def body (U : Under) (l : Loc) : Loc × Option Res :=
  match l.ferr with
  | some e => (l, some (.fatal e))                                 -- :294 isFatalError(err): skip
  | none =>
    match l.row with
    | some k =>                                                    -- :295 seekTo.rowIndex >= 0
      match U.sk k with                                            -- :296
      | .ok => ({ pos := k, row := none, ferr := none }, none)     -- :297-300
      | .soft c => (l, some (.soft c))                             -- rowIndex stays >= 0: retried
      | .fatal c => ({ l with ferr := some c }, some (.fatal c))
    | none =>
      match U.rd l.pos with                                        -- :303
      | .page => ({ l with pos := U.next l.pos }, some (.page l.pos))
      | .eof => (l, some .eof)
      | .fatal c => ({ l with ferr := some c }, some (.fatal c))

/-! ## The sequential reference (SPEC side)
`SeekToRow k` records the target, `ReadPage` applies a pending target and reads: this is what one
goroutine calling the wrapped reader lazily would see. -/

def lsSeek (k : Nat) (l : Loc) : Loc := { l with row := some k }

/-- the loop body run to its first output (at most two iterations: a successful seek, then a read) -/
def lsRead (U : Under) (l : Loc) : Loc × Res :=
  match body U l with
  | (l1, some r) => (l1, r)
  | (l1, none) =>
    match body U l1 with
    | (l2, some r) => (l2, r)
    | (l2, none) => (l2, .eof) -- unreachable (`body_none_then_some`)

/-- something travelling over `read`: `asyncPage{page, err, version}` (page.go:152-156) plus a
    ghost serial number -/
structure Item where
  res : Res
  ver : Nat
  id  : Nat
deriving DecidableEq, Repr

inductive CPc where
  | idle            -- between calls
  | seekMid         -- in SeekToRow, after the flush `select` (page.go:227-233), before the send (:240)
  | reading         -- in ReadPage, blocked on `<-pages.read` (page.go:190)
  | got (it : Item) -- in ReadPage, received `p`, before the version test (page.go:203)
  | closing         -- in Close, in `for p := range pages.read` (page.go:173)
  | closed          -- Close returned
deriving DecidableEq, Repr

inductive PPc where
  | waitInit         -- blocked in the first select (page.go:263-269)
  | poll             -- before the non-blocking select on seek (page.go:279-285)
  | top              -- start of the loop body (page.go:289)
  | send (it : Item) -- in the select of page.go:308-322, offering `it`
  | final            -- in the deferred function, offering the final item (page.go:255)
  | exited           -- `read` closed (page.go:257)
deriving DecidableEq, Repr

structure G where
  cpc : CPc
  cver : Nat                    -- pages.version (consumer only)
  initClosed : Bool
  doneClosed : Bool
  seekCh : Option (Nat × Nat)   -- (rowIndex, version)
  ppc : PPc
  loc : Loc                     -- wrapped reader position, seekTo.rowIndex, fatal err
  pver : Nat                    -- seekTo.version
  nprod : Nat                   -- ghost: items produced so far (next serial number)
  spec : Loc                    -- ghost: the sequential reader after the consumer's completed calls
  released : List Nat           -- ghost: serials passed to Release
  handed : List Nat             -- ghost: serials returned to the caller of ReadPage
deriving DecidableEq, Repr

/-- the events of the trace hook (`trace_verif.go`), one per transition -/
inductive Ev where
  | readBegin | handoff | deliver (r : Res) (v : Nat) | drop (v : Nat) | readClosed
  | seekPoll (drained : Bool) | seekSend (k v : Nat) | seekClosed
  | closeBegin | closeRecv | closeFinal | closeEnd | closeAgain
  | initPass | initDone | pollTake (k v : Nat) | pollEmpty
  | bodyCont | bodyOffer (r : Res) (v : Nat) | selTake (k v : Nat) | selDone
deriving DecidableEq, Repr

def init : G :=
  { cpc := .idle, cver := 0, initClosed := false, doneClosed := false, seekCh := none,
    ppc := .waitInit, loc := ⟨0, none, none⟩, pver := 0, nprod := 0,
    spec := ⟨0, none, none⟩, released := [], handed := [] }

inductive Step (U : Under) : G → Ev → G → Prop where
  /-- consumer, page.go:186-190: ReadPage calls start() (closes init) and blocks on `read` -/
  | readBegin {g} : g.cpc = .idle →
      Step U g .readBegin { g with cpc := .reading, initClosed := true }
  /-- page.go:190 with page.go:309-313: rendezvous on `read`; the producer goes round its loop -/
  | handoff {g it} : g.cpc = .reading → g.ppc = .send it →
      Step U g .handoff { g with cpc := .got it, ppc := .top }
  /-- consumer, page.go:203-205: version matches, ReadPage returns `(p.page, p.err)` -/
  | deliver {g it} : g.cpc = .got it → it.ver = g.cver →
      Step U g (.deliver it.res it.ver)
        { g with cpc := .idle, handed := it.id :: g.handed, spec := (lsRead U g.spec).1 }
  /-- consumer, page.go:203,208-210: stale version, Release(p.page) and wait again -/
  | drop {g it} : g.cpc = .got it → it.ver ≠ g.cver →
      Step U g (.drop it.ver) { g with cpc := .reading, released := it.id :: g.released }
  /-- consumer, page.go:188-194 after Close: `read` is closed, ReadPage returns io.EOF -/
  | readClosed {g} : g.cpc = .closed → Step U g .readClosed g
  /-- consumer, page.go:227-229: SeekToRow drains a seek the producer has not taken -/
  | seekPollDrain {g kv} : g.cpc = .idle → g.seekCh = some kv →
      Step U g (.seekPoll true) { g with cpc := .seekMid, seekCh := none }
  /-- consumer, page.go:230-232: nothing to drain, `pages.version++` -/
  | seekPollBump {g} : g.cpc = .idle → g.seekCh = none →
      Step U g (.seekPoll false) { g with cpc := .seekMid, cver := g.cver + 1 }
  /-- consumer, page.go:240-243: the (never blocking) send, then start() -/
  | seekSend {g k} : g.cpc = .seekMid →
      Step U g (.seekSend k g.cver)
        { g with cpc := .idle, seekCh := some (k, g.cver), initClosed := true, spec := lsSeek k g.spec }
  /-- consumer, page.go:215-218 after Close: io.ErrClosedPipe -/
  | seekClosed {g} : g.cpc = .closed → Step U g .seekClosed g
  /-- consumer, page.go:163-173: Close closes init and done, then ranges over `read` -/
  | closeBegin {g} : g.cpc = .idle →
      Step U g .closeBegin { g with cpc := .closing, initClosed := true, doneClosed := true }
  /-- page.go:173-175 with page.go:309-313: Close receives an item and releases it -/
  | closeRecv {g it} : g.cpc = .closing → g.ppc = .send it →
      Step U g .closeRecv { g with ppc := .top, released := it.id :: g.released }
  /-- page.go:173-179 with page.go:255-257: the final item `{err: pages.Close(), version: -1}`
      is received, `read` is closed -/
  | closeFinal {g} : g.cpc = .closing → g.ppc = .final →
      Step U g .closeFinal { g with ppc := .exited }
  /-- consumer, page.go:173,182-183: the range loop ends on the closed channel, `seek = nil` -/
  | closeEnd {g} : g.cpc = .closing → g.ppc = .exited →
      Step U g .closeEnd { g with cpc := .closed }
  /-- consumer, page.go:163-184 on a closed reader: nothing to do -/
  | closeAgain {g} : g.cpc = .closed → Step U g .closeAgain g
  /-- producer, page.go:264 -/
  | initPass {g} : g.ppc = .waitInit → g.initClosed = true →
      Step U g .initPass { g with ppc := .poll }
  /-- producer, page.go:266-268: `return`, the deferred function runs -/
  | initDone {g} : g.ppc = .waitInit → g.doneClosed = true →
      Step U g .initDone { g with ppc := .final }
  /-- producer, page.go:280: a SeekToRow issued before the first read is picked up -/
  | pollTake {g k v} : g.ppc = .poll → g.seekCh = some (k, v) →
      Step U g (.pollTake k v)
        { g with ppc := .top, seekCh := none, loc := { g.loc with row := some k }, pver := v }
  /-- producer, page.go:282-283: `seekTo.rowIndex = -1`, `seekTo.version` is the zero value -/
  | pollEmpty {g} : g.ppc = .poll → g.seekCh = none →
      Step U g .pollEmpty { g with ppc := .top }
  /-- producer, page.go:294-300: pending seek applied, `continue` -/
  | bodyCont {g l} : g.ppc = .top → body U g.loc = (l, none) →
      Step U g .bodyCont { g with loc := l }
  /-- producer, page.go:294-313: `(page, err)` computed, offered on `read` tagged `seekTo.version` -/
  | bodyOffer {g l r} : g.ppc = .top → body U g.loc = (l, some r) →
      Step U g (.bodyOffer r g.pver)
        { g with loc := l, ppc := .send ⟨r, g.pver, g.nprod⟩, nprod := g.nprod + 1 }
  /-- producer, page.go:315-317: a seek arrives while offering: Release(page), new seekTo -/
  | selTake {g it k v} : g.ppc = .send it → g.seekCh = some (k, v) →
      Step U g (.selTake k v)
        { g with ppc := .top, seekCh := none, loc := { g.loc with row := some k }, pver := v,
                 released := it.id :: g.released }
  /-- producer, page.go:318-321: done is closed: Release(page), return -/
  | selDone {g it} : g.ppc = .send it → g.doneClosed = true →
      Step U g .selDone { g with ppc := .final, released := it.id :: g.released }

/-- paths of the transition system -/
inductive Path (U : Under) : G → List Ev → G → Prop where
  | nil {g} : Path U g [] g
  | cons {g e g' es g''} : Step U g e g' → Path U g' es g'' → Path U g (e :: es) g''

def Reachable (U : Under) (g : G) : Prop := ∃ es, Path U init es g

theorem Path.snoc {U g es g' e g''} (h : Path U g es g') (s : Step U g' e g'') :
    Path U g (es ++ [e]) g'' := by
  induction h with
  | nil => exact .cons s .nil
  | cons s' _ ih => exact .cons s' (ih s)

theorem Path.append {U g es g' es' g''} (h : Path U g es g') (h' : Path U g' es' g'') :
    Path U g (es ++ es') g'' := by
  induction h with
  | nil => exact h'
  | cons s' _ ih => exact .cons s' (ih h')

/-- induction principle: an invariant of `init` preserved by every step holds in every reachable
    state -/
theorem reachable_induction {U : Under} {P : G → Prop} (h0 : P init)
    (hs : ∀ g e g', P g → Step U g e g' → P g') : ∀ g, Reachable U g → P g := by
  intro g ⟨es, hp⟩
  have : ∀ g0 es g, Path U g0 es g → P g0 → P g := by
    intro g0 es g hp
    induction hp with
    | nil => exact id
    | cons s _ ih => exact fun h => ih (hs _ _ _ h s)
  exact this _ _ _ hp h0

/-! ## Executable successor function (what `pqdriver` runs) -/

/-- the successor of `g` under event `e`, if `e` is enabled -/
def next? (U : Under) (g : G) (e : Ev) : Option G :=
  match e with
  | .readBegin => if g.cpc = .idle then some { g with cpc := .reading, initClosed := true } else none
  | .handoff =>
    match g.ppc with
    | .send it => if g.cpc = .reading then some { g with cpc := .got it, ppc := .top } else none
    | _ => none
  | .deliver r v =>
    match g.cpc with
    | .got it =>
      if it.ver = g.cver ∧ r = it.res ∧ v = it.ver then
        some { g with cpc := .idle, handed := it.id :: g.handed, spec := (lsRead U g.spec).1 }
      else none
    | _ => none
  | .drop v =>
    match g.cpc with
    | .got it =>
      if it.ver ≠ g.cver ∧ v = it.ver then
        some { g with cpc := .reading, released := it.id :: g.released }
      else none
    | _ => none
  | .readClosed => if g.cpc = .closed then some g else none
  | .seekPoll true =>
    if g.cpc = .idle ∧ g.seekCh.isSome then some { g with cpc := .seekMid, seekCh := none } else none
  | .seekPoll false =>
    if g.cpc = .idle ∧ g.seekCh = none then some { g with cpc := .seekMid, cver := g.cver + 1 } else none
  | .seekSend k v =>
    if g.cpc = .seekMid ∧ v = g.cver then
      some { g with cpc := .idle, seekCh := some (k, g.cver), initClosed := true, spec := lsSeek k g.spec }
    else none
  | .seekClosed => if g.cpc = .closed then some g else none
  | .closeBegin =>
    if g.cpc = .idle then some { g with cpc := .closing, initClosed := true, doneClosed := true } else none
  | .closeRecv =>
    match g.ppc with
    | .send it =>
      if g.cpc = .closing then some { g with ppc := .top, released := it.id :: g.released } else none
    | _ => none
  | .closeFinal => if g.cpc = .closing ∧ g.ppc = .final then some { g with ppc := .exited } else none
  | .closeEnd => if g.cpc = .closing ∧ g.ppc = .exited then some { g with cpc := .closed } else none
  | .closeAgain => if g.cpc = .closed then some g else none
  | .initPass => if g.ppc = .waitInit ∧ g.initClosed = true then some { g with ppc := .poll } else none
  | .initDone => if g.ppc = .waitInit ∧ g.doneClosed = true then some { g with ppc := .final } else none
  | .pollTake k v =>
    if g.ppc = .poll ∧ g.seekCh = some (k, v) then
      some { g with ppc := .top, seekCh := none, loc := { g.loc with row := some k }, pver := v }
    else none
  | .pollEmpty => if g.ppc = .poll ∧ g.seekCh = none then some { g with ppc := .top } else none
  | .bodyCont =>
    match body U g.loc with
    | (l, none) => if g.ppc = .top then some { g with loc := l } else none
    | _ => none
  | .bodyOffer r v =>
    match body U g.loc with
    | (l, some r') =>
      if g.ppc = .top ∧ r = r' ∧ v = g.pver then
        some { g with loc := l, ppc := .send ⟨r', g.pver, g.nprod⟩, nprod := g.nprod + 1 }
      else none
    | _ => none
  | .selTake k v =>
    match g.ppc with
    | .send it =>
      if g.seekCh = some (k, v) then
        some { g with ppc := .top, seekCh := none, loc := { g.loc with row := some k }, pver := v,
                      released := it.id :: g.released }
      else none
    | _ => none
  | .selDone =>
    match g.ppc with
    | .send it =>
      if g.doneClosed = true then some { g with ppc := .final, released := it.id :: g.released } else none
    | _ => none

end PqModel.Async
