namespace PqModel.Async

/-! Spike: asyncPages (page.go:121-300) as a two-process transition system with versioned seeks.
    The underlying reader is abstracted (by C08) to a position `p`, `read` returning page `p` and
    moving to `nxt p`. All interleavings of consumer operations and producer steps are allowed. -/

inductive PPc where
  | start  -- after init was closed: non-blocking poll of the seek channel (page.go:262-266)
  | top    -- start of the loop body
  | send   -- in the select, holding a page
deriving DecidableEq, Repr

structure G where
  cver   : Nat                    -- asyncPages.version (consumer side)
  seekCh : Option (Nat × Nat)     -- seek channel, capacity 1: (rowIndex, version)
  ppc    : PPc
  prow   : Option Nat             -- seekTo.rowIndex (none = -1)
  pver   : Nat                    -- seekTo.version
  held   : Option (Nat × Nat)     -- page in hand: (position it was read from, version tag)
  upos   : Nat                    -- position of the underlying reader
  spec   : Nat                    -- ghost: position of a sequential reader after the consumer's completed ops
deriving Repr

variable (nxt : Nat → Nat)

/-- labelled steps; `deliver p` is what ReadPage returns to the caller -/
inductive Step : G → Option Nat → G → Prop where
  /-- consumer SeekToRow(k), channel occupied: drain and resend with the same version -/
  | cseekFull {g k k0 v0} : g.seekCh = some (k0, v0) →
      Step g none { g with seekCh := some (k, g.cver), spec := k }
  /-- consumer SeekToRow(k), channel empty: bump the version -/
  | cseekEmpty {g k} : g.seekCh = none →
      Step g none { g with cver := g.cver + 1, seekCh := some (k, g.cver + 1), spec := k }
  /-- producer start-up: a seek issued before the first read is picked up -/
  | pstartTake {g k v} : g.ppc = .start → g.seekCh = some (k, v) →
      Step g none { g with seekCh := none, prow := some k, pver := v, ppc := .top }
  | pstartSkip {g} : g.ppc = .start → g.seekCh = none →
      Step g none { g with prow := none, ppc := .top }
  /-- producer applies a pending seek -/
  | papply {g k} : g.ppc = .top → g.prow = some k →
      Step g none { g with upos := k, prow := none }
  /-- producer reads the next page -/
  | pread {g} : g.ppc = .top → g.prow = none →
      Step g none { g with held := some (g.upos, g.pver), upos := nxt g.upos, ppc := .send }
  /-- producer, blocked in the select, takes a seek instead of sending: page released -/
  | ptake {g k v} : g.ppc = .send → g.seekCh = some (k, v) →
      Step g none { g with seekCh := none, prow := some k, pver := v, held := none, ppc := .top }
  /-- rendezvous on `read`, versions match: ReadPage returns the page -/
  | deliver {g p v} : g.ppc = .send → g.held = some (p, v) → v = g.cver →
      Step g (some p) { g with held := none, ppc := .top, spec := nxt g.spec }
  /-- rendezvous on `read`, stale version: the consumer drops the page and keeps waiting -/
  | drop {g p v} : g.ppc = .send → g.held = some (p, v) → v ≠ g.cver →
      Step g none { g with held := none, ppc := .top }

def AInv (g : G) : Prop :=
  (g.ppc = .top → g.held = none) ∧ (g.ppc = .send → g.held.isSome ∧ g.prow = none) ∧
  (g.ppc = .start → g.held = none ∧ g.prow = none) ∧
  match g.seekCh with
  | some (k, v) =>
      v = g.cver ∧ g.spec = k ∧ g.pver < g.cver ∧ (∀ p w, g.held = some (p, w) → w < g.cver)
  | none =>
    match g.prow with
    | some k => g.pver = g.cver ∧ g.spec = k ∧ g.held = none
    | none =>
      (g.pver = g.cver ∧
        match g.held with
        | some (p, w) => w = g.cver ∧ p = g.spec ∧ g.upos = nxt p
        | none => g.upos = g.spec) ∨
      -- the producer is still working for an older seek whose successor has not been issued … impossible:
      False

def init : G := { cver := 0, seekCh := none, ppc := .start, prow := none, pver := 0, held := none, upos := 0, spec := 0 }

theorem init_inv : AInv nxt init := by
  simp [AInv, init]

/-- safety: the invariant is preserved by every step of either process, and every delivered page is
    exactly the page a sequential reader would return next -/
theorem step_inv {g g' : G} {out : Option Nat} (h : Step nxt g out g') (hi : AInv nxt g) :
    AInv nxt g' ∧ (∀ p, out = some p → p = g.spec) := by
  unfold AInv at hi ⊢
  cases h <;>
    rcases hc : g.seekCh with _ | ⟨k1, v1⟩ <;>
    rcases hp : g.prow with _ | k2 <;>
    rcases hh : g.held with _ | ⟨p3, w3⟩ <;>
    simp_all <;> (try omega)

#print axioms step_inv

/-- progress: whenever the consumer is waiting in ReadPage, some step is enabled -/
theorem progress (g : G) (hi : AInv nxt g) : ∃ out g', Step nxt g out g' := by
  unfold AInv at hi
  rcases hpc : g.ppc with _ | _ | _
  · rcases hc : g.seekCh with _ | ⟨k, v⟩
    · exact ⟨_, _, Step.pstartSkip hpc hc⟩
    · exact ⟨_, _, Step.pstartTake hpc hc⟩
  · rcases hp : g.prow with _ | k
    · exact ⟨_, _, Step.pread hpc hp⟩
    · exact ⟨_, _, Step.papply hpc hp⟩
  · have := (hi.2.1 hpc).1
    rcases hh : g.held with _ | ⟨p, v⟩
    · simp [hh] at this
    · by_cases hv : v = g.cver
      · exact ⟨_, _, Step.deliver hpc hh hv⟩
      · exact ⟨_, _, Step.drop hpc hh hv⟩

-- non-vacuity: seek 5 before the first read, then the first delivered page is page 5
example : ∃ g1 g2 g3 g4 g5, Step (· + 1) init none g1 ∧ Step (· + 1) g1 none g2 ∧ Step (· + 1) g2 none g3 ∧
    Step (· + 1) g3 none g4 ∧ Step (· + 1) g4 (some 5) g5 :=
  ⟨_, _, _, _, _, Step.cseekEmpty (k := 5) rfl, Step.pstartTake rfl rfl, Step.papply rfl rfl,
    Step.pread rfl rfl, Step.deliver rfl rfl rfl⟩
#print axioms progress

end PqModel.Async
