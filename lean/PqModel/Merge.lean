/-! # C09 — MIRROR of the merge readers of parquet-go (merge.go, dedupe.go)

Level of the mirror: a row is its sort key (an `Int` rank: `compare` of the merge is modelled as
the sign of the rank difference) plus the hidden payload `(input, seq)`.
A `bufferedRowReader` is modelled by its *window* `buf[off:end]` (the code only ever refills an
empty buffer, where `off = end = 0`), its capacity (24 → 192 growth with the `full` flag), the rows
its source has not delivered yet and a **refill-size parameter stream**: every `read()` takes the
next number `s` of the stream and the source delivers `max 1 (min s (min cap remaining))` rows, so
that theorems quantified over the stream cover every way a `RowReader` may chunk its rows
(a source answering `(0, nil)` is outside the model, see Props/C09).

Everything here is a MIRROR (transliteration of the Go code as it is), total, fuel-based.
Spec-side definitions (`Emits`, `Sorted`, …) live in `MergeSpec.lean`. -/
namespace PqModel.Merge

structure Row where
  key : Int
  inp : Nat
  seq : Nat
deriving DecidableEq, Inhabited

/-- `compare(a, b)` of the merged sorting columns: sign of the rank difference -/
def cmp (a b : Row) : Int := if a.key < b.key then -1 else if b.key < a.key then 1 else 0

/-! ## runLength (merge.go:1016-1044) -/

/-- `compare(w, bound) <= max` -/
def leMax (mx : Int) (bound w : Row) : Bool := decide (cmp w bound ≤ mx)

/-- merge.go:1031-1034 `for hi < len(window) && compare(window[hi], bound) <= max { lo = hi; hi *= 2 }` -/
def gallop (window : List Row) (bound : Row) (mx : Int) : Nat → Nat → Nat → Nat × Nat
  | 0, lo, hi => (lo, hi)
  | f + 1, lo, hi =>
    if hi < window.length && leMax mx bound (window.getD hi default) then gallop window bound mx f hi (2 * hi)
    else (lo, hi)

/-- merge.go:1036-1042 binary refinement -/
def bsearch (window : List Row) (bound : Row) (mx : Int) : Nat → Nat → Nat → Nat
  | 0, _, hi => hi
  | f + 1, lo, hi =>
    if lo + 1 < hi then
      let mid := (lo + hi) / 2
      if leMax mx bound (window.getD mid default) then bsearch window bound mx f mid hi
      else bsearch window bound mx f lo mid
    else hi

/-- merge.go:1023-1044 -/
def runLength (window : List Row) (bound : Row) (mx : Int) : Nat :=
  if window.length = 0 || !leMax mx bound (window.getD 0 default) then 0
  else if leMax mx bound (window.getD (window.length - 1) default) then window.length
  else
    let (lo, hi) := gallop window bound mx window.length 0 1
    let hi := min hi window.length
    bsearch window bound mx window.length lo hi

/-! ## bufferedRowReader (merge.go:947-1014) -/

def minRowBufferSize : Nat := 24
def maxRowBufferSize : Nat := 192

structure Buf where
  /-- rows the source has not delivered yet -/
  src : List Row
  /-- refill-size parameter stream (exhausted = the source fills the buffer) -/
  sizes : List Nat
  /-- `buf[off:end]` -/
  win : List Row
  /-- `len(buf)`, 0 = nil -/
  cap : Nat
  full : Bool

def Buf.fresh (src : List Row) (sizes : List Nat) : Buf :=
  { src := src, sizes := sizes, win := [], cap := 0, full := false }

/-- merge.go:966 -/
def Buf.empty (b : Buf) : Bool := b.win.isEmpty
/-- merge.go:970 -/
def Buf.head (b : Buf) : Row := b.win.headD default
/-- merge.go:984-994 (the reset of `off`/`end` is invisible at the level of the window) -/
def Buf.advance (b : Buf) (n : Nat) : Buf × Bool :=
  let w := b.win.drop n
  ({ b with win := w }, !w.isEmpty)

/-- capacity the buffer has after the allocation / growth step of `read` (merge.go:997-1006) -/
def Buf.nextCap (b : Buf) : Nat :=
  if b.cap = 0 then minRowBufferSize
  else if b.full && b.cap < maxRowBufferSize then min (2 * b.cap) maxRowBufferSize
  else b.cap

/-- merge.go:996-1014, called on an empty buffer only; `none` = `io.EOF` with no rows -/
def Buf.read (b : Buf) : Option Buf :=
  let cap := b.nextCap
  match b.src with
  | [] => none
  | _ :: _ =>
    let want := match b.sizes with | [] => cap | s :: _ => s
    let n := max 1 (min want (min cap b.src.length))
    some { src := b.src.drop n, sizes := b.sizes.tail, win := b.win ++ b.src.take n, cap := cap,
           full := n == cap }

/-- the rows of this input that have not been emitted yet -/
def Buf.rem (b : Buf) : List Row := b.win ++ b.src

/-! ## mergedRowReader2 (merge.go:557-716) -/

def runDetectionStreak : Nat := 3

structure M2 where
  /-- `readers[i]`, `none` = nil (exhausted) -/
  r0 : Option Buf
  r1 : Option Buf
  prev : Int
  streak : Nat
  initialized : Bool

def M2.new (a b : Buf) : M2 := { r0 := some a, r1 := some b, prev := 0, streak := 0, initialized := false }

/-- merge.go:594-610: refill an empty live reader, drop it on EOF -/
def refill : Option Buf → Option Buf
  | none => none
  | some b => if b.empty then b.read else some b

/-- merge.go:617-633: the loops of the cases where the other reader is nil -/
def emitSingle : Nat → Buf → List Row × Buf
  | 0, b => ([], b)
  | m + 1, b =>
    if (b.advance 1).2 then
      let rec_ := emitSingle m (b.advance 1).1
      (b.head :: rec_.1, rec_.2)
    else ([b.head], (b.advance 1).1)

/-- merge.go:707-710: length of the run emitted by `emitRun` -/
def emitRunLen (m : Nat) (r : Buf) (bound : Row) : Nat :=
  if (r.win.take m).length > 1 then 1 + runLength ((r.win.take m).drop 1) bound (-1) else 1

/-- merge.go:702-716; `m` = `len(rows) - n` (> 0): emitted rows, buffer, `hasNext` -/
def emitRun (m : Nat) (r : Buf) (bound : Row) : List Row × Buf × Bool :=
  ((r.win.take m).take (emitRunLen m r bound), (r.advance (emitRunLen m r bound)).1,
    (r.advance (emitRunLen m r bound)).2)

/-- merge.go:639-693, `m` = `len(rows) - n`; result: rows, r0, r1, prev, streak -/
def M2.loop : Nat → Nat → Buf → Buf → Int → Nat → List Row × Buf × Buf × Int × Nat
  | 0, _, r0, r1, prev, streak => ([], r0, r1, prev, streak)
  | f + 1, m, r0, r1, prev, streak =>
    if m = 0 then ([], r0, r1, prev, streak) else
    if cmp r0.head r1.head < 0 then
      let streak := if prev < 0 then streak + 1 else 0
      if streak ≥ runDetectionStreak then
        let e := emitRun m r0 r1.head
        if e.2.2 then
          let rec_ := M2.loop f (m - e.1.length) e.2.1 r1 (-1) streak
          (e.1 ++ rec_.1, rec_.2)
        else (e.1, e.2.1, r1, -1, streak)
      else
        if (r0.advance 1).2 then
          let rec_ := M2.loop f (m - 1) (r0.advance 1).1 r1 (-1) streak
          (r0.head :: rec_.1, rec_.2)
        else ([r0.head], (r0.advance 1).1, r1, -1, streak)
    else if cmp r0.head r1.head > 0 then
      let streak := if prev > 0 then streak + 1 else 0
      if streak ≥ runDetectionStreak then
        let e := emitRun m r1 r0.head
        if e.2.2 then
          let rec_ := M2.loop f (m - e.1.length) r0 e.2.1 1 streak
          (e.1 ++ rec_.1, rec_.2)
        else (e.1, r0, e.2.1, 1, streak)
      else
        if (r1.advance 1).2 then
          let rec_ := M2.loop f (m - 1) r0 (r1.advance 1).1 1 streak
          (r1.head :: rec_.1, rec_.2)
        else ([r1.head], r0, (r1.advance 1).1, 1, streak)
    else
      if m - 1 = 0 then ([r0.head], (r0.advance 1).1, r1, 0, 0)
      else
        if (r0.advance 1).2 && (r1.advance 1).2 then
          let rec_ := M2.loop f (m - 2) (r0.advance 1).1 (r1.advance 1).1 0 0
          (r0.head :: r1.head :: rec_.1, rec_.2)
        else ([r0.head, r1.head], (r0.advance 1).1, (r1.advance 1).1, 0, 0)

/-- merge.go:583-697 `ReadRows(rows)` with `len(rows) = m`; returns the rows and `true` for io.EOF -/
def M2.readRows (st : M2) (m : Nat) : List Row × Bool × M2 :=
  let st := if st.initialized then st
            else { st with r0 := st.r0.bind Buf.read, r1 := st.r1.bind Buf.read, initialized := true }
  let r0 := refill st.r0
  let r1 := refill st.r1
  match r0, r1 with
  | none, none => ([], true, { st with r0 := none, r1 := none })
  | none, some b =>
    ((emitSingle m b).1, false, { st with r0 := none, r1 := some (emitSingle m b).2 })
  | some a, none =>
    ((emitSingle m a).1, false, { st with r0 := some (emitSingle m a).2, r1 := none })
  | some a, some b =>
    let l := M2.loop m m a b st.prev st.streak
    (l.1, false, { st with r0 := some l.2.1, r1 := some l.2.2.1, prev := l.2.2.2.1, streak := l.2.2.2.2 })

/-! ## mergedRowReader: tournament tree of losers as an array (merge.go:718-945) -/

structure MK where
  bufs : List Buf
  losers : List Int
  count : Nat
  winner : Int
  winnerLeaf : Int
  streak : Nat
  initialized : Bool

def MK.new (bufs : List Buf) : MK :=
  { bufs := bufs, losers := [], count := 0, winner := 0, winnerLeaf := 0, streak := 0, initialized := false }

def headOf (bufs : List Buf) (p : Int) : Row := (bufs.getD p.toNat (Buf.fresh [] [])).head

/-- merge.go:911-922 `playGame(n1, n2) (loser, winner)` -/
def playGame (bufs : List Buf) (n1 n2 : Int) : Int × Int :=
  if n1 < 0 then (n1, n2)
  else if n2 < 0 then (n2, n1)
  else if cmp (headOf bufs n1) (headOf bufs n2) < 0 then (n2, n1)
  else (n1, n2)

/-- merge.go:896-909; returns the winner of the subtree at `i` and the updated losers -/
def playInitialGames (bufs : List Buf) (leaves : List Int) : Nat → Nat → List Int → Int × List Int
  | 0, i, losers =>
    if i ≥ bufs.length then
      (if i - bufs.length < leaves.length then leaves.getD (i - bufs.length) (-1) else -1, losers)
    else (-1, losers)
  | f + 1, i, losers =>
    if i ≥ bufs.length then
      (if i - bufs.length < leaves.length then leaves.getD (i - bufs.length) (-1) else -1, losers)
    else
      let r1 := playInitialGames bufs leaves f (2 * i + 1) losers
      let r2 := playInitialGames bufs leaves f (2 * i + 2) r1.2
      let g := playGame bufs r1.1 r2.1
      (g.2, r2.2.set i g.1)

/-- merge.go:930-937: the game played at `offset` between the stored loser and the candidate -/
def replayStep (bufs : List Buf) (offset : Nat) (winner : Int) (losers : List Int) : Int × List Int :=
  if losers.getD offset (-1) ≥ 0 &&
      (winner < 0 || cmp (headOf bufs (losers.getD offset (-1))) (headOf bufs winner) < 0) then
    (losers.getD offset (-1), losers.set offset winner)
  else (winner, losers)

/-- merge.go:929-942, the loop of `replayGames` from `offset` to the root -/
def replayLoop (bufs : List Buf) : Nat → Nat → Int → List Int → Int × List Int
  | 0, _, winner, losers => (winner, losers)
  | f + 1, offset, winner, losers =>
    if offset = 0 then replayStep bufs offset winner losers
    else replayLoop bufs f ((offset - 1) / 2) (replayStep bufs offset winner losers).1
      (replayStep bufs offset winner losers).2

/-- merge.go:927-945 -/
def MK.replayGames (st : MK) : MK :=
  let r := replayLoop st.bufs st.bufs.length ((st.winnerLeaf.toNat - 1) / 2) st.winner st.losers
  { st with losers := r.2, winner := r.1, winnerLeaf := (st.bufs.length : Int) + r.1 }

/-- merge.go:882-886: one step of `runBound` -/
def runBoundStep (bufs : List Buf) (losers : List Int) (offset : Nat) (bound : Option Row) : Option Row :=
  if losers.getD offset (-1) ≥ 0 then
    match bound with
    | none => some (headOf bufs (losers.getD offset (-1)))
    | some b => if cmp (headOf bufs (losers.getD offset (-1))) b < 0 then some (headOf bufs (losers.getD offset (-1))) else some b
  else bound

/-- merge.go:880-891 `runBound`: the minimum head over the losers stored on the winner's path -/
def runBoundLoop (bufs : List Buf) (losers : List Int) : Nat → Nat → Option Row → Option Row
  | 0, _, bound => bound
  | f + 1, offset, bound =>
    if offset = 0 then runBoundStep bufs losers offset bound
    else runBoundLoop bufs losers f ((offset - 1) / 2) (runBoundStep bufs losers offset bound)

def MK.runBound (st : MK) : Option Row :=
  runBoundLoop st.bufs st.losers st.bufs.length ((st.winnerLeaf.toNat - 1) / 2) none

/-- merge.go:760-770: the first `read()` of a buffer; on io.EOF the buffer is left as it is -/
def readOr (b : Buf) : Buf := b.read.getD b

/-- merge.go:761-765: input `i` delivered rows at initialisation -/
def aliveAt (bufs : List Buf) (i : Nat) : Bool :=
  match bufs[i]? with
  | some b => b.read.isSome
  | none => false

/-- merge.go:750-777 -/
def MK.initialize (st : MK) : MK :=
  let k := st.bufs.length
  let bufs := st.bufs.map readOr
  let leaves := (List.range k).map (fun i => if aliveAt st.bufs i then (i : Int) else -1)
  let count := (List.range k).countP (aliveAt st.bufs)
  if count > 0 then
    let r := playInitialGames bufs leaves k 0 (List.replicate k 0)
    { st with bufs := bufs, losers := r.2, count := count, winner := r.1, winnerLeaf := (k : Int) + r.1,
              initialized := true }
  else { st with bufs := bufs, losers := List.replicate k 0, count := 0, initialized := true }

/-- merge.go:838-841: length of the run inside the (truncated) window -/
def runOf (bound : Option Row) (window : List Row) : Nat :=
  match bound with
  | some b => runLength window b 0
  | none => window.length

/-- merge.go:833-852: the bulk emission loop of run mode on the winner's buffer `c`;
    `m` = `len(rows) - n`. Result: rows, buffer, `true` if the function returned (`!c.advance`) -/
def runEmit (bound : Option Row) : Nat → Nat → Buf → List Row × Buf × Bool
  | 0, _, c => ([], c, false)
  | f + 1, m, c =>
    if m = 0 then ([], c, false) else
    let run := runOf bound (c.win.take m)
    if !(c.advance run).2 then ((c.win.take m).take run, (c.advance run).1, true)
    else if run < (c.win.take m).length then ((c.win.take m).take run, (c.advance run).1, false)
    else
      let rec_ := runEmit bound f (m - run) (c.advance run).1
      ((c.win.take m).take run ++ rec_.1, rec_.2)

def MK.setBuf (st : MK) (c : Buf) : MK := { st with bufs := st.bufs.set st.winner.toNat c }

def MK.cur (st : MK) : Buf := st.bufs.getD st.winner.toNat (Buf.fresh [] [])

/-- merge.go:806-810 / 858-864: replay and update the streak -/
def MK.replayKeep (st : MK) (prev : Int) : MK :=
  if st.replayGames.winner ≠ prev then { st.replayGames with streak := 0 } else st.replayGames

def MK.replayCount (st : MK) (prev : Int) : MK :=
  if st.replayGames.winner = prev then { st.replayGames with streak := st.streak + 1 }
  else { st.replayGames with streak := 0 }

/-- merge.go:788-865, `m` = `len(rows) - n` -/
def MK.loop : Nat → Nat → MK → List Row × MK
  | 0, _, st => ([], st)
  | f + 1, m, st =>
    if m = 0 || st.count = 0 then ([], st) else
    if st.cur.empty then
      match st.cur.read with
      | some c' => MK.loop f m ((st.setBuf c').replayKeep st.winner)
      | none => MK.loop f m ({ st with winner := -1, count := st.count - 1 }.replayKeep (-1))
    else
      let st1 := st.setBuf (st.cur.advance 1).1
      if !(st.cur.advance 1).2 then ([st.cur.head], st1)
      else if st.streak ≥ runDetectionStreak then
        let e := runEmit st1.runBound (m - 1) (m - 1) (st.cur.advance 1).1
        if e.2.2 then (st.cur.head :: e.1, st1.setBuf e.2.1)
        else
          let rec_ := MK.loop f (m - 1 - e.1.length) { st1.setBuf e.2.1 with streak := 0 }.replayGames
          (st.cur.head :: (e.1 ++ rec_.1), rec_.2)
      else
        let rec_ := MK.loop f (m - 1) (st1.replayCount st.winner)
        (st.cur.head :: rec_.1, rec_.2)

/-- merge.go:779-872 `ReadRows(rows)` with `len(rows) = m`; `true` = io.EOF -/
def MK.readRows (st : MK) (m : Nat) : List Row × Bool × MK :=
  let st := if st.initialized then st else st.initialize
  let r := MK.loop (2 * m + 2) m st
  (r.1, r.2.count = 0, r.2)

/-! ## mergeRowReaders dispatch (merge.go:531-555) and a whole read session -/

inductive Reader where
  | empty
  | one (b : Buf)
  | two (s : M2)
  | many (s : MK)

def mkBufs (inputs : List (List Row)) (refills : List (List Nat)) : List Buf :=
  (List.range inputs.length).map (fun i => Buf.fresh (inputs.getD i []) (refills.getD i []))

def Reader.new (inputs : List (List Row)) (refills : List (List Nat)) : Reader :=
  match inputs with
  | [] => .empty
  | [a] => .one (Buf.fresh a (refills.getD 0 []))
  | [a, b] => .two (M2.new (Buf.fresh a (refills.getD 0 [])) (Buf.fresh b (refills.getD 1 [])))
  | _ => .many (MK.new (mkBufs inputs refills))

/-- one `ReadRows` call. A single input is returned as is by `mergeRowReaders`; its source is
    modelled as delivering `min m (next refill size)` rows. -/
def Reader.readRows (r : Reader) (m : Nat) : List Row × Bool × Reader :=
  match r with
  | .empty => ([], true, .empty)
  | .one b =>
    match b.src with
    | [] => ([], true, .one b)
    | _ :: _ =>
      let want := match b.sizes with | [] => m | s :: _ => max 1 s
      let n := min m (min want b.src.length)
      (b.src.take n, false, .one { b with src := b.src.drop n, sizes := b.sizes.tail })
  | .two s => ((s.readRows m).1, (s.readRows m).2.1, .two (s.readRows m).2.2)
  | .many s => ((s.readRows m).1, (s.readRows m).2.1, .many (s.readRows m).2.2)

/-- rows not yet emitted, per input -/
def Reader.rem : Reader → List (List Row)
  | .empty => []
  | .one b => [b.rem]
  | .two s => [(s.r0.map Buf.rem).getD [], (s.r1.map Buf.rem).getD []]
  | .many s => s.bufs.map Buf.rem

/-- a read session: one `ReadRows` per batch size, stopping at io.EOF. Returns the batches, whether
    io.EOF was reached, and the reader. -/
def Reader.session : Reader → List Nat → List (List Row) × Bool × Reader
  | r, [] => ([], false, r)
  | r, m :: ms =>
    if (r.readRows m).2.1 then ([(r.readRows m).1], true, (r.readRows m).2.2)
    else
      let rec_ := Reader.session (r.readRows m).2.2 ms
      ((r.readRows m).1 :: rec_.1, rec_.2)

/-- the hidden payload: row `j` of input `i` is tagged `(i, j)` -/
def tagList (i : Nat) (ks : List Int) : List Row :=
  (List.range ks.length).map (fun j => { key := ks.getD j 0, inp := i, seq := j })

def tagInputs (keys : List (List Int)) : List (List Row) :=
  (List.range keys.length).map (fun i => tagList i (keys.getD i []))

/-! ## dedupe (dedupe.go:68-107) -/

/-- dedupe.go:92-99: partition of one batch into `uniq` and `dupe`, `lastRow` carried -/
def dedupeBatch : Option Row → List Row → List Row × List Row × Option Row
  | last, [] => ([], [], last)
  | none, row :: rows =>
    let r := dedupeBatch (some row) rows
    (row :: r.1, r.2.1, r.2.2)
  | some l, row :: rows =>
    if cmp row l = 0 then
      let r := dedupeBatch (some l) rows
      (r.1, row :: r.2.1, r.2.2)
    else
      let r := dedupeBatch (some row) rows
      (row :: r.1, r.2.1, r.2.2)

/-- dedupe.go:78-107 `deduplicate(rows)`: the rearranged slice `uniq ++ dupe`, `len(uniq)`, new `lastRow` -/
def deduplicate (last : Option Row) (rows : List Row) : List Row × Nat × Option Row :=
  let r := dedupeBatch last rows
  (r.1 ++ r.2.1, r.1.length, r.2.2)

/-- dedupe.go:18-27 over the batches the underlying reader delivers: what the caller receives -/
def dedupeReader : Option Row → List (List Row) → List Row
  | _, [] => []
  | last, b :: bs =>
    let r := deduplicate last b
    r.1.take r.2.1 ++ dedupeReader r.2.2 bs

end PqModel.Merge
