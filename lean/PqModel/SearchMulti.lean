import PqModel.Search

/-! # The column-index views `Find` is called on: `multiColumnIndex` (multi_row_group.go)

A `multiColumnChunk` (MultiRowGroup, MergeRowGroups, merged/converted wrappers that embed a
multiRowGroup) answers `ColumnIndex()` with a `multiColumnIndex`: the page lists of the per-chunk
column indexes one after the other, and order flags RECOMPUTED from the chunks' flags and one
comparison per chunk border.

* MIRROR: `mapPage`, `multiMinAt/MaxAt/NullAt`, `multiView`, `lastNonNull`, `firstNonNull`,
  `crossAscOK`, `crossDescOK`, `multiIsAscending`, `multiIsDescending`, `findView`, `findMulti`.
* SPEC: `concat` / `concatNulls` (plain list concatenation), `Ascending` (from `Search.lean`).
-/
namespace PqModel.Search

/-- One chunk's column index as the `ColumnIndex` interface shows it: `nulls[i]` = `NullPage(i)`,
    `ix` = `MinValue(i)`/`MaxValue(i)` (`none` = the null `Value{}`), `asc`/`desc` = what the chunk's
    own `IsAscending()`/`IsDescending()` answer. -/
structure Chunk where
  nulls : List Bool
  ix : Index
  asc : Bool
  desc : Bool

def Chunk.n (c : Chunk) : Nat := c.ix.n

/-- every accessor of the chunk's index answers for the same number of pages -/
def Chunk.WF (c : Chunk) : Prop := c.ix.maxs.length = c.ix.mins.length ∧ c.nulls.length = c.ix.mins.length

instance (c : Chunk) : Decidable c.WF := by unfold Chunk.WF; exact inferInstance

/-! ### SPEC: the multi index is the concatenation of the chunk indexes -/

def concat (cs : List Chunk) : Index :=
  { mins := cs.flatMap (fun c => c.ix.mins), maxs := cs.flatMap (fun c => c.ix.maxs) }

def concatNulls (cs : List Chunk) : List Bool := cs.flatMap (fun c => c.nulls)

def total (cs : List Chunk) : Nat := (cs.map Chunk.n).sum

/-! ### MIRROR: page lookup through the cumulative offsets -/

/-- multi_row_group.go:351-366 `mapPageIndex`, in-bounds part: the first chunk `i` with
    `offsets[i] <= p < offsets[i+1]` (`off` = `offsets[i]`, built as `offsets[i+1] = offsets[i] + NumPages`,
    multi_row_group.go:220-224) and the local page number. The Go code returns the chunk NUMBER and then
    indexes `m.indexes[chunkIndex]`; the mirror returns that chunk. -/
def mapPage : List Chunk → Nat → Nat → Option (Chunk × Nat)
  | [], _, _ => none
  | c :: cs, off, p => if off ≤ p ∧ p < off + c.n then some (c, p - off) else mapPage cs (off + c.n) p

def emptyChunk : Chunk := { nulls := [], ix := { mins := [], maxs := [] }, asc := false, desc := false }

/-- `mapPageIndex` with its out-of-bounds fallback (multi_row_group.go:357-365): the last page of the
    last chunk, or (0,0) -/
def mapPageGo (cs : List Chunk) (p : Nat) : Chunk × Nat :=
  match mapPage cs 0 p with
  | some r => r
  | none =>
    let l := cs.getLastD emptyChunk
    if cs.length > 0 ∧ l.n > 0 then (l, l.n - 1) else (cs.headD emptyChunk, 0)

/-- multi_row_group.go:368-386 `NullPage`, `MinValue`, `MaxValue` -/
def multiNullAt (cs : List Chunk) (p : Nat) : Bool := let r := mapPageGo cs p; r.1.nulls.getD r.2 false
def multiMinAt (cs : List Chunk) (p : Nat) : Bound := let r := mapPageGo cs p; minAt r.1.ix r.2
def multiMaxAt (cs : List Chunk) (p : Nat) : Bound := let r := mapPageGo cs p; maxAt r.1.ix r.2

/-- what a caller that walks `0 .. NumPages()-1` sees (`numPages` = sum of the chunks' `NumPages()`,
    multi_row_group.go:210-218) -/
def multiView (cs : List Chunk) : Index :=
  { mins := (List.range (total cs)).map (multiMinAt cs), maxs := (List.range (total cs)).map (multiMaxAt cs) }

def multiViewNulls (cs : List Chunk) : List Bool := (List.range (total cs)).map (multiNullAt cs)

/-! ### MIRROR: the recomputed order flags -/

/-- multi_row_group.go:423-427 / 474-478: `lastPage := NumPages()-1; for lastPage >= 0 && NullPage(lastPage) { lastPage-- }` -/
def lastNonNullAux (nulls : List Bool) : Nat → Option Nat
  | 0 => none
  | k + 1 => if nulls.getD k false then lastNonNullAux nulls k else some k

def lastNonNull (c : Chunk) : Option Nat := lastNonNullAux c.nulls c.n

/-- multi_row_group.go:429-434 / 467-472: `firstPage := 0; for firstPage < numPages && NullPage(firstPage) { firstPage++ }` -/
def firstNonNullAux (nulls : List Bool) (n : Nat) : Nat → Nat → Option Nat
  | 0, _ => none
  | fuel + 1, i => if i < n then (if nulls.getD i false then firstNonNullAux nulls n fuel (i + 1) else some i) else none

def firstNonNull (c : Chunk) : Option Nat := firstNonNullAux c.nulls c.n c.n 0

/-- multi_row_group.go:417-435 the seam loop of the REPAIRED `multiColumnIndex.IsAscending` (library commit 5dcb05b)
    with `nonNullPageRange` (:479-490): one pass carrying `prevMax`/`hasPrev` = the max of the last non-null page
    seen so far; a chunk without non-null page (`firstPage > lastPage`) is skipped and does not reset it;
    `cmp(prevMax, MinValue(firstPage)) > 0 → not ascending`. `cmp` is the raw `typ.Compare`, which reads a null
    `Value{}` as the zero value (rank `z`). -/
def ascSeams (z : Int) : Option Int → List Chunk → Bool
  | _, [] => true
  | prev, c :: rest =>
    match firstNonNull c, lastNonNull c with
    | some f, some l =>
      (match prev with
        | some m => !decide (m > stored z (minAt c.ix f))
        | none => true) && ascSeams z (some (stored z (maxAt c.ix l))) rest
    | _, _ => ascSeams z prev rest

/-- multi_row_group.go:454-472 the seam loop of the repaired `IsDescending`: carries `prevMin`;
    `cmp(prevMin, MaxValue(firstPage)) < 0 → not descending` -/
def descSeams (z : Int) : Option Int → List Chunk → Bool
  | _, [] => true
  | prev, c :: rest =>
    match firstNonNull c, lastNonNull c with
    | some f, some l =>
      (match prev with
        | some m => !decide (m < stored z (maxAt c.ix f))
        | none => true) && descSeams z (some (stored z (minAt c.ix l))) rest
    | _, _ => descSeams z prev rest

/-- multi_row_group.go:401-436 `multiColumnIndex.IsAscending` (`m.typ` is the type of the first chunk and is
    never nil when there is a chunk; with no chunk `ColumnIndex()` answers `emptyColumnIndex`, flags false) -/
def multiIsAscending (z : Int) (cs : List Chunk) : Bool :=
  !cs.isEmpty && cs.all (·.asc) && ascSeams z none cs

/-- multi_row_group.go:438-475 `multiColumnIndex.IsDescending` -/
def multiIsDescending (z : Int) (cs : List Chunk) : Bool :=
  !cs.isEmpty && cs.all (·.desc) && descSeams z none cs

/-! #### the loops BEFORE repair 5dcb05b (regression facts only): adjacent chunks, no carried bound -/

/-- before 5dcb05b: `cmp(currMax, nextMin) > 0 → not ascending`, last non-null page of chunk i against the first
    non-null page of chunk i+1; skipped when either chunk has none -/
def crossAscOK (z : Int) (a b : Chunk) : Bool :=
  match lastNonNull a, firstNonNull b with
  | some i, some j => !decide (stored z (maxAt a.ix i) > stored z (minAt b.ix j))
  | _, _ => true

/-- before 5dcb05b: `cmp(currMin, nextMax) < 0 → not descending`, FIRST non-null page of chunk i against the LAST
    non-null page of chunk i+1 (the wrong ends) -/
def crossDescOK (z : Int) (a b : Chunk) : Bool :=
  match firstNonNull a, lastNonNull b with
  | some i, some j => !decide (stored z (minAt a.ix i) < stored z (maxAt b.ix j))
  | _, _ => true

/-- `for i := range len(m.indexes) - 1 { ... indexes[i], indexes[i+1] ... }` -/
def pairsAll (f : Chunk → Chunk → Bool) : List Chunk → Bool
  | a :: b :: rest => f a b && pairsAll f (b :: rest)
  | _ => true

def multiIsAscending_before_fix (z : Int) (cs : List Chunk) : Bool :=
  !cs.isEmpty && cs.all (·.asc) && pairsAll (crossAscOK z) cs

def multiIsDescending_before_fix (z : Int) (cs : List Chunk) : Bool :=
  !cs.isEmpty && cs.all (·.desc) && pairsAll (crossDescOK z) cs

/-- search.go:31-50 `Find` on any `ColumnIndex`: the guard reads `NullPage(i)`, the searches read the bounds -/
def findView (nf asc : Bool) (nulls : List Bool) (ix : Index) (v : Int) : Nat :=
  if asc && !nulls.any id then binarySearch nf ix v else linearSearch nf ix v

/-- `Find(multiColumnIndex, v, cmp)` as the code runs it: every access goes through `mapPageIndex` -/
def findMultiGo (nf : Bool) (z : Int) (cs : List Chunk) (v : Int) : Nat :=
  findView nf (multiIsAscending z cs) (multiViewNulls cs) (multiView cs) v

/-- the same on the concatenation (equal to `findMultiGo` for well-formed chunks: `findMultiGo_eq`) -/
def findMulti (nf : Bool) (z : Int) (cs : List Chunk) (v : Int) : Nat :=
  findView nf (multiIsAscending z cs) (concatNulls cs) (concat cs) v

/-! ### list facts -/

theorem getD_append_lt {α} (d : α) : ∀ (l1 l2 : List α) (i : Nat), i < l1.length →
    (l1 ++ l2).getD i d = l1.getD i d
  | [], _, _, h => by simp at h
  | _ :: _, _, 0, _ => rfl
  | _ :: t, l2, i + 1, h => by
    simpa only [List.cons_append, List.getD_cons_succ] using getD_append_lt d t l2 i (by simpa using h)

theorem getD_append_ge {α} (d : α) : ∀ (l1 l2 : List α) (i : Nat), l1.length ≤ i →
    (l1 ++ l2).getD i d = l2.getD (i - l1.length) d
  | [], _, _, _ => by simp
  | _ :: t, l2, 0, h => by simp at h
  | _ :: t, l2, i + 1, h => by
    have := getD_append_ge d t l2 i (by simpa using h)
    simpa only [List.cons_append, List.getD_cons_succ, List.length_cons, Nat.add_sub_add_right] using this

theorem total_cons (c : Chunk) (cs : List Chunk) : total (c :: cs) = c.n + total cs := by
  simp [total]

theorem concat_n (cs : List Chunk) : (concat cs).n = total cs := by
  induction cs with
  | nil => rfl
  | cons c cs ih =>
    simp only [Index.n, concat, List.flatMap_cons, List.length_append] at ih ⊢
    rw [ih, total_cons]; rfl

theorem concat_maxs_length (cs : List Chunk) (hwf : ∀ c ∈ cs, c.WF) :
    (concat cs).maxs.length = (concat cs).mins.length := by
  induction cs with
  | nil => rfl
  | cons c cs ih =>
    have h1 := (hwf c (by simp)).1
    have h2 := ih (fun c' hc' => hwf c' (by simp [hc']))
    simp only [concat, List.flatMap_cons, List.length_append] at h2 ⊢
    omega

theorem concatNulls_length (cs : List Chunk) (hwf : ∀ c ∈ cs, c.WF) :
    (concatNulls cs).length = total cs := by
  induction cs with
  | nil => rfl
  | cons c cs ih =>
    have h1 := (hwf c (by simp)).2
    have h2 := ih (fun c' hc' => hwf c' (by simp [hc']))
    simp only [concatNulls, List.flatMap_cons, List.length_append] at h2 ⊢
    rw [h2, total_cons, h1]; rfl

/-! ### the lookup through the offsets reads the concatenation -/

/-- For an in-range page the offsets lookup lands in a chunk of the list, on one of its pages, and that
    page's entries are the entries of the concatenation at `p`. -/
theorem mapPage_concat : ∀ (cs : List Chunk) (off p : Nat), (∀ c ∈ cs, c.WF) → p < total cs →
    ∃ c l, mapPage cs off (off + p) = some (c, l) ∧ c ∈ cs ∧ l < c.n ∧
      minAt c.ix l = minAt (concat cs) p ∧ maxAt c.ix l = maxAt (concat cs) p ∧
      c.nulls.getD l false = (concatNulls cs).getD p false
  | [], _, p, _, hp => by simp [total] at hp
  | c :: cs, off, p, hwf, hp => by
    have hc := hwf c (by simp)
    by_cases hlt : p < c.n
    · refine ⟨c, p, ?_, by simp, hlt, ?_, ?_, ?_⟩
      · simp only [mapPage]
        rw [if_pos ⟨by omega, by omega⟩]
        simp
      · simp only [minAt, concat, List.flatMap_cons]
        exact (getD_append_lt none _ _ p hlt).symm
      · simp only [maxAt, concat, List.flatMap_cons]
        exact (getD_append_lt none _ _ p (by rw [hc.1]; exact hlt)).symm
      · simp only [concatNulls, List.flatMap_cons]
        exact (getD_append_lt false _ _ p (by rw [hc.2]; exact hlt)).symm
    · rw [total_cons] at hp
      obtain ⟨c', l, h1, h2, h3, h4, h5, h6⟩ :=
        mapPage_concat cs (off + c.n) (p - c.n) (fun c' hc' => hwf c' (by simp [hc'])) (by omega)
      refine ⟨c', l, ?_, by simp [h2], h3, ?_, ?_, ?_⟩
      · simp only [mapPage]
        rw [if_neg (by omega)]
        have : off + c.n + (p - c.n) = off + p := by omega
        rw [← this]; exact h1
      · rw [h4]
        simp only [minAt, concat, List.flatMap_cons]
        have := getD_append_ge (none : Bound) c.ix.mins (cs.flatMap fun c => c.ix.mins) p (by simp only [Chunk.n, Index.n] at hlt; omega)
        rw [this]; rfl
      · rw [h5]
        simp only [maxAt, concat, List.flatMap_cons]
        have := getD_append_ge (none : Bound) c.ix.maxs (cs.flatMap fun c => c.ix.maxs) p (by have := hc.1; simp only [Chunk.n, Index.n] at hlt; omega)
        rw [this, hc.1]; rfl
      · rw [h6]
        simp only [concatNulls, List.flatMap_cons]
        have := getD_append_ge false c.nulls (cs.flatMap fun c => c.nulls) p (by have := hc.2; simp only [Chunk.n, Index.n] at hlt; omega)
        rw [this, hc.2]; rfl

theorem map_range_getD {α} (d : α) : ∀ (l : List α), (List.range l.length).map (fun i => l.getD i d) = l := by
  intro l
  apply List.ext_getElem
  · simp
  · intro i h1 h2
    simp [List.getD_eq_getElem?_getD, List.getElem?_eq_getElem h2]

/-- MIRROR = SPEC: walking the multi index page by page through `mapPageIndex` reads exactly the
    concatenation of the chunk indexes (bounds and null-page flags). -/
theorem multiView_eq_concat (cs : List Chunk) (hwf : ∀ c ∈ cs, c.WF) :
    multiView cs = concat cs ∧ multiViewNulls cs = concatNulls cs := by
  have key : ∀ p, p < total cs → multiMinAt cs p = minAt (concat cs) p ∧ multiMaxAt cs p = maxAt (concat cs) p ∧
      multiNullAt cs p = (concatNulls cs).getD p false := by
    intro p hp
    obtain ⟨c, l, h1, _, _, h4, h5, h6⟩ := mapPage_concat cs 0 p hwf hp
    simp only [Nat.zero_add] at h1
    simp only [multiMinAt, multiMaxAt, multiNullAt, mapPageGo, h1]
    exact ⟨h4, h5, h6⟩
  have hn := concat_n cs
  have hm := concat_maxs_length cs hwf
  have hl := concatNulls_length cs hwf
  refine ⟨?_, ?_⟩
  · have e1 : (List.range (total cs)).map (multiMinAt cs) = (concat cs).mins := by
      rw [← map_range_getD none (concat cs).mins]
      simp only [Index.n] at hn
      rw [hn]
      apply List.map_congr_left
      intro p hp
      exact (key p (by simpa using hp)).1
    have e2 : (List.range (total cs)).map (multiMaxAt cs) = (concat cs).maxs := by
      rw [← map_range_getD none (concat cs).maxs]
      simp only [Index.n] at hn
      rw [hm, hn]
      apply List.map_congr_left
      intro p hp
      exact (key p (by simpa using hp)).2.1
    simp only [multiView, e1, e2]
  · rw [← map_range_getD false (concatNulls cs), hl]
    apply List.map_congr_left
    intro p hp
    exact (key p (by simpa using hp)).2.2

theorem findMultiGo_eq (nf : Bool) (z : Int) (cs : List Chunk) (v : Int) (hwf : ∀ c ∈ cs, c.WF) :
    findMultiGo nf z cs v = findMulti nf z cs v := by
  obtain ⟨h1, h2⟩ := multiView_eq_concat cs hwf
  simp only [findMultiGo, findMulti, h1, h2]

/-! ### adjacent-pair order of concatenated lists -/

theorem isAsc_append : ∀ (l1 l2 : List Int), isAsc l1 = true → isAsc l2 = true →
    (0 < l1.length → 0 < l2.length → l1.getD (l1.length - 1) 0 ≤ l2.getD 0 0) → isAsc (l1 ++ l2) = true
  | [], l2, _, h2, _ => by simpa using h2
  | [a], [], _, _, _ => by simp [isAsc]
  | [a], b :: t, _, h2, h => by
    have := h (by simp) (by simp)
    simp only [List.length_cons, List.length_nil, Nat.zero_add, Nat.sub_self, List.getD_cons_zero] at this
    simp only [List.cons_append, List.nil_append, isAsc, Bool.and_eq_true, decide_eq_true_eq]
    exact ⟨this, h2⟩
  | a :: b :: t, l2, h1, h2, h => by
    simp only [isAsc, Bool.and_eq_true, decide_eq_true_eq] at h1
    have ih := isAsc_append (b :: t) l2 h1.2 h2 (by
      intro _ hl2
      have := h (by simp) hl2
      simpa only [List.length_cons, Nat.add_sub_cancel, List.getD_cons_succ] using this)
    simp only [List.cons_append, isAsc, Bool.and_eq_true, decide_eq_true_eq] at ih ⊢
    exact ⟨h1.1, ih⟩

theorem isDesc_append : ∀ (l1 l2 : List Int), isDesc l1 = true → isDesc l2 = true →
    (0 < l1.length → 0 < l2.length → l1.getD (l1.length - 1) 0 ≥ l2.getD 0 0) → isDesc (l1 ++ l2) = true
  | [], l2, _, h2, _ => by simpa using h2
  | [a], [], _, _, _ => by simp [isDesc]
  | [a], b :: t, _, h2, h => by
    have := h (by simp) (by simp)
    simp only [List.length_cons, List.length_nil, Nat.zero_add, Nat.sub_self, List.getD_cons_zero] at this
    simp only [List.cons_append, List.nil_append, isDesc, Bool.and_eq_true, decide_eq_true_eq]
    exact ⟨this, h2⟩
  | a :: b :: t, l2, h1, h2, h => by
    simp only [isDesc, Bool.and_eq_true, decide_eq_true_eq] at h1
    have ih := isDesc_append (b :: t) l2 h1.2 h2 (by
      intro _ hl2
      have := h (by simp) hl2
      simpa only [List.length_cons, Nat.add_sub_cancel, List.getD_cons_succ] using this)
    simp only [List.cons_append, isDesc, Bool.and_eq_true, decide_eq_true_eq] at ih ⊢
    exact ⟨h1.1, ih⟩

/-! ### the recomputed ASCENDING flag implies the sortedness `binarySearch_first` needs -/

theorem any_id_false_getD : ∀ (l : List Bool) (i : Nat), l.any id = false → l.getD i false = false
  | [], _, _ => by simp
  | a :: t, 0, h => by
    simp only [List.any_cons, Bool.or_eq_false_iff, id] at h
    simpa using h.1
  | a :: t, i + 1, h => by
    simp only [List.any_cons, Bool.or_eq_false_iff] at h
    simpa only [List.getD_cons_succ] using any_id_false_getD t i h.2

theorem getD_map_stored' (z : Int) : ∀ (l : List Bound) (i : Nat), i < l.length →
    (l.map (stored z)).getD i 0 = stored z (l.getD i none)
  | [], _, h => by simp at h
  | _ :: _, 0, _ => rfl
  | _ :: t, i + 1, h => by
    simpa only [List.map_cons, List.getD_cons_succ] using getD_map_stored' z t i (by simpa using h)

theorem lastNonNull_of_no_null (c : Chunk) (hnn : c.nulls.any id = false) (hn : 0 < c.n) :
    lastNonNull c = some (c.n - 1) := by
  unfold lastNonNull
  obtain ⟨k, hk⟩ : ∃ k, c.n = k + 1 := ⟨c.n - 1, by omega⟩
  rw [hk]
  simp only [lastNonNullAux, any_id_false_getD c.nulls k hnn, Nat.add_sub_cancel]
  rfl

theorem firstNonNull_of_no_null (c : Chunk) (hnn : c.nulls.any id = false) (hn : 0 < c.n) :
    firstNonNull c = some 0 := by
  unfold firstNonNull
  obtain ⟨k, hk⟩ : ∃ k, c.n = k + 1 := ⟨c.n - 1, by omega⟩
  rw [hk]
  simp only [firstNonNullAux, any_id_false_getD c.nulls 0 hnn]
  simp

/-- what the soundness proofs need of one chunk: no null page, at least one page, `min ≤ max` per page -/
structure ChunkOK (z : Int) (c : Chunk) : Prop where
  wf : c.WF
  nonull : c.nulls.any id = false
  pos : 0 < c.n
  le : ∀ i, i < c.n → stored z (minAt c.ix i) ≤ stored z (maxAt c.ix i)

theorem multi_isAsc_lists (z : Int) : ∀ (cs : List Chunk), (∀ c ∈ cs, ChunkOK z c) →
    (∀ c ∈ cs, isAsc (c.ix.mins.map (stored z)) = true ∧ isAsc (c.ix.maxs.map (stored z)) = true) →
    pairsAll (crossAscOK z) cs = true →
    isAsc (cs.flatMap fun c => c.ix.mins.map (stored z)) = true ∧
    isAsc (cs.flatMap fun c => c.ix.maxs.map (stored z)) = true
  | [], _, _, _ => by simp [isAsc]
  | [c], _, ha, _ => by
    have := ha c (by simp)
    simpa using this
  | c :: b :: rest, hok, ha, hp => by
    simp only [pairsAll, Bool.and_eq_true] at hp
    have ih := multi_isAsc_lists z (b :: rest) (fun c' hc' => hok c' (by simp [hc']))
      (fun c' hc' => ha c' (by simp [hc'])) hp.2
    have hc := hok c (by simp)
    have hb := hok b (by simp)
    have hcross := hp.1
    simp only [crossAscOK, lastNonNull_of_no_null c hc.nonull hc.pos,
      firstNonNull_of_no_null b hb.nonull hb.pos, Bool.not_eq_true', decide_eq_false_iff_not] at hcross
    have hcl := hc.le (c.n - 1) (by have := hc.pos; omega)
    have hbl := hb.le 0 hb.pos
    have hcn : c.ix.mins.length = c.n := rfl
    have hcx : c.ix.maxs.length = c.n := hc.wf.1
    have hbn : c.ix.mins.length = c.n := rfl
    have hbpos := hb.pos
    have hcpos := hc.pos
    simp only [List.flatMap_cons] at ih ⊢
    refine ⟨isAsc_append _ _ (ha c (by simp)).1 ih.1 ?_, isAsc_append _ _ (ha c (by simp)).2 ih.2 ?_⟩
    · intro _ _
      rw [List.length_map, hcn, getD_map_stored' z c.ix.mins (c.n - 1) (by omega),
        getD_append_lt 0 _ _ 0 (by rw [List.length_map]; exact hbpos),
        getD_map_stored' z b.ix.mins 0 hbpos]
      simp only [minAt, maxAt] at hcl hcross hbl
      omega
    · intro _ _
      rw [List.length_map, hcx, getD_map_stored' z c.ix.maxs (c.n - 1) (by omega),
        getD_append_lt 0 _ _ 0 (by rw [List.length_map, hb.wf.1]; exact hbpos),
        getD_map_stored' z b.ix.maxs 0 (by rw [hb.wf.1]; exact hbpos)]
      simp only [minAt, maxAt] at hcl hcross hbl
      omega

theorem hasNull_concat (cs : List Chunk) (h : ∀ c ∈ cs, hasNull c.ix = false) : hasNull (concat cs) = false := by
  induction cs with
  | nil => rfl
  | cons c cs ih =>
    have hc := h c (by simp)
    have ht := ih (fun c' hc' => h c' (by simp [hc']))
    simp only [hasNull, concat, List.flatMap_cons, List.any_append, Bool.or_eq_false_iff] at hc ht ⊢
    exact ⟨⟨hc.1, ht.1⟩, ⟨hc.2, ht.2⟩⟩

theorem no_null_chunks (cs : List Chunk) (h : (concatNulls cs).any id = false) :
    ∀ c ∈ cs, c.nulls.any id = false := by
  intro c hc
  simp only [concatNulls, List.any_flatMap, List.any_eq_false] at h
  simpa using h c hc

/-- on chunks without null page and with at least one page the carried bound is the max of the previous chunk's
    last page: the repaired seam loop and the adjacent-pair loop it replaced agree -/
theorem ascSeams_eq_pairsAll (z : Int) : ∀ (cs : List Chunk) (a : Chunk),
    (∀ c ∈ a :: cs, c.nulls.any id = false ∧ 0 < c.n) →
    ascSeams z (some (stored z (maxAt a.ix (a.n - 1)))) cs = pairsAll (crossAscOK z) (a :: cs)
  | [], _, _ => rfl
  | b :: rest, a, h => by
    have ha := h a (by simp)
    have hb := h b (by simp)
    have ih := ascSeams_eq_pairsAll z rest b (fun c hc => h c (List.mem_cons_of_mem _ hc))
    simp only [ascSeams, pairsAll, crossAscOK, firstNonNull_of_no_null b hb.1 hb.2, lastNonNull_of_no_null b hb.1 hb.2,
      lastNonNull_of_no_null a ha.1 ha.2, ih]

theorem ascSeams_none_eq_pairsAll (z : Int) (cs : List Chunk) (h : ∀ c ∈ cs, c.nulls.any id = false ∧ 0 < c.n) :
    ascSeams z none cs = pairsAll (crossAscOK z) cs := by
  cases cs with
  | nil => rfl
  | cons a rest =>
    have ha := h a (by simp)
    simp only [ascSeams, firstNonNull_of_no_null a ha.1 ha.2, lastNonNull_of_no_null a ha.1 ha.2, Bool.true_and]
    exact ascSeams_eq_pairsAll z rest a h

/-- C06 on the multi view, core: if `multiColumnIndex.IsAscending` answers true, no page of any chunk is a
    null page (the guard of `Find`), every chunk that claims ASCENDING does so truthfully (its stored bound
    lists pass the adjacent-pair check) and has at least one page, then the concatenated index is
    `Ascending`: mins and maxes sorted ACROSS the chunk borders as well. -/
theorem multiAscending_sound (z : Int) (cs : List Chunk)
    (hwf : ∀ c ∈ cs, c.WF)
    (hnull : (concatNulls cs).any id = false)
    (hbnd : ∀ c ∈ cs, c.nulls.any id = false → hasNull c.ix = false)
    (hne : ∀ c ∈ cs, c.asc = true → 0 < c.n)
    (htruth : ∀ c ∈ cs, c.asc = true →
      isAsc (c.ix.mins.map (stored z)) = true ∧ isAsc (c.ix.maxs.map (stored z)) = true)
    (hle : ∀ c ∈ cs, ∀ i a b, i < c.n → minAt c.ix i = some a → maxAt c.ix i = some b → a ≤ b)
    (hflag : multiIsAscending z cs = true) :
    ∃ mn mx, Ascending (concat cs) mn mx := by
  simp only [multiIsAscending, Bool.and_eq_true, List.all_eq_true] at hflag
  obtain ⟨⟨_, hall⟩, hpairs⟩ := hflag
  have hnn := no_null_chunks cs hnull
  have hbn : ∀ c ∈ cs, hasNull c.ix = false := fun c hc => hbnd c hc (hnn c hc)
  have hok : ∀ c ∈ cs, ChunkOK z c := fun c hc =>
    { wf := hwf c hc
      nonull := hnn c hc
      pos := hne c hc (hall c hc)
      le := by
        intro i hi
        have hb := hbn c hc
        simp only [hasNull, Bool.or_eq_false_iff] at hb
        obtain ⟨a, ha⟩ := any_isNone_false_getD c.ix.mins i hb.1 hi
        obtain ⟨b, hb'⟩ := any_isNone_false_getD c.ix.maxs i hb.2 (by rw [(hwf c hc).1]; exact hi)
        have := hle c hc i a b hi ha hb'
        simp only [minAt, maxAt, ha, hb', stored, Option.getD_some]
        exact this }
  rw [ascSeams_none_eq_pairsAll z cs (fun c hc => ⟨(hok c hc).nonull, (hok c hc).pos⟩)] at hpairs
  have hl := multi_isAsc_lists z cs hok (fun c hc => htruth c hc (hall c hc)) hpairs
  apply ascending_of_isAsc z z (concat cs) (concat_maxs_length cs hwf)
  · simp only [concat, List.map_flatMap]; exact hl.1
  · simp only [concat, List.map_flatMap]; exact hl.2
  · exact hasNull_concat cs hbn
  · intro p a b hp ha hb
    rw [concat_n] at hp
    obtain ⟨c, l, _, hc, hlt, h4, h5, _⟩ := mapPage_concat cs 0 p hwf hp
    exact hle c hc l a b hlt (h4.trans ha) (h5.trans hb)

/-- `Find` on a multi index never misses, whatever the chunks: with a null page anywhere, or without the
    ASCENDING answer, the dispatch is the linear search (correct for every index); otherwise
    `multiAscending_sound` applies. Result as in `binarySearch_first`: the first page of the concatenation
    whose bounds contain `v`, else the total number of pages. -/
theorem findMulti_no_miss (nf : Bool) (z : Int) (cs : List Chunk) (v : Int)
    (hwf : ∀ c ∈ cs, c.WF)
    (hbnd : ∀ c ∈ cs, c.nulls.any id = false → hasNull c.ix = false)
    (hne : ∀ c ∈ cs, c.asc = true → 0 < c.n)
    (htruth : ∀ c ∈ cs, c.asc = true →
      isAsc (c.ix.mins.map (stored z)) = true ∧ isAsc (c.ix.maxs.map (stored z)) = true)
    (hle : ∀ c ∈ cs, ∀ i a b, i < c.n → minAt c.ix i = some a → maxAt c.ix i = some b → a ≤ b) :
    let r := findMultiGo nf z cs v
    r ≤ (concat cs).n ∧ (r < (concat cs).n → contains nf (concat cs) r v = true) ∧
    (∀ p, p < (concat cs).n → contains nf (concat cs) p v = true → r ≤ p) := by
  simp only [findMultiGo_eq nf z cs v hwf, findMulti, findView]
  by_cases hc : (multiIsAscending z cs && !(concatNulls cs).any id) = true
  · rw [if_pos hc]
    simp only [Bool.and_eq_true, Bool.not_eq_true'] at hc
    obtain ⟨mn, mx, ha⟩ := multiAscending_sound z cs hwf hc.2 hbnd hne htruth hle hc.1
    exact binarySearch_first nf ha v
  · rw [if_neg hc]
    exact linearSearch_first nf (concat cs) v

end PqModel.Search
