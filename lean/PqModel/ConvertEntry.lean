import PqModel.ConvertProofs

/-! # C12: the entry points that decide WHETHER a conversion is installed, and the deprecated
    `Reader` whose target type may change between `Read` calls

* MIRRORS of `EqualNodes` / `SameNodes` (node.go:608-672) on the named schemas of `Convert.lean`
  (`equalN`, `sameN`), and of the shape every reader entry point has (reader.go:63, :96, :349,
  :428; row.go:318; convert.go:376, :612): `if !EqualNodes(target, source) { convert }`
  (`readVia`).
* MIRROR of `reader.init/Reset/SeekToRow/ReadRows` and `Reader.Read/updateReadSchema`
  (reader.go:395-440, :487-560) as a small state machine over "which view were the cached rows
  opened on, and where do they stand" (`Rd`), as the code stands after the repair of `reader.init`,
  plus the mirror of `init` before the repair (`Rd.initBeforeFix`).

SPEC side: `projN`/`shred` of `Convert.lean`; for the reader: the k-th `Read` call yields row k seen
through the target of THAT call. -/
namespace PqModel.Convert
open PqModel.Dremel

/-! ## `EqualNodes` and `SameNodes` -/

mutual
/-- MIRROR of `EqualNodes` (node.go:608-614, `groupNodesAreEqual` :633-646, `fieldsAreEqual`
    :672-686): same kind, same number of fields, and position by position the same name, the same
    repetition type and equal nodes. (Leaf types and logical types are not part of `PNode`.) -/
def equalN : PNode → PNode → Bool
  | .leaf, .leaf => true
  | .group a, .group b => equalF a b
  | _, _ => false
def equalF : PFields → PFields → Bool
  | .nil, .nil => true
  | .cons n1 r1 a as, .cons n2 r2 b bs => n1 == n2 && r1 == r2 && equalN a b && equalF as bs
  | _, _ => false
end

def lenF : PFields → Nat
  | .nil => 0
  | .cons _ _ _ fs => lenF fs + 1

mutual
/-- MIRROR of `SameNodes` (node.go:624-630, `groupNodesAreSame` :648-670): the same number of
    fields, and after sorting both field lists by name, position by position the same name, the
    same repetition type and `SameNodes` nodes. With unique field names (assumption of C12:
    `parquet.Group` is a map) sorting + positional comparison is the lookup by name used here. -/
def sameN : PNode → PNode → Bool
  | .leaf, .leaf => true
  | .group a, .group b => lenF a == lenF b && sameF a b
  | _, _ => false
def sameF : PFields → PFields → Bool
  | .nil, _ => true
  | .cons nm rp n fs, b =>
    (match getFld nm b with
     | some (rp', n') => rp == rp' && sameN n n'
     | none => false) && sameF fs b
end

/-- MIRROR of the reader entry points (reader.go:63-65, :96-98, :349-358, :428-436; row.go:318-331):
    the rows are handed out as they are stored when the guard says the schemas agree, else through
    `Convert(target, source)`. `guard` is `EqualNodes` in the code. -/
def readVia (guard : PNode → PNode → Bool) (src tgt : PNode) (row : Cols) : Cols :=
  if guard tgt src then row else convertRow src tgt row

/-! ## unique field names -/

def namesF : PFields → List Nat
  | .nil => []
  | .cons nm _ _ fs => nm :: namesF fs

mutual
/-- field names are unique within every group (C12 assumption) -/
def nodupN : PNode → Bool
  | .leaf => true
  | .group fs => nodupF fs
def nodupF : PFields → Bool
  | .nil => true
  | .cons nm _ n fs => !(namesF fs).contains nm && nodupN n && nodupF fs
end

/-! ## `EqualNodes` is equality -/

mutual
theorem equalN_eq : ∀ (s t : PNode), equalN s t = true → s = t
  | .leaf, .leaf, _ => rfl
  | .leaf, .group _, h => by simp [equalN] at h
  | .group _, .leaf, h => by simp [equalN] at h
  | .group a, .group b, h => by
    simp only [equalN] at h
    rw [equalF_eq a b h]
theorem equalF_eq : ∀ (a b : PFields), equalF a b = true → a = b
  | .nil, .nil, _ => rfl
  | .nil, .cons _ _ _ _, h => by simp [equalF] at h
  | .cons _ _ _ _, .nil, h => by simp [equalF] at h
  | .cons n1 r1 x xs, .cons n2 r2 y ys, h => by
    simp only [equalF, Bool.and_eq_true, beq_iff_eq] at h
    obtain ⟨⟨⟨h1, h2⟩, h3⟩, h4⟩ := h
    rw [h1, h2, equalN_eq x y h3, equalF_eq xs ys h4]
end

mutual
theorem equalN_refl : ∀ (s : PNode), equalN s s = true
  | .leaf => rfl
  | .group a => by simp only [equalN]; exact equalF_refl a
theorem equalF_refl : ∀ (a : PFields), equalF a a = true
  | .nil => rfl
  | .cons n r x xs => by simp [equalF, equalN_refl x, equalF_refl xs]
end

/-! ## projecting a value onto its own schema is the identity -/

/-- fields given as a plain list, put in front of `fs` -/
def appF : List (Nat × Rp × PNode) → PFields → PFields
  | [], fs => fs
  | (nm, rp, n) :: pre, fs => .cons nm rp n (appF pre fs)

theorem appF_snoc : ∀ (pre : List (Nat × Rp × PNode)) (nm : Nat) (rp : Rp) (n : PNode) (fs : PFields),
    appF (pre ++ [(nm, rp, n)]) fs = appF pre (.cons nm rp n fs)
  | [], _, _, _, _ => rfl
  | (_, _, _) :: pre, nm, rp, n, fs => by
    simp only [List.cons_append, appF]
    rw [appF_snoc pre nm rp n fs]

/-- a name that does not occur in the prefix is looked up behind it -/
theorem findV_skip (nm : Nat) : ∀ (pre : List (Nat × Rp × PNode)) (pvs : List Val) (fs : PFields) (tvs : List Val),
    pvs.length = pre.length → (∀ x ∈ pre, x.1 ≠ nm) →
    findV nm (appF pre fs) (pvs ++ tvs) = findV nm fs tvs
  | [], pvs, fs, tvs, hl, _ => by
    have : pvs = [] := List.eq_nil_of_length_eq_zero (by simpa using hl)
    subst this
    rfl
  | (nm', rp, n) :: pre, pvs, fs, tvs, hl, hne => by
    cases pvs with
    | nil => simp at hl
    | cons p pvs =>
      have h1 : nm' ≠ nm := hne (nm', rp, n) (by simp)
      simp only [appF, List.cons_append, findV, if_neg h1]
      exact findV_skip nm pre pvs fs tvs (by simpa using hl) (fun x hx => hne x (by simp [hx]))

theorem sameKind_refl : ∀ (n : PNode), sameKind n n = true
  | .leaf => rfl
  | .group _ => rfl

mutual
theorem projN_self : ∀ (s : PNode) (v : Val), nodupN s = true → confN (eraseN s) v = true → projN s s v = v
  | .leaf, v, _, hc => by
    cases v <;> simp [eraseN, confN] at hc
    simp [projN]
  | .group fs, v, hn, hc => by
    cases v with
    | struct vs =>
      simp only [eraseN, confN] at hc
      simp only [nodupN] at hn
      simp only [projN]
      have := projF_self fs [] [] vs rfl (by simp) hn hc
      simp only [appF, List.nil_append] at this
      rw [this]
    | prim x => simp [eraseN, confN] at hc
    | none => simp [eraseN, confN] at hc
    | some w => simp [eraseN, confN] at hc
    | list ws => simp [eraseN, confN] at hc
theorem projF_self : ∀ (tfs : PFields) (pre : List (Nat × Rp × PNode)) (pvs tvs : List Val),
    pvs.length = pre.length → (∀ x ∈ pre, ¬ (namesF tfs).contains x.1 = true) →
    nodupF tfs = true → confF (eraseF tfs) tvs = true →
    projF (appF pre tfs) (pvs ++ tvs) tfs = tvs
  | .nil, _, _, tvs, _, _, _, hc => by
    simp only [eraseF, confF, List.isEmpty_iff] at hc
    simp [projF, hc]
  | .cons nm rp t tfs, pre, pvs, tvs, hl, hd, hn, hc => by
    cases tvs with
    | nil => simp [eraseF, confF] at hc
    | cons v tvs =>
      simp only [eraseF, confF, Bool.and_eq_true] at hc
      simp only [nodupF, Bool.and_eq_true, Bool.not_eq_true'] at hn
      obtain ⟨⟨hnm, hnt⟩, hnf⟩ := hn
      have hfind : findV nm (appF pre (.cons nm rp t tfs)) (pvs ++ v :: tvs) = some (rp, t, v) := by
        rw [findV_skip nm pre pvs _ _ hl (fun x hx hxe => hd x hx (by simp [namesF, hxe]))]
        simp [findV]
      have htail : projF (appF pre (.cons nm rp t tfs)) (pvs ++ v :: tvs) tfs = tvs := by
        have := projF_self tfs (pre ++ [(nm, rp, t)]) (pvs ++ [v]) tvs (by simp [hl])
          (by
            intro x hx
            simp only [List.mem_append, List.mem_singleton] at hx
            cases hx with
            | inl hx =>
              have := hd x hx
              simp only [namesF, List.contains_cons, Bool.or_eq_true, not_or] at this
              exact this.2
            | inr hx =>
              subst hx
              simp only [List.contains_iff_mem] at hnm ⊢
              simpa using hnm)
          hnf hc.2
        rw [appF_snoc, List.append_assoc] at this
        exact this
      simp only [projF, hfind, sameKind_refl, if_true, htail]
      congr 1
      cases rp with
      | req =>
        simp only [wrap] at hc
        exact projN_self t v hnt hc.1
      | opt =>
        simp only [wrap, confN] at hc
        cases v with
        | none => rfl
        | some w =>
          simp only at hc
          simp [projN_self t w hnt hc.1]
        | prim x => simp at hc
        | struct vs => simp at hc
        | list ws => simp at hc
      | rpt =>
        simp only [wrap, confN] at hc
        cases v with
        | list ws =>
          simp only [List.all_eq_true] at hc
          simp only
          congr 1
          conv => rhs; rw [← List.map_id ws]
          apply List.map_congr_left
          intro w hw
          exact projN_self t w hnt (hc.1 w hw)
        | none => simp at hc
        | some w => simp at hc
        | prim x => simp at hc
        | struct vs => simp at hc
end

/-! ## the deprecated `Reader`: one row cursor, a target that may change between `Read` calls -/

/-- State of `Reader` as far as `Read` is concerned. `τ` names a target type (and with it the view
    = converted row group that `updateReadSchema` installs for it).
    `seen`: `Reader.seen`; `view`: `reader.rowGroup`; `rows`: `reader.rows` = the view the cached
    `Rows` were opened on and the row they stand at; `idx`: `reader.rowIndex`; `cur`:
    `Reader.rowIndex` (the shared cursor). -/
structure Rd (τ : Type) where
  seen : Option τ
  view : Option τ
  rows : Option (τ × Nat)
  idx : Nat
  cur : Nat

def Rd.fresh {τ : Type} : Rd τ := ⟨none, none, none, 0, 0⟩

/-- MIRROR of `reader.init` (reader.go:495-507) after the repair: the cached rows are closed and
    forgotten, then `Reset` (rowIndex = 0). -/
def Rd.init {τ : Type} (st : Rd τ) (t : τ) : Rd τ :=
  { st with view := some t, rows := none, idx := 0 }

/-- MIRROR of `reader.init` BEFORE the repair: `Reset` (reader.go:509-529) rewinds rows that have a
    `Reset` method (rowGroupRows has) and keeps them, whatever row group they were opened on. -/
def Rd.initBeforeFix {τ : Type} (st : Rd τ) (t : τ) : Rd τ :=
  { st with view := some t, rows := st.rows.map (fun p => (p.1, 0)), idx := 0 }

/-- MIRROR of `reader.SeekToRow` (reader.go:547-560) -/
def Rd.seek {τ : Type} (st : Rd τ) (k : Nat) : Rd τ :=
  if k ≠ st.idx then { st with rows := st.rows.map (fun p => (p.1, k)), idx := k } else st

/-- MIRROR of `reader.ReadRows` (reader.go:531-545) for a buffer of one row out of `n`: opens the
    rows on the CURRENT view when none are cached (seeking to `rowIndex`), then reads one row.
    Result: the view and the index of the row handed out (`none` = io.EOF). -/
def Rd.readOne {τ : Type} (st : Rd τ) (n : Nat) : Option (τ × Nat) × Rd τ :=
  match st.view with
  | none => (none, st)
  | some v =>
    let (w, p) := match st.rows with
      | some r => r
      | none => (v, st.idx)
    if p < n then (some (w, p), { st with rows := some (w, p + 1), idx := st.idx + 1 })
    else (none, { st with rows := some (w, p) })

/-- MIRROR of `Reader.Read` (reader.go:395-424) with `updateReadSchema` (:426-440): a new target
    type installs its view through `init`; the shared cursor is sought; one row is read. -/
def Rd.read {τ : Type} [DecidableEq τ] (ini : Rd τ → τ → Rd τ) (n : Nat) (st : Rd τ) (t : τ) : Option (τ × Nat) × Rd τ :=
  let st := if st.seen = some t then st else { (ini st t) with seen := some t }
  let st := st.seek st.cur
  match st.readOne n with
  | (some r, st') => (some r, { st' with cur := st'.cur + 1 })
  | (none, st') => (none, st')

/-- a history of `Read` calls -/
def Rd.run {τ : Type} [DecidableEq τ] (ini : Rd τ → τ → Rd τ) (n : Nat) : Rd τ → List τ → List (Option (τ × Nat))
  | _, [] => []
  | st, t :: ts => (Rd.read ini n st t).1 :: Rd.run ini n (Rd.read ini n st t).2 ts

/-- SPEC: the k-th call (counting from `k0`) yields row k through the target of that call, or
    io.EOF past the last row -/
def Rd.spec {τ : Type} (n : Nat) : Nat → List τ → List (Option (τ × Nat))
  | _, [] => []
  | k, t :: ts => (if k < n then some (t, k) else none) :: Rd.spec n (if k < n then k + 1 else k) ts

/-- invariant of the repaired reader between `Read` calls: cached rows, if any, were opened on the
    view of the type seen last and stand at the shared cursor -/
def Rd.ok {τ : Type} (st : Rd τ) : Prop :=
  st.view = st.seen ∧ st.idx = st.cur ∧ (∀ r, st.rows = some r → some r.1 = st.seen ∧ r.2 = st.cur)

theorem Rd.read_ok {τ : Type} [DecidableEq τ] (n : Nat) (st : Rd τ) (t : τ) (h : st.ok) :
    (Rd.read Rd.init n st t).1 = (if st.cur < n then some (t, st.cur) else none) ∧
    (Rd.read Rd.init n st t).2.ok ∧
    (Rd.read Rd.init n st t).2.cur = (if st.cur < n then st.cur + 1 else st.cur) := by
  obtain ⟨hv, hi, hr⟩ := h
  rcases st with ⟨seen, view, rows, idx, cur⟩
  simp only at hv hi hr
  subst hv hi
  by_cases hs : view = some t
  · -- same target as before
    subst hs
    cases rows with
    | none =>
      by_cases hlt : idx < n <;> simp [Rd.read, Rd.seek, Rd.readOne, Rd.ok, hlt]
    | some r =>
      obtain ⟨h1, h2⟩ := hr r rfl
      rcases r with ⟨w, p⟩
      simp only [Option.some.injEq] at h1
      simp only at h2
      subst h1 h2
      by_cases hlt : p < n <;> simp [Rd.read, Rd.seek, Rd.readOne, Rd.ok, hlt]
  · -- the target changes: init drops the cached rows
    by_cases h0 : idx = 0
    · subst h0
      by_cases hlt : 0 < n <;> simp [Rd.read, Rd.init, Rd.seek, Rd.readOne, Rd.ok, hs, hlt]
    · by_cases hlt : idx < n <;> simp [Rd.read, Rd.init, Rd.seek, Rd.readOne, Rd.ok, hs, hlt, h0]

end PqModel.Convert
