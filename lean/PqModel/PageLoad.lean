import PqModel.Crc

/-! # Page loading paths of `FilePages` (file.go) — which of them compare checksums

MIRROR of the code as it stands (after `5000be7 fix: verify the checksum of a dictionary page that is
loaded lazily`): `readPage` (file.go:1448-1480) reads `CompressedPageSize` bytes and compares
`crc32.ChecksumIEEE` with `header.CRC` **iff `header.CRC != 0`**; the unencrypted branch of
`readDictionary` (file.go:1354-1367) now loads the body through `readPage` as well. Before the fix it
read the bytes with `io.ReadFull` and compared nothing (finding F4): that as-is mirror is kept as
`beforeFix`, the negation theorems about it carry `_before_fix` names in `Props/C13.lean`.
Which access path ends where:

* `sequential`        `ReadPage` loop from the chunk start, every page type incl. the dictionary page
                      met in sequence → `readPage` (file.go:1238)
* `afterSeek`         `SeekToRow` repositions the section reader (file.go:1551-1637); the next
                      `ReadPage` loads the target data page → `readPage`
* `lazyDictionary`    a dictionary-encoded data page is decoded while `f.dictionary == nil` (the
                      dictionary page was jumped over by a seek) → `readDictionary`
                      (file.go:1389-1392, 1401-1407) → `readPage` (file.go:1364)
* `readDictionaryAPI` `FilePages.ReadDictionary()` (file.go:1159-1166) → `readDictionary` → `readPage`

SPEC side: `writeHeader` (what a writer of this library stores, writer.go:2497-2499, 2610-2612 and
the thrift rule for `optional` i32), `Burst` (the corruption the property quantifies over).

Not modelled: decoding/decompression of the loaded body (it happens after the loader returned and
cannot restore the original bytes), encrypted columns (`readEncryptedPage`: authenticity comes from
AES-GCM, not from the CRC), corruption of page *headers*. -/
namespace PqModel.PageLoad
open PqModel.Crc

abbrev Bytes := List UInt8

deriving instance DecidableEq for Except

inductive Err where
  | corrupted   -- wraps `ErrCorrupted` ("crc32 checksum mismatch in page of column …")
  | io          -- short read (`io.ReadFull` failed)
  deriving DecidableEq, Repr

inductive PageKind where
  | dictionary | dataV1 | dataV2
  deriving DecidableEq, Repr

/-- The fields of `format.PageHeader` the loaders look at. `crc` is the Go field `CRC int32`
    (`thrift:"4,optional"`) as a bit pattern: the compact-protocol encoder omits an optional i32 that
    is zero and the decoder leaves an absent field at zero, so `crc = 0` *is* "the file has no CRC
    field for this page" — the two are indistinguishable to the reader. -/
structure Header where
  kind : PageKind
  compressedSize : Nat
  crc : BitVec 32
  /-- `isDictionaryFormat(header.DataPageHeader[V2].V.Encoding)` -/
  dictEncoded : Bool := false
  deriving DecidableEq, Repr

/-- what a loader hands to the decoder: the page body it read from the file -/
structure Page where
  kind : PageKind
  body : Bytes
  deriving DecidableEq, Repr

/-- SPEC: the header a writer of this library stores for a page body (`rep ‖ def ‖ page`, after
    compression): `CompressedPageSize = len`, `CRC = int32(crc32(body))`; a zero CRC is then dropped
    by thrift (see `Header.crc`). -/
def writeHeader (kind : PageKind) (body : Bytes) (dictEncoded : Bool := false) : Header :=
  { kind, compressedSize := body.length, crc := crc32 body, dictEncoded }

/-- `io.ReadFull(reader, page[:n])` on what is left of the column chunk section -/
def readFull (n : Nat) (stream : Bytes) : Except Err Bytes :=
  if stream.length < n then .error .io else .ok (stream.take n)

/-- Which implementation is mirrored: does `readDictionary` load the dictionary body through
    `readPage` (`true`, the code since 5000be7) or with a bare `io.ReadFull` (`false`, the code before
    the repair of F4). `current` is tied to the source by `Props/FactsCheckC13.lean`. -/
structure Impl where
  dictLoaderVerifies : Bool
  deriving DecidableEq, Repr

/-- MIRROR of the tree under verification (5000be7 and later) -/
def current : Impl := { dictLoaderVerifies := true }
/-- MIRROR of the code as it was before the repair of F4 (regression facts only) -/
def beforeFix : Impl := { dictLoaderVerifies := false }

/-- MIRROR `FilePages.readPage` file.go:1448-1480 -/
def readPage (h : Header) (stream : Bytes) : Except Err Bytes :=
  match readFull h.compressedSize stream with
  | .error e => .error e
  | .ok page =>
    if h.crc != 0#32 then                    -- if header.CRC != 0 {
      if h.crc != crc32 page then            --   if headerChecksum != bufferChecksum {
        .error .corrupted                    --     return nil, fmt.Errorf("crc32 checksum mismatch …: %w", ErrCorrupted)
      else .ok page
    else .ok page

/-- MIRROR the body load of `FilePages.readDictionary`, unencrypted branch, file.go:1354-1367 -/
def readDictionaryBody (impl : Impl) (h : Header) (stream : Bytes) : Except Err Bytes :=
  if impl.dictLoaderVerifies then readPage h stream   -- page, err = f.readPage(header, rbuf)
  else readFull h.compressedSize stream     -- before 5000be7: io.ReadFull(rbuf, page.data.Slice()); no comparison

inductive Path where
  | sequential | afterSeek | lazyDictionary | readDictionaryAPI
  deriving DecidableEq, Repr

def Path.all : List Path := [.sequential, .afterSeek, .lazyDictionary, .readDictionaryAPI]

/-- the Go function of file.go through which this path asks for the page body … -/
def Path.entry : Path → String
  | .sequential | .afterSeek => "FilePages.readPageInSequence"
  | .lazyDictionary | .readDictionaryAPI => "FilePages.readDictionary"

/-- … and the function that fills the page buffer from the reader for it (names as extracted by
    factgen: `pageLoaderCalls` lists the (entry, loader) call pairs, `pageLoaders` the loaders) -/
def Path.loader : Path → String
  | _ => "FilePages.readPage"

/-- does the path compare checksums (when `header.CRC != 0`) -/
def verifies (impl : Impl) : Path → Bool
  | .sequential | .afterSeek => true
  | .lazyDictionary | .readDictionaryAPI => impl.dictLoaderVerifies

/-- `load path header stream`: the body handed to the decoder, or the error returned to the caller.
    `stream` starts at the first byte after the page header. -/
def load (impl : Impl) (p : Path) (h : Header) (stream : Bytes) : Except Err Page :=
  let r := match p with
    | .sequential | .afterSeek => readPage h stream
    | .lazyDictionary | .readDictionaryAPI => readDictionaryBody impl h stream
  match r with
  | .ok body => .ok { kind := h.kind, body }
  | .error e => .error e

/-! ## Column chunk level: what a reader meets on the way to a row -/

structure Stored where
  hdr : Header
  body : Bytes
  deriving DecidableEq, Repr

/-- an unencrypted column chunk as stored: optional dictionary page, then data pages -/
structure Chunk where
  dict : Option Stored
  pages : List Stored
  deriving DecidableEq, Repr

def loadStored (impl : Impl) (p : Path) (s : Stored) : Except Err Page := load impl p s.hdr s.body

/-- load the data pages in order through `readPage`, stop at the first error -/
def loadPages (impl : Impl) : List Stored → Except Err (List Page)
  | [] => .ok []
  | s :: rest =>
    match loadStored impl .sequential s with
    | .error e => .error e
    | .ok pg =>
      match loadPages impl rest with
      | .error e => .error e
      | .ok pgs => .ok (pg :: pgs)

/-- MIRROR `ReadPage` called until EOF on a fresh `FilePages` (file.go:1193-1321): the dictionary
    page is met first and goes through `readPage` like every other page. Result: dictionary body
    (if any) and the data page bodies. -/
def readAll (impl : Impl) (c : Chunk) : Except Err (Option Page × List Page) :=
  match c.dict with
  | none => (loadPages impl c.pages).map (fun ps => (none, ps))
  | some d =>
    match loadStored impl .sequential d with
    | .error e => .error e
    | .ok dp => (loadPages impl c.pages).map (fun ps => (some dp, ps))

/-- MIRROR `SeekToRow(first row of data page k)` on a fresh `FilePages` of a chunk that has an offset
    index, then one `ReadPage`: page `k` is loaded by `readPage` (file.go:1238), and when it is
    dictionary-encoded the dictionary is fetched by `readDictionary` because `f.dictionary == nil`
    (file.go:1401-1407). Result: the dictionary body used (if any) and the page body. -/
def readAt (impl : Impl) (c : Chunk) (k : Nat) : Except Err (Option Page × Page) :=
  match c.pages[k]? with
  | none => .error .io                                  -- ErrSeekOutOfRange / EOF: no page
  | some s =>
    match loadStored impl .afterSeek s with
    | .error e => .error e
    | .ok pg =>
      if s.hdr.dictEncoded then
        match c.dict with
        | none => .ok (none, pg)
        | some d =>
          match loadStored impl .lazyDictionary d with
          | .error e => .error e
          | .ok dp => .ok (some dp, pg)
      else .ok (none, pg)

/-! ## The corruption the property quantifies over (SPEC) -/

/-- `err` is a non-zero xor mask whose set bits all lie within 32 consecutive bit positions
    (bit `k` = byte `k / 8`, bit `k % 8` from the least significant; not byte aligned). -/
structure Burst (err : Bytes) : Prop where
  nonzero : ∃ k, k < 8 * err.length ∧ bitAt err k = true
  window : ∃ lo, ∀ k, k < 8 * err.length → bitAt err k = true → lo ≤ k ∧ k < lo + 32

theorem xorBytes_length : ∀ (a e : Bytes), e.length = a.length → (xorBytes a e).length = a.length
  | [], [], _ => rfl
  | a :: as, b :: bs, h => by
    simp only [xorBytes, List.length_cons]
    rw [xorBytes_length as bs (by simpa using h)]
  | [], _ :: _, h => by simp at h
  | _ :: _, [], h => by simp at h

theorem readFull_exact (body : Bytes) : readFull body.length body = .ok body := by
  simp [readFull]

/-- a verifying load of a correctly checksummed page rejects every burst corruption of its body -/
theorem readPage_detects (h : Header) (body err : Bytes) (hsize : h.compressedSize = body.length)
    (hlen : err.length = body.length) (h0 : h.crc ≠ 0#32) (hcrc : h.crc = crc32 body)
    (hb : Burst err) : readPage h (xorBytes body err) = .error .corrupted := by
  obtain ⟨lo, hw⟩ := hb.window
  have hne := crc32_burst body err hlen lo hb.nonzero hw
  unfold readPage
  rw [hsize, ← xorBytes_length body err hlen, readFull_exact]
  simp only [bne_iff_ne, ne_eq, h0, not_false_eq_true, if_true]
  rw [hcrc]
  simp [Ne.symm hne]

/-- on every path that verifies, of either implementation -/
theorem load_detects_of_verifies (impl : Impl) (p : Path) (hv : verifies impl p = true) (h : Header)
    (body err : Bytes) (hsize : h.compressedSize = body.length) (hlen : err.length = body.length)
    (h0 : h.crc ≠ 0#32) (hcrc : h.crc = crc32 body) (hb : Burst err) :
    load impl p h (xorBytes body err) = .error .corrupted := by
  have hd := readPage_detects h body err hsize hlen h0 hcrc hb
  unfold load
  cases p <;> simp_all [verifies, readDictionaryBody]

theorem verifies_current (p : Path) : verifies current p = true := by cases p <;> rfl

theorem readPage_intact (h : Header) (body : Bytes) (hsize : h.compressedSize = body.length)
    (hcrc : h.crc = crc32 body) : readPage h body = .ok body := by
  unfold readPage
  rw [hsize, readFull_exact]
  simp [hcrc]

/-- SPEC: a stored page exactly as a writer of this library left it -/
def Intact (s : Stored) : Prop := s.hdr.compressedSize = s.body.length ∧ s.hdr.crc = crc32 s.body

/-- SPEC: a stored page whose body (and only the body) suffered a burst of width ≤ 32 bits, and whose
    header carries a CRC field (`crc ≠ 0`) -/
def Corrupted (s : Stored) : Prop :=
  ∃ body err, s.hdr.compressedSize = body.length ∧ err.length = body.length ∧ s.hdr.crc ≠ 0#32 ∧
    s.hdr.crc = crc32 body ∧ Burst err ∧ s.body = xorBytes body err

theorem loadPages_intact (impl : Impl) : ∀ (ps : List Stored), (∀ s ∈ ps, Intact s) →
    loadPages impl ps = .ok (ps.map fun s => { kind := s.hdr.kind, body := s.body })
  | [], _ => rfl
  | s :: rest, h => by
    have hs := h s (by simp)
    have hr := loadPages_intact impl rest (fun x hx => h x (by simp [hx]))
    simp [loadPages, loadStored, load, readPage_intact s.hdr s.body hs.1 hs.2, hr]

theorem loadStored_corrupted (impl : Impl) (p : Path) (hv : verifies impl p = true) (s : Stored)
    (hc : Corrupted s) : loadStored impl p s = .error .corrupted := by
  obtain ⟨body, err, hsize, hlen, h0, hcrc, hb, hbody⟩ := hc
  have hd := readPage_detects s.hdr body err hsize hlen h0 hcrc hb
  unfold loadStored load
  rw [hbody]
  cases p <;> simp_all [verifies, readDictionaryBody]

theorem loadPages_corrupted (impl : Impl) (bad : Stored) (post : List Stored) (hc : Corrupted bad) :
    ∀ (pre : List Stored), (∀ s ∈ pre, Intact s) →
    loadPages impl (pre ++ bad :: post) = .error .corrupted
  | [], _ => by
    simp [loadPages, loadStored_corrupted impl .sequential rfl bad hc]
  | s :: pre, h => by
    have hs := h s (by simp)
    have hr := loadPages_corrupted impl bad post hc pre (fun x hx => h x (by simp [hx]))
    simp [loadPages, loadStored, load, readPage_intact s.hdr s.body hs.1 hs.2, hr]

end PqModel.PageLoad
