import PqModel.CopyPath

/-! # C11 — `uint` arithmetic of the bloom filter size

`bloom.NumSplitBlocksOf` (bloom/filter.go:35-39) computes on Go's 64-bit `uint`:

    numBytes  := ((uint(numValues) * bitsPerValue) + 7) / 8
    numBlocks := (numBytes + (BlockSize - 1)) / BlockSize

and `splitBlockFilter.Size` (bloom.go:205-207) returns `bloom.BlockSize * int(numBlocks)`.
`bloomSizeGo` is the MIRROR with the wraparound (`BitVec 64`); `CopyPath.bloomSize` is the same
formula over `Nat`, used by the cascade mirror. They agree below an explicit bound, and differ
above it. -/
namespace PqModel.CopyPath

/-- bloom/filter.go:35-39 + bloom.go:205-207 on `uint` (64 bit) -/
def bloomSizeGo (bitsPerValue numValues : Nat) : Nat :=
  let numBytes : BitVec 64 := (BitVec.ofNat 64 numValues * BitVec.ofNat 64 bitsPerValue + 7) / 8
  let numBlocks : BitVec 64 := (numBytes + 31) / 32
  32 * numBlocks.toNat

/-- no wraparound as long as `numValues * bitsPerValue + 7` fits 64 bits -/
theorem bloomSizeGo_eq (bpv nv : Nat) (h : nv * bpv + 7 < 2 ^ 64) : bloomSizeGo bpv nv = bloomSize bpv nv := by
  have h1 : (BitVec.ofNat 64 nv * BitVec.ofNat 64 bpv + 7 : BitVec 64).toNat = nv * bpv + 7 := by
    simp only [BitVec.toNat_add, BitVec.toNat_mul, BitVec.toNat_ofNat, BitVec.toNat_ofNat]
    have : (nv % 2 ^ 64 * (bpv % 2 ^ 64)) % 2 ^ 64 = nv * bpv := by
      rw [← Nat.mul_mod]; exact Nat.mod_eq_of_lt (by omega)
    have h7 : (7 : BitVec 64).toNat = 7 := rfl
    rw [this, h7]
    exact Nat.mod_eq_of_lt h
  have h2 : ((BitVec.ofNat 64 nv * BitVec.ofNat 64 bpv + 7 : BitVec 64) / 8).toNat = (nv * bpv + 7) / 8 := by
    rw [BitVec.toNat_udiv, h1]; rfl
  unfold bloomSizeGo bloomSize
  simp only []
  rw [BitVec.toNat_udiv, BitVec.toNat_add, h2]
  have : ((nv * bpv + 7) / 8 + (31 : BitVec 64).toNat) % 2 ^ 64 = (nv * bpv + 7) / 8 + 31 := by
    apply Nat.mod_eq_of_lt
    have : (31 : BitVec 64).toNat = 31 := rfl
    omega
  rw [this]
  rfl

end PqModel.CopyPath
