import PqModel.Aad

/-! # Modular encryption: the call sites of `makeAAD`, with the ORDER of their ordinal arguments

MIRROR of every call of `makeAAD` in `writer.go` and `file.go` (`sites`): who calls (the writer
sealing a module, the writer re-opening its own pages, the reader at `OpenFile` — the EAGER path —,
the reader on demand per column chunk — the LAZY path —, the page reader), where it takes AAD
prefix and file identifier from, which module type it passes and WHICH QUANTITY each ordinal
argument carries, in the order the arguments are passed. `Module.ords` (Aad.lean) says what a slot
of the file is sealed for; this table says what each call site really passes. The table is
re-extracted from the source on every run (factgen family `aadsites`) and compared with `sites` in
`Props/FactsCheckC18.lean`, so an argument that changes place breaks the build. -/
namespace PqModel.Aad

/-- which quantity an ordinal argument carries -/
inductive Role where
  | rg    -- the row group's position in the file
  | col   -- the column's position in the row group
  | page  -- the data page's position in the column chunk
  | zero  -- the constant 0 (dictionary modules; the format document passes no third ordinal)
deriving DecidableEq, Repr

/-- SPEC-side shape (Encryption.md 4.4.2, with the code's extra 0 for dictionary modules): the
    roles of the ordinals of a module type, in AAD order: row group, then column, then page -/
def ModType.roles : ModType → List Role
  | .footer => []
  | .columnMeta | .bloomHeader | .bloomBits | .columnIndex | .offsetIndex => [.rg, .col]
  | .dataPage | .dataPageHeader => [.rg, .col, .page]
  | .dictPage | .dictPageHeader => [.rg, .col, .zero]

/-- the position a call site is working on -/
structure Coord where
  rg : Nat
  col : Nat
  page : Nat
deriving DecidableEq, Repr

def Role.val (c : Coord) : Role → Nat
  | .rg => c.rg | .col => c.col | .page => c.page | .zero => 0

/-- the module of type `t` at position `c` -/
def ModType.slotAt (t : ModType) (c : Coord) : Module :=
  match t with
  | .footer => .footer
  | .columnMeta => .columnMeta c.rg c.col
  | .dataPage => .dataPage c.rg c.col c.page
  | .dataPageHeader => .dataPageHeader c.rg c.col c.page
  | .dictPage => .dictPage c.rg c.col
  | .dictPageHeader => .dictPageHeader c.rg c.col
  | .bloomHeader => .bloomHeader c.rg c.col
  | .bloomBits => .bloomBits c.rg c.col
  | .columnIndex => .columnIndex c.rg c.col
  | .offsetIndex => .offsetIndex c.rg c.col

theorem slotAt_type (t : ModType) (c : Coord) : (t.slotAt c).type = t := by cases t <;> rfl

/-- `Module.ords` is `ModType.roles` evaluated at the module's position -/
theorem slotAt_ords (t : ModType) (c : Coord) : (t.slotAt c).ords = t.roles.map (Role.val c) := by
  cases t <;> rfl

/-- every module of the inventory is some type at some position -/
theorem slotAt_surj (m : Module) : ∃ c, m.type.slotAt c = m := by
  cases m with
  | footer => exact ⟨⟨0, 0, 0⟩, rfl⟩
  | columnMeta rg col => exact ⟨⟨rg, col, 0⟩, rfl⟩
  | dataPageHeader rg col p => exact ⟨⟨rg, col, p⟩, rfl⟩
  | dataPage rg col p => exact ⟨⟨rg, col, p⟩, rfl⟩
  | dictPageHeader rg col => exact ⟨⟨rg, col, 0⟩, rfl⟩
  | dictPage rg col => exact ⟨⟨rg, col, 0⟩, rfl⟩
  | bloomHeader rg col => exact ⟨⟨rg, col, 0⟩, rfl⟩
  | bloomBits rg col => exact ⟨⟨rg, col, 0⟩, rfl⟩
  | columnIndex rg col => exact ⟨⟨rg, col, 0⟩, rfl⟩
  | offsetIndex rg col => exact ⟨⟨rg, col, 0⟩, rfl⟩

/-- who calls `makeAAD` -/
inductive Party where
  | writerSeal      -- the result goes to `encryptModule` / `signFooter`
  | writerReopen    -- `flushFilterPages`: the writer opens its own sealed pages
  | readerEager     -- `OpenFile`: footer, column metadata, `ReadPageIndex` (unless `SkipPageIndex`)
  | readerLazy      -- per chunk, on demand: `readColumnIndexFrom`, `readOffsetIndex`, `readBloomFilter`
  | readerPages     -- `FilePages`: `readEncryptedPage`, lazy `readDictionary`
deriving DecidableEq, Repr

/-- which object the prefix and the file identifier are read from -/
inductive Holder where
  | writerState     -- `w.encryption` / `enc`: the writer's current encryption state
  | columnWriter    -- the copies a `ColumnWriter` holds (`c.aadPrefix`, `c.fileUnique`)
  | cryptoMeta      -- `algo.AadPrefix`, `algo.AadFileUnique` decoded from the file being opened
  | file            -- `f.…` / `c.file.…`: copied from `cryptoMeta` by `OpenFile`
  | pages           -- `d.…`: copied from `file` by `FilePages.init`
deriving DecidableEq, Repr

structure Site where
  fn : String          -- "<file>:<function>"
  party : Party
  holder : Holder
  t : ModType
  roles : List Role    -- the ordinal arguments AS PASSED, in order
deriving DecidableEq, Repr

/-- MIRROR: every call of `makeAAD`, in source order (writer.go:1372, 1398, 1452, 1493, 1775, 2278,
    2288, 2483, 2488, 2597, 2606, 2689, 2694; file.go:158, 203, 474, 515, 581, 981, 1019, 1056,
    1065, 1378, 1390, 1565, 1580 — the last two calls take module type and page ordinal from
    locals set in a dictionary branch and a data branch, hence two entries each). -/
def sites : List Site := [
  ⟨"writer.go:writer.writeFileFooter", .writerSeal, .writerState, .columnIndex, [.rg, .col]⟩,
  ⟨"writer.go:writer.writeFileFooter", .writerSeal, .writerState, .offsetIndex, [.rg, .col]⟩,
  ⟨"writer.go:writer.writeFileFooter", .writerSeal, .writerState, .footer, []⟩,
  ⟨"writer.go:writer.writeFileFooter", .writerSeal, .writerState, .footer, []⟩,
  ⟨"writer.go:writer.writeRowGroup", .writerSeal, .writerState, .columnMeta, [.rg, .col]⟩,
  ⟨"writer.go:ColumnWriter.flushFilterPages", .writerReopen, .columnWriter, .dataPageHeader, [.rg, .col, .page]⟩,
  ⟨"writer.go:ColumnWriter.flushFilterPages", .writerReopen, .columnWriter, .dataPage, [.rg, .col, .page]⟩,
  ⟨"writer.go:ColumnWriter.writeBloomFilter", .writerSeal, .columnWriter, .bloomHeader, [.rg, .col]⟩,
  ⟨"writer.go:ColumnWriter.writeBloomFilter", .writerSeal, .columnWriter, .bloomBits, [.rg, .col]⟩,
  ⟨"writer.go:ColumnWriter.writeDataPage", .writerSeal, .columnWriter, .dataPageHeader, [.rg, .col, .page]⟩,
  ⟨"writer.go:ColumnWriter.writeDataPage", .writerSeal, .columnWriter, .dataPage, [.rg, .col, .page]⟩,
  ⟨"writer.go:ColumnWriter.writeDictionaryPage", .writerSeal, .columnWriter, .dictPageHeader, [.rg, .col, .zero]⟩,
  ⟨"writer.go:ColumnWriter.writeDictionaryPage", .writerSeal, .columnWriter, .dictPage, [.rg, .col, .zero]⟩,
  ⟨"file.go:OpenFile", .readerEager, .cryptoMeta, .footer, []⟩,
  ⟨"file.go:OpenFile", .readerEager, .cryptoMeta, .footer, []⟩,
  ⟨"file.go:File.ReadPageIndex", .readerEager, .file, .columnIndex, [.rg, .col]⟩,
  ⟨"file.go:File.ReadPageIndex", .readerEager, .file, .offsetIndex, [.rg, .col]⟩,
  ⟨"file.go:File.decryptAllColumnMetadata", .readerEager, .file, .columnMeta, [.rg, .col]⟩,
  ⟨"file.go:FileColumnChunk.readColumnIndexFrom", .readerLazy, .file, .columnIndex, [.rg, .col]⟩,
  ⟨"file.go:FileColumnChunk.readOffsetIndex", .readerLazy, .file, .offsetIndex, [.rg, .col]⟩,
  ⟨"file.go:FileColumnChunk.readBloomFilter", .readerLazy, .file, .bloomHeader, [.rg, .col]⟩,
  ⟨"file.go:FileColumnChunk.readBloomFilter", .readerLazy, .file, .bloomBits, [.rg, .col]⟩,
  ⟨"file.go:FilePages.readDictionary", .readerPages, .pages, .dictPageHeader, [.rg, .col, .zero]⟩,
  ⟨"file.go:FilePages.readDictionary", .readerPages, .pages, .dictPage, [.rg, .col, .zero]⟩,
  ⟨"file.go:FilePages.readEncryptedPage", .readerPages, .pages, .dictPageHeader, [.rg, .col, .zero]⟩,
  ⟨"file.go:FilePages.readEncryptedPage", .readerPages, .pages, .dataPageHeader, [.rg, .col, .page]⟩,
  ⟨"file.go:FilePages.readEncryptedPage", .readerPages, .pages, .dictPage, [.rg, .col, .zero]⟩,
  ⟨"file.go:FilePages.readEncryptedPage", .readerPages, .pages, .dataPage, [.rg, .col, .page]⟩
]

/-- the arguments the call site hands to `makeAAD` when it works on position `c` -/
def Site.used (s : Site) (c : Coord) : Used := ⟨s.t, s.roles.map (Role.val c)⟩

/-- the slot of the file the call site is working on -/
def Site.slot (s : Site) (c : Coord) : Module := s.t.slotAt c

def Party.isReader : Party → Bool
  | .readerEager | .readerLazy | .readerPages => true
  | _ => false

/-- every site passes its ordinals in the order of the module type (checked on the table) -/
theorem sites_roles_ok : sites.all (fun s => s.roles == s.t.roles) = true := by decide

theorem site_used_eq_slot_used {s : Site} (hs : s ∈ sites) (c : Coord) : s.used c = (s.slot c).used := by
  have h := List.all_eq_true.1 sites_roles_ok s hs
  have hr : s.roles = s.t.roles := by simpa using h
  simp only [Site.used, Site.slot, Module.used, slotAt_type, slotAt_ords, hr]

end PqModel.Aad
