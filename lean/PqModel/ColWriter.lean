/-! # C11 — `ColumnWriter`: the column-oriented write API and the row path on top of it

`ColumnWriter.WriteRowValues` (writer.go:2419-2437) appends a batch of values to the column's
buffer and flushes the buffer as ONE data page when `columnBuffer.Size() >= bufferSize`;
`Flush` (writer.go:2154-2192) writes the buffered values as a page when `columnBuffer.Len() > 0`;
`Close` (writer.go:2441-2450) flushes and resets the buffer; `writeDataPage`/`recordPageStats`
(writer.go:2516-2520, 2891-2896) do the accounting (`numRows`, `FirstRowIndex`, `NumValues`);
`writeRowGroup` takes the row count of the row group from `columns[0].totalRowCount()`
(writer.go:1528, 2145-2151) and flushes every column (writer.go:1569-1572).
The row path `ConcurrentRowGroupWriter.WriteRows`/`writeRows` (writer.go:1015-1079) cuts the rows
into chunks of at most 64, concatenates per column the values of a chunk and hands every non-empty
concatenation to the same `WriteRowValues`.

Everything in this file is MIRROR. What the writer looks at in a value is abstracted to `Val`:
whether its repetition level is 0, whether it is null (definition level below the maximum) and the
number of bytes it adds to the `Size()` of the base column buffer. The column buffer is its list of
values in the order written; `bufLen`/`bufSize` are `Len()`/`Size()` of the three buffer kinds
`newColumnBuffer` (writer.go:2396-2409) chooses from. -/
namespace PqModel.ColWriter

structure Val where
  /-- `repetitionLevel == 0` -/
  start : Bool
  /-- `definitionLevel != maxDefinitionLevel` -/
  null : Bool
  /-- bytes added to `base.Size()` when the value is stored (4: int32/float/dictionary index,
      8: int64/double, 12: int96, n: fixed length, 4+n: byte array) -/
  size : Nat
  deriving DecidableEq, Repr

/-- writer.go:2398-2408: repeated (`maxRepetitionLevel > 0`), optional (`maxDefinitionLevel > 0`),
    else the plain typed buffer -/
inductive Kind where
  | flat | optional | repeated
  deriving DecidableEq, Repr

/-- MIRROR `ColumnBuffer.Len()`: typed and optional buffers count values
    (column_buffer_optional.go `rows.Len()`), the repeated buffer counts the rows it has an
    `offsetMapping` for, one per written row whose first value has repetition level 0
    (column_buffer_repeated.go:185, 280-285). Also `Page.NumRows()` of the page made of these values
    (page_optional.go:29, page_repeated.go:33). -/
def bufLen : Kind → List Val → Nat
  | .repeated, vs => vs.countP (·.start)
  | _, vs => vs.length

/-- bytes of the non-null values in the base buffer -/
def baseSize (vs : List Val) : Nat := (vs.map fun v => if v.null then 0 else v.size).sum

/-- MIRROR `ColumnBuffer.Size()`: page_int32.go:37 and friends (typed: every value is stored);
    column_buffer_optional.go:136-138 `4*rows + 4*sortIndex + definitionLevels + base.Size()`
    (`sortIndex` is empty unless the buffer was sorted, which a writer never does);
    column_buffer_repeated.go:179-181 `8*len(rows) + repetitionLevels + definitionLevels + base.Size()`. -/
def bufSize : Kind → List Val → Nat
  | .flat, vs => (vs.map (·.size)).sum
  | .optional, vs => 4 * vs.length + vs.length + baseSize vs
  | .repeated, vs => 8 * vs.countP (·.start) + (vs.length + vs.length) + baseSize vs

/-- the state of one `ColumnWriter` within a row group -/
structure CW where
  /-- `columnBuffer` (`none` = nil, created lazily by the first `WriteRowValues`) -/
  buf : Option (List Val)
  /-- `c.numRows`: rows in the pages written -/
  numRows : Nat
  /-- the data pages written to `pageBuffer`, oldest first, as the values they hold -/
  pages : List (List Val)
  /-- `offsetIndex.PageLocations[i].FirstRowIndex` -/
  firstRow : List Nat
  /-- `columnChunk.MetaData.NumValues` -/
  numValues : Nat
  deriving DecidableEq, Repr

/-- a column writer after `reset()` / construction -/
def fresh : CW := ⟨none, 0, [], [], 0⟩

/-- the values in the buffer (`[]` when there is no buffer) -/
def CW.vals (c : CW) : List Val := c.buf.getD []

/-- MIRROR writer.go:2516-2520 + 2891-2896 (`writeDataPage` → `recordPageStats`): a page without
    values is not written; else the page is appended, its `FirstRowIndex` is `c.numRows`, then
    `c.numRows += page.NumRows()`, `NumValues += page.NumValues()`. -/
def writeDataPage (k : Kind) (c : CW) (page : List Val) : CW :=
  if page.length = 0 then c else
  { c with pages := c.pages ++ [page], firstRow := c.firstRow ++ [c.numRows],
           numRows := c.numRows + bufLen k page, numValues := c.numValues + page.length }

/-- MIRROR writer.go:2154-2192 `Flush` (no dictionary size limit: the fallback to PLAIN is not
    modelled): nothing without a buffer; when `Len() > 0` the buffer is written as one page and
    reset (the deferred `columnBuffer.Reset()`). -/
def flush (k : Kind) (c : CW) : CW :=
  match c.buf with
  | none => c
  | some b => if bufLen k b > 0 then { writeDataPage k c b with buf := some [] } else c

/-- MIRROR writer.go:2419-2437 `WriteRowValues`; second component: the number of rows returned. -/
def writeRowValues (k : Kind) (bufferSize : Nat) (c : CW) (rows : List Val) : CW × Nat :=
  let startingRows := match c.buf with | none => 0 | some b => bufLen k b
  let b' := c.vals ++ rows
  let c' := { c with buf := some b' }
  let numRows := bufLen k b' - startingRows
  if bufSize k b' ≥ bufferSize then (flush k c', numRows) else (c', numRows)

/-- MIRROR writer.go:2441-2450 `Close`: nothing without a buffer, else `Flush` then
    `columnBuffer.Reset()` — whatever `Flush` left in the buffer is discarded. -/
def close (k : Kind) (c : CW) : CW :=
  match c.buf with
  | none => c
  | some _ => { flush k c with buf := some [] }

/-- MIRROR writer.go:2145-2151 `totalRowCount` -/
def totalRowCount (k : Kind) (c : CW) : Nat := c.numRows + bufLen k c.vals

/-- what a program does with a `ColumnWriter` -/
inductive Op where
  | write (vs : List Val) | flush | close
  deriving DecidableEq, Repr

def step (k : Kind) (bufferSize : Nat) (c : CW) : Op → CW
  | .write vs => (writeRowValues k bufferSize c vs).1
  | .flush => flush k c
  | .close => close k c

def run (k : Kind) (bufferSize : Nat) (c : CW) (ops : List Op) : CW := ops.foldl (step k bufferSize) c

/-- the batches a history hands to `WriteRowValues`, in order -/
def writesOf : List Op → List (List Val)
  | [] => []
  | .write vs :: ops => vs :: writesOf ops
  | _ :: ops => writesOf ops

/-- MIRROR writer.go:1015-1079, one column of `ConcurrentRowGroupWriter.WriteRows` (the columns do
    not interact: `for i, values := range rg.values { if len(values) > 0 {
    rg.columns[i].WriteRowValues(values) } }`), `MaxRowsPerRowGroup` not reached: chunks of at most
    `maxRowsPerWrite = 64` rows, the column's values of a chunk concatenated, an empty
    concatenation is not written. `rows`: per row the values of this column. The result is the
    history of `WriteRowValues` calls this column sees. One unit of fuel per chunk. -/
def rowPathOps : Nat → List (List Val) → List Op
  | 0, _ => []
  | fuel + 1, rows =>
    if rows.isEmpty then [] else
    let vs := (rows.take 64).flatten
    (if vs.isEmpty then [] else [Op.write vs]) ++ rowPathOps fuel (rows.drop 64)

/-- the row path for one column: `WriteRows(rows)` -/
def rowPath (k : Kind) (bufferSize : Nat) (c : CW) (rows : List (List Val)) : CW :=
  run k bufferSize c (rowPathOps (rows.length + 1) rows)

/-- what a reader of the finished row group gets for this column: the values of its pages in order
    (writer.go:1569-1572: `writeRowGroup` flushes the column first) -/
def written (k : Kind) (c : CW) : List Val := (flush k c).pages.flatten

/-- a batch that may be handed to a repeated column: it starts at the beginning of a row. No
    constraint for the other kinds (every value is a row). -/
def headOK : Kind → List Val → Bool
  | .repeated, v :: _ => v.start
  | _, _ => true

/-- `0, s0, s0+s1, …` -/
def prefixSums : Nat → List Nat → List Nat
  | _, [] => []
  | acc, x :: xs => acc :: prefixSums (acc + x) xs

end PqModel.ColWriter
