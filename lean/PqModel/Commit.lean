/-! # Concurrently filled row groups committed in order (writer.go:336-374, 737-880, 989-994, 1490-1700)

`BeginRowGroup` gives every row group its own `ConcurrentRowGroupWriter` (own column writers, page
buffers, dictionaries, indexes: writer.go:737-880); `WriteRows`/`ColumnWriter.WriteRowValues` touch
only that state (writer.go:997-1061). `Commit` (writer.go:989-994) runs `writer.writeRowGroup`
(writer.go:1490-1700), which reads the row group's state, appends its bytes at the file's current
offset (`fileOffset := w.writer.offset`, page offsets shifted by `dataPageOffset`,
writer.go:1538,1606-1612), appends the metadata to `w.rowGroups`, and resets the row group.

MIRROR at the granularity of whole calls: the state is one local state per row group (`R`) plus the
file state (`F`); a `fill i x` step is any call on row group `i` (abstract `fillStep`), `commit i`
is `commitStep`. The calls on one row group are sequential (the documentation requires it), calls
on different row groups interleave arbitrarily, `Commit` calls are serial. Both step functions are
parameters: the theorem holds for every writer whose fills touch only their own row group.
The concrete `Layout` instance below (bytes + offsets) is used for the non-vacuity examples. -/
namespace PqModel.Commit

inductive Ev (X : Type) where
  | fill (i : Nat) (x : X)   -- a write call on row group i
  | commit (i : Nat)         -- rg_i.Commit()
deriving DecidableEq, Repr

structure St (R F : Type) where
  rg : Nat → R
  file : F

variable {R F X : Type}

/-- functional update of one row group's state -/
def setRg (rg : Nat → R) (i : Nat) (r : R) : Nat → R := fun j => if j = i then r else rg j

def step (fillStep : R → X → R) (commitStep : F → R → F) (r0 : R) (s : St R F) : Ev X → St R F
  | .fill i x => { s with rg := setRg s.rg i (fillStep (s.rg i) x) }
  | .commit i => { rg := setRg s.rg i r0, file := commitStep s.file (s.rg i) }  -- writer.go:1508 rg.reset()

def run (fillStep : R → X → R) (commitStep : F → R → F) (r0 : R) (s : St R F) (es : List (Ev X)) : St R F :=
  es.foldl (step fillStep commitStep r0) s

/-- the write calls on row group `i`, in schedule order -/
def fills (i : Nat) : List (Ev X) → List X
  | [] => []
  | .fill j x :: es => if j = i then x :: fills i es else fills i es
  | .commit _ :: es => fills i es

/-- a schedule that uses the API as documented: the commits are `m, m+1, …, n-1` in this order, and
    no row group is written after its commit -/
inductive WF : Nat → Nat → List (Ev X) → Prop where
  | nil {n} : WF n n []
  | fill {m n i x es} : WF m n es → WF m n (.fill i x :: es)
  | commit {m n es} : m < n → WF (m + 1) n es → fills m es = [] → WF m n (.commit m :: es)

/-- the file after filling and committing the row groups `m … m+len-1` one after the other -/
def serialFile (fillStep : R → X → R) (commitStep : F → R → F) (rg : Nat → R) (es : List (Ev X)) (f : F) :
    Nat → Nat → F
  | _, 0 => f
  | m, len + 1 =>
    serialFile fillStep commitStep rg es (commitStep f ((fills m es).foldl fillStep (rg m))) (m + 1) len

theorem serialFile_congr (fillStep : R → X → R) (commitStep : F → R → F) (rg rg' : Nat → R)
    (es es' : List (Ev X)) (f : F) (m len : Nat)
    (h : ∀ i, m ≤ i → i < m + len →
      (fills i es).foldl fillStep (rg i) = (fills i es').foldl fillStep (rg' i)) :
    serialFile fillStep commitStep rg es f m len = serialFile fillStep commitStep rg' es' f m len := by
  induction len generalizing m f with
  | zero => rfl
  | succ len ih =>
    simp only [serialFile]
    rw [h m (Nat.le_refl _) (by omega)]
    exact ih _ _ (fun i h1 h2 => h i (by omega) (by omega))

/-- key lemma: running a well-formed schedule from any state gives the serial file -/
theorem run_file (fillStep : R → X → R) (commitStep : F → R → F) (r0 : R)
    {m n : Nat} {es : List (Ev X)} (hw : WF m n es) (s : St R F) :
    (run fillStep commitStep r0 s es).file = serialFile fillStep commitStep s.rg es s.file m (n - m) := by
  induction hw generalizing s with
  | nil => simp [run, serialFile]
  | @fill m n i x es hw ih =>
    simp only [run, List.foldl_cons] at ih ⊢
    rw [ih]
    simp only [step]
    apply serialFile_congr
    intro j _ _
    simp only [fills, setRg]
    by_cases hj : j = i
    · subst hj; simp
    · have : ¬ i = j := fun h => hj h.symm
      simp [hj, this]
  | @commit m n es hlt hw hnf ih =>
    simp only [run, List.foldl_cons] at ih ⊢
    rw [ih]
    have e : n - m = (n - (m + 1)) + 1 := by omega
    rw [e]
    simp only [serialFile, step, fills, hnf, List.foldl_nil]
    apply serialFile_congr
    intro j h1 _
    have : ¬ j = m := by omega
    simp [setRg, this, fills]

/-- the serial schedule: for each row group in order, all its writes, then its commit -/
def serialSched (es : List (Ev X)) : Nat → Nat → List (Ev X)
  | _, 0 => []
  | m, len + 1 => (fills m es).map (Ev.fill m) ++ [Ev.commit m] ++ serialSched es (m + 1) len

theorem run_append (fillStep : R → X → R) (commitStep : F → R → F) (r0 : R) (s : St R F)
    (a b : List (Ev X)) :
    run fillStep commitStep r0 s (a ++ b) = run fillStep commitStep r0 (run fillStep commitStep r0 s a) b := by
  simp [run, List.foldl_append]

theorem run_fills (fillStep : R → X → R) (commitStep : F → R → F) (r0 : R) (s : St R F) (m : Nat)
    (xs : List X) :
    run fillStep commitStep r0 s (xs.map (Ev.fill m)) =
      { s with rg := setRg s.rg m (xs.foldl fillStep (s.rg m)) } := by
  induction xs generalizing s with
  | nil =>
    simp only [run, List.map_nil, List.foldl_nil]
    have : setRg s.rg m (s.rg m) = s.rg := by
      funext j; simp only [setRg]; split <;> simp_all
    rw [this]
  | cons x xs ih =>
    simp only [List.map_cons, run, List.foldl_cons] at ih ⊢
    rw [ih]
    simp only [step]
    congr 1
    funext j
    simp only [setRg]
    split <;> simp

/-- running the serial schedule gives the serial file (so `serialFile` is what a single goroutine
    filling and committing the row groups one after the other produces) -/
theorem run_serialSched (fillStep : R → X → R) (commitStep : F → R → F) (r0 : R) (es : List (Ev X))
    (s : St R F) (m len : Nat) :
    (run fillStep commitStep r0 s (serialSched es m len)).file =
      serialFile fillStep commitStep s.rg es s.file m len := by
  induction len generalizing s m with
  | zero => simp [serialSched, run, serialFile]
  | succ len ih =>
    simp only [serialSched, List.append_assoc, run_append, run_fills]
    rw [ih]
    simp only [run, List.foldl_cons, List.foldl_nil, step, serialFile]
    have e : setRg s.rg m (List.foldl fillStep (s.rg m) (fills m es)) m =
        List.foldl fillStep (s.rg m) (fills m es) := by simp [setRg]
    rw [e]
    apply serialFile_congr
    intro j h1 _
    have : ¬ j = m := by omega
    simp [setRg, this]

/-! ### a concrete instance: byte layout with page offsets (writer.go:1538,1606-1612) -/

/-- row-group local state: the page buffer and the page offsets relative to it -/
structure RgBuf where
  bytes : List Nat
  pageOffs : List Nat
deriving DecidableEq, Repr

/-- file state: bytes written so far, and per committed row group (file offset, absolute page offsets) -/
structure FileSt where
  bytes : List Nat
  groups : List (Nat × List Nat)
deriving DecidableEq, Repr

/-- one flushed page appended to the row group's page buffer -/
def fillPage (r : RgBuf) (page : List Nat) : RgBuf :=
  { bytes := r.bytes ++ page, pageOffs := r.pageOffs ++ [r.bytes.length] }

/-- writer.go:1538 `fileOffset := w.writer.offset`; :1606-1612 offsets shifted, bytes copied -/
def commitBuf (f : FileSt) (r : RgBuf) : FileSt :=
  { bytes := f.bytes ++ r.bytes,
    groups := f.groups ++ [(f.bytes.length, r.pageOffs.map (· + f.bytes.length))] }

end PqModel.Commit
