import PqModel.Search
import PqModel.Stats

/-! # C06 stated on the VALUES of the pages (not on recorded bounds)

`Search.lean` proves that `Find` returns the first page whose RECORDED bounds contain the probe. The property
speaks about the values a page holds. This file closes the gap for the integer column orders: the index is
built from the pages' values by the writer's steps

  values of a page --(null filter)--> non-null values --(Page.Bounds: `boundsXxx`)--> (min, max)
                   --(ColumnIndexer.IndexPage / ColumnIndex)--> bounds lists + boundary order --> `Find`

and `Type.Compare` of the column is no longer an abstract rank: it is the signed / unsigned comparison of
the 32/64-bit patterns (`Stats.sint`, `Stats.uint`, the orders C05 ties to `Type.Compare` by its op `c05.cmp`).

MIRROR: `pageBound`, `indexOfPages` (writer.go `writePage`: `page.Bounds()` on the non-null values, a page of
nulls only is a null page; column_index.go `IndexPage`), `boundsDispatch` (page_bounds_amd64.go:63-121: every
`boundsXxx` picks a kernel by the length of the page). The kernels themselves are assembly: they enter as
any function satisfying the SPEC `BoundsFor` (the portable loop `Stats.bounds` is proved to satisfy it).
SPEC: `BoundsFor`, `intKey`. -/
namespace PqModel.Search
open PqModel.Stats

/-- MIRROR. The two column-index entries of one page: null bounds for a page without a non-null value, else the
    keys (ranks in the column order) of the pair the bounds function returns on the non-null values. -/
def pageBound {α} (bnd : List α → Option (α × α)) (key : α → Int) (page : List (Option α)) : Bound × Bound :=
  match bnd (page.filterMap id) with
  | none => (none, none)
  | some (mn, mx) => (some (key mn), some (key mx))

/-- MIRROR. The column index of a chunk whose pages hold these values (`none` = null value). -/
def indexOfPages {α} (bnd : List α → Option (α × α)) (key : α → Int) (pages : List (List (Option α))) : Index :=
  { mins := pages.map (fun p => (pageBound bnd key p).1), maxs := pages.map (fun p => (pageBound bnd key p).2) }

/-- SPEC. What `Page.Bounds` owes to `Find`: no bounds for no values, and otherwise a pair that encloses every
    value IN THE ORDER OF THE COLUMN (`key` = the rank `Type.Compare` sorts by). -/
structure BoundsFor {α} (bnd : List α → Option (α × α)) (key : α → Int) : Prop where
  nil : bnd [] = none
  some_of_ne : ∀ xs, xs ≠ [] → ∃ mn mx, bnd xs = some (mn, mx)
  encloses : ∀ xs mn mx, bnd xs = some (mn, mx) → ∀ x ∈ xs, key mn ≤ key x ∧ key x ≤ key mx

/-- MIRROR page_bounds_amd64.go `boundsInt64`/`boundsUint64`/… : pages of at least `t` values go to one kernel,
    shorter pages to another (`t` = 32113 values for the 64-bit kinds, 1 MiB worth of values for all kinds). -/
def boundsDispatch {α} (t : Nat) (big small : List α → Option (α × α)) (xs : List α) : Option (α × α) :=
  if xs.length ≥ t then big xs else small xs

/-- a dispatch between sound kernels is sound, whatever the threshold -/
theorem BoundsFor.dispatch {α} {big small : List α → Option (α × α)} {key : α → Int} (t : Nat)
    (hb : BoundsFor big key) (hs : BoundsFor small key) : BoundsFor (boundsDispatch t big small) key where
  nil := by
    unfold boundsDispatch
    split
    · exact hb.nil
    · exact hs.nil
  some_of_ne := by
    intro xs hne
    unfold boundsDispatch
    split
    · exact hb.some_of_ne xs hne
    · exact hs.some_of_ne xs hne
  encloses := by
    intro xs mn mx h
    unfold boundsDispatch at h
    split at h
    · exact hb.encloses xs mn mx h
    · exact hs.encloses xs mn mx h

/-! ## the portable loop is sound for every order given by a key -/

theorem boundsLoop_key {α} (key : α → Int) : ∀ (xs : List α) (mn mx : α),
    let r := boundsLoop (ofKey key (fun _ => false)).lt mn mx xs
    key r.1 ≤ key mn ∧ key mx ≤ key r.2 ∧ ∀ x ∈ xs, key r.1 ≤ key x ∧ key x ≤ key r.2
  | [], mn, mx => by simp [boundsLoop]
  | v :: rest, mn, mx => by
    simp only [boundsLoop]
    have ih := boundsLoop_key key rest
      (if (ofKey key (fun _ => false)).lt v mn then v else mn)
      (if (ofKey key (fun _ => false)).lt mx v then v else mx)
    simp only at ih
    obtain ⟨h1, h2, h3⟩ := ih
    have hmn : key (if (ofKey key (fun _ => false)).lt v mn then v else mn) ≤ key mn ∧
        key (if (ofKey key (fun _ => false)).lt v mn then v else mn) ≤ key v := by
      simp only [ofKey, Bool.not_false, Bool.true_and]
      split
      · rename_i h; simp only [decide_eq_true_eq] at h; omega
      · rename_i h; simp only [decide_eq_true_eq] at h; omega
    have hmx : key mx ≤ key (if (ofKey key (fun _ => false)).lt mx v then v else mx) ∧
        key v ≤ key (if (ofKey key (fun _ => false)).lt mx v then v else mx) := by
      simp only [ofKey, Bool.not_false, Bool.true_and]
      split
      · rename_i h; simp only [decide_eq_true_eq] at h; omega
      · rename_i h; simp only [decide_eq_true_eq] at h; omega
    refine ⟨by omega, by omega, ?_⟩
    intro x hx
    simp only [List.mem_cons] at hx
    rcases hx with rfl | hx
    · omega
    · exact h3 x hx

/-- `Stats.bounds` (MIRROR of page_bounds_purego.go) over the order of a key encloses the values in that key -/
theorem bounds_ofKey_sound {α} (key : α → Int) : BoundsFor (bounds (ofKey key (fun _ => false)).lt) key where
  nil := rfl
  some_of_ne := by
    intro xs hne
    cases xs with
    | nil => exact absurd rfl hne
    | cons x rest => exact ⟨_, _, rfl⟩
  encloses := by
    intro xs mn mx h x hx
    cases xs with
    | nil => simp at hx
    | cons x0 rest =>
      simp only [bounds, Option.some.injEq] at h
      have hl := boundsLoop_key key rest x0 x0
      simp only [h] at hl
      obtain ⟨h1, h2, h3⟩ := hl
      simp only [List.mem_cons] at hx
      rcases hx with rfl | hx
      · omega
      · exact h3 x hx

/-- SPEC. The rank `Type.Compare` sorts an integer column by: the two's complement value for INT32/INT64 (and
    the DECIMAL / DATE / TIME / TIMESTAMP types on them), the unsigned value for the UINT logical types. -/
def intKey (signed : Bool) (w : Nat) : BitVec w → Int :=
  if signed then fun b => b.toInt else fun b => (b.toNat : Int)

/-- the column order C05 mirrors `Type.Compare` with (`Stats.sint`, `Stats.uint`) -/
def intOrder (signed : Bool) (w : Nat) : ColOrder (BitVec w) := if signed then sint w else uint w

theorem intOrder_eq (signed : Bool) (w : Nat) : intOrder signed w = ofKey (intKey signed w) (fun _ => false) := by
  cases signed <;> rfl

/-- the portable bounds loop of an integer column, in the column's own order -/
def intBounds (signed : Bool) (w : Nat) : List (BitVec w) → Option (BitVec w × BitVec w) :=
  bounds (intOrder signed w).lt

theorem intBounds_sound (signed : Bool) (w : Nat) : BoundsFor (intBounds signed w) (intKey signed w) := by
  unfold intBounds
  rw [intOrder_eq]
  exact bounds_ofKey_sound _

/-! ## reading the index of pages -/

theorem getD_map_nil {α β} (f : List α → β) (d : β) : ∀ (l : List (List α)) (i : Nat), i < l.length →
    (l.map f).getD i d = f (l.getD i [])
  | [], _, h => by simp at h
  | a :: t, 0, _ => by simp
  | a :: t, i + 1, h => by
    simp only [List.map_cons, List.getD_cons_succ]
    exact getD_map_nil f d t i (by simpa using h)

theorem indexOfPages_n {α} (bnd : List α → Option (α × α)) (key : α → Int) (pages : List (List (Option α))) :
    (indexOfPages bnd key pages).n = pages.length := by simp [indexOfPages, Index.n]

theorem minAt_indexOfPages {α} (bnd : List α → Option (α × α)) (key : α → Int) (pages : List (List (Option α)))
    (i : Nat) (hi : i < pages.length) :
    minAt (indexOfPages bnd key pages) i = (pageBound bnd key (pages.getD i [])).1 := by
  simp only [minAt, indexOfPages]
  exact getD_map_nil (fun p => (pageBound bnd key p).1) none pages i hi

theorem maxAt_indexOfPages {α} (bnd : List α → Option (α × α)) (key : α → Int) (pages : List (List (Option α)))
    (i : Nat) (hi : i < pages.length) :
    maxAt (indexOfPages bnd key pages) i = (pageBound bnd key (pages.getD i [])).2 := by
  simp only [maxAt, indexOfPages]
  exact getD_map_nil (fun p => (pageBound bnd key p).2) none pages i hi

theorem mem_filterMap_id {α} {x : α} {page : List (Option α)} (h : some x ∈ page) : x ∈ page.filterMap id := by
  simp only [List.mem_filterMap, id]
  exact ⟨some x, h, rfl⟩

/-- a page that holds `x` has recorded bounds that contain `key x`, whatever null ordering `Find` is given -/
theorem contains_of_mem {α} (nf : Bool) {bnd : List α → Option (α × α)} {key : α → Int} (hb : BoundsFor bnd key)
    (pages : List (List (Option α))) (p : Nat) (hp : p < pages.length) (x : α) (hx : some x ∈ pages.getD p []) :
    contains nf (indexOfPages bnd key pages) p (key x) = true := by
  have hmem := mem_filterMap_id hx
  have hne : (pages.getD p []).filterMap id ≠ [] := by
    intro h; rw [h] at hmem; simp at hmem
  obtain ⟨mn, mx, hbnd⟩ := hb.some_of_ne _ hne
  have henc := hb.encloses _ mn mx hbnd x hmem
  simp only [contains, minAt_indexOfPages bnd key pages p hp, maxAt_indexOfPages bnd key pages p hp, pageBound, hbnd,
    ltNL, Bool.and_eq_true, Bool.not_eq_true', decide_eq_false_iff_not]
  omega

/-- every page of the index has `min ≤ max` -/
theorem indexOfPages_le {α} {bnd : List α → Option (α × α)} {key : α → Int} (hb : BoundsFor bnd key)
    (pages : List (List (Option α))) :
    ∀ i a b, i < (indexOfPages bnd key pages).n → minAt (indexOfPages bnd key pages) i = some a →
      maxAt (indexOfPages bnd key pages) i = some b → a ≤ b := by
  intro i a b hi ha hb'
  rw [indexOfPages_n] at hi
  rw [minAt_indexOfPages bnd key pages i hi] at ha
  rw [maxAt_indexOfPages bnd key pages i hi] at hb'
  unfold pageBound at ha hb'
  cases hbnd : bnd ((pages.getD i []).filterMap id) with
  | none => rw [hbnd] at ha; exact absurd ha (by simp)
  | some pr =>
    obtain ⟨mn, mx⟩ := pr
    rw [hbnd] at ha hb'
    simp only [Option.some.injEq] at ha hb'
    have hne : (pages.getD i []).filterMap id ≠ [] := by
      intro h; rw [h, hb.nil] at hbnd; simp at hbnd
    cases hxs : (pages.getD i []).filterMap id with
    | nil => exact absurd hxs hne
    | cons x0 rest =>
      have := hb.encloses _ mn mx hbnd x0 (by rw [hxs]; simp)
      omega

/-- `find_no_miss_writer` of `Props/C06.lean`, proved here so that the model files do not import the property file -/
theorem find_no_miss_writer_core (nf : Bool) (z : Int) (ix : Index) (v : Int)
    (hlen : ix.maxs.length = ix.mins.length)
    (hle : ∀ i a b, i < ix.n → minAt ix i = some a → maxAt ix i = some b → a ≤ b) :
    find nf (writerOrder z ix == 1) ix v ≤ ix.n ∧
    (find nf (writerOrder z ix == 1) ix v < ix.n → contains nf ix (find nf (writerOrder z ix == 1) ix v) v = true) ∧
    (∀ p, p < ix.n → contains nf ix p v = true → find nf (writerOrder z ix == 1) ix v ≤ p) := by
  unfold find
  by_cases hc : ((writerOrder z ix == 1) && !hasNull ix) = true
  · rw [if_pos hc]
    simp only [Bool.and_eq_true, Bool.not_eq_true', beq_iff_eq] at hc
    obtain ⟨mn, mx, ha⟩ := writerOrder_ascending z ix hlen hc.1 hc.2 hle
    exact binarySearch_first nf ha v
  · rw [if_neg hc]
    exact linearSearch_first nf ix v

/-- C06 ON VALUES. Pages of values (nulls anywhere, all-null pages, any number of pages, any arrangement), the
    index the writer builds from them with ANY bounds function that satisfies `BoundsFor`, the boundary order the
    indexer computes (`writerOrder`, null pages stored as `z`): for a value `x` held by page `p`, `Find` returns a
    page `r ≤ p` and the recorded bounds of page `r` contain `x`. -/
theorem find_no_miss_values {α} (nf : Bool) (z : Int) {bnd : List α → Option (α × α)} {key : α → Int}
    (hb : BoundsFor bnd key) (pages : List (List (Option α))) (p : Nat) (hp : p < pages.length) (x : α)
    (hx : some x ∈ pages.getD p []) :
    let ix := indexOfPages bnd key pages
    let r := find nf (writerOrder z ix == 1) ix (key x)
    r ≤ p ∧ r < ix.n ∧ contains nf ix r (key x) = true := by
  intro ix r
  have hc : contains nf ix p (key x) = true := contains_of_mem nf hb pages p hp x hx
  have hn : ix.n = pages.length := indexOfPages_n bnd key pages
  have hlen : ix.maxs.length = ix.mins.length := by simp [ix, indexOfPages]
  have hfind := find_no_miss_writer_core nf z ix (key x) hlen (indexOfPages_le hb pages)
  obtain ⟨_, h2, h3⟩ := hfind
  have hrp : r ≤ p := h3 p (by omega) hc
  have hrn : r < ix.n := by omega
  exact ⟨hrp, hrn, h2 hrn⟩

end PqModel.Search
