import PqModel.RowsRefine

/-! Refinement `RowsBuf` → `RowsState`, part 3: the hypothesis `WfFile` of the refinement theorems is
    DECIDABLE: `wfFileB` is an executable checker (one pass over the values of every page), proved
    sound. The driver op `c13.rowsrefine` runs it on the model of every file the L2 sub-check
    C13/rowsbuf compares the real reader on, so the hypothesis is checked on the layouts the real
    writer produces (SPEC side, no Go counterpart). -/
namespace PqModel.RowsRefine
open PqModel.RowsBuf

/-- `started = false`: `vs` is the rows `a .. b-1`; `started = true`: `vs` is the rest of row `a`
    followed by the rows `a+1 .. b-1` -/
def chkGroups (b : Nat) : Nat → Bool → List Val → Bool
  | a, false, [] => a == b
  | a, true, [] => a + 1 == b
  | a, false, v :: vs => v.row == a && v.rep == 0 && chkGroups b a true vs
  | a, true, v :: vs =>
    if v.rep == 0 then v.row == a + 1 && chkGroups b (a + 1) true vs
    else v.row == a && chkGroups b a true vs

theorem chkGroups_started (b : Nat) : ∀ (vs : List Val) (a : Nat), chkGroups b a true vs = true →
    ∃ g rest, vs = g ++ rest ∧ (∀ w ∈ g, w.row = a ∧ w.rep ≠ 0) ∧ Groups (a + 1) b rest
  | [], a, h => by
    simp only [chkGroups, beq_iff_eq] at h
    exact ⟨[], [], rfl, fun w hw => by simp at hw, h ▸ Groups.nil _⟩
  | v :: vs, a, h => by
    simp only [chkGroups] at h
    split at h
    · rename_i hrep
      simp only [Bool.and_eq_true, beq_iff_eq] at h hrep
      obtain ⟨g, rest, rfl, hg, hr⟩ := chkGroups_started b vs (a + 1) h.2
      exact ⟨[], v :: (g ++ rest), rfl, fun w hw => by simp at hw, Groups.cons h.1 hrep hg hr⟩
    · rename_i hrep
      simp only [Bool.and_eq_true, beq_iff_eq] at h hrep
      obtain ⟨g, rest, rfl, hg, hr⟩ := chkGroups_started b vs a h.2
      refine ⟨v :: g, rest, rfl, ?_, hr⟩
      intro w hw
      simp only [List.mem_cons] at hw
      rcases hw with rfl | hw
      · exact ⟨h.1, hrep⟩
      · exact hg w hw

theorem chkGroups_sound (b a : Nat) (vs : List Val) (h : chkGroups b a false vs = true) : Groups a b vs := by
  cases vs with
  | nil =>
    simp only [chkGroups, beq_iff_eq] at h
    exact h ▸ Groups.nil _
  | cons v vs =>
    simp only [chkGroups, Bool.and_eq_true, beq_iff_eq] at h
    obtain ⟨g, rest, rfl, hg, hr⟩ := chkGroups_started b vs a h.2
    exact Groups.cons h.1.1 h.1.2 hg hr

def wfPagesB : Nat → List Page → Nat → Bool
  | f, [], total => f == total
  | f, p :: ps, total =>
    p.firstRow == f && decide (0 < p.numRows) && chkGroups (f + p.numRows) f false p.vals &&
      wfPagesB (f + p.numRows) ps total

theorem wfPagesB_sound : ∀ (ps : List Page) (f total : Nat), wfPagesB f ps total = true → WfPages f ps total
  | [], f, total, h => by simpa [wfPagesB, WfPages] using h
  | p :: ps, f, total, h => by
    simp only [wfPagesB, Bool.and_eq_true, beq_iff_eq, decide_eq_true_eq] at h
    exact ⟨h.1.1.1, h.1.1.2, chkGroups_sound _ _ _ h.1.2, wfPagesB_sound ps _ total h.2⟩

def wfFileB (file : List (List Page)) (total : Nat) : Bool := file.all fun pages => wfPagesB 0 pages total

theorem wfFileB_sound (file : List (List Page)) (total : Nat) (h : wfFileB file total = true) : WfFile file total := by
  intro pages hp
  simp only [wfFileB, List.all_eq_true] at h
  exact wfPagesB_sound pages 0 total (h pages hp)

def opOkB (total : Nat) : Op → Bool
  | .seek k => decide (k ≤ total)
  | _ => true

theorem opOkB_sound (total : Nat) (ops : List Op) (h : ops.all (opOkB total) = true) : ∀ op ∈ ops, OpOk total op := by
  intro op hop
  have := List.all_eq_true.mp h op hop
  cases op <;> simp_all [opOkB, OpOk]

/-- the conclusion of `rows_are_aligned_buf`, evaluated on a run: every `ReadRows` that returns rows
    returns `min n (total - rowIndex)` of them and row `i` holds values of row `rowIndex + i` only -/
def alignedRun (file : List (List Page)) (B total : Nat) : St → List Op → Bool
  | _, [] => true
  | st, op :: ops =>
    (match op, (step file B st op).2 with
     | .read n, .rows rs _ =>
       rs.length == min n (total - st.rowIndex.toNat) &&
       (List.range rs.length).all fun i => (rs.getD i []).all fun v => v.row == st.rowIndex.toNat + i
     | _, _ => true) && alignedRun file B total (step file B st op).1 ops

theorem abs_read_rows (fails : RowsState.Fails) (total : Nat) (a : RowsState.St) (n : Nat)
    (starts : List (Option Nat)) (count : Nat)
    (h : (RowsState.read fails total a n).2 = .rows starts count) :
    a.err = false ∧ starts = a.cols ∧ count = min n (total - a.rowIndex) := by
  unfold RowsState.read at h
  by_cases he : a.err = true
  · simp [he] at h
  · simp only [he, Bool.false_eq_true, if_false] at h
    split at h
    · simp at h
    · simp only [RowsState.Out.rows.injEq] at h
      exact ⟨by simpa using he, h.1.symm, h.2.symm⟩

/-- the alignment of `RowsState`, pulled back along `Rel` for one call -/
theorem read_rows_aligned (file : List (List Page)) (total B : Nat) (hw : WfFile file total) (hne : file ≠ [])
    (hB : 0 < B) (st : St) (a : RowsState.St) (hR : Rel file total st a) (hA : RowsState.Aligned a) (n : Nat)
    (rs : List (List Val)) (eof : Bool) (h : (RowsBuf.read file B st n).2 = .rows rs eof) :
    rs.length = min n (total - st.rowIndex.toNat) ∧
    ∀ i r, rs[i]? = some r → ∀ v ∈ r, v.row = st.rowIndex.toNat + i := by
  obtain ⟨fails, _, hO⟩ := read_refines file total B hw hne hB st a hR hA n
  rw [h] at hO
  cases hout : (RowsState.read fails total a n).2 with
  | failed => rw [hout] at hO; simp [OutRel] at hO
  | done => rw [hout] at hO; simp [OutRel] at hO
  | rows starts count =>
    rw [hout] at hO
    obtain ⟨hae, hs, hc⟩ := abs_read_rows fails total a n starts count hout
    obtain ⟨hl, hv⟩ := hO
    have hri : a.rowIndex = st.rowIndex.toNat := hR.2.2.1
    refine ⟨by rw [hl, hc, hri], ?_⟩
    intro i r hr v hvr
    obtain ⟨q, hq, hrow⟩ := hv i r hr v hvr
    rw [hs] at hq
    have := hA hae _ hq
    simp only [Option.some.injEq] at this
    rw [hrow, this, hri]

theorem alignedRun_of_rel (file : List (List Page)) (total B : Nat) (hw : WfFile file total) (hne : file ≠ [])
    (hB : 0 < B) : ∀ (ops : List Op) (st : St) (a : RowsState.St), Rel file total st a → RowsState.Aligned a →
      (∀ op ∈ ops, OpOk total op) → alignedRun file B total st ops = true
  | [], _, _, _, _, _ => rfl
  | op :: ops, st, a, hR, hA, ho => by
    obtain ⟨fails, h1, _⟩ := step_refines file total B hw hne hB st a hR hA op (ho op (by simp))
    have ih := alignedRun_of_rel file total B hw hne hB ops _ _ h1
      (RowsState.step_aligned fails total a (mapOp op) hA) (fun o h => ho o (by simp [h]))
    simp only [alignedRun, ih, Bool.and_true]
    split
    · rename_i n rs eof hop hout
      simp only [step] at hout
      obtain ⟨g1, g2⟩ := read_rows_aligned file total B hw hne hB st a hR hA n rs eof hout
      simp only [Bool.and_eq_true, beq_iff_eq, List.all_eq_true, List.mem_range]
      refine ⟨g1, fun i hi v hv => ?_⟩
      have hget : rs[i]? = some (rs.getD i []) := by
        rw [List.getD_eq_getElem?_getD, List.getElem?_eq_getElem hi]; rfl
      exact g2 i _ hget v hv
    · rfl

/-- the executable form of the theorem: when the checker accepts the file and the history, the run
    is aligned -/
theorem alignedRun_true (file : List (List Page)) (total B : Nat) (ops : List Op)
    (hw : wfFileB file total = true) (hne : file ≠ []) (hB : 0 < B) (ho : ops.all (opOkB total) = true) :
    alignedRun file B total (init file) ops = true :=
  alignedRun_of_rel file total B (wfFileB_sound file total hw) hne hB ops _ _
    (init_rel file total (wfFileB_sound file total hw)) (RowsState.init_aligned _) (opOkB_sound total ops ho)

end PqModel.RowsRefine
