/-! Pagination model for C01/C02: a column stream is cut into pages at arbitrary positions
    (the writer's heuristics — page buffer size, 64-row chunking, row-group limit, dictionary
    fallback — only choose WHERE to cut); reading concatenates the decoded pages. -/
namespace PqModel.Pages

/-- cut `xs` after `c₁`, then `c₂` further elements, ...; the remainder is the last page -/
def cutAt {α} : List Nat → List α → List (List α)
  | [], xs => [xs]
  | c :: cs, xs => xs.take c :: cutAt cs (xs.drop c)

theorem cutAt_flatten {α} (cuts : List Nat) (xs : List α) : (cutAt cuts xs).flatten = xs := by
  induction cuts generalizing xs with
  | nil => simp [cutAt]
  | cons c cs ih => simp [cutAt, ih, List.take_append_drop]

/-- decode every page, fail if any fails, concatenate -/
def readPages {α β} (dec : β → Option (List α)) : List β → Option (List α)
  | [] => some []
  | p :: ps =>
    match dec p, readPages dec ps with
    | some a, some b => some (a ++ b)
    | _, _ => none

theorem readPages_map {α β} (enc : List α → β) (dec : β → Option (List α))
    (hrt : ∀ p, dec (enc p) = some p) (ps : List (List α)) :
    readPages dec (ps.map enc) = some ps.flatten := by
  induction ps with
  | nil => simp [readPages]
  | cons p ps ih => simp [readPages, hrt, ih]

theorem readPages_write {α β} (enc : List α → β) (dec : β → Option (List α))
    (hrt : ∀ p, dec (enc p) = some p) (xs : List α) (cuts : List Nat) :
    readPages dec ((cutAt cuts xs).map enc) = some xs := by
  rw [readPages_map enc dec hrt, cutAt_flatten]

end PqModel.Pages
