import PqModel.BitPackedLemmas
import PqModel.RleDecodeLemmas

/-! # MIRROR of the legacy BIT_PACKED level decoder (`encoding/bitpacked`, C04 part rle)

`goBitPackedValue` / `goDecodeBitPacked` transliterate `bitpacked.go:75-118` (`decodeLevels`); the
lemmas prove them equal to the SPEC reading `Rle.unpackMsb` (values and bytes most significant bit
first, Encodings.md "Bit-packed (Deprecated)"). Byte operations are written arithmetically:
`x >> s` = `x / 2^s`, `x & (2^a - 1)` = `x % 2^a`, `(top << r) | bottom` on disjoint ranges = sum. -/
namespace PqModel.Rle
open PqModel.Bits

/-- MIRROR bitpacked.go:96-115, the body of `for k := range dst`: `i, j := bitOffset/8, bitOffset%8`,
`available := 8 - j`; a value inside byte `i` is `(src[i] >> (available - w)) & bitMask`
(`bitMask = byte(1<<w) - 1`, 255 for `w = 8`); otherwise `topBits := src[i] & (1<<available - 1)`,
`bottomBits := src[i+1] >> (8 - remaining)` when byte `i+1` exists (else 0), and the value is
`topBits << remaining | bottomBits`. -/
def goBitPackedValue (w : Nat) (src : List Nat) (k : Nat) : Nat :=
  let i := k * w / 8
  let j := k * w % 8
  let avail := 8 - j
  if w ≤ avail then (src.getD i 0 / 2 ^ (avail - w)) % 2 ^ w
  else
    let remaining := w - avail
    let top := src.getD i 0 % 2 ^ avail
    let bottom := if i + 1 < src.length then src.getD (i + 1) 0 / 2 ^ (8 - remaining) else 0
    top * 2 ^ remaining + bottom

/-- MIRROR bitpacked.go:75-118 `decodeLevels`: `numValues = ceil(8*len(src) / w)`, every element of
`dst` is stored (the former content of `dst` is irrelevant: it is zeroed or freshly made, and then
overwritten). Width 0 or empty input gives the single byte 0. -/
def goDecodeBitPacked (w : Nat) (src : List Nat) : List Nat :=
  if w = 0 ∨ src = [] then [0] else
  let numBits := 8 * src.length
  let numValues := numBits / w + (if numBits % w ≠ 0 then 1 else 0)
  (List.range numValues).map (goBitPackedValue w src)

/-! ## lemmas -/

theorem unpackMsb_eq_map (w : Nat) : ∀ (n : Nat) (bits : List Bool),
    unpackMsb w n bits = (List.range n).map (fun k => fromBits ((bits.drop (k * w)).take w).reverse)
  | 0, _ => rfl
  | n + 1, bits => by
    rw [unpackMsb, unpackMsb_eq_map w n (bits.drop w), List.range_succ_eq_map]
    simp only [List.map_cons, List.map_map, Nat.zero_mul, List.drop_zero]
    congr 1
    apply List.map_congr_left
    intro k _
    simp only [Function.comp, List.drop_drop]
    congr 4
    rw [Nat.succ_mul]; omega

theorem bytesToBitsMsb_cons (b : Nat) (p : List Nat) :
    bytesToBitsMsb (b :: p) = toBitsMsb 8 b ++ bytesToBitsMsb p := by
  simp [bytesToBitsMsb]

theorem bytesToBitsMsb_drop : ∀ (k : Nat) (p : List Nat),
    (bytesToBitsMsb p).drop (8 * k) = bytesToBitsMsb (p.drop k)
  | 0, p => by simp
  | k + 1, [] => by simp [bytesToBitsMsb]
  | k + 1, b :: p => by
    have ih := bytesToBitsMsb_drop k p
    rw [bytesToBitsMsb_cons, List.drop_succ_cons]
    have e : 8 * (k + 1) = (toBitsMsb 8 b).length + 8 * k := by rw [toBitsMsb_length]; omega
    rw [e, ← List.drop_drop, List.drop_left' rfl]
    exact ih

/-- the low `8 - j` bits of a byte are what is left of its MSB-first bits after dropping `j` -/
theorem msb_drop (L : List Bool) (hL : L.length = 8) (j : Nat) (_hj : j ≤ 8) :
    fromBits ((L.reverse.drop j).reverse) = fromBits L % 2 ^ (8 - j) := by
  rw [List.drop_reverse, List.reverse_reverse, hL, fromBits_take]

/-- the first `r` MSB-first bits of a byte are its high bits -/
theorem msb_take (L : List Bool) (hL : L.length = 8) (r : Nat) (_hr : r ≤ 8) :
    fromBits ((L.reverse.take r).reverse) = fromBits L / 2 ^ (8 - r) := by
  rw [List.take_reverse, List.reverse_reverse, hL, fromBits_drop]

/-- a window inside one byte -/
theorem msb_window (L : List Bool) (hL : L.length = 8) (j w : Nat) (hjw : j + w ≤ 8) :
    fromBits (((L.reverse.drop j).take w).reverse) = fromBits L % 2 ^ (8 - j) / 2 ^ (8 - j - w) := by
  rw [List.drop_reverse, List.take_reverse, List.reverse_reverse, hL, List.length_take, hL,
    fromBits_drop, fromBits_take]
  congr 2
  omega

theorem window_arith (b a w : Nat) (hb : b < 256) (ha : a ≤ 8) (hw1 : 1 ≤ w) (hwa : w ≤ a) :
    b % 2 ^ a / 2 ^ (a - w) = b / 2 ^ (a - w) % 2 ^ w := by
  have ha' : a = 1 ∨ a = 2 ∨ a = 3 ∨ a = 4 ∨ a = 5 ∨ a = 6 ∨ a = 7 ∨ a = 8 := by omega
  have hw' : w = 1 ∨ w = 2 ∨ w = 3 ∨ w = 4 ∨ w = 5 ∨ w = 6 ∨ w = 7 ∨ w = 8 := by omega
  rcases ha' with rfl | rfl | rfl | rfl | rfl | rfl | rfl | rfl <;>
    rcases hw' with rfl | rfl | rfl | rfl | rfl | rfl | rfl | rfl <;>
    first
    | (exfalso; omega)
    | (simp only [Nat.reducePow, Nat.reduceSub, Nat.div_one, Nat.pow_zero] <;> omega)

/-- value `k` of the Go decoder is the `k`-th MSB-first window of the byte string, whenever the
window lies inside the input -/
theorem goBitPackedValue_eq (w : Nat) (hw1 : 1 ≤ w) (hw8 : w ≤ 8) (src : List Nat) (hb : ∀ b ∈ src, b < 256)
    (k : Nat) (hk : (k + 1) * w ≤ 8 * src.length) :
    goBitPackedValue w src k = fromBits (((bytesToBitsMsb src).drop (k * w)).take w).reverse := by
  have hkw : k * w + w ≤ 8 * src.length := by rw [Nat.succ_mul] at hk; exact hk
  have hi : k * w / 8 < src.length := by omega
  have hsplit : k * w = 8 * (k * w / 8) + k * w % 8 := by omega
  have hj : k * w % 8 < 8 := Nat.mod_lt _ (by decide)
  generalize hie : k * w / 8 = i at hi hsplit
  generalize hje : k * w % 8 = j at hj hsplit
  -- the bits from position k*w on
  obtain ⟨b0, tl, hd⟩ : ∃ b0 tl, src.drop i = b0 :: tl := by
    cases h : src.drop i with
    | nil => have := congrArg List.length h; simp at this; omega
    | cons b0 tl => exact ⟨b0, tl, rfl⟩
  have hb0 : b0 < 256 := hb b0 (List.mem_of_mem_drop (by rw [hd]; simp))
  have hget0 : src.getD i 0 = b0 := by
    have : src.getD i 0 = (src.drop i).getD 0 0 := by simp [List.getD_eq_getElem?_getD]
    rw [this, hd]; rfl
  have hdrop : (bytesToBitsMsb src).drop (k * w) =
      (toBits 8 b0).reverse.drop j ++ bytesToBitsMsb tl := by
    rw [hsplit, ← List.drop_drop, bytesToBitsMsb_drop, hd, bytesToBitsMsb_cons]
    rw [List.drop_append_of_le_length (by rw [toBitsMsb_length]; omega)]
    rfl
  have hL : (toBits 8 b0).length = 8 := toBits_length 8 b0
  have hXlen : ((toBits 8 b0).reverse.drop j).length = 8 - j := by simp [hL]
  simp only [goBitPackedValue, hie, hje, hget0]
  rw [hdrop]
  by_cases hfit : w ≤ 8 - j
  · simp only [hfit, if_true]
    rw [List.take_append_of_le_length (by rw [hXlen]; exact hfit)]
    rw [msb_window _ hL j w (by omega), toBits8_lt b0 hb0]
    exact (window_arith b0 (8 - j) w hb0 (by omega) hw1 hfit).symm
  · simp only [hfit, if_false]
    -- the value straddles bytes i and i+1
    have htl : tl ≠ [] := by
      intro h
      have hl := congrArg List.length hd
      rw [h, List.length_drop] at hl
      simp at hl
      omega
    obtain ⟨b1, tl', rfl⟩ : ∃ b1 tl', tl = b1 :: tl' := by
      cases tl with
      | nil => exact absurd rfl htl
      | cons b1 tl' => exact ⟨b1, tl', rfl⟩
    have hb1 : b1 < 256 := hb b1 (List.mem_of_mem_drop (by rw [hd]; simp))
    have hi1 : i + 1 < src.length := by
      have hl := congrArg List.length hd
      rw [List.length_drop] at hl; simp at hl; omega
    have hget1 : src.getD (i + 1) 0 = b1 := by
      have : src.getD (i + 1) 0 = (src.drop i).getD 1 0 := by simp [List.getD_eq_getElem?_getD]
      rw [this, hd]; rfl
    simp only [hi1, if_true, hget1]
    have hL1 : (toBits 8 b1).length = 8 := toBits_length 8 b1
    rw [List.take_append, List.take_of_length_le (by rw [hXlen]; omega), hXlen]
    rw [bytesToBitsMsb_cons, List.take_append_of_le_length (by rw [toBitsMsb_length]; omega)]
    rw [List.reverse_append, fromBits_append, List.length_reverse, List.length_take, toBitsMsb_length]
    have hmin : min (w - (8 - j)) 8 = w - (8 - j) := by omega
    rw [hmin]
    show _ = fromBits (((toBits 8 b1).reverse.take (w - (8 - j))).reverse) + _
    rw [msb_take _ hL1 _ (by omega), msb_drop _ hL j (by omega), toBits8_lt b0 hb0, toBits8_lt b1 hb1]
    rw [Nat.mul_comm, Nat.add_comm]

/-- The Go BIT_PACKED decoder returns, on its first `n` values, what the SPEC decoder returns, for
every byte string that holds `n` values of width `w` (`1 ≤ w ≤ 8`). -/
theorem goDecodeBitPacked_eq (w n : Nat) (hw1 : 1 ≤ w) (hw8 : w ≤ 8) (src : List Nat) (hb : ∀ b ∈ src, b < 256)
    (hn1 : 1 ≤ n) (hn : n * w ≤ 8 * src.length) :
    (goDecodeBitPacked w src).take n = unpackMsb w n (bytesToBitsMsb src) := by
  have hne : src ≠ [] := by
    intro h; subst h
    have : 1 * w ≤ n * w := Nat.mul_le_mul_right w hn1
    simp at hn; omega
  have hw0 : ¬ w = 0 := by omega
  simp only [goDecodeBitPacked, hw0, hne, or_self, if_false]
  have hnv : n ≤ 8 * src.length / w := by
    rw [Nat.le_div_iff_mul_le (by omega)]; exact hn
  rw [← List.map_take, List.take_range, Nat.min_eq_left (by omega), unpackMsb_eq_map]
  apply List.map_congr_left
  intro k hk
  have hk' : k < n := by simpa using hk
  apply goBitPackedValue_eq w hw1 hw8 src hb k
  have : (k + 1) * w ≤ n * w := Nat.mul_le_mul_right w (by omega)
  omega

theorem bitsToBytesMsb_lt : ∀ (f : Nat) (bs : List Bool), ∀ b ∈ bitsToBytesMsb f bs, b < 256
  | 0, _, b, hb => by simp [bitsToBytesMsb] at hb
  | f + 1, bs, b, hb => by
    simp only [bitsToBytesMsb] at hb
    split at hb
    · simp at hb
    · simp only [List.mem_cons] at hb
      rcases hb with rfl | hb
      · have h := fromBits_lt ((bs.take 8 ++ List.replicate (8 - (bs.take 8).length) false).reverse)
        have hl : ((bs.take 8 ++ List.replicate (8 - (bs.take 8).length) false).reverse).length = 8 := by
          simp only [List.length_reverse, List.length_append, List.length_replicate, List.length_take]; omega
        rw [hl] at h
        exact h
      · exact bitsToBytesMsb_lt f _ b hb

theorem encodeBitPacked_lt (w : Nat) (xs : List Nat) : ∀ b ∈ encodeBitPacked w xs, b < 256 := by
  intro b hb
  simp only [encodeBitPacked] at hb
  split at hb
  · simp at hb; omega
  · exact bitsToBytesMsb_lt _ _ b hb

end PqModel.Rle
