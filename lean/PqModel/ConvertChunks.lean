import PqModel.ConvertProofs

/-! # C12: the column-chunk view of a converted row group, the sorting columns it declares, and
    reading converted rows in batches

MIRRORS of `ConvertRowGroup` (convert.go:611-699: which chunk serves which target column, the
carry-over of sorting columns), `findAdjacentColumnChunk` (convert.go:562-607),
`missingPageValues.ReadValues` (convert.go:848-981), `forwardRowSeeker.ReadRows` (row.go:256-276)
and `convertedRows.ReadRows` (convert.go:1023-1033), at the level of per-column streams. -/
namespace PqModel.Convert
open PqModel.Dremel

/-! ## column chunks -/

/-- `missingPageValues.ReadValues` for a column the source lacks: `numValues = numRows` entries at
    most; without an adjacent chunk (always the case for `maxRepetitionLevel = 0`) one entry per row,
    zero at level 0 for a column with max definition level 0, else null at `maxDef - 1`; with an
    adjacent chunk the adjacent's levels are mirrored (definition level capped at `maxDef - 1`). -/
def missingCol (numRows tr td : Nat) (adj : Option (List Triple)) : List Triple :=
  match (if tr > 0 then adj else none) with
  | none => List.replicate numRows ⟨if td = 0 then some 0 else none, 0, td - 1⟩
  | some a => (a.take numRows).map fun t => ⟨none, t.rep, if t.dfn < td then t.dfn else td - 1⟩

/-- MIRROR of `missingPage.Slice(i, j)` followed by `Values()` (convert.go:821-845) for a column
    without adjacent chunk (`maxRepetitionLevel = 0`): a fresh `missingColumnChunk` of `j - i` rows
    with the type, column and levels of the page copied field by field. `copyDef` = the struct
    literal copies `maxDefinitionLevel` (the code as it stands); `false` = the field is left out
    (slip of seed C12-5b: the slice reads as a REQUIRED column). -/
def missingSlice (copyDef : Bool) (td i j : Nat) : List Triple :=
  missingCol (j - i) 0 (if copyDef then td else 0) none

/-- `findAdjacentColumnChunk`: among the target leaves with the same parent path (the fields
    `all` of the enclosing target group) and the same max repetition level that exist in the
    source, the LAST one (the `return` only leaves the callback); `self` is skipped. -/
def adjOf (self : Nat) (selfRpt : Bool) (lv : Lv) (s : Src) : PFields → Option (List Triple) → Option (List Triple)
  | .nil, acc => acc
  | .cons nm rp n fs, acc =>
    adjOf self selfRpt lv s fs
      (match n with
       | .leaf =>
         if nm ≠ self ∧ (rp == .rpt) = selfRpt then
           (match (stepS nm rp lv s).2 with
            | .on .leaf blk _ => some (blk.headD [])
            | _ => acc)
         else acc
       | .group _ => acc)

mutual
/-- BEFORE the repair 2c2062a (kept as a regression fact). `convertedRowGroup.ColumnChunks()`: a target column that exists in the source is served by the
    source chunk as it is (`convertedColumnChunk` only rewrites the column index: no level tables,
    no type conversion); the others by a `missingColumnChunk`. `all` = the fields of the enclosing
    target group. The walk (`stepS`) is the one of the row conversion. -/
def chunkN_before_fix (numRows : Nat) : PNode → Rp → Lv → Src → Option (List Triple) → Cols
  | .leaf, _, lv, s, adj =>
    match s with
    | .on .leaf blk _ => [blk.headD []]
    | _ => [missingCol numRows lv.tr lv.td adj]
  | .group tfs, _, lv, s, _ => chunkF_before_fix numRows tfs tfs lv s
def chunkF_before_fix (numRows : Nat) (all : PFields) : PFields → Lv → Src → Cols
  | .nil, _, _ => []
  | .cons nm trp tn tfs, lv, s =>
    chunkN_before_fix numRows tn trp (stepS nm trp lv s).1 (stepS nm trp lv s).2 (adjOf nm (trp == .rpt) lv s all none)
      ++ chunkF_before_fix numRows all tfs lv s
end

/-- the per-column streams of the converted row group's chunks, given the source chunks' streams -/
def chunkView_before_fix (src tgt : PNode) (cols : Cols) (numRows : Nat) : Cols :=
  chunkN_before_fix numRows tgt .req lv0 (.on src cols none) none

/-- convert.go `convertedValueReader.ReadValues` since repair 2c2062a: the chunk of a target column
    that exists in the source is the source chunk as it is when the column is `direct` (no
    conversion function installed: level tables the identity, same type), else every value read
    goes through `conversionColumn.convert`: the level tables, the zero fix-up of a column whose max
    definition level is 0, the typed zero for nulls at the max definition level. No placeholder:
    an empty chunk stays empty. -/
def chunkLeaf (lv : Lv) (src : List Triple) : List Triple :=
  if isDirect lv.R (lv.sr + 1) && isDirect lv.D (lv.sd + 1) then src
  else zeroCol lv.td (fixup (decide (lv.td > 0)) (convLevels lv src))

mutual
/-- `convertedRowGroup.ColumnChunks()` as the code stands (repair 2c2062a): a target column that
    exists in the source is served by the source chunk seen through the column's conversion
    (`chunkLeaf`); the others by a `missingColumnChunk`. `all` = the fields of the enclosing
    target group. The walk (`stepS`) is the one of the row conversion. Type conversion is not
    modelled here (ConvValue.lean). -/
def chunkN (numRows : Nat) : PNode → Rp → Lv → Src → Option (List Triple) → Cols
  | .leaf, _, lv, s, adj =>
    match s with
    | .on .leaf blk _ => [chunkLeaf lv (blk.headD [])]
    | _ => [missingCol numRows lv.tr lv.td adj]
  | .group tfs, _, lv, s, _ => chunkF numRows tfs tfs lv s
def chunkF (numRows : Nat) (all : PFields) : PFields → Lv → Src → Cols
  | .nil, _, _ => []
  | .cons nm trp tn tfs, lv, s =>
    chunkN numRows tn trp (stepS nm trp lv s).1 (stepS nm trp lv s).2 (adjOf nm (trp == .rpt) lv s all none)
      ++ chunkF numRows all tfs lv s
end

/-- the per-column streams of the converted row group's chunks, given the source chunks' streams -/
def chunkView (src tgt : PNode) (cols : Cols) (numRows : Nat) : Cols :=
  chunkN numRows tgt .req lv0 (.on src cols none) none

/-- column streams of a row group: the rows' streams concatenated column by column -/
def joinRows (m : Nat) (rows : List Cols) : Cols := joinSegs m rows

/-- what reading the converted row group ROW by row yields (`convertedRows`), as column streams -/
def rowView (src tgt : PNode) (vs : List Val) : Cols :=
  joinRows (leavesP tgt) (vs.map fun v => convertRow src tgt (shred src v))

mutual
/-- `permN src tgt`: the target only deletes and permutes fields (no repetition type changes, no
    added fields): the condition under which the chunk view is the row view. -/
def permN : PNode → PNode → Bool
  | .leaf, .leaf => true
  | .group sfs, .group tfs => permF sfs tfs
  | _, _ => false
def permF (sfs : PFields) : PFields → Bool
  | .nil => true
  | .cons nm trp t tfs =>
    (match getFld nm sfs with
     | some (srp, s) => decide (srp = trp) && permN s t
     | none => false) && permF sfs tfs
end

/-! ## sorting columns -/

/-- convert.go:677-683: `for _, col := range rowGroup.SortingColumns() { if !hasColumnPath(schema,
    col.Path()) { break }; sorting = append(sorting, col) }` over abstract sorting columns -/
def carrySorting {κ : Type} (survives : κ → Bool) : List κ → List κ
  | [] => []
  | c :: cs => if survives c then c :: carrySorting survives cs else []

/-- the slip `continue` for `break` -/
def carrySortingContinue {κ : Type} (survives : κ → Bool) : List κ → List κ
  | [] => []
  | c :: cs => if survives c then c :: carrySortingContinue survives cs else carrySortingContinue survives cs

/-- lexicographic "not after" for a list of key comparators -/
def lexLE {ρ : Type} : List (ρ → ρ → Ordering) → ρ → ρ → Bool
  | [], _, _ => true
  | k :: ks, a, b =>
    match k a b with
    | .lt => true
    | .gt => false
    | .eq => lexLE ks a b

/-- adjacent rows are in order -/
def SortedBy {ρ : Type} (ks : List (ρ → ρ → Ordering)) : List ρ → Prop
  | a :: b :: rest => lexLE ks a b = true ∧ SortedBy ks (b :: rest)
  | _ => True

/-! ## reading in batches -/

inductive ReadOut (α : Type) where
  | rows (xs : List α)
  | panic
deriving DecidableEq, Repr

/-- state of `forwardRowSeeker` over an underlying reader that still holds `rest` (an underlying
    `ReadRows(buf)` hands out `rest.take |buf|`; an empty batch is the end) -/
structure Fwd (α : Type) where
  rest : List α
  seek : Nat
  index : Nat
deriving DecidableEq, Repr

/-- row.go:278-289 `SeekToRow` (forward only) -/
def Fwd.seekTo {α : Type} (st : Fwd α) (row : Nat) : Option (Fwd α) :=
  if row ≥ st.index then some { st with seek := row } else none

/-- row.go:256-276 BEFORE the repair c3e3444 (kept as a regression fact):
    * `index` advanced only while rows were being skipped, not on plain reads;
    * when the seek target lay inside the batch (`skip < n`) the copy loop
      `for i, j := 0, skip; j < n; i++` never advanced `j`: `i` ran past the buffer and the call
      panicked (index out of range). -/
def Fwd.readBeforeFix {α : Type} (cap : Nat) : Nat → Fwd α → ReadOut α × Fwd α
  | 0, st => (.rows [], st)
  | fuel + 1, st =>
    if 0 < (st.rest.take cap).length ∧ st.index < st.seek then
      if st.seek - st.index ≥ (st.rest.take cap).length then
        Fwd.readBeforeFix cap fuel { rest := st.rest.drop cap, seek := st.seek, index := st.index + (st.rest.take cap).length }
      else (.panic, { rest := st.rest.drop cap, seek := st.seek, index := st.index + (st.rest.take cap).length })
    else (.rows (st.rest.take cap), { st with rest := st.rest.drop cap })

/-- row.go:256-281 AS IT IS (`forwardRowSeeker.ReadRows`): batches that lie entirely before the
    seek target are skipped (`continue`), the batch holding it loses its first `skip` rows (`i`
    and `j` advance together), and `index` counts every row handed out by the underlying
    reader. `fuel` bounds the outer `for`. -/
def Fwd.read {α : Type} (cap : Nat) : Nat → Fwd α → ReadOut α × Fwd α
  | 0, st => (.rows [], st)
  | fuel + 1, st =>
    if 0 < (st.rest.take cap).length ∧ st.index < st.seek then
      if st.seek - st.index ≥ (st.rest.take cap).length then
        Fwd.read cap fuel { rest := st.rest.drop cap, seek := st.seek, index := st.index + (st.rest.take cap).length }
      else (.rows ((st.rest.take cap).drop (st.seek - st.index)),
        { rest := st.rest.drop cap, seek := st.seek, index := st.index + (st.rest.take cap).length })
    else (.rows (st.rest.take cap), { rest := st.rest.drop cap, seek := st.seek, index := st.index + (st.rest.take cap).length })

/-- convert.go:1023-1033 `convertedRows.ReadRows`: read a batch, convert it in place -/
def convRead {α β : Type} (f : α → β) (cap fuel : Nat) (st : Fwd α) : ReadOut β × Fwd α :=
  match Fwd.read cap fuel st with
  | (.rows xs, st') => (.rows (xs.map f), st')
  | (.panic, st') => (.panic, st')

/-- a consumer that calls `ReadRows` with buffers of sizes `caps` and appends what it gets
    (`CopyRows`, `ReadRowsFrom`); `none` = a call panicked -/
def drain {α β : Type} (f : α → β) : List Nat → Fwd α → Option (List β)
  | [], _ => some []
  | cap :: caps, st =>
    match convRead f cap (st.rest.length + 1) st with
    | (.rows xs, st') => (drain f caps st').map (xs ++ ·)
    | (.panic, _) => none

/-- a history of calls on the reader returned by `ConvertRowReader` -/
inductive Op where
  | read (cap : Nat)
  | seek (row : Nat)
deriving DecidableEq, Repr

/-- what the reads of a history deliver (a refused `SeekToRow` leaves the state alone) -/
def runHist {α : Type} : List Op → Fwd α → List (List α)
  | [], _ => []
  | .seek k :: ops, st =>
    match st.seekTo k with
    | some st' => runHist ops st'
    | none => runHist ops st
  | .read cap :: ops, st =>
    match Fwd.read cap (st.rest.length + 1) st with
    | (.rows xs, st') => xs :: runHist ops st'
    | (.panic, st') => [] :: runHist ops st'

/-- SPEC of a forward-seekable reader over the rows `all`, with `p` the position of the next row:
    a read delivers rows `p, p+1, ...` (possibly fewer than asked for, none only at the end) and
    moves `p` behind them; `SeekToRow k` with `k ≥ p` moves `p` to `k` (a backward seek puts no
    obligation on the rest of the history). -/
def Refines {α : Type} (all : List α) : Nat → List Op → List (List α) → Prop
  | _, [], outs => outs = []
  | p, .seek k :: ops, outs => k ≥ p → Refines all k ops outs
  | p, .read _ :: ops, xs :: outs =>
    xs = (all.drop p).take xs.length ∧ (xs = [] → all.drop p = []) ∧ Refines all (p + xs.length) ops outs
  | _, .read _ :: _, [] => False

end PqModel.Convert
