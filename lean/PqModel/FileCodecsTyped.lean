import PqModel.FileCodecs

/-! # Column codecs of the C01 file model for every physical type × encoding, and the data page v1
body framing

Definitions only (glue between the C04 models and the `List Nat` values / byte sections of the file
model). That they satisfy the hypotheses of the composition theorem is proved in
`Props/C01Codecs.lean` from the C04 theorems.

A leaf value of the Dremel model is a natural number; per physical type the representation is
* BOOLEAN: `0`/`1`; INT32/FLOAT: the 32-bit pattern; INT64/DOUBLE: the 64-bit pattern; INT96: the
  96-bit pattern (floats are bit patterns, so NaN payloads and `-0.0` are ordinary values);
* FIXED_LEN_BYTE_ARRAY(n): the number whose `n` little-endian base-256 digits are the bytes
  (a bijection between `n`-byte strings and `x < 2^(8n)`, `C04Plain.le_roundtrip`/`le_roundtrip_bytes`);
* BYTE_ARRAY: the bijective base-256 numeral `natOfBytes` (a bijection between ALL byte strings and
  `Nat`: `natOfBytes_bytesOfNat`, `bytesOfNat_natOfBytes` in `Props/C01Codecs.lean`).

Encoders are the MIRROR functions of C04 (transliterations of the Go encoders), decoders the SPEC
decoders written from Encodings.md. -/
namespace PqModel.FileModel
open PqModel PqModel.Bits

/-! ## byte strings as naturals -/

/-- SPEC-side representation: bijective base-256 numeral of a byte string (`[]` ↦ 0, `[0]` ↦ 1,
    `[255]` ↦ 256, `[0,0]` ↦ 257, …) -/
def natOfBytes : List Nat → Nat
  | [] => 0
  | b :: bs => 1 + b + 256 * natOfBytes bs

/-- inverse of `natOfBytes`, on fuel -/
def bytesOfNatF : Nat → Nat → List Nat
  | 0, _ => []
  | _, 0 => []
  | f + 1, n + 1 => n % 256 :: bytesOfNatF f (n / 256)

def bytesOfNat (n : Nat) : List Nat := bytesOfNatF n n

/-! ## value codecs -/

/-- The value encoding of one column: value domain `okV`, admissible page value lists `okP` (size
    limits of the format), MIRROR encoder, SPEC decoder told the value count of the page header. -/
structure ValCodec where
  okV : Nat → Bool
  okP : List Nat → Bool
  enc : List Nat → List Nat
  dec : Nat → List Nat → Option (List Nat)

/-- the round-trip statement of a value codec (the shape of the C04 theorems) -/
def ValCodec.OK (v : ValCodec) : Prop :=
  ∀ xs, (∀ x ∈ xs, v.okV x = true) → v.okP xs = true → v.dec xs.length (v.enc xs) = some xs

def toN (bs : Plain.Bytes) : List Nat := bs.map UInt8.toNat
def toB (bs : List Nat) : Plain.Bytes := bs.map UInt8.ofNat

/-- a page must hold exactly the announced number of values -/
def exactly (cnt : Nat) (o : Option (List Nat)) : Option (List Nat) :=
  o.bind fun ys => if ys.length = cnt then some ys else none

/-- PLAIN for the `k`-byte little-endian types: INT32/FLOAT `k = 4`, INT64/DOUBLE `k = 8`, INT96
    `k = 12`, FIXED_LEN_BYTE_ARRAY(k). MIRROR `Plain.encFixed`, SPEC `Plain.specDecFixed`. -/
def plainFixed (k : Nat) : ValCodec where
  okV x := decide (x < 2 ^ (8 * k))
  okP _ := true
  enc xs := toN (Plain.encFixed k xs)
  dec cnt bs := exactly cnt (Plain.specDecFixed k (toB bs))

/-- BYTE_STREAM_SPLIT for the `k`-byte types. MIRROR `Plain.bssEncFixed`, SPEC `Plain.bssSpecDecFixed`. -/
def bssFixed (k : Nat) : ValCodec where
  okV x := decide (x < 2 ^ (8 * k))
  okP _ := true
  enc xs := toN (Plain.bssEncFixed k xs)
  dec cnt bs := exactly cnt (Plain.bssSpecDecFixed k (toB bs))

/-- DELTA_BINARY_PACKED INT32. MIRROR `Delta.mirrorEncode32`, SPEC `Delta.specDecode32`. -/
def delta32 : ValCodec where
  okV x := decide (x < 2 ^ 32)
  okP _ := true
  enc xs := Delta.mirrorEncode32 (xs.map (BitVec.ofNat 32))
  dec cnt bs :=
    match Delta.specDecode32 bs with
    | .ok (ys, []) => if ys.length = cnt then some (ys.map BitVec.toNat) else none
    | _ => none

/-- DELTA_BINARY_PACKED INT64 (the codec `int64Codec` already uses) -/
def delta64 : ValCodec where
  okV := isInt64
  okP _ := true
  enc := deltaInt64Enc
  dec := deltaInt64Dec

/-- PLAIN BOOLEAN: bit-packed LSB first. MIRROR `Plain.encBools` into a fresh buffer, SPEC
    `Plain.specDecBool`. -/
def plainBool : ValCodec where
  okV x := decide (x < 2)
  okP _ := true
  enc xs := toN (Plain.encBools [] (xs.map (· == 1)))
  dec cnt bs := (Plain.specDecBool cnt (toB bs)).map (·.map Rle.b2n)

/-- the bit-packed form the boolean column buffer hands to the RLE encoder -/
def boolPack (xs : List Nat) : List Nat := bitsToBytes xs.length (xs.map (· == 1))

/-- RLE BOOLEAN: 4-byte length prefix + hybrid runs at width 1. MIRROR `Rle.encodeBoolean`, SPEC
    `Rle.specDecodeBoolean`. Admissible pages: the body fits the `uint32` prefix. -/
def rleBool : ValCodec where
  okV x := decide (x < 2)
  okP xs := decide ((Rle.encodeBits (boolPack xs)).length < 2 ^ 32)
  enc xs := Rle.encodeBoolean (boolPack xs)
  dec cnt bs :=
    match Rle.specDecodeBoolean cnt bs with
    | .ok ys => some ys
    | .error _ => none

/-- PLAIN BYTE_ARRAY: 4-byte little-endian length then the bytes. MIRROR `Plain.encByteArray`, SPEC
    `Plain.specDecByteArray`. -/
def plainBA : ValCodec where
  okV x := decide ((bytesOfNat x).length < 2 ^ 32)
  okP _ := true
  enc xs := toN (Plain.encByteArray (xs.map fun x => toB (bytesOfNat x)))
  dec cnt bs := exactly cnt ((Plain.specDecByteArray (toB bs)).map (·.map fun v => natOfBytes (toN v)))

/-- DELTA_LENGTH_BYTE_ARRAY. MIRROR `Delta.mirrorEncodeDLBA`, SPEC `Delta.specDecodeDLBA`. -/
def dlba : ValCodec where
  okV x := decide ((bytesOfNat x).length < 2 ^ 31)
  okP _ := true
  enc xs := Delta.mirrorEncodeDLBA (xs.map bytesOfNat)
  dec cnt bs :=
    match Delta.specDecodeDLBA bs with
    | .ok (vs, []) => if vs.length = cnt then some (vs.map natOfBytes) else none
    | _ => none

/-- DELTA_BYTE_ARRAY (front coding). MIRROR `Delta.mirrorEncodeDBA`, SPEC `Delta.specDecodeDBA`. -/
def dba : ValCodec where
  okV x := decide ((bytesOfNat x).length < 2 ^ 31)
  okP _ := true
  enc xs := Delta.mirrorEncodeDBA (xs.map bytesOfNat)
  dec cnt bs :=
    match Delta.specDecodeDBA bs with
    | .ok (vs, []) => if vs.length = cnt then some (vs.map natOfBytes) else none
    | _ => none

/-- DELTA_BYTE_ARRAY of FIXED_LEN_BYTE_ARRAY(n): MIRROR `Delta.mirrorEncodeFLBA` on the
    concatenated values, SPEC `Delta.specDecodeDBA`; every decoded value must have `n` bytes. -/
def dbaFixed (n : Nat) : ValCodec where
  okV x := decide (x < 2 ^ (8 * n))
  okP _ := true
  enc xs := Delta.mirrorEncodeFLBA n (xs.map (Rle.leBytes n)).flatten
  dec cnt bs :=
    match Delta.specDecodeDBA bs with
    | .ok (vs, []) =>
      if vs.length = cnt ∧ vs.all (fun v => v.length == n) then some (vs.map Rle.leNat) else none
    | _ => none

/-! ## the table physical type × encoding -/

inductive PType where
  | boolean | int32 | int64 | int96 | float | double | byteArray
  | flba (n : Nat)
deriving DecidableEq, Repr

inductive VEnc where
  | plain | deltaBinaryPacked | deltaLengthByteArray | deltaByteArray | rle | byteStreamSplit
deriving DecidableEq, Repr

/-- PLAIN of every type: also the encoding of its dictionary page -/
def plainOf : PType → ValCodec
  | .boolean => plainBool
  | .int32 => plainFixed 4
  | .int64 => plainFixed 8
  | .int96 => plainFixed 12
  | .float => plainFixed 4
  | .double => plainFixed 8
  | .byteArray => plainBA
  | .flba n => plainFixed n

/-- the value encodings parquet-go accepts per physical type (`Type.NewValues`/`canEncode` of
    encoding/*): `none` = rejected combination -/
def valCodecOf : PType → VEnc → Option ValCodec
  | t, .plain => some (plainOf t)
  | .boolean, .rle => some rleBool
  | .int32, .deltaBinaryPacked => some delta32
  | .int64, .deltaBinaryPacked => some delta64
  | .int32, .byteStreamSplit => some (bssFixed 4)
  | .int64, .byteStreamSplit => some (bssFixed 8)
  | .float, .byteStreamSplit => some (bssFixed 4)
  | .double, .byteStreamSplit => some (bssFixed 8)
  | .flba n, .byteStreamSplit => some (bssFixed n)
  | .byteArray, .deltaLengthByteArray => some dlba
  | .byteArray, .deltaByteArray => some dba
  | .flba n, .deltaByteArray => some (dbaFixed n)
  | _, _ => none

/-- one leaf column: physical type and value encoding -/
structure ColSpec where
  t : PType
  e : VEnc
deriving DecidableEq, Repr

/-- the combination exists and a FIXED_LEN_BYTE_ARRAY has a positive length below 2^31 -/
def ColSpec.supported (c : ColSpec) : Bool :=
  (valCodecOf c.t c.e).isSome &&
    (match c.t with
     | .flba n => decide (0 < n) && decide (n < 2 ^ 31)
     | _ => true)

def ColSpec.val (c : ColSpec) : ValCodec := (valCodecOf c.t c.e).getD (plainOf c.t)

/-! ## levels and page storage -/

/-- levels of a column whose maximum level is 0 are not stored (v1 and v2 alike); otherwise hybrid
    RLE at width `bits.Len(m)` -/
def lvEnc (m : Nat) (xs : List Nat) : List Nat := if m = 0 then [] else rleEncL m xs

def lvDec (m cnt : Nat) (bs : List Nat) : Option (List Nat) :=
  if m = 0 then some (List.replicate cnt 0) else rleDecL m cnt bs

/-- SPEC (data page v1): a level section is `<length: 4 bytes little endian> <hybrid RLE bytes>`,
    present only when the column's maximum level is not 0 -/
def secV1 (m : Nat) (b : List Nat) : List Nat := if m = 0 then [] else Rle.leBytes 4 b.length ++ b

/-- split one v1 level section off the front of a page body -/
def unsecV1 (m : Nat) (bs : List Nat) : Option (List Nat × List Nat) :=
  if m = 0 then some ([], bs)
  else if bs.length < 4 then none
  else
    let len := Rle.leNat (bs.take 4)
    if (bs.drop 4).length < len then none else some ((bs.drop 4).take len, (bs.drop 4).drop len)

/-- SPEC data page v1: ONE body `rep section ++ def section ++ values`, compressed as a whole (the
    stored page keeps the body in `vals`; the header carries the value count and the encoding) -/
def packV1 (lv : Nat × Nat) (comp : List Nat → List Nat) (p : Page (List Nat)) : Page (List Nat) :=
  { p with reps := [], defs := [], vals := comp (secV1 lv.1 p.reps ++ (secV1 lv.2 p.defs ++ p.vals)) }

def unpackV1 (lv : Nat × Nat) (decomp : List Nat → Option (List Nat)) (g : Page (List Nat)) :
    Option (Page (List Nat)) :=
  (decomp g.vals).bind fun body =>
  (unsecV1 lv.1 body).bind fun r =>
  (unsecV1 lv.2 r.2).map fun d => { g with reps := r.1, defs := d.1, vals := d.2 }

/-- admissible level sections of a v1 page: absent when the maximum level is 0, otherwise shorter
    than 4 GiB (the prefix is a `uint32`) -/
def okSV1 (lv : Nat × Nat) (r d : List Nat) : Bool :=
  (if lv.1 = 0 then r.isEmpty else decide (r.length < 2 ^ 32)) &&
  (if lv.2 = 0 then d.isEmpty else decide (d.length < 2 ^ 32))

def okSOf (v1 : Bool) (lv : Nat × Nat) : List Nat → List Nat → Bool :=
  if v1 then okSV1 lv else fun _ _ => true

/-- A column as parquet-go writes it: value codec `v`, dictionary page codec `d` (PLAIN),
    RLE_DICTIONARY indexes, RLE levels, any compressor; `v1` selects the data page v1 body framing
    (levels inside the compressed body, each behind a 4-byte length) or the v2 layout (levels
    stored uncompressed, lengths in the header). `lv` = the column's maximum levels. -/
def mkCodec (v d : ValCodec) (v1 : Bool) (lv : Nat × Nat) (comp : List Nat → List Nat)
    (decomp : List Nat → Option (List Nat)) : ColCodec (List Nat) (Page (List Nat)) where
  encL := lvEnc
  decL := lvDec
  okV := v.okV
  encV := v.enc
  decV := v.dec
  encD := d.enc
  decD := d.dec
  dictLimit := 2 ^ 32
  encI := rleIdxEnc
  decI := rleIdxDec
  comp := comp
  decomp := decomp
  pack := if v1 then packV1 lv comp else packSections false comp
  unpack := if v1 then unpackV1 lv decomp else unpackSections false decomp

/-- column `j` of schema `n` with spec `cols j` -/
def typedCodec (n : Dremel.Node) (cols : Nat → ColSpec) (v1 : Bool) (comp : List Nat → List Nat)
    (decomp : List Nat → Option (List Nat)) (j : Nat) : ColCodec (List Nat) (Page (List Nat)) :=
  mkCodec (cols j).val (plainOf (cols j).t) v1 ((levelsN n 0 0).getD j (0, 0)) comp decomp

end PqModel.FileModel
