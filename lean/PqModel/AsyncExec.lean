import PqModel.Async

/-! `next?` (executable, run by pqdriver) decides the `Step` relation; `validate` accepts exactly the
    paths of the transition system. -/
namespace PqModel.Async

theorem next?_sound {U g e g'} (h : next? U g e = some g') : Step U g e g' := by
  unfold next? at h
  split at h
  · split at h <;> simp at h; subst h; exact .readBegin ‹_›
  · split at h
    · split at h <;> simp at h; subst h; exact .handoff ‹_› ‹_›
    · simp at h
  · split at h
    · split at h <;> simp at h
      rename_i hc; obtain ⟨h1, h2, h3⟩ := hc; subst h h2 h3; exact .deliver ‹_› h1
    · simp at h
  · split at h
    · split at h <;> simp at h
      rename_i hc; obtain ⟨h1, h2⟩ := hc; subst h h2; exact .drop ‹_› h1
    · simp at h
  · split at h <;> simp at h; subst h; exact .readClosed ‹_›
  · split at h <;> simp at h
    rename_i hc; obtain ⟨h1, h2⟩ := hc; subst h
    obtain ⟨kv, hk⟩ := Option.isSome_iff_exists.mp h2
    exact .seekPollDrain h1 hk
  · split at h <;> simp at h
    rename_i hc; obtain ⟨h1, h2⟩ := hc; subst h; exact .seekPollBump h1 h2
  · split at h <;> simp at h
    rename_i hc; obtain ⟨h1, h2⟩ := hc; subst h h2; exact .seekSend h1
  · split at h <;> simp at h; subst h; exact .seekClosed ‹_›
  · split at h <;> simp at h; subst h; exact .closeBegin ‹_›
  · split at h
    · split at h <;> simp at h; subst h; exact .closeRecv ‹_› ‹_›
    · simp at h
  · split at h <;> simp at h
    rename_i hc; subst h; exact .closeFinal hc.1 hc.2
  · split at h <;> simp at h
    rename_i hc; subst h; exact .closeEnd hc.1 hc.2
  · split at h <;> simp at h; subst h; exact .closeAgain ‹_›
  · split at h <;> simp at h
    rename_i hc; subst h; exact .initPass hc.1 hc.2
  · split at h <;> simp at h
    rename_i hc; subst h; exact .initDone hc.1 hc.2
  · split at h <;> simp at h
    rename_i hc; subst h; exact .pollTake hc.1 hc.2
  · split at h <;> simp at h
    rename_i hc; subst h; exact .pollEmpty hc.1 hc.2
  · split at h
    · split at h <;> simp at h; subst h; exact .bodyCont ‹_› ‹_›
    · simp at h
  · split at h
    · split at h <;> simp at h
      rename_i hc; obtain ⟨h1, h2, h3⟩ := hc; subst h h2 h3; exact .bodyOffer h1 ‹_›
    · simp at h
  · split at h
    · split at h <;> simp at h; subst h; exact .selTake ‹_› ‹_›
    · simp at h
  · split at h
    · split at h <;> simp at h; subst h; exact .selDone ‹_› ‹_›
    · simp at h

theorem next?_complete {U g e g'} (h : Step U g e g') : next? U g e = some g' := by
  cases h <;> simp_all [next?]

theorem next?_iff {U g e g'} : next? U g e = some g' ↔ Step U g e g' :=
  ⟨next?_sound, next?_complete⟩

/-- the transition system is deterministic per label: an event log determines the path -/
theorem step_deterministic {U g e g1 g2} (h1 : Step U g e g1) (h2 : Step U g e g2) : g1 = g2 := by
  have a := next?_complete h1
  have b := next?_complete h2
  rw [a] at b; exact Option.some.inj b

/-- run an event log from `g`; `.error i` = index of the first event that is not enabled -/
def validateFrom (U : Under) (g : G) (es : List Ev) (i : Nat) : Except Nat G :=
  match es with
  | [] => .ok g
  | e :: rest =>
    match next? U g e with
    | some g' => validateFrom U g' rest (i + 1)
    | none => .error i

def validate (U : Under) (es : List Ev) : Except Nat G := validateFrom U init es 0

theorem validateFrom_ok_iff {U g es i g'} : validateFrom U g es i = .ok g' ↔ Path U g es g' := by
  induction es generalizing g i with
  | nil =>
    simp only [validateFrom]
    constructor
    · intro h; cases h; exact .nil
    · intro h; cases h; rfl
  | cons e rest ih =>
    simp only [validateFrom]
    constructor
    · intro h
      split at h
      · rename_i g1 hn; exact .cons (next?_sound hn) (ih.mp h)
      · cases h
    · intro h
      cases h with
      | cons s p => rw [next?_complete s]; exact ih.mpr p

/-- the validator accepts a log iff the log is a path of the transition system from `init` -/
theorem validate_ok_iff {U es g} : validate U es = .ok g ↔ Path U init es g := validateFrom_ok_iff

/-- a rejected log: the prefix before the reported index is a path, the event at the index is not
    enabled after it -/
theorem validateFrom_error {U g es i j} (h : validateFrom U g es i = .error j) :
    i ≤ j ∧ ∃ g1 e, Path U g (es.take (j - i)) g1 ∧ es[j - i]? = some e ∧ ∀ g2, ¬ Step U g1 e g2 := by
  induction es generalizing g i with
  | nil => simp [validateFrom] at h
  | cons e rest ih =>
    simp only [validateFrom] at h
    split at h
    · rename_i g1 hn
      obtain ⟨hle, g2, e2, hp, he, hno⟩ := ih h
      refine ⟨by omega, g2, e2, ?_, ?_, hno⟩
      · have : j - i = (j - (i + 1)) + 1 := by omega
        rw [this, List.take_succ_cons]; exact .cons (next?_sound hn) hp
      · have : j - i = (j - (i + 1)) + 1 := by omega
        rw [this]; simpa using he
    · rename_i hn
      cases h
      refine ⟨Nat.le_refl _, g, e, ?_, ?_, ?_⟩
      · simp; exact .nil
      · simp
      · intro g2 hs; rw [next?_complete hs] at hn; cases hn

/-- index of the first illegal event of a log, if any -/
def firstIllegal (U : Under) (es : List Ev) : Option Nat :=
  match validate U es with
  | .ok _ => none
  | .error i => some i

/-- accept the log and test the final state (for `decide` witnesses) -/
def check (U : Under) (es : List Ev) (p : G → Bool) : Bool :=
  match validate U es with
  | .ok g => p g
  | .error _ => false

theorem check_path {U es p} (h : check U es p = true) : ∃ g, Path U init es g ∧ p g = true := by
  unfold check at h
  split at h
  · rename_i g hv; exact ⟨g, validate_ok_iff.mp hv, h⟩
  · cases h

end PqModel.Async
