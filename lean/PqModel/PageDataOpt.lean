import PqModel.PageDataBuf

/-! # Optional columns: which values reach the typed buffer behind `Page().Data()` (C07)

MIRROR of `optionalColumnBuffer.WriteValues`, column_buffer_optional.go:169-215: the values are cut
into maximal runs of nulls (`definitionLevel != maxDefinitionLevel`: only `rows`/`definitionLevels`
are appended) and of non-nulls (`col.base.WriteValues(values[i:n])`, one call per run);
`optionalPage.Data()` (page_optional.go:45) is `page.base.Data()`, and `Reset` resets the base. -/
namespace PqModel.PageDataBuf
open PqModel.Bloom

/-- a value as `WriteValues` sees it: its definition level and (when non-null) the value -/
structure LValue where
  defLevel : Nat
  v : Value
  deriving Repr

/-- the run splitting as one pass: (base batches so far, current non-null run) -/
def optStep (maxDef : Nat) (st : List (List Value) × List Value) (x : LValue) : List (List Value) × List Value :=
  if x.defLevel = maxDef then (st.1, st.2 ++ [x.v])
  else if st.2.isEmpty then st else (st.1 ++ [st.2], [])

/-- the `base.WriteValues` calls one `optionalColumnBuffer.WriteValues(values)` makes, in order -/
def optBatches (maxDef : Nat) (xs : List LValue) : List (List Value) :=
  let st := xs.foldl (optStep maxDef) ([], [])
  if st.2.isEmpty then st.1 else st.1 ++ [st.2]

inductive OptOp where
  | write (xs : List LValue)
  | reset

/-- the history the base buffer sees -/
def optBaseOps (maxDef : Nat) : List OptOp → List BufOp
  | [] => []
  | .write xs :: ops => (optBatches maxDef xs).map BufOp.write ++ optBaseOps maxDef ops
  | .reset :: ops => BufOp.reset :: optBaseOps maxDef ops

/-- SPEC: the non-null values of a batch -/
def nonNull (maxDef : Nat) (xs : List LValue) : List Value := (xs.filter (fun x => x.defLevel = maxDef)).map (·.v)

/-- SPEC: the non-null values written since the last `Reset` -/
def optSpecStep (maxDef : Nat) (vs : List Value) : OptOp → List Value
  | .write xs => vs ++ nonNull maxDef xs
  | .reset => []

end PqModel.PageDataBuf
