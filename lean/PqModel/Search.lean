namespace PqModel.Search

/-! Spike: search.go binarySearch over a column index (fuel-based so `decide` can run it). -/

abbrev Bound := Option Int   -- none = null page bound

/-- `cmp(a, b) < 0` where `cmp` is `CompareNullsLast(typ.Compare)` (`nf = false`, what `Search` uses) or
    `CompareNullsFirst(typ.Compare)` (`nf = true`, the example of `Find`'s doc comment), compare.go:20-57;
    the probe is never null -/
def ltNL (nf : Bool) (a b : Bound) : Bool :=
  match a, b with
  | some x, some y => decide (x < y)
  | some _, none => !nf
  | none, some _ => nf
  | none, none => false

structure Index where
  mins : List Bound
  maxs : List Bound

def Index.n (ix : Index) : Nat := ix.mins.length
def minAt (ix : Index) (i : Nat) : Bound := ix.mins.getD i none
def maxAt (ix : Index) (i : Nat) : Bound := ix.maxs.getD i none

def contains (nf : Bool) (ix : Index) (i : Nat) (v : Int) : Bool :=
  !(ltNL nf (some v) (minAt ix i)) && !(ltNL nf (maxAt ix i) (some v))

def bloop (nf : Bool) (ix : Index) (v : Int) : Nat → Nat → Nat → Nat
  | 0, cur, _ => cur
  | fuel + 1, cur, top =>
    if cur < top then
      let next := (top - cur) / 2 + cur
      if ltNL nf (some v) (minAt ix next) then bloop nf ix v fuel cur next
      else if ltNL nf (maxAt ix next) (some v) then bloop nf ix v fuel (next + 1) top
      else bloop nf ix v fuel cur next
    else cur

def binarySearch (nf : Bool) (ix : Index) (v : Int) : Nat :=
  let c := bloop nf ix v ix.n 0 ix.n
  if c < ix.n then
    if ltNL nf (some v) (minAt ix c) || ltNL nf (maxAt ix c) (some v) then ix.n else c
  else c

-- the defect on the unchanged code (F1): ascending index with a null page in the middle
def f1 : Index := { mins := [some (-5), none, some 7], maxs := [some (-3), none, some 9] }
example : contains false f1 2 8 = true := by decide
example : binarySearch false f1 8 = 3 := by decide

/-! ### correctness without null pages -/

structure Ascending (ix : Index) (mn mx : Nat → Int) : Prop where
  len : ix.maxs.length = ix.mins.length
  mins : ∀ i, i < ix.n → minAt ix i = some (mn i)
  maxs : ∀ i, i < ix.n → maxAt ix i = some (mx i)
  smin : ∀ i j, i ≤ j → j < ix.n → mn i ≤ mn j
  smax : ∀ i j, i ≤ j → j < ix.n → mx i ≤ mx j
  le : ∀ i, i < ix.n → mn i ≤ mx i

theorem contains_iff (nf : Bool) {ix mn mx} (h : Ascending ix mn mx) {i : Nat} (hi : i < ix.n) (v : Int) :
    contains nf ix i v = true ↔ mn i ≤ v ∧ v ≤ mx i := by
  simp [contains, h.mins i hi, h.maxs i hi, ltNL]

/-- loop invariant: everything left of `cur` is strictly below `v`; `top` is either the end or a page with v ≤ max;
    everything from `top` on with v < min top is above. -/
theorem bloop_spec (nf : Bool) {ix mn mx} (h : Ascending ix mn mx) (v : Int) :
    ∀ (fuel cur top : Nat), top - cur ≤ fuel → cur ≤ top → top ≤ ix.n →
      (∀ i, i < cur → mx i < v) → (top < ix.n → v ≤ mx top) →
      let c := bloop nf ix v fuel cur top
      c ≤ ix.n ∧ (∀ i, i < c → mx i < v) ∧ (c < ix.n → v ≤ mx c)
  | 0, cur, top, hf, hct, htn, hl, hr => by
    have : cur = top := by omega
    subst this
    exact ⟨htn, hl, hr⟩
  | fuel + 1, cur, top, hf, hct, htn, hl, hr => by
    simp only [bloop]
    by_cases hlt : cur < top
    · simp only [hlt, if_true]
      have hnext : (top - cur) / 2 + cur < top := by omega
      have hnn : (top - cur) / 2 + cur < ix.n := by omega
      have hge : cur ≤ (top - cur) / 2 + cur := by omega
      generalize hN : (top - cur) / 2 + cur = next at *
      rw [h.mins next hnn, h.maxs next hnn]
      by_cases h1 : v < mn next
      · have e1 : ltNL nf (some v) (some (mn next)) = true := by simp [ltNL, h1]
        simp only [e1, if_true]
        have hmm : mn next ≤ mx next := h.le next hnn
        exact bloop_spec nf h v fuel cur next (by omega) hge (by omega) hl (fun _ => by omega)
      · have e1 : ltNL nf (some v) (some (mn next)) = false := by simp [ltNL]; omega
        simp only [e1]
        by_cases h2 : mx next < v
        · have e2 : ltNL nf (some (mx next)) (some v) = true := by simp [ltNL, h2]
          simp only [e2, if_true, Bool.false_eq_true, if_false]
          refine bloop_spec nf h v fuel (next + 1) top (by omega) (by omega) htn ?_ hr
          intro i hi
          have := h.smax i next (by omega) hnn
          omega
        · have e2 : ltNL nf (some (mx next)) (some v) = false := by simp [ltNL]; omega
          simp only [e2, Bool.false_eq_true, if_false]
          exact bloop_spec nf h v fuel cur next (by omega) hge (by omega) hl (fun _ => by omega)
    · simp only [hlt, if_false]
      have : cur = top := by omega
      subst this
      exact ⟨htn, hl, hr⟩


/-- C06 core (no null pages): binarySearch returns the first page whose bounds contain `v`, or `n`. -/
theorem binarySearch_first (nf : Bool) {ix mn mx} (h : Ascending ix mn mx) (v : Int) :
    binarySearch nf ix v ≤ ix.n ∧
    (binarySearch nf ix v < ix.n → contains nf ix (binarySearch nf ix v) v = true) ∧
    (∀ i, i < ix.n → contains nf ix i v = true → binarySearch nf ix v ≤ i) := by
  have hs := bloop_spec nf h v ix.n 0 ix.n (by omega) (by omega) (Nat.le_refl _) (by intro i hi; omega) (by intro hh; omega)
  simp only at hs
  generalize hc : bloop nf ix v ix.n 0 ix.n = c at hs
  obtain ⟨hcn, hleft, hright⟩ := hs
  unfold binarySearch
  simp only [hc]
  by_cases hlt : c < ix.n
  · simp only [hlt, if_true]
    rw [h.mins c hlt, h.maxs c hlt]
    have hvm := hright hlt
    by_cases h1 : v < mn c
    · have e1 : ltNL nf (some v) (some (mn c)) = true := by simp [ltNL, h1]
      simp only [e1, Bool.true_or, if_true]
      refine ⟨Nat.le_refl _, by omega, ?_⟩
      intro i hi hcon
      have := (contains_iff nf h hi v).mp hcon
      by_cases hic : i < c
      · have := hleft i hic; omega
      · have := h.smin c i (by omega) hi; omega
    · have e1 : ltNL nf (some v) (some (mn c)) = false := by simp [ltNL]; omega
      have e2 : ltNL nf (some (mx c)) (some v) = false := by simp [ltNL]; omega
      simp only [e1, e2, Bool.or_self, Bool.false_eq_true, if_false]
      refine ⟨hcn, fun _ => (contains_iff nf h hlt v).mpr ⟨by omega, hvm⟩, ?_⟩
      intro i hi hcon
      have := (contains_iff nf h hi v).mp hcon
      by_cases hic : i < c
      · have := hleft i hic; omega
      · omega
  · simp only [hlt, if_false]
    refine ⟨hcn, fun hh => hh.elim, ?_⟩
    intro i hi hcon
    have := (contains_iff nf h hi v).mp hcon
    have := hleft i (by omega)
    omega

#print axioms binarySearch_first


/-! ### linear search, dispatch, and the writer-side index (column_index.go, order_purego.go) -/

/-- `cmp(a, b) <= 0` under CompareNullsLast -/
def leNL (nf : Bool) (a b : Bound) : Bool := !(ltNL nf b a)

/-- search.go `linearSearch` -/
def lloop (nf : Bool) (ix : Index) (v : Int) : Nat → Nat → Nat
  | 0, i => i
  | fuel + 1, i =>
    if i < ix.n then
      if leNL nf (minAt ix i) (some v) && leNL nf (some v) (maxAt ix i) then i else lloop nf ix v fuel (i + 1)
    else i

def linearSearch (nf : Bool) (ix : Index) (v : Int) : Nat := lloop nf ix v ix.n 0

/-- search.go `Find` as it stands in /repo (see `hasNull` guard: fix of finding F1) -/
def hasNull (ix : Index) : Bool := ix.mins.any Option.isNone || ix.maxs.any Option.isNone

def find (nf : Bool) (asc : Bool) (ix : Index) (v : Int) : Nat :=
  if asc && !hasNull ix then binarySearch nf ix v else linearSearch nf ix v

/-- `Find` before the F1 repair: binary search whenever the index claims ascending order -/
def findUnguarded (nf : Bool) (asc : Bool) (ix : Index) (v : Int) : Nat :=
  if asc then binarySearch nf ix v else linearSearch nf ix v

/-- order_purego.go `orderOf`: +1 ascending, -1 descending, 0 otherwise (length ≤ 1 gives 0) -/
def isAsc : List Int → Bool
  | a :: b :: rest => decide (a ≤ b) && isAsc (b :: rest)
  | _ => true

def isDesc : List Int → Bool
  | a :: b :: rest => decide (a ≥ b) && isDesc (b :: rest)
  | _ => true

def orderOf (xs : List Int) : Int :=
  if xs.length > 1 then (if isAsc xs then 1 else if isDesc xs then -1 else 0) else 0

/-- boundaryOrderOf: 1 ascending, 2 descending, 0 unordered (format.BoundaryOrder values) -/
def boundaryOrder (mins maxs : List Int) : Nat :=
  let a := orderOf mins
  let b := orderOf maxs
  if a = b then (if a > 0 then 1 else if a < 0 then 2 else 0) else 0

/-- what the typed column indexers store: null pages contribute the zero value -/
def stored (z : Int) (b : Bound) : Int := b.getD z

/-- `z` is the rank of the type's zero value (0 for numeric columns, below every rank for byte arrays: the empty string) -/
def writerOrder (z : Int) (ix : Index) : Nat := boundaryOrder (ix.mins.map (stored z)) (ix.maxs.map (stored z))

/-- the same with separate placeholders for the two lists: the byte-array indexers TRUNCATE the placeholder of
    a null page with the bounds (column_index.go:534-551, 590-607), and truncating a max increments it, so a null
    page of a FIXED_LEN_BYTE_ARRAY(n) column with a size limit below n stores 00..00 as min and 00..01 as max -/
def writerOrder2 (zn zx : Int) (ix : Index) : Nat := boundaryOrder (ix.mins.map (stored zn)) (ix.maxs.map (stored zx))

theorem writerOrder_eq (z : Int) (ix : Index) : writerOrder z ix = writerOrder2 z z ix := rfl

/-! ### linear search is correct for every index; the dispatch never misses -/

theorem lloop_test_eq (nf : Bool) (ix : Index) (v : Int) (i : Nat) :
    (leNL nf (minAt ix i) (some v) && leNL nf (some v) (maxAt ix i)) = contains nf ix i v := rfl

/-- `lloop` started at `i` returns the first page at or after `i` whose bounds contain `v`, else `n` -/
theorem lloop_spec (nf : Bool) (ix : Index) (v : Int) : ∀ (fuel i : Nat), ix.n - i ≤ fuel → i ≤ ix.n →
    i ≤ lloop nf ix v fuel i ∧ lloop nf ix v fuel i ≤ ix.n ∧
    (lloop nf ix v fuel i < ix.n → contains nf ix (lloop nf ix v fuel i) v = true) ∧
    (∀ j, i ≤ j → j < lloop nf ix v fuel i → contains nf ix j v = false)
  | 0, i, hf, hi => by
    have : i = ix.n := by omega
    subst this
    simp only [lloop]
    exact ⟨Nat.le_refl _, Nat.le_refl _, fun h => absurd h (Nat.lt_irrefl _), fun j h1 h2 => by omega⟩
  | fuel + 1, i, hf, hi => by
    simp only [lloop]
    by_cases hlt : i < ix.n
    · rw [if_pos hlt, lloop_test_eq]
      by_cases hc : contains nf ix i v = true
      · rw [if_pos hc]
        exact ⟨Nat.le_refl _, hi, fun _ => hc, fun j h1 h2 => by omega⟩
      · rw [if_neg hc]
        have hc' : contains nf ix i v = false := by simpa using hc
        obtain ⟨h1, h2, h3, h4⟩ := lloop_spec nf ix v fuel (i + 1) (by omega) (by omega)
        refine ⟨by omega, h2, h3, ?_⟩
        intro j hj1 hj2
        by_cases hji : j = i
        · subst hji; exact hc'
        · exact h4 j (by omega) hj2
    · rw [if_neg hlt]
      exact ⟨Nat.le_refl _, hi, fun h => absurd h hlt, fun j h1 h2 => by omega⟩

theorem linearSearch_first (nf : Bool) (ix : Index) (v : Int) :
    linearSearch nf ix v ≤ ix.n ∧
    (linearSearch nf ix v < ix.n → contains nf ix (linearSearch nf ix v) v = true) ∧
    (∀ i, i < ix.n → contains nf ix i v = true → linearSearch nf ix v ≤ i) := by
  obtain ⟨_, h2, h3, h4⟩ := lloop_spec nf ix v ix.n 0 (by omega) (by omega)
  refine ⟨h2, h3, ?_⟩
  intro i hi hc
  unfold linearSearch
  cases Nat.lt_or_ge i (lloop nf ix v ix.n 0) with
  | inl hlt => have := h4 i (by omega) hlt; simp [this] at hc
  | inr hge => exact hge

/-- adjacent-pair ascending check ⇒ sorted by index -/
theorem isAsc_getD : ∀ (xs : List Int), isAsc xs = true → ∀ i j, i ≤ j → j < xs.length →
    xs.getD i 0 ≤ xs.getD j 0
  | [], _, _, _, _, hj => by simp at hj
  | [a], _, i, j, hij, hj => by
    have : j = 0 := by simpa using hj
    subst this
    have : i = 0 := by omega
    subst this
    exact Int.le_refl _
  | a :: b :: rest, h, i, j, hij, hj => by
    simp only [isAsc, Bool.and_eq_true, decide_eq_true_eq] at h
    have ih := isAsc_getD (b :: rest) h.2
    cases j with
    | zero =>
      have : i = 0 := by omega
      subst this; exact Int.le_refl _
    | succ j' =>
      cases i with
      | zero =>
        have h0 := ih 0 j' (by omega) (by simpa using hj)
        simp only [List.getD_cons_zero, List.getD_cons_succ] at h0 ⊢
        omega
      | succ i' =>
        have := ih i' j' (by omega) (by simpa using hj)
        simpa only [List.getD_cons_succ] using this

theorem any_isNone_false_getD : ∀ (l : List Bound) (i : Nat), l.any Option.isNone = false → i < l.length →
    ∃ x, l.getD i none = some x
  | [], _, _, hi => by simp at hi
  | a :: t, i, h, hi => by
    simp only [List.any_cons, Bool.or_eq_false_iff] at h
    cases i with
    | zero =>
      cases a with
      | none => simp at h
      | some x => exact ⟨x, rfl⟩
    | succ i' =>
      simpa only [List.getD_cons_succ] using any_isNone_false_getD t i' h.2 (by simpa using hi)

theorem getD_map_stored (z : Int) : ∀ (l : List Bound) (i : Nat) (x : Int), l.getD i none = some x →
    (l.map (stored z)).getD i 0 = x
  | [], _, _, h => by simp at h
  | a :: t, 0, x, h => by
    simp only [List.getD_cons_zero] at h
    simp [h, stored]
  | a :: t, i + 1, x, h => by
    simp only [List.getD_cons_succ] at h
    simpa only [List.map_cons, List.getD_cons_succ] using getD_map_stored z t i x h

theorem orderOf_pos {xs : List Int} (h : orderOf xs > 0) : isAsc xs = true := by
  unfold orderOf at h
  split at h
  · split at h
    · assumption
    · split at h <;> omega
  · omega

/-- adjacent-pair ascending stored bounds, no null bound, `min ≤ max` per page ⇒ `Ascending` -/
theorem ascending_of_isAsc (zn zx : Int) (ix : Index) (hlen : ix.maxs.length = ix.mins.length)
    (hmn : isAsc (ix.mins.map (stored zn)) = true) (hmx : isAsc (ix.maxs.map (stored zx)) = true)
    (hnn : hasNull ix = false)
    (hle : ∀ i a b, i < ix.n → minAt ix i = some a → maxAt ix i = some b → a ≤ b) :
    ∃ mn mx, Ascending ix mn mx := by
  simp only [hasNull, Bool.or_eq_false_iff] at hnn
  have hmin : ∀ i, i < ix.n → ∃ x, minAt ix i = some x := fun i hi =>
    any_isNone_false_getD ix.mins i hnn.1 hi
  have hmax : ∀ i, i < ix.n → ∃ x, maxAt ix i = some x := fun i hi =>
    any_isNone_false_getD ix.maxs i hnn.2 (by simp only [Index.n] at hi; omega)
  refine ⟨fun i => (minAt ix i).getD 0, fun i => (maxAt ix i).getD 0, ?_⟩
  have ha1 := isAsc_getD _ hmn
  have ha2 := isAsc_getD _ hmx
  exact {
    len := hlen
    mins := fun i hi => by obtain ⟨x, hx⟩ := hmin i hi; simp [hx]
    maxs := fun i hi => by obtain ⟨x, hx⟩ := hmax i hi; simp [hx]
    smin := fun i j hij hj => by
      obtain ⟨x, hx⟩ := hmin i (by omega)
      obtain ⟨y, hy⟩ := hmin j hj
      have := ha1 i j hij (by simpa [Index.n] using hj)
      rw [getD_map_stored zn ix.mins i x hx, getD_map_stored zn ix.mins j y hy] at this
      simpa [hx, hy] using this
    smax := fun i j hij hj => by
      obtain ⟨x, hx⟩ := hmax i (by omega)
      obtain ⟨y, hy⟩ := hmax j hj
      have := ha2 i j hij (by simp only [Index.n] at hj; simp; omega)
      rw [getD_map_stored zx ix.maxs i x hx, getD_map_stored zx ix.maxs j y hy] at this
      simpa [hx, hy] using this
    le := fun i hi => by
      obtain ⟨x, hx⟩ := hmin i hi
      obtain ⟨y, hy⟩ := hmax i hi
      have := hle i x y hi hx hy
      simpa [hx, hy] using this }

/-- flagged ASCENDING by the writer ⇒ both stored bound lists pass the adjacent-pair check and there
    are at least two pages (`orderOf` answers 0 for fewer) -/
theorem writerOrder2_one (zn zx : Int) (ix : Index) (hw : writerOrder2 zn zx ix = 1) :
    isAsc (ix.mins.map (stored zn)) = true ∧ isAsc (ix.maxs.map (stored zx)) = true ∧ 1 < ix.n := by
  have hpos : orderOf (ix.mins.map (stored zn)) > 0 ∧ orderOf (ix.maxs.map (stored zx)) > 0 := by
    simp only [writerOrder2, boundaryOrder] at hw
    split at hw
    · rename_i heq
      split at hw
      · rename_i hp; exact ⟨hp, by omega⟩
      · split at hw <;> simp at hw
    · simp at hw
  refine ⟨orderOf_pos hpos.1, orderOf_pos hpos.2, ?_⟩
  have h := hpos.1
  unfold orderOf at h
  split at h
  · rename_i hl; simpa [Index.n] using hl
  · omega

theorem writerOrder_one (z : Int) (ix : Index) (hw : writerOrder z ix = 1) :
    isAsc (ix.mins.map (stored z)) = true ∧ isAsc (ix.maxs.map (stored z)) = true ∧ 1 < ix.n :=
  writerOrder2_one z z ix hw

theorem writerOrder2_ascending (zn zx : Int) (ix : Index) (hlen : ix.maxs.length = ix.mins.length)
    (hw : writerOrder2 zn zx ix = 1) (hnn : hasNull ix = false)
    (hle : ∀ i a b, i < ix.n → minAt ix i = some a → maxAt ix i = some b → a ≤ b) :
    ∃ mn mx, Ascending ix mn mx :=
  ascending_of_isAsc zn zx ix hlen (writerOrder2_one zn zx ix hw).1 (writerOrder2_one zn zx ix hw).2.1 hnn hle

/-- The flag the WRITER computes is truthful: if the column index it builds (null pages stored as the
    zero value `z`) is flagged ASCENDING, has no null page, and every page has `min ≤ max`, then it is
    `Ascending` in the sense `binarySearch_first` needs. -/
theorem writerOrder_ascending (z : Int) (ix : Index) (hlen : ix.maxs.length = ix.mins.length)
    (hw : writerOrder z ix = 1) (hnn : hasNull ix = false)
    (hle : ∀ i a b, i < ix.n → minAt ix i = some a → maxAt ix i = some b → a ≤ b) :
    ∃ mn mx, Ascending ix mn mx :=
  writerOrder2_ascending z z ix hlen hw hnn hle

end PqModel.Search
