/-! # C11 — the decision cascade of `Writer.WriteRowGroup` (copy / re-encode fast paths)

MIRROR (transliteration of the Go code as written; every mirror function carries its Go range,
  line numbers of the repaired tree):
  `chunkTransparent`, `segmentsOf`, `encodingStatsMatch`, `bloomSize`, `bloomFilterIsCopyable`,
  `columnChunkIsCopyable`, `copyable`, `columnOrientedChunk`, `columnOrientedRG`, `reencodable`,
  `splittable`, `flush`/`packLoop`/`pack`, `choosePath`, `plan`, `copied`.
  The mirror exists in two variants (`Variant.asIs` = the library before the F9 repair,
  `Variant.repaired` = with `statisticsSettingsMatch`); `currentMirror` says which one the
  library under test implements (the driver answers with that one).
SPEC (written from the property statement / the Parquet metadata only):
  `Conforms` (`ConformsCore` ∧ `ConformsStats`), `RG.chunkRowsOf`, `RG.rowsOf` on leaves, `WellFormed`,
  `Step.out`.

Enumerations are the thrift codes of format/parquet.go:
  physical type 0..7 (6 = BYTE_ARRAY, 7 = FIXED_LEN_BYTE_ARRAY); page type 0 = DATA_PAGE,
  1 = INDEX_PAGE, 2 = DICTIONARY_PAGE, 3 = DATA_PAGE_V2; encoding 0 = PLAIN, 8 = RLE_DICTIONARY;
  codec 0 = UNCOMPRESSED. -/
namespace PqModel.CopyPath

/-- Version of the library the mirror transliterates: `asIs` = before the repairs reported under
    C11 (F9: copy predicate ignores the statistics settings; multi row group reads wrapper
    children's chunks), `repaired` = with both `fix:` commits. -/
inductive Variant | asIs | repaired
  deriving DecidableEq, Repr

/-- which variant the library under test implements (switched together with the `fix:` commits) -/
def currentMirror : Variant := .repaired

/-! ## Source side: what the predicates read from one source column chunk -/

/-- one `format.PageEncodingStats` entry of the chunk metadata -/
structure EncStat where
  pageType : Nat
  encoding : Nat
  count    : Nat
  deriving DecidableEq, Repr

/-- decoded `format.BloomFilterHeader` of the source chunk -/
structure BloomHeader where
  numBytes     : Nat
  splitBlock   : Bool   -- isSplitBlockAlgorithm
  xxhash       : Bool   -- isXxHash
  uncompressed : Bool   -- header.Compression is BloomFilterUncompressed
  deriving DecidableEq, Repr

/-- one data page of the chunk as it is stored: its header and its column-index entry -/
structure PageInfo where
  ptype     : Nat    -- header type (0 or 3)
  encoding  : Nat    -- header encoding
  hasStats  : Bool   -- the page header carries a non-empty Statistics struct
  nullPage  : Bool   -- column index null_pages[i]
  nullCount : Nat    -- column index null_counts[i]
  minLen    : Nat    -- len(column index min_values[i])
  maxLen    : Nat    -- len(column index max_values[i])
  deriving DecidableEq, Repr

structure ChunkMeta where
  type              : Nat
  codec             : Nat
  encStats          : List EncStat
  columnIndexOffset : Nat
  offsetIndexOffset : Nat
  bloomOffset       : Nat
  bloomLength       : Int                 -- `BloomFilterLength` (int32, may be ≤ 0 / absent)
  bloomHeader       : Option BloomHeader  -- none: header cannot be decoded
  encrypted         : Bool                -- src.decryptionKey != nil
  numValues         : Nat
  nullCount         : Nat                 -- chunk Statistics.NullCount
  rows              : Nat                 -- rows of the source row group
  hasDictPage       : Bool                -- the chunk stores a dictionary page
  pages             : List PageInfo       -- the data pages
  hasMinMax         : Bool                -- chunk Statistics.MinValue / MaxValue non-empty
  hasDeprecated     : Bool                -- chunk Statistics.Min / Max (deprecated) non-empty
  deriving DecidableEq, Repr

/-- `src.chunk.ColumnIndexOffset != 0`: the chunk has a column index (a column written with
    `SkipPageBounds` has none) -/
def ChunkMeta.hasColumnIndex (c : ChunkMeta) : Bool := c.columnIndexOffset != 0

/-- dynamic type of a `ColumnChunk` (the type switch of `columnOrientedChunk`) -/
inductive Chunk where
  | file (m : ChunkMeta)   -- *FileColumnChunk
  | buffer                 -- a ColumnBuffer
  | range (base : Chunk)   -- *rangeColumnChunk
  | other                  -- multiColumnChunk, convertedColumnChunk, missingColumnChunk, foreign ...
  deriving DecidableEq, Repr

/-! ## Destination side -/

structure DstCol where
  kind             : Nat          -- format.Type(dst.columnType.Kind())
  codec            : Nat          -- dst.compression.CompressionCodec()
  encoding         : Nat          -- dst.encoding.Encoding()
  dict             : Bool         -- dst.dictionary != nil
  pageType         : Nat          -- dst.header.page.Type
  filterBpv        : Option Nat   -- dst.columnFilter (split block filter, bits per value)
  filterCompressed : Bool         -- dst.bloomFilterCompression is a real codec
  encrypted        : Bool         -- dst.encKey != nil
  pageStats        : Bool         -- writePageStats  (DataPageStatistics ∧ ¬SkipPageStatistics)
  pageBounds       : Bool         -- writePageBounds (¬SkipPageBounds)
  deprecatedStats  : Bool         -- writeDeprecatedStatistics
  indexLimit       : Nat          -- size limit of dst.columnIndex (byte array / fixed-len indexers;
                                  -- 0 = the column's indexer does not truncate)
  deriving DecidableEq, Repr

structure DstCfg where
  disableCopy     : Bool   -- disableWriteCopy
  disableReencode : Bool   -- disableWriteReencode
  encrypting      : Bool   -- w.writer.encryption != nil
  maxRows         : Nat    -- w.writer.currentRowGroup.maxRows
  cols            : List DstCol
  deriving DecidableEq, Repr


/-! ## Row groups -/

/-- dynamic type of a non-segmented `RowGroup` -/
inductive LeafKind where
  | file          -- *FileRowGroup                  (chunkTransparentMarker)
  | buffer        -- *Buffer / *GenericBuffer[T]    (chunkTransparentMarker)
  | range         -- *rowRangeRowGroup              (chunkTransparentMarker)
  | merged        -- *mergedRowGroup: implements orderedRowGroupSegments, returns nil
  | sortedDedup   -- *sortedSegmentRowGroup with dropDuplicatedRows: returns nil
  | dedup         -- *dedupRowGroup
  | converted     -- *convertedRowGroup
  | foreign       -- a RowGroup implemented outside the package
  | other         -- emptyRowGroup, RowBuffer, ...
  deriving DecidableEq, Repr

inductive SegKind where
  | multi    -- *multiRowGroup: Rows() reads the concatenated column chunks
  | sorted   -- *sortedSegmentRowGroup without dropDuplicatedRows: Rows() concatenates segment Rows()
  deriving DecidableEq, Repr

/-- A row group as the writer sees it. `chunkRows` is what reading the column chunks in order
    yields, `rows` is what `Rows()` yields (they may differ for wrappers). -/
inductive RG (α : Type) where
  | leaf (kind : LeafKind) (numRows : Nat) (chunks : List Chunk) (chunkRows rows : List α)
  | seg  (kind : SegKind) (children : List (RG α))

variable {α : Type}

/-- writer_copy.go:148-183 `chunkTransparentMarker` implementers (buffer.go:149,447, file.go:770,
    row_range.go:69) -/
def LeafKind.marker : LeafKind → Bool
  | .file | .buffer | .range => true
  | _ => false

/-- writer_copy.go:180-183 `chunkTransparentRowGroup` -/
def chunkTransparent : RG α → Bool
  | .leaf k _ _ _ _ => k.marker
  | .seg _ _ => false

/-- writer_copy.go:68-70 + merge.go:322, merge.go:358-363, multi_row_group.go:170:
    `rowGroup.(orderedRowGroupSegments)` then `rowGroupSegments()`; `none` = not implemented -/
def segmentsOf : RG α → Option (List (RG α))
  | .seg _ cs => some cs
  | .leaf .merged _ _ _ _ => some []
  | .leaf .sortedDedup _ _ _ _ => some []
  | .leaf _ _ _ _ _ => none

mutual
/-- `NumRows()` -/
def RG.numRows : RG α → Nat
  | .leaf _ n _ _ _ => n
  | .seg _ cs => numRowsL cs
def numRowsL : List (RG α) → Nat
  | [] => 0
  | c :: cs => c.numRows + numRowsL cs
end

/-- `ColumnChunks()` (a segmented row group exposes multiColumnChunks: `other`) -/
def RG.chunks : RG α → List Chunk
  | .leaf _ _ cs _ _ => cs
  | .seg _ _ => []

mutual
/-- SPEC: the rows obtained by reading the column chunks in order -/
def RG.chunkRowsOf : RG α → List α
  | .leaf _ _ _ cr _ => cr
  | .seg _ cs => chunkRowsL cs
def chunkRowsL : List (RG α) → List α
  | [] => []
  | c :: cs => c.chunkRowsOf ++ chunkRowsL cs
end

mutual
/-- `rowGroupReadsChunksInOrder` (multi_row_group.go:152-165, added by the multi-row-group repair): the row
    group types whose `Rows()` is their column chunks read in order -/
def readsInOrder : RG α → Bool
  | .leaf k _ _ _ _ => k.marker
  | .seg .multi cs => readsInOrderL cs
  | .seg .sorted _ => false
def readsInOrderL : List (RG α) → Bool
  | [] => true
  | c :: cs => readsInOrder c && readsInOrderL cs
end

mutual
/-- The rows `Rows()` yields. Leaves: SPEC (whatever the type implements). Segmented row groups:
    MIRROR of merge.go:365-383 (`sortedSegmentRowGroup`: concatenation of the segments' `Rows()`)
    and of `multiRowGroup.Rows()` (multi_row_group.go:127-147): before the repair always
    `NewRowGroupRowReader(m)`, i.e. the concatenated column chunks; after it the children's own
    `Rows()` unless every child reads its chunks in order. -/
def RG.rowsOf (v : Variant) : RG α → List α
  | .leaf _ _ _ _ r => r
  | .seg .multi cs =>
    match v with
    | .asIs => chunkRowsL cs
    | .repaired => if readsInOrderL cs then chunkRowsL cs else rowsL v cs
  | .seg .sorted cs => rowsL v cs
def rowsL (v : Variant) : List (RG α) → List α
  | [] => []
  | c :: cs => c.rowsOf v ++ rowsL v cs
end

mutual
def RG.depth : RG α → Nat
  | .leaf _ _ _ _ _ => 0
  | .seg _ cs => depthL cs + 1
def depthL : List (RG α) → Nat
  | [] => 0
  | c :: cs => max c.depth (depthL cs)
end

/-! ## MIRROR: copy eligibility (writer_copy.go) -/

/-- writer_copy.go:377-410 `encodingStatsMatch` loop; `saw` = sawDict -/
def encodingStatsLoop (d : DstCol) : List EncStat → Bool → Bool
  | [], saw => d.dict == saw
  | s :: rest, saw =>
    if s.pageType = 2 then
      if !d.dict then false else encodingStatsLoop d rest true
    else if s.pageType = 0 ∨ s.pageType = 3 then
      if s.pageType ≠ d.pageType then false
      else if s.encoding ≠ d.encoding then false
      else encodingStatsLoop d rest saw
    else false

/-- writer_copy.go:377-410 -/
def encodingStatsMatch (stats : List EncStat) (d : DstCol) : Bool :=
  if stats.isEmpty then false else encodingStatsLoop d stats false

/-- bloom.go:205-207 + bloom/filter.go:35-39 `splitBlockFilter.Size` (BlockSize = 32); the Go
    arithmetic is on `uint`, modelled without wraparound -/
def bloomSize (bitsPerValue numValues : Nat) : Nat :=
  32 * ((((numValues * bitsPerValue) + 7) / 8 + 31) / 32)

/-- writer_copy.go:425-450 `bloomFilterIsCopyable` (called only with a configured filter) -/
def bloomFilterIsCopyable (d : DstCol) (bpv : Nat) (c : ChunkMeta) : Bool :=
  if c.bloomOffset = 0 ∨ c.bloomLength ≤ 0 then false
  else if d.filterCompressed then false
  else match c.bloomHeader with
    | none => false
    | some h =>
      if !h.splitBlock || !h.xxhash then false
      else if !h.uncompressed then false
      else h.numBytes == bloomSize bpv c.numValues

def PageInfo.trivialStats (p : PageInfo) : Bool :=
  !p.nullPage && p.nullCount == 0 && p.minLen == 0 && p.maxLen == 0

/-- REPAIRED variant only — writer_copy.go:263-373 `statisticsSettingsMatch` and
    `columnIndexSizeLimitOf` (added by the F9 repair; `d.indexLimit` is the latter's result): the
    destination's statistics settings must be seen to hold on the source chunk. -/
def statisticsSettingsMatch (d : DstCol) (c : ChunkMeta) : Bool :=
  -- column index and chunk-level bounds (SkipPageBounds)
  if d.pageBounds != c.hasColumnIndex then false
  else if !d.pageBounds && c.hasMinMax then false
  else if d.pageBounds && !c.hasMinMax && decide (c.numValues > c.nullCount) then false
  -- deprecated Min/Max (DeprecatedDataPageStatistics)
  else if !d.deprecatedStats && c.hasDeprecated then false
  else if d.deprecatedStats && c.hasMinMax && !c.hasDeprecated then false
  -- column index value lengths (ColumnIndexSizeLimit)
  else if decide (d.indexLimit > 0) &&
      c.pages.any (fun p => decide (p.minLen > d.indexLimit) || decide (p.maxLen > d.indexLimit)) then false
  -- page header statistics (DataPageStatistics / SkipPageStatistics)
  else if c.pages.any (fun p => if d.pageStats then !p.hasStats && !p.trivialStats else p.hasStats) then false
  else true

/-- writer_copy.go:202-247 `columnChunkIsCopyable` (lines 240-245 exist in the repaired variant only) -/
def columnChunkIsCopyable (v : Variant) (d : DstCol) (c : ChunkMeta) : Bool :=
  if c.encrypted then false
  else if d.encrypted then false
  else if c.type ≠ d.kind then false
  else if c.codec ≠ d.codec then false
  else if (match d.filterBpv with | some bpv => !bloomFilterIsCopyable d bpv c | none => false) then false
  else if c.columnIndexOffset = 0 ∨ c.offsetIndexOffset = 0 then false
  else if !encodingStatsMatch c.encStats d then false
  else match v with
    | .asIs => true
    | .repaired => statisticsSettingsMatch d c

/-- writer_copy.go:134-145 the per-column loop of `copyableColumnChunks` -/
def allCopyable (v : Variant) : List DstCol → List Chunk → Bool
  | d :: ds, .file m :: cs => columnChunkIsCopyable v d m && allCopyable v ds cs
  | [], [] => true
  | _, _ => false

/-- writer_copy.go:106-146 `copyableColumnChunks` -/
def copyable (v : Variant) (g : DstCfg) (rg : RG α) : Bool :=
  if g.disableCopy then false
  else if g.encrypting then false
  else if rg.numRows > g.maxRows then false
  else if !chunkTransparent rg then false
  else if rg.chunks.length ≠ g.cols.length then false
  else allCopyable v g.cols rg.chunks

/-! ## MIRROR: re-encode eligibility and segment packing (writer_reencode.go) -/

/-- writer_reencode.go:68-79 `columnOrientedChunk` -/
def columnOrientedChunk : Chunk → Bool
  | .file _ => true
  | .buffer => true
  | .range base => columnOrientedChunk base
  | .other => false

/-- writer_reencode.go:45-63 `columnOrientedRowGroup` -/
def columnOrientedRG (g : DstCfg) (rg : RG α) : Bool :=
  if !chunkTransparent rg then false
  else if rg.chunks.length = 0 ∨ rg.chunks.length ≠ g.cols.length then false
  else if !rg.chunks.all columnOrientedChunk then false
  else if rg.numRows > g.maxRows then false
  else true

/-- writer_reencode.go:83-88 `reencodableRowGroup` -/
def reencodable (g : DstCfg) (rg : RG α) : Bool :=
  if g.disableReencode then false else columnOrientedRG g rg

/-- writer_copy.go:79-100 `splittableCopyableSegments` -/
def splittable (v : Variant) (g : DstCfg) (rg : RG α) : Option (List (RG α)) :=
  if g.disableCopy && g.disableReencode then none
  else match segmentsOf rg with
    | none => none
    | some segs =>
      if segs.length ≤ 1 then none
      else if segs.any (fun s => copyable v g s || reencodable g s) then some segs
      else none

/-- one `flushPending` / individual write of `writeSegmentsPacked` -/
inductive Batch (α : Type) where
  | single (rg : RG α)          -- `w.WriteRowGroup(seg)`
  | packed (rgs : List (RG α))  -- `w.packSegmentsByColumn(pending, …)`

def Batch.members : Batch α → List (RG α)
  | .single rg => [rg]
  | .packed rgs => rgs

/-- writer_reencode.go:107-124 `flushPending` -/
def flush : List (RG α) → List (Batch α)
  | [] => []
  | [x] => [.single x]
  | xs => [.packed xs]

/-- writer_reencode.go:126-149 the loop of `writeSegmentsPacked` (state: pending, pendingRows) -/
def packLoop (g : DstCfg) : List (RG α) → List (RG α) → Nat → List (Batch α)
  | [], pending, _ => flush pending
  | s :: rest, pending, pr =>
    if columnOrientedRG g s then
      if pr > 0 ∧ pr + s.numRows > g.maxRows then
        flush pending ++ packLoop g rest [s] s.numRows
      else packLoop g rest (pending ++ [s]) (pr + s.numRows)
    else flush pending ++ .single s :: packLoop g rest [] 0

/-- writer_reencode.go:98-150 `writeSegmentsPacked` -/
def pack (g : DstCfg) (segs : List (RG α)) : List (Batch α) := packLoop g segs [] 0

/-! ## MIRROR: `WriteRowGroup` (writer.go:549-597) -/

inductive Path | segments | verbatim | reencode | rows
  deriving DecidableEq, Repr

/-- writer.go:564-596: which branch one call of `WriteRowGroup` takes -/
def choosePathV (v : Variant) (g : DstCfg) (rg : RG α) : Path :=
  match splittable v g rg with
  | some _ => .segments
  | none =>
    if copyable v g rg then .verbatim
    else if reencodable g rg then .reencode
    else .rows

/-- the cascade of the library under test -/
def choosePath (g : DstCfg) (rg : RG α) : Path := choosePathV currentMirror g rg

/-- what ends up in the file, one entry per output write -/
inductive Step (α : Type) where
  | verbatim (rg : RG α)          -- chunks spliced (loadCopiedChunks)
  | reencode (rgs : List (RG α))  -- chunks re-encoded column by column (L3 / packSegmentsByColumn)
  | rows (rg : RG α)              -- CopyRows from `Rows()`

/-- writer.go:549-597 with the recursion of writer_reencode.go:116,140 unrolled; `fuel` bounds
    the nesting of segmented row groups (`RG.depth`); without fuel the row path is the answer. -/
def plan (v : Variant) (g : DstCfg) : Nat → RG α → List (Step α)
  | 0, rg => [.rows rg]
  | fuel + 1, rg =>
    match splittable v g rg with
    | some segs =>
      (pack g segs).flatMap fun b =>
        match b with
        | .single s => plan v g fuel s
        | .packed ss => [.reencode ss]
    | none =>
      if copyable v g rg then [.verbatim rg]
      else if reencodable g rg then [.reencode [rg]]
      else [.rows rg]

/-- SPEC: the rows a step stores -/
def Step.out (v : Variant) : Step α → List α
  | .verbatim rg => rg.chunkRowsOf
  | .reencode rgs => chunkRowsL rgs
  | .rows rg => rg.rowsOf v

def outputOf (v : Variant) (steps : List (Step α)) : List α := steps.flatMap (Step.out v)

/-- copyPathCounter increments (writer_copy.go:529: one per copied column chunk) -/
def copyCount (steps : List (Step α)) : Nat :=
  (steps.map fun s => match s with | .verbatim rg => rg.chunks.length | _ => 0).sum

/-- reencodePathCounter increments (writer_reencode.go:168,204: one per re-encoded output row group) -/
def reencodeCount (steps : List (Step α)) : Nat :=
  (steps.map fun s => match s with | .reencode _ => 1 | _ => 0).sum

/-- writer_copy.go:517-523: the bloom filter is carried over only when the destination column is
    configured with one; everything else of the chunk is spliced / copied as is. -/
def copied (d : DstCol) (c : ChunkMeta) : ChunkMeta :=
  match d.filterBpv with
  | some _ => c
  | none => { c with bloomOffset := 0, bloomLength := 0, bloomHeader := none }

/-! ## SPEC: what a chunk written by the row path under `dst` looks like (metadata level) -/

/-- The source's `EncodingStats` describe its pages (a property of every file written by a
    conforming writer; the copy predicate relies on it). -/
def EncStatsFaithful (c : ChunkMeta) : Prop :=
  (∀ p ∈ c.pages, p.ptype ≠ 2 ∧ ∃ s ∈ c.encStats, s.pageType = p.ptype ∧ s.encoding = p.encoding) ∧
  (c.hasDictPage = true ↔ ∃ s ∈ c.encStats, s.pageType = 2)

/-- the bloom filter section really is what offset/length/header say (present iff offset ≠ 0) -/
def BloomFaithful (c : ChunkMeta) : Prop :=
  c.bloomOffset = 0 → c.bloomHeader = none

structure ConformsCore (g : DstCfg) (d : DstCol) (c : ChunkMeta) : Prop where
  type      : c.type = d.kind
  codec     : c.codec = d.codec
  plaintext : c.encrypted = false ∧ g.encrypting = false ∧ d.encrypted = false
  pages     : ∀ p ∈ c.pages, p.ptype = d.pageType ∧
                (p.encoding = d.encoding ∨ (d.dict = true ∧ p.encoding = 0))
  dict      : c.hasDictPage = d.dict
  index     : c.offsetIndexOffset ≠ 0
  bloom     : match d.filterBpv with
              | none => c.bloomHeader = none
              | some bpv => ∃ h, c.bloomHeader = some h ∧ h.splitBlock = true ∧ h.xxhash = true ∧
                  h.uncompressed = !d.filterCompressed ∧
                  (h.numBytes = bloomSize bpv c.numValues ∨
                    (d.dict = true ∧ ∃ n, n ≤ c.numValues ∧ h.numBytes = bloomSize bpv n))
  rows      : c.rows ≤ g.maxRows

structure ConformsStats (d : DstCol) (c : ChunkMeta) : Prop where
  pageStats  : ∀ p ∈ c.pages, if d.pageStats then p.hasStats = true ∨ p.trivialStats = true
                 else p.hasStats = false
  indexLimit : d.indexLimit > 0 →
                 ∀ p ∈ c.pages, p.minLen ≤ d.indexLimit ∧ p.maxLen ≤ d.indexLimit
  colIndex   : c.hasColumnIndex = d.pageBounds   -- a column index iff page bounds are written
  noBounds   : d.pageBounds = false → c.hasMinMax = false
  bounds     : d.pageBounds = true → c.numValues > c.nullCount → c.hasMinMax = true
  noDeprec   : d.deprecatedStats = false → c.hasDeprecated = false
  deprec     : d.deprecatedStats = true → c.hasMinMax = true → c.hasDeprecated = true

/-- SPEC: the output chunk honours every destination setting -/
def Conforms (g : DstCfg) (d : DstCol) (c : ChunkMeta) : Prop :=
  ConformsCore g d c ∧ ConformsStats d c

/-- the file chunks of a row group, paired positionally with the destination columns -/
def fileMetas : List Chunk → List ChunkMeta
  | .file m :: cs => m :: fileMetas cs
  | _ :: cs => fileMetas cs
  | [] => []

mutual
/-- SPEC: the library's contract for its own row group types: for the marker types `Rows()` is the
    chunks read in order. Wrappers (dedup, converted, foreign, merged) are unconstrained.
    Before the multi-row-group repair `MultiRowGroup` was only meaningful over children whose
    `Rows()` is their chunks read in order (`multi_over_wrapper_diverges`). -/
def WellFormed (v : Variant) : RG α → Prop
  | .leaf k _ _ cr r => k.marker = true → r = cr
  | .seg .multi cs =>
    match v with
    | .asIs => WellFormedFaithfulL v cs
    | .repaired => WellFormedL v cs
  | .seg .sorted cs => WellFormedL v cs
def WellFormedL (v : Variant) : List (RG α) → Prop
  | [] => True
  | c :: cs => WellFormed v c ∧ WellFormedL v cs
def WellFormedFaithfulL (v : Variant) : List (RG α) → Prop
  | [] => True
  | c :: cs => (WellFormed v c ∧ c.rowsOf v = c.chunkRowsOf) ∧ WellFormedFaithfulL v cs
end

/-- positional pairing of two lists (core has no `List.Forall₂`) -/
inductive Forall2 {β γ : Type} (R : β → γ → Prop) : List β → List γ → Prop where
  | nil : Forall2 R [] []
  | cons {b c bs cs} : R b c → Forall2 R bs cs → Forall2 R (b :: bs) (c :: cs)

end PqModel.CopyPath
