/-! # `rowBufferRows` — the row reader of `RowBuffer[T].Rows()`

MIRROR of row_buffer.go:428-486 (`rowBufferRows`: `Close`, `SeekToRow`, `ReadRows`): the rows the
buffer held when `Rows()` was called and one index (`-1` = closed). `short = true` is the variant
whose clamp in `SeekToRow` is `len(rows) - 1` instead of `len(rows)` (held-out seed C08-6a). -/
namespace PqModel.RowBufferRows

structure St (α : Type) where
  rows : List α
  index : Int

inductive SeekOut | ok | outOfRange | closed
  deriving DecidableEq

/-- row_buffer.go:444-460 `SeekToRow`. -/
def seek {α} (short : Bool) (s : St α) (k : Int) : St α × SeekOut :=
  if k < 0 then (s, .outOfRange)
  else if s.index < 0 then (s, .closed)
  else
    let maxRow : Int := if short then (s.rows.length : Int) - 1 else (s.rows.length : Int)
    ({ s with index := if k > maxRow then maxRow else k }, .ok)

/-- row_buffer.go:462-480 `ReadRows` into `b` slots: the rows returned and "err = io.EOF". -/
def read {α} (s : St α) (b : Nat) : St α × List α × Bool :=
  if s.index < 0 then (s, [], true)
  else
    let i := s.index.toNat
    let n := min (s.rows.length - i) b
    ({ s with index := s.index + (n : Int) }, (s.rows.drop i).take n, decide (i + n = s.rows.length))

/-- row_buffer.go:434-437 `Close`. -/
def close {α} (s : St α) : St α := { s with index := -1 }

/-- The reader is open and its index is within `0..len(rows)` (what `Rows()` returns: index 0). -/
def Open {α} (s : St α) : Prop := 0 ≤ s.index ∧ s.index ≤ (s.rows.length : Int)

instance {α} (s : St α) : Decidable (Open s) := inferInstanceAs (Decidable (_ ∧ _))

/-- SPEC side: the rows an open reader will still deliver. -/
def remaining {α} (s : St α) : List α := s.rows.drop s.index.toNat

end PqModel.RowBufferRows
