import PqModel.Delta

/-! # MIRROR of the portable Go *decoders* of `encoding/delta`, and of the word-level bit packing
kernel of the encoder (property C04, part delta).

Everything in this file transliterates Go code (file:line in each doc comment). The spec side is in
`PqModel/Delta.lean`; the theorems relating the two are in `PqModel/DeltaGoProofs.lean` and
`PqModel/Props/C04Delta.lean`.

Modelling decisions (each tied by the L2 comparison with the real decoders):
* a byte slice is a `List Nat` and the decoders are functions of its *contents*: the bytes between
  `len` and `cap` that `decodeInt32` can reach for a truncated final miniblock (it tests `cap`,
  binary_packed.go:322, where `decodeInt64` tests `len`) are modelled as zeros, which is what
  `decodeInt64` does and what the harness provides;
* `bitpack.Unpack` (third-party module) is modelled as LSB-first unpacking for widths up to the
  type's width; for a larger width its result is implementation defined (assembly and portable
  kernels differ): the mirror answers `overwide` and the harness does not compare such streams;
* `b & 0x7f` of `binary.Uvarint` is written `b - 128` (equal for a byte `≥ 0x80`), `x | b<<s` as
  `x + b * 2^s` (the bits are disjoint). -/
namespace PqModel.Delta
open PqModel.Bits

inductive GoErr where
  | eof           -- "decoding …: unexpected EOF"
  | overflow      -- varint longer than 10 bytes / more than 64 bits
  | badHeader     -- invalid number of mini blocks / block size / mini block size
  | negative      -- a header field does not fit a (non-negative) Go `int`
  | tooLarge      -- block size > 65536
  | tooMany       -- more than MaxInt32 values
  | firstRange    -- INT32: first value out of range
  | missing       -- "%d missing values"
  | overwide      -- NOT a Go error: a used miniblock has a width above the type's (unmodelled, see above)
  | negLength     -- invalid negative value length
  | lengthOOB     -- value length is larger than the input size
  | negPrefix     -- invalid negative prefix length
  | prefixOOB     -- prefix length larger than the last value
  | countMismatch -- length of prefix and suffix mismatch
  deriving DecidableEq, Repr

/-- the errors that are Go's documented resource limits / range checks (a conformant stream can
only be rejected with one of these) -/
def GoErr.isLimit : GoErr → Bool
  | .overflow | .negative | .tooLarge | .tooMany | .firstRange => true
  | _ => false

/-- MIRROR `binary.Uvarint` (Go stdlib, called from binary_packed.go:468-477 `decodeUvarint`):
`i` is the byte index, `x` the accumulated value; at most `MaxVarintLen64 = 10` bytes, the tenth at
most 1. First argument: fuel (11 suffices). -/
def goUvarintLoop : Nat → Nat → Nat → List Nat → Except GoErr (Nat × List Nat)
  | _, _, _, [] => .error .eof
  | 0, _, _, _ :: _ => .error .overflow
  | f + 1, i, x, b :: bs =>
    if i = 10 then .error .overflow
    else if b < 128 then
      if i = 9 ∧ 1 < b then .error .overflow else .ok (x + b * 2 ^ (7 * i), bs)
    else goUvarintLoop f (i + 1) (x + (b - 128) * 2 ^ (7 * i)) bs

def goUvarint (bs : List Nat) : Except GoErr (Nat × List Nat) := goUvarintLoop 11 0 0 bs

/-- MIRROR `binary.Varint` via binary_packed.go:479-488 `decodeVarint`: `x := int64(ux >> 1); if
ux&1 != 0 { x = ^x }`, i.e. `unzigzag`. -/
def goVarint (bs : List Nat) : Except GoErr (Int × List Nat) :=
  match goUvarint bs with
  | .error e => .error e
  | .ok (u, r) => .ok (unzigzag u, r)

structure GoHeader where
  blockSize : Nat
  minis : Nat
  total : Nat
  first : Int
  deriving Repr

/-- MIRROR binary_packed.go:409-452 `decodeBinaryPackedHeader`. The three counts are `uint64`
converted to `int`: a value `≥ 2^63` is negative there, which the checks `blockSize <= 0`,
`numMiniBlocks <= 0`, `totalValues < 0` catch (class `negative`). Note that the mini block size is
`blockSize / numMiniBlocks` (integer division): `blockSize % numMiniBlocks` is not checked. -/
def goHeader (bs : List Nat) : Except GoErr (GoHeader × List Nat) :=
  match goUvarint bs with
  | .error e => .error e
  | .ok (b, bs1) =>
  match goUvarint bs1 with
  | .error e => .error e
  | .ok (m, bs2) =>
  match goUvarint bs2 with
  | .error e => .error e
  | .ok (t, bs3) =>
  match goVarint bs3 with
  | .error e => .error e
  | .ok (f, bs4) =>
    if m = 0 then .error .badHeader
    else if 2 ^ 63 ≤ b then .error .negative
    else if b = 0 ∨ b % 128 ≠ 0 then .error .badHeader
    else if 65536 < b then .error .tooLarge
    else if 2 ^ 63 ≤ m then .error .negative
    else if (b / m) % 32 ≠ 0 then .error .badHeader
    else if 2 ^ 63 ≤ t then .error .negative
    else if 2 ^ 31 - 1 < t then .error .tooMany
    else .ok ({ blockSize := b, minis := m, total := t, first := f }, bs4)

/-- MIRROR binary_packed.go:311-338 / 374-400, the loop over the width bytes of one block:
`n := min(numValuesInMiniBlock, totalValues)`; a miniblock of width `w ≠ 0` takes
`numValuesInMiniBlock*w/8` bytes of `src` — or what is left of it, completed with zeros in a scratch
buffer — and `bitpack.Unpack` reads `n` values from it; width 0 leaves the zero-filled output as it
is; the loop stops as soon as all values have been read. Returns the unpacked values, the number
of values still missing and the rest of `src`. -/
def goMinis (n vpm : Nat) : List Nat → Nat → List Nat → Except GoErr (List Nat × Nat × List Nat)
  | [], tot, src => .ok ([], tot, src)
  | w :: ws, tot, src =>
    if 0 < min vpm tot ∧ n < w then .error .overwide
    else
      let data := src.take (vpm * w / 8)
      let vals := unpackBits w (min vpm tot) (bytesToBits (data ++ List.replicate (vpm * w / 8 - data.length) 0))
      if tot - min vpm tot = 0 then .ok (vals, 0, src.drop (vpm * w / 8))
      else
        match goMinis n vpm ws (tot - min vpm tot) (src.drop (vpm * w / 8)) with
        | .error e => .error e
        | .ok (more, tot', r) => .ok (vals ++ more, tot', r)

/-- MIRROR binary_packed_purego.go:51-58 / 60-67 `decodeBlockInt32/64`:
`block[i] += minDelta; block[i] += lastValue; lastValue = block[i]` (wrapping). -/
def goRecon {n : Nat} (minD : BitVec n) : BitVec n → List Nat → List (BitVec n)
  | _, [] => []
  | last, d :: ds => (BitVec.ofNat n d + minD + last) :: goRecon minD (BitVec.ofNat n d + minD + last) ds

/-- MIRROR binary_packed.go:303-340 / 367-402 `for totalValues > 0 && len(src) > 0 { … }` with
`decodeBinaryPackedBlock` (454-466: min delta, then `numMiniBlocks` width bytes or fewer if `src`
is shorter) and the final `if totalValues > 0 { "missing values" }`. `int32(minDelta)` is
`BitVec.ofInt n`. First argument: fuel (every iteration consumes at least the varint:
`len(src) + 1` suffices). -/
def goBlocks (n vpm m : Nat) : Nat → Nat → BitVec n → List Nat → Except GoErr (List (BitVec n) × List Nat)
  | 0, tot, _, src => if tot = 0 then .ok ([], src) else .error .missing
  | f + 1, tot, last, src =>
    if tot = 0 then .ok ([], src)
    else if src.isEmpty then .error .missing
    else
      match goVarint src with
      | .error e => .error e
      | .ok (md, src1) =>
        match goMinis n vpm (src1.take m) tot (src1.drop m) with
        | .error e => .error e
        | .ok (raw, tot', src2) =>
          match goBlocks n vpm m f tot' ((goRecon (BitVec.ofInt n md) last raw).getLastD last) src2 with
          | .error e => .error e
          | .ok (more, r) => .ok (goRecon (BitVec.ofInt n md) last raw ++ more, r)

/-- MIRROR binary_packed.go:279-344 `decodeInt32` (n = 32) and 346-407 `decodeInt64` (n = 64):
header, nothing for no value, the INT32 range check of the first value, the block loop. Returns
the values and the rest of `src`. -/
def goDecode (n : Nat) (bs : List Nat) : Except GoErr (List (BitVec n) × List Nat) :=
  match goHeader bs with
  | .error e => .error e
  | .ok (h, src) =>
    if h.total = 0 then .ok ([], src)
    else if n = 32 ∧ (h.first < -(2 ^ 31) ∨ 2 ^ 31 - 1 < h.first) then .error .firstRange
    else
      match goBlocks n (h.blockSize / h.minis) h.minis (src.length + 1) (h.total - 1) (BitVec.ofInt n h.first) src with
      | .error e => .error e
      | .ok (vs, r) => .ok (BitVec.ofInt n h.first :: vs, r)

def goDecode32 := goDecode 32
def goDecode64 := goDecode 64

/-- MIRROR length_byte_array_purego.go:11-24 `decodeByteArrayLengths`: `lastOffset` is a `uint32`
(wraps); a negative length stops the loop. Returns the offsets (one more than lengths). -/
def goLengthOffsets : Nat → List (BitVec 32) → Except GoErr (List Nat)
  | last, [] => .ok [last]
  | last, l :: ls =>
    if l.msb then .error .negLength
    else
      match goLengthOffsets ((last + l.toNat) % 2 ^ 32) ls with
      | .error e => .error e
      | .ok os => .ok (last :: os)

/-- MIRROR length_byte_array.go:37-63 `DecodeByteArray`: lengths through `decodeInt32`, offsets,
`int(lastOffset) > len(src)` check, `src[:lastOffset]`. Returns the value bytes and the offsets. -/
def goDecodeDLBA (bs : List Nat) : Except GoErr (List Nat × List Nat) :=
  match goDecode 32 bs with
  | .error e => .error e
  | .ok (ls, src) =>
    match goLengthOffsets 0 ls with
    | .error e => .error e
    | .ok os =>
      if src.length < os.getLastD 0 then .error .lengthOOB
      else .ok (src.take (os.getLastD 0), os)

/-- MIRROR byte_array_purego.go:5-34 `decodeByteArray` (and 36-63 `decodeFixedLenByteArray`, the
same loop without offsets): per value the checks `n < 0`, `n > len(src)`, `p < 0`,
`p > len(lastValue)`, then `dst = append(dst, lastValue[:p]...)`, `append(dst, src[:n]...)`. The
destination is modelled as the list of values appended so far (`dst` is their concatenation, the
offsets their boundaries). `prefix = prefix[:len(suffix)]`: the lists have equal length here. -/
def goJoin : List Nat → List (BitVec 32) → List (BitVec 32) → List Nat → Except GoErr (List (List Nat))
  | lastV, p :: ps, s :: ss, src =>
    if s.msb then .error .negLength
    else if src.length < s.toNat then .error .lengthOOB
    else if p.msb then .error .negPrefix
    else if lastV.length < p.toNat then .error .prefixOOB
    else
      match goJoin (lastV.take p.toNat ++ src.take s.toNat) ps ss (src.drop s.toNat) with
      | .error e => .error e
      | .ok vs => .ok ((lastV.take p.toNat ++ src.take s.toNat) :: vs)
  | _, _, _, _ => .ok []

/-- MIRROR byte_array.go:124-146 `DecodeByteArray` (148-174 `DecodeFixedLenByteArray` runs the same
steps and returns the concatenation): prefix lengths and suffix lengths through `decodeInt32`, the
count check, the copy loop. -/
def goDecodeDBA (bs : List Nat) : Except GoErr (List (List Nat)) :=
  match goDecode 32 bs with
  | .error e => .error e
  | .ok (ps, src1) =>
    match goDecode 32 src1 with
    | .error e => .error e
    | .ok (ss, src2) =>
      if ps.length ≠ ss.length then .error .countMismatch
      else goJoin [] ps ss src2

/-- the offsets of `vs` laid out back to back from offset `o` -/
def offsetsFrom (o : Nat) : List (List Nat) → List Nat
  | [] => [o]
  | v :: vs => o :: offsetsFrom (o + v.length) vs

end PqModel.Delta
