/-! # Lazily published page-index / bloom-filter pointers (file.go:950-1076)

MIRROR of the publication protocol shared by `readColumnIndexFrom` (file.go:950-986),
`readOffsetIndex` (file.go:988-1021) and `readBloomFilter` (file.go:1023-1076):

```
if p := cell.Load(); p != nil { return p }      -- load1
... read + decode, allocate `mine` ...            -- compute (may fail: `return nil, err`)
if !cell.CompareAndSwap(nil, mine) {              -- cas
    return cell.Load()                            -- load2
}
return mine
```

as a step machine with any number of readers. The cell is an `atomic.Pointer`; `Load` and
`CompareAndSwap` are single atomic steps (sequentially consistent atomics are assumed, the Go
memory model is not modelled). A pointer is a `Nat` identity; every allocation is fresh.
`OpenFile` may store a value before the file is shared (file.go:302,308,724-725): that is the
initial cell content `c0`. -/
namespace PqModel.CasPublish

inductive RPc where
  | start                  -- before the first Load (file.go:951/989/1024)
  | compute                -- Load returned nil: reading and decoding (file.go:954-976)
  | cas (mine : Nat)       -- holding the freshly allocated value, before CompareAndSwap (file.go:981)
  | reload                 -- CompareAndSwap failed, before the second Load (file.go:983)
  | done (r : Option Nat)  -- returned: `some p` = pointer p, `none` = `nil, err`
deriving DecidableEq, Repr

structure St where
  cell : Option Nat
  readers : List RPc
  fresh : Nat
deriving DecidableEq, Repr

def init (k : Nat) (c0 : Option Nat) : St :=
  { cell := c0, readers := List.replicate k .start, fresh := (c0.getD 0) + 1 }

/-- one atomic step of reader `i` -/
inductive Step : St → St → Prop where
  /-- file.go:951-953: the first Load sees a published value -/
  | load1Hit {s i p} : s.readers[i]? = some .start → s.cell = some p →
      Step s { s with readers := s.readers.set i (.done (some p)) }
  /-- file.go:951: the first Load sees nil -/
  | load1Miss {s i} : s.readers[i]? = some .start → s.cell = none →
      Step s { s with readers := s.readers.set i .compute }
  /-- file.go:954-977: read, decode, allocate a new value -/
  | computeOk {s i} : s.readers[i]? = some .compute →
      Step s { s with readers := s.readers.set i (.cas s.fresh), fresh := s.fresh + 1 }
  /-- file.go:960-975: I/O, decryption or decode error: `return nil, err`, nothing published -/
  | computeErr {s i} : s.readers[i]? = some .compute →
      Step s { s with readers := s.readers.set i (.done none) }
  /-- file.go:981,985: CompareAndSwap(nil, mine) succeeds -/
  | casWin {s i m} : s.readers[i]? = some (.cas m) → s.cell = none →
      Step s { s with cell := some m, readers := s.readers.set i (.done (some m)) }
  /-- file.go:981: CompareAndSwap fails -/
  | casLose {s i m p} : s.readers[i]? = some (.cas m) → s.cell = some p →
      Step s { s with readers := s.readers.set i .reload }
  /-- file.go:983: the second Load -/
  | load2 {s i} : s.readers[i]? = some .reload →
      Step s { s with readers := s.readers.set i (.done s.cell) }

inductive Reach (k : Nat) (c0 : Option Nat) : St → Prop where
  | init : Reach k c0 (init k c0)
  | step {s s'} : Reach k c0 s → Step s s' → Reach k c0 s'

/-- invariant: whoever returned a pointer returned the cell's content; a reader past a failed CAS
    will find the cell set -/
def PInv (s : St) : Prop :=
  (∀ (i : Nat) p, s.readers[i]? = some (RPc.done (some p)) → s.cell = some p) ∧
  (∀ (i : Nat), s.readers[i]? = some RPc.reload → s.cell.isSome)

theorem pinv_init (k c0) : PInv (init k c0) := by
  unfold PInv
  constructor
  · intro i p h
    simp [init, List.getElem?_replicate] at h
  · intro i h
    simp [init, List.getElem?_replicate] at h

theorem pinv_step {s s'} (hi : PInv s) (h : Step s s') : PInv s' := by
  obtain ⟨h1, h2⟩ := hi
  unfold PInv
  cases h <;> constructor <;> intro j <;> simp only [List.getElem?_set] <;> grind

theorem pinv_reach {k c0 s} (h : Reach k c0 s) : PInv s := by
  induction h with
  | init => exact pinv_init k c0
  | step _ hs ih => exact pinv_step ih hs

/-- the cell is written at most once -/
theorem cell_stable {s s' p} (h : Step s s') (hc : s.cell = some p) : s'.cell = some p := by
  cases h <;> simp_all

/-- the number of readers never changes -/
theorem readers_length {s s'} (h : Step s s') : s'.readers.length = s.readers.length := by
  cases h <;> simp

/-- a reader that has returned stays returned with the same value -/
theorem done_stable {s s'} {i : Nat} {r} (h : Step s s') (hd : s.readers[i]? = some (RPc.done r)) :
    s'.readers[i]? = some (RPc.done r) := by
  cases h <;> simp only [List.getElem?_set] <;> grind

/-- no reader is ever stuck: a reader that has not returned has an enabled step -/
theorem reader_progress {s} {i : Nat} {pc} (h : s.readers[i]? = some pc) (hn : ∀ r, pc ≠ RPc.done r) :
    ∃ s', Step s s' := by
  cases pc with
  | start =>
    rcases hc : s.cell with _ | p
    · exact ⟨_, .load1Miss h hc⟩
    · exact ⟨_, .load1Hit h hc⟩
  | compute => exact ⟨_, .computeOk h⟩
  | cas m =>
    rcases hc : s.cell with _ | p
    · exact ⟨_, .casWin h hc⟩
    · exact ⟨_, .casLose h hc⟩
  | reload => exact ⟨_, .load2 h⟩
  | done r => exact absurd rfl (hn r)

end PqModel.CasPublish
