import PqModel.Layout
import PqModel.Seek

/-! # `FilePages.SeekToRow` at the byte level (C08, tied to C02's `layout_wf`)

`Seek.lean` counts stream positions in pages. Here the stream is what the Go code has: a section
reader at offset `pos` (relative to the chunk start) feeding a bufio reader with `unread` buffered
bytes; the decoder sees the byte at `pos - unread` next. The offset index is what the writer
recorded (`Layout.chunkMeta`), which `layout_wf` proves equal to the positional `specLocs`.

* MIRROR: `targetB` (the `sort.Search` over `FirstRowIndex`), `reposition` (file.go, the block
  from "no-op seek to retrieve position" to `f.rbuf.Reset`: nothing / in-buffer `Discard` / real
  `Seek` + `Reset`).
* SPEC: `Layout.specLocs` — where the pages really are. -/
namespace PqModel.SeekBytes
open PqModel.Layout

structure Stream where
  pos : Nat      -- section.Seek(0, io.SeekCurrent)
  unread : Nat   -- rbuf.Buffered()
deriving Repr, DecidableEq

/-- the section-relative offset of the next byte the page decoder will see -/
def logical (s : Stream) : Nat := s.pos - s.unread

/-- MIRROR of the reposition block of `SeekToRow`. `base` is `f.baseOffset`.
    `skipBytes == 0`: nothing; `0 < skipBytes <= unread`: `rbuf.Discard(skipBytes)`; otherwise
    `section.Seek(target)` and `rbuf.Reset` -/
def reposition (base : Nat) (locs : List PageLoc) (t : Nat) (s : Stream) : Stream :=
  let curr := s.pos - s.unread
  let tgt := (locs[t]?.map (·.offset)).getD 0 - base
  if tgt = curr then s
  else if curr < tgt ∧ tgt - curr ≤ s.unread then { s with unread := s.unread - (tgt - curr) }
  else { pos := tgt, unread := 0 }

/-- MIRROR of `sort.Search(len(pages), pages[i].FirstRowIndex > rowIndex) - 1`, as the linear scan
    of `Seek.findPage` but over the recorded page locations -/
def findLoc (locs : List PageLoc) (k : Nat) : Nat → Nat → Nat
  | 0, acc => acc
  | fuel + 1, acc =>
    if acc + 1 < locs.length ∧ (locs[acc + 1]?.map (·.firstRow)).getD 0 ≤ k then findLoc locs k fuel (acc + 1) else acc

def targetB (locs : List PageLoc) (k : Nat) : Nat := findLoc locs k locs.length 0

/-- whatever the stream state, the decoder is left on the first byte of the target page -/
theorem reposition_logical (base : Nat) (locs : List PageLoc) (t : Nat) (s : Stream) (loc : PageLoc)
    (hs : s.unread ≤ s.pos) (hl : locs[t]? = some loc) (hb : base ≤ loc.offset) :
    base + logical (reposition base locs t s) = loc.offset ∧
    (reposition base locs t s).unread ≤ (reposition base locs t s).pos := by
  simp only [reposition, hl, Option.map_some, Option.getD_some]
  split
  · rename_i h; simp only [logical]; omega
  · split
    · rename_i h1 h2; simp only [logical]; omega
    · simp only [logical]; omega

/-! ### the recorded locations against the row counts of the data pages -/

def rowsOf (ps : List PageOp) : List Nat := (dataPages ps).map (·.numRows)

theorem specLocs_length (start row : Nat) (ps : List PageOp) :
    (specLocs start row ps).length = (rowsOf ps).length := by
  induction ps generalizing start row with
  | nil => simp [specLocs, rowsOf, dataPages]
  | cons p ps ih =>
    cases hd : p.isDict with
    | true => simp [specLocs, rowsOf, dataPages, hd] at ih ⊢; exact ih _ _
    | false => simp [specLocs, rowsOf, dataPages, hd] at ih ⊢; exact ih _ _

theorem specLocs_get (start row : Nat) (ps : List PageOp) : ∀ (i : Nat) (loc : PageLoc),
    (specLocs start row ps)[i]? = some loc →
    loc.firstRow = row + Seek.firstRow (rowsOf ps) i ∧ start ≤ loc.offset := by
  induction ps generalizing start row with
  | nil => intro i loc h; simp [specLocs] at h
  | cons p ps ih =>
    intro i loc h
    cases hd : p.isDict with
    | true =>
      simp only [specLocs, hd, if_true] at h
      have := ih _ _ i loc h
      have hr : rowsOf (p :: ps) = rowsOf ps := by simp [rowsOf, dataPages, hd]
      rw [hr]
      exact ⟨this.1, by omega⟩
    | false =>
      simp only [specLocs, hd, Bool.false_eq_true, if_false] at h
      have hr : rowsOf (p :: ps) = p.numRows :: rowsOf ps := by simp [rowsOf, dataPages, hd]
      rw [hr]
      cases i with
      | zero =>
        simp at h; subst h
        simp [Seek.firstRow]
      | succ i =>
        have h' : (specLocs (start + p.size) (row + p.numRows) ps)[i]? = some loc := by simpa using h
        have := ih _ _ i loc h'
        refine ⟨?_, by omega⟩
        rw [this.1]
        simp only [Seek.firstRow, List.take_succ_cons, List.sum_cons]
        omega

theorem findLoc_eq (locs : List PageLoc) (rows : List Nat) (k : Nat) (hlen : locs.length = rows.length)
    (hfr : ∀ i loc, locs[i]? = some loc → loc.firstRow = Seek.firstRow rows i) :
    ∀ fuel acc, findLoc locs k fuel acc = Seek.findPage rows k fuel acc
  | 0, _ => rfl
  | fuel + 1, acc => by
    simp only [findLoc, Seek.findPage]
    by_cases hlt : acc + 1 < locs.length
    · have hget : locs[acc + 1]? = some locs[acc + 1] := List.getElem?_eq_getElem hlt
      have := hfr (acc + 1) _ hget
      simp only [hget, Option.map_some, Option.getD_some, this, hlen ▸ hlt, true_and, ← hlen]
      split
      · exact findLoc_eq locs rows k hlen hfr fuel (acc + 1)
      · rfl
    · have hlt' : ¬ acc + 1 < rows.length := by omega
      simp [hlt, hlt']

/-- **seek_byte_position.** For every chunk (any pages, dictionary page or not) written at file
    offset `start`, with the offset index the writer recorded for it, and every stream state:
    the page `SeekToRow(k)` selects from the recorded `FirstRowIndex` values is the page of the
    page-granularity model (`Seek.target` over the row counts of the data pages), its recorded
    first row is the sum of the row counts before it, and after the reposition block — whichever of
    its three branches runs — the decoder stands on the first byte of that page as the pages are
    really laid out (`specLocs`). -/
theorem seek_byte_position (start : Nat) (ps : List PageOp) (k : Nat) (s : Stream)
    (hs : s.unread ≤ s.pos) (hne : rowsOf ps ≠ []) :
    let locs := (chunkMeta start ps).locs
    let t := targetB locs k
    t = Seek.target (rowsOf ps) k ∧
    ∃ loc, (specLocs start 0 ps)[t]? = some loc ∧
      start + logical (reposition start locs t s) = loc.offset ∧
      loc.firstRow = Seek.firstRow (rowsOf ps) t ∧ loc.firstRow ≤ k := by
  have hwf := (layout_wf start ps).1
  simp only []
  rw [hwf]
  have hlen := specLocs_length start 0 ps
  have hfr : ∀ i loc, (specLocs start 0 ps)[i]? = some loc → loc.firstRow = Seek.firstRow (rowsOf ps) i := by
    intro i loc h
    have := (specLocs_get start 0 ps i loc h).1
    omega
  have ht : targetB (specLocs start 0 ps) k = Seek.target (rowsOf ps) k := by
    simp only [targetB, Seek.target, hlen]
    exact findLoc_eq _ _ k hlen hfr _ _
  refine ⟨ht, ?_⟩
  rw [ht]
  have hts := Seek.target_spec (rowsOf ps) k
  have hlt : Seek.target (rowsOf ps) k < (specLocs start 0 ps).length := by
    rw [hlen]
    rcases hts.2 with a | a
    · exact a
    · rw [a]
      cases hr : rowsOf ps with
      | nil => exact absurd hr hne
      | cons _ _ => simp
  refine ⟨(specLocs start 0 ps)[Seek.target (rowsOf ps) k], List.getElem?_eq_getElem hlt, ?_, ?_, ?_⟩
  · exact (reposition_logical start _ _ s _ hs (List.getElem?_eq_getElem hlt)
      (specLocs_get start 0 ps _ _ (List.getElem?_eq_getElem hlt)).2).1
  · exact hfr _ _ (List.getElem?_eq_getElem hlt)
  · rw [hfr _ _ (List.getElem?_eq_getElem hlt)]
    exact hts.1

/-- non-vacuity: a dictionary page and three data pages written at offset 4; a seek to row 25
    from a stream that has 30 buffered bytes discards in the buffer, from a cold stream it seeks -/
def demo : List PageOp := [
  { isDict := true, hdrLen := 3, bodyLen := 7, uncompLen := 7, numValues := 0, numRows := 0 },
  { isDict := false, hdrLen := 2, bodyLen := 10, uncompLen := 10, numValues := 10, numRows := 10 },
  { isDict := false, hdrLen := 2, bodyLen := 10, uncompLen := 10, numValues := 10, numRows := 10 },
  { isDict := false, hdrLen := 2, bodyLen := 10, uncompLen := 10, numValues := 10, numRows := 10 }]
example : targetB (chunkMeta 4 demo).locs 25 = 2 := by decide
example : reposition 4 (chunkMeta 4 demo).locs 2 { pos := 40, unread := 30 } = { pos := 40, unread := 6 } := by decide
example : reposition 4 (chunkMeta 4 demo).locs 2 { pos := 10, unread := 0 } = { pos := 34, unread := 0 } := by decide

end PqModel.SeekBytes
