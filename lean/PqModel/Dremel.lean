namespace PqModel.Dremel

/-! Spike 2: Dremel round trip proof. Core Lean only. -/

structure Triple where
  val : Option Nat
  rep : Nat
  dfn : Nat
deriving Repr, DecidableEq

inductive Val where
  | prim (x : Nat)
  | struct (vs : List Val)
  | none
  | some (v : Val)
  | list (vs : List Val)
deriving Repr

mutual
inductive Node where
  | leaf
  | group (fs : Fields)
  | opt (n : Node)
  | rpt (n : Node)
inductive Fields where
  | nil
  | cons (n : Node) (fs : Fields)
end

abbrev Cols := List (List Triple)

def zipApp : Cols → Cols → Cols
  | a :: as, b :: bs => (a ++ b) :: zipApp as bs
  | _, _ => []

mutual
def leavesN : Node → Nat
  | .leaf => 1
  | .group fs => leavesF fs
  | .opt n => leavesN n
  | .rpt n => leavesN n
def leavesF : Fields → Nat
  | .nil => 0
  | .cons n fs => leavesN n + leavesF fs
end

mutual
def wfN : Node → Bool
  | .leaf => true
  | .group fs => wfF fs && decide (0 < leavesF fs)
  | .opt n => wfN n
  | .rpt n => wfN n
def wfF : Fields → Bool
  | .nil => true
  | .cons n fs => wfN n && wfF fs
end

mutual
def confN : Node → Val → Bool
  | .leaf, v => match v with | .prim _ => true | _ => false
  | .group fs, v => match v with | .struct vs => confF fs vs | _ => false
  | .opt n, v => match v with | .none => true | .some w => confN n w | _ => false
  | .rpt n, v => match v with | .list ws => ws.all (confN n) | _ => false
def confF : Fields → List Val → Bool
  | .nil, vs => vs.isEmpty
  | .cons n fs, vs => match vs with | v :: vs' => confN n v && confF fs vs' | [] => false
end

-- rep, depth, dfn passed separately
mutual
def absentN : Node → Nat → Nat → Cols
  | .leaf, r, d => [[⟨Option.none, r, d⟩]]
  | .group fs, r, d => absentF fs r d
  | .opt n, r, d => absentN n r d
  | .rpt n, r, d => absentN n r d
def absentF : Fields → Nat → Nat → Cols
  | .nil, _, _ => []
  | .cons n fs, r, d => absentN n r d ++ absentF fs r d
end

mutual
def shredN : Node → (rep depth dfn : Nat) → Val → Cols
  | .leaf, r, _, d, v =>
    match v with
    | .prim x => [[⟨Option.some x, r, d⟩]]
    | _ => [[⟨Option.none, r, d⟩]]
  | .group fs, r, k, d, v =>
    match v with
    | .struct vs => shredF fs r k d vs
    | _ => absentF fs r d
  | .opt n, r, k, d, v =>
    match v with
    | .some w => shredN n r k (d + 1) w
    | _ => absentN n r d
  | .rpt n, r, k, d, v =>
    match v with
    | .list (w :: ws) =>
      zipApp (shredN n r (k + 1) (d + 1) w)
        (ws.foldr (fun w acc => zipApp (shredN n (k + 1) (k + 1) (d + 1) w) acc)
          (List.replicate (leavesN n) []))
    | _ => absentN n r d
def shredF : Fields → (rep depth dfn : Nat) → List Val → Cols
  | .nil, _, _, _, _ => []
  | .cons n fs, r, k, d, vs =>
    match vs with
    | v :: vs' => shredN n r k d v ++ shredF fs r k d vs'
    | [] => absentN n r d ++ absentF fs r d
end

def firstDef : Cols → Nat
  | (t :: _) :: _ => t.dfn
  | _ => 0

def segLen (k : Nat) : List Triple → Nat
  | [] => 0
  | _ :: ts => 1 + (ts.takeWhile (fun t => decide (t.rep > k))).length

def splitHead (k : Nat) (cols : Cols) : Cols × Cols :=
  (cols.map (fun c => c.take (segLen k c)), cols.map (fun c => c.drop (segLen k c)))

def countElems (k : Nat) : Cols → Nat
  | (_ :: ts) :: _ => 1 + (ts.filter (fun t => !decide (t.rep > k))).length
  | _ => 0

def splitAll (k : Nat) : Nat → Cols → List Cols
  | 0, _ => []
  | m + 1, cols => (splitHead k cols).1 :: splitAll k m (splitHead k cols).2

mutual
def asmN : Node → (depth dfn : Nat) → Cols → Val
  | .leaf, _, _, cols =>
    match cols with
    | (t :: _) :: _ => (match t.val with | Option.some x => .prim x | Option.none => .none)
    | _ => .none
  | .group fs, k, d, cols => .struct (asmF fs k d cols)
  | .opt n, k, d, cols =>
    if firstDef cols < d + 1 then .none
    else .some (asmN n k (d + 1) cols)
  | .rpt n, k, d, cols =>
    if firstDef cols < d + 1 then .list []
    else .list ((splitAll (k + 1) (countElems (k + 1) cols) cols).map (asmN n (k + 1) (d + 1)))
def asmF : Fields → (depth dfn : Nat) → Cols → List Val
  | .nil, _, _, _ => []
  | .cons n fs, k, d, cols =>
    asmN n k d (cols.take (leavesN n)) :: asmF fs k d (cols.drop (leavesN n))
end

/-- column invariant: nonempty, head rep = r, head dfn ≥ d, tail reps > k -/
def GoodCol (r k d : Nat) (c : List Triple) : Prop :=
  ∃ t ts, c = t :: ts ∧ t.rep = r ∧ d ≤ t.dfn ∧ ∀ u ∈ ts, u.rep > k

def Good (m r k d : Nat) (cols : Cols) : Prop :=
  cols.length = m ∧ ∀ c ∈ cols, GoodCol r k d c

theorem good_append {m1 m2 r k d : Nat} {a b : Cols} (ha : Good m1 r k d a) (hb : Good m2 r k d b) :
    Good (m1 + m2) r k d (a ++ b) := by
  refine ⟨by simp [ha.1, hb.1], ?_⟩
  intro c hc
  rcases List.mem_append.mp hc with h | h
  · exact ha.2 c h
  · exact hb.2 c h

mutual
theorem absentN_good (n : Node) (r k d : Nat) : Good (leavesN n) r k d (absentN n r d) := by
  cases n with
  | leaf =>
    refine ⟨by simp [absentN, leavesN], ?_⟩
    intro c hc
    simp [absentN] at hc
    subst hc
    exact ⟨_, [], rfl, rfl, Nat.le_refl _, by simp⟩
  | group fs => simpa [absentN, leavesN] using absentF_good fs r k d
  | opt n => simpa [absentN, leavesN] using absentN_good n r k d
  | rpt n => simpa [absentN, leavesN] using absentN_good n r k d
theorem absentF_good (fs : Fields) (r k d : Nat) : Good (leavesF fs) r k d (absentF fs r d) := by
  cases fs with
  | nil => exact ⟨by simp [absentF, leavesF], by intro c hc; simp [absentF] at hc⟩
  | cons n fs =>
    simp only [absentF, leavesF]
    exact good_append (absentN_good n r k d) (absentF_good fs r k d)
end

/-! ### column-level lemmas -/

def GoodSeg (k : Nat) (a : List Triple) : Prop :=
  ∃ t ts, a = t :: ts ∧ ∀ u ∈ ts, u.rep > k

def StartsLow (k : Nat) (b : List Triple) : Prop :=
  b = [] ∨ ∃ t ts, b = t :: ts ∧ ¬ t.rep > k

theorem takeWhile_append_all {p : Triple → Bool} {ts b : List Triple}
    (h : ∀ u ∈ ts, p u = true) (hb : b = [] ∨ ∃ t r, b = t :: r ∧ p t = false) :
    (ts ++ b).takeWhile p = ts := by
  induction ts with
  | nil =>
    rcases hb with rfl | ⟨t, r, rfl, ht⟩
    · simp
    · simp [ht]
  | cons x xs ih =>
    have hx : p x = true := h x (by simp)
    simp [hx]
    exact ih (fun u hu => h u (by simp [hu]))

theorem segLen_append {k : Nat} {a b : List Triple} (ha : GoodSeg k a) (hb : StartsLow k b) :
    segLen k (a ++ b) = a.length := by
  rcases ha with ⟨t, ts, rfl, hts⟩
  simp only [List.cons_append, segLen, List.length_cons]
  have : (ts ++ b).takeWhile (fun t => decide (t.rep > k)) = ts := by
    apply takeWhile_append_all
    · intro u hu; simpa using hts u hu
    · rcases hb with rfl | ⟨t', r, rfl, ht'⟩
      · exact Or.inl rfl
      · exact Or.inr ⟨t', r, rfl, by simpa using ht'⟩
  rw [this]; omega

inductive Pairs {α β : Type} (R : α → β → Prop) : List α → List β → Prop where
  | nil : Pairs R [] []
  | cons {a b as bs} : R a b → Pairs R as bs → Pairs R (a :: as) (b :: bs)

theorem splitHead_zipApp {k : Nat} {A B : Cols}
    (h : Pairs (fun a b => GoodSeg k a ∧ StartsLow k b) A B) :
    splitHead k (zipApp A B) = (A, B) := by
  induction h with
  | nil => simp [splitHead, zipApp]
  | cons hab _ ih =>
    rename_i a b as bs
    simp only [splitHead, zipApp, List.map_cons] at ih ⊢
    have hl := segLen_append hab.1 hab.2
    rw [hl]
    simp only [List.take_left', List.drop_left', Prod.mk.injEq, List.cons.injEq, true_and]
    simp only [Prod.mk.injEq] at ih
    exact ⟨by simp [ih.1], by simp [ih.2]⟩

theorem pairs_of_forall {α β : Type} {P : α → Prop} {Q : β → Prop} :
    ∀ {A : List α} {B : List β}, A.length = B.length → (∀ a ∈ A, P a) → (∀ b ∈ B, Q b) →
      Pairs (fun a b => P a ∧ Q b) A B
  | [], [], _, _, _ => Pairs.nil
  | a :: as, b :: bs, hl, ha, hb =>
    Pairs.cons ⟨ha a (by simp), hb b (by simp)⟩
      (pairs_of_forall (by simpa using hl) (fun x hx => ha x (by simp [hx])) (fun x hx => hb x (by simp [hx])))
  | [], _ :: _, hl, _, _ => by simp at hl
  | _ :: _, [], hl, _, _ => by simp at hl

def joinSegs (m : Nat) (segs : List Cols) : Cols := segs.foldr zipApp (List.replicate m [])

/-- a segment: m columns, each with head rep = k and tail reps > k -/
def SegCols (m k d : Nat) (seg : Cols) : Prop :=
  seg.length = m ∧ ∀ c ∈ seg, GoodCol k k d c

theorem zipApp_length : ∀ {A B : Cols}, A.length = B.length → (zipApp A B).length = A.length
  | [], [], _ => rfl
  | a :: as, b :: bs, h => by simp [zipApp, zipApp_length (A := as) (B := bs) (by simpa using h)]
  | [], _ :: _, h => by simp at h
  | _ :: _, [], h => by simp at h

theorem mem_zipApp : ∀ {A B : Cols} {c}, c ∈ zipApp A B → ∃ a ∈ A, ∃ b ∈ B, c = a ++ b
  | a :: as, b :: bs, c, h => by
    simp only [zipApp, List.mem_cons] at h
    rcases h with rfl | h
    · exact ⟨a, by simp, b, by simp, rfl⟩
    · rcases mem_zipApp h with ⟨a', ha', b', hb', rfl⟩
      exact ⟨a', by simp [ha'], b', by simp [hb'], rfl⟩
  | [], _, _, h => by simp [zipApp] at h
  | _ :: _, [], _, h => by simp [zipApp] at h

theorem goodCol_goodSeg {r k d c} (h : GoodCol r k d c) : GoodSeg k c := by
  rcases h with ⟨t, ts, rfl, _, _, hts⟩; exact ⟨t, ts, rfl, hts⟩

theorem joinSegs_props {m k d : Nat} : ∀ {segs : List Cols}, (∀ s ∈ segs, SegCols m k d s) →
    (joinSegs m segs).length = m ∧ ∀ c ∈ joinSegs m segs, StartsLow k c
  | [], _ => by
    refine ⟨by simp [joinSegs], ?_⟩
    intro c hc
    simp [joinSegs] at hc
    exact Or.inl hc.2
  | s :: rest, h => by
    have hs := h s (by simp)
    have ih := joinSegs_props (segs := rest) (fun x hx => h x (by simp [hx]))
    have hlen : s.length = (joinSegs m rest).length := by rw [hs.1, ih.1]
    refine ⟨?_, ?_⟩
    · show (zipApp s (joinSegs m rest)).length = m
      rw [zipApp_length hlen, hs.1]
    · intro c hc
      have hc' : c ∈ zipApp s (joinSegs m rest) := hc
      rcases mem_zipApp hc' with ⟨a, ha, b, _, rfl⟩
      rcases hs.2 a ha with ⟨t, ts, rfl, hr, _, _⟩
      exact Or.inr ⟨t, ts ++ b, rfl, by omega⟩

theorem splitAll_join {m k d : Nat} : ∀ {segs : List Cols} {A : Cols}, A.length = m →
    (∀ c ∈ A, GoodSeg k c) → (∀ s ∈ segs, SegCols m k d s) →
    splitAll k (segs.length + 1) (zipApp A (joinSegs m segs)) = A :: segs
  | [], A, hA, hg, _ => by
    have hp := joinSegs_props (m := m) (k := k) (d := d) (segs := []) (by simp)
    have := splitHead_zipApp (pairs_of_forall (by rw [hA, hp.1]) hg hp.2)
    simp [splitAll, this]
  | s :: rest, A, hA, hg, h => by
    have hp := joinSegs_props (m := m) (k := k) (d := d) (segs := s :: rest) h
    have := splitHead_zipApp (pairs_of_forall (by rw [hA, hp.1]) hg hp.2)
    have hs := h s (by simp)
    have ih := splitAll_join (segs := rest) (A := s) hs.1
      (fun c hc => goodCol_goodSeg (hs.2 c hc)) (fun x hx => h x (by simp [hx]))
    have hj : joinSegs m (s :: rest) = zipApp s (joinSegs m rest) := rfl
    rw [List.length_cons]
    show (splitHead k (zipApp A (joinSegs m (s :: rest)))).1 ::
      splitAll k (rest.length + 1) (splitHead k (zipApp A (joinSegs m (s :: rest)))).2 = A :: s :: rest
    rw [this]
    show A :: splitAll k (rest.length + 1) (joinSegs m (s :: rest)) = _
    rw [hj, ih]

def lowCount (k : Nat) (c : List Triple) : Nat := (c.filter (fun t => !decide (t.rep > k))).length

theorem lowCount_append (k : Nat) (a b : List Triple) : lowCount k (a ++ b) = lowCount k a + lowCount k b := by
  simp [lowCount, List.filter_append]

theorem lowCount_high {k : Nat} {ts : List Triple} (h : ∀ u ∈ ts, u.rep > k) : lowCount k ts = 0 := by
  induction ts with
  | nil => rfl
  | cons x xs ih =>
    have hx : x.rep > k := h x (by simp)
    have := ih (fun u hu => h u (by simp [hu]))
    simp [lowCount] at this ⊢
    simp [hx]
    exact this

theorem joinSegs_col0 {m k d : Nat} (hm : 0 < m) : ∀ {segs : List Cols}, (∀ s ∈ segs, SegCols m k d s) →
    ∃ j0 J, joinSegs m segs = j0 :: J ∧ lowCount k j0 = segs.length
  | [], _ => by
    cases m with
    | zero => omega
    | succ m' => exact ⟨[], List.replicate m' [], by simp [joinSegs, List.replicate_succ], rfl⟩
  | s :: rest, h => by
    have hs := h s (by simp)
    rcases joinSegs_col0 hm (segs := rest) (fun x hx => h x (by simp [hx])) with ⟨j0, J, hj, hc⟩
    cases s with
    | nil => have := hs.1; simp at this; omega
    | cons s0 s' =>
      rcases hs.2 s0 (by simp) with ⟨t, ts, rfl, hr, _, hts⟩
      refine ⟨(t :: ts) ++ j0, zipApp s' J, ?_, ?_⟩
      · show zipApp ((t :: ts) :: s') (joinSegs m rest) = _
        rw [hj]; rfl
      · rw [lowCount_append, hc]
        have h1 : lowCount k (t :: ts) = 1 := by
          have h0 := lowCount_high hts
          have : lowCount k (t :: ts) = lowCount k [t] + lowCount k ts := lowCount_append k [t] ts
          rw [this, h0]; simp [lowCount, hr]
        rw [h1]; simp; omega

theorem countElems_join {m k d : Nat} (hm : 0 < m) {segs : List Cols} {A : Cols} (hA : A.length = m)
    (hg : ∀ c ∈ A, GoodSeg k c) (h : ∀ s ∈ segs, SegCols m k d s) :
    countElems k (zipApp A (joinSegs m segs)) = segs.length + 1 := by
  rcases joinSegs_col0 hm h with ⟨j0, J, hj, hc⟩
  cases A with
  | nil => simp at hA; omega
  | cons a0 A' =>
    rcases hg a0 (by simp) with ⟨t, ts, rfl, hts⟩
    rw [hj]
    show 1 + lowCount k (ts ++ j0) = _
    rw [lowCount_append, lowCount_high hts, hc]; omega

/-! ### main theorems -/

mutual
theorem wf_leaves_posN (n : Node) (h : wfN n = true) : 0 < leavesN n := by
  cases n with
  | leaf => simp [leavesN]
  | group fs => simp [wfN] at h; simpa [leavesN] using h.2
  | opt n => simp [wfN] at h; simpa [leavesN] using wf_leaves_posN n h
  | rpt n => simp [wfN] at h; simpa [leavesN] using wf_leaves_posN n h
end

mutual
theorem absentN_cols (n : Node) (r d : Nat) : ∀ c ∈ absentN n r d, c = [⟨Option.none, r, d⟩] := by
  cases n with
  | leaf => intro c hc; simpa [absentN] using hc
  | group fs => simpa [absentN] using absentF_cols fs r d
  | opt n => simpa [absentN] using absentN_cols n r d
  | rpt n => simpa [absentN] using absentN_cols n r d
theorem absentF_cols (fs : Fields) (r d : Nat) : ∀ c ∈ absentF fs r d, c = [⟨Option.none, r, d⟩] := by
  cases fs with
  | nil => intro c hc; simp [absentF] at hc
  | cons n fs =>
    intro c hc
    simp only [absentF, List.mem_append] at hc
    rcases hc with h | h
    · exact absentN_cols n r d c h
    · exact absentF_cols fs r d c h
end

theorem firstDef_ge {m r k d : Nat} {cols : Cols} (h : Good m r k d cols) (hm : 0 < m) : d ≤ firstDef cols := by
  cases cols with
  | nil => have := h.1; simp at this; omega
  | cons c cs =>
    rcases h.2 c (by simp) with ⟨t, ts, rfl, _, hd, _⟩
    simpa [firstDef] using hd

theorem firstDef_absent (n : Node) (r d : Nat) (hm : 0 < leavesN n) : firstDef (absentN n r d) = d := by
  have hg := absentN_good n r 0 d
  have hc := absentN_cols n r d
  cases h : absentN n r d with
  | nil => rw [h] at hg; have := hg.1; simp at this; omega
  | cons c cs =>
    have := hc c (by rw [h]; simp)
    subst this
    simp [firstDef]

theorem joinSegs_high {m k d : Nat} : ∀ {segs : List Cols}, (∀ s ∈ segs, SegCols m (k + 1) d s) →
    ∀ c ∈ joinSegs m segs, ∀ u ∈ c, u.rep > k
  | [], _ => by
    intro c hc u hu
    simp [joinSegs] at hc
    rw [hc.2] at hu; simp at hu
  | s :: rest, h => by
    intro c hc u hu
    have hc' : c ∈ zipApp s (joinSegs m rest) := hc
    rcases mem_zipApp hc' with ⟨a, ha, b, hb, rfl⟩
    rcases List.mem_append.mp hu with hu | hu
    · rcases (h s (by simp)).2 a ha with ⟨t, ts, rfl, hr, _, hts⟩
      rcases List.mem_cons.mp hu with rfl | hu
      · omega
      · have := hts u hu; omega
    · exact joinSegs_high (segs := rest) (fun x hx => h x (by simp [hx])) b hb u hu

theorem good_mono {m r k d d' : Nat} {cols : Cols} (h : Good m r k d cols) (hd : d' ≤ d) : Good m r k d' cols :=
  ⟨h.1, fun c hc => by
    rcases h.2 c hc with ⟨t, ts, rfl, h1, h2, h3⟩
    exact ⟨t, ts, rfl, h1, by omega, h3⟩⟩

theorem good_rpt {m r k d : Nat} {A : Cols} {segs : List Cols} (hA : Good m r (k + 1) (d + 1) A)
    (hs : ∀ s ∈ segs, SegCols m (k + 1) (d + 1) s) :
    Good m r k (d + 1) (zipApp A (joinSegs m segs)) := by
  have hp := joinSegs_props hs
  have hh := joinSegs_high hs
  refine ⟨by rw [zipApp_length (by rw [hA.1, hp.1]), hA.1], ?_⟩
  intro c hc
  rcases mem_zipApp hc with ⟨a, ha, b, hb, rfl⟩
  rcases hA.2 a ha with ⟨t, ts, rfl, hr, hd, hts⟩
  refine ⟨t, ts ++ b, rfl, hr, hd, ?_⟩
  intro u hu
  rcases List.mem_append.mp hu with hu | hu
  · have := hts u hu; omega
  · exact hh b hb u hu

theorem map_id_of {α : Type} {f : α → α} : ∀ {l : List α}, (∀ x ∈ l, f x = x) → l.map f = l
  | [], _ => rfl
  | x :: xs, h => by
    simp only [List.map_cons]
    rw [h x (by simp), map_id_of (fun y hy => h y (by simp [hy]))]

mutual
theorem shredN_spec (n : Node) (r k d : Nat) (v : Val) (hw : wfN n = true) (hr : r ≤ k) :
    Good (leavesN n) r k d (shredN n r k d v) ∧
      (confN n v = true → asmN n k d (shredN n r k d v) = v) := by
  cases n with
  | leaf =>
    cases v <;>
      refine ⟨⟨by simp [shredN, leavesN], by
        intro c hc
        simp [shredN] at hc
        subst hc
        exact ⟨_, [], rfl, rfl, Nat.le_refl _, by simp⟩⟩, by simp [confN, shredN, asmN]⟩
  | group fs =>
    have hwf : wfF fs = true := by simp [wfN] at hw; exact hw.1
    cases v with
    | struct vs =>
      have := shredF_spec fs r k d vs hwf hr
      refine ⟨by simpa [shredN, leavesN] using this.1, ?_⟩
      intro hc
      simp only [confN] at hc
      simp [shredN, asmN, this.2 hc]
    | prim x => exact ⟨by simpa [shredN, leavesN] using absentF_good fs r k d, by simp [confN]⟩
    | none => exact ⟨by simpa [shredN, leavesN] using absentF_good fs r k d, by simp [confN]⟩
    | some w => exact ⟨by simpa [shredN, leavesN] using absentF_good fs r k d, by simp [confN]⟩
    | list ws => exact ⟨by simpa [shredN, leavesN] using absentF_good fs r k d, by simp [confN]⟩
  | opt n =>
    have hwn : wfN n = true := by simpa [wfN] using hw
    have hpos := wf_leaves_posN n hwn
    cases v with
    | some w =>
      have := shredN_spec n r k (d + 1) w hwn hr
      refine ⟨?_, ?_⟩
      · refine ⟨by simpa [shredN, leavesN] using this.1.1, ?_⟩
        intro c hc
        rcases this.1.2 c (by simpa [shredN] using hc) with ⟨t, ts, rfl, h1, h2, h3⟩
        exact ⟨t, ts, rfl, h1, by omega, h3⟩
      · intro hc
        simp only [confN] at hc
        have hge := firstDef_ge this.1 hpos
        have e : shredN (.opt n) r k d (.some w) = shredN n r k (d + 1) w := by simp [shredN]
        rw [e]; simp only [asmN]
        split
        · exfalso; omega
        · rw [this.2 hc]
    | none =>
      refine ⟨by simpa [shredN, leavesN] using absentN_good n r k d, ?_⟩
      intro _
      have e : shredN (.opt n) r k d .none = absentN n r d := by simp [shredN]
      have hf := firstDef_absent n r d hpos
      rw [e]; simp only [asmN]
      split
      · rfl
      · exfalso; omega
    | prim x => exact ⟨by simpa [shredN, leavesN] using absentN_good n r k d, by simp [confN]⟩
    | struct vs => exact ⟨by simpa [shredN, leavesN] using absentN_good n r k d, by simp [confN]⟩
    | list ws => exact ⟨by simpa [shredN, leavesN] using absentN_good n r k d, by simp [confN]⟩
  | rpt n =>
    have hwn : wfN n = true := by simpa [wfN] using hw
    have hpos := wf_leaves_posN n hwn
    cases v with
    | list ws =>
      cases ws with
      | nil =>
        refine ⟨by simpa [shredN, leavesN] using absentN_good n r k d, ?_⟩
        intro _
        have e : shredN (.rpt n) r k d (.list []) = absentN n r d := by simp [shredN]
        have hf := firstDef_absent n r d hpos
        rw [e]; simp only [asmN]
        split
        · rfl
        · exfalso; omega
      | cons w ws =>
        have hA := shredN_spec n r (k + 1) (d + 1) w hwn (by omega)
        have hS : ∀ s ∈ ws.map (shredN n (k + 1) (k + 1) (d + 1)), SegCols (leavesN n) (k + 1) (d + 1) s := by
          intro s hs
          rcases List.mem_map.mp hs with ⟨w', _, rfl⟩
          exact (shredN_spec n (k + 1) (k + 1) (d + 1) w' hwn (Nat.le_refl _)).1
        have hshape : shredN (.rpt n) r k d (.list (w :: ws)) =
            zipApp (shredN n r (k + 1) (d + 1) w)
              (joinSegs (leavesN n) (ws.map (shredN n (k + 1) (k + 1) (d + 1)))) := by
          simp [shredN, joinSegs, List.foldr_map]
        have hgood := good_rpt hA.1 hS
        refine ⟨by simpa [hshape, leavesN] using good_mono hgood (Nat.le_succ d), ?_⟩
        intro hc
        simp only [confN, List.all_cons, Bool.and_eq_true] at hc
        have hge := firstDef_ge hgood hpos
        have hgs : ∀ c ∈ shredN n r (k + 1) (d + 1) w, GoodSeg (k + 1) c :=
          fun c hc => goodCol_goodSeg (hA.1.2 c hc)
        have hcount := countElems_join hpos hA.1.1 hgs hS
        have hsplit := splitAll_join hA.1.1 hgs hS
        rw [hshape]
        simp only [asmN]
        split
        · exfalso; omega
        · rw [hcount, hsplit]
          simp only [List.map_cons, List.map_map]
          rw [hA.2 hc.1]
          have hm : List.map (asmN n (k + 1) (d + 1) ∘ shredN n (k + 1) (k + 1) (d + 1)) ws = ws := by
            apply map_id_of
            intro w' hw'
            have hcw : confN n w' = true := (List.all_eq_true.mp hc.2) w' hw'
            exact (shredN_spec n (k + 1) (k + 1) (d + 1) w' hwn (Nat.le_refl _)).2 hcw
          rw [hm]
    | prim x => exact ⟨by simpa [shredN, leavesN] using absentN_good n r k d, by simp [confN]⟩
    | struct vs => exact ⟨by simpa [shredN, leavesN] using absentN_good n r k d, by simp [confN]⟩
    | none => exact ⟨by simpa [shredN, leavesN] using absentN_good n r k d, by simp [confN]⟩
    | some w => exact ⟨by simpa [shredN, leavesN] using absentN_good n r k d, by simp [confN]⟩
theorem shredF_spec (fs : Fields) (r k d : Nat) (vs : List Val) (hw : wfF fs = true) (hr : r ≤ k) :
    Good (leavesF fs) r k d (shredF fs r k d vs) ∧
      (confF fs vs = true → asmF fs k d (shredF fs r k d vs) = vs) := by
  cases fs with
  | nil =>
    refine ⟨⟨by simp [shredF, leavesF], by intro c hc; simp [shredF] at hc⟩, ?_⟩
    intro hc
    simp [confF] at hc
    simp [asmF, hc]
  | cons n fs =>
    simp only [wfF, Bool.and_eq_true] at hw
    cases vs with
    | nil =>
      refine ⟨by simpa [shredF, leavesF] using good_append (absentN_good n r k d) (absentF_good fs r k d), ?_⟩
      intro hc; simp [confF] at hc
    | cons v vs' =>
      have h1 := shredN_spec n r k d v hw.1 hr
      have h2 := shredF_spec fs r k d vs' hw.2 hr
      refine ⟨by simpa [shredF, leavesF] using good_append h1.1 h2.1, ?_⟩
      intro hc
      simp only [confF, Bool.and_eq_true] at hc
      simp only [shredF, asmF]
      rw [List.take_left' h1.1.1, List.drop_left' h1.1.1, h1.2 hc.1, h2.2 hc.2]
end

/-- C03/C01 core: re-assembling a shredded row yields the original value. -/
theorem assemble_shred (n : Node) (v : Val) (hw : wfN n = true) (hc : confN n v = true) :
    asmN n 0 0 (shredN n 0 0 0 v) = v :=
  (shredN_spec n 0 0 0 v hw (Nat.le_refl _)).2 hc

#print axioms assemble_shred

end PqModel.Dremel
